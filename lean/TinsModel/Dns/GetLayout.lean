import TinsModel.Dns.Via
import TinsModel.Dns.Refine
/-
  The getters (`queries`, `answers`, `authority`, `additional`) and the constructor's index computation on a laid-out
  message: what they return is a function of the layout, the fixed fields and the names `compose_name` reads at the
  first octet of every name site.
-/
namespace Tins.Dns
open Out

/-- the text `compose_name` produces at `p` (the C string is taken by the caller) -/
def nameAt (buf : Bytes) (p : Nat) : Bytes :=
  match composeName buf composeFuel p [] 0 none with
  | ok r => r.1
  | _ => []

def slice (buf : Bytes) (i n : Nat) : Bytes := (buf.drop i).take n

/-- the data string the getters hand out for the record laid out as `r` -/
def viewData (buf : Bytes) (r : RecL) : RData :=
  if r.type = tAAAA then .v6 (slice buf r.dstart 16)
  else if r.type = tA then .str (showV4 (slice buf r.dstart 4))
  else if r.type = tMX then .str (cstr (nameAt buf (r.dstart + 2)))
  else if r.type = tNS ∨ r.type = tCNAME ∨ r.type = tDNAM ∨ r.type = tPTR then .str (cstr (nameAt buf r.dstart))
  else if r.type = tSOA then
    (match r.ds with
     | [σ1, σ2] => .str (encodeDomainName (cstr (nameAt buf σ1.s)) ++ encodeDomainName (cstr (nameAt buf σ2.s)) ++
         slice buf σ2.e 20)
     | _ => .str [])
  else .str (slice buf r.dstart r.rdlen)

/-- the resource the getters hand out for the record laid out as `r` -/
def viewRec (buf : Bytes) (r : RecL) : Resource :=
  ⟨cstr (nameAt buf r.own.s), r.type, u16at buf (r.own.e + 2), u32at buf (r.own.e + 4),
   if r.type = tMX then u16at buf r.dstart else 0, viewData buf r⟩

def viewQ (buf : Bytes) (σ : Site) : Query := ⟨cstr (nameAt buf σ.s), u16at buf σ.e, u16at buf (σ.e + 2)⟩

def NamesOk (buf : Bytes) (ss : List Site) : Prop :=
  ∀ σ ∈ ss, (composeName buf composeFuel σ.s [] 0 none).isOk = true

theorem isOk_iff {α} {x : Out α} : x.isOk = true ↔ ∃ a, x = ok a := by
  cases x with
  | ok a => exact ⟨fun _ => ⟨a, rfl⟩, fun _ => rfl⟩
  | throw e =>
    constructor
    · intro h; cases h
    · rintro ⟨_, h⟩; cases h
  | fault s =>
    constructor
    · intro h; cases h
    · rintro ⟨_, h⟩; cases h

theorem stream_eq {a b a' b' : Nat} (h1 : a = a') (h2 : b = b') : (⟨a, b⟩ : Stream) = ⟨a', b'⟩ := by
  subst h1 h2; rfl

theorem u16at_lt (buf : Bytes) (i : Nat) : u16at buf i < 65536 := by
  unfold u16at
  have := u8_toNat_lt (buf.getD i 0)
  have := u8_toNat_lt (buf.getD (i + 1) 0)
  omega

/-! ### stream reads at a known position -/

theorem readBE16_at {buf : Bytes} {s : Stream} (h1 : s.pos + 2 ≤ buf.length) (h2 : 2 ≤ s.rem) :
    readBE16 buf s = ok (u16at buf s.pos, ⟨s.pos + 2, s.rem - 2⟩) := by
  unfold readBE16
  rw [if_neg (by omega), rd_getD (by omega), rd_getD (by omega)]
  rfl

theorem readBE32_at {buf : Bytes} {s : Stream} (h1 : s.pos + 4 ≤ buf.length) (h2 : 4 ≤ s.rem) :
    readBE32 buf s = ok (u32at buf s.pos, ⟨s.pos + 4, s.rem - 4⟩) := by
  unfold readBE32
  rw [if_neg (by omega), rd_getD (by omega), rd_getD (by omega), rd_getD (by omega), rd_getD (by omega)]
  rfl

theorem readBytes_at {buf : Bytes} {s : Stream} {n : Nat} (h1 : s.pos + n ≤ buf.length) (h2 : n ≤ s.rem) :
    readBytes buf s n = ok (slice buf s.pos n, ⟨s.pos + n, s.rem - n⟩) := by
  unfold readBytes rdN
  rw [if_neg (by omega), if_pos h1]
  rfl

theorem nameAt_of_ok {buf : Bytes} {p : Nat} {r : Bytes × Nat} (h : composeName buf composeFuel p [] 0 none = ok r) :
    nameAt buf p = r.1 := by
  unfold nameAt; rw [h]

attribute [irreducible] nameAt

/-- `compose_name` at the first octet of a name site whose name resolves -/
theorem composeName_at_site {buf : Bytes} {σ : Site} (hn : NameSite buf σ.s σ.x σ.e)
    (hok : (composeName buf composeFuel σ.s [] 0 none).isOk = true) :
    composeName buf composeFuel σ.s [] 0 none = ok (nameAt buf σ.s, σ.e) := by
  obtain ⟨r, hr⟩ := isOk_iff.1 hok
  obtain ⟨n, j, _, _, hrn, _⟩ := composeName_site hn hr
  rw [nameAt_of_ok hr, hr, hrn]

theorem composeSkip_at {buf : Bytes} {s : Stream} {σ : Site} (hn : NameSite buf σ.s σ.x σ.e)
    (hok : (composeName buf composeFuel σ.s [] 0 none).isOk = true) (hs : s.pos = σ.s) (hr : σ.e - σ.s ≤ s.rem) :
    composeSkip buf s = ok (nameAt buf σ.s, ⟨σ.e, s.rem - (σ.e - σ.s)⟩) := by
  have b := hn.span
  unfold composeSkip
  rw [hs, composeName_at_site hn hok]
  simp only [Out.ok_bind]
  unfold Stream.skip
  rw [if_neg (by omega)]
  simp only [Out.ok_bind]
  rw [hs]
  congr 2
  exact stream_eq (by omega) rfl

/-! ### one record -/

theorem convertData_layout {buf : Bytes} {r : RecL} (h : RecAt buf r) (hok : NamesOk buf r.ds) (dname : Bytes)
    (qc ttl : Nat) {s : Stream} (hs : s.pos = r.dstart) (hr : r.rdlen ≤ s.rem) :
    convertData buf dname r.type qc ttl r.rdlen s =
      ok (⟨cstr dname, r.type, qc, ttl, if r.type = tMX then u16at buf r.dstart else 0, viewData buf r⟩,
          ⟨r.stop, s.rem - r.rdlen⟩) := by
  have hlt : r.rdlen < 65536 := by rw [h.rdlen]; exact u16at_lt _ _
  obtain ⟨own, ty, rdlen, ds⟩ := r
  obtain ⟨pos, rem⟩ := s
  have hbound := h.bound
  have hdata := h.data
  simp only [RecL.dstart, RecL.stop] at hs hr hbound hdata hlt ⊢
  subst hs
  unfold convertData mxPref
  cases hdata with
  | addr4 h1 h2 =>
    have : rdlen = 4 := by omega
    subst this
    have nmx : ty ≠ tMX := by rw [h1]; decide
    have n6 : ty ≠ tAAAA := by rw [h1]; decide
    rw [if_neg nmx]
    simp only [Out.ok_bind]
    rw [if_neg (by omega), if_neg n6, if_pos h1, readBytes_at (by dsimp only; omega) (by dsimp only; omega)]
    simp only [Out.ok_bind, viewData, RecL.dstart, if_neg n6, if_pos h1, if_neg nmx]
  | addr16 h1 h2 =>
    have : rdlen = 16 := by omega
    subst this
    have nmx : ty ≠ tMX := by rw [h1]; decide
    rw [if_neg nmx]
    simp only [Out.ok_bind]
    rw [if_neg (by omega), if_pos h1, readBytes_at (by dsimp only; omega) (by dsimp only; omega)]
    simp only [Out.ok_bind, viewData, RecL.dstart, if_pos h1, if_neg nmx]
  | name σ h1 h2 h3 h4 =>
    have hmx : ty ≠ tMX := by rcases h1 with h | h | h | h <;> (subst h; decide)
    have h6 : ty ≠ tAAAA := by rcases h1 with h | h | h | h <;> (subst h; decide)
    have h4' : ty ≠ tA := by rcases h1 with h | h | h | h <;> (subst h; decide)
    have hbr : ty = tNS ∨ ty = tCNAME ∨ ty = tDNAM ∨ ty = tPTR ∨ ty = tMX := by
      rcases h1 with h | h | h | h <;> simp [h]
    have hbr' : ty = tNS ∨ ty = tCNAME ∨ ty = tDNAM ∨ ty = tPTR := by
      rcases h1 with h | h | h | h <;> simp [h]
    rw [if_neg hmx]
    simp only [Out.ok_bind]
    rw [if_neg (by omega), if_neg h6, if_neg h4', if_pos hbr]
    have hc := composeName_at_site h3 (hok σ List.mem_cons_self)
    rw [h2] at hc
    rw [hc]
    simp only [Out.ok_bind]
    unfold Stream.skip
    rw [if_neg (by dsimp only; omega)]
    simp only [Out.ok_bind, viewData, RecL.dstart, if_neg h6, if_neg h4', if_neg hmx, if_pos hbr']
  | mx σ h1 h2 h3 h4 =>
    have b3 := h3.span
    have n6 : ty ≠ tAAAA := by rw [h1]; decide
    have n4 : ty ≠ tA := by rw [h1]; decide
    rw [if_pos h1, readBE16_at (by dsimp only; omega) (by dsimp only; omega)]
    simp only [Out.ok_bind]
    have hds : (rdlen + 65536 - 2) % 65536 = rdlen - 2 := by omega
    rw [hds, if_neg (by omega), if_neg n6, if_neg n4, if_pos (Or.inr (Or.inr (Or.inr (Or.inr h1))))]
    have hc := composeName_at_site h3 (hok σ List.mem_cons_self)
    rw [h2] at hc
    rw [hc]
    simp only [Out.ok_bind]
    unfold Stream.skip
    rw [if_neg (by dsimp only; omega)]
    simp only [Out.ok_bind, viewData, RecL.dstart, if_neg n6, if_neg n4, if_pos h1]
    rw [show own.e + 10 + 2 + (rdlen - 2) = own.e + 10 + rdlen by omega, show rem - 2 - (rdlen - 2) = rem - rdlen by omega]
  | soa σ1 σ2 h1 h2 h3 h4 h5 h6 =>
    have b3 := h3.span
    have b5 := h5.span
    have nmx : ty ≠ tMX := by rw [h1]; decide
    have n6 : ty ≠ tAAAA := by rw [h1]; decide
    have n4 : ty ≠ tA := by rw [h1]; decide
    have nn : ¬ (ty = tNS ∨ ty = tCNAME ∨ ty = tDNAM ∨ ty = tPTR ∨ ty = tMX) := by rw [h1]; decide
    have nn' : ¬ (ty = tNS ∨ ty = tCNAME ∨ ty = tDNAM ∨ ty = tPTR) := by rw [h1]; decide
    rw [if_neg nmx]
    simp only [Out.ok_bind]
    rw [if_neg (by omega), if_neg n6, if_neg n4, if_neg nn, if_pos h1]
    rw [composeSkip_at h3 (hok σ1 List.mem_cons_self) (by dsimp only; omega) (by dsimp only; omega)]
    simp only [Out.ok_bind]
    rw [composeSkip_at h5 (hok σ2 (List.mem_cons_of_mem _ List.mem_cons_self)) (by dsimp only; omega)
      (by dsimp only; omega)]
    simp only [Out.ok_bind]
    rw [readBytes_at (by dsimp only; omega) (by dsimp only; omega)]
    simp only [Out.ok_bind, viewData, RecL.dstart, if_neg n6, if_neg n4, if_neg nmx, if_neg nn', if_pos h1]
    rw [show σ2.e + 20 = own.e + 10 + rdlen by omega,
      show rem - (σ1.e - σ1.s) - (σ2.e - σ2.s) - 20 = rem - rdlen by omega]
  | raw h1 h2 h3 h4 h5 h6 h7 h8 =>
    rw [if_neg h7]
    simp only [Out.ok_bind]
    rw [if_neg (by omega), if_neg h2, if_neg h1, if_neg (by rintro (h | h | h | h | h) <;> contradiction), if_neg h8,
      readBytes_at (by dsimp only; omega) (by dsimp only; omega)]
    have nn' : ¬ (ty = tNS ∨ ty = tCNAME ∨ ty = tDNAM ∨ ty = tPTR) := by rintro (h | h | h | h) <;> contradiction
    simp only [Out.ok_bind, viewData, RecL.dstart, if_neg h2, if_neg h1, if_neg h7, if_neg nn', if_neg h8]

theorem convertOne_layout {buf : Bytes} {r : RecL} (h : RecAt buf r) (hok : NamesOk buf r.sites) {s : Stream}
    (hs : s.pos = r.own.s) (hr : r.stop - r.own.s ≤ s.rem) :
    convertOne buf s = ok (viewRec buf r, ⟨r.stop, s.rem - (r.stop - r.own.s)⟩) := by
  have bo := h.own.span
  have hb := h.bound
  have hst : r.stop = r.own.e + 10 + r.rdlen := rfl
  unfold convertOne
  rw [composeSkip_at h.own (hok r.own List.mem_cons_self) hs (by omega)]
  simp only [Out.ok_bind]
  rw [readBE16_at (by dsimp only; omega) (by dsimp only; omega)]
  simp only [Out.ok_bind]
  rw [readBE16_at (by dsimp only; omega) (by dsimp only; omega)]
  simp only [Out.ok_bind]
  rw [readBE32_at (by dsimp only; omega) (by dsimp only; omega)]
  simp only [Out.ok_bind]
  rw [readBE16_at (by dsimp only; omega) (by dsimp only; omega)]
  simp only [Out.ok_bind]
  rw [show r.own.e + 2 + 2 + 4 = r.own.e + 8 by omega, ← h.rdlen, ← h.type,
    convertData_layout h (fun σ hσ => hok σ (List.mem_cons_of_mem _ hσ)) _ _ _
      (by dsimp only; unfold RecL.dstart; omega) (by dsimp only; omega)]
  unfold viewRec
  dsimp only
  rw [show r.own.e + 2 + 2 = r.own.e + 4 by omega,
    show s.rem - (r.own.e - r.own.s) - 2 - 2 - 4 - 2 - r.rdlen = s.rem - (r.stop - r.own.s) by omega]

/-! ### a section -/

theorem namesOk_cons {buf : Bytes} {r : RecL} {rs : List RecL} (h : NamesOk buf (recSites (r :: rs))) :
    NamesOk buf r.sites ∧ NamesOk buf (recSites rs) := by
  constructor
  · intro σ hσ; apply h; simp only [recSites, List.flatMap_cons, List.mem_append]; exact Or.inl hσ
  · intro σ hσ; apply h; simp only [recSites, List.flatMap_cons, List.mem_append]; exact Or.inr hσ

theorem convertLoop_layout {buf : Bytes} {p e : Nat} {rs : List RecL} (h : SecAt buf p rs e)
    (hok : NamesOk buf (recSites rs)) : convertLoop buf rs.length ⟨p, e - p⟩ = ok (rs.map (viewRec buf)) := by
  induction h with
  | nil => rfl
  | @cons p r rs e h1 h2 h3 ih =>
    have hlt := h2.lt
    have hle := h3.le
    obtain ⟨ok1, ok2⟩ := namesOk_cons hok
    rw [List.length_cons]
    unfold convertLoop
    rw [if_neg (by dsimp only; omega), convertOne_layout h2 ok1 (by dsimp only; omega) (by dsimp only; omega)]
    simp only [Out.ok_bind]
    rw [show e - p - (r.stop - r.own.s) = e - r.stop by omega, ih ok2]
    rfl

theorem convertRecords_layout {buf : Bytes} {p e : Nat} {rs : List RecL} (h : SecAt buf p rs e)
    (hok : NamesOk buf (recSites rs)) : convertRecords buf p e rs.length = ok (rs.map (viewRec buf)) := by
  unfold convertRecords
  rw [if_neg (by have := h.le; omega)]
  exact convertLoop_layout h hok

theorem queriesLoop_layout {buf : Bytes} {p e : Nat} {qs : List Site} (h : QSecAt buf p qs e) (hok : NamesOk buf qs) :
    ∀ f, qs.length ≤ f → queriesLoop buf f ⟨p, e - p⟩ = ok (qs.map (viewQ buf)) := by
  induction h with
  | @nil p =>
    intro f _
    cases f with
    | zero => rfl
    | succ f => unfold queriesLoop; rw [if_pos (by dsimp only; omega)]; rfl
  | @cons p σ qs e h1 h2 h3 h4 h5 h6 ih =>
    intro f hf
    obtain ⟨f', rfl⟩ : ∃ f', f = f' + 1 := ⟨f - 1, by simp only [List.length_cons] at hf; omega⟩
    have b2 := h2.span
    have hle := h6.le
    unfold queriesLoop
    rw [if_neg (by dsimp only; omega), composeSkip_at h2 (hok σ List.mem_cons_self) (by dsimp only; omega)
      (by dsimp only; omega)]
    simp only [Out.ok_bind]
    rw [readBE16_at (by dsimp only; omega) (by dsimp only; omega)]
    simp only [Out.ok_bind]
    rw [readBE16_at (by dsimp only; omega) (by dsimp only; omega)]
    simp only [Out.ok_bind]
    unfold enumLoad
    rw [if_pos ⟨h4, h5⟩]
    simp only [Out.ok_bind]
    rw [show (⟨σ.e + 2 + 2, e - p - (σ.e - σ.s) - 2 - 2⟩ : Stream) = ⟨σ.e + 4, e - (σ.e + 4)⟩ from
      stream_eq (by omega) (by omega),
      ih (fun τ hτ => hok τ (List.mem_cons_of_mem _ hτ)) f' (by simp only [List.length_cons] at hf; omega)]
    rfl

theorem QSecAt.length_le {buf : Bytes} {p e : Nat} {qs : List Site} (h : QSecAt buf p qs e) : p + qs.length ≤ e := by
  induction h with
  | nil => simp
  | cons h1 h2 h3 _ _ h6 ih => have := h2.span; simp only [List.length_cons]; omega

/-! ### the four getters -/

def Layout.qsNames (L : Layout) : List Site := L.qs

theorem namesOk_parts {buf : Bytes} {L : Layout} (h : NamesOk buf L.sites) :
    NamesOk buf L.qs ∧ NamesOk buf (recSites L.an) ∧ NamesOk buf (recSites L.au) ∧ NamesOk buf (recSites L.ad) := by
  refine ⟨fun σ hσ => h σ ?_, fun σ hσ => h σ ?_, fun σ hσ => h σ ?_, fun σ hσ => h σ ?_⟩ <;>
    simp only [Layout.sites, List.mem_append] <;> simp [hσ]

theorem queries_layout {m : Msg} {L : Layout} (h : MsgAt m L) (hok : NamesOk m.recs L.sites) :
    queries m = ok (L.qs.map (viewQ m.recs)) := by
  unfold queries
  have hle := h.q.length_le
  have hqe := h.q.le
  split
  · rename_i he
    have he' : m.recs = [] := by simpa [List.isEmpty_iff] using he
    have : L.qs = [] := by
      cases hq : L.qs with
      | nil => rfl
      | cons a t =>
        have h1 := h.q
        rw [hq] at h1
        cases h1 with
        | cons _ g2 g3 _ _ _ => rw [he'] at g3; simp at g3
    rw [this]; rfl
  · have := queriesLoop_layout h.q (namesOk_parts hok).1 m.ai (by omega)
    rw [Nat.sub_zero] at this
    exact this

theorem secAt_nil_of_ge {buf : Bytes} {p e : Nat} {rs : List RecL} (h : SecAt buf p rs e) (hp : buf.length ≤ p) : rs = [] := by
  cases rs with
  | nil => rfl
  | cons r rs => have := h.pos; omega

theorem answers_layout {m : Msg} {L : Layout} (h : MsgAt m L) (hok : NamesOk m.recs L.sites) :
    answers m = ok (L.an.map (viewRec m.recs)) := by
  unfold answers
  split
  · rw [h.can]; exact convertRecords_layout h.an (namesOk_parts hok).2.1
  · rw [secAt_nil_of_ge h.an (by omega)]; rfl

theorem authority_layout {m : Msg} {L : Layout} (h : MsgAt m L) (hok : NamesOk m.recs L.sites) :
    authority m = ok (L.au.map (viewRec m.recs)) := by
  unfold authority
  split
  · rw [h.cau]; exact convertRecords_layout h.au (namesOk_parts hok).2.2.1
  · rw [secAt_nil_of_ge h.au (by omega)]; rfl

theorem additional_layout {m : Msg} {L : Layout} (h : MsgAt m L) (hok : NamesOk m.recs L.sites) :
    additional m = ok (L.ad.map (viewRec m.recs)) := by
  unfold additional
  split
  · rw [h.cad]; exact convertRecords_layout h.ad (namesOk_parts hok).2.2.2
  · rw [secAt_nil_of_ge h.ad (by omega)]; rfl

/-! ### the constructor's index computation -/

theorem skipDname_site {buf : Bytes} {p x e : Nat} (h : NameSite buf p x e) :
    ∀ f rem, e - p ≤ rem → e - p ≤ f → skipDname buf f ⟨p, rem⟩ = ok ⟨e, rem - (e - p)⟩ := by
  induction h with
  | @zero p h0 =>
    intro f rem hr hf
    obtain ⟨f', rfl⟩ : ∃ f', f = f' + 1 := ⟨f - 1, by omega⟩
    unfold skipDname readU8
    rw [if_neg (by dsimp only; omega), if_neg (by dsimp only; omega)]
    dsimp only
    rw [rd_eq_ok h0]
    simp only [Out.ok_bind]
    rw [if_pos (by rfl)]
    congr 1
    exact stream_eq rfl (by omega)
  | @ptr p hi lo h0 h1 h3 =>
    intro f rem hr hf
    obtain ⟨f', rfl⟩ : ∃ f', f = f' + 1 := ⟨f - 1, by omega⟩
    unfold skipDname readU8
    rw [if_neg (by dsimp only; omega), if_neg (by dsimp only; omega)]
    dsimp only
    rw [rd_eq_ok h0]
    simp only [Out.ok_bind]
    rw [if_neg (by omega), if_pos h3]
    unfold Stream.skip
    rw [if_neg (by dsimp only; omega)]
    congr 1
    exact stream_eq (by dsimp only) (by dsimp only; omega)
  | @label p x e len hb h1 h2 hsub ih =>
    intro f rem hr hf
    have b := hsub.span
    obtain ⟨f', rfl⟩ : ∃ f', f = f' + 1 := ⟨f - 1, by omega⟩
    unfold skipDname readU8
    rw [if_neg (by dsimp only; omega), if_neg (by dsimp only; omega)]
    dsimp only
    rw [rd_eq_ok hb, u8_ofNat_toNat (by omega)]
    simp only [Out.ok_bind]
    rw [if_neg (by omega), if_neg (by omega), if_pos (by omega)]
    unfold Stream.skip
    rw [if_neg (by dsimp only; omega)]
    simp only [Out.ok_bind]
    rw [ih f' (rem - 1 - len) (by omega) (by omega)]
    congr 1
    exact stream_eq rfl (by omega)

theorem skipQuestions_layout {buf : Bytes} {p e : Nat} {qs : List Site} (h : QSecAt buf p qs e) :
    ∀ rem, e - p ≤ rem → skipQuestions buf qs.length ⟨p, rem⟩ = ok ⟨e, rem - (e - p)⟩ := by
  induction h with
  | @nil p => intro rem _; rw [Nat.sub_self, Nat.sub_zero]; rfl
  | @cons p σ qs e h1 h2 h3 h4 h5 h6 ih =>
    intro rem hr
    have b2 := h2.span
    have hle := h6.le
    rw [List.length_cons]
    unfold skipQuestions
    dsimp only
    rw [← h1, skipDname_site h2 rem rem (by omega) (by omega)]
    simp only [Out.ok_bind]
    unfold Stream.skip
    rw [if_neg (by dsimp only; omega)]
    simp only [Out.ok_bind]
    rw [ih _ (by omega)]
    congr 1
    exact stream_eq rfl (by omega)

theorem skipSection_layout {buf : Bytes} {p e : Nat} {rs : List RecL} (h : SecAt buf p rs e) :
    ∀ rem, e - p ≤ rem → skipSection buf rs.length ⟨p, rem⟩ = ok ⟨e, rem - (e - p)⟩ := by
  induction h with
  | @nil p => intro rem _; rw [Nat.sub_self, Nat.sub_zero]; rfl
  | @cons p r rs e h1 h2 h3 ih =>
    intro rem hr
    have bo := h2.own.span
    have hle := h3.le
    have hb := h2.bound
    have hst : r.stop = r.own.e + 10 + r.rdlen := rfl
    rw [List.length_cons]
    unfold skipSection
    dsimp only
    rw [← h1, skipDname_site h2.own rem rem (by omega) (by omega)]
    simp only [Out.ok_bind]
    unfold Stream.skip
    rw [if_neg (by dsimp only; omega)]
    simp only [Out.ok_bind]
    rw [readBE16_at (by dsimp only; omega) (by dsimp only; omega)]
    simp only [Out.ok_bind]
    rw [← h2.rdlen, if_neg (by omega), if_neg (by omega)]
    simp only [Out.ok_bind]
    rw [show (⟨r.own.e + 8 + 2 + r.rdlen, rem - (r.own.e - r.own.s) - 8 - 2 - r.rdlen⟩ : Stream) =
      ⟨r.stop, rem - (r.stop - r.own.s)⟩ from stream_eq (by omega) (by omega), ih _ (by omega)]
    congr 1
    exact stream_eq rfl (by omega)

/-- **serialize + parse gives the same object** for every laid-out message -/
theorem parse_of_layout {m : Msg} {L : Layout} (h : MsgAt m L) (hh : m.hdr.length = 4) (hq : m.q < 65536)
    (han : m.an < 65536) (hau : m.au < 65536) (had : m.ad < 65536) : parse (serialize m) = ok m := by
  unfold parse
  have hlen : ¬ (serialize m).length < 12 := by
    simp only [serialize, List.length_append, be16_length, hh]; omega
  rw [if_neg hlen]
  have hdrop : (serialize m).drop 12 = m.recs := by
    have h12 : (m.hdr ++ be16 m.q ++ be16 m.an ++ be16 m.au ++ be16 m.ad).length = 12 := by
      simp only [List.length_append, be16_length, hh]
    unfold serialize
    rw [← h12, List.drop_left]
  have htake : (serialize m).take 4 = m.hdr := by
    have : serialize m = m.hdr ++ (be16 m.q ++ be16 m.an ++ be16 m.au ++ be16 m.ad ++ m.recs) := by
      simp only [serialize, List.append_assoc]
    rw [this, ← hh, List.take_left]
  have e1 : u16at (serialize m) 4 = m.q := by
    have := u16at_be16 m.hdr m.q (be16 m.an ++ be16 m.au ++ be16 m.ad ++ m.recs) hq
    rw [hh] at this
    rw [← this]; simp only [serialize, List.append_assoc]
  have e2 : u16at (serialize m) 6 = m.an := by
    have := u16at_be16 (m.hdr ++ be16 m.q) m.an (be16 m.au ++ be16 m.ad ++ m.recs) han
    simp only [List.length_append, be16_length, hh] at this
    rw [← this]; simp only [serialize, List.append_assoc]
  have e3 : u16at (serialize m) 8 = m.au := by
    have := u16at_be16 (m.hdr ++ be16 m.q ++ be16 m.an) m.au (be16 m.ad ++ m.recs) hau
    simp only [List.length_append, be16_length, hh] at this
    rw [← this]; simp only [serialize, List.append_assoc]
  have e4 : u16at (serialize m) 10 = m.ad := by
    have := u16at_be16 (m.hdr ++ be16 m.q ++ be16 m.an ++ be16 m.au) m.ad m.recs had
    simp only [List.length_append, be16_length, hh] at this
    rw [← this]; simp only [serialize, List.append_assoc]
  rw [hdrop, htake, e1, e2, e3, e4]
  dsimp only
  have hqe := h.q.le
  have hae := h.an.le
  have hue := h.au.le
  have hde := h.ad.le
  split
  · rename_i he
    have he' : m.recs = [] := by simpa [List.isEmpty_iff] using he
    have hl0 : m.recs.length = 0 := by rw [he']; rfl
    have a1 : m.ai = 0 := by omega
    have a2 : m.ui = 0 := by omega
    have a3 : m.di = 0 := by omega
    cases m
    simp only at a1 a2 a3 ⊢
    subst a1 a2 a3
    rfl
  · rw [h.cq, skipQuestions_layout h.q _ (by omega)]
    simp only [Out.ok_bind]
    rw [h.can, skipSection_layout h.an _ (by omega)]
    simp only [Out.ok_bind]
    rw [h.cau, skipSection_layout h.au _ (by omega)]
    simp only [Out.ok_bind]
    rw [← h.cq, ← h.can, ← h.cau]

end Tins.Dns
