import TinsModel.Dns.Lemmas
/-
  Memory safety of the DNS model: no raw access leaves the object, for every object state that satisfies the
  offset invariant `Inv` (which the constructor establishes and every insertion preserves), for every input.
-/
namespace Tins.Dns
open Out

/-- `answers_idx_ ≤ authority_idx_ ≤ additional_idx_ ≤ records_data_.size()` -/
def Inv (m : Msg) : Prop := m.ai ≤ m.ui ∧ m.ui ≤ m.di ∧ m.di ≤ m.recs.length

/-! ### `compose_name` -/

theorem dotOut_sat {out : Bytes} (h : out.length ≤ 255) :
    (dotOut out).sat (fun o => o.length ≤ out.length + 1 ∧ out.length ≤ o.length) := by
  unfold dotOut
  split
  · apply Out.sat_mono (outPut_sat (out := out) (bs := [46]) (by simp only [List.length_cons, List.length_nil]; omega))
    intro a ha; subst ha; simp only [List.length_append, List.length_cons, List.length_nil]; omega
  · somega

theorem composeName_sat (recs : Bytes) : ∀ (fuel ptr : Nat) (out : Bytes) (counter : Nat) (endPtr : Option Nat),
    out.length ≤ 255 → counter ≤ 31 → (32 - counter) + (255 - out.length) < fuel →
    (composeName recs fuel ptr out counter endPtr).sat (fun r => r.1.length ≤ 255)
  | 0, _, _, _, _, _, _, hf => by omega
  | f + 1, ptr, out, counter, endPtr, ho, hc, hf => by
    unfold composeName
    split
    · exact True.intro
    · rename_i hp
      apply Out.sat_bind (rd_sat (i := ptr) (by omega)); intro v hv
      split
      · apply Out.sat_bind (outPut_sat (out := out) (bs := [0]) (by simp only [List.length_cons, List.length_nil]; omega))
        intro _ _; exact ho
      · split
        · split
          · exact True.intro
          · split
            · exact True.intro
            · rename_i hcnt hp2
              apply Out.sat_bind (rd_sat (i := ptr + 1) (by omega)); intro lo hlo
              try dsimp only
              split
              · exact True.intro
              · exact composeName_sat recs f _ out (counter + 1) _ ho (by omega) (by omega)
        · split
          · exact True.intro
          · split
            · exact True.intro
            · rename_i hv0 _ _ hchk
              have hchk' : ptr + 1 + v ≤ recs.length ∧ out.length + v + 1 ≤ 255 := by omega
              apply Out.sat_bind (dotOut_sat ho); intro out1 ho1
              apply Out.sat_bind (rdN_sat (i := ptr + 1) (n := v) (by omega)); intro label hl
              apply Out.sat_bind (outPut_sat (out := out1) (bs := label) (by omega)); intro out2 ho2
              subst ho2
              have hlen : (out1 ++ label).length = out1.length + v := by rw [List.length_append, hl]
              exact composeName_sat recs f _ _ counter _ (by omega) hc (by omega)

theorem composeName_init_sat (recs : Bytes) (p : Nat) :
    (composeName recs composeFuel p [] 0 none).sat (fun r => r.1.length ≤ 255) :=
  composeName_sat recs composeFuel p [] 0 none (by simp) (by omega) (by simp [composeFuel])

theorem composeSkip_sat {recs : Bytes} {s : Stream} (h : SIn recs.length s) :
    (composeSkip recs s).sat (fun r => SIn recs.length r.2 ∧ s.pos ≤ r.2.pos ∧ r.2.rem ≤ s.rem) := by
  unfold composeSkip
  apply Out.sat_bind (composeName_init_sat recs s.pos); intro r _
  apply Out.sat_bind (skip_sat (r.2 - s.pos) h); intro s1 hs1
  somega

/-! ### `convert_records` and the getters -/

theorem mxPref_sat {recs : Bytes} {s : Stream} (type ds : Nat) (h : SIn recs.length s) :
    (mxPref recs type ds s).sat (fun r => SIn recs.length r.2.2) := by
  unfold mxPref
  split
  · apply Out.sat_bind (readBE16_sat h); intro r6 h6
    exact h6.1
  · exact h

theorem convertData_sat {recs : Bytes} {s : Stream} (dname : Bytes) (type qclass ttl ds : Nat)
    (h5 : SIn recs.length s) : (convertData recs dname type qclass ttl ds s).sat (fun r => SIn recs.length r.2) := by
  unfold convertData
  apply Out.sat_bind (mxPref_sat type ds h5); intro r6 h6
  obtain ⟨pref, dataSize, s6⟩ := r6
  dsimp only at h6 ⊢
  split
  · exact True.intro
  · split
    · apply Out.sat_bind (readBytes_sat 16 h6); intro r7 h7; exact h7.1
    · split
      · apply Out.sat_bind (readBytes_sat 4 h6); intro r7 h7; exact h7.1
      · split
        · apply Out.sat_bind (composeName_init_sat recs _); intro r7 _
          apply Out.sat_bind (skip_sat _ h6); intro r8 h8; exact h8.1
        · split
          · apply Out.sat_bind (composeSkip_sat h6); intro r7 h7
            apply Out.sat_bind (composeSkip_sat h7.1); intro r8 h8
            apply Out.sat_bind (readBytes_sat 20 h8.1); intro r9 h9; exact h9.1
          · apply Out.sat_bind (readBytes_sat _ h6); intro r7 h7; exact h7.1

theorem convertOne_sat {recs : Bytes} {s : Stream} (h : SIn recs.length s) :
    (convertOne recs s).sat (fun r => SIn recs.length r.2) := by
  unfold convertOne
  apply Out.sat_bind (composeSkip_sat h); intro r1 h1
  apply Out.sat_bind (readBE16_sat h1.1); intro r2 h2
  apply Out.sat_bind (readBE16_sat h2.1); intro r3 h3
  apply Out.sat_bind (readBE32_sat h3.1); intro r4 h4
  apply Out.sat_bind (readBE16_sat h4.1); intro r5 h5
  exact convertData_sat _ _ _ _ _ h5.1

theorem convertLoop_sat (recs : Bytes) : ∀ (n : Nat) (s : Stream), SIn recs.length s →
    (convertLoop recs n s).sat (fun _ => True)
  | 0, _, _ => True.intro
  | n + 1, s, h => by
    unfold convertLoop
    split
    · exact True.intro
    · apply Out.sat_bind (convertOne_sat h); intro r hr
      apply Out.sat_bind (convertLoop_sat recs n r.2 hr); intro _ _
      exact True.intro

theorem convertRecords_sat {recs : Bytes} {start stop count : Nat} (h1 : start ≤ stop) (h2 : stop ≤ recs.length) :
    (convertRecords recs start stop count).sat (fun _ => True) := by
  unfold convertRecords
  rw [if_neg (by omega)]
  exact convertLoop_sat recs count _ (by unfold SIn; dsimp only; omega)

theorem answers_sat {m : Msg} (h : Inv m) : (answers m).sat (fun _ => True) := by
  unfold answers; unfold Inv at h
  split
  · exact convertRecords_sat h.1 (by omega)
  · exact True.intro

theorem authority_sat {m : Msg} (h : Inv m) : (authority m).sat (fun _ => True) := by
  unfold authority; unfold Inv at h
  split
  · exact convertRecords_sat h.2.1 h.2.2
  · exact True.intro

theorem additional_sat {m : Msg} (h : Inv m) : (additional m).sat (fun _ => True) := by
  unfold additional; unfold Inv at h
  split
  · exact convertRecords_sat h.2.2 (Nat.le_refl _)
  · exact True.intro

/-- `queries` can only fault at the enum load -/
theorem queriesLoop_fault (recs : Bytes) : ∀ (f : Nat) (s : Stream), SIn recs.length s →
    ∀ site, queriesLoop recs f s = fault site → site = "enum-load"
  | 0, _, _, site, h => by simp [queriesLoop] at h
  | f + 1, s, hs, site, h => by
    unfold queriesLoop at h
    split at h
    · cases h
    · have h1 := composeSkip_sat hs
      cases hc : composeSkip recs s with
      | fault x => rw [hc] at h1; exact h1.elim
      | throw e => rw [hc] at h; cases h
      | ok r1 =>
        rw [hc] at h h1; simp only [Out.ok_bind] at h
        have h2 := readBE16_sat h1.1
        cases hc2 : readBE16 recs r1.2 with
        | fault x => rw [hc2] at h2; exact h2.elim
        | throw e => rw [hc2] at h; cases h
        | ok r2 =>
          rw [hc2] at h h2; simp only [Out.ok_bind] at h
          have h3 := readBE16_sat h2.1
          cases hc3 : readBE16 recs r2.2 with
          | fault x => rw [hc3] at h3; exact h3.elim
          | throw e => rw [hc3] at h; cases h
          | ok r3 =>
            rw [hc3] at h h3; simp only [Out.ok_bind] at h
            unfold enumLoad at h
            split at h
            · simp only [Out.ok_bind] at h
              cases hc4 : queriesLoop recs f r3.2 with
              | fault x =>
                rw [hc4] at h; simp only [Out.fault_bind] at h
                cases h
                exact queriesLoop_fault recs f r3.2 h3.1 _ hc4
              | throw e => rw [hc4] at h; cases h
              | ok r4 => rw [hc4] at h; cases h
            · simp only [Out.fault_bind] at h
              cases h; rfl

theorem queries_fault {m : Msg} (h : Inv m) (site : String) (hq : queries m = fault site) : site = "enum-load" := by
  unfold queries at hq
  split at hq
  · cases hq
  · exact queriesLoop_fault m.recs m.ai _ (by unfold SIn; dsimp only; unfold Inv at h; omega) site hq

/-! ### the constructor establishes the invariant -/

theorem skipDname_sat (buf : Bytes) : ∀ (f : Nat) (s : Stream), SIn buf.length s →
    (skipDname buf f s).sat (fun s' => SIn buf.length s' ∧ s.pos ≤ s'.pos)
  | 0, s, h => by unfold skipDname; somega
  | f + 1, s, h => by
    unfold skipDname
    split
    · somega
    · apply Out.sat_bind (readU8_sat h); intro r hr
      obtain ⟨v, s1⟩ := r
      dsimp only at hr ⊢
      split
      · somega
      · split
        · apply Out.sat_mono (skip_sat 1 hr.1); intro a ha; somega
        · split
          · apply Out.sat_bind (skip_sat v hr.1); intro s2 hs2
            apply Out.sat_mono (skipDname_sat buf f s2 hs2.1); intro a ha; somega
          · exact True.intro

theorem skipQuestions_sat (buf : Bytes) : ∀ (n : Nat) (s : Stream), SIn buf.length s →
    (skipQuestions buf n s).sat (fun s' => SIn buf.length s' ∧ s.pos ≤ s'.pos)
  | 0, s, h => by unfold skipQuestions; somega
  | n + 1, s, h => by
    unfold skipQuestions
    apply Out.sat_bind (skipDname_sat buf s.rem s h); intro s1 h1
    apply Out.sat_bind (skip_sat 4 h1.1); intro s2 h2
    apply Out.sat_mono (skipQuestions_sat buf n s2 h2.1); intro a ha; somega

theorem skipSection_sat (buf : Bytes) : ∀ (n : Nat) (s : Stream), SIn buf.length s →
    (skipSection buf n s).sat (fun s' => SIn buf.length s' ∧ s.pos ≤ s'.pos)
  | 0, s, h => by unfold skipSection; somega
  | n + 1, s, h => by
    unfold skipSection
    apply Out.sat_bind (skipDname_sat buf s.rem s h); intro s1 h1
    apply Out.sat_bind (skip_sat 8 h1.1); intro s2 h2
    apply Out.sat_bind (readBE16_sat h2.1); intro r3 h3
    obtain ⟨sz, s3⟩ := r3
    dsimp only at h3 ⊢
    split
    · exact True.intro
    · apply Out.sat_bind (skip_sat sz h3.1); intro s4 h4
      apply Out.sat_mono (skipSection_sat buf n s4 h4.1); intro a ha; somega

theorem parse_sat (b : Bytes) : (parse b).sat Inv := by
  unfold parse
  split
  · exact True.intro
  · dsimp only
    split
    · simp only [Out.sat_ok, Inv]; omega
    · have h0 : SIn (b.drop 12).length ⟨0, (b.drop 12).length⟩ := by unfold SIn; dsimp only; omega
      apply Out.sat_bind (skipQuestions_sat _ _ _ h0); intro s1 h1
      apply Out.sat_bind (skipSection_sat _ _ _ h1.1); intro s2 h2
      apply Out.sat_bind (skipSection_sat _ _ _ h2.1); intro s3 h3
      simp only [Out.sat_ok, Inv, SIn] at *
      try dsimp only
      omega

/-! ### insertion -/

theorem updateDname_sat (thr off : Nat) : ∀ (f : Nat) (data : Bytes) (ptr stop : Nat), stop ≤ data.length →
    (updateDname thr off f data ptr stop).sat (fun r => r.1.length = data.length ∧ r.2 ≤ stop ∧ ptr < r.2)
  | 0, _, _, _, _ => True.intro
  | f + 1, data, ptr, stop, h => by
    unfold updateDname
    split
    · exact True.intro
    · apply Out.sat_bind (rd_sat (i := ptr) (by omega)); intro v hv
      split
      · somega
      · split
        · split
          · exact True.intro
          · apply Out.sat_bind (rd_sat (i := ptr + 1) (by omega)); intro lo hlo
            try dsimp only
            split
            · split
              · exact True.intro
              · apply Out.sat_bind (wr2_sat (i := ptr) (by omega)); intro d hd
                somega
            · somega
        · split
          · exact True.intro
          · apply Out.sat_mono (updateDname_sat thr off f data (ptr + v + 1) stop h); intro a ha
            somega

theorem updateRdata_sat (thr off type : Nat) {d1 : Bytes} {namePtr dataEnd : Nat} (h : dataEnd ≤ d1.length) :
    (updateRdata thr off type d1 namePtr dataEnd).sat (fun d => d.length = d1.length) := by
  unfold updateRdata
  split
  · apply Out.sat_bind (updateDname_sat thr off _ d1 _ _ h); intro r2 h2
    somega
  · split
    · apply Out.sat_bind (updateDname_sat thr off _ d1 _ _ h); intro r2 h2
      apply Out.sat_bind (updateDname_sat thr off _ r2.1 r2.2 _ (by omega)); intro r3 h3
      somega
    · somega

theorem updateLoop_sat (thr off : Nat) : ∀ (n : Nat) (data : Bytes) (ptr : Nat),
    (updateLoop thr off n data ptr).sat (fun r => r.1.length = data.length)
  | 0, data, ptr => by unfold updateLoop; somega
  | n + 1, data, ptr => by
    unfold updateLoop
    apply Out.sat_bind (updateDname_sat thr off _ data ptr data.length (Nat.le_refl _)); intro r1 h1
    obtain ⟨d1, p1⟩ := r1
    dsimp only at h1 ⊢
    split
    · exact True.intro
    · apply Out.sat_bind (rd_sat (i := p1) (by omega)); intro thi _
      apply Out.sat_bind (rd_sat (i := p1 + 1) (by omega)); intro tlo _
      apply Out.sat_bind (rd_sat (i := p1 + 8) (by omega)); intro shi _
      apply Out.sat_bind (rd_sat (i := p1 + 9) (by omega)); intro slo _
      try dsimp only
      split
      · exact True.intro
      · split
        · exact True.intro
        · rename_i hlen hsz hmx
          apply Out.sat_bind (updateRdata_sat thr off _ (d1 := d1) (by omega)); intro d2 hd2'
          apply Out.sat_mono (updateLoop_sat thr off n d2 _); intro a ha
          omega

theorem updateRecords_sat {data : Bytes} {start count thr off : Nat} :
    (updateRecords data start count thr off).sat (fun r => r.1.length = data.length ∧ r.2 = start + off) := by
  unfold updateRecords
  split
  · apply Out.sat_bind (updateLoop_sat thr off count data start); intro d hd
    somega
  · somega

/-- `add_query` can only fault at the enum load; when it returns the invariant still holds -/
theorem addQuery_sat_of_enum {m : Msg} {q : Query} (h : Inv m) (he : q.type < 64 ∧ q.cls < 256) :
    (addQuery m q).sat Inv := by
  unfold addQuery enumLoad
  rw [if_pos he]
  simp only [Out.ok_bind]
  unfold Inv at h
  apply Out.sat_bind (updateRecords_sat (data := m.recs)); intro r1 h1
  apply Out.sat_bind (updateRecords_sat (data := r1.1)); intro r2 h2
  apply Out.sat_bind (updateRecords_sat (data := r2.1)); intro r3 h3
  apply Out.sat_bind (insertAt_sat (buf := r3.1) (i := m.ai) (by omega)); intro d4 h4
  simp only [Out.sat_ok, Inv]
  try dsimp only
  omega

theorem recordBytes_sat (r : NewRec) : (recordBytes r).sat (fun _ => True) := by
  unfold recordBytes
  try dsimp only
  have hp : (recordPayload r).sat (fun _ => True) := by
    unfold recordPayload
    split
    · split
      · split <;> exact True.intro
      · exact True.intro
    · split
      · split
        · split <;> exact True.intro
        · exact True.intro
      · split <;> exact True.intro
  apply Out.sat_bind hp; intro p _
  exact True.intro

theorem addRecord_sat {m : Msg} (sec : Section) (r : NewRec) (h : Inv m) : (addRecord m sec r).sat Inv := by
  unfold addRecord
  unfold Inv at h
  apply Out.sat_bind (recordBytes_sat r); intro bytes _
  cases sec with
  | answer =>
    try dsimp only
    apply Out.sat_bind (updateRecords_sat (data := m.recs)); intro r1 h1
    apply Out.sat_bind (updateRecords_sat (data := r1.1)); intro r2 h2
    apply Out.sat_bind (insertAt_sat (buf := r2.1) (i := m.ui) (by omega)); intro d3 h3
    simp only [Out.sat_ok, Inv]
    try dsimp only
    omega
  | authority =>
    try dsimp only
    apply Out.sat_bind (updateRecords_sat (data := m.recs)); intro r1 h1
    apply Out.sat_bind (insertAt_sat (buf := r1.1) (i := m.di) (by omega)); intro d2 h2
    simp only [Out.sat_ok, Inv]
    try dsimp only
    omega
  | additional =>
    try dsimp only
    apply Out.sat_bind (insertAt_sat (buf := m.recs) (i := m.recs.length) (Nat.le_refl _)); intro d1 h1
    simp only [Out.sat_ok, Inv]
    try dsimp only
    omega

end Tins.Dns

