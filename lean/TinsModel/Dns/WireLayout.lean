import TinsModel.Dns.GetLayout
/-
  Layout of what `add_query` / `add_record` write: the reference (uncompressed) encoding of a legal question / record.
  Its name sites end in terminators, resolve to the record's names, and the getters read the record's view from it.
-/
namespace Tins.Dns
open Out

def wireSite (p : Nat) (n : Name) : Site := ⟨p, p + (wireName n).length - 1, p + (wireName n).length⟩

theorem nameSite_wire {buf : Bytes} : ∀ (n : Name) (p : Nat), At buf p (wireName n) → LabelsOk n →
    NameSite buf p (p + (wireName n).length - 1) (p + (wireName n).length)
  | [], p, hat, _ => by
    rw [wireName_nil] at hat ⊢
    exact (NameSite.zero hat.get).cast rfl (by simp) (by simp)
  | l :: r, p, hat, hok => by
    have hl := hok.head
    have hpos := wireName_length_pos r
    rw [wireName_cons] at hat ⊢
    have hsub := nameSite_wire r (p + 1 + l.length) (At.tail hat).right hok.tail
    refine NameSite.label l.length hat.get hl.1 hl.2.1 (hsub.cast rfl ?_ ?_) <;>
      simp only [List.length_cons, List.length_append] <;> omega

theorem At.u16at {buf : Bytes} {p v : Nat} {rest : Bytes} (h : At buf p (be16 v ++ rest)) (hv : v < 65536) :
    u16at buf p = v := by
  obtain ⟨pre, post, rfl, rfl⟩ := h
  have := u16at_be16 pre v (rest ++ post) hv
  simpa only [List.append_assoc] using this

theorem nameAt_wire {buf : Bytes} {p : Nat} {n : Name} (hat : At buf p (wireName n)) (hok : LabelsOk n)
    (hlen : (wireName n).length ≤ 255) :
    (composeName buf composeFuel p [] 0 none).isOk = true ∧ nameAt buf p = textOf n := by
  have := compose_wire_init hat hok hlen
  exact ⟨by rw [this]; rfl, by rw [nameAt_of_ok this]⟩

def wireDataSites (a : Nat) : SData → List Site
  | .name n => [wireSite a n]
  | .mx _ n => [wireSite (a + 2) n]
  | .soa m rn _ => [wireSite a m, wireSite (a + (wireName m).length) rn]
  | _ => []

/-- the layout of the reference encoding of `r` at `p` -/
def wireRecL (p : Nat) (r : SRec) : RecL :=
  ⟨wireSite p r.owner, r.type, r.data.wire.length, wireDataSites (p + (wireName r.owner).length + 10) r.data⟩

theorem wireRecL_stop (p : Nat) (r : SRec) : (wireRecL p r).stop = p + r.wire.length := by
  rw [SRec.wire_length]; simp only [wireRecL, RecL.stop, wireSite]; omega

theorem wireRecL_start (p : Nat) (r : SRec) : (wireRecL p r).own.s = p := rfl

theorem dataSites_wire {buf : Bytes} {a t : Nat} {d : SData} {rest : Bytes} (hat : At buf a (d.wire ++ rest))
    (hd : d.legal t = true) : DataSites buf t a (a + d.wire.length) (wireDataSites a d) := by
  cases d with
  | a addr =>
    simp only [SData.legal, Bool.and_eq_true, beq_iff_eq] at hd
    exact DataSites.addr4 hd.1 (by simp only [SData.wire]; omega)
  | aaaa addr =>
    simp only [SData.legal, Bool.and_eq_true, beq_iff_eq] at hd
    exact DataSites.addr16 hd.1 (by simp only [SData.wire]; omega)
  | name n =>
    simp only [SData.legal, Bool.and_eq_true, Bool.or_eq_true, beq_iff_eq] at hd
    obtain ⟨hok, _⟩ := wireName_le_of_legal hd.2
    simp only [SData.wire] at hat ⊢
    refine DataSites.name (wireSite a n) ?_ rfl (nameSite_wire n a hat.left hok) (Nat.le_refl _)
    rcases hd.1 with ((h | h) | h) | h
    · exact Or.inl h
    · exact Or.inr (Or.inl h)
    · exact Or.inr (Or.inr (Or.inl h))
    · exact Or.inr (Or.inr (Or.inr h))
  | mx p n =>
    simp only [SData.legal, Bool.and_eq_true, beq_iff_eq, decide_eq_true_eq] at hd
    obtain ⟨hok, _⟩ := wireName_le_of_legal hd.2
    simp only [SData.wire, List.append_assoc] at hat ⊢
    have hat2 : At buf (a + 2) (wireName n ++ rest) := by have := hat.right; simpa only [be16_length] using this
    refine DataSites.mx (wireSite (a + 2) n) hd.1.1 rfl (nameSite_wire n (a + 2) hat2.left hok) ?_
    simp only [wireSite, List.length_append, be16_length]; omega
  | soa m rn tail =>
    simp only [SData.legal, Bool.and_eq_true, beq_iff_eq] at hd
    obtain ⟨hok1, _⟩ := wireName_le_of_legal hd.1.1.2
    obtain ⟨hok2, _⟩ := wireName_le_of_legal hd.1.2
    simp only [SData.wire, List.append_assoc] at hat ⊢
    refine DataSites.soa (wireSite a m) (wireSite (a + (wireName m).length) rn) hd.1.1.1 rfl
      (nameSite_wire m a hat.left hok1) rfl (nameSite_wire rn _ hat.right.left hok2) ?_
    simp only [wireSite, List.length_append]; omega
  | raw b =>
    simp only [SData.legal, Bool.and_eq_true, Bool.not_eq_true', Bool.or_eq_false_iff, beq_eq_false_iff_ne,
      decide_eq_true_eq] at hd
    obtain ⟨⟨⟨⟨⟨⟨⟨⟨h1, h2⟩, h3⟩, h4⟩, h5⟩, h6⟩, h7⟩, h8⟩, _⟩ := hd
    exact DataSites.raw h1 h2 h3 h4 h5 h6 h7 h8

theorem recAt_wire {buf : Bytes} {p : Nat} {r : SRec} {rest : Bytes} (hat : At buf p (r.wire ++ rest))
    (hl : r.legal = true) : RecAt buf (wireRecL p r) := by
  obtain ⟨hok, hwl, ht, hc, httl, hd⟩ := SRec.legal_facts hl
  have hdl := SData.wire_lt hd
  have hb := hat.left.bound
  rw [SRec.wire_eq] at hat
  simp only [List.append_assoc] at hat
  have hat1 := hat.right
  have hat2 := hat1.right
  have hat3 := hat2.right
  have hat4 := hat3.right
  have hat5 := hat4.right
  simp only [be16_length, be32_length] at hat2 hat3 hat4 hat5
  refine ⟨nameSite_wire r.owner p hat.left hok, by rw [wireRecL_stop]; exact hb, ?_, ?_, ?_⟩
  · exact (At.u16at hat1 ht).symm
  · have := At.u16at hat4 hdl
    simp only [wireRecL, wireSite]
    rw [show p + (wireName r.owner).length + 8 = p + (wireName r.owner).length + 2 + 2 + 4 by omega]
    exact this.symm
  · have := dataSites_wire hat5 hd
    simp only [wireRecL, wireSite, RecL.stop]
    rw [show p + (wireName r.owner).length + 10 = p + (wireName r.owner).length + 2 + 2 + 4 + 2 by omega]
    exact this

theorem wireSite_zero (p : Nat) (n : Name) : (wireSite p n).e = (wireSite p n).x + 1 := by
  have := wireName_length_pos n
  simp only [wireSite]; omega

theorem wireRecL_sites_zero (p : Nat) (r : SRec) : ∀ σ ∈ (wireRecL p r).sites, σ.e = σ.x + 1 := by
  intro σ hσ
  simp only [wireRecL, RecL.sites, List.mem_cons] at hσ
  rcases hσ with hσ | hσ
  · rw [hσ]; exact wireSite_zero _ _
  · cases hd : r.data with
    | a _ => rw [hd] at hσ; simp [wireDataSites] at hσ
    | aaaa _ => rw [hd] at hσ; simp [wireDataSites] at hσ
    | raw _ => rw [hd] at hσ; simp [wireDataSites] at hσ
    | name n =>
      rw [hd] at hσ; simp only [wireDataSites, List.mem_cons, List.not_mem_nil, or_false] at hσ
      rw [hσ]; exact wireSite_zero _ _
    | mx _ n =>
      rw [hd] at hσ; simp only [wireDataSites, List.mem_cons, List.not_mem_nil, or_false] at hσ
      rw [hσ]; exact wireSite_zero _ _
    | soa m rn _ =>
      rw [hd] at hσ; simp only [wireDataSites, List.mem_cons, List.not_mem_nil, or_false] at hσ
      rcases hσ with hσ | hσ <;> (rw [hσ]; exact wireSite_zero _ _)

theorem namesOk_wire {buf : Bytes} {p : Nat} {r : SRec} {rest : Bytes} (hat : At buf p (r.wire ++ rest))
    (hl : r.legal = true) : NamesOk buf (wireRecL p r).sites := by
  obtain ⟨hok, hwl, ht, hc, httl, hd⟩ := SRec.legal_facts hl
  rw [SRec.wire_eq] at hat
  simp only [List.append_assoc] at hat
  have hat5 := hat.right.right.right.right.right
  simp only [be16_length, be32_length] at hat5
  rw [show p + (wireName r.owner).length + 2 + 2 + 4 + 2 = p + (wireName r.owner).length + 10 by omega] at hat5
  intro σ hσ
  simp only [wireRecL, RecL.sites, List.mem_cons] at hσ
  rcases hσ with hσ | hσ
  · rw [hσ]; exact (nameAt_wire hat.left hok hwl).1
  · cases hdd : r.data with
    | a _ => rw [hdd] at hσ; simp [wireDataSites] at hσ
    | aaaa _ => rw [hdd] at hσ; simp [wireDataSites] at hσ
    | raw _ => rw [hdd] at hσ; simp [wireDataSites] at hσ
    | name n =>
      rw [hdd] at hσ hd hat5
      simp only [wireDataSites, List.mem_cons, List.not_mem_nil, or_false] at hσ
      simp only [SData.legal, Bool.and_eq_true] at hd
      obtain ⟨hok', hwl'⟩ := wireName_le_of_legal hd.2
      simp only [SData.wire] at hat5
      rw [hσ]; exact (nameAt_wire hat5.left hok' hwl').1
    | mx _ n =>
      rw [hdd] at hσ hd hat5
      simp only [wireDataSites, List.mem_cons, List.not_mem_nil, or_false] at hσ
      simp only [SData.legal, Bool.and_eq_true] at hd
      obtain ⟨hok', hwl'⟩ := wireName_le_of_legal hd.2
      simp only [SData.wire, List.append_assoc] at hat5
      have hat6 := hat5.right
      simp only [be16_length] at hat6
      rw [hσ]; exact (nameAt_wire hat6.left hok' hwl').1
    | soa m rn _ =>
      rw [hdd] at hσ hd hat5
      simp only [wireDataSites, List.mem_cons, List.not_mem_nil, or_false] at hσ
      simp only [SData.legal, Bool.and_eq_true] at hd
      obtain ⟨hok1, hwl1⟩ := wireName_le_of_legal hd.1.1.2
      obtain ⟨hok2, hwl2⟩ := wireName_le_of_legal hd.1.2
      simp only [SData.wire, List.append_assoc] at hat5
      rcases hσ with hσ | hσ
      · rw [hσ]; exact (nameAt_wire hat5.left hok1 hwl1).1
      · rw [hσ]; exact (nameAt_wire hat5.right.left hok2 hwl2).1

/-- the getters read the record's view from its reference encoding -/
theorem viewRec_wire {buf : Bytes} {p : Nat} {r : SRec} {rest : Bytes} (hat : At buf p (r.wire ++ rest))
    (hl : r.legal = true) : viewRec buf (wireRecL p r) = r.view := by
  have h1 := convertOne_wire (s := ⟨p, r.wire.length⟩) hat hl (Nat.le_refl _)
  have h2 := convertOne_layout (s := ⟨p, r.wire.length⟩) (recAt_wire hat hl) (namesOk_wire hat hl) rfl
    (by rw [wireRecL_stop]; dsimp only [wireRecL, wireSite]; omega)
  rw [h1] at h2
  exact ((Prod.mk.inj (Out.ok.inj h2)).1).symm

/-! ### a question -/

theorem qAt_wire {buf : Bytes} {p : Nat} {q : SQuery} {rest : Bytes} (hat : At buf p (q.wire ++ rest))
    (hl : q.legal = true) (he : q.inEnumRange = true) :
    NameSite buf p (wireSite p q.name).x (wireSite p q.name).e ∧ (wireSite p q.name).e + 4 = p + q.wire.length ∧
    u16at buf (wireSite p q.name).e < 64 ∧ u16at buf ((wireSite p q.name).e + 2) < 256 ∧
    (composeName buf composeFuel p [] 0 none).isOk = true ∧ viewQ buf (wireSite p q.name) = q.view := by
  obtain ⟨hok, hwl, ht, hc⟩ := SQuery.legal_facts hl
  simp only [SQuery.inEnumRange, Bool.and_eq_true, decide_eq_true_eq] at he
  rw [SQuery.wire_eq] at hat
  simp only [List.append_assoc] at hat
  have hat1 := hat.right
  have hat2 := hat1.right
  simp only [be16_length] at hat2
  have e1 := At.u16at hat1 ht
  have e2 := At.u16at hat2 hc
  obtain ⟨n1, n2⟩ := nameAt_wire hat.left hok hwl
  refine ⟨nameSite_wire q.name p hat.left hok, by rw [SQuery.wire_length]; simp only [wireSite]; omega, ?_, ?_, n1, ?_⟩
  · simp only [wireSite]; rw [e1]; exact he.1
  · simp only [wireSite]; rw [e2]; exact he.2
  · simp only [viewQ, wireSite, SQuery.view]
    rw [n2, e1, e2, cstr_textOf hok]

end Tins.Dns
