import TinsModel.Dns.LayoutShift
/-
  `update_dname` / `update_records` on a laid-out section: they succeed (when the re-targeted offsets still fit 14
  bits) and re-target EXACTLY the pointers that end a name site of the section and designate an offset at or after
  the insertion point.
-/
namespace Tins.Dns
open Out

/-- the pointer fields among the name sites `ss` that designate an offset at or after `thr` (a records offset) -/
def RS (ss : List Site) (thr : Nat) (d0 : Bytes) (y : Nat) : Prop :=
  ∃ σ ∈ ss, y = σ.x ∧ σ.e = σ.x + 2 ∧ thr + 12 ≤ ptrAt d0 y

/-- re-targeted offsets still fit 14 bits -/
def Fits (ss : List Site) (thr off : Nat) (d0 : Bytes) : Prop :=
  ∀ σ ∈ ss, σ.e = σ.x + 2 → thr + 12 ≤ ptrAt d0 σ.x → ptrAt d0 σ.x + off ≤ 16383

theorem Upd.congr {thr off lo hi : Nat} {d d' : Bytes} {R R' : Nat → Prop} (h : Upd thr off lo hi d d' R)
    (hiff : ∀ y, R y ↔ R' y) : Upd thr off lo hi d d' R' := by
  refine ⟨h.len, fun x hx => h.rng x ((hiff x).2 hx), fun x hx => h.ptr x ((hiff x).2 hx), ?_⟩
  intro y hy
  exact h.lit y ⟨fun hr => hy.1 ((hiff y).1 hr), fun hr => hy.2 ⟨hr.1, (hiff _).1 hr.2⟩⟩

theorem Upd.same_after {thr off lo hi : Nat} {d d' : Bytes} {R : Nat → Prop} (h : Upd thr off lo hi d d' R) {y : Nat}
    (hy : hi ≤ y) : d'[y]? = d[y]? := by
  apply h.lit
  refine ⟨fun hr => ?_, fun hr => ?_⟩
  · have := h.rng y hr; omega
  · have := h.rng (y - 1) hr.2; omega

theorem Upd.same_before {thr off lo hi : Nat} {d d' : Bytes} {R : Nat → Prop} (h : Upd thr off lo hi d d' R) {y : Nat}
    (hy : y < lo) : d'[y]? = d[y]? := by
  apply h.lit
  refine ⟨fun hr => ?_, fun hr => ?_⟩
  · have := h.rng y hr; omega
  · have := h.rng (y - 1) hr.2; omega

theorem getD_of_some {d : Bytes} {i : Nat} {b : UInt8} (h : d[i]? = some b) : d.getD i 0 = b := by
  rw [List.getD_eq_getElem?_getD, h]; rfl

theorem rd_getD {d : Bytes} {i : Nat} (h : i < d.length) : rd d i = ok (d.getD i 0).toNat := by
  unfold rd
  rw [List.getD_eq_getElem?_getD, List.getElem?_eq_getElem h]
  rfl

theorem ptrAt_of_some {d : Bytes} {x : Nat} {hi lo : UInt8} (h0 : d[x]? = some hi) (h1 : d[x + 1]? = some lo) :
    ptrAt d x = hi.toNat % 64 * 256 + lo.toNat := by
  unfold ptrAt; rw [getD_of_some h0, getD_of_some h1]

theorem ptrAt_congr {d d' : Bytes} {x x' : Nat} (h0 : d'[x']? = d[x]?) (h1 : d'[x' + 1]? = d[x + 1]?) :
    ptrAt d' x' = ptrAt d x := by
  unfold ptrAt; rw [getD_of_getElem? h0, getD_of_getElem? h1]

/-! ### `update_dname` on a name site -/

theorem updateDname_site (thr off : Nat) {d : Bytes} {p x e : Nat} (h : NameSite d p x e) :
    ∀ (f stop : Nat), e ≤ stop → stop ≤ d.length → e - p ≤ f →
    (e = x + 2 → thr + 12 ≤ ptrAt d x → ptrAt d x + off ≤ 16383) →
    ∃ d', updateDname thr off f d p stop = ok (d', e) ∧
      Upd thr off p e d d' (fun y => y = x ∧ e = x + 2 ∧ thr + 12 ≤ ptrAt d x) := by
  induction h with
  | @zero p h0 =>
    intro f stop hs hl hf _
    obtain ⟨f', rfl⟩ : ∃ f', f = f' + 1 := ⟨f - 1, by omega⟩
    refine ⟨d, ?_, (Upd.refl thr off p (p + 1) d).congr (fun y => ⟨fun hf => hf.elim, fun hr => by omega⟩)⟩
    unfold updateDname
    rw [if_neg (by omega), rd_eq_ok h0]
    simp only [Out.ok_bind]
    rw [if_pos (by rfl)]
  | @ptr p hi lo h0 h1 h3 =>
    intro f stop hs hl hf hfit
    obtain ⟨f', rfl⟩ : ∃ f', f = f' + 1 := ⟨f - 1, by omega⟩
    have hpa := ptrAt_of_some h0 h1
    have hlo := u8_toNat_lt lo
    have hhi := u8_toNat_lt hi
    unfold updateDname
    rw [if_neg (by omega), rd_eq_ok h0]
    simp only [Out.ok_bind]
    rw [if_neg (by omega), if_pos h3, if_neg (by omega), rd_eq_ok h1]
    simp only [Out.ok_bind]
    by_cases hge : thr + 12 ≤ ptrAt d p
    · have hfit' := hfit rfl hge
      rw [if_pos (by omega), if_neg (by omega)]
      have hp2 : p + 2 ≤ d.length := by omega
      cases hw : wr2 d p (192 + (hi.toNat % 64 * 256 + lo.toNat + off) / 256)
          ((hi.toNat % 64 * 256 + lo.toNat + off) % 256) with
      | fault s => unfold wr2 at hw; rw [if_pos hp2] at hw; cases hw
      | throw x => unfold wr2 at hw; rw [if_pos hp2] at hw; cases hw
      | ok d' =>
        simp only [Out.ok_bind]
        obtain ⟨hb, hlen, g0, g1, gother⟩ := wr2_get hw
        refine ⟨d', rfl, ⟨hlen, ?_, ?_, ?_⟩⟩
        · intro y hy; omega
        · intro y hy
          obtain ⟨rfl, _, _⟩ := hy
          refine ⟨hi, lo, _, _, h0, h1, g0, g1, ?_, ?_, ?_⟩
          · rw [u8_ofNat_toNat (by omega)]; omega
          · unfold ptrVal
            rw [u8_ofNat_toNat (by omega), u8_ofNat_toNat (by omega)]; omega
          · unfold ptrVal; omega
        · intro y hy
          apply gother
          · intro hyp; exact hy.1 ⟨hyp, by first | rfl | trivial, hge⟩
          · intro hy1; exact hy.2 ⟨by omega, by omega, by first | rfl | trivial, hge⟩
    · rw [if_neg (by omega)]
      exact ⟨d, rfl, (Upd.refl thr off p (p + 2) d).congr (fun y => ⟨fun hf => hf.elim, fun hr => hge hr.2.2⟩)⟩
  | @label p x e len hb h1 h2 hsub ih =>
    intro f stop hs hl hf hfit
    have hbd := hsub.bounds
    obtain ⟨f', rfl⟩ : ∃ f', f = f' + 1 := ⟨f - 1, by omega⟩
    obtain ⟨d', hd', hupd⟩ := ih f' stop hs hl (by omega) hfit
    refine ⟨d', ?_, hupd.widen (by omega) (Nat.le_refl _)⟩
    unfold updateDname
    rw [if_neg (by omega), rd_eq_ok hb, u8_ofNat_toNat (by omega)]
    simp only [Out.ok_bind]
    rw [if_neg (by omega), if_neg (by omega), if_neg (by omega),
      show p + len + 1 = p + 1 + len by omega]
    exact hd'

/-! ### the names inside the data of one record -/

theorem containsDname_iff (t : Nat) : containsDname t = true ↔ (t = tMX ∨ t = tCNAME ∨ t = tPTR ∨ t = tNS ∨ t = tDNAM) := by
  unfold containsDname
  simp only [Bool.or_eq_true, beq_iff_eq]
  constructor
  · rintro ((((h | h) | h) | h) | h)
    · exact Or.inl h
    · exact Or.inr (Or.inl h)
    · exact Or.inr (Or.inr (Or.inl h))
    · exact Or.inr (Or.inr (Or.inr (Or.inl h)))
    · exact Or.inr (Or.inr (Or.inr (Or.inr h)))
  · rintro (h | h | h | h | h)
    · exact Or.inl (Or.inl (Or.inl (Or.inl h)))
    · exact Or.inl (Or.inl (Or.inl (Or.inr h)))
    · exact Or.inl (Or.inl (Or.inr h))
    · exact Or.inl (Or.inr h)
    · exact Or.inr h

theorem same_of_eq {d d' : Bytes} {lo hi : Nat} (h : ∀ y, lo ≤ y → d'[y]? = d[y]?) :
    Same d d' 0 lo hi (fun _ => False) := fun y a _ _ => h y a

theorem ptrStill_of_eq {d d' : Bytes} {σ : Site} (hn : NameSite d σ.s σ.x σ.e) (h : ∀ y, σ.s ≤ y → d'[y]? = d[y]?) :
    PtrStill d' 0 σ := by
  intro he
  rcases hn.term with ⟨h1, _⟩ | ⟨_, hi, lo, h0, h1, h3⟩
  · omega
  · have b := hn.bounds
    exact ⟨hi, lo, by rw [Nat.add_zero, h _ b.1]; exact h0, by rw [Nat.add_zero, h _ (by omega)]; exact h1, h3⟩

/-- a name site seen in a buffer that agrees with the original from the site's first octet on -/
theorem NameSite.frame {d d' : Bytes} {σ : Site} (hn : NameSite d σ.s σ.x σ.e) (h : ∀ y, σ.s ≤ y → d'[y]? = d[y]?) :
    NameSite d' σ.s σ.x σ.e :=
  (hn.transport (same_of_eq (hi := σ.e) h) (fun _ _ _ hf => hf.elim) (ptrStill_of_eq hn h)).cast rfl rfl rfl

theorem updateRdata_sites (thr off : Nat) {d : Bytes} {ty a b : Nat} {ds : List Site} (h : DataSites d ty a b ds)
    (hb : b ≤ d.length) (hfit : Fits ds thr off d) :
    ∃ d', updateRdata thr off ty d (if ty = tMX then a + 2 else a) b = ok d' ∧ Upd thr off a (max a b) d d' (RS ds thr d) := by
  have hnil : ∀ y, False ↔ RS [] thr d y := fun y => ⟨fun hf => hf.elim, fun ⟨_, hσ, _⟩ => by cases hσ⟩
  cases h with
  | addr4 h1 h2 =>
    subst h1
    exact ⟨d, by unfold updateRdata; rw [if_neg (by decide), if_neg (by decide)], (Upd.refl thr off _ _ d).congr hnil⟩
  | addr16 h1 h2 =>
    subst h1
    exact ⟨d, by unfold updateRdata; rw [if_neg (by decide), if_neg (by decide)], (Upd.refl thr off _ _ d).congr hnil⟩
  | raw h1 h2 h3 h4 h5 h6 h7 h8 =>
    refine ⟨d, ?_, (Upd.refl thr off _ _ d).congr hnil⟩
    unfold updateRdata
    have : containsDname ty ≠ true := fun hc => by
      rcases (containsDname_iff ty).1 hc with h | h | h | h | h <;> contradiction
    rw [if_neg this, if_neg h8]
  | name σ h1 h2 h3 h4 =>
    have b3 := h3.bounds
    have hmx : ty ≠ tMX := by rcases h1 with h | h | h | h <;> (subst h; decide)
    have hc : containsDname ty = true :=
      (containsDname_iff ty).2 (by rcases h1 with h | h | h | h <;> simp [h])
    rw [if_neg hmx]
    obtain ⟨d', hd', hupd⟩ := updateDname_site thr off h3 (b - a) b h4 hb (by omega)
      (fun he hge => hfit σ List.mem_cons_self he hge)
    rw [h2] at hd' hupd
    refine ⟨d', ?_, (hupd.widen (Nat.le_refl _) (by omega)).congr ?_⟩
    · unfold updateRdata
      rw [if_pos hc, hd']; rfl
    · intro y
      constructor
      · rintro ⟨rfl, he, hge⟩; exact ⟨σ, List.mem_cons_self, rfl, he, hge⟩
      · rintro ⟨τ, hτ, rfl, he, hge⟩
        simp only [List.mem_cons, List.not_mem_nil, or_false] at hτ
        subst hτ; exact ⟨rfl, he, hge⟩
  | mx σ h1 h2 h3 h4 =>
    have b3 := h3.bounds
    have hc : containsDname ty = true := (containsDname_iff ty).2 (Or.inl h1)
    rw [if_pos h1]
    obtain ⟨d', hd', hupd⟩ := updateDname_site thr off h3 (b - (a + 2)) b h4 hb (by omega)
      (fun he hge => hfit σ List.mem_cons_self he hge)
    rw [h2] at hd' hupd
    refine ⟨d', ?_, (hupd.widen (by omega) (by omega)).congr ?_⟩
    · unfold updateRdata
      rw [if_pos hc, hd']; rfl
    · intro y
      constructor
      · rintro ⟨rfl, he, hge⟩; exact ⟨σ, List.mem_cons_self, rfl, he, hge⟩
      · rintro ⟨τ, hτ, rfl, he, hge⟩
        simp only [List.mem_cons, List.not_mem_nil, or_false] at hτ
        subst hτ; exact ⟨rfl, he, hge⟩
  | soa σ1 σ2 h1 h2 h3 h4 h5 h6 =>
    have b3 := h3.bounds
    have b5 := h5.bounds
    subst h1
    rw [if_neg (by decide)]
    obtain ⟨d1, hd1, hupd1⟩ := updateDname_site thr off h3 (b - a) b (by omega) hb (by omega)
      (fun he hge => hfit σ1 List.mem_cons_self he hge)
    rw [h2] at hd1 hupd1
    have hagree : ∀ y, σ2.s ≤ y → d1[y]? = d[y]? := fun y hy => hupd1.same_after (by omega)
    have h5' : NameSite d1 σ2.s σ2.x σ2.e := h5.frame hagree
    have hpa : ptrAt d1 σ2.x = ptrAt d σ2.x := ptrAt_congr (hagree _ b5.1) (hagree _ (by omega))
    obtain ⟨d2, hd2, hupd2⟩ := updateDname_site thr off h5' (b - σ1.e) b (by omega) (by rw [hupd1.len]; exact hb)
      (by omega) (fun he hge => by rw [hpa] at hge ⊢; exact hfit σ2 (List.mem_cons_of_mem _ List.mem_cons_self) he hge)
    rw [h4] at hd2 hupd2
    refine ⟨d2, ?_, ((hupd1.trans hupd2 (by omega) (by omega)).widen (Nat.le_refl _) (by omega)).congr ?_⟩
    · unfold updateRdata
      rw [if_neg (by decide), if_pos rfl, hd1]
      simp only [Out.ok_bind]
      rw [hd2]; rfl
    · intro y
      constructor
      · rintro (⟨rfl, he, hge⟩ | ⟨rfl, he, hge⟩)
        · exact ⟨σ1, List.mem_cons_self, rfl, he, hge⟩
        · exact ⟨σ2, List.mem_cons_of_mem _ List.mem_cons_self, rfl, he, by rw [← hpa]; exact hge⟩
      · rintro ⟨τ, hτ, rfl, he, hge⟩
        simp only [List.mem_cons, List.not_mem_nil, or_false] at hτ
        rcases hτ with hτ | hτ
        · subst hτ; exact Or.inl ⟨rfl, he, hge⟩
        · subst hτ; exact Or.inr ⟨rfl, he, by rw [hpa]; exact hge⟩

theorem DataSites.mx_len {buf : Bytes} {ty a b : Nat} {ds : List Site} (h : DataSites buf ty a b ds) (ht : ty = tMX) :
    a + 2 < b := by
  cases h with
  | addr4 g _ => rw [g] at ht; cases ht
  | addr16 g _ => rw [g] at ht; cases ht
  | raw _ _ _ _ _ _ g _ => exact (g ht).elim
  | name σ g _ _ _ => rcases g with g | g | g | g <;> (rw [g] at ht; cases ht)
  | mx σ _ g1 g2 g3 => have := g2.bounds; omega
  | soa _ _ g => rw [g] at ht; cases ht

/-! ### one iteration of the loop of `update_records` -/

theorem updateLoop_step (thr off n : Nat) {d da db : Bytes} {p p1 ty sz : Nat}
    (h1 : updateDname thr off (d.length - p) d p d.length = ok (da, p1)) (hty : ty = u16at da p1)
    (hsz : sz = u16at da (p1 + 8)) (hb : p1 + 10 + sz ≤ da.length) (hmx : ¬ (ty = tMX ∧ sz < 2))
    (h2 : updateRdata thr off ty da (if ty = tMX then p1 + 10 + 2 else p1 + 10) (p1 + 10 + sz) = ok db) :
    updateLoop thr off (n + 1) d p = updateLoop thr off n db (p1 + 10 + sz) := by
  conv => lhs; unfold updateLoop
  rw [h1]
  simp only [Out.ok_bind]
  rw [if_neg (by omega), rd_getD (by omega), rd_getD (by omega), rd_getD (by omega), rd_getD (by omega)]
  simp only [Out.ok_bind]
  have e1 : (da.getD p1 0).toNat * 256 + (da.getD (p1 + 1) 0).toNat = ty := by rw [hty]; rfl
  have e2 : (da.getD (p1 + 8) 0).toNat * 256 + (da.getD (p1 + 9) 0).toNat = sz := by
    rw [hsz]; unfold u16at; rfl
  rw [e1, e2, if_neg (by omega), if_neg hmx, h2]
  rfl

theorem Fits.sub {ss ss' : List Site} {thr off : Nat} {d d' : Bytes} (h : Fits ss thr off d)
    (hsub : ∀ σ ∈ ss', σ ∈ ss) (hpa : ∀ σ ∈ ss', ptrAt d' σ.x = ptrAt d σ.x) : Fits ss' thr off d' := by
  intro σ hσ he hge
  rw [hpa σ hσ] at hge ⊢
  exact h σ (hsub σ hσ) he hge

theorem RS_congr {ss : List Site} {thr : Nat} {d d' : Bytes} (hpa : ∀ σ ∈ ss, ptrAt d' σ.x = ptrAt d σ.x) (y : Nat) :
    RS ss thr d' y ↔ RS ss thr d y := by
  constructor
  · rintro ⟨σ, hσ, rfl, he, hge⟩; exact ⟨σ, hσ, rfl, he, by rw [← hpa σ hσ]; exact hge⟩
  · rintro ⟨σ, hσ, rfl, he, hge⟩; exact ⟨σ, hσ, rfl, he, by rw [hpa σ hσ]; exact hge⟩

/-- a record seen in a buffer that agrees with the original from the record's first octet on -/
theorem RecAt.frame {d d' : Bytes} {r : RecL} (h : RecAt d r) (hlen : d'.length = d.length)
    (hag : ∀ y, r.own.s ≤ y → d'[y]? = d[y]?) : RecAt d' r := by
  have := h.transport (d := 0) (buf' := d') (M := fun _ => False) (same_of_eq hag) (fun _ _ _ hf => hf.elim)
    (fun σ hσ => ptrStill_of_eq (h.site_mem hσ).2.2.1 (fun y hy => hag y (by have := (h.site_mem hσ).1; omega)))
    (by rw [hlen]; exact h.bound)
  rwa [RecL.add_zero] at this

theorem DataSites.frame {d d' : Bytes} {ty a b : Nat} {ds : List Site} (h : DataSites d ty a b ds)
    (hag : ∀ y, a ≤ y → d'[y]? = d[y]?) : DataSites d' ty a b ds := by
  have := h.transport (d := 0) (buf' := d') (M := fun _ => False) (same_of_eq hag) (fun _ _ _ hf => hf.elim)
    (fun σ hσ => ptrStill_of_eq (h.mem hσ).2.2 (fun y hy => hag y (by have := (h.mem hσ).1; omega)))
  rwa [map_site_add_zero] at this

theorem u16at_agree {d d' : Bytes} {i : Nat} (h0 : d'[i]? = d[i]?) (h1 : d'[i + 1]? = d[i + 1]?) :
    u16at d' i = u16at d i := by
  unfold u16at; rw [getD_of_getElem? h0, getD_of_getElem? h1]

/-- **`update_records` on a laid-out section** (`d0`: the buffer the layout was read from; `d1`: the buffer the loop
    works on, which may already carry re-targeted pointers in front of `p`) -/
theorem updateLoop_sec (thr off : Nat) {d0 : Bytes} {p e : Nat} {rs : List RecL} (h : SecAt d0 p rs e) :
    ∀ d1 : Bytes, d1.length = d0.length → (∀ y, p ≤ y → d1[y]? = d0[y]?) → Fits (recSites rs) thr off d0 →
    ∃ d2, updateLoop thr off rs.length d1 p = ok (d2, e) ∧ Upd thr off p e d1 d2 (RS (recSites rs) thr d0) := by
  induction h with
  | @nil p =>
    intro d1 _ _ _
    refine ⟨d1, rfl, (Upd.refl thr off p p d1).congr (fun y => ⟨fun hf => hf.elim, ?_⟩)⟩
    rintro ⟨_, hσ, _⟩
    simp [recSites] at hσ
  | @cons p r rs e h1 h2 h3 ih =>
    intro d1 hlen hag hfit
    have hr1 : RecAt d1 r := h2.frame hlen (fun y hy => hag y (by omega))
    have bo := hr1.own.bounds
    have hstop : r.stop = r.own.e + 10 + r.rdlen := rfl
    have hbound := hr1.bound
    have hmem : ∀ σ ∈ r.sites, σ ∈ recSites (r :: rs) := fun σ hσ => by
      simp only [recSites, List.flatMap_cons, List.mem_append]; exact Or.inl hσ
    have hmem2 : ∀ σ ∈ recSites rs, σ ∈ recSites (r :: rs) := fun σ hσ => by
      simp only [recSites, List.flatMap_cons, List.mem_append]; exact Or.inr hσ
    -- pointer values seen in `d1` are those of `d0`
    have hpa1 : ∀ σ ∈ r.sites, ptrAt d1 σ.x = ptrAt d0 σ.x := fun σ hσ => by
      have := h2.site_mem hσ
      have := this.2.2.1.bounds
      exact ptrAt_congr (hag _ (by omega)) (hag _ (by omega))
    -- the owner name
    obtain ⟨da, hda, hupa⟩ := updateDname_site thr off hr1.own (d1.length - p) d1.length (by omega) (Nat.le_refl _)
      (by omega) (fun he hge => by
        rw [hpa1 r.own List.mem_cons_self] at hge ⊢
        exact hfit r.own (hmem _ List.mem_cons_self) he hge)
    rw [h1] at hda hupa
    have haga : ∀ y, r.own.e ≤ y → da[y]? = d1[y]? := fun y hy => hupa.same_after hy
    have hdata : DataSites da r.type (r.own.e + 10) r.stop r.ds := hr1.data.frame (fun y hy => haga y (by omega))
    have hpa2 : ∀ σ ∈ r.ds, ptrAt da σ.x = ptrAt d0 σ.x := fun σ hσ => by
      have := hr1.data.mem hσ
      have := this.2.2.bounds
      rw [← hpa1 σ (List.mem_cons_of_mem _ hσ)]
      exact ptrAt_congr (haga _ (by omega)) (haga _ (by omega))
    -- the names in the data
    obtain ⟨db, hdb, hupb⟩ := updateRdata_sites thr off hdata (by rw [hupa.len]; exact hbound)
      (hfit.sub (fun σ hσ => hmem σ (List.mem_cons_of_mem _ hσ)) hpa2)
    have hmax : max (r.own.e + 10) r.stop = r.stop := by omega
    rw [hmax] at hupb
    have hagb : ∀ y, r.stop ≤ y → db[y]? = d0[y]? := fun y hy => by
      rw [hupb.same_after hy, haga y (by omega), hag y (by omega)]
    -- the remaining records
    obtain ⟨d2, hd2, hup2⟩ := ih db (by rw [hupb.len, hupa.len, hlen]) hagb
      (hfit.sub hmem2 (fun _ _ => rfl))
    have hmxsz : ¬ (r.type = tMX ∧ r.rdlen < 2) := by
      rintro ⟨ht, hs⟩
      have := hdata.mx_len ht
      omega
    have hstep := updateLoop_step thr off rs.length hda
      (by rw [u16at_agree (haga _ (Nat.le_refl _)) (haga _ (by omega))]; exact hr1.type)
      (by rw [u16at_agree (haga _ (by omega)) (haga _ (by omega))]; exact hr1.rdlen)
      (by rw [hupa.len]; exact hbound) hmxsz
      (by rw [show r.own.e + 10 + 2 = r.own.e + 10 + 2 from rfl]; exact hdb)
    refine ⟨d2, ?_, ?_⟩
    · rw [List.length_cons, hstep]; exact hd2
    · have h12 := hupa.trans (hupb.widen (show r.own.e ≤ r.own.e + 10 by omega) (Nat.le_refl _)) (by omega) (by omega)
      have h123 := h12.trans hup2 (by omega) h3.le.1
      refine h123.congr ?_
      intro y
      constructor
      · rintro ((⟨rfl, he, hge⟩ | hr) | hr)
        · exact ⟨r.own, hmem _ List.mem_cons_self, rfl, he, by rw [← hpa1 r.own List.mem_cons_self]; exact hge⟩
        · obtain ⟨σ, hσ, rfl, he, hge⟩ := hr
          exact ⟨σ, hmem _ (List.mem_cons_of_mem _ hσ), rfl, he, by rw [← hpa2 σ hσ]; exact hge⟩
        · obtain ⟨σ, hσ, rfl, he, hge⟩ := hr
          exact ⟨σ, hmem2 σ hσ, rfl, he, hge⟩
      · rintro ⟨σ, hσ, rfl, he, hge⟩
        simp only [recSites, List.flatMap_cons, List.mem_append] at hσ
        rcases hσ with hσ | hσ
        · rcases List.mem_cons.1 hσ with hσ' | hσ'
          · subst hσ'
            exact Or.inl (Or.inl ⟨rfl, he, by rw [hpa1 _ List.mem_cons_self]; exact hge⟩)
          · exact Or.inl (Or.inr ⟨σ, hσ', rfl, he, by rw [hpa2 σ hσ']; exact hge⟩)
        · exact Or.inr ⟨σ, hσ, rfl, he, hge⟩

/-- `update_records` as a whole on a laid-out section -/
theorem updateRecords_sec (thr off : Nat) {d0 : Bytes} {p e : Nat} {rs : List RecL} (h : SecAt d0 p rs e) {d1 : Bytes}
    (hlen : d1.length = d0.length) (hag : ∀ y, p ≤ y → d1[y]? = d0[y]?) (hfit : Fits (recSites rs) thr off d0) :
    ∃ d2, updateRecords d1 p rs.length thr off = ok (d2, p + off) ∧ Upd thr off p e d1 d2 (RS (recSites rs) thr d0) := by
  unfold updateRecords
  by_cases hp : p < d1.length
  · rw [if_pos hp]
    obtain ⟨d2, hd2, hup⟩ := updateLoop_sec thr off h d1 hlen hag hfit
    exact ⟨d2, by rw [hd2]; rfl, hup⟩
  · rw [if_neg hp]
    cases h with
    | nil =>
      refine ⟨d1, rfl, (Upd.refl thr off p p d1).congr (fun y => ⟨fun hf => hf.elim, ?_⟩)⟩
      rintro ⟨_, hσ, _⟩
      simp [recSites] at hσ
    | cons h1 h2 h3 =>
      have := h2.lt
      have := h2.bound
      have := h3.le
      omega

end Tins.Dns
