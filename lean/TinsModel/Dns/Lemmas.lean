import TinsModel.Dns.Spec
/-
  Basic lemmas for the DNS model: the `Out` monad (a small Hoare logic: `x.sat P` = "x does not fault and, if it
  returns, its value satisfies P"), raw accesses, streams, and the `At` predicate ("these bytes sit at this offset").
-/
namespace Tins.Dns
open Out

namespace Out

/-- `x` does not fault and, if it returns a value, the value satisfies `P` (exceptions are allowed) -/
def sat {α} (x : Out α) (P : α → Prop) : Prop :=
  match x with
  | ok a => P a
  | throw _ => True
  | fault _ => False

@[simp] theorem sat_ok {α} (a : α) (P : α → Prop) : (ok a).sat P ↔ P a := Iff.rfl
@[simp] theorem sat_pure {α} (a : α) (P : α → Prop) : (pure a : Out α).sat P ↔ P a := Iff.rfl
@[simp] theorem sat_throw {α} (e : Exc) (P : α → Prop) : (throw e : Out α).sat P ↔ True := Iff.rfl
@[simp] theorem sat_fault {α} (s : String) (P : α → Prop) : (fault s : Out α).sat P ↔ False := Iff.rfl

@[simp] theorem ok_bind {α β} (a : α) (f : α → Out β) : (ok a >>= f) = f a := rfl
@[simp] theorem pure_bind' {α β} (a : α) (f : α → Out β) : ((pure a : Out α) >>= f) = f a := rfl
@[simp] theorem throw_bind {α β} (e : Exc) (f : α → Out β) : (throw e >>= f) = throw e := rfl
@[simp] theorem fault_bind {α β} (s : String) (f : α → Out β) : (fault s >>= f) = fault s := rfl
@[simp] theorem pure_eq_ok {α} (a : α) : (pure a : Out α) = ok a := rfl

theorem sat_bind {α β} {x : Out α} {f : α → Out β} {P : α → Prop} {Q : β → Prop}
    (hx : x.sat P) (hf : ∀ a, P a → (f a).sat Q) : (x >>= f).sat Q := by
  cases x with
  | ok a => exact hf a hx
  | throw e => exact True.intro
  | fault s => exact hx.elim

theorem sat_mono {α} {x : Out α} {P Q : α → Prop} (hx : x.sat P) (h : ∀ a, P a → Q a) : x.sat Q := by
  cases x with
  | ok a => exact h a hx
  | throw e => exact True.intro
  | fault s => exact hx.elim

theorem sat_and {α} {x : Out α} {P Q : α → Prop} (h1 : x.sat P) (h2 : x.sat Q) : x.sat (fun a => P a ∧ Q a) := by
  cases x with
  | ok a => exact ⟨h1, h2⟩
  | throw e => exact True.intro
  | fault s => exact h1.elim

theorem sat_noFault {α} {x : Out α} {P : α → Prop} (hx : x.sat P) : x.isFault = false := by
  cases x with
  | ok a => rfl
  | throw e => rfl
  | fault s => exact hx.elim

theorem sat_of_eq_ok {α} {x : Out α} {P : α → Prop} {a : α} (hx : x.sat P) (h : x = ok a) : P a := by
  subst h; exact hx

theorem sat_true_of_noFault {α} {x : Out α} (h : x.isFault = false) : x.sat (fun _ => True) := by
  cases x with
  | ok a => exact True.intro
  | throw e => exact True.intro
  | fault s => simp [isFault] at h

end Out

/-- the stream lies inside a buffer of length `L` -/
def SIn (L : Nat) (s : Stream) : Prop := s.pos + s.rem ≤ L

/-- unfold `sat (ok _)` and the stream invariant, then linear arithmetic -/
macro "somega" : tactic =>
  `(tactic| ((try simp only [Out.sat_ok, Out.sat_pure, SIn, true_and, and_true] at *); (try dsimp only at *); try omega))

/-! ### bytes -/

theorem u8_ofNat_toNat {n : Nat} (h : n < 256) : (UInt8.ofNat n).toNat = n := by
  rw [UInt8.toNat_ofNat']; omega

theorem u8_toNat_lt (b : UInt8) : b.toNat < 256 := by
  have := UInt8.toNat_lt b; omega

@[simp] theorem be16_length (n : Nat) : (be16 n).length = 2 := rfl
@[simp] theorem be32_length (n : Nat) : (be32 n).length = 4 := rfl

theorem rd_sat {buf : Bytes} {i : Nat} (h : i < buf.length) : (rd buf i).sat (fun v => v < 256) := by
  unfold rd
  rw [List.getElem?_eq_getElem h]
  exact u8_toNat_lt _

theorem rd_eq_ok {buf : Bytes} {i : Nat} {b : UInt8} (h : buf[i]? = some b) : rd buf i = ok b.toNat := by
  unfold rd; rw [h]

theorem rdN_sat {buf : Bytes} {i n : Nat} (h : i + n ≤ buf.length) : (rdN buf i n).sat (fun b => b.length = n) := by
  unfold rdN
  rw [if_pos h]
  simp only [Out.sat_ok, List.length_take, List.length_drop]
  omega

theorem wr2_sat {buf : Bytes} {i hi lo : Nat} (h : i + 2 ≤ buf.length) :
    (wr2 buf i hi lo).sat (fun b => b.length = buf.length) := by
  unfold wr2
  rw [if_pos h]
  simp only [Out.sat_ok, List.length_append, List.length_take, List.length_drop, List.length_cons, List.length_nil]
  omega

theorem insertAt_sat {buf : Bytes} {i : Nat} {ins : Bytes} (h : i ≤ buf.length) :
    (insertAt buf i ins).sat (fun b => b.length = buf.length + ins.length) := by
  unfold insertAt
  rw [if_pos h]
  simp only [Out.sat_ok, List.length_append, List.length_take, List.length_drop]
  omega

theorem outPut_sat {out bs : Bytes} (h : out.length + bs.length ≤ 256) :
    (outPut out bs).sat (fun o => o = out ++ bs) := by
  unfold outPut
  rw [if_pos h]
  exact rfl

/-! ### streams inside a buffer of length `L` -/

theorem skip_sat {L : Nat} {s : Stream} (n : Nat) (h : SIn L s) :
    (s.skip n).sat (fun s' => SIn L s' ∧ s'.pos = s.pos + n ∧ s'.rem + n = s.rem) := by
  unfold Stream.skip
  split
  · exact True.intro
  · somega

theorem readU8_sat {buf : Bytes} {s : Stream} (h : SIn buf.length s) :
    (readU8 buf s).sat (fun r => SIn buf.length r.2 ∧ r.2.pos = s.pos + 1 ∧ r.2.rem + 1 = s.rem ∧ r.1 < 256) := by
  unfold readU8
  split
  · exact True.intro
  · unfold SIn at h
    apply Out.sat_bind (rd_sat (i := s.pos) (by omega)); intro a ha
    somega

theorem readBE16_sat {buf : Bytes} {s : Stream} (h : SIn buf.length s) :
    (readBE16 buf s).sat (fun r => SIn buf.length r.2 ∧ r.2.pos = s.pos + 2 ∧ r.2.rem + 2 = s.rem ∧ r.1 < 65536) := by
  unfold readBE16
  split
  · exact True.intro
  · unfold SIn at h
    apply Out.sat_bind (rd_sat (i := s.pos) (by omega)); intro a ha
    apply Out.sat_bind (rd_sat (i := s.pos + 1) (by omega)); intro b hb
    somega

theorem readBE32_sat {buf : Bytes} {s : Stream} (h : SIn buf.length s) :
    (readBE32 buf s).sat (fun r => SIn buf.length r.2 ∧ r.2.pos = s.pos + 4 ∧ r.2.rem + 4 = s.rem ∧ r.1 < 4294967296) := by
  unfold readBE32
  split
  · exact True.intro
  · unfold SIn at h
    apply Out.sat_bind (rd_sat (i := s.pos) (by omega)); intro a ha
    apply Out.sat_bind (rd_sat (i := s.pos + 1) (by omega)); intro b hb
    apply Out.sat_bind (rd_sat (i := s.pos + 2) (by omega)); intro c hc
    apply Out.sat_bind (rd_sat (i := s.pos + 3) (by omega)); intro d hd
    somega

theorem readBytes_sat {buf : Bytes} {s : Stream} (n : Nat) (h : SIn buf.length s) :
    (readBytes buf s n).sat (fun r => SIn buf.length r.2 ∧ r.2.pos = s.pos + n ∧ r.2.rem + n = s.rem ∧ r.1.length = n) := by
  unfold readBytes
  split
  · exact True.intro
  · unfold SIn at h
    apply Out.sat_bind (rdN_sat (i := s.pos) (n := n) (by omega)); intro a ha
    somega

/-! ### `At buf p bs`: the bytes `bs` sit at offset `p` of `buf` -/

def At (buf : Bytes) (p : Nat) (bs : Bytes) : Prop := ∃ pre post, buf = pre ++ bs ++ post ∧ pre.length = p

theorem At.intro' {pre bs post : Bytes} : At (pre ++ bs ++ post) pre.length bs := ⟨pre, post, rfl, rfl⟩

theorem At.bound {buf : Bytes} {p : Nat} {bs : Bytes} (h : At buf p bs) : p + bs.length ≤ buf.length := by
  obtain ⟨pre, post, rfl, rfl⟩ := h
  simp only [List.length_append]; omega

theorem At.left {buf : Bytes} {p : Nat} {a b : Bytes} (h : At buf p (a ++ b)) : At buf p a := by
  obtain ⟨pre, post, rfl, rfl⟩ := h
  exact ⟨pre, b ++ post, by simp only [List.append_assoc], rfl⟩

theorem At.right {buf : Bytes} {p : Nat} {a b : Bytes} (h : At buf p (a ++ b)) : At buf (p + a.length) b := by
  obtain ⟨pre, post, rfl, rfl⟩ := h
  exact ⟨pre ++ a, post, by simp only [List.append_assoc], by simp only [List.length_append]⟩

theorem At.tail {buf : Bytes} {p : Nat} {x : UInt8} {b : Bytes} (h : At buf p (x :: b)) : At buf (p + 1) b :=
  At.right (a := [x]) h

theorem At.get {buf : Bytes} {p : Nat} {x : UInt8} {b : Bytes} (h : At buf p (x :: b)) : buf[p]? = some x := by
  obtain ⟨pre, post, rfl, rfl⟩ := h
  simp only [List.append_assoc, List.cons_append]
  rw [List.getElem?_append_right (Nat.le_refl _)]
  simp only [Nat.sub_self, List.getElem?_cons_zero]

theorem At.rd_eq {buf : Bytes} {p : Nat} {x : UInt8} {b : Bytes} (h : At buf p (x :: b)) : rd buf p = ok x.toNat :=
  rd_eq_ok h.get

theorem At.slice {buf : Bytes} {p : Nat} {bs : Bytes} (h : At buf p bs) : (buf.drop p).take bs.length = bs := by
  obtain ⟨pre, post, rfl, rfl⟩ := h
  rw [List.append_assoc, List.drop_left, List.take_left]

theorem At.rdN_eq {buf : Bytes} {p : Nat} {bs : Bytes} (h : At buf p bs) : rdN buf p bs.length = ok bs := by
  unfold rdN
  rw [if_pos h.bound, h.slice]

theorem At.rdN_left {buf : Bytes} {p n : Nat} {a b : Bytes} (h : At buf p (a ++ b)) (hn : a.length = n) :
    rdN buf p n = ok a := by
  subst hn; exact h.left.rdN_eq

/-- two-byte big-endian value -/
theorem be16_val {v : Nat} (h : v < 65536) :
    (UInt8.ofNat (v / 256 % 256)).toNat * 256 + (UInt8.ofNat (v % 256)).toNat = v := by
  rw [u8_ofNat_toNat (by omega), u8_ofNat_toNat (by omega)]; omega

theorem be32_val {v : Nat} (h : v < 4294967296) :
    (UInt8.ofNat (v / 16777216 % 256)).toNat * 16777216 + (UInt8.ofNat (v / 65536 % 256)).toNat * 65536 +
    (UInt8.ofNat (v / 256 % 256)).toNat * 256 + (UInt8.ofNat (v % 256)).toNat = v := by
  rw [u8_ofNat_toNat (by omega), u8_ofNat_toNat (by omega), u8_ofNat_toNat (by omega), u8_ofNat_toNat (by omega)]; omega

theorem At.readBE16_eq {buf : Bytes} {s : Stream} {v : Nat} {rest : Bytes} (h : At buf s.pos (be16 v ++ rest))
    (hv : v < 65536) (hr : 2 ≤ s.rem) : readBE16 buf s = ok (v, ⟨s.pos + 2, s.rem - 2⟩) := by
  unfold readBE16
  rw [if_neg (by omega)]
  have h1 : rd buf s.pos = ok (UInt8.ofNat (v / 256 % 256)).toNat := At.rd_eq (b := UInt8.ofNat (v % 256) :: rest) h
  have h2 : rd buf (s.pos + 1) = ok (UInt8.ofNat (v % 256)).toNat := At.rd_eq (b := rest) (At.tail h)
  rw [h1]; simp only [Out.ok_bind]
  rw [h2]; simp only [Out.ok_bind]
  rw [be16_val hv]

theorem At.readBE32_eq {buf : Bytes} {s : Stream} {v : Nat} {rest : Bytes} (h : At buf s.pos (be32 v ++ rest))
    (hv : v < 4294967296) (hr : 4 ≤ s.rem) : readBE32 buf s = ok (v, ⟨s.pos + 4, s.rem - 4⟩) := by
  unfold readBE32
  rw [if_neg (by omega)]
  have h1 : rd buf s.pos = ok (UInt8.ofNat (v / 16777216 % 256)).toNat := At.rd_eq (b := _ :: _ :: _ :: rest) h
  have h2 : rd buf (s.pos + 1) = ok (UInt8.ofNat (v / 65536 % 256)).toNat := At.rd_eq (b := _ :: _ :: rest) (At.tail h)
  have h3 : rd buf (s.pos + 2) = ok (UInt8.ofNat (v / 256 % 256)).toNat := At.rd_eq (b := _ :: rest) (At.tail (At.tail h))
  have h4 : rd buf (s.pos + 3) = ok (UInt8.ofNat (v % 256)).toNat := At.rd_eq (b := rest) (At.tail (At.tail (At.tail h)))
  rw [h1]; simp only [Out.ok_bind]
  rw [h2]; simp only [Out.ok_bind]
  rw [h3]; simp only [Out.ok_bind]
  rw [h4]; simp only [Out.ok_bind]
  rw [be32_val hv]

theorem At.readBytes_eq {buf : Bytes} {s : Stream} {a rest : Bytes} (h : At buf s.pos (a ++ rest)) (hr : a.length ≤ s.rem) :
    readBytes buf s a.length = ok (a, ⟨s.pos + a.length, s.rem - a.length⟩) := by
  unfold readBytes
  rw [if_neg (by omega), h.left.rdN_eq]; rfl

end Tins.Dns
