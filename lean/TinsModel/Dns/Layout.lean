import TinsModel.Dns.Model
/-
  Layout of a stored DNS message: where the names ("name sites": labels, then a terminator or ONE compression
  pointer), the fixed fields and the record data of every question / record sit in `records_data_`, as the three
  walkers of libtins (`skip_to_*` of the constructor, `update_records` of the insertions, `convert_records` /
  `queries` of the getters) have to agree on it.  On top of it the decidable well-formedness predicate `wfMsg` of
  property C10 for messages with name compression:

    * the four sections are laid out back to back (`MsgAt`): section boundaries are the stored offsets, the header
      counts are the numbers of records, record data has the shape its type demands (A: 4 octets, AAAA: 16, a name
      inside the data of NS/CNAME/PTR/DNAME/MX, two names + 20 octets exactly for SOA);
    * every name site that ends in a pointer designates (`PtrOk`) an offset at or after the first octet of some name
      site from which the label walk reaches that site's end ("where a name starts": a label boundary of a stored
      name), and never an offset in a LATER section than the pointer itself (RFC 1035 pointers point backwards, which
      implies it; libtins also copes with forward pointers inside a section);
    * every name site resolves within `compose_name`'s caps (31 jumps, 255 octets);
    * the stored questions have type / class inside the plain enums (KF-C10-1).

  `wfMsg` is a sound executable checker (`wfMsg_sound`) used by `decide` in examples and by the run-time oracle.
-/
namespace Tins.Dns
open Out

/-- a name site: first octet, position of the terminator / pointer, one past the last octet -/
structure Site where
  s : Nat
  x : Nat
  e : Nat
deriving Repr, DecidableEq

/-- `NameSite buf p x e`: labels from `p`, then at `x` a terminator (`e = x + 1`) or a pointer (`e = x + 2`) -/
inductive NameSite (buf : Bytes) : Nat → Nat → Nat → Prop
  | zero {p} : buf[p]? = some 0 → NameSite buf p p (p + 1)
  | ptr {p} (hi lo : UInt8) : buf[p]? = some hi → buf[p + 1]? = some lo → hi.toNat / 64 = 3 → NameSite buf p p (p + 2)
  | label {p x e} (len : Nat) : buf[p]? = some (UInt8.ofNat len) → 1 ≤ len → len ≤ 63 →
      NameSite buf (p + 1 + len) x e → NameSite buf p x e

/-- the 14-bit offset stored in the two octets at `x` -/
def ptrAt (buf : Bytes) (x : Nat) : Nat := (buf.getD x 0).toNat % 64 * 256 + (buf.getD (x + 1) 0).toNat

/-- big-endian 32-bit value at `i` -/
def u32at (b : Bytes) (i : Nat) : Nat :=
  (b.getD i 0).toNat * 16777216 + (b.getD (i + 1) 0).toNat * 65536 + (b.getD (i + 2) 0).toNat * 256 + (b.getD (i + 3) 0).toNat

/-- layout of one resource record: owner name site, type, RDLENGTH, name sites inside the data -/
structure RecL where
  own : Site
  type : Nat
  rdlen : Nat
  ds : List Site
deriving Repr, DecidableEq

def RecL.start (r : RecL) : Nat := r.own.s
def RecL.dstart (r : RecL) : Nat := r.own.e + 10
def RecL.stop (r : RecL) : Nat := r.own.e + 10 + r.rdlen
def RecL.sites (r : RecL) : List Site := r.own :: r.ds

/-- the name sites in the data `[a, b)` of a record of type `ty`, and the shape of the data the getters rely on -/
inductive DataSites (buf : Bytes) (ty a b : Nat) : List Site → Prop
  | addr4 : ty = tA → b = a + 4 → DataSites buf ty a b []
  | addr16 : ty = tAAAA → b = a + 16 → DataSites buf ty a b []
  | name (σ : Site) : (ty = tNS ∨ ty = tCNAME ∨ ty = tPTR ∨ ty = tDNAM) → σ.s = a → NameSite buf σ.s σ.x σ.e →
      σ.e ≤ b → DataSites buf ty a b [σ]
  | mx (σ : Site) : ty = tMX → σ.s = a + 2 → NameSite buf σ.s σ.x σ.e → σ.e ≤ b → DataSites buf ty a b [σ]
  | soa (σ1 σ2 : Site) : ty = tSOA → σ1.s = a → NameSite buf σ1.s σ1.x σ1.e → σ2.s = σ1.e →
      NameSite buf σ2.s σ2.x σ2.e → σ2.e + 20 = b → DataSites buf ty a b [σ1, σ2]
  | raw : ty ≠ tA → ty ≠ tAAAA → ty ≠ tNS → ty ≠ tCNAME → ty ≠ tPTR → ty ≠ tDNAM → ty ≠ tMX → ty ≠ tSOA →
      DataSites buf ty a b []

structure RecAt (buf : Bytes) (r : RecL) : Prop where
  own : NameSite buf r.own.s r.own.x r.own.e
  bound : r.stop ≤ buf.length
  type : r.type = u16at buf r.own.e
  rdlen : r.rdlen = u16at buf (r.own.e + 8)
  data : DataSites buf r.type (r.own.e + 10) r.stop r.ds

/-- `rs` are laid out back to back from `p` to `e` -/
inductive SecAt (buf : Bytes) : Nat → List RecL → Nat → Prop
  | nil {p} : SecAt buf p [] p
  | cons {p r rs e} : r.own.s = p → RecAt buf r → SecAt buf r.stop rs e → SecAt buf p (r :: rs) e

/-- questions back to back: name site + QTYPE + QCLASS (both inside the enums of `DNS::query`) -/
inductive QSecAt (buf : Bytes) : Nat → List Site → Nat → Prop
  | nil {p} : QSecAt buf p [] p
  | cons {p σ qs e} : σ.s = p → NameSite buf σ.s σ.x σ.e → σ.e + 4 ≤ buf.length →
      u16at buf σ.e < 64 → u16at buf (σ.e + 2) < 256 → QSecAt buf (σ.e + 4) qs e → QSecAt buf p (σ :: qs) e

structure Layout where
  qs : List Site
  an : List RecL
  au : List RecL
  ad : List RecL
deriving Repr, DecidableEq

def recSites (rs : List RecL) : List Site := rs.flatMap RecL.sites

def Layout.sites (L : Layout) : List Site := L.qs ++ (recSites L.an ++ (recSites L.au ++ recSites L.ad))

/-- the stored offsets are the section boundaries of the layout, the header counts its record counts, and nothing
    follows the last additional record -/
structure MsgAt (m : Msg) (L : Layout) : Prop where
  q : QSecAt m.recs 0 L.qs m.ai
  an : SecAt m.recs m.ai L.an m.ui
  au : SecAt m.recs m.ui L.au m.di
  ad : SecAt m.recs m.di L.ad m.recs.length
  cq : m.q = L.qs.length
  can : m.an = L.an.length
  cau : m.au = L.au.length
  cad : m.ad = L.ad.length

/-- the pointer that ends the name site `σ` -/
structure PtrOk (m : Msg) (sites : List Site) (σ : Site) : Prop where
  lo : 12 ≤ ptrAt m.recs σ.x
  tgt : ∃ τ ∈ sites, τ.s ≤ ptrAt m.recs σ.x - 12 ∧ NameSite m.recs (ptrAt m.recs σ.x - 12) τ.x τ.e
  sq : σ.x < m.ai → ptrAt m.recs σ.x - 12 < m.ai
  sa : σ.x < m.ui → ptrAt m.recs σ.x - 12 < m.ui
  su : σ.x < m.di → ptrAt m.recs σ.x - 12 < m.di

/-- well-formed stored message (with or without name compression) -/
structure WFL (m : Msg) (L : Layout) : Prop where
  lay : MsgAt m L
  ptr : ∀ σ ∈ L.sites, σ.e = σ.x + 2 → PtrOk m L.sites σ
  res : ∀ σ ∈ L.sites, (composeName m.recs composeFuel σ.s [] 0 none).isOk = true
  hdr : m.hdr.length = 4

def WFP (m : Msg) : Prop := ∃ L, WFL m L

/-! ### the executable checker -/

def nameSiteB (buf : Bytes) : Nat → Nat → Option (Nat × Nat)
  | 0, _ => none
  | f + 1, p =>
    match buf[p]? with
    | none => none
    | some b =>
      if b = 0 then some (p, p + 1)
      else if b.toNat / 64 = 3 then
        (match buf[p + 1]? with
         | some _ => some (p, p + 2)
         | none => none)
      else if b.toNat / 64 = 0 then nameSiteB buf f (p + 1 + b.toNat)
      else none

def siteB (buf : Bytes) (p : Nat) : Option Site :=
  match nameSiteB buf (buf.length + 1) p with
  | some (x, e) => some ⟨p, x, e⟩
  | none => none

def dataSitesB (buf : Bytes) (ty a b : Nat) : Option (List Site) :=
  if ty = tA then (if b = a + 4 then some [] else none)
  else if ty = tAAAA then (if b = a + 16 then some [] else none)
  else if ty = tNS ∨ ty = tCNAME ∨ ty = tPTR ∨ ty = tDNAM then
    (match siteB buf a with
     | some σ => if σ.e ≤ b then some [σ] else none
     | none => none)
  else if ty = tMX then
    (match siteB buf (a + 2) with
     | some σ => if σ.e ≤ b then some [σ] else none
     | none => none)
  else if ty = tSOA then
    (match siteB buf a with
     | some σ1 =>
       (match siteB buf σ1.e with
        | some σ2 => if σ2.e + 20 = b then some [σ1, σ2] else none
        | none => none)
     | none => none)
  else some []

def recB (buf : Bytes) (p : Nat) : Option RecL :=
  match siteB buf p with
  | none => none
  | some σ =>
    if σ.e + 10 + u16at buf (σ.e + 8) ≤ buf.length then
      (match dataSitesB buf (u16at buf σ.e) (σ.e + 10) (σ.e + 10 + u16at buf (σ.e + 8)) with
       | some ds => some ⟨σ, u16at buf σ.e, u16at buf (σ.e + 8), ds⟩
       | none => none)
    else none

def secB (buf : Bytes) : Nat → Nat → Option (List RecL × Nat)
  | 0, p => some ([], p)
  | n + 1, p =>
    match recB buf p with
    | none => none
    | some r =>
      (match secB buf n r.stop with
       | some (rs, e) => some (r :: rs, e)
       | none => none)

def qsecB (buf : Bytes) : Nat → Nat → Option (List Site × Nat)
  | 0, p => some ([], p)
  | n + 1, p =>
    match siteB buf p with
    | none => none
    | some σ =>
      if σ.e + 4 ≤ buf.length ∧ u16at buf σ.e < 64 ∧ u16at buf (σ.e + 2) < 256 then
        (match qsecB buf n (σ.e + 4) with
         | some (qs, e) => some (σ :: qs, e)
         | none => none)
      else none

def layoutB (m : Msg) : Option Layout :=
  match qsecB m.recs m.q 0 with
  | none => none
  | some (qs, e1) =>
    if e1 = m.ai then
      (match secB m.recs m.an m.ai with
       | none => none
       | some (an, e2) =>
         if e2 = m.ui then
           (match secB m.recs m.au m.ui with
            | none => none
            | some (au, e3) =>
              if e3 = m.di then
                (match secB m.recs m.ad m.di with
                 | none => none
                 | some (ad, e4) => if e4 = m.recs.length then some ⟨qs, an, au, ad⟩ else none)
              else none)
         else none)
    else none

/-- the pointer designates a label boundary of a stored name (one of the name sites `update_records` knows) -/
def ptrTgtB (m : Msg) (sites : List Site) (σ : Site) : Bool :=
  let g := ptrAt m.recs σ.x
  decide (12 ≤ g) &&
  (match nameSiteB m.recs (m.recs.length + 1) (g - 12) with
   | some (x, e) => sites.any (fun τ => decide (τ.s ≤ g - 12) && decide (τ.x = x) && decide (τ.e = e))
   | none => false)

/-- the pointer does not designate an offset in a later section than its own -/
def ptrSecB (m : Msg) (σ : Site) : Bool :=
  let g := ptrAt m.recs σ.x
  decide (σ.x < m.ai → g - 12 < m.ai) && decide (σ.x < m.ui → g - 12 < m.ui) && decide (σ.x < m.di → g - 12 < m.di)

def ptrOkB (m : Msg) (sites : List Site) (σ : Site) : Bool := ptrTgtB m sites σ && ptrSecB m σ

/-- everything but the pointer conditions: the layout, names that resolve within the caps, a 4-octet id/flags field -/
def layoutOkB (m : Msg) (L : Layout) : Bool :=
  L.sites.all (fun σ => (composeName m.recs composeFuel σ.s [] 0 none).isOk) && decide (m.hdr.length = 4)

def wfLayoutB (m : Msg) (L : Layout) : Bool :=
  L.sites.all (fun σ => (decide (σ.e ≠ σ.x + 2) || ptrOkB m L.sites σ) &&
    (composeName m.recs composeFuel σ.s [] 0 none).isOk) && decide (m.hdr.length = 4)

/-- **the decidable well-formedness predicate of C10 for stored messages** -/
def wfMsg (m : Msg) : Bool :=
  match layoutB m with
  | some L => wfLayoutB m L
  | none => false

end Tins.Dns
