import TinsModel.Dns.Model
/-
  Code-shaped, fault-explicit model of the typed SOA accessor `DNS::soa_record` (src/dns.cpp): the constructor from a
  buffer `soa_record(const uint8_t*, uint32_t)` = `soa_record::init` (also what `soa_record(const DNS::resource&)` runs on
  the data string a section getter handed out), `read_encoded_dname`, `DNS::decode_domain_name`, and
  `soa_record::serialize`.

  * `init` reads through an `InputMemoryStream` over the caller's buffer; `read_encoded_dname` additionally walks the raw
    range `[stream.pointer(), stream.pointer() + stream.size())` with `std::find` and copies `[start, terminator)` into a
    `std::string`: both are raw accesses and go through `rd` / `rdN`, so a search that left the buffer would be a `fault`.
    (Before the fix `fix: DNS::soa_record read the encoded names as C strings …` the code was
    `string domain = (const char*)stream.pointer()`: an unbounded `strlen` — in this model `findNul` with fuel
    `buf.length + 1` instead of `stream.size()`, which faults on a buffer that holds no NUL; see `SoaLemmas.lean`.)
  * `decode_domain_name` walks the `std::string` with raw pointers: `while (*ptr)` may be evaluated with `ptr == end`,
    where it reads the string's terminator (`&s[0] + s.size()` is readable and 0 since C++11) — the memory of the string
    is therefore `dn ++ [0]` here, and every `*ptr`, `ptr + size` goes through `rd` / `rdN` over it.
  * Exceptions: `malformed_packet` (stream, missing terminator, label past the end) and `invalid_domain_name`
    (a length octet with one of the two high bits set — "We can't handle offsets" — or more than 256 octets of text).
  * `uint32_t total_sz`: buffers below 4 GiB (assumption of every parser model).
-/
namespace Tins.Dns
open Out

structure Soa where
  mname : Bytes
  rname : Bytes
  serial : Nat
  refresh : Nat
  retry : Nat
  expire : Nat
  minimum : Nat
deriving Repr, DecidableEq

/-- `std::find(start, end, 0)` over `count` octets from position `p`: the index of the first NUL, `none` = `end` -/
def findNul (buf : Bytes) : Nat → Nat → Out (Option Nat)
  | 0, _ => ok none
  | count + 1, p => do
    let v ← rd buf p
    if v = 0 then ok (some p) else findNul buf count (p + 1)

/-- `read_encoded_dname(stream)` -/
def readEncodedDname (buf : Bytes) (s : Stream) : Out (Bytes × Stream) := do
  let t ← findNul buf s.rem s.pos                 -- start = stream.pointer(), end = start + stream.size()
  match t with
  | none => throw .malformedPacket                -- terminator == end
  | some t => do
    let output ← rdN buf s.pos (t - s.pos)        -- string output(start, terminator)
    let s' ← s.skip (output.length + 1)
    ok (output, s')

/-- the loop of `DNS::decode_domain_name`; `mem` = the string's memory (contents + terminator), `endp` = `size()`.
    Every iteration that continues advances `ptr` by at least 2, so `fuel > endp - ptr` is enough. -/
def decodeGo (mem : Bytes) (endp : Nat) : Nat → Nat → Bytes → Out Bytes
  | 0, _, _ => fault "fuel"
  | f + 1, ptr, out => do
    let v ← rd mem ptr                                        -- while (*ptr)
    if v = 0 then ok out
    else if v / 64 ≠ 0 then throw .invalidDomainName          -- if ((*ptr & 0xc0))
    else
      let ptr1 := ptr + 1                                     -- size = *ptr; ptr++
      if ptr1 + v > endp then throw .malformedPacket          -- if (ptr + size > end)
      else do
        let out1 := if out.length ≠ 0 then out ++ [46] else out   -- if (!output.empty()) output.push_back('.')
        let label ← rdN mem ptr1 v                            -- output.insert(output.end(), ptr, ptr + size)
        let out2 := out1 ++ label
        if out2.length > 256 then throw .invalidDomainName    -- if (output.size() > 256)
        else decodeGo mem endp f (ptr1 + v) out2              -- ptr += size

/-- `DNS::decode_domain_name(domain_name)` -/
def decodeDomainName (dn : Bytes) : Out Bytes :=
  if dn.isEmpty then ok [] else decodeGo (dn ++ [0]) dn.length (dn.length + 1) 0 []

/-- `DNS::soa_record::init(buffer, total_sz)` -/
def soaInit (b : Bytes) : Out Soa := do
  let s : Stream := ⟨0, b.length⟩
  let (domain, s) ← readEncodedDname b s
  let mname ← decodeDomainName domain
  let (domain, s) ← readEncodedDname b s
  let rname ← decodeDomainName domain
  let (serial, s) ← readBE32 b s
  let (refresh, s) ← readBE32 b s
  let (retry, s) ← readBE32 b s
  let (expire, s) ← readBE32 b s
  let (minimum, _) ← readBE32 b s
  ok ⟨mname, rname, serial, refresh, retry, expire, minimum⟩

/-- `DNS::soa_record::serialize()`: the vector is sized from the same two encoded names, so the stream writes fit -/
def soaSerialize (r : Soa) : Bytes :=
  encodeDomainName r.mname ++ encodeDomainName r.rname ++ be32 r.serial ++ be32 r.refresh ++ be32 r.retry ++
  be32 r.expire ++ be32 r.minimum

/-! ### the code before the fix (kept to state what the defect was; used by no getter model) -/

/-- `string domain = (const char*)stream.pointer()`: `strlen` looks for the NUL wherever it is — here: up to one octet
    past the end of the caller's buffer, which is where the model (and ASan) reports the over-read -/
def readCStringUnfixed (buf : Bytes) (s : Stream) : Out (Bytes × Stream) := do
  let t ← findNul buf (buf.length + 1 - s.pos) s.pos
  match t with
  | none => fault "strlen"
  | some t => do
    let output ← rdN buf s.pos (t - s.pos)
    let s' ← s.skip (output.length + 1)
    ok (output, s')

def soaInitUnfixed (b : Bytes) : Out Soa := do
  let s : Stream := ⟨0, b.length⟩
  let (domain, s) ← readCStringUnfixed b s
  let mname ← decodeDomainName domain
  let (domain, s) ← readCStringUnfixed b s
  let rname ← decodeDomainName domain
  let (serial, s) ← readBE32 b s
  let (refresh, s) ← readBE32 b s
  let (retry, s) ← readBE32 b s
  let (expire, s) ← readBE32 b s
  let (minimum, _) ← readBE32 b s
  ok ⟨mname, rname, serial, refresh, retry, expire, minimum⟩

end Tins.Dns
