import TinsModel.Dns.EditBuf
/-
  **Each public insertion maps a well-formed stored message to a well-formed stored message whose four sections are
  the old ones plus the inserted record** (names fully expanded) — for messages with or without name compression.
-/
namespace Tins.Dns
open Out

theorem Site.sh_lo {t k : Nat} {σ : Site} (h1 : σ.s < σ.e) (h2 : σ.e ≤ t) : Site.sh t k σ = σ := by
  unfold Site.sh; rw [if_neg (by omega)]

theorem Site.sh_hi {t k : Nat} {σ : Site} (h : t ≤ σ.s) : Site.sh t k σ = σ.add k := by
  unfold Site.sh; rw [if_pos h]

theorem Site.sh_ptr {t k : Nat} {σ : Site} (h : (Site.sh t k σ).e = (Site.sh t k σ).x + 2) : σ.e = σ.x + 2 := by
  unfold Site.sh at h
  split at h
  · simp only [Site.add_e, Site.add_x] at h; omega
  · exact h

namespace Ins
variable {m : Msg} {L : Layout} {t k : Nat} {d' : Bytes}

theorem name_sh (h : Ins m L t k d') {σ : Site} (hσ : σ ∈ L.sites) :
    (composeName d' composeFuel (Site.sh t k σ).s [] 0 none).isOk = true := by
  rcases h.ok.side σ hσ with hs | hs
  · rw [Site.sh_lo (h.ok.site σ hσ).lt hs, h.name_lo hσ hs]; rfl
  · rw [Site.sh_hi hs, Site.add_s, h.name_hi hσ hs]; rfl

/-- well-formedness of the new message from its layout and the correspondence of the name sites -/
theorem wfl_new (h : Ins m L t k d') {m' : Msg} {L' : Layout} (hlay : MsgAt m' L') (hrecs : m'.recs = d')
    (hhdr : m'.hdr = m.hdr) (hai : Moves t k m.ai m'.ai) (hui : Moves t k m.ui m'.ui) (hdi : Moves t k m.di m'.di)
    (hsites : ∀ τ ∈ L.sites, Site.sh t k τ ∈ L'.sites)
    (hcover : ∀ σ' ∈ L'.sites, (∃ σ ∈ L.sites, σ' = Site.sh t k σ) ∨
      (σ'.e = σ'.x + 1 ∧ (composeName d' composeFuel σ'.s [] 0 none).isOk = true)) : WFL m' L' := by
  refine ⟨hlay, ?_, ?_, by rw [hhdr]; exact h.wf.hdr⟩
  · intro σ' hσ' he
    rcases hcover σ' hσ' with ⟨σ, hσ, rfl⟩ | ⟨hz, _⟩
    · exact h.ptrOk_sh hrecs hai hui hdi hsites hσ (Site.sh_ptr he)
    · omega
  · intro σ' hσ'
    rw [hrecs]
    rcases hcover σ' hσ' with ⟨σ, hσ, rfl⟩ | ⟨_, hok⟩
    · exact h.name_sh hσ
    · exact hok

end Ins

def Layout.addAn (L : Layout) (nr : RecL) (k : Nat) : Layout := ⟨L.qs, L.an ++ [nr], L.au.map (·.add k), L.ad.map (·.add k)⟩
def Layout.addAu (L : Layout) (nr : RecL) (k : Nat) : Layout := ⟨L.qs, L.an, L.au ++ [nr], L.ad.map (·.add k)⟩
def Layout.addAd (L : Layout) (nr : RecL) : Layout := ⟨L.qs, L.an, L.au, L.ad ++ [nr]⟩
def Layout.addQ (L : Layout) (σ : Site) (k : Nat) : Layout :=
  ⟨L.qs ++ [σ], L.an.map (·.add k), L.au.map (·.add k), L.ad.map (·.add k)⟩

/-- what the getters show for a laid-out message -/
structure Views where
  qs : List Query
  an : List Resource
  au : List Resource
  ad : List Resource

def views (m : Msg) (L : Layout) : Views :=
  ⟨L.qs.map (viewQ m.recs), L.an.map (viewRec m.recs), L.au.map (viewRec m.recs), L.ad.map (viewRec m.recs)⟩

/-- the new record's name sites -/
theorem new_sites_ok {d3 : Bytes} {t : Nat} {r : SRec} {rest : Bytes} (hat : At d3 t (r.wire ++ rest))
    (hl : r.legal = true) : ∀ σ ∈ (wireRecL t r).sites, σ.e = σ.x + 1 ∧ (composeName d3 composeFuel σ.s [] 0 none).isOk = true :=
  fun σ hσ => ⟨wireRecL_sites_zero t r σ hσ, namesOk_wire hat hl σ hσ⟩

/-! ### `add_answer` -/

theorem addAnswer_wf {m : Msg} {L : Layout} (h : WFL m L) {r : SRec} (hl : r.legal = true) (txt : Bytes)
    (hc : m.an + 1 < 65536) (hsz : m.recs.length + 12 + r.wire.length ≤ 16384) :
    ∃ m', addRecord m .answer (r.toNew txt) = ok m' ∧
      WFL m' (L.addAn (wireRecL m.ui r) r.wire.length) ∧
      (m'.q = m.q ∧ m'.an = m.an + 1 ∧ m'.au = m.au ∧ m'.ad = m.ad) ∧
      m'.recs.length = m.recs.length + r.wire.length ∧
      (views m' (L.addAn (wireRecL m.ui r) r.wire.length)).qs = (views m L).qs ∧
      (views m' (L.addAn (wireRecL m.ui r) r.wire.length)).an = (views m L).an ++ [r.view] ∧
      (views m' (L.addAn (wireRecL m.ui r) r.wire.length)).au = (views m L).au ∧
      (views m' (L.addAn (wireRecL m.ui r) r.wire.length)).ad = (views m L).ad := by
  have ho := h.lay.order
  obtain ⟨d1, d2, h1, h2, hu⟩ := h.upd_ui hsz
  obtain ⟨d3, hd3, hat, I, hlen⟩ := h.ins_of_upd (Or.inr (Or.inl rfl)) hu r.wire rfl
  refine ⟨{ m with recs := d3, ui := m.ui + r.wire.length, di := m.di + r.wire.length, an := m.an + 1 }, ?_, ?_,
    ⟨rfl, rfl, rfl, rfl⟩, hlen, ?_⟩
  · unfold addRecord
    rw [recordBytes_toNew hl txt]
    simp only [Out.ok_bind]
    rw [h1]; simp only [Out.ok_bind]
    rw [h2]; simp only [Out.ok_bind]
    rw [hd3]; simp only [Out.ok_bind]
    rw [Nat.mod_eq_of_lt hc]
  · obtain ⟨q1, q2, q3⟩ := I.qsec_lo ho.1
    obtain ⟨a1, a2, a3⟩ := I.sec_lo h.lay.an (Nat.le_refl _) h.lay.sub_an (fun y y1 y2 => h.lay.pb_an y1 y2)
    obtain ⟨u1, u2, u3⟩ := I.sec_hi h.lay.au (Nat.le_refl _) ho.2.2 h.lay.sub_au (fun y y1 y2 => h.lay.pb_au y1 y2)
    obtain ⟨e1, e2, e3⟩ := I.sec_hi h.lay.ad ho.2.1 (Nat.le_refl _) h.lay.sub_ad (fun y y1 _ => h.lay.pb_ad y1)
    have hnr := recAt_wire hat hl
    have hnew := new_sites_ok hat hl
    have hlay : MsgAt { m with recs := d3, ui := m.ui + r.wire.length, di := m.di + r.wire.length, an := m.an + 1 }
        (L.addAn (wireRecL m.ui r) r.wire.length) := by
      refine ⟨q1, ?_, u1, ?_, h.lay.cq, ?_, ?_, ?_⟩
      · have := a1.snoc hnr (wireRecL_start _ _)
        rw [wireRecL_stop] at this
        exact this
      · dsimp only; rw [hlen]; exact e1
      · simp only [Layout.addAn, List.length_append, List.length_cons, List.length_nil]; rw [h.lay.can]
      · simp only [Layout.addAn, List.length_map]; exact h.lay.cau
      · simp only [Layout.addAn, List.length_map]; exact h.lay.cad
    have hmem : ∀ σ', σ' ∈ (L.addAn (wireRecL m.ui r) r.wire.length).sites ↔
        σ' ∈ L.qs ∨ (σ' ∈ recSites L.an ∨ σ' ∈ (wireRecL m.ui r).sites) ∨
        (∃ σ ∈ recSites L.au, σ.add r.wire.length = σ') ∨ (∃ σ ∈ recSites L.ad, σ.add r.wire.length = σ') := by
      intro σ'
      simp only [Layout.sites, Layout.addAn, recSites_append, recSites_single, recSites_map_add, List.mem_append,
        List.mem_map]
    refine I.wfl_new hlay rfl rfl (Or.inr ⟨rfl, ho.1⟩) (Or.inl ⟨rfl, Nat.le_refl _⟩) (Or.inl ⟨rfl, ho.2.1⟩) ?_ ?_
    · intro τ hτ
      rw [hmem]
      obtain ⟨hn, hcs⟩ := h.lay.site_cases hτ
      rcases hcs with ⟨g, g1⟩ | ⟨g, _, g2⟩ | ⟨g, g1, _⟩ | ⟨g, g1, _⟩
      · rw [Site.sh_lo hn.lt (by omega)]; exact Or.inl g
      · rw [Site.sh_lo hn.lt g2]; exact Or.inr (Or.inl (Or.inl g))
      · rw [Site.sh_hi g1]; exact Or.inr (Or.inr (Or.inl ⟨τ, g, rfl⟩))
      · rw [Site.sh_hi (by omega)]; exact Or.inr (Or.inr (Or.inr ⟨τ, g, rfl⟩))
    · intro σ' hσ'
      rw [hmem] at hσ'
      rcases hσ' with g | (g | g) | ⟨σ, g, rfl⟩ | ⟨σ, g, rfl⟩
      · have := h.lay.q.site_mem g
        exact Or.inl ⟨σ', h.lay.sub_qs _ g, (Site.sh_lo this.2.2.lt (by omega)).symm⟩
      · have := h.lay.an.site_mem g
        exact Or.inl ⟨σ', h.lay.sub_an _ g, (Site.sh_lo this.2.2.lt this.2.1).symm⟩
      · exact Or.inr (hnew σ' g)
      · have := h.lay.au.site_mem g
        exact Or.inl ⟨σ, h.lay.sub_au _ g, (Site.sh_hi this.1).symm⟩
      · have := h.lay.ad.site_mem g
        exact Or.inl ⟨σ, h.lay.sub_ad _ g, (Site.sh_hi (by omega)).symm⟩
  · obtain ⟨_, _, q3⟩ := I.qsec_lo ho.1
    obtain ⟨_, _, a3⟩ := I.sec_lo h.lay.an (Nat.le_refl _) h.lay.sub_an (fun y y1 y2 => h.lay.pb_an y1 y2)
    obtain ⟨_, _, u3⟩ := I.sec_hi h.lay.au (Nat.le_refl _) ho.2.2 h.lay.sub_au (fun y y1 y2 => h.lay.pb_au y1 y2)
    obtain ⟨_, _, e3⟩ := I.sec_hi h.lay.ad ho.2.1 (Nat.le_refl _) h.lay.sub_ad (fun y y1 _ => h.lay.pb_ad y1)
    refine ⟨q3, ?_, u3, e3⟩
    simp only [views, Layout.addAn, List.map_append, List.map_cons, List.map_nil]
    rw [a3, viewRec_wire hat hl]

/-! ### `add_authority` -/

theorem addAuthority_wf {m : Msg} {L : Layout} (h : WFL m L) {r : SRec} (hl : r.legal = true) (txt : Bytes)
    (hc : m.au + 1 < 65536) (hsz : m.recs.length + 12 + r.wire.length ≤ 16384) :
    ∃ m', addRecord m .authority (r.toNew txt) = ok m' ∧
      WFL m' (L.addAu (wireRecL m.di r) r.wire.length) ∧
      (m'.q = m.q ∧ m'.an = m.an ∧ m'.au = m.au + 1 ∧ m'.ad = m.ad) ∧
      m'.recs.length = m.recs.length + r.wire.length ∧
      (views m' (L.addAu (wireRecL m.di r) r.wire.length)).qs = (views m L).qs ∧
      (views m' (L.addAu (wireRecL m.di r) r.wire.length)).an = (views m L).an ∧
      (views m' (L.addAu (wireRecL m.di r) r.wire.length)).au = (views m L).au ++ [r.view] ∧
      (views m' (L.addAu (wireRecL m.di r) r.wire.length)).ad = (views m L).ad := by
  have ho := h.lay.order
  obtain ⟨d1, h1, hu⟩ := h.upd_di hsz
  obtain ⟨d3, hd3, hat, I, hlen⟩ := h.ins_of_upd (Or.inr (Or.inr (Or.inl rfl))) hu r.wire rfl
  refine ⟨{ m with recs := d3, di := m.di + r.wire.length, au := m.au + 1 }, ?_, ?_, ⟨rfl, rfl, rfl, rfl⟩, hlen, ?_⟩
  · unfold addRecord
    rw [recordBytes_toNew hl txt]
    simp only [Out.ok_bind]
    rw [h1]; simp only [Out.ok_bind]
    rw [hd3]; simp only [Out.ok_bind]
    rw [Nat.mod_eq_of_lt hc]
  · obtain ⟨q1, q2, q3⟩ := I.qsec_lo (by omega)
    obtain ⟨a1, a2, a3⟩ := I.sec_lo h.lay.an ho.2.1 h.lay.sub_an (fun y y1 y2 => h.lay.pb_an y1 y2)
    obtain ⟨u1, u2, u3⟩ := I.sec_lo h.lay.au (Nat.le_refl _) h.lay.sub_au (fun y y1 y2 => h.lay.pb_au y1 y2)
    obtain ⟨e1, e2, e3⟩ := I.sec_hi h.lay.ad (Nat.le_refl _) (Nat.le_refl _) h.lay.sub_ad (fun y y1 _ => h.lay.pb_ad y1)
    have hnr := recAt_wire hat hl
    have hnew := new_sites_ok hat hl
    have hlay : MsgAt { m with recs := d3, di := m.di + r.wire.length, au := m.au + 1 }
        (L.addAu (wireRecL m.di r) r.wire.length) := by
      refine ⟨q1, a1, ?_, ?_, h.lay.cq, h.lay.can, ?_, ?_⟩
      · have := u1.snoc hnr (wireRecL_start _ _)
        rw [wireRecL_stop] at this
        exact this
      · dsimp only; rw [hlen]; exact e1
      · simp only [Layout.addAu, List.length_append, List.length_cons, List.length_nil]; rw [h.lay.cau]
      · simp only [Layout.addAu, List.length_map]; exact h.lay.cad
    have hmem : ∀ σ', σ' ∈ (L.addAu (wireRecL m.di r) r.wire.length).sites ↔
        σ' ∈ L.qs ∨ σ' ∈ recSites L.an ∨ (σ' ∈ recSites L.au ∨ σ' ∈ (wireRecL m.di r).sites) ∨
        (∃ σ ∈ recSites L.ad, σ.add r.wire.length = σ') := by
      intro σ'
      simp only [Layout.sites, Layout.addAu, recSites_append, recSites_single, recSites_map_add, List.mem_append,
        List.mem_map]
    refine I.wfl_new hlay rfl rfl (Or.inr ⟨rfl, by omega⟩) (Or.inr ⟨rfl, ho.2.1⟩) (Or.inl ⟨rfl, Nat.le_refl _⟩) ?_ ?_
    · intro τ hτ
      rw [hmem]
      obtain ⟨hn, hcs⟩ := h.lay.site_cases hτ
      rcases hcs with ⟨g, g1⟩ | ⟨g, _, g2⟩ | ⟨g, _, g2⟩ | ⟨g, g1, _⟩
      · rw [Site.sh_lo hn.lt (by omega)]; exact Or.inl g
      · rw [Site.sh_lo hn.lt (by omega)]; exact Or.inr (Or.inl g)
      · rw [Site.sh_lo hn.lt g2]; exact Or.inr (Or.inr (Or.inl (Or.inl g)))
      · rw [Site.sh_hi g1]; exact Or.inr (Or.inr (Or.inr ⟨τ, g, rfl⟩))
    · intro σ' hσ'
      rw [hmem] at hσ'
      rcases hσ' with g | g | (g | g) | ⟨σ, g, rfl⟩
      · have := h.lay.q.site_mem g
        exact Or.inl ⟨σ', h.lay.sub_qs _ g, (Site.sh_lo this.2.2.lt (by omega)).symm⟩
      · have := h.lay.an.site_mem g
        exact Or.inl ⟨σ', h.lay.sub_an _ g, (Site.sh_lo this.2.2.lt (by omega)).symm⟩
      · have := h.lay.au.site_mem g
        exact Or.inl ⟨σ', h.lay.sub_au _ g, (Site.sh_lo this.2.2.lt this.2.1).symm⟩
      · exact Or.inr (hnew σ' g)
      · have := h.lay.ad.site_mem g
        exact Or.inl ⟨σ, h.lay.sub_ad _ g, (Site.sh_hi this.1).symm⟩
  · obtain ⟨_, _, q3⟩ := I.qsec_lo (by omega)
    obtain ⟨_, _, a3⟩ := I.sec_lo h.lay.an ho.2.1 h.lay.sub_an (fun y y1 y2 => h.lay.pb_an y1 y2)
    obtain ⟨_, _, u3⟩ := I.sec_lo h.lay.au (Nat.le_refl _) h.lay.sub_au (fun y y1 y2 => h.lay.pb_au y1 y2)
    obtain ⟨_, _, e3⟩ := I.sec_hi h.lay.ad (Nat.le_refl _) (Nat.le_refl _) h.lay.sub_ad (fun y y1 _ => h.lay.pb_ad y1)
    refine ⟨q3, a3, ?_, e3⟩
    simp only [views, Layout.addAu, List.map_append, List.map_cons, List.map_nil]
    rw [u3, viewRec_wire hat hl]

/-! ### `add_additional` -/

theorem addAdditional_wf {m : Msg} {L : Layout} (h : WFL m L) {r : SRec} (hl : r.legal = true) (txt : Bytes)
    (hc : m.ad + 1 < 65536) :
    ∃ m', addRecord m .additional (r.toNew txt) = ok m' ∧
      WFL m' (L.addAd (wireRecL m.recs.length r)) ∧
      (m'.q = m.q ∧ m'.an = m.an ∧ m'.au = m.au ∧ m'.ad = m.ad + 1) ∧
      m'.recs.length = m.recs.length + r.wire.length ∧
      (views m' (L.addAd (wireRecL m.recs.length r))).qs = (views m L).qs ∧
      (views m' (L.addAd (wireRecL m.recs.length r))).an = (views m L).an ∧
      (views m' (L.addAd (wireRecL m.recs.length r))).au = (views m L).au ∧
      (views m' (L.addAd (wireRecL m.recs.length r))).ad = (views m L).ad ++ [r.view] := by
  have ho := h.lay.order
  obtain ⟨d3, hd3, hat, I, hlen⟩ := h.ins_of_upd (Or.inr (Or.inr (Or.inr rfl))) (h.upd_len r.wire.length) r.wire rfl
  refine ⟨{ m with recs := d3, ad := m.ad + 1 }, ?_, ?_, ⟨rfl, rfl, rfl, rfl⟩, hlen, ?_⟩
  · unfold addRecord
    rw [recordBytes_toNew hl txt]
    simp only [Out.ok_bind]
    rw [hd3]; simp only [Out.ok_bind]
    rw [Nat.mod_eq_of_lt hc]
  · obtain ⟨q1, q2, q3⟩ := I.qsec_lo (by omega)
    obtain ⟨a1, a2, a3⟩ := I.sec_lo h.lay.an (by omega) h.lay.sub_an (fun y y1 y2 => h.lay.pb_an y1 y2)
    obtain ⟨u1, u2, u3⟩ := I.sec_lo h.lay.au ho.2.2 h.lay.sub_au (fun y y1 y2 => h.lay.pb_au y1 y2)
    obtain ⟨e1, e2, e3⟩ := I.sec_lo h.lay.ad (Nat.le_refl _) h.lay.sub_ad (fun y y1 _ => h.lay.pb_ad y1)
    have hnr := recAt_wire hat hl
    have hnew := new_sites_ok hat hl
    have hlay : MsgAt { m with recs := d3, ad := m.ad + 1 } (L.addAd (wireRecL m.recs.length r)) := by
      refine ⟨q1, a1, u1, ?_, h.lay.cq, h.lay.can, h.lay.cau, ?_⟩
      · have := e1.snoc hnr (wireRecL_start _ _)
        rw [wireRecL_stop] at this
        dsimp only; rw [hlen]; exact this
      · simp only [Layout.addAd, List.length_append, List.length_cons, List.length_nil]; rw [h.lay.cad]
    have hmem : ∀ σ', σ' ∈ (L.addAd (wireRecL m.recs.length r)).sites ↔
        σ' ∈ L.qs ∨ σ' ∈ recSites L.an ∨ σ' ∈ recSites L.au ∨ (σ' ∈ recSites L.ad ∨ σ' ∈ (wireRecL m.recs.length r).sites) := by
      intro σ'
      simp only [Layout.sites, Layout.addAd, recSites_append, recSites_single, List.mem_append]
    refine I.wfl_new hlay rfl rfl (Or.inr ⟨rfl, by omega⟩) (Or.inr ⟨rfl, by omega⟩) (Or.inr ⟨rfl, ho.2.2⟩) ?_ ?_
    · intro τ hτ
      rw [hmem]
      obtain ⟨hn, hcs⟩ := h.lay.site_cases hτ
      rcases hcs with ⟨g, g1⟩ | ⟨g, _, g2⟩ | ⟨g, _, g2⟩ | ⟨g, _, g2⟩
      · rw [Site.sh_lo hn.lt (by omega)]; exact Or.inl g
      · rw [Site.sh_lo hn.lt (by omega)]; exact Or.inr (Or.inl g)
      · rw [Site.sh_lo hn.lt (by omega)]; exact Or.inr (Or.inr (Or.inl g))
      · rw [Site.sh_lo hn.lt g2]; exact Or.inr (Or.inr (Or.inr (Or.inl g)))
    · intro σ' hσ'
      rw [hmem] at hσ'
      rcases hσ' with g | g | g | (g | g)
      · have := h.lay.q.site_mem g
        exact Or.inl ⟨σ', h.lay.sub_qs _ g, (Site.sh_lo this.2.2.lt (by omega)).symm⟩
      · have := h.lay.an.site_mem g
        exact Or.inl ⟨σ', h.lay.sub_an _ g, (Site.sh_lo this.2.2.lt (by omega)).symm⟩
      · have := h.lay.au.site_mem g
        exact Or.inl ⟨σ', h.lay.sub_au _ g, (Site.sh_lo this.2.2.lt (by omega)).symm⟩
      · have := h.lay.ad.site_mem g
        exact Or.inl ⟨σ', h.lay.sub_ad _ g, (Site.sh_lo this.2.2.lt this.2.1).symm⟩
      · exact Or.inr (hnew σ' g)
  · obtain ⟨_, _, q3⟩ := I.qsec_lo (by omega)
    obtain ⟨_, _, a3⟩ := I.sec_lo h.lay.an (by omega) h.lay.sub_an (fun y y1 y2 => h.lay.pb_an y1 y2)
    obtain ⟨_, _, u3⟩ := I.sec_lo h.lay.au ho.2.2 h.lay.sub_au (fun y y1 y2 => h.lay.pb_au y1 y2)
    obtain ⟨_, _, e3⟩ := I.sec_lo h.lay.ad (Nat.le_refl _) h.lay.sub_ad (fun y y1 _ => h.lay.pb_ad y1)
    refine ⟨q3, a3, u3, ?_⟩
    simp only [views, Layout.addAd, List.map_append, List.map_cons, List.map_nil]
    rw [e3, viewRec_wire hat hl]

/-! ### `add_query` -/

theorem addQuery_wf {m : Msg} {L : Layout} (h : WFL m L) {q : SQuery} (hl : q.legal = true) (he : q.inEnumRange = true)
    (hc : m.q + 1 < 65536) (hsz : m.recs.length + 12 + q.wire.length ≤ 16384) :
    ∃ m', addQuery m q.toNew = ok m' ∧
      WFL m' (L.addQ (wireSite m.ai q.name) q.wire.length) ∧
      (m'.q = m.q + 1 ∧ m'.an = m.an ∧ m'.au = m.au ∧ m'.ad = m.ad) ∧
      m'.recs.length = m.recs.length + q.wire.length ∧
      (views m' (L.addQ (wireSite m.ai q.name) q.wire.length)).qs = (views m L).qs ++ [q.view] ∧
      (views m' (L.addQ (wireSite m.ai q.name) q.wire.length)).an = (views m L).an ∧
      (views m' (L.addQ (wireSite m.ai q.name) q.wire.length)).au = (views m L).au ∧
      (views m' (L.addQ (wireSite m.ai q.name) q.wire.length)).ad = (views m L).ad := by
  have ho := h.lay.order
  obtain ⟨hok, hwl, ht, hcl⟩ := SQuery.legal_facts hl
  have he' := he
  simp only [SQuery.inEnumRange, Bool.and_eq_true, decide_eq_true_eq] at he'
  have hbytes : encodeDomainName q.toNew.name ++ be16 q.toNew.type ++ be16 q.toNew.cls = q.wire := by
    simp only [SQuery.toNew, SQuery.wire]; rw [encode_textOf hok]
  obtain ⟨d1, d2, d3, h1, h2, h3, hu⟩ := h.upd_ai hsz
  obtain ⟨d4, hd4, hat, I, hlen⟩ := h.ins_of_upd (Or.inl rfl) hu q.wire rfl
  refine ⟨{ m with q := m.q + 1, recs := d4, ai := m.ai + q.wire.length, ui := m.ui + q.wire.length, di := m.di + q.wire.length }, ?_, ?_, ⟨rfl, rfl, rfl, rfl⟩, hlen, ?_⟩
  · unfold addQuery enumLoad
    rw [if_pos (by simp only [SQuery.toNew]; exact he')]
    simp only [Out.ok_bind]
    rw [hbytes, h1]; simp only [Out.ok_bind]
    rw [h2]; simp only [Out.ok_bind]
    rw [h3]; simp only [Out.ok_bind]
    rw [hd4]; simp only [Out.ok_bind]
    rw [Nat.mod_eq_of_lt hc]
  · obtain ⟨q1, q2, q3⟩ := I.qsec_lo (Nat.le_refl _)
    obtain ⟨a1, a2, a3⟩ := I.sec_hi h.lay.an (Nat.le_refl _) (by omega) h.lay.sub_an (fun y y1 y2 => h.lay.pb_an y1 y2)
    obtain ⟨u1, u2, u3⟩ := I.sec_hi h.lay.au ho.1 ho.2.2 h.lay.sub_au (fun y y1 y2 => h.lay.pb_au y1 y2)
    obtain ⟨e1, e2, e3⟩ := I.sec_hi h.lay.ad (by omega) (Nat.le_refl _) h.lay.sub_ad (fun y y1 _ => h.lay.pb_ad y1)
    obtain ⟨n1, n2, n3, n4, n5, n6⟩ := qAt_wire hat hl he
    have hlay : MsgAt { m with q := m.q + 1, recs := d4, ai := m.ai + q.wire.length, ui := m.ui + q.wire.length, di := m.di + q.wire.length } (L.addQ (wireSite m.ai q.name) q.wire.length) := by
      refine ⟨?_, a1, u1, ?_, ?_, ?_, ?_, ?_⟩
      · have := q1.snoc (σ := wireSite m.ai q.name) rfl n1 (by rw [n2, hlen]; omega) n3 n4
        rw [n2] at this
        exact this
      · dsimp only; rw [hlen]; exact e1
      · simp only [Layout.addQ, List.length_append, List.length_cons, List.length_nil]; rw [h.lay.cq]
      · simp only [Layout.addQ, List.length_map]; exact h.lay.can
      · simp only [Layout.addQ, List.length_map]; exact h.lay.cau
      · simp only [Layout.addQ, List.length_map]; exact h.lay.cad
    have hmem : ∀ σ', σ' ∈ (L.addQ (wireSite m.ai q.name) q.wire.length).sites ↔
        (σ' ∈ L.qs ∨ σ' = wireSite m.ai q.name) ∨ (∃ σ ∈ recSites L.an, σ.add q.wire.length = σ') ∨
        (∃ σ ∈ recSites L.au, σ.add q.wire.length = σ') ∨ (∃ σ ∈ recSites L.ad, σ.add q.wire.length = σ') := by
      intro σ'
      simp only [Layout.sites, Layout.addQ, recSites_map_add, List.mem_append, List.mem_map, List.mem_cons,
        List.not_mem_nil, or_false]
    refine I.wfl_new hlay rfl rfl (Or.inl ⟨rfl, Nat.le_refl _⟩) (Or.inl ⟨rfl, ho.1⟩) (Or.inl ⟨rfl, by omega⟩) ?_ ?_
    · intro τ hτ
      rw [hmem]
      obtain ⟨hn, hcs⟩ := h.lay.site_cases hτ
      rcases hcs with ⟨g, g1⟩ | ⟨g, g1, _⟩ | ⟨g, g1, _⟩ | ⟨g, g1, _⟩
      · rw [Site.sh_lo hn.lt (by omega)]; exact Or.inl (Or.inl g)
      · rw [Site.sh_hi g1]; exact Or.inr (Or.inl ⟨τ, g, rfl⟩)
      · rw [Site.sh_hi (by omega)]; exact Or.inr (Or.inr (Or.inl ⟨τ, g, rfl⟩))
      · rw [Site.sh_hi (by omega)]; exact Or.inr (Or.inr (Or.inr ⟨τ, g, rfl⟩))
    · intro σ' hσ'
      rw [hmem] at hσ'
      rcases hσ' with (g | g) | ⟨σ, g, rfl⟩ | ⟨σ, g, rfl⟩ | ⟨σ, g, rfl⟩
      · have := h.lay.q.site_mem g
        exact Or.inl ⟨σ', h.lay.sub_qs _ g, (Site.sh_lo this.2.2.lt (by omega)).symm⟩
      · subst g
        exact Or.inr ⟨wireSite_zero _ _, n5⟩
      · have := h.lay.an.site_mem g
        exact Or.inl ⟨σ, h.lay.sub_an _ g, (Site.sh_hi this.1).symm⟩
      · have := h.lay.au.site_mem g
        exact Or.inl ⟨σ, h.lay.sub_au _ g, (Site.sh_hi (by omega)).symm⟩
      · have := h.lay.ad.site_mem g
        exact Or.inl ⟨σ, h.lay.sub_ad _ g, (Site.sh_hi (by omega)).symm⟩
  · obtain ⟨_, _, q3⟩ := I.qsec_lo (Nat.le_refl _)
    obtain ⟨_, _, a3⟩ := I.sec_hi h.lay.an (Nat.le_refl _) (by omega) h.lay.sub_an (fun y y1 y2 => h.lay.pb_an y1 y2)
    obtain ⟨_, _, u3⟩ := I.sec_hi h.lay.au ho.1 ho.2.2 h.lay.sub_au (fun y y1 y2 => h.lay.pb_au y1 y2)
    obtain ⟨_, _, e3⟩ := I.sec_hi h.lay.ad (by omega) (Nat.le_refl _) h.lay.sub_ad (fun y y1 _ => h.lay.pb_ad y1)
    obtain ⟨_, _, _, _, _, n6⟩ := qAt_wire hat hl he
    refine ⟨?_, a3, u3, e3⟩
    simp only [views, Layout.addQ, List.map_append, List.map_cons, List.map_nil]
    rw [q3, n6]

end Tins.Dns
