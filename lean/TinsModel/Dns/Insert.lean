import TinsModel.Dns.MsgLayout
/-
  One insertion into a well-formed stored message, seen from the records: the new buffer is a `Shifted` image of the
  old one in which exactly the pointers `Rt` were re-targeted.  Consequences, section by section: the layout in
  front of the insertion point is unchanged, the layout behind it moves by the inserted length, every name site reads
  the same name, every pointer still designates a label boundary of a name site in no later section.
-/
namespace Tins.Dns
open Out

structure Ins (m : Msg) (L : Layout) (t k : Nat) (d' : Bytes) : Prop where
  wf : WFL m L
  bnd : Boundary m t
  sh : Shifted m.recs d' t k (Rt L t m.recs)

namespace Ins
variable {m : Msg} {L : Layout} {t k : Nat} {d' : Bytes}

theorem ok (h : Ins m L t k d') : SitesOk m.recs L.sites t (Rt L t m.recs) := h.wf.sitesOk h.bnd

theorem t_le (h : Ins m L t k d') : t ≤ m.recs.length := by
  have := h.wf.lay.order
  have hb := h.bnd
  unfold Boundary at hb
  omega

/-- the octets that may differ: the two octets of a re-targeted pointer -/
def M (_ : Ins m L t k d') : Nat → Prop := fun y => ¬ Lit (Rt L t m.recs) y

theorem M_pb (h : Ins m L t k d') {y : Nat} (hy : h.M y) : PB L.sites y := by
  have : Rt L t m.recs y ∨ (1 ≤ y ∧ Rt L t m.recs (y - 1)) := by
    by_cases h1 : Rt L t m.recs y
    · exact Or.inl h1
    · by_cases h2 : 1 ≤ y ∧ Rt L t m.recs (y - 1)
      · exact Or.inr h2
      · exact (hy ⟨h1, h2⟩).elim
  rcases this with hr | ⟨h1, hr⟩
  · obtain ⟨σ, hσ, _, hx, he, _⟩ := (Rt_iff y).1 hr
    exact ⟨σ, hσ, he, Or.inl hx⟩
  · obtain ⟨σ, hσ, _, hx, he, _⟩ := (Rt_iff (y - 1)).1 hr
    exact ⟨σ, hσ, he, Or.inr (by omega)⟩

theorem same_lo (h : Ins m L t k d') : Same m.recs d' 0 0 t h.M := by
  intro y _ hy hm
  have hl : Lit (Rt L t m.recs) y := Classical.not_not.1 hm
  have := h.sh.lit y hl (by have := h.t_le; omega)
  unfold shift at this
  rw [if_pos hy] at this
  exact this

theorem same_hi (h : Ins m L t k d') (hi : Nat) : Same m.recs d' k t hi h.M := by
  intro y hy _ hm
  have hl : Lit (Rt L t m.recs) y := Classical.not_not.1 hm
  rcases Nat.lt_or_ge y m.recs.length with hlt | hge
  · have := h.sh.lit y hl hlt
    unfold shift at this
    rw [if_neg (by omega)] at this
    exact this
  · rw [List.getElem?_eq_none hge, List.getElem?_eq_none (by rw [h.sh.len]; omega)]

/-- a re-targeted pointer ends a name site behind the insertion point -/
theorem R_site (h : Ins m L t k d') {σ : Site} (hσ : σ ∈ L.sites) (hr : Rt L t m.recs σ.x) : t ≤ σ.s ∧ σ.e = σ.x + 2 := by
  obtain ⟨τ, hτ, h0, hx, he, _⟩ := (Rt_iff σ.x).1 hr
  have bσ := (h.ok.site σ hσ).bounds
  have bτ := (h.ok.site τ hτ).bounds
  have := h.ok.disj σ hσ τ hτ σ.x bσ.1 (by omega) (by omega) (by omega)
  subst this
  exact ⟨h0, he⟩

/-- inside a name site only the octets of its own re-targeted pointer may differ -/
theorem M_site (h : Ins m L t k d') {σ : Site} (hσ : σ ∈ L.sites) {y : Nat} (h1 : σ.s ≤ y) (h2 : y < σ.e) (hm : h.M y) :
    σ.e = σ.x + 2 ∧ (y = σ.x ∨ y = σ.x + 1) := by
  by_cases hc : Rt L t m.recs σ.x ∧ (y = σ.x ∨ y = σ.x + 1)
  · exact ⟨(h.R_site hσ hc.1).2, hc.2⟩
  · exact (hm (h.ok.lit hσ h1 h2 hc)).elim

/-- the pointer that ends `σ`, after the insertion: still a pointer; its target moved with the octets it designates -/
theorem ptr_after (h : Ins m L t k d') {σ : Site} (hσ : σ ∈ L.sites) (he : σ.e = σ.x + 2) :
    ∃ hi' lo' : UInt8, d'[shift t k σ.x]? = some hi' ∧ d'[shift t k σ.x + 1]? = some lo' ∧ hi'.toNat / 64 = 3 ∧
      12 ≤ hi'.toNat % 64 * 256 + lo'.toNat ∧
      hi'.toNat % 64 * 256 + lo'.toNat - 12 = shift t k (ptrAt m.recs σ.x - 12) := by
  have hn := h.ok.site σ hσ
  have bσ := hn.bounds
  obtain ⟨h12, _, hback⟩ := h.ok.ptr σ hσ he
  rcases hn.term with ⟨he1, _⟩ | ⟨_, hi, lo, g0, g1, g3⟩
  · omega
  have hpa := ptrAt_of_some g0 g1
  by_cases hr : Rt L t m.recs σ.x
  · obtain ⟨a, b, a', b', e0, e1, e0', e1', h3', hval, hge⟩ := h.sh.ptr σ.x hr
    rw [g0] at e0; cases e0
    rw [g1] at e1; cases e1
    refine ⟨a', b', e0', e1', h3', by omega, ?_⟩
    rw [hval, hpa]
    unfold shift
    rw [if_neg (by omega)]
    omega
  · have hl0 : Lit (Rt L t m.recs) σ.x := h.ok.lit hσ bσ.1 (by omega) (fun hc => hr hc.1)
    have hl1 : Lit (Rt L t m.recs) (σ.x + 1) := h.ok.lit hσ (by omega) (by omega) (fun hc => hr hc.1)
    have hside := h.ok.side σ hσ
    have hs1 : shift t k (σ.x + 1) = shift t k σ.x + 1 := by
      unfold shift
      rcases hside with hs | hs
      · rw [if_pos (by omega), if_pos (by omega)]
      · rw [if_neg (by omega), if_neg (by omega)]; omega
    have e0 : d'[shift t k σ.x]? = some hi := by rw [h.sh.lit _ hl0 (getElem?_lt_length g0)]; exact g0
    have e1 : d'[shift t k σ.x + 1]? = some lo := by rw [← hs1, h.sh.lit _ hl1 (getElem?_lt_length g1)]; exact g1
    refine ⟨hi, lo, e0, e1, g3, by omega, ?_⟩
    rw [← hpa]
    unfold shift
    have hlt : ptrAt m.recs σ.x - 12 < t := by
      rcases Nat.lt_or_ge (ptrAt m.recs σ.x - 12) t with hlt | hge
      · exact hlt
      · rcases hside with hs | hs
        · exact hback (by omega)
        · exact (hr ((Rt_iff σ.x).2 ⟨σ, hσ, hs, rfl, he, by omega⟩)).elim
    rw [if_pos hlt]

theorem ptrStill_hi (h : Ins m L t k d') {σ : Site} (hσ : σ ∈ L.sites) (hs : t ≤ σ.s) : PtrStill d' k σ := by
  intro he
  obtain ⟨hi', lo', e0, e1, h3, _, _⟩ := h.ptr_after hσ he
  have bσ := (h.ok.site σ hσ).bounds
  unfold shift at e0 e1
  rw [if_neg (by omega)] at e0 e1
  exact ⟨hi', lo', e0, by rw [show σ.x + 1 + k = σ.x + k + 1 by omega]; exact e1, h3⟩

theorem ptrStill_lo (h : Ins m L t k d') {σ : Site} (hσ : σ ∈ L.sites) (hs : σ.e ≤ t) : PtrStill d' 0 σ := by
  intro he
  obtain ⟨hi', lo', e0, e1, h3, _, _⟩ := h.ptr_after hσ he
  have bσ := (h.ok.site σ hσ).bounds
  unfold shift at e0 e1
  rw [if_pos (by omega)] at e0 e1
  exact ⟨hi', lo', e0, e1, h3⟩

/-- the name site `σ` behind the insertion point, in the new buffer -/
theorem site_hi (h : Ins m L t k d') {σ : Site} (hσ : σ ∈ L.sites) (hs : t ≤ σ.s) :
    NameSite d' (σ.s + k) (σ.x + k) (σ.e + k) :=
  (h.ok.site σ hσ).transport ((h.same_hi σ.e).sub hs (Nat.le_refl _)) (fun _ y1 y2 ym => h.M_site hσ y1 y2 ym)
    (h.ptrStill_hi hσ hs)

theorem site_lo (h : Ins m L t k d') {σ : Site} (hσ : σ ∈ L.sites) (hs : σ.e ≤ t) : NameSite d' σ.s σ.x σ.e :=
  ((h.ok.site σ hσ).transport (h.same_lo.sub (Nat.zero_le _) hs) (fun _ y1 y2 ym => h.M_site hσ y1 y2 ym)
    (h.ptrStill_lo hσ hs)).cast rfl rfl rfl

/-- **every name reads the same after the insertion** (sites behind the insertion point) -/
theorem name_hi (h : Ins m L t k d') {σ : Site} (hσ : σ ∈ L.sites) (hs : t ≤ σ.s) :
    composeName d' composeFuel (σ.s + k) [] 0 none = .ok (nameAt m.recs σ.s, σ.e + k) := by
  have hn := h.ok.site σ hσ
  have hc := composeName_at_site hn (h.wf.res σ hσ)
  obtain ⟨n, j, hres, hj, hrn, hlen⟩ := composeName_site hn hc
  have hvia := h.ok.via hres σ hσ (Nat.le_refl _) hn
  have hres' := resolves_shifted h.sh hvia
  unfold shift at hres'
  rw [if_neg (by omega)] at hres'
  rw [composeName_of_resolves (h.site_hi hσ hs) hres' hj hlen, (Prod.mk.inj hrn).1]

theorem name_lo (h : Ins m L t k d') {σ : Site} (hσ : σ ∈ L.sites) (hs : σ.e ≤ t) :
    composeName d' composeFuel σ.s [] 0 none = .ok (nameAt m.recs σ.s, σ.e) := by
  have hn := h.ok.site σ hσ
  have hc := composeName_at_site hn (h.wf.res σ hσ)
  obtain ⟨n, j, hres, hj, hrn, hlen⟩ := composeName_site hn hc
  have hvia := h.ok.via hres σ hσ (Nat.le_refl _) hn
  have hres' := resolves_shifted h.sh hvia
  unfold shift at hres'
  rw [if_pos (by have := hn.lt; omega)] at hres'
  rw [composeName_of_resolves (h.site_lo hσ hs) hres' hj hlen, (Prod.mk.inj hrn).1]

end Ins

/-! ### the getters' view of a record is a function of the octets outside pointers and of the names -/

theorem slice_same {buf buf' : Bytes} {d i n : Nat} (h : ∀ y, i ≤ y → y < i + n → buf'[y + d]? = buf[y]?) :
    slice buf' (i + d) n = slice buf i n := by
  unfold slice
  apply List.ext_getElem?
  intro j
  simp only [List.getElem?_take, List.getElem?_drop]
  split
  · rw [show i + d + j = i + j + d by omega]; exact h _ (by omega) (by omega)
  · rfl

theorem u32at_same {buf buf' : Bytes} {d i : Nat} (h : ∀ y, i ≤ y → y < i + 4 → buf'[y + d]? = buf[y]?) :
    u32at buf' (i + d) = u32at buf i := by
  unfold u32at
  rw [getD_of_getElem? (h i (by omega) (by omega)),
    show i + d + 1 = i + 1 + d by omega, getD_of_getElem? (h (i + 1) (by omega) (by omega)),
    show i + d + 2 = i + 2 + d by omega, getD_of_getElem? (h (i + 2) (by omega) (by omega)),
    show i + d + 3 = i + 3 + d by omega, getD_of_getElem? (h (i + 3) (by omega) (by omega))]

theorem u16at_same' {buf buf' : Bytes} {d i : Nat} (h : ∀ y, i ≤ y → y < i + 2 → buf'[y + d]? = buf[y]?) :
    u16at buf' (i + d) = u16at buf i := by
  unfold u16at
  rw [getD_of_getElem? (h i (by omega) (by omega)),
    show i + d + 1 = i + 1 + d by omega, getD_of_getElem? (h (i + 1) (by omega) (by omega))]

theorem viewRec_transport {buf buf' : Bytes} {d : Nat} {M : Nat → Prop} {r : RecL} (h : RecAt buf r)
    (hs : Same buf buf' d r.own.s r.stop M) (hM : ∀ y, r.own.s ≤ y → y < r.stop → M y → PB r.sites y)
    (hname : ∀ σ ∈ r.sites, nameAt buf' (σ.s + d) = nameAt buf σ.s) : viewRec buf' (r.add d) = viewRec buf r := by
  have bo := h.own.span
  have hst : r.stop = r.own.e + 10 + r.rdlen := rfl
  -- octets outside the name sites are the same
  have hout : ∀ y, r.own.e ≤ y → y < r.stop → (∀ σ ∈ r.ds, y < σ.s ∨ σ.e ≤ y) → buf'[y + d]? = buf[y]? := by
    intro y y1 y2 hds
    apply hs y (by omega) y2
    intro ym
    obtain ⟨τ, hτ, he, hy⟩ := hM y (by omega) y2 ym
    have hsm := h.site_mem hτ
    have := hsm.2.2.1.bounds
    rcases hsm.2.2.2 with heq | ⟨_, hmem⟩
    · subst heq; omega
    · have := hds τ hmem; omega
  have hfix : ∀ y, r.own.e ≤ y → y < r.own.e + 10 → buf'[y + d]? = buf[y]? := by
    intro y y1 y2
    apply hout y y1 (by omega)
    intro σ hσ
    have := (h.data.mem hσ).1
    omega
  obtain ⟨own, ty, rdlen, ds⟩ := r
  have hdata := h.data
  simp only [RecL.stop, RecL.sites, RecL.add, Site.add] at *
  unfold viewRec
  simp only [RecL.dstart]
  have e1 : u16at buf' (own.e + d + 2) = u16at buf (own.e + 2) := by
    rw [show own.e + d + 2 = own.e + 2 + d by omega]
    exact u16at_same' (fun y a b => hfix y (by omega) (by omega))
  have e2 : u32at buf' (own.e + d + 4) = u32at buf (own.e + 4) := by
    rw [show own.e + d + 4 = own.e + 4 + d by omega]
    exact u32at_same (fun y a b => hfix y (by omega) (by omega))
  rw [e1, e2, hname own List.mem_cons_self]
  have e3 : ty = tMX → u16at buf' (own.e + d + 10) = u16at buf (own.e + 10) := by
    intro ht
    have hl := hdata.mx_len ht
    rw [show own.e + d + 10 = own.e + 10 + d by omega]
    apply u16at_same'
    intro y a b
    apply hout y (by omega) (by omega)
    intro σ hσ
    cases hdata with
    | addr4 g _ => rw [g] at ht; cases ht
    | addr16 g _ => rw [g] at ht; cases ht
    | raw _ _ _ _ _ _ g _ => exact (g ht).elim
    | name τ g _ _ _ => rcases g with g | g | g | g <;> (rw [g] at ht; cases ht)
    | mx τ _ g1 g2 g3 =>
      simp only [List.mem_cons, List.not_mem_nil, or_false] at hσ
      subst hσ; omega
    | soa _ _ g => rw [g] at ht; cases ht
  have epref : (if ty = tMX then u16at buf' (own.e + d + 10) else 0) = (if ty = tMX then u16at buf (own.e + 10) else 0) := by
    split
    · rename_i ht; exact e3 ht
    · rfl
  rw [epref]
  congr 1
  -- the data
  unfold viewData
  simp only [RecL.dstart]
  cases hdata with
  | addr4 g1 g2 =>
    have n6 : ty ≠ tAAAA := by rw [g1]; decide
    rw [if_neg n6, if_pos g1, if_neg n6, if_pos g1, show own.e + d + 10 = own.e + 10 + d by omega,
      slice_same (fun y a b => hout y (by omega) (by omega) (fun σ hσ => by cases hσ))]
  | addr16 g1 g2 =>
    rw [if_pos g1, if_pos g1, show own.e + d + 10 = own.e + 10 + d by omega,
      slice_same (fun y a b => hout y (by omega) (by omega) (fun σ hσ => by cases hσ))]
  | raw g1 g2 g3 g4 g5 g6 g7 g8 =>
    have nn : ¬ (ty = tNS ∨ ty = tCNAME ∨ ty = tDNAM ∨ ty = tPTR) := by rintro (g | g | g | g) <;> contradiction
    rw [if_neg g2, if_neg g1, if_neg g7, if_neg nn, if_neg g8, if_neg g2, if_neg g1, if_neg g7, if_neg nn, if_neg g8,
      show own.e + d + 10 = own.e + 10 + d by omega,
      slice_same (fun y a b => hout y (by omega) (by omega) (fun σ hσ => by cases hσ))]
  | name σ g1 g2 g3 g4 =>
    have nmx : ty ≠ tMX := by rcases g1 with g | g | g | g <;> (rw [g]; decide)
    have n6 : ty ≠ tAAAA := by rcases g1 with g | g | g | g <;> (rw [g]; decide)
    have n4 : ty ≠ tA := by rcases g1 with g | g | g | g <;> (rw [g]; decide)
    have hbr : ty = tNS ∨ ty = tCNAME ∨ ty = tDNAM ∨ ty = tPTR := by rcases g1 with g | g | g | g <;> simp [g]
    have := hname σ (List.mem_cons_of_mem _ List.mem_cons_self)
    rw [g2] at this
    rw [if_neg n6, if_neg n4, if_neg nmx, if_pos hbr, if_neg n6, if_neg n4, if_neg nmx, if_pos hbr,
      show own.e + d + 10 = own.e + 10 + d by omega, this]
  | mx σ g1 g2 g3 g4 =>
    have n6 : ty ≠ tAAAA := by rw [g1]; decide
    have n4 : ty ≠ tA := by rw [g1]; decide
    have := hname σ (List.mem_cons_of_mem _ List.mem_cons_self)
    rw [g2] at this
    rw [if_neg n6, if_neg n4, if_pos g1, if_neg n6, if_neg n4, if_pos g1,
      show own.e + d + 10 + 2 = own.e + 10 + 2 + d by omega, this]
  | soa σ1 σ2 g1 g2 g3 g4 g5 g6 =>
    have nmx : ty ≠ tMX := by rw [g1]; decide
    have n6 : ty ≠ tAAAA := by rw [g1]; decide
    have n4 : ty ≠ tA := by rw [g1]; decide
    have nn : ¬ (ty = tNS ∨ ty = tCNAME ∨ ty = tDNAM ∨ ty = tPTR) := by rw [g1]; decide
    have b3 := g3.span
    have b5 := g5.span
    have a1 := hname σ1 (List.mem_cons_of_mem _ List.mem_cons_self)
    have a2 := hname σ2 (List.mem_cons_of_mem _ (List.mem_cons_of_mem _ List.mem_cons_self))
    rw [if_neg n6, if_neg n4, if_neg nmx, if_neg nn, if_pos g1, if_neg n6, if_neg n4, if_neg nmx, if_neg nn, if_pos g1]
    simp only [List.map_cons, List.map_nil, Site.add]
    rw [a1, a2, slice_same (fun y a b => hout y (by omega) (by omega) (fun σ hσ => by
      simp only [List.mem_cons, List.not_mem_nil, or_false] at hσ
      rcases hσ with hσ | hσ <;> (subst hσ; omega)))]

theorem viewQ_transport {buf buf' : Bytes} {d : Nat} {σ : Site}
    (hs : ∀ y, σ.e ≤ y → y < σ.e + 4 → buf'[y + d]? = buf[y]?)
    (hname : nameAt buf' (σ.s + d) = nameAt buf σ.s) : viewQ buf' (σ.add d) = viewQ buf σ := by
  unfold viewQ
  simp only [Site.add]
  rw [hname, u16at_same' (fun y a b => hs y (by omega) (by omega)),
    show σ.e + d + 2 = σ.e + 2 + d by omega, u16at_same' (fun y a b => hs y (by omega) (by omega))]

end Tins.Dns
