import TinsModel.Dns.UpdateLayout
/-
  From well-formedness to the pointer-target invariant: in a message whose name sites are disjoint, lie on one side of
  the insertion point, and whose pointers designate label boundaries of name sites (never in a later section), every
  RFC 1035 resolution that starts at a label boundary of a name site runs along re-targeted / untouched pointers only
  (`ResolvesVia`), hence survives the insertion (`resolves_shifted`).  And `compose_name` is complete for RFC 1035
  resolutions within its caps, so the getters read the same names afterwards.
-/
namespace Tins.Dns
open Out

/-! ### which constructor a name site starts with is decided by its first octet -/

theorem NameSite.of_zero {buf : Bytes} {q x e : Nat} (h : NameSite buf q x e) (h0 : buf[q]? = some 0) :
    x = q ∧ e = q + 1 := by
  cases h with
  | zero _ => exact ⟨rfl, rfl⟩
  | ptr hi lo g0 _ g3 => rw [h0] at g0; cases g0; simp at g3
  | label len hb h1 h2 _ =>
    rw [h0] at hb
    have := congrArg UInt8.toNat (Option.some.inj hb)
    rw [u8_ofNat_toNat (by omega)] at this
    simp at this; omega

theorem NameSite.of_label {buf : Bytes} {q x e len : Nat} (h : NameSite buf q x e) (hb : buf[q]? = some (UInt8.ofNat len))
    (h1 : 1 ≤ len) (h2 : len ≤ 63) : NameSite buf (q + 1 + len) x e := by
  cases h with
  | zero g0 =>
    rw [hb] at g0
    have := congrArg UInt8.toNat (Option.some.inj g0)
    rw [u8_ofNat_toNat (by omega)] at this
    simp at this; omega
  | ptr hi lo g0 _ g3 =>
    rw [hb] at g0; cases g0
    rw [u8_ofNat_toNat (by omega)] at g3; omega
  | label len' hb' h1' h2' hsub =>
    rw [hb] at hb'
    have := congrArg UInt8.toNat (Option.some.inj hb')
    rw [u8_ofNat_toNat (by omega), u8_ofNat_toNat (by omega)] at this
    subst this; exact hsub

theorem NameSite.of_ptr {buf : Bytes} {q x e : Nat} {hi : UInt8} (h : NameSite buf q x e) (h0 : buf[q]? = some hi)
    (h3 : hi.toNat / 64 = 3) : x = q ∧ e = q + 2 := by
  cases h with
  | zero g0 => rw [h0] at g0; cases g0; simp at h3
  | ptr _ _ _ _ _ => exact ⟨rfl, rfl⟩
  | label len hb h1 h2 _ =>
    rw [h0] at hb; cases hb
    rw [u8_ofNat_toNat (by omega)] at h3; omega

/-! ### the invariant -/

/-- what the proof of "every resolution path is re-targeted coherently" needs of the name sites of a message, the
    insertion point `t` and the set `R` of re-targeted pointer fields -/
structure SitesOk (buf : Bytes) (sites : List Site) (t : Nat) (R : Nat → Prop) : Prop where
  site : ∀ σ ∈ sites, NameSite buf σ.s σ.x σ.e
  disj : ∀ σ ∈ sites, ∀ τ ∈ sites, ∀ y, σ.s ≤ y → y < σ.e → τ.s ≤ y → y < τ.e → σ = τ
  side : ∀ σ ∈ sites, σ.e ≤ t ∨ t ≤ σ.s
  rset : ∀ y, R y ↔ ∃ σ ∈ sites, t ≤ σ.s ∧ y = σ.x ∧ σ.e = σ.x + 2 ∧ t + 12 ≤ ptrAt buf y
  ptr : ∀ σ ∈ sites, σ.e = σ.x + 2 → 12 ≤ ptrAt buf σ.x ∧
    (∃ τ ∈ sites, τ.s ≤ ptrAt buf σ.x - 12 ∧ NameSite buf (ptrAt buf σ.x - 12) τ.x τ.e) ∧
    (σ.x < t → ptrAt buf σ.x - 12 < t)

/-- inside a name site only the octets of its own (re-targeted) pointer are not literal -/
theorem SitesOk.lit {buf : Bytes} {sites : List Site} {t : Nat} {R : Nat → Prop} (h : SitesOk buf sites t R) {σ : Site}
    (hσ : σ ∈ sites) {z : Nat} (h1 : σ.s ≤ z) (h2 : z < σ.e) (hz : ¬ (R σ.x ∧ (z = σ.x ∨ z = σ.x + 1))) : Lit R z := by
  have bσ := (h.site σ hσ).bounds
  refine ⟨fun hr => ?_, fun hr => ?_⟩
  · obtain ⟨τ, hτ, _, hx, he, _⟩ := (h.rset z).1 hr
    have bτ := (h.site τ hτ).bounds
    have := h.disj σ hσ τ hτ z h1 h2 (by omega) (by omega)
    subst this
    exact hz ⟨by rw [← hx]; exact hr, Or.inl hx⟩
  · obtain ⟨τ, hτ, _, hx, he, _⟩ := (h.rset (z - 1)).1 hr.2
    have bτ := (h.site τ hτ).bounds
    have := h.disj σ hσ τ hτ z h1 h2 (by omega) (by omega)
    subst this
    exact hz ⟨by rw [← hx]; exact hr.2, Or.inr (by omega)⟩

/-- a site that ends in a terminator has no re-targeted octet -/
theorem SitesOk.not_R_of_zero {buf : Bytes} {sites : List Site} {t : Nat} {R : Nat → Prop} (h : SitesOk buf sites t R)
    {σ : Site} (hσ : σ ∈ sites) (he : σ.e = σ.x + 1) : ¬ R σ.x := by
  intro hr
  obtain ⟨τ, hτ, _, hx, he', _⟩ := (h.rset σ.x).1 hr
  have bσ := (h.site σ hσ).bounds
  have bτ := (h.site τ hτ).bounds
  have := h.disj σ hσ τ hτ σ.x bσ.1 (by omega) (by omega) (by omega)
  subst this
  omega

/-- **the pointer-target invariant**: a resolution that starts at a label boundary of a name site only follows
    pointers that end name sites, each re-targeted iff its target moves -/
theorem SitesOk.via {buf : Bytes} {sites : List Site} {t : Nat} {R : Nat → Prop} (h : SitesOk buf sites t R)
    {q : Nat} {n : Name} {j : Nat} (hr : Resolves buf q n j) :
    ∀ σ ∈ sites, σ.s ≤ q → NameSite buf q σ.x σ.e → ResolvesVia buf R t q n j := by
  induction hr with
  | @root q h0 =>
    intro σ hσ hq hn
    obtain ⟨hx, he⟩ := hn.of_zero h0
    refine ResolvesVia.root h0 (h.lit hσ hq (by omega) ?_)
    rintro ⟨hr, _⟩
    exact h.not_R_of_zero hσ (by omega) hr
  | @label q n j len l hb h1 h2 h3 h4 h5 hsub ih =>
    intro σ hσ hq hn
    have hn' := hn.of_label hb h1 h2
    have b' := hn'.bounds
    refine ResolvesVia.label len l hb h1 h2 h3 h4 h5 ?_ ?_ (ih σ hσ (by omega) hn')
    · intro z z1 z2
      exact h.lit hσ (by omega) (by omega) (by rintro ⟨_, hz | hz⟩ <;> omega)
    · rcases h.side σ hσ with hs | hs
      · left; omega
      · right; omega
  | @pointer q n j hi lo h0 h1 h3 h12 hsub ih =>
    intro σ hσ hq hn
    obtain ⟨hx, he⟩ := hn.of_ptr h0 h3
    have hpa : ptrAt buf q = hi.toNat % 64 * 256 + lo.toNat := ptrAt_of_some h0 h1
    obtain ⟨_, ⟨τ, hτ, hτs, hτn⟩, hback⟩ := h.ptr σ hσ (by omega)
    rw [hx, hpa] at hτs hτn hback
    have hsub' := ih τ hτ hτs hτn
    by_cases hR : R q
    · exact ResolvesVia.moved hi lo hR h0 h1 h3 h12 hsub'
    · have hl0 : Lit R q := h.lit hσ hq (by omega) (by rintro ⟨hr, _⟩; rw [hx] at hr; exact hR hr)
      have hl1 : Lit R (q + 1) := h.lit hσ (by omega) (by omega) (by rintro ⟨hr, _⟩; rw [hx] at hr; exact hR hr)
      have hside : q + 2 ≤ t ∨ t ≤ q := by
        rcases h.side σ hσ with hs | hs
        · left; omega
        · right; omega
      refine ResolvesVia.kept hi lo hl0 hl1 hside h0 h1 h3 h12 ?_ hsub'
      rcases Nat.lt_or_ge (hi.toNat % 64 * 256 + lo.toNat - 12) t with hlt | hge
      · exact hlt
      · -- the target moves: then the pointer has to be a re-targeted one, or lies in front of `t` and points backwards
        rcases h.side σ hσ with hs | hs
        · exact hback (by omega)
        · exact (hR ((h.rset q).2 ⟨σ, hσ, hs, hx.symm, by omega, by rw [hpa]; omega⟩)).elim

/-! ### `compose_name` is complete for resolutions within its caps -/

theorem appendName_len_ge : ∀ (n : Name) (out : Bytes), out.length ≤ (appendName out n).length
  | [], out => Nat.le_refl _
  | l :: r, out => by
    rw [appendName]
    refine Nat.le_trans ?_ (appendName_len_ge r _)
    rw [List.length_append]
    split
    · rw [List.length_append]; omega
    · omega

theorem composeName_complete_some (recs : Bytes) {p : Nat} {n : Name} {j : Nat} (hr : Resolves recs p n j) :
    ∀ (f : Nat) (out : Bytes) (c v : Nat), c + j ≤ 31 → (appendName out n).length ≤ 255 →
      (32 - c) + (255 - out.length) < f → composeName recs f p out c (some v) = ok (appendName out n, v) := by
  induction hr with
  | @root p h0 =>
    intro f out c v hc hcap hf
    obtain ⟨f', rfl⟩ : ∃ f', f = f' + 1 := ⟨f - 1, by omega⟩
    have hp := getElem?_lt_length h0
    rw [appendName] at hcap ⊢
    unfold composeName
    rw [if_neg (by omega), rd_eq_ok h0]
    simp only [Out.ok_bind]
    rw [if_pos (by rfl)]
    unfold outPut
    rw [if_pos (by simp only [List.length_cons, List.length_nil]; omega)]
    rfl
  | @label p n j len l hb h1 h2 h3 h4 h5 hsub ih =>
    intro f out c v hc hcap hf
    obtain ⟨f', rfl⟩ : ∃ f', f = f' + 1 := ⟨f - 1, by omega⟩
    rw [appendName] at hcap ⊢
    have hlen1 : (if out.length ≠ 0 then out ++ [46] else out).length = out.length + (if out.length ≠ 0 then 1 else 0) := by
      split <;> simp
    have hcap1 : out.length + len + 1 ≤ 255 := by
      by_cases ho : out.length ≠ 0
      · rw [if_pos ho] at hcap
        have := appendName_len_ge n (out ++ [46] ++ l)
        simp only [List.length_append, List.length_cons, List.length_nil] at this
        omega
      · omega
    unfold composeName
    rw [if_neg (by omega), rd_eq_ok hb, u8_ofNat_toNat (by omega)]
    simp only [Out.ok_bind]
    rw [if_neg (by omega), if_neg (by omega), if_neg (by omega), if_neg (by omega)]
    have hdot : dotOut out = ok (if out.length ≠ 0 then out ++ [46] else out) := by
      unfold dotOut
      split
      · unfold outPut; rw [if_pos (by simp only [List.length_cons, List.length_nil]; omega)]
      · rfl
    rw [hdot]; simp only [Out.ok_bind]
    have hrdn : rdN recs (p + 1) len = ok l := by
      unfold rdN; rw [if_pos (by omega), h4]
    rw [hrdn]; simp only [Out.ok_bind]
    unfold outPut
    rw [if_pos (by rw [hlen1, h3]; split <;> omega)]
    simp only [Out.ok_bind]
    exact ih f' _ c v hc hcap (by rw [List.length_append, hlen1, h3]; split <;> omega)
  | @pointer p n j hi lo h0 h1 h3 h12 hsub ih =>
    intro f out c v hc hcap hf
    obtain ⟨f', rfl⟩ : ∃ f', f = f' + 1 := ⟨f - 1, by omega⟩
    have hp1 := getElem?_lt_length h1
    have htl := hsub.lt_length
    have hhi := u8_toNat_lt hi
    unfold composeName
    rw [if_neg (by omega), rd_eq_ok h0]
    simp only [Out.ok_bind]
    rw [if_neg (by omega), if_pos h3, if_neg (by omega), if_neg (by omega), rd_eq_ok h1]
    simp only [Out.ok_bind]
    rw [if_neg (by omega)]
    exact ih f' out (c + 1) _ (by omega) hcap (by omega)

/-- … and with no end pointer saved yet it returns the end of the name site it started in -/
theorem composeName_complete_none (recs : Bytes) {p : Nat} {n : Name} {j : Nat} (hr : Resolves recs p n j) :
    ∀ (f : Nat) (out : Bytes) (c x e : Nat), NameSite recs p x e → c + j ≤ 31 → (appendName out n).length ≤ 255 →
      (32 - c) + (255 - out.length) < f → composeName recs f p out c none = ok (appendName out n, e) := by
  induction hr with
  | @root p h0 =>
    intro f out c x e hn hc hcap hf
    obtain ⟨f', rfl⟩ : ∃ f', f = f' + 1 := ⟨f - 1, by omega⟩
    obtain ⟨_, he⟩ := hn.of_zero h0
    have hp := getElem?_lt_length h0
    rw [appendName] at hcap ⊢
    unfold composeName
    rw [if_neg (by omega), rd_eq_ok h0]
    simp only [Out.ok_bind]
    rw [if_pos (by rfl)]
    unfold outPut
    rw [if_pos (by simp only [List.length_cons, List.length_nil]; omega), he]
    rfl
  | @label p n j len l hb h1 h2 h3 h4 h5 hsub ih =>
    intro f out c x e hn hc hcap hf
    obtain ⟨f', rfl⟩ : ∃ f', f = f' + 1 := ⟨f - 1, by omega⟩
    have hn' := hn.of_label hb h1 h2
    rw [appendName] at hcap ⊢
    have hlen1 : (if out.length ≠ 0 then out ++ [46] else out).length = out.length + (if out.length ≠ 0 then 1 else 0) := by
      split <;> simp
    have hcap1 : out.length + len + 1 ≤ 255 := by
      by_cases ho : out.length ≠ 0
      · rw [if_pos ho] at hcap
        have := appendName_len_ge n (out ++ [46] ++ l)
        simp only [List.length_append, List.length_cons, List.length_nil] at this
        omega
      · omega
    unfold composeName
    rw [if_neg (by omega), rd_eq_ok hb, u8_ofNat_toNat (by omega)]
    simp only [Out.ok_bind]
    rw [if_neg (by omega), if_neg (by omega), if_neg (by omega), if_neg (by omega)]
    have hdot : dotOut out = ok (if out.length ≠ 0 then out ++ [46] else out) := by
      unfold dotOut
      split
      · unfold outPut; rw [if_pos (by simp only [List.length_cons, List.length_nil]; omega)]
      · rfl
    rw [hdot]; simp only [Out.ok_bind]
    have hrdn : rdN recs (p + 1) len = ok l := by
      unfold rdN; rw [if_pos (by omega), h4]
    rw [hrdn]; simp only [Out.ok_bind]
    unfold outPut
    rw [if_pos (by rw [hlen1, h3]; split <;> omega)]
    simp only [Out.ok_bind]
    exact ih f' _ c x e hn' hc hcap (by rw [List.length_append, hlen1, h3]; split <;> omega)
  | @pointer p n j hi lo h0 h1 h3 h12 hsub ih =>
    intro f out c x e hn hc hcap hf
    obtain ⟨f', rfl⟩ : ∃ f', f = f' + 1 := ⟨f - 1, by omega⟩
    obtain ⟨_, he⟩ := hn.of_ptr h0 h3
    have hp1 := getElem?_lt_length h1
    have htl := hsub.lt_length
    have hhi := u8_toNat_lt hi
    unfold composeName
    rw [if_neg (by omega), rd_eq_ok h0]
    simp only [Out.ok_bind]
    rw [if_neg (by omega), if_pos h3, if_neg (by omega), if_neg (by omega), rd_eq_ok h1]
    simp only [Out.ok_bind]
    rw [if_neg (by omega), he]
    exact composeName_complete_some recs hsub f' out (c + 1) _ (by omega) hcap (by omega)

/-- what `compose_name` returned from the first octet of a name site: an RFC 1035 resolution within the caps, and
    the end of the site -/
theorem composeName_site {recs : Bytes} {p x e : Nat} (hn : NameSite recs p x e) {r : Bytes × Nat}
    (h : composeName recs composeFuel p [] 0 none = ok r) :
    ∃ n j, Resolves recs p n j ∧ j ≤ 31 ∧ r = (appendName [] n, e) ∧ (appendName [] n).length ≤ 255 := by
  obtain ⟨n, j, hres, hout, hj⟩ := composeName_sound recs composeFuel p [] 0 none r (by omega) h
  have hsat := composeName_init_sat recs p
  rw [h] at hsat
  have hlen : (appendName [] n).length ≤ 255 := by rw [← hout]; exact hsat
  have := composeName_complete_none recs hres composeFuel [] 0 x e hn (by omega) hlen (by simp [composeFuel])
  rw [h] at this
  exact ⟨n, j, hres, by omega, Out.ok.inj this, hlen⟩

/-- … and conversely: a resolution within the caps is what `compose_name` returns -/
theorem composeName_of_resolves {recs : Bytes} {p x e : Nat} (hn : NameSite recs p x e) {n : Name} {j : Nat}
    (hr : Resolves recs p n j) (hj : j ≤ 31) (hlen : (appendName [] n).length ≤ 255) :
    composeName recs composeFuel p [] 0 none = ok (appendName [] n, e) :=
  composeName_complete_none recs hr composeFuel [] 0 x e hn (by omega) hlen (by simp [composeFuel])

end Tins.Dns
