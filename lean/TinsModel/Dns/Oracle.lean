import TinsModel.Dns.Records
/-
  The run-time oracle classifies an API call with `specOfNew` / `specOfQuery` (text → abstract record); the theorems
  speak about `SRec.toNew` / `SQuery.toNew` (abstract record → API call).  They are inverse on legal records, so the
  oracle judges exactly the calls the theorems are about.
-/
set_option linter.unusedSimpArgs false
namespace Tins.Dns

theorem splitDots_go_label : ∀ (l : Label) (cur rest : Bytes), (∀ c ∈ l, c ≠ 46) →
    splitDots.go (l ++ rest) cur = splitDots.go rest (cur ++ l)
  | [], cur, rest, _ => by simp
  | c :: l, cur, rest, h => by
    have hc : c ≠ 46 := h c List.mem_cons_self
    rw [List.cons_append, splitDots.go, if_neg hc, splitDots_go_label l (cur ++ [c]) rest
      (fun x hx => h x (List.mem_cons_of_mem _ hx))]
    simp

theorem splitDots_go_textOf : ∀ {l : Label} {r : Name}, LabelsOk (l :: r) → splitDots.go (textOf (l :: r)) [] = l :: r
  | l, [], h => by
    have := splitDots_go_label l [] [] (fun c hc => (h.head.2.2 c hc).1)
    rw [List.append_nil] at this
    rw [textOf_single, this]
    simp [splitDots.go]
  | l, l' :: r', h => by
    rw [textOf_cons_cons, splitDots_go_label l [] _ (fun c hc => (h.head.2.2 c hc).1), splitDots.go, if_pos rfl,
      splitDots_go_textOf h.tail]
    simp

theorem splitDots_textOf {n : Name} (h : LabelsOk n) : splitDots (textOf n) = n := by
  cases n with
  | nil => rfl
  | cons l r =>
    unfold splitDots
    rw [if_neg (by simpa [List.isEmpty_iff] using textOf_ne_nil h)]
    exact splitDots_go_textOf h

theorem unwireName_wire : ∀ (n : Name) (f : Nat) (rest : Bytes), LabelsOk n → n.length < f →
    unwireName f (wireName n ++ rest) = some (n, rest)
  | [], 0, _, _, hf => by simp at hf
  | [], f + 1, rest, _, _ => by simp [unwireName]
  | l :: r, 0, _, _, hf => by simp at hf
  | l :: r, f + 1, rest, h, hf => by
    have hl := h.head
    have hne : UInt8.ofNat l.length ≠ 0 := by
      intro h0
      have h1 : (UInt8.ofNat l.length).toNat = (0 : UInt8).toNat := congrArg _ h0
      rw [u8_ofNat_toNat (by omega)] at h1
      change l.length = 0 at h1
      omega
    simp only [wireName_cons, List.cons_append, List.append_assoc, unwireName]
    rw [if_neg hne, u8_ofNat_toNat (by omega)]
    rw [if_pos (by simp only [List.length_append]; omega)]
    rw [List.drop_left, List.take_left]
    rw [unwireName_wire r f rest h.tail (by simp only [List.length_cons] at hf; omega)]

theorem wireName_length_ge2 : ∀ {n : Name}, LabelsOk n → 2 * n.length + 1 ≤ (wireName n).length
  | [], _ => by simp
  | l :: r, h => by
    have := wireName_length_ge2 h.tail
    have := h.head.1
    simp only [wireName_cons, List.length_cons, List.length_append, List.cons_append]; omega

theorem legal_labels_lt {n : Name} (h : legalName n = true) : n.length < 130 := by
  have h1 := (wireName_le_of_legal h).2
  have := wireName_length_ge2 (wireName_le_of_legal h).1
  omega

/-- the oracle's classification inverts `toNew` on legal records -/
theorem specOfNew_toNew {r : SRec} (hl : r.legal = true) (txt : Bytes) : specOfNew (r.toNew txt) = some r := by
  obtain ⟨hok, hwl, ht, hc, httl, hd⟩ := SRec.legal_facts hl
  cases r with
  | mk o t c ttl d =>
    dsimp only at hok hwl ht hc httl hd
    cases d with
    | a addr =>
      have hd' := hd
      simp only [SData.legal, Bool.and_eq_true, beq_iff_eq] at hd'
      obtain ⟨h1, h2⟩ := hd'
      subst h1
      simp only [tA, tAAAA, tMX, tNS, tCNAME, tPTR, tDNAM, tSOA] at hl
      simp [specOfNew, SRec.toNew, splitDots_textOf hok, tA, hl]
    | aaaa addr =>
      have hd' := hd
      simp only [SData.legal, Bool.and_eq_true, beq_iff_eq] at hd'
      obtain ⟨h1, h2⟩ := hd'
      subst h1
      simp only [tA, tAAAA, tMX, tNS, tCNAME, tPTR, tDNAM, tSOA] at hl
      simp [specOfNew, SRec.toNew, splitDots_textOf hok, tA, tAAAA, hl]
    | name n =>
      have hd' := hd
      simp only [SData.legal, Bool.and_eq_true, Bool.or_eq_true, beq_iff_eq] at hd'
      obtain ⟨h1, hn⟩ := hd'
      obtain ⟨hokn, _⟩ := wireName_le_of_legal hn
      rcases h1 with ((h1 | h1) | h1) | h1 <;> subst h1 <;>
        simp only [tA, tAAAA, tMX, tNS, tCNAME, tPTR, tDNAM, tSOA] at hl <;>
        simp [specOfNew, SRec.toNew, splitDots_textOf hok, splitDots_textOf hokn, tA, tAAAA, tMX, tNS, tCNAME, tPTR,
          tDNAM, hl]
    | mx pf n =>
      have hd' := hd
      simp only [SData.legal, Bool.and_eq_true, beq_iff_eq, decide_eq_true_eq] at hd'
      obtain ⟨⟨h1, hp⟩, hn⟩ := hd'
      obtain ⟨hokn, _⟩ := wireName_le_of_legal hn
      subst h1
      simp only [tA, tAAAA, tMX, tNS, tCNAME, tPTR, tDNAM, tSOA] at hl
      simp [specOfNew, SRec.toNew, splitDots_textOf hok, splitDots_textOf hokn, tA, tAAAA, tMX, hl]
    | soa m rn tail =>
      have hd' := hd
      simp only [SData.legal, Bool.and_eq_true, beq_iff_eq] at hd'
      obtain ⟨⟨⟨h1, hm⟩, hrn⟩, htl⟩ := hd'
      obtain ⟨hokm, _⟩ := wireName_le_of_legal hm
      obtain ⟨hokr, _⟩ := wireName_le_of_legal hrn
      subst h1
      simp only [tA, tAAAA, tMX, tNS, tCNAME, tPTR, tDNAM, tSOA] at hl
      have e1 := unwireName_wire m 130 (wireName rn ++ tail) hokm (legal_labels_lt hm)
      have e2 := unwireName_wire rn 130 tail hokr (legal_labels_lt hrn)
      simp [specOfNew, SRec.toNew, splitDots_textOf hok, tA, tAAAA, tMX, tNS, tCNAME, tPTR, tDNAM, tSOA, e1, e2, hl]
    | raw b =>
      have hd' := hd
      simp only [SData.legal, Bool.and_eq_true, Bool.not_eq_true', Bool.or_eq_false_iff, beq_eq_false_iff_ne,
        decide_eq_true_eq] at hd'
      obtain ⟨⟨⟨⟨⟨⟨⟨⟨h1, h2⟩, h3⟩, h4⟩, h5⟩, h6⟩, h7⟩, h8⟩, hb⟩ := hd'
      simp [specOfNew, SRec.toNew, splitDots_textOf hok, h1, h2, h3, h4, h5, h6, h7, h8, hl]

theorem specOfQuery_toNew {q : SQuery} (hl : q.legal = true) : specOfQuery q.toNew = some q := by
  obtain ⟨hok, _, _, _⟩ := SQuery.legal_facts hl
  cases q with
  | mk n t c =>
    dsimp only at hok
    simp [specOfQuery, SQuery.toNew, splitDots_textOf hok, hl]

end Tins.Dns
