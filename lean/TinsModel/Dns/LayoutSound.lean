import TinsModel.Dns.Layout
import TinsModel.Dns.Update
import TinsModel.Dns.Compose
/-
  Basic facts about name sites and soundness of the executable checker `wfMsg` with respect to `WFP`.
-/
namespace Tins.Dns
open Out

theorem NameSite.bounds {buf : Bytes} {p x e : Nat} (h : NameSite buf p x e) :
    p ≤ x ∧ (e = x + 1 ∨ e = x + 2) ∧ e ≤ buf.length := by
  induction h with
  | zero h0 => exact ⟨Nat.le_refl _, Or.inl rfl, by have := getElem?_lt_length h0; omega⟩
  | ptr hi lo h0 h1 _ => exact ⟨Nat.le_refl _, Or.inr rfl, by have := getElem?_lt_length h1; omega⟩
  | label len hb h1 h2 _ ih => exact ⟨by omega, ih.2.1, ih.2.2⟩

theorem NameSite.lt {buf : Bytes} {p x e : Nat} (h : NameSite buf p x e) : p < e := by
  have := h.bounds; omega

theorem NameSite.le_length {buf : Bytes} {p x e : Nat} (h : NameSite buf p x e) : e ≤ buf.length := h.bounds.2.2

/-- `p < e ≤ length`, without the case distinction of `bounds` (cheaper for `omega`) -/
theorem NameSite.span {buf : Bytes} {p x e : Nat} (h : NameSite buf p x e) : p < e ∧ e ≤ buf.length :=
  ⟨h.lt, h.le_length⟩

/-- what sits at the terminal position -/
theorem NameSite.term {buf : Bytes} {p x e : Nat} (h : NameSite buf p x e) :
    (e = x + 1 ∧ buf[x]? = some 0) ∨
    (e = x + 2 ∧ ∃ hi lo : UInt8, buf[x]? = some hi ∧ buf[x + 1]? = some lo ∧ hi.toNat / 64 = 3) := by
  induction h with
  | zero h0 => exact Or.inl ⟨rfl, h0⟩
  | ptr hi lo h0 h1 h3 => exact Or.inr ⟨rfl, hi, lo, h0, h1, h3⟩
  | label len hb h1 h2 _ ih => exact ih

/-- the walk from the terminal position itself -/
theorem NameSite.at_term {buf : Bytes} {p x e : Nat} (h : NameSite buf p x e) : NameSite buf x x e := by
  induction h with
  | zero h0 => exact NameSite.zero h0
  | ptr hi lo h0 h1 h3 => exact NameSite.ptr hi lo h0 h1 h3
  | label len hb h1 h2 _ ih => exact ih

theorem u8_eq_zero_of_toNat {b : UInt8} (h : b.toNat = 0) : b = 0 := by
  apply UInt8.toNat_inj.1; rw [h]; rfl

/-! ### the checker is sound -/

theorem nameSiteB_sound (buf : Bytes) : ∀ (f p x e : Nat), nameSiteB buf f p = some (x, e) → NameSite buf p x e
  | 0, _, _, _, h => by simp [nameSiteB] at h
  | f + 1, p, x, e, h => by
    unfold nameSiteB at h
    cases hb : buf[p]? with
    | none => rw [hb] at h; cases h
    | some b =>
      rw [hb] at h
      dsimp only at h
      split at h
      · rename_i h0
        cases h
        subst h0
        exact NameSite.zero hb
      · rename_i h0
        split at h
        · rename_i h3
          cases hl : buf[p + 1]? with
          | none => rw [hl] at h; cases h
          | some lo =>
            rw [hl] at h
            cases h
            exact NameSite.ptr b lo hb hl h3
        · split at h
          · rename_i h3 h00
            have hne : b.toNat ≠ 0 := fun hz => h0 (u8_eq_zero_of_toNat hz)
            have hlt := u8_toNat_lt b
            refine NameSite.label b.toNat ?_ (by omega) (by omega) (nameSiteB_sound buf f _ x e h)
            rw [hb, u8_ofNat_toNat_self]
          · cases h

theorem siteB_sound {buf : Bytes} {p : Nat} {σ : Site} (h : siteB buf p = some σ) :
    σ.s = p ∧ NameSite buf σ.s σ.x σ.e := by
  unfold siteB at h
  cases hn : nameSiteB buf (buf.length + 1) p with
  | none => rw [hn] at h; cases h
  | some r =>
    obtain ⟨x, e⟩ := r
    rw [hn] at h
    cases h
    exact ⟨rfl, nameSiteB_sound buf _ _ _ _ hn⟩

theorem dataSitesB_sound {buf : Bytes} {ty a b : Nat} {ds : List Site} (h : dataSitesB buf ty a b = some ds) :
    DataSites buf ty a b ds := by
  unfold dataSitesB at h
  split at h
  · rename_i ht
    split at h
    · rename_i hb; cases h; exact DataSites.addr4 ht hb
    · cases h
  · rename_i hna
    split at h
    · rename_i ht
      split at h
      · rename_i hb; cases h; exact DataSites.addr16 ht hb
      · cases h
    · rename_i hn6
      split at h
      · rename_i ht
        cases hs : siteB buf a with
        | none => rw [hs] at h; cases h
        | some σ =>
          rw [hs] at h; dsimp only at h
          split at h
          · rename_i hle
            cases h
            obtain ⟨h1, h2⟩ := siteB_sound hs
            exact DataSites.name σ ht h1 h2 hle
          · cases h
      · rename_i hnn
        split at h
        · rename_i ht
          cases hs : siteB buf (a + 2) with
          | none => rw [hs] at h; cases h
          | some σ =>
            rw [hs] at h; dsimp only at h
            split at h
            · rename_i hle
              cases h
              obtain ⟨h1, h2⟩ := siteB_sound hs
              exact DataSites.mx σ ht h1 h2 hle
            · cases h
        · rename_i hnm
          split at h
          · rename_i ht
            cases hs : siteB buf a with
            | none => rw [hs] at h; cases h
            | some σ1 =>
              rw [hs] at h; dsimp only at h
              cases hs2 : siteB buf σ1.e with
              | none => rw [hs2] at h; cases h
              | some σ2 =>
                rw [hs2] at h; dsimp only at h
                split at h
                · rename_i hle
                  cases h
                  obtain ⟨h1, h2⟩ := siteB_sound hs
                  obtain ⟨h3, h4⟩ := siteB_sound hs2
                  exact DataSites.soa σ1 σ2 ht h1 h2 h3 h4 hle
                · cases h
          · rename_i hns
            cases h
            exact DataSites.raw hna hn6 (fun h => hnn (Or.inl h)) (fun h => hnn (Or.inr (Or.inl h)))
              (fun h => hnn (Or.inr (Or.inr (Or.inl h)))) (fun h => hnn (Or.inr (Or.inr (Or.inr h)))) hnm hns

theorem recB_sound {buf : Bytes} {p : Nat} {r : RecL} (h : recB buf p = some r) : r.own.s = p ∧ RecAt buf r := by
  unfold recB at h
  cases hs : siteB buf p with
  | none => rw [hs] at h; cases h
  | some σ =>
    rw [hs] at h; dsimp only at h
    split at h
    · rename_i hb
      cases hd : dataSitesB buf (u16at buf σ.e) (σ.e + 10) (σ.e + 10 + u16at buf (σ.e + 8)) with
      | none => rw [hd] at h; cases h
      | some ds =>
        rw [hd] at h
        cases h
        obtain ⟨h1, h2⟩ := siteB_sound hs
        exact ⟨h1, ⟨h2, hb, rfl, rfl, dataSitesB_sound hd⟩⟩
    · cases h

theorem secB_sound (buf : Bytes) : ∀ (n p : Nat) (rs : List RecL) (e : Nat), secB buf n p = some (rs, e) →
    SecAt buf p rs e ∧ rs.length = n
  | 0, p, rs, e, h => by
    unfold secB at h
    cases h
    exact ⟨SecAt.nil, rfl⟩
  | n + 1, p, rs, e, h => by
    unfold secB at h
    cases hr : recB buf p with
    | none => rw [hr] at h; cases h
    | some r =>
      rw [hr] at h; dsimp only at h
      cases hs : secB buf n r.stop with
      | none => rw [hs] at h; cases h
      | some x =>
        obtain ⟨rs', e'⟩ := x
        rw [hs] at h
        cases h
        obtain ⟨h1, h2⟩ := recB_sound hr
        obtain ⟨h3, h4⟩ := secB_sound buf n _ _ _ hs
        exact ⟨SecAt.cons h1 h2 h3, by simp [h4]⟩

theorem qsecB_sound (buf : Bytes) : ∀ (n p : Nat) (qs : List Site) (e : Nat), qsecB buf n p = some (qs, e) →
    QSecAt buf p qs e ∧ qs.length = n
  | 0, p, qs, e, h => by
    unfold qsecB at h
    cases h
    exact ⟨QSecAt.nil, rfl⟩
  | n + 1, p, qs, e, h => by
    unfold qsecB at h
    cases hr : siteB buf p with
    | none => rw [hr] at h; cases h
    | some σ =>
      rw [hr] at h; dsimp only at h
      split at h
      · rename_i hc
        cases hs : qsecB buf n (σ.e + 4) with
        | none => rw [hs] at h; cases h
        | some x =>
          obtain ⟨qs', e'⟩ := x
          rw [hs] at h
          cases h
          obtain ⟨h1, h2⟩ := siteB_sound hr
          obtain ⟨h3, h4⟩ := qsecB_sound buf n _ _ _ hs
          exact ⟨QSecAt.cons h1 h2 hc.1 hc.2.1 hc.2.2 h3, by simp [h4]⟩
      · cases h

theorem layoutB_sound {m : Msg} {L : Layout} (h : layoutB m = some L) : MsgAt m L := by
  unfold layoutB at h
  cases h1 : qsecB m.recs m.q 0 with
  | none => rw [h1] at h; cases h
  | some x1 =>
    obtain ⟨qs, e1⟩ := x1
    rw [h1] at h; dsimp only at h
    split at h
    · rename_i he1
      cases h2 : secB m.recs m.an m.ai with
      | none => rw [h2] at h; cases h
      | some x2 =>
        obtain ⟨an, e2⟩ := x2
        rw [h2] at h; dsimp only at h
        split at h
        · rename_i he2
          cases h3 : secB m.recs m.au m.ui with
          | none => rw [h3] at h; cases h
          | some x3 =>
            obtain ⟨au, e3⟩ := x3
            rw [h3] at h; dsimp only at h
            split at h
            · rename_i he3
              cases h4 : secB m.recs m.ad m.di with
              | none => rw [h4] at h; cases h
              | some x4 =>
                obtain ⟨ad, e4⟩ := x4
                rw [h4] at h; dsimp only at h
                split at h
                · rename_i he4
                  cases h
                  obtain ⟨a1, b1⟩ := qsecB_sound _ _ _ _ _ h1
                  obtain ⟨a2, b2⟩ := secB_sound _ _ _ _ _ h2
                  obtain ⟨a3, b3⟩ := secB_sound _ _ _ _ _ h3
                  obtain ⟨a4, b4⟩ := secB_sound _ _ _ _ _ h4
                  subst he1 he2 he3
                  rw [he4] at a4
                  exact ⟨a1, a2, a3, a4, b1.symm, b2.symm, b3.symm, b4.symm⟩
                · cases h
            · cases h
        · cases h
    · cases h

theorem ptrOkB_sound {m : Msg} {sites : List Site} {σ : Site} (h : ptrOkB m sites σ = true) : PtrOk m sites σ := by
  unfold ptrOkB ptrTgtB ptrSecB at h
  simp only [Bool.and_eq_true, decide_eq_true_eq] at h
  obtain ⟨⟨h12, ht⟩, ⟨hq, ha⟩, hu⟩ := h
  refine ⟨h12, ?_, hq, ha, hu⟩
  cases hn : nameSiteB m.recs (m.recs.length + 1) (ptrAt m.recs σ.x - 12) with
  | none => rw [hn] at ht; cases ht
  | some r =>
    obtain ⟨x, e⟩ := r
    rw [hn] at ht
    simp only [List.any_eq_true, Bool.and_eq_true, decide_eq_true_eq] at ht
    obtain ⟨τ, hτ, ⟨hs, hx⟩, he⟩ := ht
    refine ⟨τ, hτ, hs, ?_⟩
    rw [hx, he]
    exact nameSiteB_sound _ _ _ _ _ hn

theorem wfMsg_sound' {m : Msg} (h : wfMsg m = true) : ∃ L, layoutB m = some L ∧ WFL m L := by
  unfold wfMsg at h
  cases hl : layoutB m with
  | none => rw [hl] at h; cases h
  | some L =>
    rw [hl] at h
    unfold wfLayoutB at h
    simp only [Bool.and_eq_true, List.all_eq_true, Bool.or_eq_true, decide_eq_true_eq] at h
    refine ⟨L, rfl, layoutB_sound hl, ?_, ?_, h.2⟩
    · intro σ hσ he
      rcases (h.1 σ hσ).1 with hne | hp
      · exact (hne he).elim
      · exact ptrOkB_sound hp
    · intro σ hσ
      exact (h.1 σ hσ).2

theorem wfMsg_sound {m : Msg} (h : wfMsg m = true) : WFP m := by
  obtain ⟨L, _, hw⟩ := wfMsg_sound' h
  exact ⟨L, hw⟩

end Tins.Dns
