import TinsModel.Dns.Model
/-
  Specification side of property C10, written from the property text and RFC 1035 (§3.1 names, §3.2.1 RR format,
  §3.3 RDATA formats, §4.1.4 compression), not from libtins:

  * a message is four lists of records whose names are *lists of labels* (fully expanded);
  * `SRec.view` is what the section getters have to hand out for a record (textual names, dotted quad, …);
  * `SRec.toNew` is how the record is given to the insertion API;
  * `wireSections` is the reference encoding without compression; `Resolves` is RFC 1035 name resolution with
    compression pointers (a relation: finite derivations only, so a pointer loop resolves to nothing).
-/
namespace Tins.Dns

abbrev Label := Bytes
abbrev Name := List Label

/-- a label that the textual form can express: 1..63 octets, no '.', no NUL -/
def legalLabel (l : Label) : Bool := 1 ≤ l.length && l.length ≤ 63 && l.all (fun c => c != 46 && c != 0)

/-- RFC 1035 wire form of a fully expanded name -/
def wireName : Name → Bytes
  | [] => [0]
  | l :: r => UInt8.ofNat l.length :: l ++ wireName r

/-- "any legal form": every label legal, at most 255 octets on the wire, any number of labels -/
def legalName (n : Name) : Bool := n.all legalLabel && (wireName n).length ≤ 255

/-- textual form: labels joined by '.'; the root is the empty string -/
def textOf : Name → Bytes
  | [] => []
  | [l] => l
  | l :: r => l ++ 46 :: textOf r

/-- split a textual name at the dots (inverse of `textOf` on legal names) -/
def splitDots (t : Bytes) : Name :=
  if t.isEmpty then [] else
  let rec go : Bytes → Label → Name
    | [], cur => [cur]
    | c :: r, cur => if c = 46 then cur :: go r [] else go r (cur ++ [c])
  go t []

/-- typed record data -/
inductive SData
  | a (addr : Bytes)
  | aaaa (addr : Bytes)
  | name (n : Name)                       -- NS, CNAME, PTR, DNAME
  | mx (pref : Nat) (n : Name)
  | soa (mname rname : Name) (tail : Bytes)
  | raw (b : Bytes)
deriving Repr, DecidableEq

structure SRec where
  owner : Name
  type : Nat
  cls : Nat
  ttl : Nat
  data : SData
deriving Repr, DecidableEq

structure SQuery where
  name : Name
  type : Nat
  cls : Nat
deriving Repr, DecidableEq

structure Sections where
  qs : List SQuery := []
  an : List SRec := []
  au : List SRec := []
  ad : List SRec := []
deriving Repr

def SData.legal (t : Nat) : SData → Bool
  | .a addr => t == tA && addr.length == 4
  | .aaaa addr => t == tAAAA && addr.length == 16
  | .name n => (t == tNS || t == tCNAME || t == tPTR || t == tDNAM) && legalName n
  | .mx p n => t == tMX && decide (p < 65536) && legalName n
  | .soa m r tail => t == tSOA && legalName m && legalName r && tail.length == 20
  | .raw b => !(t == tA || t == tAAAA || t == tNS || t == tCNAME || t == tPTR || t == tDNAM || t == tMX || t == tSOA)
                 && decide (b.length < 65536)

def SRec.legal (r : SRec) : Bool :=
  legalName r.owner && decide (r.type < 65536) && decide (r.cls < 65536) && decide (r.ttl < 4294967296) &&
  r.data.legal r.type

def SQuery.legal (q : SQuery) : Bool := legalName q.name && decide (q.type < 65536) && decide (q.cls < 65536)

/-- RDATA on the wire, uncompressed (RFC 1035 §3.3) -/
def SData.wire : SData → Bytes
  | .a addr => addr
  | .aaaa addr => addr
  | .name n => wireName n
  | .mx p n => be16 p ++ wireName n
  | .soa m r tail => wireName m ++ wireName r ++ tail
  | .raw b => b

/-- reference encoding of a resource record without compression (RFC 1035 §3.2.1) -/
def SRec.wire (r : SRec) : Bytes :=
  wireName r.owner ++ be16 r.type ++ be16 r.cls ++ be32 r.ttl ++ be16 r.data.wire.length ++ r.data.wire

def SQuery.wire (q : SQuery) : Bytes := wireName q.name ++ be16 q.type ++ be16 q.cls

def wireRecs (rs : List SRec) : Bytes := rs.flatMap SRec.wire
def wireQs (qs : List SQuery) : Bytes := qs.flatMap SQuery.wire

def wireSections (s : Sections) : Bytes := wireQs s.qs ++ wireRecs s.an ++ wireRecs s.au ++ wireRecs s.ad

/-- reference encoder (no compression) of a whole message with the given id/flags -/
def refEncode (hdr : Bytes) (s : Sections) : Bytes :=
  hdr ++ be16 s.qs.length ++ be16 s.an.length ++ be16 s.au.length ++ be16 s.ad.length ++ wireSections s

/-- what a section getter must return for the record -/
def SRec.view (r : SRec) : Resource :=
  match r.data with
  | .a addr => ⟨textOf r.owner, r.type, r.cls, r.ttl, 0, .str (showV4 addr)⟩
  | .aaaa addr => ⟨textOf r.owner, r.type, r.cls, r.ttl, 0, .v6 addr⟩
  | .name n => ⟨textOf r.owner, r.type, r.cls, r.ttl, 0, .str (textOf n)⟩
  | .mx p n => ⟨textOf r.owner, r.type, r.cls, r.ttl, p, .str (textOf n)⟩
  | .soa m rn tail => ⟨textOf r.owner, r.type, r.cls, r.ttl, 0, .str (wireName m ++ wireName rn ++ tail)⟩
  | .raw b => ⟨textOf r.owner, r.type, r.cls, r.ttl, 0, .str b⟩

def SQuery.view (q : SQuery) : Query := ⟨textOf q.name, q.type, q.cls⟩

/-- how the record is handed to `add_answer` / `add_authority` / `add_additional`
    (`pref` is only meaningful for MX; `aux` is the result of `inet_pton` on the address text) -/
def SRec.toNew (r : SRec) (addrText : Bytes := []) : NewRec :=
  match r.data with
  | .a addr => ⟨textOf r.owner, r.type, r.cls, r.ttl, 0, addrText, some addr⟩
  | .aaaa addr => ⟨textOf r.owner, r.type, r.cls, r.ttl, 0, addrText, some addr⟩
  | .name n => ⟨textOf r.owner, r.type, r.cls, r.ttl, 0, textOf n, none⟩
  | .mx p n => ⟨textOf r.owner, r.type, r.cls, r.ttl, p, textOf n, none⟩
  | .soa m rn tail => ⟨textOf r.owner, r.type, r.cls, r.ttl, 0, wireName m ++ wireName rn ++ tail, none⟩
  | .raw b => ⟨textOf r.owner, r.type, r.cls, r.ttl, 0, b, none⟩

def SQuery.toNew (q : SQuery) : Query := ⟨textOf q.name, q.type, q.cls⟩

def Sections.add (s : Sections) (sec : Section) (r : SRec) : Sections :=
  match sec with
  | .answer => { s with an := s.an ++ [r] }
  | .authority => { s with au := s.au ++ [r] }
  | .additional => { s with ad := s.ad ++ [r] }

def Sections.addQ (s : Sections) (q : SQuery) : Sections := { s with qs := s.qs ++ [q] }

/-! ### run-time classification of an API call (used by the oracle): which abstract record is being inserted -/

/-- decode an uncompressed wire name that spans exactly the prefix of `b`; returns the labels and the rest -/
def unwireName : Nat → Bytes → Option (Name × Bytes)
  | 0, _ => none
  | _ + 1, [] => none
  | f + 1, c :: r =>
    if c = 0 then some ([], r)
    else if c.toNat ≤ 63 ∧ c.toNat ≤ r.length then
      match unwireName f (r.drop c.toNat) with
      | some (n, rest) => some (r.take c.toNat :: n, rest)
      | none => none
    else none

/-- the abstract record an insertion call denotes, if its arguments are a legal record -/
def specOfNew (r : NewRec) : Option SRec :=
  let owner := splitDots r.name
  let data : Option SData :=
    if r.type = tA then r.aux.map .a
    else if r.type = tAAAA then r.aux.map .aaaa
    else if r.type = tMX then some (.mx r.pref (splitDots r.data))
    else if r.type = tNS ∨ r.type = tCNAME ∨ r.type = tPTR ∨ r.type = tDNAM then some (.name (splitDots r.data))
    else if r.type = tSOA then
      match unwireName 130 r.data with
      | some (m, rest) =>
        match unwireName 130 rest with
        | some (rn, tail) => some (.soa m rn tail)
        | none => none
      | none => none
    else some (.raw r.data)
  match data with
  | some d => let s : SRec := ⟨owner, r.type, r.cls, r.ttl, d⟩; if s.legal then some s else none
  | none => none

def specOfQuery (q : Query) : Option SQuery :=
  let s : SQuery := ⟨splitDots q.name, q.type, q.cls⟩
  if s.legal then some s else none

/-! ### reference encoder WITH compression (RFC 1035 §4.1.4): the usual suffix table -/

/-- names already written (every suffix that starts at a label) with their offset from the start of the message -/
abbrev CTable := List (Name × Nat)

def CTable.lookup' (t : CTable) (n : Name) : Option Nat :=
  match t with
  | [] => none
  | (k, v) :: r => if k = n then some v else CTable.lookup' r n

/-- encode `n` at records offset `pos`: literal labels until a suffix is in the table, then a pointer to it -/
def compressName (t : CTable) (pos : Nat) : Name → Bytes × CTable
  | [] => ([0], t)
  | l :: r =>
    match t.lookup' (l :: r) with
    | some off => ([UInt8.ofNat (192 + off / 256), UInt8.ofNat (off % 256)], t)
    | none =>
      let t' := if pos + 12 < 16384 then t ++ [(l :: r, pos + 12)] else t
      let (rest, t'') := compressName t' (pos + 1 + l.length) r
      (UInt8.ofNat l.length :: l ++ rest, t'')

def compressData (t : CTable) (pos : Nat) : SData → Bytes × CTable
  | .a addr => (addr, t)
  | .aaaa addr => (addr, t)
  | .raw b => (b, t)
  | .name n => compressName t pos n
  | .mx p n => let (b, t') := compressName t (pos + 2) n; (be16 p ++ b, t')
  | .soa m r tail =>
    let (b1, t1) := compressName t pos m
    let (b2, t2) := compressName t1 (pos + b1.length) r
    (b1 ++ b2 ++ tail, t2)

def compressRec (t : CTable) (pos : Nat) (r : SRec) : Bytes × CTable :=
  let (o, t1) := compressName t pos r.owner
  let (d, t2) := compressData t1 (pos + o.length + 10) r.data
  (o ++ be16 r.type ++ be16 r.cls ++ be32 r.ttl ++ be16 d.length ++ d, t2)

def compressQuery (t : CTable) (pos : Nat) (q : SQuery) : Bytes × CTable :=
  let (o, t1) := compressName t pos q.name
  (o ++ be16 q.type ++ be16 q.cls, t1)

def compressList {α} (f : CTable → Nat → α → Bytes × CTable) (t : CTable) (pos : Nat) : List α → Bytes × CTable
  | [] => ([], t)
  | x :: xs =>
    let (b, t1) := f t pos x
    let (bs, t2) := compressList f t1 (pos + b.length) xs
    (b ++ bs, t2)

/-- reference encoder with compression of a whole message -/
def refCompress (hdr : Bytes) (s : Sections) : Bytes :=
  let (q, t1) := compressList compressQuery [] 0 s.qs
  let (an, t2) := compressList compressRec t1 q.length s.an
  let (au, t3) := compressList compressRec t2 (q.length + an.length) s.au
  let (ad, _) := compressList compressRec t3 (q.length + an.length + au.length) s.ad
  hdr ++ be16 s.qs.length ++ be16 s.an.length ++ be16 s.au.length ++ be16 s.ad.length ++ q ++ an ++ au ++ ad

/-! ### RFC 1035 §4.1.4 name resolution inside a message (`recs` = the message without its 12-byte header) -/

/-- `Resolves recs p n j`: the name starting at offset `p` of `recs` denotes `n`, following `j` pointers. -/
inductive Resolves (recs : Bytes) : Nat → Name → Nat → Prop
  | root {p} : recs[p]? = some 0 → Resolves recs p [] 0
  | label {p n j} (len : Nat) (l : Label) : recs[p]? = some (UInt8.ofNat len) → 1 ≤ len → len ≤ 63 →
      l.length = len → (recs.drop (p + 1)).take len = l → p + 1 + len ≤ recs.length →
      Resolves recs (p + 1 + len) n j → Resolves recs p (l :: n) j
  | pointer {p n j} (hi lo : UInt8) : recs[p]? = some hi → recs[p + 1]? = some lo → hi.toNat / 64 = 3 →
      12 ≤ hi.toNat % 64 * 256 + lo.toNat →
      Resolves recs (hi.toNat % 64 * 256 + lo.toNat - 12) n j → Resolves recs p n (j + 1)

end Tins.Dns
