import TinsModel.Dns.LayoutSound
/-
  Transport of a layout from one buffer to another that holds the same octets `d` positions further, except that
  the pointers ending some name sites may carry another offset (frame lemmas for the walk of `update_records`:
  `d = 0`; the records behind an insertion: `d` = inserted length).
-/
namespace Tins.Dns
open Out

theorem NameSite.cast {buf : Bytes} {p x e p' x' e' : Nat} (h : NameSite buf p x e) (hp : p = p') (hx : x = x')
    (he : e = e') : NameSite buf p' x' e' := by subst hp hx he; exact h

def Site.add (σ : Site) (d : Nat) : Site := ⟨σ.s + d, σ.x + d, σ.e + d⟩

def RecL.add (r : RecL) (d : Nat) : RecL := ⟨r.own.add d, r.type, r.rdlen, r.ds.map (·.add d)⟩

@[simp] theorem Site.add_s (σ : Site) (d : Nat) : (σ.add d).s = σ.s + d := rfl
@[simp] theorem Site.add_x (σ : Site) (d : Nat) : (σ.add d).x = σ.x + d := rfl
@[simp] theorem Site.add_e (σ : Site) (d : Nat) : (σ.add d).e = σ.e + d := rfl
@[simp] theorem Site.add_zero (σ : Site) : σ.add 0 = σ := rfl
@[simp] theorem RecL.add_own (r : RecL) (d : Nat) : (r.add d).own = r.own.add d := rfl
@[simp] theorem RecL.add_type (r : RecL) (d : Nat) : (r.add d).type = r.type := rfl
@[simp] theorem RecL.add_rdlen (r : RecL) (d : Nat) : (r.add d).rdlen = r.rdlen := rfl
@[simp] theorem RecL.add_ds (r : RecL) (d : Nat) : (r.add d).ds = r.ds.map (·.add d) := rfl
theorem RecL.add_stop (r : RecL) (d : Nat) : (r.add d).stop = r.stop + d := by
  simp only [RecL.stop, RecL.add_own, Site.add_e, RecL.add_rdlen]; omega
theorem RecL.add_sites (r : RecL) (d : Nat) : (r.add d).sites = r.sites.map (·.add d) := rfl

theorem map_site_add_zero (ss : List Site) : ss.map (·.add 0) = ss := by
  induction ss with
  | nil => rfl
  | cons a t ih => rw [List.map_cons, ih]; rfl

theorem RecL.add_zero (r : RecL) : r.add 0 = r := by
  cases r with
  | mk own type rdlen ds =>
    simp only [RecL.add, Site.add_zero]
    congr 1
    exact map_site_add_zero ds

theorem map_add_zero (rs : List RecL) : rs.map (·.add 0) = rs := by
  induction rs with
  | nil => rfl
  | cons a t ih => rw [List.map_cons, ih, RecL.add_zero]

theorem recSites_map_add (rs : List RecL) (d : Nat) : recSites (rs.map (·.add d)) = (recSites rs).map (·.add d) := by
  induction rs with
  | nil => rfl
  | cons a t ih =>
    simp only [recSites, List.map_cons, List.flatMap_cons, List.map_append] at ih ⊢
    rw [ih, RecL.add_sites]

/-- the pointer octets of the name sites in `ss` -/
def PB (ss : List Site) (y : Nat) : Prop := ∃ σ ∈ ss, σ.e = σ.x + 2 ∧ (y = σ.x ∨ y = σ.x + 1)

/-- `buf'` holds at `y + d` what `buf` holds at `y`, for `y` in `[lo, hi)` outside `M` -/
def Same (buf buf' : Bytes) (d lo hi : Nat) (M : Nat → Prop) : Prop :=
  ∀ y, lo ≤ y → y < hi → ¬ M y → buf'[y + d]? = buf[y]?

theorem Same.sub {buf buf' : Bytes} {d lo hi lo' hi' : Nat} {M : Nat → Prop} (h : Same buf buf' d lo hi M)
    (h1 : lo ≤ lo') (h2 : hi' ≤ hi) : Same buf buf' d lo' hi' M :=
  fun y a b c => h y (by omega) (by omega) c

/-- where `σ` ends in a pointer there still is a pointer -/
def PtrStill (buf' : Bytes) (d : Nat) (σ : Site) : Prop :=
  σ.e = σ.x + 2 → ∃ hi' lo' : UInt8, buf'[σ.x + d]? = some hi' ∧ buf'[σ.x + 1 + d]? = some lo' ∧ hi'.toNat / 64 = 3

theorem NameSite.transport {buf buf' : Bytes} {d : Nat} {M : Nat → Prop} {p x e : Nat} (h : NameSite buf p x e)
    (hs : Same buf buf' d p e M) (hM : ∀ y, p ≤ y → y < e → M y → e = x + 2 ∧ (y = x ∨ y = x + 1))
    (hp : e = x + 2 → ∃ hi' lo' : UInt8, buf'[x + d]? = some hi' ∧ buf'[x + 1 + d]? = some lo' ∧ hi'.toNat / 64 = 3) :
    NameSite buf' (p + d) (x + d) (e + d) := by
  induction h with
  | @zero p h0 =>
    have hn : ¬ M p := fun hm => by have := hM p (Nat.le_refl _) (by omega) hm; omega
    have := hs p (Nat.le_refl _) (by omega) hn
    exact (NameSite.zero (by rw [this]; exact h0)).cast rfl rfl (by omega)
  | @ptr p hi lo h0 h1 h3 =>
    obtain ⟨hi', lo', g0, g1, g3⟩ := hp rfl
    exact (NameSite.ptr hi' lo' g0 (by rw [show p + d + 1 = p + 1 + d by omega]; exact g1) g3).cast rfl rfl (by omega)
  | @label p x e len hb h1 h2 hsub ih =>
    have hbd := hsub.bounds
    have hn : ¬ M p := fun hm => by have := hM p (Nat.le_refl _) (by omega) hm; omega
    have hb' := hs p (Nat.le_refl _) (by omega) hn
    have := ih (hs.sub (by omega) (Nat.le_refl _)) (fun y a b c => hM y (by omega) b c) hp
    exact NameSite.label len (by rw [hb']; exact hb) h1 h2 (this.cast (by omega) rfl rfl)

theorem getD_of_getElem? {buf buf' : Bytes} {i j : Nat} (h : buf'[j]? = buf[i]?) : buf'.getD j 0 = buf.getD i 0 := by
  rw [List.getD_eq_getElem?_getD, List.getD_eq_getElem?_getD, h]

theorem u16at_same {buf buf' : Bytes} {d lo hi : Nat} {M : Nat → Prop} (hs : Same buf buf' d lo hi M) {i : Nat}
    (h1 : lo ≤ i) (h2 : i + 2 ≤ hi) (hn0 : ¬ M i) (hn1 : ¬ M (i + 1)) : u16at buf' (i + d) = u16at buf i := by
  unfold u16at
  rw [getD_of_getElem? (hs i h1 (by omega) hn0),
    show i + d + 1 = i + 1 + d by omega, getD_of_getElem? (hs (i + 1) (by omega) (by omega) hn1)]

/-! ### bounds of the sites of a record / section -/

theorem DataSites.mem {buf : Bytes} {ty a b : Nat} {ds : List Site} (h : DataSites buf ty a b ds) {σ : Site}
    (hσ : σ ∈ ds) : a ≤ σ.s ∧ σ.e ≤ b ∧ NameSite buf σ.s σ.x σ.e := by
  cases h with
  | addr4 _ _ => cases hσ
  | addr16 _ _ => cases hσ
  | raw => cases hσ
  | name τ _ h1 h2 h3 =>
    simp only [List.mem_cons, List.not_mem_nil, or_false] at hσ
    subst hσ; exact ⟨by omega, h3, h2⟩
  | mx τ _ h1 h2 h3 =>
    simp only [List.mem_cons, List.not_mem_nil, or_false] at hσ
    subst hσ; exact ⟨by omega, h3, h2⟩
  | soa σ1 σ2 _ h1 h2 h3 h4 h5 =>
    simp only [List.mem_cons, List.not_mem_nil, or_false] at hσ
    have b1 := h2.bounds
    have b2 := h4.bounds
    rcases hσ with hσ | hσ
    · subst hσ; exact ⟨by omega, by omega, h2⟩
    · subst hσ; exact ⟨by omega, by omega, h4⟩

theorem RecAt.site_mem {buf : Bytes} {r : RecL} (h : RecAt buf r) {σ : Site} (hσ : σ ∈ r.sites) :
    r.own.s ≤ σ.s ∧ σ.e ≤ r.stop ∧ NameSite buf σ.s σ.x σ.e ∧ (σ = r.own ∨ (r.own.e + 10 ≤ σ.s ∧ σ ∈ r.ds)) := by
  unfold RecL.sites at hσ
  rcases List.mem_cons.1 hσ with hσ | hσ
  · subst hσ
    exact ⟨Nat.le_refl _, by unfold RecL.stop; omega, h.own, Or.inl rfl⟩
  · have := h.data.mem hσ
    have b := h.own.bounds
    exact ⟨by omega, this.2.1, this.2.2, Or.inr ⟨this.1, hσ⟩⟩

theorem RecAt.lt {buf : Bytes} {r : RecL} (h : RecAt buf r) : r.own.s + 11 ≤ r.stop := by
  have := h.own.bounds; unfold RecL.stop; omega

theorem SecAt.le {buf : Bytes} {p e : Nat} {rs : List RecL} (h : SecAt buf p rs e) : p ≤ e ∧ e ≤ max p buf.length := by
  induction h with
  | nil => exact ⟨Nat.le_refl _, by omega⟩
  | cons h1 h2 _ ih => have := h2.lt; have := h2.bound; omega

theorem SecAt.pos {buf : Bytes} {p e : Nat} {r : RecL} {rs : List RecL} (h : SecAt buf p (r :: rs) e) :
    p + 11 ≤ e ∧ e ≤ buf.length := by
  cases h with
  | cons h1 h2 h3 => have := h2.lt; have := h3.le; have := h2.bound; omega

theorem SecAt.site_mem {buf : Bytes} {p e : Nat} {rs : List RecL} (h : SecAt buf p rs e) {σ : Site}
    (hσ : σ ∈ recSites rs) : p ≤ σ.s ∧ σ.e ≤ e ∧ NameSite buf σ.s σ.x σ.e := by
  induction h with
  | nil => simp [recSites] at hσ
  | @cons p r rs e h1 h2 h3 ih =>
    simp only [recSites, List.flatMap_cons, List.mem_append] at hσ
    rcases hσ with hσ | hσ
    · have a1 := h2.site_mem hσ
      have a2 := h3.le
      exact ⟨by omega, by omega, a1.2.2.1⟩
    · have a1 := ih hσ
      have a2 := h2.lt
      exact ⟨by omega, a1.2.1, a1.2.2⟩

theorem QSecAt.le {buf : Bytes} {p e : Nat} {qs : List Site} (h : QSecAt buf p qs e) : p ≤ e ∧ e ≤ max p buf.length := by
  induction h with
  | nil => exact ⟨Nat.le_refl _, by omega⟩
  | cons h1 h2 h3 _ _ _ ih => have := h2.bounds; omega

theorem QSecAt.site_mem {buf : Bytes} {p e : Nat} {qs : List Site} (h : QSecAt buf p qs e) {σ : Site}
    (hσ : σ ∈ qs) : p ≤ σ.s ∧ σ.e + 4 ≤ e ∧ NameSite buf σ.s σ.x σ.e := by
  induction h with
  | nil => cases hσ
  | @cons p τ qs e h1 h2 h3 _ _ h6 ih =>
    rcases List.mem_cons.1 hσ with hσ | hσ
    · subst hσ
      have := h6.le
      exact ⟨by omega, by omega, h2⟩
    · have a1 := ih hσ
      have a2 := h2.bounds
      exact ⟨by omega, a1.2.1, a1.2.2⟩

/-! ### transport of records and sections -/

theorem DataSites.transport {buf buf' : Bytes} {d : Nat} {M : Nat → Prop} {ty a b : Nat} {ds : List Site}
    (h : DataSites buf ty a b ds) (hs : Same buf buf' d a b M) (hM : ∀ y, a ≤ y → y < b → M y → PB ds y)
    (hp : ∀ σ ∈ ds, PtrStill buf' d σ) : DataSites buf' ty (a + d) (b + d) (ds.map (·.add d)) := by
  cases h with
  | addr4 h1 h2 => exact DataSites.addr4 h1 (by omega)
  | addr16 h1 h2 => exact DataSites.addr16 h1 (by omega)
  | raw h1 h2 h3 h4 h5 h6 h7 h8 => exact DataSites.raw h1 h2 h3 h4 h5 h6 h7 h8
  | name σ h1 h2 h3 h4 =>
    have b3 := h3.bounds
    refine DataSites.name (σ.add d) h1 (by simp only [Site.add_s]; omega) ?_ (by simp only [Site.add_e]; omega)
    refine h3.transport (hs.sub (by omega) h4) ?_ (hp σ List.mem_cons_self)
    intro y y1 y2 ym
    obtain ⟨τ, hτ, he, hy⟩ := hM y (by omega) (by omega) ym
    simp only [List.mem_cons, List.not_mem_nil, or_false] at hτ
    subst hτ; exact ⟨he, hy⟩
  | mx σ h1 h2 h3 h4 =>
    have b3 := h3.bounds
    refine DataSites.mx (σ.add d) h1 (by simp only [Site.add_s]; omega) ?_ (by simp only [Site.add_e]; omega)
    refine h3.transport (hs.sub (by omega) h4) ?_ (hp σ List.mem_cons_self)
    intro y y1 y2 ym
    obtain ⟨τ, hτ, he, hy⟩ := hM y (by omega) (by omega) ym
    simp only [List.mem_cons, List.not_mem_nil, or_false] at hτ
    subst hτ; exact ⟨he, hy⟩
  | soa σ1 σ2 h1 h2 h3 h4 h5 h6 =>
    have b3 := h3.bounds
    have b5 := h5.bounds
    refine DataSites.soa (σ1.add d) (σ2.add d) h1 (by simp only [Site.add_s]; omega) ?_
      (by simp only [Site.add_s, Site.add_e]; omega) ?_ (by simp only [Site.add_e]; omega)
    · refine h3.transport (hs.sub (by omega) (by omega)) ?_ (hp σ1 List.mem_cons_self)
      intro y y1 y2 ym
      obtain ⟨τ, hτ, he, hy⟩ := hM y (by omega) (by omega) ym
      simp only [List.mem_cons, List.not_mem_nil, or_false] at hτ
      rcases hτ with hτ | hτ
      · subst hτ; exact ⟨he, hy⟩
      · subst hτ; omega
    · refine h5.transport (hs.sub (by omega) (by omega)) ?_ (hp σ2 (List.mem_cons_of_mem _ List.mem_cons_self))
      intro y y1 y2 ym
      obtain ⟨τ, hτ, he, hy⟩ := hM y (by omega) (by omega) ym
      simp only [List.mem_cons, List.not_mem_nil, or_false] at hτ
      rcases hτ with hτ | hτ
      · subst hτ; omega
      · subst hτ; exact ⟨he, hy⟩

theorem RecAt.transport {buf buf' : Bytes} {d : Nat} {M : Nat → Prop} {r : RecL} (h : RecAt buf r)
    (hs : Same buf buf' d r.own.s r.stop M) (hM : ∀ y, r.own.s ≤ y → y < r.stop → M y → PB r.sites y)
    (hp : ∀ σ ∈ r.sites, PtrStill buf' d σ) (hl : r.stop + d ≤ buf'.length) : RecAt buf' (r.add d) := by
  have bo := h.own.bounds
  have hst : r.stop = r.own.e + 10 + r.rdlen := rfl
  -- octets of the fixed fields are no pointer octets of a name site
  have hfix : ∀ y, r.own.e ≤ y → y < r.own.e + 10 → ¬ M y := by
    intro y y1 y2 ym
    obtain ⟨τ, hτ, he, hy⟩ := hM y (by omega) (by omega) ym
    rcases (h.site_mem hτ).2.2.2 with heq | ⟨hge, _⟩
    · subst heq; omega
    · have := (h.site_mem hτ).2.2.1.bounds; omega
  refine ⟨?_, by rw [RecL.add_stop]; exact hl, ?_, ?_, ?_⟩
  · refine h.own.transport (hs.sub (Nat.le_refl _) (by omega)) ?_ (hp r.own List.mem_cons_self)
    intro y y1 y2 ym
    obtain ⟨τ, hτ, he, hy⟩ := hM y y1 (by omega) ym
    rcases (h.site_mem hτ).2.2.2 with heq | ⟨hge, _⟩
    · subst heq; exact ⟨he, hy⟩
    · have := (h.site_mem hτ).2.2.1.bounds; omega
  · simp only [RecL.add_type, RecL.add_own, Site.add_e]
    rw [u16at_same hs (by omega) (by omega) (hfix _ (Nat.le_refl _) (by omega)) (hfix _ (by omega) (by omega))]
    exact h.type
  · simp only [RecL.add_rdlen, RecL.add_own, Site.add_e]
    rw [show r.own.e + d + 8 = r.own.e + 8 + d by omega,
      u16at_same hs (by omega) (by omega) (hfix _ (by omega) (by omega)) (hfix _ (by omega) (by omega))]
    exact h.rdlen
  · have := h.data.transport (d := d) (M := M) (buf' := buf') (hs.sub (by omega) (Nat.le_refl _)) ?_
      (fun σ hσ => hp σ (List.mem_cons_of_mem _ hσ))
    · simp only [RecL.add_type, RecL.add_own, Site.add_e, RecL.add_ds, RecL.add_stop]
      rw [show r.own.e + d + 10 = r.own.e + 10 + d by omega]
      exact this
    · intro y y1 y2 ym
      obtain ⟨τ, hτ, he, hy⟩ := hM y (by omega) y2 ym
      rcases (h.site_mem hτ).2.2.2 with heq | ⟨hge, hmem⟩
      · subst heq; omega
      · exact ⟨τ, hmem, he, hy⟩

theorem SecAt.transport {buf buf' : Bytes} {d : Nat} {M : Nat → Prop} {p e : Nat} {rs : List RecL}
    (h : SecAt buf p rs e) (hs : Same buf buf' d p e M) (hM : ∀ y, p ≤ y → y < e → M y → PB (recSites rs) y)
    (hp : ∀ σ ∈ recSites rs, PtrStill buf' d σ) (hl : e + d ≤ buf'.length) :
    SecAt buf' (p + d) (rs.map (·.add d)) (e + d) := by
  induction h with
  | nil => exact SecAt.nil
  | @cons p r rs e h1 h2 h3 ih =>
    have hle := h3.le
    have hlt := h2.lt
    rw [List.map_cons]
    have hrs : ∀ σ ∈ r.sites, σ ∈ recSites (r :: rs) := fun σ hσ => by
      simp only [recSites, List.flatMap_cons, List.mem_append]; exact Or.inl hσ
    have hrs2 : ∀ σ ∈ recSites rs, σ ∈ recSites (r :: rs) := fun σ hσ => by
      simp only [recSites, List.flatMap_cons, List.mem_append]; exact Or.inr hσ
    refine SecAt.cons (by simp only [RecL.add_own, Site.add_s]; omega) ?_ ?_
    · refine h2.transport (hs.sub (by omega) (by omega)) ?_ (fun σ hσ => hp σ (hrs σ hσ)) (by omega)
      intro y y1 y2 ym
      obtain ⟨τ, hτ, he, hy⟩ := hM y (by omega) (by omega) ym
      simp only [recSites, List.flatMap_cons, List.mem_append] at hτ
      rcases hτ with hτ | hτ
      · exact ⟨τ, hτ, he, hy⟩
      · have := h3.site_mem hτ
        have := this.2.2.bounds
        omega
    · rw [RecL.add_stop]
      refine ih (hs.sub (by omega) (Nat.le_refl _)) ?_ (fun σ hσ => hp σ (hrs2 σ hσ)) hl
      intro y y1 y2 ym
      obtain ⟨τ, hτ, he, hy⟩ := hM y (by omega) (by omega) ym
      simp only [recSites, List.flatMap_cons, List.mem_append] at hτ
      rcases hτ with hτ | hτ
      · have := h2.site_mem hτ
        have := this.2.2.1.bounds
        omega
      · exact ⟨τ, hτ, he, hy⟩

theorem QSecAt.transport {buf buf' : Bytes} {d : Nat} {M : Nat → Prop} {p e : Nat} {qs : List Site}
    (h : QSecAt buf p qs e) (hs : Same buf buf' d p e M) (hM : ∀ y, p ≤ y → y < e → M y → PB qs y)
    (hp : ∀ σ ∈ qs, PtrStill buf' d σ) (hl : e + d ≤ buf'.length) :
    QSecAt buf' (p + d) (qs.map (·.add d)) (e + d) := by
  induction h with
  | nil => exact QSecAt.nil
  | @cons p σ qs e h1 h2 h3 h4 h5 h6 ih =>
    have hle := h6.le
    have b2 := h2.bounds
    rw [List.map_cons]
    have hfix : ∀ y, σ.e ≤ y → y < σ.e + 4 → ¬ M y := by
      intro y y1 y2 ym
      obtain ⟨τ, hτ, he, hy⟩ := hM y (by omega) (by omega) ym
      rcases List.mem_cons.1 hτ with hτ | hτ
      · subst hτ; omega
      · have := h6.site_mem hτ
        have := this.2.2.bounds
        omega
    refine QSecAt.cons (by simp only [Site.add_s]; omega) ?_ (by simp only [Site.add_e]; omega) ?_ ?_ ?_
    · refine h2.transport (hs.sub (by omega) (by omega)) ?_ (hp σ List.mem_cons_self)
      intro y y1 y2 ym
      obtain ⟨τ, hτ, he, hy⟩ := hM y (by omega) (by omega) ym
      rcases List.mem_cons.1 hτ with hτ | hτ
      · subst hτ; exact ⟨he, hy⟩
      · have := h6.site_mem hτ
        have := this.2.2.bounds
        omega
    · simp only [Site.add_e]
      rw [u16at_same hs (by omega) (by omega) (hfix _ (Nat.le_refl _) (by omega)) (hfix _ (by omega) (by omega))]
      exact h4
    · simp only [Site.add_e]
      rw [show σ.e + d + 2 = σ.e + 2 + d by omega,
        u16at_same hs (by omega) (by omega) (hfix _ (by omega) (by omega)) (hfix _ (by omega) (by omega))]
      exact h5
    · simp only [Site.add_e]
      rw [show σ.e + d + 4 = σ.e + 4 + d by omega]
      refine ih (hs.sub (by omega) (Nat.le_refl _)) ?_ (fun τ hτ => hp τ (List.mem_cons_of_mem _ hτ)) hl
      intro y y1 y2 ym
      obtain ⟨τ, hτ, he, hy⟩ := hM y (by omega) (by omega) ym
      rcases List.mem_cons.1 hτ with hτ | hτ
      · subst hτ; omega
      · exact ⟨τ, hτ, he, hy⟩

end Tins.Dns
