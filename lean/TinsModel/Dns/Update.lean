import TinsModel.Dns.Shift
import TinsModel.Dns.Safety
/-
  What `update_dname` / `update_records` do to the record bytes, for ANY stored bytes: they only re-target
  compression pointers whose target is at or after the insertion point, by exactly the inserted length, and touch
  nothing else.  Together with `resolves_shifted` this is the "pointers are preserved" half of property C10.
-/
namespace Tins.Dns
open Out

/-- value of a two-octet pointer field (offset from the start of the message) -/
def ptrVal (a b : UInt8) : Nat := a.toNat % 64 * 256 + b.toNat

/-- `d'` is `d` except that the pointer fields at the positions in `R` (all inside `[lo, hi)`) were moved from a target
    at or after `thr` to that target `+ off` -/
structure Upd (thr off lo hi : Nat) (d d' : Bytes) (R : Nat → Prop) : Prop where
  len : d'.length = d.length
  rng : ∀ x, R x → lo ≤ x ∧ x + 2 ≤ hi
  ptr : ∀ x, R x → ∃ a b a' b' : UInt8, d[x]? = some a ∧ d[x + 1]? = some b ∧ d'[x]? = some a' ∧
    d'[x + 1]? = some b' ∧ a'.toNat / 64 = 3 ∧ ptrVal a' b' = ptrVal a b + off ∧ thr + 12 ≤ ptrVal a b
  lit : ∀ y, Lit R y → d'[y]? = d[y]?

theorem Upd.refl (thr off lo hi : Nat) (d : Bytes) : Upd thr off lo hi d d (fun _ => False) :=
  ⟨rfl, fun _ h => h.elim, fun _ h => h.elim, fun _ _ => rfl⟩

theorem Upd.widen {thr off lo hi lo' hi' : Nat} {d d' : Bytes} {R : Nat → Prop} (h : Upd thr off lo hi d d' R)
    (h1 : lo' ≤ lo) (h2 : hi ≤ hi') : Upd thr off lo' hi' d d' R :=
  ⟨h.len, fun x hx => by have := h.rng x hx; omega, h.ptr, h.lit⟩

/-- sequential composition over adjacent ranges -/
theorem Upd.trans {thr off lo mid hi : Nat} {d0 d1 d2 : Bytes} {R1 R2 : Nat → Prop}
    (h1 : Upd thr off lo mid d0 d1 R1) (h2 : Upd thr off mid hi d1 d2 R2) (hlm : lo ≤ mid) (hmh : mid ≤ hi) :
    Upd thr off lo hi d0 d2 (fun x => R1 x ∨ R2 x) := by
  have lit2_of_R1 : ∀ x, R1 x → Lit R2 x ∧ Lit R2 (x + 1) := by
    intro x hx
    have := h1.rng x hx
    refine ⟨⟨fun h => ?_, fun h => ?_⟩, ⟨fun h => ?_, fun h => ?_⟩⟩
    · have := h2.rng x h; omega
    · have := h2.rng (x - 1) h.2; omega
    · have := h2.rng (x + 1) h; omega
    · have := h2.rng (x + 1 - 1) h.2; omega
  have lit1_of_R2 : ∀ x, R2 x → Lit R1 x ∧ Lit R1 (x + 1) := by
    intro x hx
    have := h2.rng x hx
    refine ⟨⟨fun h => ?_, fun h => ?_⟩, ⟨fun h => ?_, fun h => ?_⟩⟩
    · have := h1.rng x h; omega
    · have := h1.rng (x - 1) h.2; omega
    · have := h1.rng (x + 1) h; omega
    · have := h1.rng (x + 1 - 1) h.2; omega
  refine ⟨by rw [h2.len, h1.len], ?_, ?_, ?_⟩
  · intro x hx
    rcases hx with hx | hx
    · have := h1.rng x hx; omega
    · have := h2.rng x hx; omega
  · intro x hx
    rcases hx with hx | hx
    · obtain ⟨a, b, a', b', e0, e1, e0', e1', h3, hv, hge⟩ := h1.ptr x hx
      have hl := lit2_of_R1 x hx
      exact ⟨a, b, a', b', e0, e1, by rw [h2.lit x hl.1]; exact e0', by rw [h2.lit (x + 1) hl.2]; exact e1', h3, hv, hge⟩
    · obtain ⟨a, b, a', b', e0, e1, e0', e1', h3, hv, hge⟩ := h2.ptr x hx
      have hl := lit1_of_R2 x hx
      exact ⟨a, b, a', b', by rw [← h1.lit x hl.1]; exact e0, by rw [← h1.lit (x + 1) hl.2]; exact e1, e0', e1', h3, hv, hge⟩
  · intro y hy
    have hy1 : Lit R1 y := ⟨fun h => hy.1 (Or.inl h), fun h => hy.2 ⟨h.1, Or.inl h.2⟩⟩
    have hy2 : Lit R2 y := ⟨fun h => hy.1 (Or.inr h), fun h => hy.2 ⟨h.1, Or.inr h.2⟩⟩
    rw [h2.lit y hy2, h1.lit y hy1]

/-! ### `memcpy(ptr, &index, 2)` -/

theorem wr2_get {buf : Bytes} {i hi lo : Nat} {d : Bytes} (h : wr2 buf i hi lo = ok d) :
    i + 2 ≤ buf.length ∧ d.length = buf.length ∧ d[i]? = some (UInt8.ofNat hi) ∧ d[i + 1]? = some (UInt8.ofNat lo) ∧
    ∀ y, y ≠ i → y ≠ i + 1 → d[y]? = buf[y]? := by
  unfold wr2 at h
  split at h
  · rename_i hb
    cases h
    have hl : (buf.take i).length = i := by rw [List.length_take]; omega
    refine ⟨hb, ?_, ?_, ?_, ?_⟩
    · simp only [List.length_append, List.length_take, List.length_drop, List.length_cons, List.length_nil]; omega
    · rw [List.append_assoc, List.getElem?_append_right (by omega), hl]; simp
    · rw [List.append_assoc, List.getElem?_append_right (by omega), hl]; simp
    · intro y h1 h2
      rcases Nat.lt_or_ge y i with hy | hy
      · rw [List.append_assoc, List.getElem?_append_left (by omega), List.getElem?_take, if_pos hy]
      · rw [List.append_assoc, List.getElem?_append_right (by omega), hl,
          List.getElem?_append_right (by simp only [List.length_cons, List.length_nil]; omega),
          List.getElem?_drop]
        simp only [List.length_cons, List.length_nil]
        congr 1; omega
  · cases h

/-! ### `update_dname` -/

theorem updateDname_upd (thr off : Nat) : ∀ (f : Nat) (d : Bytes) (p stop : Nat) (r : Bytes × Nat),
    stop ≤ d.length → updateDname thr off f d p stop = ok r →
    ∃ R, Upd thr off p r.2 d r.1 R ∧ p < r.2 ∧ r.2 ≤ stop
  | 0, _, _, _, _, _, h => by simp [updateDname] at h
  | f + 1, d, p, stop, r, hs, h => by
    unfold updateDname at h
    split at h
    · cases h
    · rename_i hp
      cases hv : rd d p with
      | fault s => rw [hv] at h; cases h
      | throw x => rw [hv] at h; cases h
      | ok v =>
        rw [hv] at h; simp only [Out.ok_bind] at h
        split at h
        · cases h
          exact ⟨_, Upd.refl thr off p (p + 1) d, by omega, by omega⟩
        · split at h
          · rename_i hv3
            split at h
            · cases h
            · rename_i hp2
              cases hlo : rd d (p + 1) with
              | fault s => rw [hlo] at h; cases h
              | throw x => rw [hlo] at h; cases h
              | ok lo =>
                rw [hlo] at h; simp only [Out.ok_bind] at h
                split at h
                · rename_i hge
                  split at h
                  · cases h
                  · rename_i hfit
                    cases hw : wr2 d p (192 + (v % 64 * 256 + lo + off) / 256) ((v % 64 * 256 + lo + off) % 256) with
                    | fault s => rw [hw] at h; cases h
                    | throw x => rw [hw] at h; cases h
                    | ok d' =>
                      rw [hw] at h; simp only [Out.ok_bind] at h
                      cases h
                      obtain ⟨hb, hlen, g0, g1, gother⟩ := wr2_get hw
                      obtain ⟨a, ha, hav⟩ : ∃ a : UInt8, d[p]? = some a ∧ a.toNat = v := by
                        unfold rd at hv
                        cases hb' : d[p]? with
                        | none => rw [hb'] at hv; cases hv
                        | some a => rw [hb'] at hv; cases hv; exact ⟨a, rfl, rfl⟩
                      obtain ⟨b, hb1, hbv⟩ : ∃ b : UInt8, d[p + 1]? = some b ∧ b.toNat = lo := by
                        unfold rd at hlo
                        cases hb' : d[p + 1]? with
                        | none => rw [hb'] at hlo; cases hlo
                        | some b => rw [hb'] at hlo; cases hlo; exact ⟨b, rfl, rfl⟩
                      have hlo256 : lo < 256 := by rw [← hbv]; exact u8_toNat_lt b
                      refine ⟨fun x => x = p, ⟨hlen, ?_, ?_, ?_⟩, by dsimp only; omega, by dsimp only; omega⟩
                      · intro x hx; subst hx; dsimp only; omega
                      · intro x hx; subst hx
                        refine ⟨a, b, _, _, ha, hb1, g0, g1, ?_, ?_, ?_⟩
                        · rw [u8_ofNat_toNat (by omega)]; omega
                        · unfold ptrVal
                          rw [u8_ofNat_toNat (by omega), u8_ofNat_toNat (by omega), hav, hbv]; omega
                        · unfold ptrVal; rw [hav, hbv]; omega
                      · intro y hy
                        apply gother
                        · exact hy.1
                        · intro hy1; exact hy.2 ⟨by omega, by rw [hy1]; simp⟩
                · cases h
                  exact ⟨_, Upd.refl thr off p (p + 2) d, by omega, by omega⟩
          · split at h
            · cases h
            · rename_i hchk
              obtain ⟨R, hu, h1, h2⟩ := updateDname_upd thr off f d (p + v + 1) stop r hs h
              exact ⟨R, hu.widen (by omega) (Nat.le_refl _), by omega, h2⟩

/-! ### `update_records` -/

theorem updateRdata_upd (thr off type : Nat) (d1 : Bytes) (namePtr dataEnd : Nat) (d2 : Bytes)
    (hb : dataEnd ≤ d1.length) (h : updateRdata thr off type d1 namePtr dataEnd = ok d2) :
    ∃ R, Upd thr off namePtr (max namePtr dataEnd) d1 d2 R := by
  unfold updateRdata at h
  split at h
  · cases hu : updateDname thr off (dataEnd - namePtr) d1 namePtr dataEnd with
    | fault s => rw [hu] at h; cases h
    | throw x => rw [hu] at h; cases h
    | ok r =>
      rw [hu] at h; simp only [Out.ok_bind] at h
      cases h
      obtain ⟨R, hupd, h1, h2⟩ := updateDname_upd thr off _ d1 namePtr dataEnd r hb hu
      exact ⟨R, hupd.widen (Nat.le_refl _) (by omega)⟩
  · split at h
    · cases hu : updateDname thr off (dataEnd - namePtr) d1 namePtr dataEnd with
      | fault s => rw [hu] at h; cases h
      | throw x => rw [hu] at h; cases h
      | ok r =>
        rw [hu] at h; simp only [Out.ok_bind] at h
        obtain ⟨R1, hupd1, h1, h2⟩ := updateDname_upd thr off _ d1 namePtr dataEnd r hb hu
        cases hu2 : updateDname thr off (dataEnd - r.2) r.1 r.2 dataEnd with
        | fault s => rw [hu2] at h; cases h
        | throw x => rw [hu2] at h; cases h
        | ok r' =>
          rw [hu2] at h; simp only [Out.ok_bind] at h
          cases h
          obtain ⟨R2, hupd2, h3, h4⟩ := updateDname_upd thr off _ r.1 r.2 dataEnd r' (by rw [hupd1.len]; exact hb) hu2
          exact ⟨_, (hupd1.trans hupd2 (by omega) (by omega)).widen (Nat.le_refl _) (by omega)⟩
    · cases h
      exact ⟨_, Upd.refl thr off _ _ d1⟩

theorem rd_some {d : Bytes} {i v : Nat} (h : rd d i = ok v) : i < d.length := by
  unfold rd at h
  cases hb : d[i]? with
  | none => rw [hb] at h; cases h
  | some b => exact getElem?_lt_length hb

theorem updateLoop_upd (thr off : Nat) : ∀ (n : Nat) (d : Bytes) (p : Nat) (r : Bytes × Nat),
    updateLoop thr off n d p = ok r → ∃ R, Upd thr off p r.2 d r.1 R ∧ p ≤ r.2
  | 0, d, p, r, h => by
    unfold updateLoop at h
    cases h
    exact ⟨_, Upd.refl thr off p p d, Nat.le_refl _⟩
  | n + 1, d, p, r, h => by
    unfold updateLoop at h
    cases hu : updateDname thr off (d.length - p) d p d.length with
    | fault s => rw [hu] at h; cases h
    | throw x => rw [hu] at h; cases h
    | ok r1 =>
      rw [hu] at h; simp only [Out.ok_bind] at h
      obtain ⟨R1, hupd1, h1, h2⟩ := updateDname_upd thr off _ d p d.length r1 (Nat.le_refl _) hu
      obtain ⟨d1, p1⟩ := r1
      dsimp only at h hupd1 h1 h2
      split at h
      · cases h
      · rename_i hlen
        cases e1 : rd d1 p1 with
        | fault s => rw [e1] at h; cases h
        | throw x => rw [e1] at h; cases h
        | ok thi =>
          rw [e1] at h; simp only [Out.ok_bind] at h
          cases e2 : rd d1 (p1 + 1) with
          | fault s => rw [e2] at h; cases h
          | throw x => rw [e2] at h; cases h
          | ok tlo =>
            rw [e2] at h; simp only [Out.ok_bind] at h
            cases e3 : rd d1 (p1 + 8) with
            | fault s => rw [e3] at h; cases h
            | throw x => rw [e3] at h; cases h
            | ok shi =>
              rw [e3] at h; simp only [Out.ok_bind] at h
              cases e4 : rd d1 (p1 + 9) with
              | fault s => rw [e4] at h; cases h
              | throw x => rw [e4] at h; cases h
              | ok slo =>
                rw [e4] at h; simp only [Out.ok_bind] at h
                split at h
                · cases h
                · rename_i hsz
                  split at h
                  · cases h
                  · rename_i hmx
                    cases hr : updateRdata thr off (thi * 256 + tlo) d1
                        (if thi * 256 + tlo = tMX then p1 + 10 + 2 else p1 + 10) (p1 + 10 + (shi * 256 + slo)) with
                    | fault s => rw [hr] at h; cases h
                    | throw x => rw [hr] at h; cases h
                    | ok d2 =>
                      rw [hr] at h; simp only [Out.ok_bind] at h
                      obtain ⟨R2, hupd2⟩ := updateRdata_upd thr off _ d1 _ _ d2 (by omega) hr
                      obtain ⟨R3, hupd3, h3⟩ := updateLoop_upd thr off n d2 _ r h
                      have hnp : p1 ≤ (if thi * 256 + tlo = tMX then p1 + 10 + 2 else p1 + 10) := by split <;> omega
                      have hmax : max (if thi * 256 + tlo = tMX then p1 + 10 + 2 else p1 + 10) (p1 + 10 + (shi * 256 + slo)) =
                          p1 + 10 + (shi * 256 + slo) := by
                        split
                        · rename_i hm
                          have : ¬ shi * 256 + slo < 2 := fun hlt => hmx ⟨hm, hlt⟩
                          omega
                        · omega
                      rw [hmax] at hupd2
                      have h12 := hupd1.trans (hupd2.widen hnp (Nat.le_refl _)) (by omega) (by omega)
                      have h123 := h12.trans hupd3 (by omega) h3
                      exact ⟨_, h123, by omega⟩

/-! ### the insertion as a whole -/

theorem insertAt_get {buf : Bytes} {t : Nat} {ins d : Bytes} (h : insertAt buf t ins = ok d) :
    t ≤ buf.length ∧ d.length = buf.length + ins.length ∧ ∀ x, x < buf.length → d[shift t ins.length x]? = buf[x]? := by
  unfold insertAt at h
  split at h
  · rename_i ht
    cases h
    have hl : (buf.take t).length = t := by rw [List.length_take]; omega
    refine ⟨ht, ?_, ?_⟩
    · simp only [List.length_append, List.length_take, List.length_drop]; omega
    · intro x hx
      unfold shift
      split
      · rename_i hlt
        rw [List.append_assoc, List.getElem?_append_left (by omega), List.getElem?_take, if_pos hlt]
      · rename_i hge
        rw [List.append_assoc, List.getElem?_append_right (by omega), hl,
          List.getElem?_append_right (by omega), List.getElem?_drop]
        congr 1; omega
  · cases h

/-- `update_records` (on any stored bytes) followed by the splice is a `Shifted` image of the original records -/
theorem shifted_of_upd {thr off lo hi : Nat} {d d1 d2 ins : Bytes} {R : Nat → Prop} (hu : Upd thr off lo hi d d1 R)
    (hlo : thr ≤ lo) (hi' : insertAt d1 thr ins = ok d2) (hlen : ins.length = off) : Shifted d d2 thr off R := by
  obtain ⟨ht, hl2, hget⟩ := insertAt_get hi'
  rw [hlen] at hl2 hget
  refine ⟨by rw [hl2, hu.len], ?_, ?_⟩
  · intro x hx hxl
    rw [hget x (by rw [hu.len]; exact hxl), hu.lit x hx]
  · intro x hx
    obtain ⟨a, b, a', b', e0, e1, e0', e1', h3, hv, hge⟩ := hu.ptr x hx
    have hr := hu.rng x hx
    have hx1 : x + 1 < d1.length := getElem?_lt_length e1'
    have hs1 : shift thr off (x + 1) = shift thr off x + 1 := by
      unfold shift; rw [if_neg (by omega), if_neg (by omega)]; omega
    refine ⟨a, b, a', b', e0, e1, ?_, ?_, h3, hv, hge⟩
    · rw [hget x (by omega)]; exact e0'
    · rw [← hs1, hget (x + 1) hx1]; exact e1'

theorem updateRecords_upd {d : Bytes} {start count thr off : Nat} {r : Bytes × Nat}
    (h : updateRecords d start count thr off = ok r) :
    ∃ R e, Upd thr off start e d r.1 R ∧ start ≤ e ∧
      (e = start ∨ ∃ r1, updateLoop thr off count d start = ok r1 ∧ r1.2 = e) := by
  unfold updateRecords at h
  split at h
  · cases hu : updateLoop thr off count d start with
    | fault s => rw [hu] at h; cases h
    | throw x => rw [hu] at h; cases h
    | ok r1 =>
      rw [hu] at h; simp only [Out.ok_bind] at h
      cases h
      obtain ⟨R, hupd, hle⟩ := updateLoop_upd thr off count d start r1 hu
      exact ⟨R, r1.2, hupd, hle, Or.inr ⟨r1, rfl, rfl⟩⟩
  · cases h
    exact ⟨_, start, Upd.refl thr off start start d, Nat.le_refl _, Or.inl rfl⟩

/-- where `add_answer` / `add_authority` / `add_additional` splice the new record in -/
def insPoint (m : Msg) : Section → Nat
  | .answer => m.ui
  | .authority => m.di
  | .additional => m.recs.length

/-- **the insertion re-targets pointers by exactly the inserted length and moves everything else**: for ANY reachable
    object (compressed or not, well-formed or not) a successful `add_*` produces a `Shifted` image of the old records,
    and only pointer fields at or after the insertion point are re-targeted.  For `add_answer` the walk over the
    authority records must end at or before `additional_idx_` (the two walks must not overlap). -/
theorem addRecord_shifted {m m' : Msg} {sec : Section} {r : NewRec} (hinv : Inv m) (h : addRecord m sec r = ok m')
    (hdisj : sec = .answer → ∀ off r1, updateLoop m.ui off m.au m.recs m.ui = ok r1 → r1.2 ≤ m.di) :
    ∃ k R, m'.recs.length = m.recs.length + k ∧ Shifted m.recs m'.recs (insPoint m sec) k R ∧
      ∀ x, R x → insPoint m sec ≤ x := by
  unfold addRecord at h
  unfold Inv at hinv
  cases hb : recordBytes r with
  | fault s => rw [hb] at h; cases h
  | throw x => rw [hb] at h; cases h
  | ok bytes =>
    rw [hb] at h; simp only [Out.ok_bind] at h
    cases sec with
    | additional =>
      dsimp only at h
      cases hi : insertAt m.recs m.recs.length bytes with
      | fault s => rw [hi] at h; cases h
      | throw x => rw [hi] at h; cases h
      | ok d1 =>
        rw [hi] at h; simp only [Out.ok_bind] at h
        cases h
        have hs := shifted_of_upd (Upd.refl m.recs.length bytes.length m.recs.length m.recs.length m.recs)
          (Nat.le_refl _) hi rfl
        exact ⟨bytes.length, _, hs.len, hs, fun _ hx => hx.elim⟩
    | authority =>
      dsimp only at h
      cases hu : updateRecords m.recs m.di m.ad m.di bytes.length with
      | fault s => rw [hu] at h; cases h
      | throw x => rw [hu] at h; cases h
      | ok r1 =>
        rw [hu] at h; simp only [Out.ok_bind] at h
        cases hi : insertAt r1.1 m.di bytes with
        | fault s => rw [hi] at h; cases h
        | throw x => rw [hi] at h; cases h
        | ok d2 =>
          rw [hi] at h; simp only [Out.ok_bind] at h
          cases h
          obtain ⟨R, e, hupd, hle, _⟩ := updateRecords_upd hu
          have hs := shifted_of_upd hupd (Nat.le_refl _) hi rfl
          exact ⟨bytes.length, R, hs.len, hs, fun x hx => (hupd.rng x hx).1⟩
    | answer =>
      dsimp only at h
      cases hu : updateRecords m.recs m.ui m.au m.ui bytes.length with
      | fault s => rw [hu] at h; cases h
      | throw x => rw [hu] at h; cases h
      | ok r1 =>
        rw [hu] at h; simp only [Out.ok_bind] at h
        cases hu2 : updateRecords r1.1 m.di m.ad m.ui bytes.length with
        | fault s => rw [hu2] at h; cases h
        | throw x => rw [hu2] at h; cases h
        | ok r2 =>
          rw [hu2] at h; simp only [Out.ok_bind] at h
          cases hi : insertAt r2.1 m.ui bytes with
          | fault s => rw [hi] at h; cases h
          | throw x => rw [hi] at h; cases h
          | ok d3 =>
            rw [hi] at h; simp only [Out.ok_bind] at h
            cases h
            obtain ⟨R1, e1, hupd1, hle1, he1⟩ := updateRecords_upd hu
            obtain ⟨R2, e2, hupd2, hle2, _⟩ := updateRecords_upd hu2
            have he1' : e1 ≤ m.di := by
              rcases he1 with he1 | ⟨r1', hr1', he1⟩
              · omega
              · rw [← he1]; exact hdisj rfl _ _ hr1'
            have h12 := (hupd1.widen (Nat.le_refl _) he1').trans hupd2 (by omega) hle2
            have hs := shifted_of_upd h12 (Nat.le_refl _) hi rfl
            refine ⟨bytes.length, _, hs.len, hs, ?_⟩
            intro x hx
            exact (h12.rng x hx).1

end Tins.Dns
