import TinsModel.Dns.Names
import TinsModel.Dns.Soa
/-
  Lemmas about the model of `DNS::soa_record` (TinsModel/Dns/Soa.lean):

    * safety of `soa_record::init` on ANY byte string: no access outside the caller's buffer or outside the temporary
      strings, and only `malformed_packet` / `invalid_domain_name` escape (`soaInit_within`);
    * `init (serialize r ++ anything) = r` for every record whose two names are legal (`soaInit_serialize`);
    * the code before the fix faults on a buffer without a NUL (`soaInitUnfixed_faults`).
-/
namespace Tins.Dns
open Out

namespace Out

/-- `x` does not fault; if it throws, the exception satisfies `S`; if it returns, the value satisfies `P` -/
def within {α} (x : Out α) (S : Exc → Prop) (P : α → Prop) : Prop :=
  match x with
  | ok a => P a
  | throw e => S e
  | fault _ => False

theorem within_bind {α β} {x : Out α} {f : α → Out β} {S : Exc → Prop} {P : α → Prop} {Q : β → Prop}
    (hx : x.within S P) (hf : ∀ a, P a → (f a).within S Q) : (x >>= f).within S Q := by
  cases x with
  | ok a => exact hf a hx
  | throw e => exact hx
  | fault s => exact hx.elim

theorem within_mono {α} {x : Out α} {S S' : Exc → Prop} {P Q : α → Prop} (hx : x.within S P)
    (hs : ∀ e, S e → S' e) (hp : ∀ a, P a → Q a) : x.within S' Q := by
  cases x with
  | ok a => exact hp a hx
  | throw e => exact hs e hx
  | fault s => exact hx.elim

theorem within_noFault {α} {x : Out α} {S : Exc → Prop} {P : α → Prop} (hx : x.within S P) : x.isFault = false := by
  cases x with
  | ok a => rfl
  | throw e => rfl
  | fault s => exact hx.elim

theorem within_throw {α} {x : Out α} {S : Exc → Prop} {P : α → Prop} (hx : x.within S P) {e : Exc} (h : x = throw e) :
    S e := by
  subst h; exact hx

end Out

/-- the exceptions of the stream -/
def IsMalformed (e : Exc) : Prop := e = .malformedPacket

/-- the exceptions of `soa_record::init` -/
def SoaExc (e : Exc) : Prop := e = .malformedPacket ∨ e = .invalidDomainName

theorem rd_within {buf : Bytes} {i : Nat} (S : Exc → Prop) (h : i < buf.length) :
    (rd buf i).within S (fun v => v < 256) := by
  unfold rd
  rw [List.getElem?_eq_getElem h]
  exact u8_toNat_lt _

theorem rdN_within {buf : Bytes} {i n : Nat} (S : Exc → Prop) (h : i + n ≤ buf.length) :
    (rdN buf i n).within S (fun b => b.length = n) := by
  unfold rdN
  rw [if_pos h]
  show ((buf.drop i).take n).length = n
  simp only [List.length_take, List.length_drop]
  omega

theorem skip_within {L : Nat} {s : Stream} (n : Nat) (h : SIn L s) :
    (s.skip n).within IsMalformed (fun s' => SIn L s' ∧ s'.pos = s.pos + n ∧ s'.rem + n = s.rem) := by
  unfold Stream.skip
  split
  · exact rfl
  · unfold SIn at *
    refine ⟨?_, rfl, ?_⟩ <;> dsimp only <;> omega

theorem readBE32_within {buf : Bytes} {s : Stream} (h : SIn buf.length s) :
    (readBE32 buf s).within IsMalformed (fun r => SIn buf.length r.2 ∧ r.1 < 4294967296) := by
  unfold readBE32
  split
  · exact rfl
  · unfold SIn at h
    apply Out.within_bind (rd_within _ (i := s.pos) (by omega)); intro a ha
    apply Out.within_bind (rd_within _ (i := s.pos + 1) (by omega)); intro b hb
    apply Out.within_bind (rd_within _ (i := s.pos + 2) (by omega)); intro c hc
    apply Out.within_bind (rd_within _ (i := s.pos + 3) (by omega)); intro d hd
    show SIn buf.length ⟨s.pos + 4, s.rem - 4⟩ ∧ _
    unfold SIn
    dsimp only
    omega

/-! ### safety -/

/-- the bounded search stays inside `[p, p + count)`, which lies inside the buffer -/
theorem findNul_within (buf : Bytes) (S : Exc → Prop) : ∀ (count p : Nat), p + count ≤ buf.length →
    (findNul buf count p).within S (fun r => ∀ t, r = some t → p ≤ t ∧ t < p + count)
  | 0, p, _ => by
    unfold findNul
    intro t ht; cases ht
  | count + 1, p, h => by
    unfold findNul
    apply Out.within_bind (rd_within S (i := p) (by omega)); intro v _
    split
    · intro t ht
      cases ht
      omega
    · apply Out.within_mono (findNul_within buf S count (p + 1) (by omega)) (fun _ he => he)
      intro r hr t ht
      have := hr t ht
      omega

theorem readEncodedDname_within {buf : Bytes} {s : Stream} (h : SIn buf.length s) :
    (readEncodedDname buf s).within IsMalformed (fun r => SIn buf.length r.2) := by
  unfold readEncodedDname
  unfold SIn at h
  apply Out.within_bind (findNul_within buf IsMalformed s.rem s.pos h); intro t ht
  cases t with
  | none => exact rfl
  | some t =>
    have hb := ht t rfl
    apply Out.within_bind (rdN_within IsMalformed (i := s.pos) (n := t - s.pos) (by omega)); intro out _
    apply Out.within_bind (skip_within (L := buf.length) (out.length + 1) h); intro s' hs'
    exact hs'.1

/-- the walk over the temporary string never leaves its memory (contents + terminator) -/
theorem decodeGo_within (mem : Bytes) (endp : Nat) (hm : mem.length = endp + 1) : ∀ (fuel ptr : Nat) (out : Bytes),
    ptr ≤ endp → endp - ptr < fuel → (decodeGo mem endp fuel ptr out).within SoaExc (fun _ => True)
  | 0, _, _, _, hf => by omega
  | f + 1, ptr, out, hp, hf => by
    unfold decodeGo
    apply Out.within_bind (rd_within SoaExc (i := ptr) (by omega)); intro v _
    split
    · exact True.intro
    split
    · exact .inr rfl
    dsimp only
    by_cases hle : ptr + 1 + v > endp
    · rw [if_pos hle]; exact .inl rfl
    · rw [if_neg hle]
      generalize (if out.length ≠ 0 then out ++ [46] else out) = out1
      apply Out.within_bind (rdN_within SoaExc (i := ptr + 1) (n := v) (by omega)); intro label _
      by_cases hbig : (out1 ++ label).length > 256
      · rw [if_pos hbig]; exact .inr rfl
      · rw [if_neg hbig]
        exact decodeGo_within mem endp hm f (ptr + 1 + v) _ (by omega) (by omega)

theorem decodeDomainName_within (dn : Bytes) : (decodeDomainName dn).within SoaExc (fun _ => True) := by
  unfold decodeDomainName
  split
  · exact True.intro
  · exact decodeGo_within (dn ++ [0]) dn.length (by simp) (dn.length + 1) 0 [] (by omega) (by omega)

/-- **safety of `soa_record::init`**: whatever the bytes, no access outside the caller's buffer (or the temporary strings)
    and only `malformed_packet` / `invalid_domain_name` escape -/
theorem soaInit_within (b : Bytes) : (soaInit b).within SoaExc (fun _ => True) := by
  unfold soaInit
  have lift : ∀ {α} {x : Out α} {P : α → Prop}, x.within IsMalformed P → x.within SoaExc P :=
    fun hx => Out.within_mono hx (fun _ he => .inl he) (fun _ hp => hp)
  have h0 : SIn b.length ⟨0, b.length⟩ := by unfold SIn; dsimp only; omega
  apply Out.within_bind (lift (readEncodedDname_within h0)); rintro ⟨d1, s1⟩ h1
  apply Out.within_bind (decodeDomainName_within d1); intro m _
  apply Out.within_bind (lift (readEncodedDname_within h1)); rintro ⟨d2, s2⟩ h2
  apply Out.within_bind (decodeDomainName_within d2); intro r _
  apply Out.within_bind (lift (readBE32_within h2)); rintro ⟨v1, s3⟩ h3
  apply Out.within_bind (lift (readBE32_within h3.1)); rintro ⟨v2, s4⟩ h4
  apply Out.within_bind (lift (readBE32_within h4.1)); rintro ⟨v3, s5⟩ h5
  apply Out.within_bind (lift (readBE32_within h5.1)); rintro ⟨v4, s6⟩ h6
  apply Out.within_bind (lift (readBE32_within h6.1)); rintro ⟨v5, s7⟩ _
  exact True.intro

/-! ### round trip with `soa_record::serialize` -/

/-- the labels of a wire name without the terminating root label -/
def wireBody : Name → Bytes
  | [] => []
  | l :: r => UInt8.ofNat l.length :: l ++ wireBody r

theorem wireName_eq_body : ∀ n : Name, wireName n = wireBody n ++ [0]
  | [] => rfl
  | l :: r => by rw [wireName_cons, wireBody, wireName_eq_body r]; simp

theorem wireBody_no_nul : ∀ {n : Name}, LabelsOk n → ∀ c ∈ wireBody n, c ≠ 0
  | [], _ => by intro c hc; simp [wireBody] at hc
  | l :: r, h => by
    intro c hc
    have hl := h.head
    have hc' : (c = UInt8.ofNat l.length ∨ c ∈ l) ∨ c ∈ wireBody r := by
      simpa only [wireBody, List.mem_cons, List.mem_append] using hc
    rcases hc' with (hc | hc) | hc
    · subst hc
      intro h0
      have h1 : (UInt8.ofNat l.length).toNat = l.length := u8_ofNat_toNat (by omega)
      rw [h0] at h1
      have h2 : (0 : UInt8).toNat = 0 := rfl
      omega
    · exact (hl.2.2 c hc).2
    · exact wireBody_no_nul h.tail c hc

theorem textOf_length_lt : ∀ n : Name, (textOf n).length < (wireName n).length
  | [] => by simp
  | [l] => by
    simp only [textOf_single, wireName_cons, wireName_nil, List.length_cons, List.length_append, List.length_nil]; omega
  | l :: l' :: r => by
    have := textOf_length_lt (l' :: r)
    rw [textOf_cons_cons, wireName_cons]
    simp only [List.length_append, List.length_cons] at *
    omega

theorem appendName_length_ge : ∀ (n : Name) (out : Bytes), out.length ≤ (appendName out n).length
  | [], out => Nat.le_refl _
  | l :: r, out => by
    rw [appendName]
    refine Nat.le_trans ?_ (appendName_length_ge r _)
    split <;> simp only [List.length_append, List.length_cons, List.length_nil] <;> omega

/-- `std::find` stops at the first NUL: after a block without NUL -/
theorem findNul_at (buf : Bytes) : ∀ (body : Bytes) (rest : Bytes) (count p : Nat), At buf p (body ++ 0 :: rest) →
    (∀ c ∈ body, c ≠ 0) → body.length < count → findNul buf count p = ok (some (p + body.length))
  | _, _, 0, _, _, _, hc => by omega
  | [], rest, count + 1, p, hat, _, _ => by
    unfold findNul
    rw [List.nil_append] at hat
    rw [hat.rd_eq]
    simp
  | x :: body, rest, count + 1, p, hat, hno, hc => by
    unfold findNul
    rw [List.cons_append] at hat
    rw [hat.rd_eq]
    have hx : x ≠ 0 := hno x List.mem_cons_self
    have hx' : x.toNat ≠ 0 := by
      intro h0; apply hx
      exact UInt8.toNat_inj.1 (by simpa using h0)
    simp only [Out.ok_bind, if_neg hx']
    rw [findNul_at buf body rest count (p + 1) hat.tail (fun c hc => hno c (List.mem_cons_of_mem _ hc))
      (by simp only [List.length_cons] at hc; omega)]
    simp only [List.length_cons]
    congr 2; omega

theorem readEncodedDname_at {buf : Bytes} {s : Stream} {body rest : Bytes} (hat : At buf s.pos (body ++ 0 :: rest))
    (hno : ∀ c ∈ body, c ≠ 0) (hr : body.length < s.rem) :
    readEncodedDname buf s = ok (body, ⟨s.pos + body.length + 1, s.rem - (body.length + 1)⟩) := by
  unfold readEncodedDname
  rw [findNul_at buf body rest s.rem s.pos hat hno hr]
  simp only [Out.ok_bind, Nat.add_sub_cancel_left]
  rw [hat.left.rdN_eq]
  simp only [Out.ok_bind]
  unfold Stream.skip
  rw [if_neg (by omega)]
  simp only [Out.ok_bind, Nat.add_assoc]

/-- `decode_domain_name` over the labels of a legal name appends them, dot separated, to the output -/
theorem decodeGo_wire (mem : Bytes) (endp : Nat) : ∀ (n : Name) (fuel p : Nat) (out : Bytes),
    At mem p (wireBody n ++ [0]) → p + (wireBody n).length = endp → LabelsOk n → (appendName out n).length ≤ 256 →
    n.length < fuel → decodeGo mem endp fuel p out = ok (appendName out n)
  | _, 0, _, _, _, _, _, _, hf => by omega
  | [], f + 1, p, out, hat, _, _, _, _ => by
    unfold decodeGo
    simp only [wireBody, List.nil_append] at hat
    rw [hat.rd_eq]
    simp [appendName]
  | l :: r, f + 1, p, out, hat, he, hok, hcap, hf => by
    have hl := hok.head
    unfold decodeGo
    simp only [wireBody, List.cons_append, List.append_assoc] at hat
    simp only [wireBody, List.length_cons, List.length_append] at he
    rw [hat.rd_eq, u8_ofNat_toNat (by omega)]
    simp only [Out.ok_bind]
    rw [if_neg (by omega), if_neg (by omega)]
    rw [if_neg (by omega)]
    have hat1 : At mem (p + 1) (l ++ (wireBody r ++ [0])) := hat.tail
    rw [hat1.rdN_left rfl]
    simp only [Out.ok_bind]
    rw [appendName] at hcap
    have hge := appendName_length_ge r ((if out.length ≠ 0 then out ++ [46] else out) ++ l)
    rw [if_neg (by omega)]
    rw [decodeGo_wire mem endp r f (p + 1 + l.length) _ hat1.right (by omega) hok.tail hcap
      (by simp only [List.length_cons] at hf; omega)]
    rw [appendName]

theorem decodeDomainName_wire {n : Name} (hok : LabelsOk n) (hlen : (wireName n).length ≤ 257) :
    decodeDomainName (wireBody n) = ok (textOf n) := by
  unfold decodeDomainName
  cases n with
  | nil => rfl
  | cons l r =>
    have hne : (wireBody (l :: r)).isEmpty = false := by simp [wireBody]
    rw [hne]
    simp only [Bool.false_eq_true, if_false]
    have hat : At (wireBody (l :: r) ++ [0]) 0 (wireBody (l :: r) ++ [0]) :=
      ⟨[], [], by simp, rfl⟩
    have hcap : (appendName [] (l :: r)).length ≤ 256 := by
      rw [appendName_nil_out hok]
      have := textOf_length_lt (l :: r)
      omega
    have hfuel : (l :: r).length < (wireBody (l :: r)).length + 1 := by
      have := wireName_length_pos (l :: r)
      rw [wireName_eq_body] at this
      simp only [List.length_append, List.length_cons, List.length_nil] at this
      omega
    rw [decodeGo_wire _ _ (l :: r) _ 0 [] hat (by omega) hok hcap hfuel, appendName_nil_out hok]

/-- **round trip**: a record whose two names are legal (labels of 1..63 octets without '.' and NUL, at most 255 octets on
    the wire, any number of labels) and whose five counters fit 32 bits is read back unchanged from its serialization,
    whatever follows it in the buffer -/
theorem soaInit_serialize (n1 n2 : Name) (h1 : legalName n1 = true) (h2 : legalName n2 = true)
    (serial refresh retry expire minimum : Nat) (hs : serial < 4294967296) (hf : refresh < 4294967296)
    (ht : retry < 4294967296) (he : expire < 4294967296) (hm : minimum < 4294967296) (post : Bytes) :
    soaInit (soaSerialize ⟨textOf n1, textOf n2, serial, refresh, retry, expire, minimum⟩ ++ post) =
      ok ⟨textOf n1, textOf n2, serial, refresh, retry, expire, minimum⟩ := by
  obtain ⟨hok1, hlen1⟩ := (legalName_iff n1).1 h1
  obtain ⟨hok2, hlen2⟩ := (legalName_iff n2).1 h2
  unfold soaSerialize
  dsimp only
  rw [encode_textOf hok1, encode_textOf hok2, wireName_eq_body n1, wireName_eq_body n2]
  rw [wireName_eq_body] at hlen1 hlen2
  simp only [List.length_append, List.length_cons, List.length_nil] at hlen1 hlen2
  generalize hb : (wireBody n1 ++ [0] ++ (wireBody n2 ++ [0]) ++ be32 serial ++ be32 refresh ++ be32 retry ++ be32 expire ++
    be32 minimum ++ post) = buf
  have hlenb : buf.length = (wireBody n1).length + 1 + ((wireBody n2).length + 1) + 20 + post.length := by
    rw [← hb]; simp only [List.length_append, List.length_cons, List.length_nil, be32_length]
  have hat0 : At buf 0 (wireBody n1 ++ 0 :: (wireBody n2 ++ 0 :: (be32 serial ++ (be32 refresh ++ (be32 retry ++
      (be32 expire ++ (be32 minimum ++ post))))))) :=
    ⟨[], [], by rw [← hb]; simp only [List.append_assoc, List.cons_append, List.nil_append, List.append_nil], rfl⟩
  unfold soaInit
  dsimp only
  rw [readEncodedDname_at (s := ⟨0, buf.length⟩) hat0 (wireBody_no_nul hok1) (by dsimp only; omega)]
  simp only [Out.ok_bind]
  rw [decodeDomainName_wire hok1 (by rw [wireName_eq_body]; simp only [List.length_append, List.length_cons, List.length_nil]; omega)]
  simp only [Out.ok_bind]
  have hat1 : At buf (0 + (wireBody n1).length + 1) (wireBody n2 ++ 0 :: (be32 serial ++ (be32 refresh ++ (be32 retry ++
      (be32 expire ++ (be32 minimum ++ post)))))) := by
    have := (hat0.right).tail
    simpa only [Nat.zero_add] using this
  rw [readEncodedDname_at (s := ⟨0 + (wireBody n1).length + 1, buf.length - ((wireBody n1).length + 1)⟩) hat1
    (wireBody_no_nul hok2) (by dsimp only; omega)]
  simp only [Out.ok_bind]
  rw [decodeDomainName_wire hok2 (by rw [wireName_eq_body]; simp only [List.length_append, List.length_cons, List.length_nil]; omega)]
  simp only [Out.ok_bind]
  have hat2 := (hat1.right).tail
  rw [At.readBE32_eq (s := ⟨_, _⟩) hat2 hs (by dsimp only; omega)]
  simp only [Out.ok_bind]
  have hat3 := hat2.right
  rw [be32_length] at hat3
  rw [At.readBE32_eq (s := ⟨_, _⟩) hat3 hf (by dsimp only; omega)]
  simp only [Out.ok_bind]
  have hat4 := hat3.right
  rw [be32_length] at hat4
  rw [At.readBE32_eq (s := ⟨_, _⟩) hat4 ht (by dsimp only; omega)]
  simp only [Out.ok_bind]
  have hat5 := hat4.right
  rw [be32_length] at hat5
  rw [At.readBE32_eq (s := ⟨_, _⟩) hat5 he (by dsimp only; omega)]
  simp only [Out.ok_bind]
  have hat6 := hat5.right
  rw [be32_length] at hat6
  rw [At.readBE32_eq (s := ⟨_, _⟩) hat6 hm (by dsimp only; omega)]
  simp only [Out.ok_bind]

/-! ### the code before the fix -/

/-- `ns` (one label, no terminator): the C-string scan of the unfixed code runs past the end of the two-octet buffer -/
theorem soaInitUnfixed_faults : (soaInitUnfixed [1, 0x61]).isFault = true := by decide

/-- the same buffer is rejected by the fixed code -/
theorem soaInit_rejects_unterminated : soaInit [1, 0x61] = Out.throw Exc.malformedPacket := by decide

end Tins.Dns
