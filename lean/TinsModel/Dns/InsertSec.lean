import TinsModel.Dns.Insert
/-
  One insertion, section by section: layout, names and views of a section in front of / behind the insertion point,
  and the pointer conditions of the new message.
-/
namespace Tins.Dns
open Out

theorem map_map_fun {α β γ} (f : α → β) (g : β → γ) (l : List α) : (l.map f).map g = l.map (fun a => g (f a)) := by
  induction l with
  | nil => rfl
  | cons a t ih => rw [List.map_cons, List.map_cons, List.map_cons, ih]

theorem map_congr_mem {α β} {f g : α → β} {l : List α} (h : ∀ a ∈ l, f a = g a) : l.map f = l.map g := by
  induction l with
  | nil => rfl
  | cons a t ih =>
    rw [List.map_cons, List.map_cons, h a List.mem_cons_self, ih (fun x hx => h x (List.mem_cons_of_mem _ hx))]

theorem SecAt.views_transport {buf buf' : Bytes} {d : Nat} {M : Nat → Prop} {p e : Nat} {rs : List RecL}
    (h : SecAt buf p rs e) (hs : Same buf buf' d p e M) (hM : ∀ y, p ≤ y → y < e → M y → PB (recSites rs) y)
    (hname : ∀ σ ∈ recSites rs, nameAt buf' (σ.s + d) = nameAt buf σ.s) :
    ∀ r ∈ rs, viewRec buf' (r.add d) = viewRec buf r := by
  induction h with
  | nil => intro r hr; cases hr
  | @cons p r rs e h1 h2 h3 ih =>
    have hle := h3.le
    have hlt := h2.lt
    have hrs : ∀ σ ∈ r.sites, σ ∈ recSites (r :: rs) := fun σ hσ => by
      simp only [recSites, List.flatMap_cons, List.mem_append]; exact Or.inl hσ
    have hrs2 : ∀ σ ∈ recSites rs, σ ∈ recSites (r :: rs) := fun σ hσ => by
      simp only [recSites, List.flatMap_cons, List.mem_append]; exact Or.inr hσ
    intro r' hr'
    rcases List.mem_cons.1 hr' with hr' | hr'
    · subst hr'
      refine viewRec_transport h2 (hs.sub (by omega) (by omega)) ?_ (fun σ hσ => hname σ (hrs σ hσ))
      intro y y1 y2 ym
      obtain ⟨τ, hτ, he, hy⟩ := hM y (by omega) (by omega) ym
      simp only [recSites, List.flatMap_cons, List.mem_append] at hτ
      rcases hτ with hτ | hτ
      · exact ⟨τ, hτ, he, hy⟩
      · have := h3.site_mem hτ
        have := this.2.2.bounds
        omega
    · refine ih (hs.sub (by omega) (Nat.le_refl _)) ?_ (fun σ hσ => hname σ (hrs2 σ hσ)) r' hr'
      intro y y1 y2 ym
      obtain ⟨τ, hτ, he, hy⟩ := hM y (by omega) (by omega) ym
      simp only [recSites, List.flatMap_cons, List.mem_append] at hτ
      rcases hτ with hτ | hτ
      · have := h2.site_mem hτ
        have := this.2.2.1.bounds
        omega
      · exact ⟨τ, hτ, he, hy⟩

theorem QSecAt.views_transport {buf buf' : Bytes} {d : Nat} {M : Nat → Prop} {p e : Nat} {qs : List Site}
    (h : QSecAt buf p qs e) (hs : Same buf buf' d p e M) (hM : ∀ y, p ≤ y → y < e → M y → PB qs y)
    (hname : ∀ σ ∈ qs, nameAt buf' (σ.s + d) = nameAt buf σ.s) :
    ∀ σ ∈ qs, viewQ buf' (σ.add d) = viewQ buf σ := by
  induction h with
  | nil => intro r hr; cases hr
  | @cons p σ qs e h1 h2 h3 h4 h5 h6 ih =>
    have hle := h6.le
    have b2 := h2.span
    intro σ' hσ'
    rcases List.mem_cons.1 hσ' with hσ' | hσ'
    · subst hσ'
      refine viewQ_transport ?_ (hname _ List.mem_cons_self)
      intro y y1 y2
      apply hs y (by omega) (by omega)
      intro ym
      obtain ⟨τ, hτ, he, hy⟩ := hM y (by omega) (by omega) ym
      rcases List.mem_cons.1 hτ with hτ | hτ
      · subst hτ; omega
      · have := h6.site_mem hτ
        have := this.2.2.bounds
        omega
    · refine ih (hs.sub (by omega) (Nat.le_refl _)) ?_ (fun τ hτ => hname τ (List.mem_cons_of_mem _ hτ)) σ' hσ'
      intro y y1 y2 ym
      obtain ⟨τ, hτ, he, hy⟩ := hM y (by omega) (by omega) ym
      rcases List.mem_cons.1 hτ with hτ | hτ
      · have := h2.bounds; subst hτ; omega
      · exact ⟨τ, hτ, he, hy⟩

/-- the position of a name site after `k` octets were inserted at `t` -/
def Site.sh (t k : Nat) (σ : Site) : Site := if t ≤ σ.s then σ.add k else σ

namespace Ins
variable {m : Msg} {L : Layout} {t k : Nat} {d' : Bytes}

/-- a section in front of the insertion point: same layout, same names, same views -/
theorem sec_lo (h : Ins m L t k d') {p e : Nat} {rs : List RecL} (hsec : SecAt m.recs p rs e) (he : e ≤ t)
    (hsub : ∀ σ ∈ recSites rs, σ ∈ L.sites) (hloc : ∀ y, p ≤ y → y < e → PB L.sites y → PB (recSites rs) y) :
    SecAt d' p rs e ∧ NamesOk d' (recSites rs) ∧ rs.map (viewRec d') = rs.map (viewRec m.recs) := by
  have hsame := h.same_lo.sub (Nat.zero_le p) he
  have hM : ∀ y, p ≤ y → y < e → h.M y → PB (recSites rs) y := fun y y1 y2 ym => hloc y y1 y2 (h.M_pb ym)
  have hlo : ∀ σ ∈ recSites rs, σ.e ≤ t := fun σ hσ => by have := (hsec.site_mem hσ).2.1; omega
  refine ⟨?_, ?_, ?_⟩
  · have := hsec.transport hsame hM (fun σ hσ => h.ptrStill_lo (hsub σ hσ) (hlo σ hσ))
      (by rw [h.sh.len]; have := h.t_le; omega)
    rwa [map_add_zero] at this
  · intro σ hσ
    rw [h.name_lo (hsub σ hσ) (hlo σ hσ)]; rfl
  · have := hsec.views_transport hsame hM (fun σ hσ => nameAt_of_ok (h.name_lo (hsub σ hσ) (hlo σ hσ)))
    exact map_congr_mem (fun r hr => by have := this r hr; rwa [RecL.add_zero] at this)

/-- a section behind the insertion point: the layout moved by `k`, same names, same views -/
theorem sec_hi (h : Ins m L t k d') {p e : Nat} {rs : List RecL} (hsec : SecAt m.recs p rs e) (hp : t ≤ p)
    (hel : e ≤ m.recs.length) (hsub : ∀ σ ∈ recSites rs, σ ∈ L.sites)
    (hloc : ∀ y, p ≤ y → y < e → PB L.sites y → PB (recSites rs) y) :
    SecAt d' (p + k) (rs.map (·.add k)) (e + k) ∧ NamesOk d' (recSites (rs.map (·.add k))) ∧
      (rs.map (·.add k)).map (viewRec d') = rs.map (viewRec m.recs) := by
  have hsame := (h.same_hi e).sub hp (Nat.le_refl _)
  have hM : ∀ y, p ≤ y → y < e → h.M y → PB (recSites rs) y := fun y y1 y2 ym => hloc y y1 y2 (h.M_pb ym)
  have hhi : ∀ σ ∈ recSites rs, t ≤ σ.s := fun σ hσ => by have := (hsec.site_mem hσ).1; omega
  refine ⟨?_, ?_, ?_⟩
  · exact hsec.transport hsame hM (fun σ hσ => h.ptrStill_hi (hsub σ hσ) (hhi σ hσ)) (by rw [h.sh.len]; omega)
  · intro σ' hσ'
    rw [recSites_map_add] at hσ'
    obtain ⟨σ, hσ, rfl⟩ := List.mem_map.1 hσ'
    simp only [Site.add_s]
    rw [h.name_hi (hsub σ hσ) (hhi σ hσ)]; rfl
  · rw [map_map_fun]
    exact map_congr_mem (hsec.views_transport hsame hM (fun σ hσ => nameAt_of_ok (h.name_hi (hsub σ hσ) (hhi σ hσ))))

/-- the questions are always in front of the insertion point -/
theorem qsec_lo (h : Ins m L t k d') (hai : m.ai ≤ t) :
    QSecAt d' 0 L.qs m.ai ∧ NamesOk d' L.qs ∧ L.qs.map (viewQ d') = L.qs.map (viewQ m.recs) := by
  have hq := h.wf.lay.q
  have hsub : ∀ σ ∈ L.qs, σ ∈ L.sites := fun σ hσ => by simp only [Layout.sites, List.mem_append]; exact Or.inl hσ
  have hsame := h.same_lo.sub (Nat.le_refl 0) hai
  have hM : ∀ y, 0 ≤ y → y < m.ai → h.M y → PB L.qs y := fun y _ y2 ym => h.wf.lay.pb_qs y2 (h.M_pb ym)
  have hlo : ∀ σ ∈ L.qs, σ.e ≤ t := fun σ hσ => by have := (hq.site_mem hσ).2.1; omega
  refine ⟨?_, ?_, ?_⟩
  · have := hq.transport hsame hM (fun σ hσ => h.ptrStill_lo (hsub σ hσ) (hlo σ hσ))
      (by rw [h.sh.len]; have := h.t_le; omega)
    rwa [map_site_add_zero] at this
  · intro σ hσ
    rw [h.name_lo (hsub σ hσ) (hlo σ hσ)]; rfl
  · have := hq.views_transport hsame hM (fun σ hσ => nameAt_of_ok (h.name_lo (hsub σ hσ) (hlo σ hσ)))
    exact map_congr_mem (fun r hr => by have := this r hr; rwa [Site.add_zero] at this)

/-- a label boundary of a name site, after the insertion -/
theorem walk_sh (h : Ins m L t k d') {σ : Site} (hσ : σ ∈ L.sites) {q : Nat} (hq : σ.s ≤ q)
    (hn : NameSite m.recs q σ.x σ.e) : NameSite d' (shift t k q) (Site.sh t k σ).x (Site.sh t k σ).e := by
  have b := hn.bounds
  unfold Site.sh shift
  rcases h.ok.side σ hσ with hs | hs
  · have := (h.ok.site σ hσ).lt
    rw [if_neg (show ¬ t ≤ σ.s by omega), if_pos (show q < t by omega)]
    exact (hn.transport (h.same_lo.sub (Nat.zero_le _) hs) (fun _ y1 y2 ym => h.M_site hσ (by omega) y2 ym)
      (h.ptrStill_lo hσ hs)).cast rfl rfl rfl
  · rw [if_pos hs, if_neg (show ¬ q < t by omega)]
    exact hn.transport ((h.same_hi σ.e).sub (by omega) (Nat.le_refl _))
      (fun _ y1 y2 ym => h.M_site hσ (by omega) y2 ym) (h.ptrStill_hi hσ hs)

/-- how a section offset moves -/
def Moves (t k b b' : Nat) : Prop := (b' = b + k ∧ t ≤ b) ∨ (b' = b ∧ b ≤ t)

/-- **the pointer conditions survive the insertion** -/
theorem ptrOk_sh (h : Ins m L t k d') {m' : Msg} {sites' : List Site} (hrecs : m'.recs = d')
    (hai : Moves t k m.ai m'.ai) (hui : Moves t k m.ui m'.ui) (hdi : Moves t k m.di m'.di)
    (hsites : ∀ τ ∈ L.sites, Site.sh t k τ ∈ sites') {σ : Site} (hσ : σ ∈ L.sites) (he : σ.e = σ.x + 2) :
    PtrOk m' sites' (Site.sh t k σ) := by
  have hn := h.ok.site σ hσ
  have bσ := hn.bounds
  have hp := h.wf.ptr σ hσ he
  obtain ⟨hi', lo', e0, e1, h3, h12, htgt⟩ := h.ptr_after hσ he
  have hside := h.ok.side σ hσ
  have hx : (Site.sh t k σ).x = shift t k σ.x := by
    unfold Site.sh shift
    rcases hside with hs | hs
    · rw [if_neg (show ¬ t ≤ σ.s by omega), if_pos (show σ.x < t by omega)]
    · rw [if_pos hs, if_neg (show ¬ σ.x < t by omega)]; rfl
  have hpa : ptrAt m'.recs (Site.sh t k σ).x = hi'.toNat % 64 * 256 + lo'.toNat := by
    rw [hrecs, hx]; exact ptrAt_of_some e0 e1
  obtain ⟨τ, hτ, hτs, hτn⟩ := hp.tgt
  have bτ := hτn.bounds
  have hτside := h.ok.side τ hτ
  -- a section offset in front of which the pointer stays keeps the target in front of it
  have hcond : ∀ b b', Moves t k b b' → (σ.x < b → ptrAt m.recs σ.x - 12 < b) →
      shift t k σ.x < b' → shift t k (ptrAt m.recs σ.x - 12) < b' := by
    intro b b' hmv hold hlt
    unfold shift at hlt ⊢
    rcases hmv with ⟨rfl, hb⟩ | ⟨rfl, hb⟩
    · by_cases hxt : σ.x < t
      · rw [if_pos hxt] at hlt
        have := hold (by omega)
        split <;> omega
      · rw [if_neg hxt] at hlt
        have := hold (by omega)
        split <;> omega
    · by_cases hxt : σ.x < t
      · rw [if_pos hxt] at hlt
        have := hold hlt
        rw [if_pos (by omega)]; exact this
      · rw [if_neg hxt] at hlt; omega
  refine ⟨by rw [hpa]; exact h12, ⟨Site.sh t k τ, hsites τ hτ, ?_, ?_⟩, ?_, ?_, ?_⟩
  · rw [hpa, htgt]
    unfold Site.sh shift
    rcases hτside with hs | hs
    · have := (h.ok.site τ hτ).lt
      rw [if_neg (show ¬ t ≤ τ.s by omega), if_pos (show ptrAt m.recs σ.x - 12 < t by omega)]; exact hτs
    · rw [if_pos hs, if_neg (show ¬ ptrAt m.recs σ.x - 12 < t by omega)]; simp only [Site.add_s]; omega
  · rw [hpa, htgt, hrecs]
    exact h.walk_sh hτ hτs hτn
  · rw [hpa, htgt, hx]; exact hcond _ _ hai hp.sq
  · rw [hpa, htgt, hx]; exact hcond _ _ hui hp.sa
  · rw [hpa, htgt, hx]; exact hcond _ _ hdi hp.su

end Ins

/-! ### appending the inserted record to a section -/

theorem SecAt.snoc {buf : Bytes} {p e : Nat} {rs : List RecL} (h : SecAt buf p rs e) {r : RecL} (hr : RecAt buf r)
    (hs : r.own.s = e) : SecAt buf p (rs ++ [r]) r.stop := by
  induction h with
  | nil => exact SecAt.cons hs hr SecAt.nil
  | cons h1 h2 _ ih => exact SecAt.cons h1 h2 (ih hs)

theorem QSecAt.snoc {buf : Bytes} {p e : Nat} {qs : List Site} (h : QSecAt buf p qs e) {σ : Site} (hs : σ.s = e)
    (hn : NameSite buf σ.s σ.x σ.e) (hb : σ.e + 4 ≤ buf.length) (h1 : u16at buf σ.e < 64) (h2 : u16at buf (σ.e + 2) < 256) :
    QSecAt buf p (qs ++ [σ]) (σ.e + 4) := by
  induction h with
  | nil => exact QSecAt.cons hs hn hb h1 h2 QSecAt.nil
  | cons g1 g2 g3 g4 g5 _ ih => exact QSecAt.cons g1 g2 g3 g4 g5 (ih hs)

theorem recSites_append (a b : List RecL) : recSites (a ++ b) = recSites a ++ recSites b := by
  simp only [recSites, List.flatMap_append]

theorem recSites_single (r : RecL) : recSites [r] = r.sites := by
  simp only [recSites, List.flatMap_cons, List.flatMap_nil, List.append_nil]

end Tins.Dns
