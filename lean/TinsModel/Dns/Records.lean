import TinsModel.Dns.Names
import TinsModel.Dns.Safety
/-
  Records: how the walkers of the model behave on the reference (uncompressed) encoding of a legal record.
-/
set_option linter.unusedSimpArgs false
namespace Tins.Dns
open Out

theorem SRec.wire_eq (r : SRec) : r.wire = wireName r.owner ++ (be16 r.type ++ (be16 r.cls ++ (be32 r.ttl ++
    (be16 r.data.wire.length ++ r.data.wire)))) := by
  simp only [SRec.wire, List.append_assoc]

theorem SRec.wire_length (r : SRec) : r.wire.length = (wireName r.owner).length + 10 + r.data.wire.length := by
  rw [SRec.wire_eq]; simp only [List.length_append, be16_length, be32_length]; omega

theorem SRec.legal_facts {r : SRec} (h : r.legal = true) :
    LabelsOk r.owner ∧ (wireName r.owner).length ≤ 255 ∧ r.type < 65536 ∧ r.cls < 65536 ∧ r.ttl < 4294967296 ∧
    r.data.legal r.type = true := by
  simp only [SRec.legal, Bool.and_eq_true, decide_eq_true_eq] at h
  obtain ⟨⟨⟨⟨h1, h2⟩, h3⟩, h4⟩, h5⟩ := h
  have := (legalName_iff _).1 h1
  exact ⟨this.1, this.2, h2, h3, h4, h5⟩

theorem wireName_le_of_legal {n : Name} (h : legalName n = true) : LabelsOk n ∧ (wireName n).length ≤ 255 :=
  (legalName_iff n).1 h

theorem SData.wire_lt {t : Nat} {d : SData} (h : d.legal t = true) : d.wire.length < 65536 := by
  cases d with
  | a addr => simp only [SData.legal, Bool.and_eq_true, beq_iff_eq] at h; simp only [SData.wire]; omega
  | aaaa addr => simp only [SData.legal, Bool.and_eq_true, beq_iff_eq] at h; simp only [SData.wire]; omega
  | name n =>
    simp only [SData.legal, Bool.and_eq_true] at h
    have := (wireName_le_of_legal h.2).2
    simp only [SData.wire]; omega
  | mx p n =>
    simp only [SData.legal, Bool.and_eq_true] at h
    have := (wireName_le_of_legal h.2).2
    simp only [SData.wire, List.length_append, be16_length]; omega
  | soa m r tail =>
    simp only [SData.legal, Bool.and_eq_true, beq_iff_eq] at h
    have h1 := (wireName_le_of_legal h.1.1.2).2
    have h2 := (wireName_le_of_legal h.1.2).2
    simp only [SData.wire, List.length_append]; omega
  | raw b =>
    simp only [SData.legal, Bool.and_eq_true, decide_eq_true_eq] at h
    simp only [SData.wire]; omega

/-! ### `convert_records` -/

theorem convertData_wire (recs : Bytes) (dname : Bytes) (o : Name) (t c ttl : Nat) (d : SData) (s : Stream) (rest : Bytes)
    (hat : At recs s.pos (d.wire ++ rest)) (hd : d.legal t = true) (hr : d.wire.length ≤ s.rem) :
    convertData recs dname t c ttl d.wire.length s =
      ok ({ SRec.view ⟨o, t, c, ttl, d⟩ with name := cstr dname }, ⟨s.pos + d.wire.length, s.rem - d.wire.length⟩) := by
  cases d with
  | a addr =>
    simp only [SData.legal, Bool.and_eq_true, beq_iff_eq] at hd
    obtain ⟨ht, hlen⟩ := hd
    subst ht
    simp only [SData.wire] at hat hr ⊢
    have h := At.readBytes_eq hat hr
    rw [hlen] at h
    simp [convertData, mxPref, tA, tMX, tAAAA, SRec.view, Nat.not_lt.2 hr, h, hlen]
    omega
  | aaaa addr =>
    simp only [SData.legal, Bool.and_eq_true, beq_iff_eq] at hd
    obtain ⟨ht, hlen⟩ := hd
    subst ht
    simp only [SData.wire] at hat hr ⊢
    have h := At.readBytes_eq hat hr
    rw [hlen] at h
    simp [convertData, mxPref, tA, tMX, tAAAA, SRec.view, Nat.not_lt.2 hr, h, hlen]
    omega
  | name n =>
    simp only [SData.legal, Bool.and_eq_true, Bool.or_eq_true, beq_iff_eq] at hd
    obtain ⟨ht, hn⟩ := hd
    obtain ⟨hok, hwl⟩ := wireName_le_of_legal hn
    simp only [SData.wire] at hat hr ⊢
    have h := compose_wire_init hat.left hok hwl
    have hsk : s.skip (wireName n).length = ok ⟨s.pos + (wireName n).length, s.rem - (wireName n).length⟩ := by
      unfold Stream.skip; rw [if_neg (by omega)]
    rcases ht with ((ht | ht) | ht) | ht <;> subst ht <;>
      simp [convertData, mxPref, tA, tMX, tAAAA, tNS, tCNAME, tPTR, tDNAM, tSOA, SRec.view, Nat.not_lt.2 hr, h, hsk,
        cstr_textOf hok]
  | mx p n =>
    simp only [SData.legal, Bool.and_eq_true, beq_iff_eq, decide_eq_true_eq] at hd
    obtain ⟨⟨ht, hp⟩, hn⟩ := hd
    obtain ⟨hok, hwl⟩ := wireName_le_of_legal hn
    subst ht
    simp only [SData.wire, List.append_assoc, List.length_append, be16_length] at hat hr ⊢
    have h1 := At.readBE16_eq hat hp (by omega)
    have hat2 : At recs (s.pos + 2) (wireName n ++ rest) := hat.right
    have h2 := compose_wire_init hat2.left hok hwl
    have hds : (2 + (wireName n).length + 65534) % 65536 = (wireName n).length := by
      have : 2 + (wireName n).length + 65534 = (wireName n).length + 65536 := by omega
      rw [this, Nat.add_mod_right, Nat.mod_eq_of_lt (by omega)]
    have hsk : Stream.skip ⟨s.pos + 2, s.rem - 2⟩ (wireName n).length =
        ok ⟨s.pos + (2 + (wireName n).length), s.rem - (2 + (wireName n).length)⟩ := by
      unfold Stream.skip; dsimp only; rw [if_neg (by omega)]; simp only [Nat.add_assoc, Nat.sub_sub]
    have hlt : ¬ s.rem - 2 < (wireName n).length := by omega
    simp [convertData, mxPref, tA, tMX, tAAAA, tNS, tCNAME, tPTR, tDNAM, tSOA, SRec.view, h1, h2, hds, hsk, hlt,
      cstr_textOf hok]
  | soa m r tail =>
    simp only [SData.legal, Bool.and_eq_true, beq_iff_eq] at hd
    obtain ⟨⟨⟨ht, hm⟩, hrn⟩, htl⟩ := hd
    obtain ⟨hokm, hwlm⟩ := wireName_le_of_legal hm
    obtain ⟨hokr, hwlr⟩ := wireName_le_of_legal hrn
    subst ht
    simp only [SData.wire, List.append_assoc, List.length_append] at hat hr ⊢
    have h1 := composeSkip_wire hat hokm hwlm (by omega)
    have hat2 : At recs (s.pos + (wireName m).length) (wireName r ++ (tail ++ rest)) := hat.right
    have h2 := composeSkip_wire (s := ⟨s.pos + (wireName m).length, s.rem - (wireName m).length⟩) hat2 hokr hwlr
      (by dsimp only; omega)
    have hat3 : At recs (s.pos + (wireName m).length + (wireName r).length) (tail ++ rest) := hat2.right
    have h3 := At.readBytes_eq (s := ⟨s.pos + (wireName m).length + (wireName r).length,
      s.rem - (wireName m).length - (wireName r).length⟩) hat3 (by dsimp only; omega)
    rw [htl] at h3
    dsimp only at h2 h3
    have hlt : ¬ s.rem < (wireName m).length + ((wireName r).length + tail.length) := by omega
    simp [convertData, mxPref, tA, tMX, tAAAA, tNS, tCNAME, tPTR, tDNAM, tSOA, SRec.view, h1, h2, h3, hlt,
      cstr_textOf hokm, cstr_textOf hokr, encode_textOf hokm, encode_textOf hokr, htl]
    rw [if_neg (by omega)]
    simp only [Nat.add_assoc, Nat.sub_sub]
  | raw b =>
    simp only [SData.legal, Bool.and_eq_true, Bool.not_eq_true', Bool.or_eq_false_iff, beq_eq_false_iff_ne,
      decide_eq_true_eq] at hd
    simp only [SData.wire] at hat hr ⊢
    have h := At.readBytes_eq hat hr
    obtain ⟨⟨⟨⟨⟨⟨⟨⟨h1, h2⟩, h3⟩, h4⟩, h5⟩, h6⟩, h7⟩, h8⟩, _⟩ := hd
    simp [convertData, mxPref, SRec.view, Nat.not_lt.2 hr, h, h1, h2, h3, h4, h5, h6, h7, h8]

theorem convertOne_wire {recs : Bytes} {s : Stream} {r : SRec} {rest : Bytes}
    (hat : At recs s.pos (r.wire ++ rest)) (hl : r.legal = true) (hr : r.wire.length ≤ s.rem) :
    convertOne recs s = ok (r.view, ⟨s.pos + r.wire.length, s.rem - r.wire.length⟩) := by
  obtain ⟨hok, hwl, ht, hc, httl, hd⟩ := SRec.legal_facts hl
  have hdl := SData.wire_lt hd
  rw [SRec.wire_length] at hr ⊢
  rw [SRec.wire_eq] at hat
  simp only [List.append_assoc] at hat
  unfold convertOne
  rw [composeSkip_wire hat hok hwl (by omega)]; simp only [Out.ok_bind]
  have hat1 := hat.right
  rw [At.readBE16_eq (s := ⟨s.pos + (wireName r.owner).length, s.rem - (wireName r.owner).length⟩) hat1 ht
    (by dsimp only; omega)]
  simp only [Out.ok_bind]
  have hat2 := hat1.right
  rw [At.readBE16_eq (s := ⟨s.pos + (wireName r.owner).length + 2, s.rem - (wireName r.owner).length - 2⟩) hat2 hc
    (by dsimp only; omega)]
  simp only [Out.ok_bind]
  have hat3 := hat2.right
  rw [At.readBE32_eq (s := ⟨s.pos + (wireName r.owner).length + 2 + 2, s.rem - (wireName r.owner).length - 2 - 2⟩)
    hat3 httl (by dsimp only; omega)]
  simp only [Out.ok_bind]
  have hat4 := hat3.right
  rw [At.readBE16_eq (s := ⟨s.pos + (wireName r.owner).length + 2 + 2 + 4,
    s.rem - (wireName r.owner).length - 2 - 2 - 4⟩) hat4 hdl (by dsimp only; omega)]
  simp only [Out.ok_bind]
  have hat5 := hat4.right
  simp only [be16_length, be32_length] at hat5
  rw [convertData_wire recs _ r.owner r.type r.cls r.ttl r.data _ rest hat5 hd (by dsimp only; omega)]
  simp only [cstr_textOf hok]
  have hv : ({ SRec.view ⟨r.owner, r.type, r.cls, r.ttl, r.data⟩ with name := textOf r.owner } : Resource) = r.view := by
    cases r with
    | mk o t c ttl d => cases d <;> rfl
  rw [hv]
  congr 3 <;> omega

theorem wireRecs_cons (r : SRec) (rs : List SRec) : wireRecs (r :: rs) = r.wire ++ wireRecs rs := by
  simp only [wireRecs, List.flatMap_cons]

theorem wireRecs_append (a b : List SRec) : wireRecs (a ++ b) = wireRecs a ++ wireRecs b := by
  simp only [wireRecs, List.flatMap_append]

@[simp] theorem wireRecs_nil : wireRecs [] = [] := rfl

theorem convertLoop_wire (recs : Bytes) : ∀ (rs : List SRec) (s : Stream) (rest : Bytes),
    At recs s.pos (wireRecs rs ++ rest) → (∀ r ∈ rs, r.legal = true) → s.rem = (wireRecs rs).length →
    convertLoop recs rs.length s = ok (rs.map SRec.view)
  | [], _, _, _, _, _ => rfl
  | r :: rs, s, rest, hat, hl, hr => by
    rw [wireRecs_cons, List.append_assoc] at hat
    rw [wireRecs_cons, List.length_append] at hr
    have hw := SRec.wire_length r
    simp only [List.length_cons]
    unfold convertLoop
    rw [if_neg (by omega), convertOne_wire hat (hl r List.mem_cons_self) (by omega)]
    simp only [Out.ok_bind]
    rw [convertLoop_wire recs rs ⟨s.pos + r.wire.length, s.rem - r.wire.length⟩ rest hat.right
      (fun x hx => hl x (List.mem_cons_of_mem _ hx)) (by dsimp only; omega)]
    rfl

/-! ### `update_records` leaves uncompressed records alone -/

theorem At.rd16 {buf : Bytes} {p v : Nat} {rest : Bytes} (h : At buf p (be16 v ++ rest)) (hv : v < 65536) :
    ∃ hi lo, rd buf p = ok hi ∧ rd buf (p + 1) = ok lo ∧ hi * 256 + lo = v := by
  refine ⟨_, _, At.rd_eq (b := UInt8.ofNat (v % 256) :: rest) h, At.rd_eq (b := rest) (At.tail h), be16_val hv⟩

theorem updateRdata_wire (thr off : Nat) (data : Bytes) (t : Nat) (d : SData) (p : Nat) (rest : Bytes)
    (hat : At data p (d.wire ++ rest)) (hd : d.legal t = true) :
    updateRdata thr off t data (if t = tMX then p + 2 else p) (p + d.wire.length) = ok data := by
  cases d with
  | a addr =>
    simp only [SData.legal, Bool.and_eq_true, beq_iff_eq] at hd
    simp [updateRdata, containsDname, hd.1, tA, tMX, tCNAME, tPTR, tNS, tDNAM, tSOA]
  | aaaa addr =>
    simp only [SData.legal, Bool.and_eq_true, beq_iff_eq] at hd
    simp [updateRdata, containsDname, hd.1, tAAAA, tMX, tCNAME, tPTR, tNS, tDNAM, tSOA]
  | name n =>
    simp only [SData.legal, Bool.and_eq_true, Bool.or_eq_true, beq_iff_eq] at hd
    obtain ⟨ht, hn⟩ := hd
    obtain ⟨hok, hwl⟩ := wireName_le_of_legal hn
    simp only [SData.wire] at hat ⊢
    have hf := wireName_length_pos n
    have h := updateDname_wire thr off data n (wireName n).length p (p + (wireName n).length) hat.left hok
      (Nat.le_refl _) (by omega)
    rcases ht with ((ht | ht) | ht) | ht <;> subst ht <;>
      simp [updateRdata, containsDname, tMX, tCNAME, tPTR, tNS, tDNAM, tSOA, h]
  | mx pf n =>
    simp only [SData.legal, Bool.and_eq_true, beq_iff_eq, decide_eq_true_eq] at hd
    obtain ⟨⟨ht, hp⟩, hn⟩ := hd
    obtain ⟨hok, hwl⟩ := wireName_le_of_legal hn
    subst ht
    simp only [SData.wire, List.append_assoc, List.length_append, be16_length] at hat ⊢
    have hf := wireName_length_pos n
    have hat2 : At data (p + 2) (wireName n ++ rest) := hat.right
    have h := updateDname_wire thr off data n (wireName n).length (p + 2)
      (p + (2 + (wireName n).length)) hat2.left hok (by omega) (by omega)
    have e : p + (2 + (wireName n).length) - (p + 2) = (wireName n).length := by omega
    simp [updateRdata, containsDname, tMX, h, e]
  | soa m r tail =>
    simp only [SData.legal, Bool.and_eq_true, beq_iff_eq] at hd
    obtain ⟨⟨⟨ht, hm⟩, hrn⟩, htl⟩ := hd
    obtain ⟨hokm, hwlm⟩ := wireName_le_of_legal hm
    obtain ⟨hokr, hwlr⟩ := wireName_le_of_legal hrn
    subst ht
    simp only [SData.wire, List.append_assoc, List.length_append] at hat ⊢
    have hfm := wireName_length_pos m
    have hfr := wireName_length_pos r
    have h1 := updateDname_wire thr off data m
      ((wireName m).length + ((wireName r).length + tail.length)) p
      (p + ((wireName m).length + ((wireName r).length + tail.length))) hat.left hokm (by omega) (by omega)
    have hat2 : At data (p + (wireName m).length) (wireName r ++ (tail ++ rest)) := hat.right
    have h2 := updateDname_wire thr off data r
      ((wireName r).length + tail.length)
      (p + (wireName m).length)
      (p + ((wireName m).length + ((wireName r).length + tail.length))) hat2.left hokr (by omega) (by omega)
    have e : p + ((wireName m).length + ((wireName r).length + tail.length)) - (p + (wireName m).length) =
        (wireName r).length + tail.length := by omega
    simp [updateRdata, containsDname, tMX, tCNAME, tPTR, tNS, tDNAM, tSOA, h1, h2, e]
  | raw b =>
    simp only [SData.legal, Bool.and_eq_true, Bool.not_eq_true', Bool.or_eq_false_iff, beq_eq_false_iff_ne,
      decide_eq_true_eq] at hd
    obtain ⟨⟨⟨⟨⟨⟨⟨⟨h1, h2⟩, h3⟩, h4⟩, h5⟩, h6⟩, h7⟩, h8⟩, _⟩ := hd
    simp [updateRdata, containsDname, h1, h2, h3, h4, h5, h6, h7, h8]

theorem updateLoop_wire (thr off : Nat) (data : Bytes) : ∀ (rs : List SRec) (p : Nat) (rest : Bytes),
    At data p (wireRecs rs ++ rest) → (∀ r ∈ rs, r.legal = true) →
    updateLoop thr off rs.length data p = ok (data, p + (wireRecs rs).length)
  | [], _, _, _, _ => rfl
  | r :: rs, p, rest, hat, hl => by
    obtain ⟨hok, hwl, ht, hc, httl, hd⟩ := SRec.legal_facts (hl r List.mem_cons_self)
    have hdl := SData.wire_lt hd
    rw [wireRecs_cons, List.append_assoc, SRec.wire_eq] at hat
    simp only [List.append_assoc] at hat
    have hb := hat.bound
    simp only [List.length_append, be16_length, be32_length] at hb
    have hf := wireName_length_pos r.owner
    simp only [List.length_cons]
    unfold updateLoop
    rw [updateDname_wire thr off data r.owner (data.length - p) p data.length hat.left hok (by omega) (by omega)]
    simp only [Out.ok_bind]
    rw [if_neg (by omega)]
    have hat1 := hat.right
    obtain ⟨thi, tlo, e1, e2, e3⟩ := At.rd16 hat1 ht
    have hat4 := hat1.right.right.right
    simp only [be16_length, be32_length] at hat4
    obtain ⟨shi, slo, e4, e5, e6⟩ := At.rd16 hat4 hdl
    rw [show p + (wireName r.owner).length + 2 + 2 + 4 = p + (wireName r.owner).length + 8 by omega] at e4
    rw [show p + (wireName r.owner).length + 2 + 2 + 4 + 1 = p + (wireName r.owner).length + 9 by omega] at e5
    rw [e1]; simp only [Out.ok_bind]
    rw [e2]; simp only [Out.ok_bind]
    rw [e4]; simp only [Out.ok_bind]
    rw [e5]; simp only [Out.ok_bind]
    rw [e3, e6]
    rw [if_neg (by omega)]
    have hmx : ¬ (r.type = tMX ∧ r.data.wire.length < 2) := by
      rintro ⟨h1, h2⟩
      cases hdata : r.data with
      | mx pf n =>
        rw [hdata] at h2
        simp only [SData.wire, List.length_append, be16_length] at h2
        omega
      | _ => rw [hdata] at hd; simp [SData.legal, h1, tMX, tA, tAAAA, tNS, tCNAME, tPTR, tDNAM, tSOA] at hd
    rw [if_neg hmx]
    have hat5 := hat4.right
    simp only [be16_length] at hat5
    have hu := updateRdata_wire thr off data r.type r.data (p + (wireName r.owner).length + 10) (wireRecs rs ++ rest)
      (by rwa [show p + (wireName r.owner).length + 2 + 2 + 4 + 2 = p + (wireName r.owner).length + 10 by omega] at hat5) hd
    rw [hu]; simp only [Out.ok_bind]
    have hat6 : At data (p + (wireName r.owner).length + 10 + r.data.wire.length) (wireRecs rs ++ rest) := by
      have := hat5.right
      rwa [show p + (wireName r.owner).length + 2 + 2 + 4 + 2 = p + (wireName r.owner).length + 10 by omega] at this
    rw [updateLoop_wire thr off data rs _ rest hat6 (fun x hx => hl x (List.mem_cons_of_mem _ hx))]
    rw [wireRecs_cons, List.length_append, SRec.wire_length]
    congr 2; omega

/-! ### the constructor's walk and `queries` -/

theorem SQuery.wire_eq (q : SQuery) : q.wire = wireName q.name ++ (be16 q.type ++ be16 q.cls) := by
  simp only [SQuery.wire, List.append_assoc]

theorem SQuery.wire_length (q : SQuery) : q.wire.length = (wireName q.name).length + 4 := by
  rw [SQuery.wire_eq]; simp only [List.length_append, be16_length]

theorem SQuery.legal_facts {q : SQuery} (h : q.legal = true) :
    LabelsOk q.name ∧ (wireName q.name).length ≤ 255 ∧ q.type < 65536 ∧ q.cls < 65536 := by
  simp only [SQuery.legal, Bool.and_eq_true, decide_eq_true_eq] at h
  obtain ⟨⟨h1, h2⟩, h3⟩ := h
  have := (legalName_iff _).1 h1
  exact ⟨this.1, this.2, h2, h3⟩

theorem wireQs_cons (q : SQuery) (qs : List SQuery) : wireQs (q :: qs) = q.wire ++ wireQs qs := by
  simp only [wireQs, List.flatMap_cons]

theorem wireQs_append (a b : List SQuery) : wireQs (a ++ b) = wireQs a ++ wireQs b := by
  simp only [wireQs, List.flatMap_append]

@[simp] theorem wireQs_nil : wireQs [] = [] := rfl

theorem wireQs_length_ge (qs : List SQuery) : qs.length ≤ (wireQs qs).length := by
  induction qs with
  | nil => simp
  | cons q r ih => rw [wireQs_cons, List.length_append, SQuery.wire_length, List.length_cons]; omega

theorem skipQuestions_wire (buf : Bytes) : ∀ (qs : List SQuery) (s : Stream) (rest : Bytes),
    At buf s.pos (wireQs qs ++ rest) → (∀ q ∈ qs, q.legal = true) → (wireQs qs).length ≤ s.rem →
    skipQuestions buf qs.length s = ok ⟨s.pos + (wireQs qs).length, s.rem - (wireQs qs).length⟩
  | [], s, _, _, _, _ => by simp [skipQuestions]
  | q :: qs, s, rest, hat, hl, hr => by
    obtain ⟨hok, hwl, ht, hc⟩ := SQuery.legal_facts (hl q List.mem_cons_self)
    rw [wireQs_cons, List.append_assoc, SQuery.wire_eq] at hat
    simp only [List.append_assoc] at hat
    rw [wireQs_cons, List.length_append, SQuery.wire_length] at hr
    have hf := wireName_length_pos q.name
    simp only [List.length_cons]
    unfold skipQuestions
    rw [skipDname_wire buf q.name s.rem s hat.left hok (by omega) (by omega)]
    simp only [Out.ok_bind]
    unfold Stream.skip
    dsimp only
    rw [if_neg (by omega)]
    simp only [Out.ok_bind]
    have hat2 : At buf (s.pos + (wireName q.name).length + 4) (wireQs qs ++ rest) := by
      have := hat.right.right.right
      simpa only [be16_length, Nat.add_assoc] using this
    rw [skipQuestions_wire buf qs ⟨s.pos + (wireName q.name).length + 4, s.rem - (wireName q.name).length - 4⟩ rest hat2
      (fun x hx => hl x (List.mem_cons_of_mem _ hx)) (by dsimp only; omega)]
    rw [wireQs_cons, List.length_append, SQuery.wire_length]
    dsimp only
    congr 2 <;> omega

theorem skipSection_wire (buf : Bytes) : ∀ (rs : List SRec) (s : Stream) (rest : Bytes),
    At buf s.pos (wireRecs rs ++ rest) → (∀ r ∈ rs, r.legal = true) → (wireRecs rs).length ≤ s.rem →
    skipSection buf rs.length s = ok ⟨s.pos + (wireRecs rs).length, s.rem - (wireRecs rs).length⟩
  | [], s, _, _, _, _ => by simp [skipSection]
  | r :: rs, s, rest, hat, hl, hr => by
    obtain ⟨hok, hwl, ht, hc, httl, hd⟩ := SRec.legal_facts (hl r List.mem_cons_self)
    have hdl := SData.wire_lt hd
    rw [wireRecs_cons, List.append_assoc, SRec.wire_eq] at hat
    simp only [List.append_assoc] at hat
    rw [wireRecs_cons, List.length_append, SRec.wire_length] at hr
    have hf := wireName_length_pos r.owner
    simp only [List.length_cons]
    unfold skipSection
    rw [skipDname_wire buf r.owner s.rem s hat.left hok (by omega) (by omega)]
    simp only [Out.ok_bind]
    unfold Stream.skip
    dsimp only
    rw [if_neg (by omega)]
    simp only [Out.ok_bind]
    have hat4 : At buf (s.pos + (wireName r.owner).length + 8) (be16 r.data.wire.length ++ (r.data.wire ++ (wireRecs rs ++ rest))) := by
      have := hat.right.right.right.right
      simpa only [be16_length, be32_length, Nat.add_assoc] using this
    rw [At.readBE16_eq (s := ⟨s.pos + (wireName r.owner).length + 8, s.rem - (wireName r.owner).length - 8⟩) hat4 hdl
      (by dsimp only; omega)]
    simp only [Out.ok_bind]
    rw [if_neg (by omega), if_neg (by omega)]
    simp only [Out.ok_bind]
    have hat6 : At buf (s.pos + (wireName r.owner).length + 8 + 2 + r.data.wire.length) (wireRecs rs ++ rest) := by
      have := hat4.right.right
      simpa only [be16_length] using this
    rw [skipSection_wire buf rs _ rest hat6 (fun x hx => hl x (List.mem_cons_of_mem _ hx)) (by dsimp only; omega)]
    rw [wireRecs_cons, List.length_append, SRec.wire_length]
    dsimp only
    congr 2 <;> omega

/-- the question's type / class are values of the enums `QueryType` / `QueryClass` (see KF-C10-1) -/
def SQuery.inEnumRange (q : SQuery) : Bool := decide (q.type < 64) && decide (q.cls < 256)

theorem queriesLoop_wire (recs : Bytes) : ∀ (qs : List SQuery) (f : Nat) (s : Stream) (rest : Bytes),
    At recs s.pos (wireQs qs ++ rest) → (∀ q ∈ qs, q.legal = true ∧ q.inEnumRange = true) →
    s.rem = (wireQs qs).length → qs.length ≤ f →
    queriesLoop recs f s = ok (qs.map SQuery.view)
  | [], 0, _, _, _, _, _, _ => rfl
  | [], f + 1, s, _, _, _, hr, _ => by
    unfold queriesLoop
    rw [if_pos (by simpa using hr)]
    rfl
  | q :: qs, 0, _, _, _, _, _, hf => by simp at hf
  | q :: qs, f + 1, s, rest, hat, hl, hr, hf => by
    obtain ⟨hq, he⟩ := hl q List.mem_cons_self
    obtain ⟨hok, hwl, ht, hc⟩ := SQuery.legal_facts hq
    simp only [SQuery.inEnumRange, Bool.and_eq_true, decide_eq_true_eq] at he
    rw [wireQs_cons, List.append_assoc, SQuery.wire_eq] at hat
    simp only [List.append_assoc] at hat
    rw [wireQs_cons, List.length_append, SQuery.wire_length] at hr
    unfold queriesLoop
    rw [if_neg (by omega), composeSkip_wire hat hok hwl (by omega)]
    simp only [Out.ok_bind]
    have hat1 := hat.right
    rw [At.readBE16_eq (s := ⟨s.pos + (wireName q.name).length, s.rem - (wireName q.name).length⟩) hat1 ht
      (by dsimp only; omega)]
    simp only [Out.ok_bind]
    have hat2 := hat1.right
    rw [At.readBE16_eq (s := ⟨s.pos + (wireName q.name).length + 2, s.rem - (wireName q.name).length - 2⟩) hat2 hc
      (by dsimp only; omega)]
    simp only [Out.ok_bind]
    unfold enumLoad
    rw [if_pos he]
    simp only [Out.ok_bind]
    have hat3 := hat2.right
    simp only [be16_length] at hat3
    rw [queriesLoop_wire recs qs f _ rest hat3 (fun x hx => hl x (List.mem_cons_of_mem _ hx)) (by dsimp only; omega)
      (by simp only [List.length_cons] at hf; omega)]
    simp only [Out.ok_bind, List.map_cons, cstr_textOf hok]
    rfl

/-! ### what `add_record` writes for a legal record is its reference encoding -/

theorem recordBytes_toNew {r : SRec} (hl : r.legal = true) (txt : Bytes) : recordBytes (r.toNew txt) = ok r.wire := by
  obtain ⟨hok, hwl, ht, hc, httl, hd⟩ := SRec.legal_facts hl
  cases r with
  | mk o t c ttl d =>
    dsimp only at hok hwl ht hc httl hd
    cases d with
    | a addr =>
      simp only [SData.legal, Bool.and_eq_true, beq_iff_eq] at hd
      obtain ⟨h1, h2⟩ := hd
      subst h1
      simp [recordBytes, recordPayload, SRec.toNew, SRec.wire, SData.wire, encode_textOf hok, tA, tMX, h2]
    | aaaa addr =>
      simp only [SData.legal, Bool.and_eq_true, beq_iff_eq] at hd
      obtain ⟨h1, h2⟩ := hd
      subst h1
      simp [recordBytes, recordPayload, SRec.toNew, SRec.wire, SData.wire, encode_textOf hok, tA, tAAAA, tMX, h2]
    | name n =>
      simp only [SData.legal, Bool.and_eq_true, Bool.or_eq_true, beq_iff_eq] at hd
      obtain ⟨h1, hn⟩ := hd
      obtain ⟨hokn, hwln⟩ := wireName_le_of_legal hn
      have hm : (wireName n).length % 65536 = (wireName n).length := Nat.mod_eq_of_lt (by omega)
      rcases h1 with ((h1 | h1) | h1) | h1 <;> subst h1 <;>
        simp [recordBytes, recordPayload, SRec.toNew, SRec.wire, SData.wire, encode_textOf hok, encode_textOf hokn,
          containsDname, tA, tAAAA, tMX, tNS, tCNAME, tPTR, tDNAM, hm]
    | mx pf n =>
      simp only [SData.legal, Bool.and_eq_true, beq_iff_eq, decide_eq_true_eq] at hd
      obtain ⟨⟨h1, hp⟩, hn⟩ := hd
      obtain ⟨hokn, hwln⟩ := wireName_le_of_legal hn
      subst h1
      have hm : ((wireName n).length + 2) % 65536 = 2 + (wireName n).length := by
        rw [Nat.mod_eq_of_lt (by omega)]; omega
      simp [recordBytes, recordPayload, SRec.toNew, SRec.wire, SData.wire, encode_textOf hok, encode_textOf hokn,
        containsDname, tA, tAAAA, tMX, hm]
    | soa m rn tail =>
      simp only [SData.legal, Bool.and_eq_true, beq_iff_eq] at hd
      obtain ⟨⟨⟨h1, hm⟩, hrn⟩, htl⟩ := hd
      have h1' := (wireName_le_of_legal hm).2
      have h2' := (wireName_le_of_legal hrn).2
      subst h1
      have hmod : ((wireName m).length + ((wireName rn).length + tail.length)) % 65536 =
          (wireName m).length + ((wireName rn).length + tail.length) := Nat.mod_eq_of_lt (by omega)
      simp [recordBytes, recordPayload, SRec.toNew, SRec.wire, SData.wire, encode_textOf hok,
        containsDname, tA, tAAAA, tMX, tNS, tCNAME, tPTR, tDNAM, tSOA, hmod]
    | raw b =>
      simp only [SData.legal, Bool.and_eq_true, Bool.not_eq_true', Bool.or_eq_false_iff, beq_eq_false_iff_ne,
        decide_eq_true_eq] at hd
      obtain ⟨⟨⟨⟨⟨⟨⟨⟨h1, h2⟩, h3⟩, h4⟩, h5⟩, h6⟩, h7⟩, h8⟩, hb⟩ := hd
      have hmod : b.length % 65536 = b.length := Nat.mod_eq_of_lt hb
      simp [recordBytes, recordPayload, SRec.toNew, SRec.wire, SData.wire, encode_textOf hok,
        containsDname, h1, h2, h3, h4, h5, h6, h7, h8, hmod]

end Tins.Dns
