import TinsModel.Dns.Records
/-
  Refinement: the object that represents abstract sections `S` without compression is `mkMsg hdr S`;
  the getters of `mkMsg hdr S` return the views of `S`, every legal insertion maps `mkMsg hdr S` to
  `mkMsg hdr (S + record)`, and `parse (refEncode hdr S) = mkMsg hdr S`.
-/
set_option linter.unusedSimpArgs false
namespace Tins.Dns
open Out

/-- the object state that stands for the sections `S` (no compression) -/
def mkMsg (hdr : Bytes) (S : Sections) : Msg :=
  { hdr := hdr, q := S.qs.length, an := S.an.length, au := S.au.length, ad := S.ad.length,
    recs := wireQs S.qs ++ (wireRecs S.an ++ (wireRecs S.au ++ wireRecs S.ad)),
    ai := (wireQs S.qs).length,
    ui := (wireQs S.qs).length + (wireRecs S.an).length,
    di := (wireQs S.qs).length + (wireRecs S.an).length + (wireRecs S.au).length }

/-- every record is legal; question types / classes are values of libtins' enums (KF-C10-1) -/
structure Sections.Legal (S : Sections) : Prop where
  qs : ∀ q ∈ S.qs, q.legal = true ∧ q.inEnumRange = true
  an : ∀ r ∈ S.an, r.legal = true
  au : ∀ r ∈ S.au, r.legal = true
  ad : ∀ r ∈ S.ad, r.legal = true

/-- the 16-bit header counts can hold the section sizes -/
def Sections.Small (S : Sections) : Prop :=
  S.qs.length < 65536 ∧ S.an.length < 65536 ∧ S.au.length < 65536 ∧ S.ad.length < 65536

theorem mkMsg_fresh : mkMsg [0, 0, 0, 0] {} = {} := rfl

theorem wireRecs_length_ge (rs : List SRec) : rs.length ≤ (wireRecs rs).length := by
  induction rs with
  | nil => simp
  | cons r rs ih => rw [wireRecs_cons, List.length_append, SRec.wire_length, List.length_cons]; omega

theorem At.zero (a b : Bytes) : At (a ++ b) 0 (a ++ b) := ⟨[], [], by simp, rfl⟩
theorem At.mid (a b c : Bytes) : At (a ++ (b ++ c)) a.length (b ++ c) := ⟨a, [], by simp, rfl⟩

/-! ### getters -/

theorem queries_mkMsg (hdr : Bytes) {S : Sections} (hl : S.Legal) : queries (mkMsg hdr S) = ok (S.qs.map SQuery.view) := by
  unfold queries mkMsg
  dsimp only
  split
  · rename_i he
    have : S.qs = [] := by
      cases hq : S.qs with
      | nil => rfl
      | cons q r =>
        rw [hq, wireQs_cons, SQuery.wire_eq] at he
        simp at he
        have := wireName_length_pos q.name
        rw [he.1] at this
        simp at this
    rw [this]; rfl
  · exact queriesLoop_wire _ S.qs _ ⟨0, (wireQs S.qs).length⟩ _ (At.zero _ _) hl.qs rfl (wireQs_length_ge _)

theorem convertRecords_wire (pre : Bytes) (rs : List SRec) (post : Bytes) (hl : ∀ r ∈ rs, r.legal = true) :
    convertRecords (pre ++ (wireRecs rs ++ post)) pre.length (pre.length + (wireRecs rs).length) rs.length =
      ok (rs.map SRec.view) := by
  unfold convertRecords
  rw [if_neg (by omega)]
  exact convertLoop_wire _ rs ⟨pre.length, pre.length + (wireRecs rs).length - pre.length⟩ post (At.mid _ _ _) hl
    (by dsimp only; omega)

theorem rs_nil_of_wire_short {rs : List SRec} (h : (wireRecs rs).length = 0) : rs = [] := by
  have := wireRecs_length_ge rs
  exact List.length_eq_zero_iff.1 (by omega)

theorem answers_mkMsg (hdr : Bytes) {S : Sections} (hl : S.Legal) : answers (mkMsg hdr S) = ok (S.an.map SRec.view) := by
  unfold answers mkMsg
  dsimp only
  split
  · exact convertRecords_wire (wireQs S.qs) S.an _ hl.an
  · rename_i h
    simp only [List.length_append] at h
    rw [rs_nil_of_wire_short (rs := S.an) (by omega)]; rfl

theorem authority_mkMsg (hdr : Bytes) {S : Sections} (hl : S.Legal) : authority (mkMsg hdr S) = ok (S.au.map SRec.view) := by
  unfold authority mkMsg
  dsimp only
  split
  · have := convertRecords_wire (wireQs S.qs ++ wireRecs S.an) S.au (wireRecs S.ad) hl.au
    simp only [List.append_assoc, List.length_append] at this
    exact this
  · rename_i h
    simp only [List.length_append] at h
    rw [rs_nil_of_wire_short (rs := S.au) (by omega)]; rfl

theorem additional_mkMsg (hdr : Bytes) {S : Sections} (hl : S.Legal) : additional (mkMsg hdr S) = ok (S.ad.map SRec.view) := by
  unfold additional mkMsg
  dsimp only
  split
  · have := convertRecords_wire (wireQs S.qs ++ (wireRecs S.an ++ wireRecs S.au)) S.ad [] hl.ad
    simp only [List.append_assoc, List.length_append, List.append_nil] at this
    simp only [List.length_append]
    rw [← this]
    congr 1 <;> omega
  · rename_i h
    simp only [List.length_append] at h
    rw [rs_nil_of_wire_short (rs := S.ad) (by omega)]; rfl

/-! ### insertion -/

theorem updateRecords_wire (thr off : Nat) (pre : Bytes) (rs : List SRec) (post : Bytes) (hl : ∀ r ∈ rs, r.legal = true) :
    updateRecords (pre ++ (wireRecs rs ++ post)) pre.length rs.length thr off =
      ok (pre ++ (wireRecs rs ++ post), pre.length + off) := by
  unfold updateRecords
  split
  · rw [updateLoop_wire thr off _ rs pre.length post (At.mid _ _ _) hl]; rfl
  · rfl

theorem insertAt_append (a b ins : Bytes) : insertAt (a ++ b) a.length ins = ok (a ++ ins ++ b) := by
  unfold insertAt
  rw [if_pos (by simp), List.take_left, List.drop_left]

theorem addRecord_mkMsg (hdr : Bytes) {S : Sections} (hl : S.Legal) (sec : Section) {r : SRec} (hr : r.legal = true)
    (txt : Bytes) (hsmall : (S.add sec r).Small) :
    addRecord (mkMsg hdr S) sec (r.toNew txt) = ok (mkMsg hdr (S.add sec r)) := by
  unfold addRecord
  rw [recordBytes_toNew hr txt]
  simp only [Out.ok_bind]
  unfold Sections.Small at hsmall
  cases sec with
  | answer =>
    simp only [Sections.add, List.length_append, List.length_cons, List.length_nil] at hsmall
    dsimp only [mkMsg]
    have h1 := updateRecords_wire ((wireQs S.qs).length + (wireRecs S.an).length) r.wire.length
      (wireQs S.qs ++ wireRecs S.an) S.au (wireRecs S.ad) hl.au
    simp only [List.append_assoc, List.length_append] at h1
    rw [h1]; simp only [Out.ok_bind]
    have h2 := updateRecords_wire ((wireQs S.qs).length + (wireRecs S.an).length) r.wire.length
      (wireQs S.qs ++ (wireRecs S.an ++ wireRecs S.au)) S.ad [] hl.ad
    simp only [List.append_assoc, List.length_append, List.append_nil, ← Nat.add_assoc] at h2
    rw [h2]; simp only [Out.ok_bind]
    have h3 := insertAt_append (wireQs S.qs ++ wireRecs S.an) (wireRecs S.au ++ wireRecs S.ad) r.wire
    simp only [List.append_assoc, List.length_append] at h3
    rw [h3]; simp only [Out.ok_bind]
    simp only [mkMsg, Sections.add, wireRecs_append, wireRecs_cons, wireRecs_nil, List.append_nil, List.append_assoc,
      List.length_append, List.length_cons, List.length_nil]
    rw [Nat.mod_eq_of_lt (by omega)]
    congr 2 <;> omega
  | authority =>
    simp only [Sections.add, List.length_append, List.length_cons, List.length_nil] at hsmall
    dsimp only [mkMsg]
    have h2 := updateRecords_wire ((wireQs S.qs).length + (wireRecs S.an).length + (wireRecs S.au).length) r.wire.length
      (wireQs S.qs ++ (wireRecs S.an ++ wireRecs S.au)) S.ad [] hl.ad
    simp only [List.append_assoc, List.length_append, List.append_nil, ← Nat.add_assoc] at h2
    rw [h2]; simp only [Out.ok_bind]
    have h3 := insertAt_append (wireQs S.qs ++ (wireRecs S.an ++ wireRecs S.au)) (wireRecs S.ad) r.wire
    simp only [List.append_assoc, List.length_append, ← Nat.add_assoc] at h3
    rw [h3]; simp only [Out.ok_bind]
    simp only [mkMsg, Sections.add, wireRecs_append, wireRecs_cons, wireRecs_nil, List.append_nil, List.append_assoc,
      List.length_append, List.length_cons, List.length_nil]
    rw [Nat.mod_eq_of_lt (by omega)]
    congr 2 <;> omega
  | additional =>
    simp only [Sections.add, List.length_append, List.length_cons, List.length_nil] at hsmall
    dsimp only [mkMsg]
    have h3 := insertAt_append (wireQs S.qs ++ (wireRecs S.an ++ (wireRecs S.au ++ wireRecs S.ad))) [] r.wire
    simp only [List.append_nil] at h3
    rw [h3]; simp only [Out.ok_bind]
    simp only [mkMsg, Sections.add, wireRecs_append, wireRecs_cons, wireRecs_nil, List.append_nil, List.append_assoc,
      List.length_append, List.length_cons, List.length_nil]
    rw [Nat.mod_eq_of_lt (by omega)]

theorem addQuery_mkMsg (hdr : Bytes) {S : Sections} (hl : S.Legal) {q : SQuery} (hq : q.legal = true)
    (he : q.inEnumRange = true) (hsmall : (S.addQ q).Small) :
    addQuery (mkMsg hdr S) q.toNew = ok (mkMsg hdr (S.addQ q)) := by
  obtain ⟨hok, hwl, ht, hc⟩ := SQuery.legal_facts hq
  unfold Sections.Small at hsmall
  simp only [Sections.addQ, List.length_append, List.length_cons, List.length_nil] at hsmall
  simp only [SQuery.inEnumRange, Bool.and_eq_true, decide_eq_true_eq] at he
  have he' : q.toNew.type < 64 ∧ q.toNew.cls < 256 := he
  unfold addQuery enumLoad
  rw [if_pos he']
  simp only [Out.ok_bind]
  simp only [SQuery.toNew, encode_textOf hok]
  dsimp only [mkMsg]
  have hw : wireName q.name ++ be16 q.type ++ be16 q.cls = q.wire := rfl
  rw [hw]
  have h0 := updateRecords_wire (wireQs S.qs).length q.wire.length (wireQs S.qs) S.an (wireRecs S.au ++ wireRecs S.ad) hl.an
  rw [h0]; simp only [Out.ok_bind]
  have h1 := updateRecords_wire (wireQs S.qs).length q.wire.length
    (wireQs S.qs ++ wireRecs S.an) S.au (wireRecs S.ad) hl.au
  simp only [List.append_assoc, List.length_append] at h1
  rw [h1]; simp only [Out.ok_bind]
  have h2 := updateRecords_wire (wireQs S.qs).length q.wire.length
    (wireQs S.qs ++ (wireRecs S.an ++ wireRecs S.au)) S.ad [] hl.ad
  simp only [List.append_assoc, List.length_append, List.append_nil, ← Nat.add_assoc] at h2
  rw [h2]; simp only [Out.ok_bind]
  have h3 := insertAt_append (wireQs S.qs) (wireRecs S.an ++ (wireRecs S.au ++ wireRecs S.ad)) q.wire
  rw [h3]; simp only [Out.ok_bind]
  simp only [mkMsg, Sections.addQ, wireQs_append, wireQs_cons, wireQs_nil, List.append_nil, List.append_assoc,
    List.length_append, List.length_cons, List.length_nil]
  rw [Nat.mod_eq_of_lt (by omega)]
  congr 2 <;> omega

/-! ### serialize and re-parse -/

theorem serialize_mkMsg (hdr : Bytes) (S : Sections) : serialize (mkMsg hdr S) = refEncode hdr S := by
  simp only [serialize, mkMsg, refEncode, wireSections, List.append_assoc]

theorem u16at_be16 (pre : Bytes) (v : Nat) (post : Bytes) (hv : v < 65536) :
    u16at (pre ++ (be16 v ++ post)) pre.length = v := by
  unfold u16at
  have h1 : (pre ++ (be16 v ++ post)).getD pre.length 0 = UInt8.ofNat (v / 256 % 256) := by
    simp [be16, List.getD_eq_getElem?_getD, List.getElem?_append_right]
  have h2 : (pre ++ (be16 v ++ post)).getD (pre.length + 1) 0 = UInt8.ofNat (v % 256) := by
    simp [be16, List.getD_eq_getElem?_getD, List.getElem?_append_right]
  rw [h1, h2, be16_val hv]

theorem parse_refEncode {hdr : Bytes} (hh : hdr.length = 4) {S : Sections} (hl : S.Legal) (hs : S.Small) :
    parse (refEncode hdr S) = ok (mkMsg hdr S) := by
  obtain ⟨s1, s2, s3, s4⟩ := hs
  unfold parse
  have hlen : ¬ (refEncode hdr S).length < 12 := by
    simp only [refEncode, List.length_append, be16_length, hh]; omega
  rw [if_neg hlen]
  have hdrop : (refEncode hdr S).drop 12 = wireSections S := by
    have : refEncode hdr S = (hdr ++ be16 S.qs.length ++ be16 S.an.length ++ be16 S.au.length ++ be16 S.ad.length) ++
        wireSections S := by simp only [refEncode]
    rw [this]
    have h12 : (hdr ++ be16 S.qs.length ++ be16 S.an.length ++ be16 S.au.length ++ be16 S.ad.length).length = 12 := by
      simp only [List.length_append, be16_length, hh]
    rw [← h12, List.drop_left]
  have htake : (refEncode hdr S).take 4 = hdr := by
    have : refEncode hdr S = hdr ++ (be16 S.qs.length ++ be16 S.an.length ++ be16 S.au.length ++ be16 S.ad.length ++
        wireSections S) := by simp only [refEncode, List.append_assoc]
    rw [this, ← hh, List.take_left]
  have hq : u16at (refEncode hdr S) 4 = S.qs.length := by
    have := u16at_be16 hdr S.qs.length (be16 S.an.length ++ be16 S.au.length ++ be16 S.ad.length ++ wireSections S) s1
    rw [hh] at this
    rw [← this]; simp only [refEncode, List.append_assoc]
  have han : u16at (refEncode hdr S) 6 = S.an.length := by
    have := u16at_be16 (hdr ++ be16 S.qs.length) S.an.length (be16 S.au.length ++ be16 S.ad.length ++ wireSections S) s2
    simp only [List.length_append, be16_length, hh] at this
    rw [← this]; simp only [refEncode, List.append_assoc]
  have hau : u16at (refEncode hdr S) 8 = S.au.length := by
    have := u16at_be16 (hdr ++ be16 S.qs.length ++ be16 S.an.length) S.au.length (be16 S.ad.length ++ wireSections S) s3
    simp only [List.length_append, be16_length, hh] at this
    rw [← this]; simp only [refEncode, List.append_assoc]
  have had : u16at (refEncode hdr S) 10 = S.ad.length := by
    have := u16at_be16 (hdr ++ be16 S.qs.length ++ be16 S.an.length ++ be16 S.au.length) S.ad.length (wireSections S) s4
    simp only [List.length_append, be16_length, hh] at this
    rw [← this]; simp only [refEncode, List.append_assoc]
  rw [hdrop, htake, hq, han, hau, had]
  dsimp only
  split
  · rename_i he
    have he' : wireSections S = [] := by simpa [List.isEmpty_iff] using he
    simp only [wireSections, List.append_eq_nil_iff] at he'
    obtain ⟨⟨⟨e1, e2⟩, e3⟩, e4⟩ := he'
    simp only [mkMsg, wireSections, e1, e2, e3, e4, List.append_nil, List.length_nil, Nat.add_zero]
  · have hw : wireSections S = wireQs S.qs ++ (wireRecs S.an ++ (wireRecs S.au ++ wireRecs S.ad)) := by
      simp only [wireSections, List.append_assoc]
    rw [hw]
    have hq1 := skipQuestions_wire (wireQs S.qs ++ (wireRecs S.an ++ (wireRecs S.au ++ wireRecs S.ad))) S.qs
      ⟨0, (wireQs S.qs ++ (wireRecs S.an ++ (wireRecs S.au ++ wireRecs S.ad))).length⟩ _ (At.zero _ _)
      (fun q hq => (hl.qs q hq).1) (by simp only [List.length_append]; omega)
    rw [hq1]; simp only [Out.ok_bind]
    have hq2 := skipSection_wire (wireQs S.qs ++ (wireRecs S.an ++ (wireRecs S.au ++ wireRecs S.ad))) S.an
      ⟨0 + (wireQs S.qs).length, (wireQs S.qs ++ (wireRecs S.an ++ (wireRecs S.au ++ wireRecs S.ad))).length -
        (wireQs S.qs).length⟩ (wireRecs S.au ++ wireRecs S.ad)
      (by dsimp only; rw [Nat.zero_add]; exact At.mid _ _ _) hl.an (by simp only [List.length_append]; omega)
    rw [hq2]; simp only [Out.ok_bind]
    have hat3 : At (wireQs S.qs ++ (wireRecs S.an ++ (wireRecs S.au ++ wireRecs S.ad)))
        (0 + (wireQs S.qs).length + (wireRecs S.an).length) (wireRecs S.au ++ wireRecs S.ad) := by
      have := At.mid (wireQs S.qs ++ wireRecs S.an) (wireRecs S.au) (wireRecs S.ad)
      simpa only [List.append_assoc, List.length_append, Nat.zero_add] using this
    have hq3 := skipSection_wire (wireQs S.qs ++ (wireRecs S.an ++ (wireRecs S.au ++ wireRecs S.ad))) S.au
      ⟨0 + (wireQs S.qs).length + (wireRecs S.an).length,
        (wireQs S.qs ++ (wireRecs S.an ++ (wireRecs S.au ++ wireRecs S.ad))).length -
        (wireQs S.qs).length - (wireRecs S.an).length⟩ (wireRecs S.ad) hat3 hl.au
      (by simp only [List.length_append]; omega)
    rw [hq3]; simp only [Out.ok_bind]
    simp only [mkMsg, Nat.zero_add]

/-- serializing the object that stands for `S` and parsing the bytes gives the same object back -/
theorem reparse_mkMsg {hdr : Bytes} (hh : hdr.length = 4) {S : Sections} (hl : S.Legal) (hs : S.Small) :
    parse (serialize (mkMsg hdr S)) = ok (mkMsg hdr S) := by
  rw [serialize_mkMsg, parse_refEncode hh hl hs]

end Tins.Dns
