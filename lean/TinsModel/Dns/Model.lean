import TinsModel.Basic.Seq32
/-
  Code-shaped, fault-explicit model of `Tins::DNS` (src/dns.cpp, include/tins/dns.h) as far as property C10
  depends on it: the constructor's index computation (`skip_to_dname_end`, `skip_to_section_end`), `compose_name`,
  `convert_records`, the four section getters, `encode_domain_name`, `add_query`, `add_record` (+ the three public
  wrappers), `update_dname`, `update_records`, `write_serialization`.

  * The object is `(header, records_data_, answers_idx_, authority_idx_, additional_idx_)`.
  * Every *raw* access of the C++ (`*ptr`, `memcpy`, `&records_data_[i]`, `vector::insert(begin()+i)`, the two
    256-byte stack buffers) goes through `rd` / `rdN` / `wr2` / `outPut` / `insertAt`, which return `Out.fault` when
    the access is outside the object.  Accesses made through `InputMemoryStream` throw `malformed_packet` exactly
    where the stream does, and then read through `rd` (a stream built over a wrong range would fault).
  * Exceptions are the enum `Exc`.
  * `inet_pton` / `inet_ntop` are external: an inserted A/AAAA record carries the result of `inet_pton` (`aux`), and the
    text of an AAAA record read back is kept as its 16 address bytes (`RData.v6`).
  * Loops that the C++ bounds by data (`while (stream)`, label walks) recurse on a fuel value that is an upper bound of
    the number of iterations (`Fuel` lemmas in `Lemmas.lean`); `composeName` returns `fault "fuel"` if it ever ran out,
    and `getters_noFault` shows it does not.
  * Numbers are `Nat`; `uint16_t` wraps are explicit (`% 65536`).  `uint32_t` section offsets are not wrapped
    (assumption: `records_data_` stays below 4 GiB).
-/
namespace Tins.Dns

inductive Exc
  | malformedPacket
  | pointerLoops
  | pointerOob
  | invalidAddress
  | invalidDomainName
deriving DecidableEq, Repr, Inhabited

/-- result of a piece of C++: a value, a libtins exception, or an access outside the object (memory fault) -/
inductive Out (α : Type)
  | ok (a : α)
  | throw (e : Exc)
  | fault (site : String)
deriving Repr, DecidableEq

namespace Out
@[inline] def bind {α β} (x : Out α) (f : α → Out β) : Out β :=
  match x with
  | ok a => f a
  | throw e => throw e
  | fault s => fault s
instance : Monad Out where
  pure := Out.ok
  bind := Out.bind
def isFault {α} : Out α → Bool
  | fault _ => true
  | _ => false
def isOk {α} : Out α → Bool
  | ok _ => true
  | _ => false
end Out
open Out

/-! ### raw memory -/

/-- `*ptr` / `buf[i]` -/
def rd (buf : Bytes) (i : Nat) : Out Nat :=
  match buf[i]? with
  | some b => ok b.toNat
  | none => fault "read"

/-- `memcpy(dst, buf + i, n)` (source side) -/
def rdN (buf : Bytes) (i n : Nat) : Out Bytes :=
  if i + n ≤ buf.length then ok ((buf.drop i).take n) else fault "memcpy-read"

/-- `memcpy(buf + i, &u16, 2)` -/
def wr2 (buf : Bytes) (i : Nat) (hi lo : Nat) : Out Bytes :=
  if i + 2 ≤ buf.length then ok (buf.take i ++ [UInt8.ofNat hi, UInt8.ofNat lo] ++ buf.drop (i + 2))
  else fault "memcpy-write"

/-- `vector::insert(begin() + i, bytes)` -/
def insertAt (buf : Bytes) (i : Nat) (ins : Bytes) : Out Bytes :=
  if i ≤ buf.length then ok (buf.take i ++ ins ++ buf.drop i) else fault "insert"

/-- append to one of the `char[256]` output buffers of `compose_name` -/
def outPut (out : Bytes) (bs : Bytes) : Out Bytes :=
  if out.length + bs.length ≤ 256 then ok (out ++ bs) else fault "name-buffer"

def be16 (n : Nat) : Bytes := [UInt8.ofNat (n / 256 % 256), UInt8.ofNat (n % 256)]
def be32 (n : Nat) : Bytes :=
  [UInt8.ofNat (n / 16777216 % 256), UInt8.ofNat (n / 65536 % 256), UInt8.ofNat (n / 256 % 256), UInt8.ofNat (n % 256)]

/-- `std::string(const char*)`: a C string stops at the first NUL -/
def cstr (b : Bytes) : Bytes := b.takeWhile (· != 0)

/-! ### `Memory::InputMemoryStream` over a buffer: current position and remaining size -/

structure Stream where
  pos : Nat
  rem : Nat
deriving Repr

def Stream.skip (s : Stream) (n : Nat) : Out Stream :=
  if n > s.rem then throw .malformedPacket else ok ⟨s.pos + n, s.rem - n⟩

def readU8 (buf : Bytes) (s : Stream) : Out (Nat × Stream) :=
  if s.rem < 1 then throw .malformedPacket else do
    let b ← rd buf s.pos
    ok (b, ⟨s.pos + 1, s.rem - 1⟩)

def readBE16 (buf : Bytes) (s : Stream) : Out (Nat × Stream) :=
  if s.rem < 2 then throw .malformedPacket else do
    let hi ← rd buf s.pos
    let lo ← rd buf (s.pos + 1)
    ok (hi * 256 + lo, ⟨s.pos + 2, s.rem - 2⟩)

def readBE32 (buf : Bytes) (s : Stream) : Out (Nat × Stream) :=
  if s.rem < 4 then throw .malformedPacket else do
    let a ← rd buf s.pos
    let b ← rd buf (s.pos + 1)
    let c ← rd buf (s.pos + 2)
    let d ← rd buf (s.pos + 3)
    ok (a * 16777216 + b * 65536 + c * 256 + d, ⟨s.pos + 4, s.rem - 4⟩)

/-- read `n` raw bytes (`stream.pointer()` … `+ n`, after a `can_read(n)` check by the caller) and skip them -/
def readBytes (buf : Bytes) (s : Stream) (n : Nat) : Out (Bytes × Stream) :=
  if s.rem < n then throw .malformedPacket else do
    let b ← rdN buf s.pos n
    ok (b, ⟨s.pos + n, s.rem - n⟩)

/-! ### the object -/

structure Msg where
  hdr : Bytes := [0, 0, 0, 0]      -- id and flags (opaque here)
  q : Nat := 0                     -- header_.questions  (host order)
  an : Nat := 0
  au : Nat := 0
  ad : Nat := 0
  recs : Bytes := []               -- records_data_
  ai : Nat := 0                    -- answers_idx_
  ui : Nat := 0                    -- authority_idx_
  di : Nat := 0                    -- additional_idx_
deriving Repr, DecidableEq

structure Query where
  name : Bytes
  type : Nat
  cls : Nat
deriving Repr, DecidableEq

/-- data of a resource as the getters hand it out: a string, or (AAAA) the address that `inet_ntop` prints -/
inductive RData
  | str (b : Bytes)
  | v6 (b : Bytes)
deriving Repr, DecidableEq

structure Resource where
  name : Bytes
  type : Nat
  cls : Nat
  ttl : Nat
  pref : Nat
  data : RData
deriving Repr, DecidableEq

def tA : Nat := 1
def tNS : Nat := 2
def tCNAME : Nat := 5
def tSOA : Nat := 6
def tPTR : Nat := 12
def tMX : Nat := 15
def tAAAA : Nat := 28
def tDNAM : Nat := 39

/-- `DNS::contains_dname` -/
def containsDname (t : Nat) : Bool := t == tMX || t == tCNAME || t == tPTR || t == tNS || t == tDNAM

/-! ### constructor: `DNS::DNS(buffer, total_sz)` -/

/-- `DNS::skip_to_dname_end`; `fuel ≥ s.rem` (every iteration consumes at least one byte) -/
def skipDname (buf : Bytes) : Nat → Stream → Out Stream
  | 0, s => ok s
  | f + 1, s =>
    if s.rem = 0 then ok s else do
      let (v, s1) ← readU8 buf s
      if v = 0 then ok s1
      else if v / 64 = 3 then s1.skip 1
      else if v / 64 = 0 then do
        let s2 ← s1.skip v
        skipDname buf f s2
      else throw .malformedPacket

/-- the questions loop of the constructor -/
def skipQuestions (buf : Bytes) : Nat → Stream → Out Stream
  | 0, s => ok s
  | n + 1, s => do
    let s1 ← skipDname buf s.rem s
    let s2 ← s1.skip 4
    skipQuestions buf n s2

/-- `DNS::skip_to_section_end` -/
def skipSection (buf : Bytes) : Nat → Stream → Out Stream
  | 0, s => ok s
  | n + 1, s => do
    let s1 ← skipDname buf s.rem s
    let s2 ← s1.skip 8
    let (sz, s3) ← readBE16 buf s2
    if s3.rem < sz then throw .malformedPacket else do
      let s4 ← s3.skip sz
      skipSection buf n s4

def u16at (b : Bytes) (i : Nat) : Nat := (b.getD i 0).toNat * 256 + (b.getD (i + 1) 0).toNat

def parse (b : Bytes) : Out Msg :=
  if b.length < 12 then throw .malformedPacket else
  let recs := b.drop 12
  let m : Msg := { hdr := b.take 4, q := u16at b 4, an := u16at b 6, au := u16at b 8, ad := u16at b 10, recs := recs }
  if recs.isEmpty then ok m else do
    let s1 ← skipQuestions recs m.q ⟨0, recs.length⟩
    let s2 ← skipSection recs m.an s1
    let s3 ← skipSection recs m.au s2
    ok { m with ai := s1.pos, ui := s2.pos, di := s3.pos }

/-- `DNS::write_serialization` -/
def serialize (m : Msg) : Bytes := m.hdr ++ be16 m.q ++ be16 m.an ++ be16 m.au ++ be16 m.ad ++ m.recs

/-! ### names -/

/-- the state machine of `DNS::encode_domain_name`'s loop: `atStart` = "the next character is at `last_index`",
    which `find('.', last_index + 1)` never looks at. -/
def encGo : Bool → Bytes → Bytes → Bytes
  | _, cur, [] => UInt8.ofNat cur.length :: cur ++ [0]
  | true, cur, c :: r => encGo false (cur ++ [c]) r
  | false, cur, c :: r =>
    if c = 46 then UInt8.ofNat cur.length :: cur ++ encGo true [] r else encGo false (cur ++ [c]) r

/-- `DNS::encode_domain_name` -/
def encodeDomainName (dn : Bytes) : Bytes :=
  if dn.isEmpty then [0] else encGo true [] dn

def composeFuel : Nat := 300

/-- `if (current_out_ptr != out_ptr) *current_out_ptr++ = '.';` -/
def dotOut (out : Bytes) : Out Bytes := if out.length ≠ 0 then outPut out [46] else ok out

/-- `DNS::compose_name(ptr, out)`: returns the bytes written to the output buffer (without the terminator) and the
    position `end_ptr` (the function's return value is `end_ptr - start_ptr`). -/
def composeName (recs : Bytes) : Nat → Nat → Bytes → Nat → Option Nat → Out (Bytes × Nat)
  | 0, _, _, _, _ => fault "fuel"
  | f + 1, ptr, out, counter, endPtr =>
    if ptr ≥ recs.length then throw .malformedPacket else do
      let v ← rd recs ptr
      if v = 0 then do
        let _ ← outPut out [0]
        ok (out, endPtr.getD (ptr + 1))
      else if v / 64 = 3 then
        if counter > 30 then throw .pointerLoops
        else if ptr + 2 > recs.length then throw .malformedPacket
        else do
          let lo ← rd recs (ptr + 1)
          let index := v % 64 * 256 + lo
          if index < 12 ∨ index - 12 ≥ recs.length then throw .pointerOob
          else composeName recs f (index - 12) out (counter + 1) (some (endPtr.getD (ptr + 2)))
      else if v / 64 ≠ 0 then throw .malformedPacket
      else if ptr + 1 + v > recs.length ∨ out.length + v + 1 > 255 then throw .malformedPacket
      else do
        let out1 ← dotOut out
        let label ← rdN recs (ptr + 1) v
        let out2 ← outPut out1 label
        composeName recs f (ptr + 1 + v) out2 counter endPtr

/-- `compose_name(stream.pointer(), buf)` followed by `stream.skip(result)` -/
def composeSkip (recs : Bytes) (s : Stream) : Out (Bytes × Stream) := do
  let (name, e) ← composeName recs composeFuel s.pos [] 0 none
  let s1 ← s.skip (e - s.pos)
  ok (name, s1)

def showNat (n : Nat) : Bytes := (toString n).toList.map (fun c => UInt8.ofNat c.toNat)

/-- `DNS::inline_convert_v4` (little-endian branch): `"%d.%d.%d.%d"` of the four bytes in wire order -/
def showV4 (b : Bytes) : Bytes :=
  showNat (b.getD 0 0).toNat ++ [46] ++ showNat (b.getD 1 0).toNat ++ [46] ++
  showNat (b.getD 2 0).toNat ++ [46] ++ showNat (b.getD 3 0).toNat

/-- `if (type == MX) { preference = stream.read_be<uint16_t>(); data_size -= sizeof(uint16_t); }` (`uint16_t` wrap) -/
def mxPref (recs : Bytes) (type dataSize0 : Nat) (s : Stream) : Out (Nat × Nat × Stream) :=
  if type = tMX then do
    let (p, s') ← readBE16 recs s
    ok (p, (dataSize0 + 65536 - 2) % 65536, s')
  else ok (0, dataSize0, s)

/-- one iteration of the loop of `DNS::convert_records`, after the fixed fields have been read -/
def convertData (recs : Bytes) (dname : Bytes) (type qclass ttl dataSize0 : Nat) (s : Stream) :
    Out (Resource × Stream) := do
  let (pref, dataSize, s) ← mxPref recs type dataSize0 s
  if s.rem < dataSize then throw .malformedPacket else
  if type = tAAAA then do
    let (a, s) ← readBytes recs s 16
    ok (⟨cstr dname, type, qclass, ttl, pref, .v6 a⟩, s)
  else if type = tA then do
    let (a, s) ← readBytes recs s 4
    ok (⟨cstr dname, type, qclass, ttl, pref, .str (showV4 a)⟩, s)
  else if type = tNS ∨ type = tCNAME ∨ type = tDNAM ∨ type = tPTR ∨ type = tMX then do
    let (n, _) ← composeName recs composeFuel s.pos [] 0 none
    let s ← s.skip dataSize
    ok (⟨cstr dname, type, qclass, ttl, pref, .str (cstr n)⟩, s)
  else if type = tSOA then do
    let (n1, s) ← composeSkip recs s
    let (n2, s) ← composeSkip recs s
    let (tail, s) ← readBytes recs s 20
    ok (⟨cstr dname, type, qclass, ttl, pref,
         .str (encodeDomainName (cstr n1) ++ encodeDomainName (cstr n2) ++ tail)⟩, s)
  else do
    let (d, s) ← readBytes recs s dataSize
    ok (⟨cstr dname, type, qclass, ttl, pref, .str d⟩, s)

/-- one iteration of the loop of `DNS::convert_records` -/
def convertOne (recs : Bytes) (s : Stream) : Out (Resource × Stream) := do
  let (dname, s) ← composeSkip recs s
  let (type, s) ← readBE16 recs s
  let (qclass, s) ← readBE16 recs s
  let (ttl, s) ← readBE32 recs s
  let (dataSize0, s) ← readBE16 recs s
  convertData recs dname type qclass ttl dataSize0 s

/-- the loop of `convert_records`: `while (stream && res.size() < rr_count)` -/
def convertLoop (recs : Bytes) : Nat → Stream → Out (List Resource)
  | 0, _ => ok []
  | n + 1, s =>
    if s.rem = 0 then ok [] else do
      let (r, s1) ← convertOne recs s
      let rest ← convertLoop recs n s1
      ok (r :: rest)

/-- `DNS::convert_records(ptr, end, res, rr_count)` with `ptr = &records_data_[0] + start`, `end = … + stop` -/
def convertRecords (recs : Bytes) (start stop count : Nat) : Out (List Resource) :=
  if stop < start then fault "convert_records: end < ptr" else convertLoop recs count ⟨start, stop - start⟩

/-- `(QueryType)query_type`, `(QueryClass)query_class`: `DNS::query` keeps both in plain enums, whose values are
    0..63 (largest enumerator NSEC3PARAM = 51) and 0..255 (ANY = 255).  Loading any other value is what UBSan reports
    (`-fsanitize=enum`; an unspecified value before C++17, undefined behaviour since). -/
def enumLoad (t c : Nat) : Out Unit := if t < 64 ∧ c < 256 then ok () else fault "enum-load"

/-- the loop of `DNS::queries`: every iteration consumes at least 5 bytes, `fuel ≥ s.rem` -/
def queriesLoop (recs : Bytes) : Nat → Stream → Out (List Query)
  | 0, _ => ok []
  | f + 1, s =>
    if s.rem = 0 then ok [] else do
      let (n, s1) ← composeSkip recs s
      let (t, s2) ← readBE16 recs s1
      let (c, s3) ← readBE16 recs s2
      enumLoad t c
      let rest ← queriesLoop recs f s3
      ok (⟨cstr n, t, c⟩ :: rest)

def queries (m : Msg) : Out (List Query) :=
  if m.recs.isEmpty then ok [] else queriesLoop m.recs m.ai ⟨0, m.ai⟩

def answers (m : Msg) : Out (List Resource) :=
  if m.ai < m.recs.length then convertRecords m.recs m.ai m.ui m.an else ok []

def authority (m : Msg) : Out (List Resource) :=
  if m.ui < m.recs.length then convertRecords m.recs m.ui m.di m.au else ok []

def additional (m : Msg) : Out (List Resource) :=
  if m.di < m.recs.length then convertRecords m.recs m.di m.recs.length m.ad else ok []

/-! ### insertion -/

/-- `DNS::update_dname(ptr, end, threshold, offset)`; `fuel ≥ stop - ptr` (every iteration advances `ptr`).
    Returns the (possibly rewritten) data and the position after the name. -/
def updateDname (thr off : Nat) : Nat → Bytes → Nat → Nat → Out (Bytes × Nat)
  | 0, _, _, _ => throw .malformedPacket
  | f + 1, data, ptr, stop =>
    if ptr ≥ stop then throw .malformedPacket else do
      let v ← rd data ptr
      if v = 0 then ok (data, ptr + 1)
      else if v / 64 = 3 then
        if stop - ptr < 2 then throw .malformedPacket else do
          let lo ← rd data (ptr + 1)
          let index := v % 64 * 256 + lo
          if index ≥ thr + 12 then
            if index + off > 16383 then throw .malformedPacket else do
              let nv := index + off
              let data' ← wr2 data ptr (192 + nv / 256) (nv % 256)
              ok (data', ptr + 2)
          else ok (data, ptr + 2)
      else if v / 64 ≠ 0 ∨ stop - ptr < v + 1 then throw .malformedPacket
      else updateDname thr off f data (ptr + v + 1) stop

/-- the part of `update_records` that rewrites the names inside the data of one record -/
def updateRdata (thr off : Nat) (type : Nat) (d1 : Bytes) (namePtr dataEnd : Nat) : Out Bytes :=
  if containsDname type then do
    let (d, _) ← updateDname thr off (dataEnd - namePtr) d1 namePtr dataEnd
    ok d
  else if type = tSOA then do
    let (d, p) ← updateDname thr off (dataEnd - namePtr) d1 namePtr dataEnd
    let (d', _) ← updateDname thr off (dataEnd - p) d p dataEnd
    ok d'
  else ok d1

/-- the `for` loop of `DNS::update_records`; also returns where `ptr` ended up (the C++ discards it) -/
def updateLoop (thr off : Nat) : Nat → Bytes → Nat → Out (Bytes × Nat)
  | 0, data, p => ok (data, p)
  | n + 1, data, ptr => do
    let (d1, p1) ← updateDname thr off (data.length - ptr) data ptr data.length
    if d1.length < p1 + 10 then throw .malformedPacket else do
      let thi ← rd d1 p1
      let tlo ← rd d1 (p1 + 1)
      let type := thi * 256 + tlo
      let shi ← rd d1 (p1 + 8)
      let slo ← rd d1 (p1 + 9)
      let size := shi * 256 + slo
      let p2 := p1 + 10
      if d1.length - p2 < size then throw .malformedPacket else
      let dataEnd := p2 + size
      if type = tMX ∧ size < 2 then throw .malformedPacket else
      let namePtr := if type = tMX then p2 + 2 else p2
      let d2 ← updateRdata thr off type d1 namePtr dataEnd
      updateLoop thr off n d2 (p2 + size)

/-- `DNS::update_records(data, section_start, num_records, threshold, offset)` -/
def updateRecords (data : Bytes) (start count thr off : Nat) : Out (Bytes × Nat) :=
  if start < data.length then do
    let (d, _) ← updateLoop thr off count data start
    ok (d, start + off)
  else ok (data, start + off)

/-- `DNS::add_query` -/
def addQuery (m : Msg) (qr : Query) : Out Msg := do
  enumLoad qr.type qr.cls
  let newStr := encodeDomainName qr.name ++ be16 qr.type ++ be16 qr.cls
  let off := newStr.length
  let thr := m.ai
  let (d1, ai) ← updateRecords m.recs m.ai m.an thr off
  let (d2, ui) ← updateRecords d1 m.ui m.au thr off
  let (d3, di) ← updateRecords d2 m.di m.ad thr off
  let d4 ← insertAt d3 thr newStr
  ok { m with recs := d4, ai := ai, ui := ui, di := di, q := (m.q + 1) % 65536 }

/-- what `add_record` is given: the resource and the result of `inet_pton` on its data (external) -/
structure NewRec where
  name : Bytes
  type : Nat
  cls : Nat
  ttl : Nat
  pref : Nat
  data : Bytes
  aux : Option Bytes
deriving Repr

/-- the bytes `add_record` writes for the record (`offset` of them), or `invalid_address` -/
def recordPayload (r : NewRec) : Out Bytes :=
    if r.type = tA then
      (match r.aux with
       | some a => if a.length = 4 then ok a else throw .invalidAddress
       | none => throw .invalidAddress)
    else if r.type = tAAAA then
      (match r.aux with
       | some a => if a.length = 16 then ok a else throw .invalidAddress
       | none => throw .invalidAddress)
    else if containsDname r.type then ok (encodeDomainName r.data)
    else ok r.data

def recordBytes (r : NewRec) : Out Bytes :=
  let buffer := encodeDomainName r.name
  do
    let p ← recordPayload r
    let pre := if r.type = tMX then be16 r.pref else []
    ok (buffer ++ be16 r.type ++ be16 r.cls ++ be32 r.ttl ++ be16 ((p.length + pre.length) % 65536) ++ pre ++ p)

inductive Section
  | answer
  | authority
  | additional
deriving DecidableEq, Repr

/-- `DNS::add_record(resource, sections)` followed by the count update of the public wrapper -/
def addRecord (m : Msg) (sec : Section) (r : NewRec) : Out Msg := do
  let bytes ← recordBytes r
  let off := bytes.length
  match sec with
  | .answer =>
    let thr := m.ui
    let (d1, ui) ← updateRecords m.recs m.ui m.au thr off
    let (d2, di) ← updateRecords d1 m.di m.ad thr off
    let d3 ← insertAt d2 thr bytes
    ok { m with recs := d3, ui := ui, di := di, an := (m.an + 1) % 65536 }
  | .authority =>
    let thr := m.di
    let (d1, di) ← updateRecords m.recs m.di m.ad thr off
    let d2 ← insertAt d1 thr bytes
    ok { m with recs := d2, di := di, au := (m.au + 1) % 65536 }
  | .additional =>
    let d1 ← insertAt m.recs m.recs.length bytes
    ok { m with recs := d1, ad := (m.ad + 1) % 65536 }

end Tins.Dns
