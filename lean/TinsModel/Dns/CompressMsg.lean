import TinsModel.Dns.CompressName
import TinsModel.Dns.SoaLemmas
/-
  The Lean reference compressor on records, sections and whole messages: `refCompress hdr S` is accepted, well-formed
  (`WFL`), and read back as `S`.
-/
namespace Tins.Dns
open Out

/-- a name site that holds the name `n`: it resolves to `n` with at most 31 jumps -/
structure SiteName (buf : Bytes) (σ : Site) (n : Name) : Prop where
  site : NameSite buf σ.s σ.x σ.e
  res : ∃ j, Resolves buf σ.s n j ∧ j ≤ 31

/-- a name site whose name resolves within the caps of `compose_name` -/
structure SiteOk (buf : Bytes) (σ : Site) : Prop where
  site : NameSite buf σ.s σ.x σ.e
  res : ∃ n j, Resolves buf σ.s n j ∧ j ≤ 31 ∧ (appendName [] n).length ≤ 255

theorem SiteName.compose {buf : Bytes} {σ : Site} {n : Name} (h : SiteName buf σ n) (hok : LabelsOk n)
    (hw : (wireName n).length ≤ 255) (ext : Bytes) :
    composeName (buf ++ ext) composeFuel σ.s [] 0 none = ok (textOf n, σ.e) := by
  obtain ⟨j, hr, hj⟩ := h.res
  have hlen : (appendName [] n).length ≤ 255 := by
    rw [appendName_nil_out hok]; have := textOf_length_lt n; omega
  rw [composeName_of_resolves (h.site.append ext) (hr.append ext) hj hlen, appendName_nil_out hok]

theorem SiteName.siteOk {buf : Bytes} {σ : Site} {n : Name} (h : SiteName buf σ n) (hok : LabelsOk n)
    (hw : (wireName n).length ≤ 255) : SiteOk buf σ := by
  obtain ⟨j, hr, hj⟩ := h.res
  exact ⟨h.site, n, j, hr, hj, by rw [appendName_nil_out hok]; have := textOf_length_lt n; omega⟩

theorem SiteOk.compose {buf : Bytes} {σ : Site} (h : SiteOk buf σ) (ext : Bytes) :
    ∃ nm, composeName (buf ++ ext) composeFuel σ.s [] 0 none = ok (nm, σ.e) ∧
      composeName buf composeFuel σ.s [] 0 none = ok (nm, σ.e) := by
  obtain ⟨n, j, hr, hj, hlen⟩ := h.res
  exact ⟨appendName [] n, composeName_of_resolves (h.site.append ext) (hr.append ext) hj hlen,
    composeName_of_resolves h.site hr hj hlen⟩

theorem SiteOk.append {buf : Bytes} {σ : Site} (h : SiteOk buf σ) (ext : Bytes) : SiteOk (buf ++ ext) σ := by
  obtain ⟨n, j, hr, hj, hlen⟩ := h.res
  exact ⟨h.site.append ext, n, j, hr.append ext, hj, hlen⟩

theorem SiteOk.nameAt_append {buf : Bytes} {σ : Site} (h : SiteOk buf σ) (ext : Bytes) :
    nameAt (buf ++ ext) σ.s = nameAt buf σ.s ∧ (composeName (buf ++ ext) composeFuel σ.s [] 0 none).isOk = true := by
  obtain ⟨nm, h1, h2⟩ := h.compose ext
  exact ⟨by rw [nameAt_of_ok h1, nameAt_of_ok h2], by rw [h1]; rfl⟩

theorem PtrBack.append {buf : Bytes} {ss : List Site} {lim : Nat} {σ : Site} (h : PtrBack buf ss lim σ)
    (he : σ.e ≤ buf.length) (ext : Bytes) (ss' : List Site) {lim' : Nat} (hl : lim ≤ lim') :
    PtrBack (buf ++ ext) (ss ++ ss') lim' σ := by
  intro hx
  obtain ⟨a1, a2, τ, hτ, a3, a4⟩ := h hx
  have hpa := ptrAt_append (buf := buf) (x := σ.x) (by omega) ext
  rw [hpa]
  exact ⟨a1, by omega, τ, List.mem_append_left _ hτ, a3, a4.append ext⟩

/-- the invariant of the compressor: what has been written (`buf`), its name sites (`ss`), the table (`t`) -/
structure CInv (buf : Bytes) (ss : List Site) (t : CTable) : Prop where
  tok : TOk buf ss t
  lim : ∀ k off, (k, off) ∈ t → off - 12 < buf.length
  sites : ∀ σ ∈ ss, SiteOk buf σ ∧ σ.e ≤ buf.length
  back : ∀ σ ∈ ss, PtrBack buf ss σ.s σ

theorem CInv.empty : CInv [] [] [] := by
  refine ⟨?_, ?_, ?_, ?_⟩
  · intro k off h; cases h
  · intro k off h; cases h
  · intro σ h; cases h
  · intro σ h; cases h

/-- octets that are no name (fixed fields, addresses, opaque data) -/
theorem CInv.raw {buf : Bytes} {ss : List Site} {t : CTable} (h : CInv buf ss t) (raw : Bytes) : CInv (buf ++ raw) ss t := by
  refine ⟨?_, ?_, ?_, ?_⟩
  · have := h.tok.mono raw []; rwa [List.append_nil] at this
  · intro k off hm; have := h.lim k off hm; rw [List.length_append]; omega
  · intro σ hσ
    obtain ⟨a, b⟩ := h.sites σ hσ
    exact ⟨a.append raw, by rw [List.length_append]; omega⟩
  · intro σ hσ
    have := (h.back σ hσ).append (h.sites σ hσ).2 raw [] (Nat.le_refl _)
    rwa [List.append_nil] at this

/-- one name written by the compressor -/
theorem CInv.name {buf : Bytes} {ss : List Site} {t : CTable} (h : CInv buf ss t) {n : Name} (hok : LabelsOk n)
    (hw : (wireName n).length ≤ 255) (hs : n.length ≤ 31) :
    ∃ σ : Site, σ.s = buf.length ∧ σ.e = buf.length + (compressName t buf.length n).1.length ∧
      SiteName (buf ++ (compressName t buf.length n).1) σ n ∧
      CInv (buf ++ (compressName t buf.length n).1) (ss ++ [σ]) (compressName t buf.length n).2 ∧
      (compressName t buf.length n).1.length ≤ (wireName n).length := by
  have hspec := compressName_spec buf.length n t [] buf ss hok h.tok h.lim (fun _ _ hm => by cases hm)
  simp only [List.append_nil] at hspec
  obtain ⟨x, added, e1, e2, ⟨j, e3, e3j⟩, e4, e5, e6⟩ := hspec
  refine ⟨⟨buf.length, x, buf.length + (compressName t buf.length n).1.length⟩, rfl, rfl,
    ⟨e2, j, e3, by omega⟩, ⟨?_, ?_, ?_, ?_⟩, e6⟩
  · -- the table
    intro k off hm
    rw [e1] at hm
    rcases List.mem_append.1 hm with hm | hm
    · exact (h.tok k off hm).mono _ _
    · obtain ⟨b1, b2, b3, b4, _, b6, b7⟩ := e5 k off hm
      exact ⟨b1, b2, b3, ⟨_, List.mem_append_right _ List.mem_cons_self, b4, b6⟩, b7⟩
  · intro k off hm
    rw [e1] at hm
    rw [List.length_append]
    rcases List.mem_append.1 hm with hm | hm
    · have := h.lim k off hm; omega
    · obtain ⟨_, _, _, _, _, b6, _⟩ := e5 k off hm
      have := b6.lt
      omega
  · intro σ hσ
    rcases List.mem_append.1 hσ with hσ | hσ
    · obtain ⟨a, b⟩ := h.sites σ hσ
      exact ⟨a.append _, by rw [List.length_append]; omega⟩
    · simp only [List.mem_cons, List.not_mem_nil, or_false] at hσ
      subst hσ
      refine ⟨(SiteName.siteOk ⟨e2, j, e3, by omega⟩ hok hw), by rw [List.length_append]; exact Nat.le_refl _⟩
  · intro σ hσ
    rcases List.mem_append.1 hσ with hσ | hσ
    · exact (h.back σ hσ).append (h.sites σ hσ).2 _ _ (Nat.le_refl _)
    · simp only [List.mem_cons, List.not_mem_nil, or_false] at hσ
      subst hσ
      intro hx
      obtain ⟨a1, a2, τ, hτ, a3, a4⟩ := e4 hx
      exact ⟨a1, a2, τ, List.mem_append_left _ hτ, a3, a4⟩

end Tins.Dns

namespace Tins.Dns
open Out

/-! ### record data -/

def SData.vdata : SData → RData
  | .a addr => .str (showV4 addr)
  | .aaaa addr => .v6 addr
  | .name n => .str (textOf n)
  | .mx _ n => .str (textOf n)
  | .soa m rn tail => .str (wireName m ++ wireName rn ++ tail)
  | .raw b => .str b

def SData.vpref : SData → Nat
  | .mx p _ => p
  | _ => 0

theorem SRec.view_eq (r : SRec) : r.view = ⟨textOf r.owner, r.type, r.cls, r.ttl, r.data.vpref, r.data.vdata⟩ := by
  cases r with
  | mk o t c ttl d => cases d <;> rfl

def SData.short : SData → Bool
  | .name n => n.length ≤ 31
  | .mx _ n => n.length ≤ 31
  | .soa m rn _ => m.length ≤ 31 && rn.length ≤ 31
  | _ => true

theorem At.u32at {buf : Bytes} {p v : Nat} {rest : Bytes} (h : At buf p (be32 v ++ rest)) (hv : v < 4294967296) :
    u32at buf p = v := by
  obtain ⟨pre, post, rfl, rfl⟩ := h
  unfold Tins.Dns.u32at
  have g : ∀ i (b : UInt8), (pre ++ (be32 v ++ rest) ++ post)[pre.length + i]? = some b →
      (pre ++ (be32 v ++ rest) ++ post).getD (pre.length + i) 0 = b := fun i b hb => getD_of_some hb
  rw [show pre.length = pre.length + 0 by rfl, g 0 (UInt8.ofNat (v / 16777216 % 256)) (by simp [be32]),
    g 1 (UInt8.ofNat (v / 65536 % 256)) (by simp [be32]), g 2 (UInt8.ofNat (v / 256 % 256)) (by simp [be32]),
    g 3 (UInt8.ofNat (v % 256)) (by simp [be32])]
  exact be32_val hv

theorem at_end (buf b : Bytes) : At (buf ++ b) buf.length b := ⟨buf, [], by simp, rfl⟩

theorem At.append {buf : Bytes} {p : Nat} {bs : Bytes} (h : At buf p bs) (ext : Bytes) : At (buf ++ ext) p bs := by
  obtain ⟨pre, post, rfl, rfl⟩ := h
  exact ⟨pre, post ++ ext, by simp only [List.append_assoc], rfl⟩

theorem slice_at {buf : Bytes} {p : Nat} {bs : Bytes} (h : At buf p bs) : slice buf p bs.length = bs := h.slice

theorem nameAt_siteName {buf : Bytes} {σ : Site} {n : Name} (h : SiteName buf σ n) (hok : LabelsOk n)
    (hw : (wireName n).length ≤ 255) : cstr (nameAt buf σ.s) = textOf n := by
  have := h.compose hok hw []
  rw [List.append_nil] at this
  rw [nameAt_of_ok this, cstr_textOf hok]

theorem SiteName.append {buf : Bytes} {σ : Site} {n : Name} (h : SiteName buf σ n) (ext : Bytes) :
    SiteName (buf ++ ext) σ n := by
  obtain ⟨j, hr, hj⟩ := h.res
  exact ⟨h.site.append ext, j, hr.append ext, hj⟩

theorem namesOk_of_cinv {buf : Bytes} {ss : List Site} {t : CTable} (h : CInv buf ss t) {ds : List Site}
    (hsub : ∀ σ ∈ ds, σ ∈ ss) : NamesOk buf ds := by
  intro σ hσ
  obtain ⟨nm, _, h2⟩ := (h.sites σ (hsub σ hσ)).1.compose []
  rw [h2]; rfl

/-- the data of one record, written by the compressor at the end of `B0` (which ends with the record's fixed fields) -/
theorem CInv.data_step {B0 : Bytes} {ss : List Site} {t : CTable} (h : CInv B0 ss t) (σo : Site)
    (hσo : σo.e + 10 = B0.length) {ty : Nat} {d : SData} (hd : d.legal ty = true) (hsh : d.short = true) :
    ∃ ds : List Site,
      DataSites (B0 ++ (compressData t B0.length d).1) ty B0.length (B0.length + (compressData t B0.length d).1.length) ds ∧
      CInv (B0 ++ (compressData t B0.length d).1) (ss ++ ds) (compressData t B0.length d).2 ∧
      (compressData t B0.length d).1.length ≤ d.wire.length ∧
      viewData (B0 ++ (compressData t B0.length d).1) ⟨σo, ty, (compressData t B0.length d).1.length, ds⟩ = d.vdata ∧
      (if ty = tMX then u16at (B0 ++ (compressData t B0.length d).1) (σo.e + 10) else 0) = d.vpref := by
  cases d with
  | a addr =>
    simp only [SData.legal, Bool.and_eq_true, beq_iff_eq] at hd
    have n6 : ty ≠ tAAAA := by rw [hd.1]; decide
    have nmx : ty ≠ tMX := by rw [hd.1]; decide
    refine ⟨[], DataSites.addr4 hd.1 (by simp only [compressData]; omega), by rw [List.append_nil]; exact h.raw _,
      Nat.le_refl _, ?_, by rw [if_neg nmx]; rfl⟩
    simp only [viewData, RecL.dstart, compressData, SData.vdata]
    rw [if_neg n6, if_pos hd.1, hσo, ← hd.2, slice_at (at_end B0 addr)]
  | aaaa addr =>
    simp only [SData.legal, Bool.and_eq_true, beq_iff_eq] at hd
    have nmx : ty ≠ tMX := by rw [hd.1]; decide
    refine ⟨[], DataSites.addr16 hd.1 (by simp only [compressData]; omega), by rw [List.append_nil]; exact h.raw _,
      Nat.le_refl _, ?_, by rw [if_neg nmx]; rfl⟩
    simp only [viewData, RecL.dstart, compressData, SData.vdata]
    rw [if_pos hd.1, hσo, ← hd.2, slice_at (at_end B0 addr)]
  | raw b =>
    simp only [SData.legal, Bool.and_eq_true, Bool.not_eq_true', Bool.or_eq_false_iff, beq_eq_false_iff_ne,
      decide_eq_true_eq] at hd
    obtain ⟨⟨⟨⟨⟨⟨⟨⟨h1, h2⟩, h3⟩, h4⟩, h5⟩, h6⟩, h7⟩, h8⟩, _⟩ := hd
    have nn : ¬ (ty = tNS ∨ ty = tCNAME ∨ ty = tDNAM ∨ ty = tPTR) := by rintro (g | g | g | g) <;> contradiction
    refine ⟨[], DataSites.raw h1 h2 h3 h4 h5 h6 h7 h8, by rw [List.append_nil]; exact h.raw _, Nat.le_refl _, ?_,
      by rw [if_neg h7]; rfl⟩
    simp only [viewData, RecL.dstart, compressData, SData.vdata]
    rw [if_neg h2, if_neg h1, if_neg h7, if_neg nn, if_neg h8, hσo, slice_at (at_end B0 b)]
  | name n =>
    simp only [SData.legal, Bool.and_eq_true, Bool.or_eq_true, beq_iff_eq] at hd
    simp only [SData.short, decide_eq_true_eq] at hsh
    obtain ⟨hok, hw⟩ := wireName_le_of_legal hd.2
    obtain ⟨σ, s1, s2, s3, s4, s5⟩ := h.name hok hw hsh
    have hty : ty = tNS ∨ ty = tCNAME ∨ ty = tPTR ∨ ty = tDNAM := by
      rcases hd.1 with ((g | g) | g) | g
      · exact Or.inl g
      · exact Or.inr (Or.inl g)
      · exact Or.inr (Or.inr (Or.inl g))
      · exact Or.inr (Or.inr (Or.inr g))
    have nmx : ty ≠ tMX := by rcases hty with g | g | g | g <;> (rw [g]; decide)
    have n6 : ty ≠ tAAAA := by rcases hty with g | g | g | g <;> (rw [g]; decide)
    have n4 : ty ≠ tA := by rcases hty with g | g | g | g <;> (rw [g]; decide)
    have hbr : ty = tNS ∨ ty = tCNAME ∨ ty = tDNAM ∨ ty = tPTR := by rcases hty with g | g | g | g <;> simp [g]
    simp only [compressData]
    refine ⟨[σ], DataSites.name σ hty s1 s3.site (by omega), s4, s5, ?_, by rw [if_neg nmx]; rfl⟩
    simp only [viewData, RecL.dstart, SData.vdata]
    have hnm := nameAt_siteName s3 hok hw
    rw [s1] at hnm
    rw [if_neg n6, if_neg n4, if_neg nmx, if_pos hbr, hσo, hnm]
  | mx p n =>
    simp only [SData.legal, Bool.and_eq_true, beq_iff_eq, decide_eq_true_eq] at hd
    simp only [SData.short, decide_eq_true_eq] at hsh
    obtain ⟨hok, hw⟩ := wireName_le_of_legal hd.2
    have hB : (B0 ++ be16 p).length = B0.length + 2 := by simp
    obtain ⟨σ, s1, s2, s3, s4, s5⟩ := (h.raw (be16 p)).name hok hw hsh
    rw [hB] at s1 s2 s3 s4 s5
    have n6 : ty ≠ tAAAA := by rw [hd.1.1]; decide
    have n4 : ty ≠ tA := by rw [hd.1.1]; decide
    simp only [compressData]
    have hcat : B0 ++ (be16 p ++ (compressName t (B0.length + 2) n).1) = B0 ++ be16 p ++ (compressName t (B0.length + 2) n).1 := by
      simp only [List.append_assoc]
    rw [hcat]
    refine ⟨[σ], DataSites.mx σ hd.1.1 s1 s3.site (by simp only [List.length_append, be16_length]; omega), s4,
      by simp only [List.length_append, be16_length, SData.wire]; omega, ?_, ?_⟩
    · simp only [viewData, RecL.dstart, SData.vdata]
      have hnm := nameAt_siteName s3 hok hw
      rw [s1] at hnm
      rw [if_neg n6, if_neg n4, if_pos hd.1.1, hσo, hnm]
    · rw [if_pos hd.1.1, hσo]
      have : At (B0 ++ be16 p ++ (compressName t (B0.length + 2) n).1) B0.length (be16 p ++ (compressName t (B0.length + 2) n).1) := by
        have := at_end B0 (be16 p ++ (compressName t (B0.length + 2) n).1)
        rwa [← List.append_assoc] at this
      rw [At.u16at this hd.1.2]; rfl
  | soa m rn tail =>
    simp only [SData.legal, Bool.and_eq_true, beq_iff_eq] at hd
    simp only [SData.short, Bool.and_eq_true, decide_eq_true_eq] at hsh
    obtain ⟨hok1, hw1⟩ := wireName_le_of_legal hd.1.1.2
    obtain ⟨hok2, hw2⟩ := wireName_le_of_legal hd.1.2
    obtain ⟨σ1, a1, a2, a3, a4, a5⟩ := h.name hok1 hw1 hsh.1
    have hB : (B0 ++ (compressName t B0.length m).1).length = B0.length + (compressName t B0.length m).1.length := by simp
    obtain ⟨σ2, b1, b2, b3, b4, b5⟩ := a4.name hok2 hw2 hsh.2
    rw [hB] at b1 b2 b3 b4 b5
    have nmx : ty ≠ tMX := by rw [hd.1.1.1]; decide
    have n6 : ty ≠ tAAAA := by rw [hd.1.1.1]; decide
    have n4 : ty ≠ tA := by rw [hd.1.1.1]; decide
    have nn : ¬ (ty = tNS ∨ ty = tCNAME ∨ ty = tDNAM ∨ ty = tPTR) := by rw [hd.1.1.1]; decide
    simp only [compressData]
    have hcat : B0 ++ ((compressName t B0.length m).1 ++
        (compressName (compressName t B0.length m).2 (B0.length + (compressName t B0.length m).1.length) rn).1 ++ tail) =
        B0 ++ (compressName t B0.length m).1 ++
        (compressName (compressName t B0.length m).2 (B0.length + (compressName t B0.length m).1.length) rn).1 ++ tail := by
      simp only [List.append_assoc]
    rw [hcat]
    have hb1 := b3.site.span
    have ha1 := a3.site.span
    refine ⟨[σ1, σ2], DataSites.soa σ1 σ2 hd.1.1.1 a1 ((a3.site.append _).append _) (by omega) (b3.site.append _)
      (by simp only [List.length_append]; omega), ?_, by simp only [List.length_append, SData.wire]; omega, ?_,
      by rw [if_neg nmx]; rfl⟩
    · have := b4.raw tail
      simpa only [List.append_assoc, List.cons_append, List.nil_append] using this
    · simp only [viewData, RecL.dstart, SData.vdata]
      rw [if_neg n6, if_neg n4, if_neg nmx, if_neg nn, if_pos hd.1.1.1,
        nameAt_siteName ((a3.append _).append _) hok1 hw1, nameAt_siteName (b3.append _) hok2 hw2,
        encode_textOf hok1, encode_textOf hok2, b2, ← hd.2]
      have : At (B0 ++ (compressName t B0.length m).1 ++
          (compressName (compressName t B0.length m).2 (B0.length + (compressName t B0.length m).1.length) rn).1 ++ tail)
          (B0.length + (compressName t B0.length m).1.length +
            (compressName (compressName t B0.length m).2 (B0.length + (compressName t B0.length m).1.length) rn).1.length)
          tail := by
        have := at_end (B0 ++ (compressName t B0.length m).1 ++
          (compressName (compressName t B0.length m).2 (B0.length + (compressName t B0.length m).1.length) rn).1) tail
        simpa only [List.length_append] using this
      rw [slice_at this]

end Tins.Dns
