import TinsModel.Dns.CompressName
import TinsModel.Dns.SoaLemmas
/-
  The Lean reference compressor on records, sections and whole messages: `refCompress hdr S` is accepted, well-formed
  (`WFL`), and read back as `S`.
-/
namespace Tins.Dns
open Out

/-- a name site that holds the name `n`: it resolves to `n` with at most 31 jumps -/
structure SiteName (buf : Bytes) (σ : Site) (n : Name) : Prop where
  site : NameSite buf σ.s σ.x σ.e
  res : ∃ j, Resolves buf σ.s n j ∧ j ≤ 31

/-- a name site whose name resolves within the caps of `compose_name` -/
structure SiteOk (buf : Bytes) (σ : Site) : Prop where
  site : NameSite buf σ.s σ.x σ.e
  res : ∃ n j, Resolves buf σ.s n j ∧ j ≤ 31 ∧ (appendName [] n).length ≤ 255

theorem SiteName.compose {buf : Bytes} {σ : Site} {n : Name} (h : SiteName buf σ n) (hok : LabelsOk n)
    (hw : (wireName n).length ≤ 255) (ext : Bytes) :
    composeName (buf ++ ext) composeFuel σ.s [] 0 none = ok (textOf n, σ.e) := by
  obtain ⟨j, hr, hj⟩ := h.res
  have hlen : (appendName [] n).length ≤ 255 := by
    rw [appendName_nil_out hok]; have := textOf_length_lt n; omega
  rw [composeName_of_resolves (h.site.append ext) (hr.append ext) hj hlen, appendName_nil_out hok]

theorem SiteName.siteOk {buf : Bytes} {σ : Site} {n : Name} (h : SiteName buf σ n) (hok : LabelsOk n)
    (hw : (wireName n).length ≤ 255) : SiteOk buf σ := by
  obtain ⟨j, hr, hj⟩ := h.res
  exact ⟨h.site, n, j, hr, hj, by rw [appendName_nil_out hok]; have := textOf_length_lt n; omega⟩

theorem SiteOk.compose {buf : Bytes} {σ : Site} (h : SiteOk buf σ) (ext : Bytes) :
    ∃ nm, composeName (buf ++ ext) composeFuel σ.s [] 0 none = ok (nm, σ.e) ∧
      composeName buf composeFuel σ.s [] 0 none = ok (nm, σ.e) := by
  obtain ⟨n, j, hr, hj, hlen⟩ := h.res
  exact ⟨appendName [] n, composeName_of_resolves (h.site.append ext) (hr.append ext) hj hlen,
    composeName_of_resolves h.site hr hj hlen⟩

theorem SiteOk.append {buf : Bytes} {σ : Site} (h : SiteOk buf σ) (ext : Bytes) : SiteOk (buf ++ ext) σ := by
  obtain ⟨n, j, hr, hj, hlen⟩ := h.res
  exact ⟨h.site.append ext, n, j, hr.append ext, hj, hlen⟩

theorem SiteOk.nameAt_append {buf : Bytes} {σ : Site} (h : SiteOk buf σ) (ext : Bytes) :
    nameAt (buf ++ ext) σ.s = nameAt buf σ.s ∧ (composeName (buf ++ ext) composeFuel σ.s [] 0 none).isOk = true := by
  obtain ⟨nm, h1, h2⟩ := h.compose ext
  exact ⟨by rw [nameAt_of_ok h1, nameAt_of_ok h2], by rw [h1]; rfl⟩

theorem PtrBack.append {buf : Bytes} {ss : List Site} {lim : Nat} {σ : Site} (h : PtrBack buf ss lim σ)
    (he : σ.e ≤ buf.length) (ext : Bytes) (ss' : List Site) {lim' : Nat} (hl : lim ≤ lim') :
    PtrBack (buf ++ ext) (ss ++ ss') lim' σ := by
  intro hx
  obtain ⟨a1, a2, τ, hτ, a3, a4⟩ := h hx
  have hpa := ptrAt_append (buf := buf) (x := σ.x) (by omega) ext
  rw [hpa]
  exact ⟨a1, by omega, τ, List.mem_append_left _ hτ, a3, a4.append ext⟩

/-- the invariant of the compressor: what has been written (`buf`), its name sites (`ss`), the table (`t`) -/
structure CInv (buf : Bytes) (ss : List Site) (t : CTable) : Prop where
  tok : TOk buf ss t
  lim : ∀ k off, (k, off) ∈ t → off - 12 < buf.length
  sites : ∀ σ ∈ ss, SiteOk buf σ ∧ σ.e ≤ buf.length
  back : ∀ σ ∈ ss, PtrBack buf ss σ.s σ

theorem CInv.empty : CInv [] [] [] := by
  refine ⟨?_, ?_, ?_, ?_⟩
  · intro k off h; cases h
  · intro k off h; cases h
  · intro σ h; cases h
  · intro σ h; cases h

/-- octets that are no name (fixed fields, addresses, opaque data) -/
theorem CInv.raw {buf : Bytes} {ss : List Site} {t : CTable} (h : CInv buf ss t) (raw : Bytes) : CInv (buf ++ raw) ss t := by
  refine ⟨?_, ?_, ?_, ?_⟩
  · have := h.tok.mono raw []; rwa [List.append_nil] at this
  · intro k off hm; have := h.lim k off hm; rw [List.length_append]; omega
  · intro σ hσ
    obtain ⟨a, b⟩ := h.sites σ hσ
    exact ⟨a.append raw, by rw [List.length_append]; omega⟩
  · intro σ hσ
    have := (h.back σ hσ).append (h.sites σ hσ).2 raw [] (Nat.le_refl _)
    rwa [List.append_nil] at this

/-- one name written by the compressor -/
theorem CInv.name {buf : Bytes} {ss : List Site} {t : CTable} (h : CInv buf ss t) {n : Name} (hok : LabelsOk n)
    (hw : (wireName n).length ≤ 255) (hs : n.length ≤ 31) :
    ∃ σ : Site, σ.s = buf.length ∧ σ.e = buf.length + (compressName t buf.length n).1.length ∧
      SiteName (buf ++ (compressName t buf.length n).1) σ n ∧
      CInv (buf ++ (compressName t buf.length n).1) (ss ++ [σ]) (compressName t buf.length n).2 ∧
      (compressName t buf.length n).1.length ≤ (wireName n).length := by
  have hspec := compressName_spec buf.length n t [] buf ss hok h.tok h.lim (fun _ _ hm => by cases hm)
  simp only [List.append_nil] at hspec
  obtain ⟨x, added, e1, e2, ⟨j, e3, e3j⟩, e4, e5, e6⟩ := hspec
  refine ⟨⟨buf.length, x, buf.length + (compressName t buf.length n).1.length⟩, rfl, rfl,
    ⟨e2, j, e3, by omega⟩, ⟨?_, ?_, ?_, ?_⟩, e6⟩
  · -- the table
    intro k off hm
    rw [e1] at hm
    rcases List.mem_append.1 hm with hm | hm
    · exact (h.tok k off hm).mono _ _
    · obtain ⟨b1, b2, b3, b4, _, b6, b7⟩ := e5 k off hm
      exact ⟨b1, b2, b3, ⟨_, List.mem_append_right _ List.mem_cons_self, b4, b6⟩, b7⟩
  · intro k off hm
    rw [e1] at hm
    rw [List.length_append]
    rcases List.mem_append.1 hm with hm | hm
    · have := h.lim k off hm; omega
    · obtain ⟨_, _, _, _, _, b6, _⟩ := e5 k off hm
      have := b6.lt
      omega
  · intro σ hσ
    rcases List.mem_append.1 hσ with hσ | hσ
    · obtain ⟨a, b⟩ := h.sites σ hσ
      exact ⟨a.append _, by rw [List.length_append]; omega⟩
    · simp only [List.mem_cons, List.not_mem_nil, or_false] at hσ
      subst hσ
      refine ⟨(SiteName.siteOk ⟨e2, j, e3, by omega⟩ hok hw), by rw [List.length_append]; exact Nat.le_refl _⟩
  · intro σ hσ
    rcases List.mem_append.1 hσ with hσ | hσ
    · exact (h.back σ hσ).append (h.sites σ hσ).2 _ _ (Nat.le_refl _)
    · simp only [List.mem_cons, List.not_mem_nil, or_false] at hσ
      subst hσ
      intro hx
      obtain ⟨a1, a2, τ, hτ, a3, a4⟩ := e4 hx
      exact ⟨a1, a2, τ, List.mem_append_left _ hτ, a3, a4⟩

end Tins.Dns

namespace Tins.Dns
open Out

/-! ### record data -/

def SData.vdata : SData → RData
  | .a addr => .str (showV4 addr)
  | .aaaa addr => .v6 addr
  | .name n => .str (textOf n)
  | .mx _ n => .str (textOf n)
  | .soa m rn tail => .str (wireName m ++ wireName rn ++ tail)
  | .raw b => .str b

def SData.vpref : SData → Nat
  | .mx p _ => p
  | _ => 0

theorem SRec.view_eq (r : SRec) : r.view = ⟨textOf r.owner, r.type, r.cls, r.ttl, r.data.vpref, r.data.vdata⟩ := by
  cases r with
  | mk o t c ttl d => cases d <;> rfl

def SData.short : SData → Bool
  | .name n => n.length ≤ 31
  | .mx _ n => n.length ≤ 31
  | .soa m rn _ => m.length ≤ 31 && rn.length ≤ 31
  | _ => true

theorem At.u32at {buf : Bytes} {p v : Nat} {rest : Bytes} (h : At buf p (be32 v ++ rest)) (hv : v < 4294967296) :
    u32at buf p = v := by
  obtain ⟨pre, post, rfl, rfl⟩ := h
  unfold Tins.Dns.u32at
  have g : ∀ i (b : UInt8), (pre ++ (be32 v ++ rest) ++ post)[pre.length + i]? = some b →
      (pre ++ (be32 v ++ rest) ++ post).getD (pre.length + i) 0 = b := fun i b hb => getD_of_some hb
  rw [show pre.length = pre.length + 0 by rfl, g 0 (UInt8.ofNat (v / 16777216 % 256)) (by simp [be32]),
    g 1 (UInt8.ofNat (v / 65536 % 256)) (by simp [be32]), g 2 (UInt8.ofNat (v / 256 % 256)) (by simp [be32]),
    g 3 (UInt8.ofNat (v % 256)) (by simp [be32])]
  exact be32_val hv

theorem at_end (buf b : Bytes) : At (buf ++ b) buf.length b := ⟨buf, [], by simp, rfl⟩

theorem At.append {buf : Bytes} {p : Nat} {bs : Bytes} (h : At buf p bs) (ext : Bytes) : At (buf ++ ext) p bs := by
  obtain ⟨pre, post, rfl, rfl⟩ := h
  exact ⟨pre, post ++ ext, by simp only [List.append_assoc], rfl⟩

theorem slice_at {buf : Bytes} {p : Nat} {bs : Bytes} (h : At buf p bs) : slice buf p bs.length = bs := h.slice

theorem nameAt_siteName {buf : Bytes} {σ : Site} {n : Name} (h : SiteName buf σ n) (hok : LabelsOk n)
    (hw : (wireName n).length ≤ 255) : cstr (nameAt buf σ.s) = textOf n := by
  have := h.compose hok hw []
  rw [List.append_nil] at this
  rw [nameAt_of_ok this, cstr_textOf hok]

theorem SiteName.append {buf : Bytes} {σ : Site} {n : Name} (h : SiteName buf σ n) (ext : Bytes) :
    SiteName (buf ++ ext) σ n := by
  obtain ⟨j, hr, hj⟩ := h.res
  exact ⟨h.site.append ext, j, hr.append ext, hj⟩

theorem namesOk_of_cinv {buf : Bytes} {ss : List Site} {t : CTable} (h : CInv buf ss t) {ds : List Site}
    (hsub : ∀ σ ∈ ds, σ ∈ ss) : NamesOk buf ds := by
  intro σ hσ
  obtain ⟨nm, _, h2⟩ := (h.sites σ (hsub σ hσ)).1.compose []
  rw [h2]; rfl

/-- the data of one record, written by the compressor at the end of `B0` (which ends with the record's fixed fields) -/
theorem CInv.data_step {B0 : Bytes} {ss : List Site} {t : CTable} (h : CInv B0 ss t) (σo : Site)
    (hσo : σo.e + 10 = B0.length) {ty : Nat} {d : SData} (hd : d.legal ty = true) (hsh : d.short = true) :
    ∃ ds : List Site,
      DataSites (B0 ++ (compressData t B0.length d).1) ty B0.length (B0.length + (compressData t B0.length d).1.length) ds ∧
      CInv (B0 ++ (compressData t B0.length d).1) (ss ++ ds) (compressData t B0.length d).2 ∧
      (compressData t B0.length d).1.length ≤ d.wire.length ∧
      viewData (B0 ++ (compressData t B0.length d).1) ⟨σo, ty, (compressData t B0.length d).1.length, ds⟩ = d.vdata ∧
      (if ty = tMX then u16at (B0 ++ (compressData t B0.length d).1) (σo.e + 10) else 0) = d.vpref := by
  cases d with
  | a addr =>
    simp only [SData.legal, Bool.and_eq_true, beq_iff_eq] at hd
    have n6 : ty ≠ tAAAA := by rw [hd.1]; decide
    have nmx : ty ≠ tMX := by rw [hd.1]; decide
    refine ⟨[], DataSites.addr4 hd.1 (by simp only [compressData]; omega), by rw [List.append_nil]; exact h.raw _,
      Nat.le_refl _, ?_, by rw [if_neg nmx]; rfl⟩
    simp only [viewData, RecL.dstart, compressData, SData.vdata]
    rw [if_neg n6, if_pos hd.1, hσo, ← hd.2, slice_at (at_end B0 addr)]
  | aaaa addr =>
    simp only [SData.legal, Bool.and_eq_true, beq_iff_eq] at hd
    have nmx : ty ≠ tMX := by rw [hd.1]; decide
    refine ⟨[], DataSites.addr16 hd.1 (by simp only [compressData]; omega), by rw [List.append_nil]; exact h.raw _,
      Nat.le_refl _, ?_, by rw [if_neg nmx]; rfl⟩
    simp only [viewData, RecL.dstart, compressData, SData.vdata]
    rw [if_pos hd.1, hσo, ← hd.2, slice_at (at_end B0 addr)]
  | raw b =>
    simp only [SData.legal, Bool.and_eq_true, Bool.not_eq_true', Bool.or_eq_false_iff, beq_eq_false_iff_ne,
      decide_eq_true_eq] at hd
    obtain ⟨⟨⟨⟨⟨⟨⟨⟨h1, h2⟩, h3⟩, h4⟩, h5⟩, h6⟩, h7⟩, h8⟩, _⟩ := hd
    have nn : ¬ (ty = tNS ∨ ty = tCNAME ∨ ty = tDNAM ∨ ty = tPTR) := by rintro (g | g | g | g) <;> contradiction
    refine ⟨[], DataSites.raw h1 h2 h3 h4 h5 h6 h7 h8, by rw [List.append_nil]; exact h.raw _, Nat.le_refl _, ?_,
      by rw [if_neg h7]; rfl⟩
    simp only [viewData, RecL.dstart, compressData, SData.vdata]
    rw [if_neg h2, if_neg h1, if_neg h7, if_neg nn, if_neg h8, hσo, slice_at (at_end B0 b)]
  | name n =>
    simp only [SData.legal, Bool.and_eq_true, Bool.or_eq_true, beq_iff_eq] at hd
    simp only [SData.short, decide_eq_true_eq] at hsh
    obtain ⟨hok, hw⟩ := wireName_le_of_legal hd.2
    obtain ⟨σ, s1, s2, s3, s4, s5⟩ := h.name hok hw hsh
    have hty : ty = tNS ∨ ty = tCNAME ∨ ty = tPTR ∨ ty = tDNAM := by
      rcases hd.1 with ((g | g) | g) | g
      · exact Or.inl g
      · exact Or.inr (Or.inl g)
      · exact Or.inr (Or.inr (Or.inl g))
      · exact Or.inr (Or.inr (Or.inr g))
    have nmx : ty ≠ tMX := by rcases hty with g | g | g | g <;> (rw [g]; decide)
    have n6 : ty ≠ tAAAA := by rcases hty with g | g | g | g <;> (rw [g]; decide)
    have n4 : ty ≠ tA := by rcases hty with g | g | g | g <;> (rw [g]; decide)
    have hbr : ty = tNS ∨ ty = tCNAME ∨ ty = tDNAM ∨ ty = tPTR := by rcases hty with g | g | g | g <;> simp [g]
    simp only [compressData]
    refine ⟨[σ], DataSites.name σ hty s1 s3.site (by omega), s4, s5, ?_, by rw [if_neg nmx]; rfl⟩
    simp only [viewData, RecL.dstart, SData.vdata]
    have hnm := nameAt_siteName s3 hok hw
    rw [s1] at hnm
    rw [if_neg n6, if_neg n4, if_neg nmx, if_pos hbr, hσo, hnm]
  | mx p n =>
    simp only [SData.legal, Bool.and_eq_true, beq_iff_eq, decide_eq_true_eq] at hd
    simp only [SData.short, decide_eq_true_eq] at hsh
    obtain ⟨hok, hw⟩ := wireName_le_of_legal hd.2
    have hB : (B0 ++ be16 p).length = B0.length + 2 := by simp
    obtain ⟨σ, s1, s2, s3, s4, s5⟩ := (h.raw (be16 p)).name hok hw hsh
    rw [hB] at s1 s2 s3 s4 s5
    have n6 : ty ≠ tAAAA := by rw [hd.1.1]; decide
    have n4 : ty ≠ tA := by rw [hd.1.1]; decide
    simp only [compressData]
    have hcat : B0 ++ (be16 p ++ (compressName t (B0.length + 2) n).1) = B0 ++ be16 p ++ (compressName t (B0.length + 2) n).1 := by
      simp only [List.append_assoc]
    rw [hcat]
    refine ⟨[σ], DataSites.mx σ hd.1.1 s1 s3.site (by simp only [List.length_append, be16_length]; omega), s4,
      by simp only [List.length_append, be16_length, SData.wire]; omega, ?_, ?_⟩
    · simp only [viewData, RecL.dstart, SData.vdata]
      have hnm := nameAt_siteName s3 hok hw
      rw [s1] at hnm
      rw [if_neg n6, if_neg n4, if_pos hd.1.1, hσo, hnm]
    · rw [if_pos hd.1.1, hσo]
      have : At (B0 ++ be16 p ++ (compressName t (B0.length + 2) n).1) B0.length (be16 p ++ (compressName t (B0.length + 2) n).1) := by
        have := at_end B0 (be16 p ++ (compressName t (B0.length + 2) n).1)
        rwa [← List.append_assoc] at this
      rw [At.u16at this hd.1.2]; rfl
  | soa m rn tail =>
    simp only [SData.legal, Bool.and_eq_true, beq_iff_eq] at hd
    simp only [SData.short, Bool.and_eq_true, decide_eq_true_eq] at hsh
    obtain ⟨hok1, hw1⟩ := wireName_le_of_legal hd.1.1.2
    obtain ⟨hok2, hw2⟩ := wireName_le_of_legal hd.1.2
    obtain ⟨σ1, a1, a2, a3, a4, a5⟩ := h.name hok1 hw1 hsh.1
    have hB : (B0 ++ (compressName t B0.length m).1).length = B0.length + (compressName t B0.length m).1.length := by simp
    obtain ⟨σ2, b1, b2, b3, b4, b5⟩ := a4.name hok2 hw2 hsh.2
    rw [hB] at b1 b2 b3 b4 b5
    have nmx : ty ≠ tMX := by rw [hd.1.1.1]; decide
    have n6 : ty ≠ tAAAA := by rw [hd.1.1.1]; decide
    have n4 : ty ≠ tA := by rw [hd.1.1.1]; decide
    have nn : ¬ (ty = tNS ∨ ty = tCNAME ∨ ty = tDNAM ∨ ty = tPTR) := by rw [hd.1.1.1]; decide
    simp only [compressData]
    have hcat : B0 ++ ((compressName t B0.length m).1 ++
        (compressName (compressName t B0.length m).2 (B0.length + (compressName t B0.length m).1.length) rn).1 ++ tail) =
        B0 ++ (compressName t B0.length m).1 ++
        (compressName (compressName t B0.length m).2 (B0.length + (compressName t B0.length m).1.length) rn).1 ++ tail := by
      simp only [List.append_assoc]
    rw [hcat]
    have hb1 := b3.site.span
    have ha1 := a3.site.span
    refine ⟨[σ1, σ2], DataSites.soa σ1 σ2 hd.1.1.1 a1 ((a3.site.append _).append _) (by omega) (b3.site.append _)
      (by simp only [List.length_append]; omega), ?_, by simp only [List.length_append, SData.wire]; omega, ?_,
      by rw [if_neg nmx]; rfl⟩
    · have := b4.raw tail
      simpa only [List.append_assoc, List.cons_append, List.nil_append] using this
    · simp only [viewData, RecL.dstart, SData.vdata]
      rw [if_neg n6, if_neg n4, if_neg nmx, if_neg nn, if_pos hd.1.1.1,
        nameAt_siteName ((a3.append _).append _) hok1 hw1, nameAt_siteName (b3.append _) hok2 hw2,
        encode_textOf hok1, encode_textOf hok2, b2, ← hd.2]
      have : At (B0 ++ (compressName t B0.length m).1 ++
          (compressName (compressName t B0.length m).2 (B0.length + (compressName t B0.length m).1.length) rn).1 ++ tail)
          (B0.length + (compressName t B0.length m).1.length +
            (compressName (compressName t B0.length m).2 (B0.length + (compressName t B0.length m).1.length) rn).1.length)
          tail := by
        have := at_end (B0 ++ (compressName t B0.length m).1 ++
          (compressName (compressName t B0.length m).2 (B0.length + (compressName t B0.length m).1.length) rn).1) tail
        simpa only [List.length_append] using this
      rw [slice_at this]

end Tins.Dns

namespace Tins.Dns
open Out

/-! ### appending octets behind a record / section -/

theorem same_prefix (buf ext : Bytes) (lo hi : Nat) (h : hi ≤ buf.length) : Same buf (buf ++ ext) 0 lo hi (fun _ => False) := by
  intro y _ hy _
  rw [Nat.add_zero, List.getElem?_append_left (by omega)]

theorem ptrStill_prefix {buf : Bytes} {σ : Site} (hn : NameSite buf σ.s σ.x σ.e) (ext : Bytes) : PtrStill (buf ++ ext) 0 σ := by
  intro he
  rcases hn.term with ⟨h1, _⟩ | ⟨_, hi, lo, h0, h1, h3⟩
  · omega
  · exact ⟨hi, lo, getElem?_append_some h0, getElem?_append_some h1, h3⟩

theorem RecAt.append {buf : Bytes} {r : RecL} (h : RecAt buf r) (ext : Bytes) : RecAt (buf ++ ext) r := by
  have := h.transport (d := 0) (buf' := buf ++ ext) (M := fun _ => False) (same_prefix buf ext _ _ h.bound)
    (fun _ _ _ hf => hf.elim) (fun σ hσ => ptrStill_prefix (h.site_mem hσ).2.2.1 ext)
    (by rw [List.length_append]; have := h.bound; omega)
  rwa [RecL.add_zero] at this

theorem viewRec_append {buf : Bytes} {r : RecL} (h : RecAt buf r) (hs : ∀ σ ∈ r.sites, SiteOk buf σ) (ext : Bytes) :
    viewRec (buf ++ ext) r = viewRec buf r := by
  have := viewRec_transport (d := 0) (buf' := buf ++ ext) (M := fun _ => False) h (same_prefix buf ext _ _ h.bound)
    (fun _ _ _ hf => hf.elim) (fun σ hσ => ((hs σ hσ).nameAt_append ext).1)
  rwa [RecL.add_zero] at this

theorem SecAt.append {buf : Bytes} {p e : Nat} {rs : List RecL} (h : SecAt buf p rs e) (ext : Bytes) :
    SecAt (buf ++ ext) p rs e := by
  induction h with
  | nil => exact SecAt.nil
  | cons h1 h2 _ ih => exact SecAt.cons h1 (h2.append ext) ih

theorem QSecAt.append {buf : Bytes} {p e : Nat} {qs : List Site} (h : QSecAt buf p qs e) (ext : Bytes) :
    QSecAt (buf ++ ext) p qs e := by
  induction h with
  | nil => exact QSecAt.nil
  | @cons p σ qs e h1 h2 h3 h4 h5 _ ih =>
    have hs := same_prefix buf ext σ.e (σ.e + 4) h3
    refine QSecAt.cons h1 (h2.append ext) (by rw [List.length_append]; omega) ?_ ?_ ih
    · have := u16at_same hs (i := σ.e) (Nat.le_refl _) (by omega) (fun hf => hf) (fun hf => hf)
      rw [Nat.add_zero] at this; rw [this]; exact h4
    · have := u16at_same hs (i := σ.e + 2) (by omega) (by omega) (fun hf => hf) (fun hf => hf)
      rw [Nat.add_zero] at this; rw [this]; exact h5

/-! ### one record -/

def SRec.short (r : SRec) : Bool := decide (r.owner.length ≤ 31) && r.data.short

theorem CInv.rec_step {buf : Bytes} {ss : List Site} {t : CTable} (h : CInv buf ss t) {r : SRec} (hl : r.legal = true)
    (hsh : r.short = true) :
    ∃ rl : RecL, rl.own.s = buf.length ∧ rl.stop = buf.length + (compressRec t buf.length r).1.length ∧
      RecAt (buf ++ (compressRec t buf.length r).1) rl ∧
      CInv (buf ++ (compressRec t buf.length r).1) (ss ++ rl.sites) (compressRec t buf.length r).2 ∧
      (compressRec t buf.length r).1.length ≤ r.wire.length ∧
      viewRec (buf ++ (compressRec t buf.length r).1) rl = r.view := by
  obtain ⟨hok, hwl, hty, hc, httl, hd⟩ := SRec.legal_facts hl
  simp only [SRec.short, Bool.and_eq_true, decide_eq_true_eq] at hsh
  have hdl := SData.wire_lt hd
  obtain ⟨σo, o1, o2, o3, o4, o5⟩ := h.name hok hwl hsh.1
  cases hcn : compressName t buf.length r.owner with
  | mk o t1 =>
    rw [hcn] at o2 o3 o4 o5
    dsimp only at o2 o3 o4 o5
    cases hcd : compressData t1 (buf.length + o.length + 10) r.data with
    | mk d t2 =>
      have hcr : compressRec t buf.length r = (o ++ be16 r.type ++ be16 r.cls ++ be32 r.ttl ++ be16 d.length ++ d, t2) := by
        unfold compressRec; rw [hcn]; dsimp only; rw [hcd]
      rw [hcr]
      dsimp only
      -- the buffer in front of the data
      have hB0len : (buf ++ o ++ (be16 r.type ++ be16 r.cls ++ be32 r.ttl ++ be16 d.length)).length = buf.length + o.length + 10 := by
        simp only [List.length_append, be16_length, be32_length]
      have h0 := o4.raw (be16 r.type ++ be16 r.cls ++ be32 r.ttl ++ be16 d.length)
      obtain ⟨ds, d1, d2, d3, d4, d5⟩ := h0.data_step σo (by rw [hB0len, o2]) hd hsh.2
      rw [hB0len, hcd] at d1 d2 d3 d4 d5
      dsimp only at d1 d2 d3 d4 d5
      have hcat : buf ++ (o ++ be16 r.type ++ be16 r.cls ++ be32 r.ttl ++ be16 d.length ++ d) =
          buf ++ o ++ (be16 r.type ++ be16 r.cls ++ be32 r.ttl ++ be16 d.length) ++ d := by
        simp only [List.append_assoc]
      rw [hcat]
      have hdlen : d.length < 65536 := by omega
      -- the fixed fields
      have hatT : At (buf ++ o ++ (be16 r.type ++ be16 r.cls ++ be32 r.ttl ++ be16 d.length) ++ d) σo.e
          (be16 r.type ++ (be16 r.cls ++ (be32 r.ttl ++ (be16 d.length ++ d)))) := by
        have := at_end (buf ++ o) (be16 r.type ++ (be16 r.cls ++ (be32 r.ttl ++ (be16 d.length ++ d))))
        rw [List.length_append, ← o2] at this
        simpa only [List.append_assoc] using this
      have hatC := hatT.right
      have hatL := hatC.right
      have hatD := hatL.right
      simp only [be16_length, be32_length] at hatC hatL hatD
      have eT := At.u16at hatT hty
      have eC := At.u16at hatC hc
      have eL := At.u32at hatL httl
      have eD := At.u16at hatD hdlen
      have hown : SiteName (buf ++ o ++ (be16 r.type ++ be16 r.cls ++ be32 r.ttl ++ be16 d.length) ++ d) σo r.owner :=
        (o3.append _).append _
      refine ⟨⟨σo, r.type, d.length, ds⟩, o1, ?_, ⟨hown.site, ?_, eT.symm, ?_, ?_⟩, ?_, ?_, ?_⟩
      · simp only [RecL.stop, List.length_append, be16_length, be32_length]; omega
      · simp only [RecL.stop, List.length_append, be16_length, be32_length]; omega
      · dsimp only; rw [show σo.e + 8 = σo.e + 2 + 2 + 4 by omega]; exact eD.symm
      · dsimp only [RecL.stop]
        rw [o2]; exact d1
      · have : ss ++ RecL.sites ⟨σo, r.type, d.length, ds⟩ = ss ++ [σo] ++ ds := by
          simp only [RecL.sites, List.append_assoc, List.cons_append, List.nil_append]
        rw [this]; exact d2
      · rw [SRec.wire_length]
        simp only [List.length_append, be16_length, be32_length]; omega
      · rw [SRec.view_eq]
        unfold viewRec
        dsimp only [RecL.dstart]
        rw [nameAt_siteName hown hok hwl, eC, show σo.e + 4 = σo.e + 2 + 2 by omega, eL, d4, d5]

/-! ### a section of records -/

theorem CInv.sec_step : ∀ (rs : List SRec) (buf : Bytes) (ss : List Site) (t : CTable), CInv buf ss t →
    (∀ r ∈ rs, r.legal = true ∧ r.short = true) →
    ∃ rls : List RecL,
      SecAt (buf ++ (compressList compressRec t buf.length rs).1) buf.length rls
        (buf.length + (compressList compressRec t buf.length rs).1.length) ∧
      CInv (buf ++ (compressList compressRec t buf.length rs).1) (ss ++ recSites rls) (compressList compressRec t buf.length rs).2 ∧
      rls.length = rs.length ∧
      (∀ ext, rls.map (viewRec (buf ++ (compressList compressRec t buf.length rs).1 ++ ext)) = rs.map SRec.view) ∧
      (compressList compressRec t buf.length rs).1.length ≤ (wireRecs rs).length
  | [], buf, ss, t, h, _ => by
    refine ⟨[], ?_, ?_, rfl, fun _ => rfl, by simp [compressList]⟩
    · simp only [compressList, List.append_nil, List.length_nil, Nat.add_zero]; exact SecAt.nil
    · simp only [compressList, List.append_nil, recSites, List.flatMap_nil]; exact h
  | r :: rs, buf, ss, t, h, hl => by
    obtain ⟨hlr, hsr⟩ := hl r List.mem_cons_self
    obtain ⟨rl, a1, a2, a3, a4, a5, a6⟩ := h.rec_step hlr hsr
    cases hcr : compressRec t buf.length r with
    | mk b1 t1 =>
      rw [hcr] at a2 a3 a4 a5 a6
      dsimp only at a2 a3 a4 a5 a6
      have hlen1 : (buf ++ b1).length = buf.length + b1.length := by simp
      obtain ⟨rls, c1, c2, c3, c4, c5⟩ := CInv.sec_step rs (buf ++ b1) _ t1 a4
        (fun x hx => hl x (List.mem_cons_of_mem _ hx))
      rw [hlen1] at c1 c2 c4 c5
      cases hcl : compressList compressRec t1 (buf.length + b1.length) rs with
      | mk bs t2 =>
        rw [hcl] at c1 c2 c4 c5
        dsimp only at c1 c2 c4 c5
        have hcomp : compressList compressRec t buf.length (r :: rs) = (b1 ++ bs, t2) := by
          rw [compressList, hcr]; dsimp only; rw [hcl]
        rw [hcomp]
        dsimp only
        have hcat : buf ++ (b1 ++ bs) = buf ++ b1 ++ bs := by simp only [List.append_assoc]
        rw [hcat]
        refine ⟨rl :: rls, SecAt.cons a1 (a3.append bs) ?_, ?_, by simp [c3], ?_, ?_⟩
        · rw [a2]
          have : buf.length + (b1 ++ bs).length = buf.length + b1.length + bs.length := by
            rw [List.length_append]; omega
          rw [this]; exact c1
        · have : ss ++ recSites (rl :: rls) = ss ++ rl.sites ++ recSites rls := by
            simp only [recSites, List.flatMap_cons, List.append_assoc]
          rw [this]; exact c2
        · intro ext
          rw [List.map_cons, List.map_cons, c4 ext, List.append_assoc (buf ++ b1),
            viewRec_append a3 (fun σ hσ => (a4.sites σ (List.mem_append_right _ hσ)).1), a6]
        · rw [wireRecs_cons, List.length_append, List.length_append]; omega

end Tins.Dns

namespace Tins.Dns
open Out

/-! ### questions -/

theorem viewQ_append {buf : Bytes} {σ : Site} (hs : SiteOk buf σ) (hb : σ.e + 4 ≤ buf.length) (ext : Bytes) :
    viewQ (buf ++ ext) σ = viewQ buf σ := by
  have := viewQ_transport (d := 0) (buf := buf) (buf' := buf ++ ext) (σ := σ)
    (fun y _ y2 => by rw [Nat.add_zero, List.getElem?_append_left (by omega)]) (hs.nameAt_append ext).1
  rwa [Site.add_zero] at this

theorem CInv.q_step {buf : Bytes} {ss : List Site} {t : CTable} (h : CInv buf ss t) {q : SQuery} (hl : q.legal = true)
    (he : q.inEnumRange = true) (hsh : q.name.length ≤ 31) :
    ∃ σ : Site, σ.s = buf.length ∧ σ.e + 4 = buf.length + (compressQuery t buf.length q).1.length ∧
      NameSite (buf ++ (compressQuery t buf.length q).1) σ.s σ.x σ.e ∧
      u16at (buf ++ (compressQuery t buf.length q).1) σ.e < 64 ∧
      u16at (buf ++ (compressQuery t buf.length q).1) (σ.e + 2) < 256 ∧
      CInv (buf ++ (compressQuery t buf.length q).1) (ss ++ [σ]) (compressQuery t buf.length q).2 ∧
      viewQ (buf ++ (compressQuery t buf.length q).1) σ = q.view ∧
      (compressQuery t buf.length q).1.length ≤ q.wire.length := by
  obtain ⟨hok, hwl, hty, hc⟩ := SQuery.legal_facts hl
  simp only [SQuery.inEnumRange, Bool.and_eq_true, decide_eq_true_eq] at he
  obtain ⟨σ, o1, o2, o3, o4, o5⟩ := h.name hok hwl hsh
  cases hcn : compressName t buf.length q.name with
  | mk o t1 =>
    rw [hcn] at o2 o3 o4 o5
    dsimp only at o2 o3 o4 o5
    have hcq : compressQuery t buf.length q = (o ++ be16 q.type ++ be16 q.cls, t1) := by
      unfold compressQuery; rw [hcn]
    rw [hcq]
    dsimp only
    have hcat : buf ++ (o ++ be16 q.type ++ be16 q.cls) = buf ++ o ++ (be16 q.type ++ be16 q.cls) := by
      simp only [List.append_assoc]
    rw [hcat]
    have hatT : At (buf ++ o ++ (be16 q.type ++ be16 q.cls)) σ.e (be16 q.type ++ be16 q.cls) := by
      have := at_end (buf ++ o) (be16 q.type ++ be16 q.cls)
      rwa [List.length_append, ← o2] at this
    have hatC := hatT.right
    simp only [be16_length] at hatC
    have eT := At.u16at hatT hty
    have eC := At.u16at (rest := []) (by rw [List.append_nil]; exact hatC) hc
    have hsn : SiteName (buf ++ o ++ (be16 q.type ++ be16 q.cls)) σ q.name := o3.append _
    refine ⟨σ, o1, by simp only [List.length_append, be16_length]; omega, hsn.site, by rw [eT]; exact he.1,
      by rw [eC]; exact he.2, o4.raw _, ?_, by rw [SQuery.wire_length]; simp only [List.length_append, be16_length]; omega⟩
    unfold viewQ
    rw [nameAt_siteName hsn hok hwl, eT, eC]
    rfl

theorem CInv.qsec_step : ∀ (qs : List SQuery) (buf : Bytes) (ss : List Site) (t : CTable), CInv buf ss t →
    (∀ q ∈ qs, q.legal = true ∧ q.inEnumRange = true ∧ q.name.length ≤ 31) →
    ∃ σs : List Site,
      QSecAt (buf ++ (compressList compressQuery t buf.length qs).1) buf.length σs
        (buf.length + (compressList compressQuery t buf.length qs).1.length) ∧
      CInv (buf ++ (compressList compressQuery t buf.length qs).1) (ss ++ σs) (compressList compressQuery t buf.length qs).2 ∧
      σs.length = qs.length ∧
      (∀ ext, σs.map (viewQ (buf ++ (compressList compressQuery t buf.length qs).1 ++ ext)) = qs.map SQuery.view) ∧
      (compressList compressQuery t buf.length qs).1.length ≤ (wireQs qs).length
  | [], buf, ss, t, h, _ => by
    refine ⟨[], ?_, ?_, rfl, fun _ => rfl, by simp [compressList]⟩
    · simp only [compressList, List.append_nil, List.length_nil, Nat.add_zero]; exact QSecAt.nil
    · simp only [compressList, List.append_nil]; exact h
  | q :: qs, buf, ss, t, h, hl => by
    obtain ⟨hlq, heq, hsq⟩ := hl q List.mem_cons_self
    obtain ⟨σ, a1, a2, a3, a4, a5, a6, a7, a8⟩ := h.q_step hlq heq hsq
    cases hcr : compressQuery t buf.length q with
    | mk b1 t1 =>
      rw [hcr] at a2 a3 a4 a5 a6 a7 a8
      dsimp only at a2 a3 a4 a5 a6 a7 a8
      have hlen1 : (buf ++ b1).length = buf.length + b1.length := by simp
      obtain ⟨σs, c1, c2, c3, c4, c5⟩ := CInv.qsec_step qs (buf ++ b1) _ t1 a6
        (fun x hx => hl x (List.mem_cons_of_mem _ hx))
      rw [hlen1] at c1 c2 c4 c5
      cases hcl : compressList compressQuery t1 (buf.length + b1.length) qs with
      | mk bs t2 =>
        rw [hcl] at c1 c2 c4 c5
        dsimp only at c1 c2 c4 c5
        have hcomp : compressList compressQuery t buf.length (q :: qs) = (b1 ++ bs, t2) := by
          rw [compressList, hcr]; dsimp only; rw [hcl]
        rw [hcomp]
        dsimp only
        have hcat : buf ++ (b1 ++ bs) = buf ++ b1 ++ bs := by simp only [List.append_assoc]
        rw [hcat]
        have hs1 := same_prefix (buf ++ b1) bs σ.e (σ.e + 4) (by rw [hlen1]; omega)
        refine ⟨σ :: σs, QSecAt.cons a1 (a3.append bs) (by simp only [List.length_append]; omega) ?_ ?_ ?_, ?_,
          by simp [c3], ?_, ?_⟩
        · have := u16at_same hs1 (i := σ.e) (Nat.le_refl _) (by omega) (fun hf => hf) (fun hf => hf)
          rw [Nat.add_zero] at this; rw [this]; exact a4
        · have := u16at_same hs1 (i := σ.e + 2) (by omega) (by omega) (fun hf => hf) (fun hf => hf)
          rw [Nat.add_zero] at this; rw [this]; exact a5
        · rw [a2]
          have : buf.length + (b1 ++ bs).length = buf.length + b1.length + bs.length := by
            rw [List.length_append]; omega
          rw [this]; exact c1
        · have : ss ++ σ :: σs = ss ++ [σ] ++ σs := by simp only [List.append_assoc, List.cons_append, List.nil_append]
          rw [this]; exact c2
        · intro ext
          rw [List.map_cons, List.map_cons, c4 ext, List.append_assoc (buf ++ b1),
            viewQ_append (a6.sites σ (List.mem_append_right _ List.mem_cons_self)).1 (by rw [hlen1]; omega), a7]
        · rw [wireQs_cons, List.length_append, List.length_append]; omega

end Tins.Dns

namespace Tins.Dns
open Out

/-! ### the whole message -/

/-- no name has more than 31 labels (so that the compressed encoding needs at most 31 jumps) -/
structure Sections.Short (S : Sections) : Prop where
  qs : ∀ q ∈ S.qs, q.name.length ≤ 31
  an : ∀ r ∈ S.an, r.short = true
  au : ∀ r ∈ S.au, r.short = true
  ad : ∀ r ∈ S.ad, r.short = true

/-- **the compressed reference encoding of legal content is accepted, well-formed, and read back as the content** -/
theorem refCompress_wf {hdr : Bytes} (hh : hdr.length = 4) {S : Sections} (hl : S.Legal) (hs : S.Small) (hsh : S.Short) :
    ∃ m0 L0, parse (refCompress hdr S) = ok m0 ∧ WFL m0 L0 ∧
      (views m0 L0).qs = S.qs.map SQuery.view ∧ (views m0 L0).an = S.an.map SRec.view ∧
      (views m0 L0).au = S.au.map SRec.view ∧ (views m0 L0).ad = S.ad.map SRec.view ∧
      (m0.q = S.qs.length ∧ m0.an = S.an.length ∧ m0.au = S.au.length ∧ m0.ad = S.ad.length) ∧
      m0.recs.length ≤ (wireSections S).length := by
  obtain ⟨s1, s2, s3, s4⟩ := hs
  -- questions
  obtain ⟨σs, q1, q2, q3, q4, q5⟩ := CInv.qsec_step S.qs [] [] [] CInv.empty
    (fun q hq => ⟨(hl.qs q hq).1, (hl.qs q hq).2, hsh.qs q hq⟩)
  simp only [List.length_nil, List.nil_append, Nat.zero_add] at q1 q2 q4 q5
  cases hq : compressList compressQuery [] 0 S.qs with
  | mk bq t1 =>
  rw [hq] at q1 q2 q4 q5
  dsimp only at q1 q2 q4 q5
  -- answers
  obtain ⟨lan, a1, a2, a3, a4, a5⟩ := CInv.sec_step S.an bq σs t1 q2 (fun r hr => ⟨hl.an r hr, hsh.an r hr⟩)
  cases han : compressList compressRec t1 bq.length S.an with
  | mk ban t2 =>
  rw [han] at a1 a2 a4 a5
  dsimp only at a1 a2 a4 a5
  -- authority
  obtain ⟨lau, u1, u2, u3, u4, u5⟩ := CInv.sec_step S.au (bq ++ ban) _ t2 a2 (fun r hr => ⟨hl.au r hr, hsh.au r hr⟩)
  have hl2 : (bq ++ ban).length = bq.length + ban.length := by simp only [List.length_append]
  rw [hl2] at u1 u2 u4 u5
  cases hau : compressList compressRec t2 (bq.length + ban.length) S.au with
  | mk bau t3 =>
  rw [hau] at u1 u2 u4 u5
  dsimp only at u1 u2 u4 u5
  -- additional
  obtain ⟨lad, d1, d2, d3, d4, d5⟩ := CInv.sec_step S.ad (bq ++ ban ++ bau) _ t3 u2 (fun r hr => ⟨hl.ad r hr, hsh.ad r hr⟩)
  have hl3 : (bq ++ ban ++ bau).length = bq.length + ban.length + bau.length := by simp only [List.length_append]
  rw [hl3] at d1 d2 d4 d5
  cases had : compressList compressRec t3 (bq.length + ban.length + bau.length) S.ad with
  | mk bad t4 =>
  rw [had] at d1 d2 d4 d5
  dsimp only at d1 d2 d4 d5
  -- the object the constructor builds
  have hR : (bq ++ ban ++ bau ++ bad).length = bq.length + ban.length + bau.length + bad.length := by
    simp only [List.length_append]
  let m0 : Msg := Msg.mk hdr S.qs.length S.an.length S.au.length S.ad.length (bq ++ ban ++ bau ++ bad) bq.length
    (bq.length + ban.length) (bq.length + ban.length + bau.length)
  let L0 : Layout := ⟨σs, lan, lau, lad⟩
  have hser : refCompress hdr S = serialize m0 := by
    unfold refCompress serialize
    rw [hq]; dsimp only
    rw [han]; dsimp only
    rw [hau]; dsimp only
    rw [had]
    simp only [m0, List.append_assoc]
  have hlay : MsgAt m0 L0 := by
    refine ⟨?_, ?_, ?_, ?_, q3.symm, a3.symm, u3.symm, d3.symm⟩
    · have := ((q1.append ban).append bau).append bad
      exact this
    · exact (a1.append bau).append bad
    · exact u1.append bad
    · show SecAt (bq ++ ban ++ bau ++ bad) (bq.length + ban.length + bau.length) lad (bq ++ ban ++ bau ++ bad).length
      rw [hR]; exact d1
  have hsites : L0.sites = σs ++ recSites lan ++ recSites lau ++ recSites lad := by
    simp only [L0, Layout.sites, List.append_assoc]
  have hwf : WFL m0 L0 := by
    refine ⟨hlay, ?_, ?_, hh⟩
    · intro σ hσ he
      rw [hsites] at hσ ⊢
      obtain ⟨b1, b2, τ, hτ, b3, b4⟩ := d2.back σ hσ he
      have bσ := (d2.sites σ hσ).1.site.bounds
      have key : ∀ b, σ.x < b → ptrAt (bq ++ ban ++ bau ++ bad) σ.x - 12 < b := fun b hb => by omega
      exact ⟨b1, ⟨τ, hτ, b3, b4⟩, key _, key _, key _⟩
    · intro σ hσ
      rw [hsites] at hσ
      obtain ⟨nm, _, h2⟩ := (d2.sites σ hσ).1.compose []
      show (composeName (bq ++ ban ++ bau ++ bad) composeFuel σ.s [] 0 none).isOk = true
      rw [h2]; rfl
  refine ⟨m0, L0, ?_, hwf, ?_, ?_, ?_, ?_, ⟨rfl, rfl, rfl, rfl⟩, ?_⟩
  · rw [hser]
    exact parse_of_layout hlay hh s1 s2 s3 s4
  · show σs.map (viewQ (bq ++ ban ++ bau ++ bad)) = _
    have := q4 (ban ++ bau ++ bad)
    simp only [List.append_assoc] at this ⊢
    exact this
  · show lan.map (viewRec (bq ++ ban ++ bau ++ bad)) = _
    have := a4 (bau ++ bad)
    simp only [List.append_assoc] at this ⊢
    exact this
  · show lau.map (viewRec (bq ++ ban ++ bau ++ bad)) = _
    exact u4 bad
  · show lad.map (viewRec (bq ++ ban ++ bau ++ bad)) = _
    have := d4 []
    rw [List.append_nil] at this
    exact this
  · show (bq ++ ban ++ bau ++ bad).length ≤ (wireSections S).length
    rw [hR]
    simp only [wireSections, List.length_append]
    omega

end Tins.Dns
