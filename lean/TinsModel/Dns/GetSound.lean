import TinsModel.Dns.GetLayout
/-
  Converse of `GetLayout`: when a getter returns on a laid-out message, `compose_name` returned at the first octet of
  every name site of the section — so a stored name without an RFC 1035 resolution within the caps (pointer loop,
  pointer outside the message, too many jumps, too long) makes the getter of its section report an error.
-/
namespace Tins.Dns
open Out

theorem bind_eq_ok {α β} {x : Out α} {f : α → Out β} {b : β} (h : (x >>= f) = ok b) : ∃ a, x = ok a ∧ f a = ok b := by
  cases x with
  | ok a => exact ⟨a, rfl, h⟩
  | throw e => cases h
  | fault s => cases h

theorem isOk_of_eq {α} {x : Out α} {a : α} (h : x = ok a) : x.isOk = true := by rw [h]; rfl

/-! ### inversion of the stream reads -/

theorem skip_ok {s s' : Stream} {n : Nat} (h : s.skip n = ok s') : n ≤ s.rem ∧ s' = ⟨s.pos + n, s.rem - n⟩ := by
  unfold Stream.skip at h
  split at h
  · cases h
  · cases h; exact ⟨by omega, rfl⟩

theorem readBE16_ok {buf : Bytes} {s s' : Stream} {v : Nat} (h : readBE16 buf s = ok (v, s')) :
    2 ≤ s.rem ∧ s.pos + 2 ≤ buf.length ∧ v = u16at buf s.pos ∧ s' = ⟨s.pos + 2, s.rem - 2⟩ := by
  unfold readBE16 at h
  split at h
  · cases h
  · obtain ⟨a, h1, h⟩ := bind_eq_ok h
    obtain ⟨b, h2, h⟩ := bind_eq_ok h
    have l2 := rd_some h2
    rw [rd_getD (rd_some h1)] at h1
    rw [rd_getD l2] at h2
    cases h1; cases h2; cases h
    exact ⟨by omega, by omega, rfl, rfl⟩

theorem readBE32_ok {buf : Bytes} {s s' : Stream} {v : Nat} (h : readBE32 buf s = ok (v, s')) :
    4 ≤ s.rem ∧ s.pos + 4 ≤ buf.length ∧ v = u32at buf s.pos ∧ s' = ⟨s.pos + 4, s.rem - 4⟩ := by
  unfold readBE32 at h
  split at h
  · cases h
  · obtain ⟨a, h1, h⟩ := bind_eq_ok h
    obtain ⟨b, h2, h⟩ := bind_eq_ok h
    obtain ⟨c, h3, h⟩ := bind_eq_ok h
    obtain ⟨d, h4, h⟩ := bind_eq_ok h
    have l4 := rd_some h4
    rw [rd_getD (rd_some h1)] at h1
    rw [rd_getD (rd_some h2)] at h2
    rw [rd_getD (rd_some h3)] at h3
    rw [rd_getD l4] at h4
    cases h1; cases h2; cases h3; cases h4; cases h
    exact ⟨by omega, by omega, rfl, rfl⟩

theorem composeSkip_ok {buf : Bytes} {s s' : Stream} {nm : Bytes} (h : composeSkip buf s = ok (nm, s')) :
    (composeName buf composeFuel s.pos [] 0 none).isOk = true := by
  unfold composeSkip at h
  obtain ⟨a, h1, _⟩ := bind_eq_ok h
  exact isOk_of_eq h1

/-! ### one record -/

theorem convertData_ok_names {buf : Bytes} {r : RecL} (h : RecAt buf r) {dname : Bytes} {qc ttl : Nat} {s : Stream}
    (hs : s.pos = r.dstart) {x : Resource × Stream} (hx : convertData buf dname r.type qc ttl r.rdlen s = ok x) :
    NamesOk buf r.ds := by
  obtain ⟨own, ty, rdlen, ds⟩ := r
  obtain ⟨pos, rem⟩ := s
  have hdata := h.data
  simp only [RecL.dstart, RecL.stop] at hs hdata
  subst hs
  cases hdata with
  | addr4 _ _ => intro σ hσ; cases hσ
  | addr16 _ _ => intro σ hσ; cases hσ
  | raw => intro σ hσ; cases hσ
  | name σ h1 h2 h3 h4 =>
    have nmx : ty ≠ tMX := by rcases h1 with h | h | h | h <;> (rw [h]; decide)
    have n6 : ty ≠ tAAAA := by rcases h1 with h | h | h | h <;> (rw [h]; decide)
    have n4 : ty ≠ tA := by rcases h1 with h | h | h | h <;> (rw [h]; decide)
    have hbr : ty = tNS ∨ ty = tCNAME ∨ ty = tDNAM ∨ ty = tPTR ∨ ty = tMX := by
      rcases h1 with h | h | h | h <;> simp [h]
    unfold convertData mxPref at hx
    rw [if_neg nmx] at hx
    simp only [Out.ok_bind] at hx
    by_cases hlt : rem < rdlen
    · rw [if_pos hlt] at hx; cases hx
    · rw [if_neg hlt, if_neg n6, if_neg n4, if_pos hbr] at hx
      obtain ⟨a, h1', _⟩ := bind_eq_ok hx
      intro τ hτ
      simp only [List.mem_cons, List.not_mem_nil, or_false] at hτ
      subst hτ
      rw [h2]; exact isOk_of_eq h1'
  | mx σ h1 h2 h3 h4 =>
    have n6 : ty ≠ tAAAA := by rw [h1]; decide
    have n4 : ty ≠ tA := by rw [h1]; decide
    unfold convertData mxPref at hx
    rw [if_pos h1] at hx
    cases hb : readBE16 buf ⟨own.e + 10, rem⟩ with
    | throw e => rw [hb] at hx; cases hx
    | fault e => rw [hb] at hx; cases hx
    | ok v =>
      obtain ⟨p, s1⟩ := v
      rw [hb] at hx
      simp only [Out.ok_bind] at hx
      obtain ⟨_, _, _, hs1⟩ := readBE16_ok hb
      by_cases hlt : s1.rem < (rdlen + 65536 - 2) % 65536
      · rw [if_pos hlt] at hx; cases hx
      · rw [if_neg hlt, if_neg n6, if_neg n4, if_pos (Or.inr (Or.inr (Or.inr (Or.inr h1))))] at hx
        obtain ⟨a, h1', _⟩ := bind_eq_ok hx
        intro τ hτ
        simp only [List.mem_cons, List.not_mem_nil, or_false] at hτ
        subst hτ
        rw [h2]
        rw [hs1] at h1'
        exact isOk_of_eq h1'
  | soa σ1 σ2 h1 h2 h3 h4 h5 h6 =>
    have nmx : ty ≠ tMX := by rw [h1]; decide
    have n6 : ty ≠ tAAAA := by rw [h1]; decide
    have n4 : ty ≠ tA := by rw [h1]; decide
    have nn : ¬ (ty = tNS ∨ ty = tCNAME ∨ ty = tDNAM ∨ ty = tPTR ∨ ty = tMX) := by rw [h1]; decide
    unfold convertData mxPref at hx
    rw [if_neg nmx] at hx
    simp only [Out.ok_bind] at hx
    by_cases hlt : rem < rdlen
    · rw [if_pos hlt] at hx; cases hx
    · rw [if_neg hlt, if_neg n6, if_neg n4, if_neg nn, if_pos h1] at hx
      obtain ⟨⟨n1, s1⟩, g1, hx⟩ := bind_eq_ok hx
      have ok1 : (composeName buf composeFuel σ1.s [] 0 none).isOk = true := by
        have := composeSkip_ok g1
        dsimp only at this
        rwa [← h2] at this
      have b3 := h3.span
      have hfit : σ1.e - σ1.s ≤ rem := by
        unfold composeSkip at g1
        obtain ⟨a, ha, g1⟩ := bind_eq_ok g1
        obtain ⟨s1', hs, _⟩ := bind_eq_ok g1
        have hc := composeName_at_site h3 ok1
        dsimp only at ha hs
        rw [← h2, hc] at ha
        cases ha
        have := (skip_ok hs).1
        dsimp only at this
        omega
      have g1' := composeSkip_at (s := ⟨own.e + 10, rem⟩) h3 ok1 (by dsimp only; omega) (by dsimp only; exact hfit)
      rw [g1'] at g1
      cases g1
      obtain ⟨⟨n2, s2⟩, g2, _⟩ := bind_eq_ok hx
      have ok2 : (composeName buf composeFuel σ2.s [] 0 none).isOk = true := by
        have := composeSkip_ok g2
        dsimp only at this
        rwa [← h4] at this
      intro τ hτ
      simp only [List.mem_cons, List.not_mem_nil, or_false] at hτ
      rcases hτ with hτ | hτ
      · subst hτ; exact ok1
      · subst hτ; exact ok2

theorem convertOne_ok_names {buf : Bytes} {r : RecL} (h : RecAt buf r) {s : Stream} (hs : s.pos = r.own.s)
    {x : Resource × Stream} (hx : convertOne buf s = ok x) : NamesOk buf r.sites := by
  have bo := h.own.span
  unfold convertOne at hx
  obtain ⟨⟨dname, s1⟩, g1, hx⟩ := bind_eq_ok hx
  have ok1 : (composeName buf composeFuel r.own.s [] 0 none).isOk = true := by
    have := composeSkip_ok g1; rwa [hs] at this
  have hfit : r.own.e - r.own.s ≤ s.rem := by
    unfold composeSkip at g1
    obtain ⟨a, ha, g1⟩ := bind_eq_ok g1
    obtain ⟨s1', hsk, _⟩ := bind_eq_ok g1
    rw [hs, composeName_at_site h.own ok1] at ha
    cases ha
    have := (skip_ok hsk).1
    dsimp only at this
    omega
  rw [composeSkip_at h.own ok1 hs hfit] at g1
  cases g1
  obtain ⟨⟨ty, s2⟩, g2, hx⟩ := bind_eq_ok hx
  obtain ⟨_, _, e2, hs2⟩ := readBE16_ok g2
  obtain ⟨⟨qc, s3⟩, g3, hx⟩ := bind_eq_ok hx
  obtain ⟨_, _, _, hs3⟩ := readBE16_ok g3
  obtain ⟨⟨ttl, s4⟩, g4, hx⟩ := bind_eq_ok hx
  obtain ⟨_, _, _, hs4⟩ := readBE32_ok g4
  obtain ⟨⟨sz, s5⟩, g5, hx⟩ := bind_eq_ok hx
  obtain ⟨_, _, e5, hs5⟩ := readBE16_ok g5
  dsimp only at hx e2 e5 hs2 hs3 hs4 hs5
  subst hs2 hs3 hs4
  dsimp only at e5 hs5
  have ety : ty = r.type := by rw [e2, h.type]
  have esz : sz = r.rdlen := by
    rw [e5, h.rdlen, show r.own.e + 2 + 2 + 4 = r.own.e + 8 by omega]
  subst ety esz
  have hpos : s5.pos = r.dstart := by rw [hs5]; unfold RecL.dstart; dsimp only
  have okd := convertData_ok_names h hpos hx
  intro σ hσ
  rcases List.mem_cons.1 hσ with hσ | hσ
  · rw [hσ]; exact ok1
  · exact okd σ hσ

/-! ### a section -/

theorem convertLoop_ok_names {buf : Bytes} {p e : Nat} {rs : List RecL} (h : SecAt buf p rs e) :
    ∀ {x : List Resource}, convertLoop buf rs.length ⟨p, e - p⟩ = ok x → NamesOk buf (recSites rs) := by
  induction h with
  | nil => intro _ _ σ hσ; simp [recSites] at hσ
  | @cons p r rs e h1 h2 h3 ih =>
    intro x hx
    have hlt := h2.lt
    have hle := h3.le
    rw [List.length_cons] at hx
    unfold convertLoop at hx
    rw [if_neg (by dsimp only; omega)] at hx
    obtain ⟨⟨v, s1⟩, g1, hx⟩ := bind_eq_ok hx
    obtain ⟨rest, g2, _⟩ := bind_eq_ok hx
    have okr := convertOne_ok_names h2 (by dsimp only; omega) g1
    rw [convertOne_layout h2 okr (by dsimp only; omega) (by dsimp only; omega)] at g1
    cases g1
    dsimp only at g2
    rw [show e - p - (r.stop - r.own.s) = e - r.stop by omega] at g2
    have okrest := ih g2
    intro σ hσ
    simp only [recSites, List.flatMap_cons, List.mem_append] at hσ
    rcases hσ with hσ | hσ
    · exact okr σ hσ
    · exact okrest σ hσ

/-- a record getter that returns read every name of its section -/
theorem convertRecords_ok_names {buf : Bytes} {p e : Nat} {rs : List RecL} (h : SecAt buf p rs e) {x : List Resource}
    (hx : convertRecords buf p e rs.length = ok x) : NamesOk buf (recSites rs) := by
  unfold convertRecords at hx
  rw [if_neg (by have := h.le; omega)] at hx
  exact convertLoop_ok_names h hx

theorem queriesLoop_ok_names {buf : Bytes} {p e : Nat} {qs : List Site} (h : QSecAt buf p qs e) :
    ∀ {f : Nat} {x : List Query}, qs.length ≤ f → queriesLoop buf f ⟨p, e - p⟩ = ok x → NamesOk buf qs := by
  induction h with
  | nil => intro _ _ _ _ σ hσ; cases hσ
  | @cons p σ qs e h1 h2 h3 h4 h5 h6 ih =>
    intro f x hf hx
    obtain ⟨f', rfl⟩ : ∃ f', f = f' + 1 := ⟨f - 1, by simp only [List.length_cons] at hf; omega⟩
    have b2 := h2.span
    have hle := h6.le
    unfold queriesLoop at hx
    rw [if_neg (by dsimp only; omega)] at hx
    obtain ⟨⟨n, s1⟩, g1, hx⟩ := bind_eq_ok hx
    have ok1 : (composeName buf composeFuel σ.s [] 0 none).isOk = true := by
      have := composeSkip_ok g1; dsimp only at this; rwa [← h1] at this
    rw [composeSkip_at h2 ok1 (by dsimp only; omega) (by dsimp only; omega)] at g1
    cases g1
    obtain ⟨⟨t, s2⟩, g2, hx⟩ := bind_eq_ok hx
    obtain ⟨_, _, _, hs2⟩ := readBE16_ok g2
    obtain ⟨⟨c, s3⟩, g3, hx⟩ := bind_eq_ok hx
    obtain ⟨_, _, _, hs3⟩ := readBE16_ok g3
    obtain ⟨_, _, hx⟩ := bind_eq_ok hx
    obtain ⟨rest, g4, _⟩ := bind_eq_ok hx
    dsimp only at hs2 hs3 g4
    subst hs2
    dsimp only at hs3
    subst hs3
    rw [show (⟨σ.e + 2 + 2, e - p - (σ.e - σ.s) - 2 - 2⟩ : Stream) = ⟨σ.e + 4, e - (σ.e + 4)⟩ from
      stream_eq (by omega) (by omega)] at g4
    have okrest := ih (by simp only [List.length_cons] at hf; omega) g4
    intro τ hτ
    rcases List.mem_cons.1 hτ with hτ | hτ
    · rw [hτ]; exact ok1
    · exact okrest τ hτ

/-! ### the four getters -/

theorem answers_ok_names {m : Msg} {L : Layout} (h : MsgAt m L) {x : List Resource} (hx : answers m = ok x) :
    NamesOk m.recs (recSites L.an) := by
  unfold answers at hx
  split at hx
  · rw [h.can] at hx; exact convertRecords_ok_names h.an hx
  · rw [secAt_nil_of_ge h.an (by omega)]; intro σ hσ; simp [recSites] at hσ

theorem authority_ok_names {m : Msg} {L : Layout} (h : MsgAt m L) {x : List Resource} (hx : authority m = ok x) :
    NamesOk m.recs (recSites L.au) := by
  unfold authority at hx
  split at hx
  · rw [h.cau] at hx; exact convertRecords_ok_names h.au hx
  · rw [secAt_nil_of_ge h.au (by omega)]; intro σ hσ; simp [recSites] at hσ

theorem additional_ok_names {m : Msg} {L : Layout} (h : MsgAt m L) {x : List Resource} (hx : additional m = ok x) :
    NamesOk m.recs (recSites L.ad) := by
  unfold additional at hx
  split at hx
  · rw [h.cad] at hx; exact convertRecords_ok_names h.ad hx
  · rw [secAt_nil_of_ge h.ad (by omega)]; intro σ hσ; simp [recSites] at hσ

theorem queries_ok_names {m : Msg} {L : Layout} (h : MsgAt m L) {x : List Query} (hx : queries m = ok x) :
    NamesOk m.recs L.qs := by
  unfold queries at hx
  have hle := h.q.length_le
  split at hx
  · rename_i he
    have he' : m.recs = [] := by simpa [List.isEmpty_iff] using he
    cases hq : L.qs with
    | nil => intro σ hσ; cases hσ
    | cons a t =>
      have h1 := h.q
      rw [hq] at h1
      cases h1 with
      | cons _ g2 g3 _ _ _ => rw [he'] at g3; simp at g3
  · have := h.q
    exact queriesLoop_ok_names (f := m.ai) (e := m.ai) (p := 0) this (by omega) (by rw [Nat.sub_zero]; exact hx)

/-! ### `queries()` on laid-out questions never faults (their types / classes are inside the enums) -/

theorem queriesLoop_no_fault {buf : Bytes} {p e : Nat} {qs : List Site} (h : QSecAt buf p qs e) (hb : e ≤ buf.length) :
    ∀ f, qs.length ≤ f → (queriesLoop buf f ⟨p, e - p⟩).isFault = false := by
  induction h with
  | @nil p =>
    intro f _
    cases f with
    | zero => rfl
    | succ f => unfold queriesLoop; rw [if_pos (by dsimp only; omega)]; rfl
  | @cons p σ qs e h1 h2 h3 h4 h5 h6 ih =>
    intro f hf
    obtain ⟨f', rfl⟩ : ∃ f', f = f' + 1 := ⟨f - 1, by simp only [List.length_cons] at hf; omega⟩
    have b2 := h2.span
    have hle := h6.le
    unfold queriesLoop
    rw [if_neg (by dsimp only; omega)]
    have hsat := composeSkip_sat (recs := buf) (s := ⟨p, e - p⟩) (by unfold SIn; dsimp only; omega)
    cases hc : composeSkip buf ⟨p, e - p⟩ with
    | fault x => rw [hc] at hsat; exact hsat.elim
    | throw x => rfl
    | ok r =>
      obtain ⟨n, s1⟩ := r
      have ok1 : (composeName buf composeFuel σ.s [] 0 none).isOk = true := by
        have := composeSkip_ok hc; dsimp only at this; rwa [← h1] at this
      rw [composeSkip_at h2 ok1 (by dsimp only; omega) (by dsimp only; omega)] at hc
      cases hc
      simp only [Out.ok_bind]
      rw [readBE16_at (by dsimp only; omega) (by dsimp only; omega)]
      simp only [Out.ok_bind]
      rw [readBE16_at (by dsimp only; omega) (by dsimp only; omega)]
      simp only [Out.ok_bind]
      unfold enumLoad
      rw [if_pos ⟨h4, h5⟩]
      simp only [Out.ok_bind]
      rw [show (⟨σ.e + 2 + 2, e - p - (σ.e - σ.s) - 2 - 2⟩ : Stream) = ⟨σ.e + 4, e - (σ.e + 4)⟩ from
        stream_eq (by omega) (by omega)]
      have := ih hb f' (by simp only [List.length_cons] at hf; omega)
      cases hq : queriesLoop buf f' ⟨σ.e + 4, e - (σ.e + 4)⟩ with
      | fault x => rw [hq] at this; cases this
      | throw x => rfl
      | ok r => rfl

theorem queries_no_fault {m : Msg} {L : Layout} (h : MsgAt m L) : (queries m).isFault = false := by
  unfold queries
  have hle := h.q.length_le
  have ho : m.ai ≤ m.ui ∧ m.ui ≤ m.di ∧ m.di ≤ m.recs.length := ⟨h.an.le.1, h.au.le.1, h.ad.le.1⟩
  split
  · rfl
  · have := queriesLoop_no_fault h.q (by omega) m.ai (by omega)
    rwa [Nat.sub_zero] at this

end Tins.Dns
