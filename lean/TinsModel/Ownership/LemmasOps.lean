import TinsModel.Ownership.LemmasPrim
/-
  Specifications of the pointer-level functions of the model at the granularity of whole root chains: a layer `x`
  inside the root chain `pre ++ x :: post` is brought into focus (three segments), the function's writes are
  replayed on the focused segments, and the chains are re-assembled.
-/
namespace Tins.Own

abbrev root (c : Chain) : SegT := ⟨none, c, none⟩

theorem perm_at1 {α} {a b : α} {L R : List α} (h : L.Perm (b :: R)) : (a :: L).Perm (b :: a :: R) :=
  (List.Perm.cons a h).trans (List.Perm.swap b a R)
theorem perm_at2 {α} {a b c : α} {L R : List α} (h : L.Perm (b :: c :: R)) : (a :: L).Perm (b :: c :: a :: R) :=
  (perm_at1 h).trans (List.Perm.cons b (List.Perm.swap c a R))
theorem perm_at3 {α} {a b c d : α} {L R : List α} (h : L.Perm (b :: c :: d :: R)) :
    (a :: L).Perm (b :: c :: d :: a :: R) :=
  (perm_at2 h).trans (List.Perm.cons b (List.Perm.cons c (List.Perm.swap d a R)))
theorem perm_at4 {α} {a b c d e : α} {L R : List α} (h : L.Perm (b :: c :: d :: e :: R)) :
    (a :: L).Perm (b :: c :: d :: e :: a :: R) :=
  (perm_at3 h).trans (List.Perm.cons b (List.Perm.cons c (List.Perm.cons d (List.Perm.swap e a R))))

/-- permutations of explicit lists with a common tail -/
syntax "perm_tac" : tactic
macro_rules
  | `(tactic| perm_tac) => `(tactic| first
      | exact List.Perm.refl _
      | (apply List.Perm.cons; perm_tac)
      | (apply perm_at1; perm_tac)
      | (apply perm_at2; perm_tac)
      | (apply perm_at3; perm_tac)
      | (apply perm_at4; perm_tac))

example {α} (a b c d : α) (S : List α) : (a :: b :: c :: d :: S).Perm (d :: b :: a :: c :: S) := by perm_tac

/-- bring the layer `x` of a root chain into focus -/
theorem SegRep.focus {h : Heap} {S : List SegT} {pre post : Chain} {x : Nat × View}
    (hr : SegRep h (root (pre ++ x :: post) :: S)) :
    SegRep h (⟨lst pre, [x], hd post⟩ :: ⟨some x.1, post, none⟩ :: ⟨none, pre, some x.1⟩ :: S) := by
  have h1 := SegRep.split (c1 := pre) (c2 := x :: post) hr
  simp only [hd_cons, Option.or_some, Option.or_none] at h1
  have h2 := h1.perm (List.Perm.swap _ _ _)
  have h3 := SegRep.split (c1 := [x]) (c2 := post) h2
  simpa [lst] using h3

theorem SegRep.unfocus {h : Heap} {S : List SegT} {pre post : Chain} {x : Nat × View}
    (hr : SegRep h (⟨lst pre, [x], hd post⟩ :: ⟨some x.1, post, none⟩ :: ⟨none, pre, some x.1⟩ :: S)) :
    SegRep h (root (pre ++ x :: post) :: S) := by
  have h2 : SegRep h (⟨lst pre, [x] ++ post, none⟩ :: ⟨none, pre, some x.1⟩ :: S) := by
    apply SegRep.join; simpa [lst] using hr
  have h3 := h2.perm (List.Perm.swap _ _ _)
  apply SegRep.join
  simpa using h3

/-- what the cell of a layer of a root chain holds -/
theorem SegRep.get_at {h : Heap} {S : List SegT} {pre post : Chain} {x : Nat × View}
    (hr : SegRep h (root (pre ++ x :: post) :: S)) : h.get x.1 = some ⟨x.2, hd post, lst pre⟩ :=
  hr.focus.head_get

theorem SegRep.mem_get_at {h : Heap} {S : List SegT} {pre post : Chain} {x : Nat × View}
    (hr : SegRep h S) (hm : root (pre ++ x :: post) ∈ S) : h.get x.1 = some ⟨x.2, hd post, lst pre⟩ := by
  have := Seg.append.mp (hr.segs _ hm)
  simp only [root, hd_cons, Option.or_some, Option.or_none] at this
  have h2 := this.2.1
  simpa using h2

/-! ### reading -/

theorem Seg.sub {h : Heap} {pre post : Chain} {x : Nat × View} {p : Option Nat} (hs : Seg h p (pre ++ x :: post) none) :
    Seg h ((lst pre).or p) (x :: post) none := (Seg.append.mp hs).2

theorem walk_spec {h : Heap} : ∀ (d : Nat) (c : Chain) (p : Option Nat), Seg h p c none →
    walk h d (hd c) = hd (c.drop d) := by
  intro d
  induction d with
  | zero =>
    intro c p hs
    cases c with
    | nil => simp [walk]
    | cons x r => simp [walk, hs.1]
  | succ d ih =>
    intro c p hs
    cases c with
    | nil => simp [walk]
    | cons x r =>
      simp only [hd_cons, walk, hs.1, Option.bind_some, List.drop_succ_cons, Option.or_none]
      exact ih r (some x.1) hs.2

theorem lastOf_spec {h : Heap} : ∀ (c : Chain) (x : Nat × View) (fuel : Nat) (p : Option Nat),
    (x :: c).length ≤ fuel → Seg h p (x :: c) none → lastOf fuel h x.1 = lst (x :: c) := by
  intro c
  induction c with
  | nil =>
    intro x fuel p hf hs
    obtain ⟨f, rfl⟩ : ∃ f, fuel = f + 1 := ⟨fuel - 1, by simp at hf; omega⟩
    have hg : h.get x.1 = some ⟨x.2, none, p⟩ := by simpa [Seg] using hs.1
    simp [lastOf, hg, lst]
  | cons y rest ih =>
    intro x fuel p hf hs
    obtain ⟨f, rfl⟩ : ∃ f, fuel = f + 1 := ⟨fuel - 1, by simp at hf; omega⟩
    have hg : h.get x.1 = some ⟨x.2, some y.1, p⟩ := by simpa [Seg] using hs.1
    simp only [lastOf, hg]
    rw [ih y f (some x.1) (by simp at hf ⊢; omega) hs.2, lst_cons x (y :: rest)]
    cases hl : lst (y :: rest) with
    | none => simp [lst] at hl
    | some z => simp

/-! ### clone of a sub-chain -/

theorem addrs_sub_nodup {S : List SegT} {s : SegT} (hs : s ∈ S) (hn : (allAddrs S).Nodup) : (addrs s.c).Nodup := by
  induction S with
  | nil => cases hs
  | cons t T ih =>
    simp only [allAddrs_cons, List.nodup_append] at hn
    simp only [List.mem_cons] at hs
    rcases hs with rfl | hs
    · exact hn.1
    · exact ih hs hn.2.1

theorem clone_sub {h : Heap} {S : List SegT} {pre post : Chain} {x : Nat × View}
    (hr : SegRep h S) (hm : root (pre ++ x :: post) ∈ S) :
    (clone h x.1).2 = some h.cells.length ∧
    SegRep (clone h x.1).1 (root (freshCopy h.cells.length (x :: post)) :: S) ∧
    (clone h x.1).1.cells.length = h.cells.length + (x :: post).length ∧
    (∀ y, y < h.cells.length → (clone h x.1).1.get y = h.get y) := by
  have hs := Seg.sub (hr.segs _ hm)
  apply clone_spec hr hs
  · intro a ha
    apply mem_allAddrs_of_mem hm
    simp only [root, addrs_append]
    exact List.mem_append_right _ ha
  · have := addrs_sub_nodup hm hr.nodup
    simp only [root, addrs_append, List.nodup_append] at this
    exact this.2.1

/-- `rhs ? rhs->clone() : 0` on a whole root chain -/
theorem cloneOpt_root {h : Heap} {S : List SegT} {c : Chain} (hr : SegRep h S) (hm : root c ∈ S) :
    (cloneOpt h (hd c)).2 = hd (freshCopy h.cells.length c) ∧
    SegRep (cloneOpt h (hd c)).1 (root (freshCopy h.cells.length c) :: S) ∧
    (cloneOpt h (hd c)).1.cells.length = h.cells.length + c.length := by
  cases c with
  | nil => exact ⟨rfl, hr.add_nil, rfl⟩
  | cons x post =>
    obtain ⟨e1, e2, e3, _⟩ := clone_sub (pre := []) hr (by simpa using hm)
    obtain ⟨xa, xv⟩ := x
    simp only [hd_cons, cloneOpt]
    exact ⟨by rw [e1]; simp [freshCopy], e2, e3⟩

/-! ### writes at a layer of a root chain -/

theorem setView_at {h : Heap} {S : List SegT} {pre post : Chain} {x : Nat × View}
    (hr : SegRep h (root (pre ++ x :: post) :: S)) (v' : View) :
    SegRep (h.setView x.1 v') (root (pre ++ (x.1, v') :: post) :: S) ∧ (h.setView x.1 v').cells.length = h.cells.length := by
  have h1 := hr.focus
  have hg := h1.head_get
  refine ⟨SegRep.unfocus (x := (x.1, v')) (h1.setView v'), ?_⟩
  unfold Heap.setView; rw [hg]; exact Heap.put_cells_length

/-- `inner_pdu(PDU*)` at a layer of a root chain: the old layers below are destroyed, the chain `nxt` is adopted -/
theorem innerPduPtr_at {h : Heap} {S : List SegT} {pre post nxt : Chain} {x : Nat × View}
    (hr : SegRep h (root (pre ++ x :: post) :: root nxt :: S)) :
    SegRep (innerPduPtr h x.1 (hd nxt)) (root (pre ++ x :: nxt) :: S) ∧
    (innerPduPtr h x.1 (hd nxt)).cells.length = h.cells.length := by
  have h1 := hr.focus
  -- [x] :: post :: pre :: nxt :: S  →  [x] :: post :: nxt :: pre :: S
  have h2 : SegRep h (⟨lst pre, [(x.1, x.2)], hd post⟩ :: ⟨some x.1, post, none⟩ :: root nxt :: ⟨none, pre, some x.1⟩ :: S) :=
    h1.perm (List.Perm.cons _ (List.Perm.cons _ (List.Perm.swap _ _ _)))
  obtain ⟨h3, hl⟩ := innerPduPtr_spec h2
  exact ⟨SegRep.unfocus (x := x) h3, hl⟩

/-- `release_inner_pdu()` at a layer of a root chain -/
theorem releaseInner_at {h : Heap} {S : List SegT} {pre post : Chain} {x : Nat × View}
    (hr : SegRep h (root (pre ++ x :: post) :: S)) :
    (releaseInner h x.1).2 = hd post ∧
    SegRep (releaseInner h x.1).1 (root (pre ++ [x]) :: root post :: S) ∧
    (releaseInner h x.1).1.cells.length = h.cells.length := by
  have h1 := hr.focus
  have hg := h1.head_get
  simp only [releaseInner, hg]
  have h2 := h1.setInner none
  have h3 := (h2.perm (List.Perm.swap _ _ _)).reparent none
  refine ⟨by first | rfl | trivial, ?_, by rw [setParentOpt_length, setInner_length]⟩
  have h4 : SegRep ((h.setInner x.1 none).setParentOpt (hd post) none)
      (⟨lst pre, [x], hd ([] : Chain)⟩ :: ⟨some x.1, [], none⟩ :: ⟨none, pre, some x.1⟩ :: root post :: S) :=
    (h3.add_nil (p := some x.1) (t := none)).perm (by perm_tac)
  exact SegRep.unfocus (x := x) (post := []) h4

/-- `PDU(PDU&&)` + member-wise move, from a layer of a root chain -/
theorem moveCtor_at {h : Heap} {S : List SegT} {pre post : Chain} {x : Nat × View}
    (hr : SegRep h (root (pre ++ x :: post) :: S)) :
    (moveCtor h x.1).2 = some h.cells.length ∧
    SegRep (moveCtor h x.1).1 (root (pre ++ [(x.1, x.2.moved)]) :: root ((h.cells.length, x.2) :: post) :: S) ∧
    (moveCtor h x.1).1.cells.length = h.cells.length + 1 := by
  have hg := hr.get_at
  simp only [moveCtor, hg, Heap.alloc_snd]
  -- storage of the new object, then swap(inner_pdu_, rhs.inner_pdu_)
  have h1 := hr.alloc x.2 none none
  have h2 := h1.setInner (hd post)
  have h3 := (h2.perm (List.Perm.swap _ _ _)).focus
  have h4 := h3.setInner none
  -- if (inner_pdu_) inner_pdu_->parent_pdu(this)
  have h5 := (h4.perm (List.Perm.swap _ _ _)).reparent (some h.cells.length)
  -- members of the source after the move
  have h6 := (h5.perm (List.Perm.swap _ _ _)).setView x.2.moved
  refine ⟨by first | rfl | trivial, ?_, by
    rw [setView_length, setParentOpt_length, setInner_length, setInner_length, Heap.alloc_cells_length]⟩
  -- assemble: the new object owns `post`; the source is the last layer of its chain
  have h7 := SegRep.join (c1 := [(h.cells.length, x.2)]) (c2 := post) (p := none) (t := none)
    (S := ⟨lst pre, [(x.1, x.2.moved)], none⟩ :: ⟨none, pre, some x.1⟩ :: S)
    (by simp only [Option.or_none, lst, List.getLast?_singleton, Option.map_some]; exact h6.perm (by perm_tac))
  have h8 := (h7.add_nil (p := some x.1) (t := none)).perm
    (by perm_tac : List.Perm _ (⟨lst pre, [(x.1, x.2.moved)], hd ([] : Chain)⟩ :: ⟨some x.1, [], none⟩ :: ⟨none, pre, some x.1⟩ ::
        root ((h.cells.length, x.2) :: post) :: S))
  exact SegRep.unfocus (x := (x.1, x.2.moved)) (post := []) h8

/-- `PDU::operator=(PDU&&)` between layers of two different root chains -/
theorem moveAssignBase_at {h : Heap} {S : List SegT} {preA postA preB postB : Chain} {xa xb : Nat × View}
    (hr : SegRep h (root (preA ++ xa :: postA) :: root (preB ++ xb :: postB) :: S)) :
    SegRep (moveAssignBase h xa.1 xb.1) (root (preA ++ xa :: postB) :: root (preB ++ [xb]) :: S) ∧
    (moveAssignBase h xa.1 xb.1).cells.length = h.cells.length := by
  have hga := hr.get_at
  simp only [moveAssignBase, hga]
  -- delete inner_pdu_; inner_pdu_ = 0
  have h1 := hr.focus
  obtain ⟨h3, hl3⟩ := deletePtr_spec (h1.perm (List.Perm.swap _ _ _))
  have h4 := h3.setInner none
  -- the source
  have h5 := (h4.perm (by perm_tac) : SegRep _ (root (preB ++ xb :: postB) :: ⟨lst preA, [(xa.1, xa.2)], none⟩ ::
      ⟨none, preA, some xa.1⟩ :: S)).focus
  have hgb := h5.head_get
  simp only [hgb]
  -- swap(inner_pdu_, rhs.inner_pdu_)
  have h6 := (h5.perm (by perm_tac) : SegRep _ (⟨lst preA, [(xa.1, xa.2)], none⟩ ::
      ⟨lst preB, [xb], hd postB⟩ :: ⟨some xb.1, postB, none⟩ :: ⟨none, preB, some xb.1⟩ :: ⟨none, preA, some xa.1⟩ :: S)).setInner (hd postB)
  have h7 := (h6.perm (List.Perm.swap _ _ _)).setInner none
  -- re-parent
  have h8 := (h7.perm (by perm_tac) : SegRep _ (⟨some xb.1, postB, none⟩ :: ⟨lst preB, [(xb.1, xb.2)], none⟩ ::
      ⟨lst preA, [(xa.1, xa.2)], hd postB⟩ :: ⟨none, preB, some xb.1⟩ :: ⟨none, preA, some xa.1⟩ :: S)).reparent (some xa.1)
  refine ⟨?_, by rw [setParentOpt_length, setInner_length, setInner_length, setInner_length, hl3]⟩
  have h9 := SegRep.unfocus (x := xa) (pre := preA) (post := postB)
    (S := ⟨lst preB, [(xb.1, xb.2)], none⟩ :: ⟨none, preB, some xb.1⟩ :: S) (h8.perm (by perm_tac))
  have h10 := (h9.add_nil (p := some xb.1) (t := none)).perm
    (by perm_tac : List.Perm _ (⟨lst preB, [xb], hd ([] : Chain)⟩ :: ⟨some xb.1, [], none⟩ :: ⟨none, preB, some xb.1⟩ ::
        root (preA ++ xa :: postB) :: S))
  exact (SegRep.unfocus (x := xb) (post := []) h10).perm (List.Perm.swap _ _ _)

/-- `PDU::operator=(PDU&&)` of a layer onto itself: its inner chain is destroyed -/
theorem moveAssignBase_self {h : Heap} {S : List SegT} {pre post : Chain} {x : Nat × View}
    (hr : SegRep h (root (pre ++ x :: post) :: S)) :
    SegRep (moveAssignBase h x.1 x.1) (root (pre ++ [x]) :: S) ∧
    (moveAssignBase h x.1 x.1).cells.length = h.cells.length := by
  have hga := hr.get_at
  simp only [moveAssignBase, hga]
  have h1 := hr.focus
  obtain ⟨h3, hl3⟩ := deletePtr_spec (h1.perm (List.Perm.swap _ _ _))
  have h4 := h3.setInner none
  have hgb := h4.head_get
  simp only [hgb]
  have h5 := (h4.setInner none).setInner none
  refine ⟨?_, by simp [setInner_length, setParentOpt_length, hl3]⟩
  have h6 : SegRep _ (⟨lst pre, [x], hd ([] : Chain)⟩ :: ⟨some x.1, [], none⟩ :: ⟨none, pre, some x.1⟩ :: S) :=
    (h5.add_nil (p := some x.1) (t := none)).perm (List.Perm.swap _ _ _)
  simpa [Heap.setParentOpt] using SegRep.unfocus (x := x) (post := []) h6

end Tins.Own
