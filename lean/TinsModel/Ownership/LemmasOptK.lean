import TinsModel.Ownership.LemmasOptJ
/-
  Storage-level PDUOption model, part K: `init`, `end`, the simulation of every step and of every history.
-/
namespace Tins.OptStore
open Pool

theorem obj?_replicate (n i : Nat) (σ : Pool) (h : σ.objs = List.replicate n none) : σ.obj? i = none := by
  rw [obj?_eq_none, h]
  by_cases hi : i < n
  · right; simp [hi]
  · left; simp; omega

theorem opt?_all_none {A : SState} (h : ∀ x ∈ A.opts, x = none) (i : Nat) : A.opt? i = none := by
  rw [opt?_eq_none]
  cases hx : A.opts[i]? with
  | none => left; rfl
  | some x =>
    right
    have := h x (List.mem_of_getElem? hx)
    rw [this]

theorem rep_init (n cap : Nat) :
    Rep ({ objs := List.replicate (n + cap) none, nuser := n } : Pool)
        ({ opts := List.replicate (n + cap) none, nuser := n } : SState) := by
  have hobj : ∀ i, ({ objs := List.replicate (n + cap) none, nuser := n } : Pool).obj? i = none :=
    fun i => obj?_replicate (n + cap) i _ rfl
  have hopt : ∀ i, ({ opts := List.replicate (n + cap) none, nuser := n } : SState).opt? i = none :=
    fun i => opt?_all_none (by intro x hx; exact (List.mem_replicate.mp hx).2) i
  refine ⟨⟨rfl, ?_, ?_, ?_, ?_, ?_, List.nodup_nil, ?_⟩, by simp, rfl, rfl, ?_, by simp⟩
  · intro i _
    unfold Corr
    rw [hobj, hopt]
    trivial
  · intro t ht; exact absurd ht id
  · intro i j a _ _ ⟨o, ho, _⟩
    rw [hobj] at ho; cases ho
  · intro a ha
    simp [Pool.cell?] at ha
  · intro a ha; exact absurd ha id
  · intro a; simp
  · intro i hi
    rw [hopt]
    simp
    exact hi

theorem sim_init {σ : Pool} {A : SState} (n cap : Nat) : Sim (step σ (.init n cap)) (A.step (.init n cap)) := by
  simp only [step, SState.step]
  exact rep_init n cap

theorem sim_fin {σ : Pool} {A : SState} (h : Rep σ A) : Sim (step σ .fin) (A.step .fin) := by
  simp only [step, SState.step]
  have hinv := (destroyAll_inv h.inv σ.objs.length).set_vlen 0
  have hsh := shape_destroyAll σ σ.objs.length
  have hnone : ∀ i, ({ A with opts := A.opts.map (fun _ => none), vlen := 0 } : SState).opt? i = none :=
    fun i => opt?_all_none (by
      intro x hx
      obtain ⟨_, _, e⟩ := List.mem_map.mp hx
      exact e.symm) i
  refine ⟨hinv.congr_f ?_, ?_, ?_, rfl, ?_, ?_⟩
  · intro i
    rw [hnone]
    split
    · rfl
    · next hi =>
      rw [opt?_eq_none]
      left
      rw [List.getElem?_eq_none_iff, ← h.len]
      omega
  · show (σ.destroyAll _).objs.length = (A.opts.map _).length
    rw [hsh.len, h.len]; simp
  · show (σ.destroyAll _).nuser = A.nuser
    rw [hsh.nuser, h.nuser]
  · intro i hi
    rw [hnone]
    change A.nuser ≤ i at hi
    show (none : Option VOpt).isSome = true ↔ i < A.nuser + 0
    simp; omega
  · show A.nuser + 0 ≤ (A.opts.map _).length
    have := h.cap
    simp; omega

/-- **every operation**: model and specification refuse the same operations; an accepted operation leads to related
    states -/
theorem step_sim {σ : Pool} {A : SState} (h : Rep σ A) (op : Op) : Sim (step σ op) (A.step op) := by
  cases op with
  | init n cap => exact sim_init n cap
  | fin => exact sim_fin h
  | newNull i code len => exact sim_newNull h i code len
  | newData i code d => exact sim_newData h i code d
  | newRange i code d => exact sim_newRange h i code d
  | newAdv i code len d => exact sim_newAdv h i code len d
  | copy i j => exact sim_copy h i j
  | move i j => exact sim_move h i j
  | assign i j => exact sim_assign h i j
  | massign i j => exact sim_massign h i j
  | del i => exact sim_del h i
  | read i => exact sim_read h i
  | vpush j => exact sim_vpush h j
  | vpushMove j => exact sim_vpushMove h j
  | verase k => exact sim_verase h k
  | vpop => exact sim_vpop h

theorem step_rep {σ σ' : Pool} {A : SState} {op : Op} (h : Rep σ A) (hs : step σ op = some σ') :
    ∃ A', A.step op = some A' ∧ Rep σ' A' := by
  have := step_sim h op
  rw [hs] at this
  unfold Sim at this
  cases hA : A.step op with
  | none => rw [hA] at this; exact absurd this id
  | some A' => rw [hA] at this; exact ⟨A', rfl, this⟩

theorem step_agree {σ : Pool} {A : SState} (h : Rep σ A) (op : Op) : (step σ op).isSome = (A.step op).isSome := by
  have := step_sim h op
  unfold Sim at this
  cases hs : step σ op <;> cases hA : A.step op <;> rw [hs, hA] at this <;> first | rfl | exact absurd this id

theorem stepD_rep {σ : Pool} {A : SState} (h : Rep σ A) (op : Op) : Rep (stepD σ op) (A.stepD op) := by
  have := step_sim h op
  unfold Sim at this
  unfold stepD SState.stepD
  cases hs : step σ op <;> cases hA : A.step op <;> rw [hs, hA] at this
  · exact h
  · exact absurd this id
  · exact absurd this id
  · exact this

theorem rep_empty : Rep {} {} := by
  have := rep_init 0 0
  simpa using this

theorem run_rep {σ : Pool} {A : SState} (h : Rep σ A) (ops : List Op) : Rep (run σ ops) (A.run ops) := by
  induction ops generalizing σ A with
  | nil => exact h
  | cons op r ih => exact ih (stepD_rep h op)

end Tins.OptStore
