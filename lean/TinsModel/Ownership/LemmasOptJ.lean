import TinsModel.Ownership.LemmasOptI
/-
  Storage-level PDUOption model, part J: vector operations, `init`, `end`, and the simulation of every step.
-/
namespace Tins.OptStore
open Pool

theorem Rep.vec_slot_free {σ : Pool} {A : SState} (h : Rep σ A) (hc : A.nuser + A.vlen < A.opts.length) :
    A.opt? (A.nuser + A.vlen) = none ∧ σ.objs[A.nuser + A.vlen]? = some none := by
  have h1 : A.opt? (A.nuser + A.vlen) = none := by
    have := h.vecLive (A.nuser + A.vlen) (by omega)
    cases hx : A.opt? (A.nuser + A.vlen) with
    | none => rfl
    | some v => rw [hx] at this; simp at this
  refine ⟨h1, ?_⟩
  rw [h.free_iff, free_iff_opt]
  exact ⟨hc, h1⟩

theorem sim_vpush {σ : Pool} {A : SState} (h : Rep σ A) (j : Nat) :
    Sim (step σ (.vpush j)) (A.step (.vpush j)) := by
  simp only [step, SState.step, h.nuser, h.vlen, h.len]
  cases hj : A.opt? j with
  | none => simp [h.obj_isNone hj, Sim]
  | some v =>
    simp only [h.obj_isSome hj, and_true]
    by_cases hg : A.nuser + A.vlen < A.opts.length
    · simp only [hg, if_true]
      obtain ⟨hnone, hfree⟩ := h.vec_slot_free hg
      have hinv := (copyCtor_inv h.inv hfree hj).set_vlen (A.vlen + 1)
      refine ⟨?_, ?_, ?_, ?_, ?_, ?_⟩
      · show Inv _ (A.put (A.nuser + A.vlen) (some v)).opt?
        rw [opt?_put_fun hg]; exact hinv
      · show (σ.copyCtor _ _).objs.length = (A.put _ _).opts.length
        rw [(shape_copyCtor _ _ _).len, h.len]; simp
      · show (σ.copyCtor _ _).nuser = A.nuser
        rw [(shape_copyCtor _ _ _).nuser, h.nuser]
      · rfl
      · intro i hi
        show ((A.put (A.nuser + A.vlen) (some v)).opt? i).isSome ↔ i < A.nuser + (A.vlen + 1)
        rw [opt?_put]
        by_cases e : i = A.nuser + A.vlen
        · simp [e, hg]
        · simp only [e, false_and, if_false]
          rw [h.vecLive i hi]
          omega
      · show A.nuser + (A.vlen + 1) ≤ (A.put _ _).opts.length
        simp; omega
    · simp only [hg, if_false]
      trivial

theorem sim_vpushMove {σ : Pool} {A : SState} (h : Rep σ A) (j : Nat) :
    Sim (step σ (.vpushMove j)) (A.step (.vpushMove j)) := by
  simp only [step, SState.step, h.nuser, h.vlen, h.len]
  cases hj : A.opt? j with
  | none => simp [h.obj_isNone hj, Sim]
  | some v =>
    simp only [h.obj_isSome hj, and_true]
    by_cases hg : A.nuser + A.vlen < A.opts.length
    · simp only [hg, if_true]
      obtain ⟨hnone, hfree⟩ := h.vec_slot_free hg
      have hinv := (moveCtor_inv h.inv hfree hj).set_vlen (A.vlen + 1)
      have hjl := lt_of_opt? hj
      have hne : j ≠ A.nuser + A.vlen := by intro e; rw [e, hnone] at hj; cases hj
      refine ⟨?_, ?_, ?_, ?_, ?_, ?_⟩
      · show Inv _ ((A.put j (some v.movedFrom)).put (A.nuser + A.vlen) (some v)).opt?
        rw [opt?_put_fun (by simpa using hg), opt?_put_fun hjl]; exact hinv
      · show (σ.moveCtor _ _).objs.length = ((A.put _ _).put _ _).opts.length
        rw [(shape_moveCtor _ _ _).len, h.len]; simp
      · show (σ.moveCtor _ _).nuser = A.nuser
        rw [(shape_moveCtor _ _ _).nuser, h.nuser]
      · rfl
      · intro i hi
        show (((A.put j (some v.movedFrom)).put (A.nuser + A.vlen) (some v)).opt? i).isSome ↔ i < A.nuser + (A.vlen + 1)
        rw [opt?_put]
        by_cases e : i = A.nuser + A.vlen
        · simp [e, hg]
        · simp only [e, false_and, if_false]
          rw [put_live_same (by rw [hj]; rfl), h.vecLive i hi]
          omega
      · show A.nuser + (A.vlen + 1) ≤ ((A.put _ _).put _ _).opts.length
        simp; omega
    · simp only [hg, if_false]
      trivial

theorem sim_vpop {σ : Pool} {A : SState} (h : Rep σ A) : Sim (step σ .vpop) (A.step .vpop) := by
  simp only [step, SState.step, h.nuser, h.vlen]
  by_cases hg : 0 < A.vlen
  · simp only [hg, if_true]
    have hlive : (A.opt? (A.nuser + A.vlen - 1)).isSome := (h.vecLive _ (by omega)).mpr (by omega)
    obtain ⟨ot, hot⟩ := Option.isSome_iff_exists.mp (by rw [h.live_iff]; exact hlive : (σ.obj? (A.nuser + A.vlen - 1)).isSome = true)
    have hinv := (destroy_inv h.inv hot).set_vlen (A.vlen - 1)
    have hcap := h.cap
    refine ⟨?_, ?_, ?_, ?_, ?_, ?_⟩
    · show Inv _ (A.put (A.nuser + A.vlen - 1) none).opt?
      rw [opt?_put_fun (by omega)]; exact hinv
    · show (σ.destroy _).objs.length = (A.put _ _).opts.length
      rw [(shape_destroy _ _).len, h.len]; simp
    · show (σ.destroy _).nuser = A.nuser
      rw [(shape_destroy _ _).nuser, h.nuser]
    · rfl
    · intro i hi
      show ((A.put (A.nuser + A.vlen - 1) none).opt? i).isSome ↔ i < A.nuser + (A.vlen - 1)
      rw [opt?_put]
      by_cases e : i = A.nuser + A.vlen - 1
      · have : A.nuser + A.vlen - 1 < A.opts.length := by omega
        simp only [e, this, and_self, if_true]
        simp; omega
      · simp only [e, false_and, if_false]
        rw [h.vecLive i hi]
        omega
    · show A.nuser + (A.vlen - 1) ≤ (A.put _ _).opts.length
      simp; omega
  · simp only [hg, if_false]
    trivial

/-! ### `erase` at value level -/

theorem erase_getElem? (L : List (Option VOpt)) (m p j : Nat) (hp : p < m) (hm : m ≤ L.length) :
    (((L.take m).eraseIdx p) ++ (none :: L.drop m))[j]? =
      if j < p then L[j]? else if j < m - 1 then L[j + 1]? else if j = m - 1 then some none else L[j]? := by
  have hlen : ((L.take m).eraseIdx p).length = m - 1 := by
    rw [List.length_eraseIdx]
    simp [List.length_take, Nat.min_eq_left hm, hp]
  rw [List.getElem?_append, hlen]
  by_cases c1 : j < m - 1
  · simp only [c1, if_true]
    rw [List.getElem?_eraseIdx]
    by_cases c2 : j < p
    · simp only [c2, if_true]
      rw [List.getElem?_take]; simp; omega
    · simp only [c2, if_false]
      rw [List.getElem?_take]; simp; omega
  · simp only [c1, if_false]
    have c2 : ¬ j < p := by omega
    simp only [c2, if_false]
    by_cases c3 : j = m - 1
    · simp [c3]
    · simp only [c3, if_false]
      have : j - (m - 1) = (j - m) + 1 := by omega
      rw [this, List.getElem?_cons_succ, List.getElem?_drop]
      congr 1; omega

theorem opt?_of_getElem? {A B : SState} {i j : Nat} (h : A.opts[i]? = B.opts[j]?) : A.opt? i = B.opt? j := by
  unfold SState.opt?; rw [h]

theorem erase_opt? (A : SState) (k : Nat) (hk : k < A.vlen) (hcap : A.nuser + A.vlen ≤ A.opts.length) (j : Nat) :
    ({ A with opts := ((A.opts.take (A.nuser + A.vlen)).eraseIdx (A.nuser + k)) ++ (none :: A.opts.drop (A.nuser + A.vlen)),
              vlen := A.vlen - 1 } : SState).opt? j =
      if j < A.nuser + k then A.opt? j else if j < A.nuser + A.vlen - 1 then A.opt? (j + 1)
      else if j = A.nuser + A.vlen - 1 then none else A.opt? j := by
  have := erase_getElem? A.opts (A.nuser + A.vlen) (A.nuser + k) j (by omega) hcap
  unfold SState.opt?
  dsimp only
  rw [this]
  by_cases c1 : j < A.nuser + k
  · rw [if_pos c1, if_pos c1]
  · by_cases c2 : j < A.nuser + A.vlen - 1
    · rw [if_neg c1, if_pos c2, if_neg c1, if_pos c2]
    · by_cases c3 : j = A.nuser + A.vlen - 1
      · rw [if_neg c1, if_neg c2, if_pos c3, if_neg c1, if_neg c2, if_pos c3]
      · rw [if_neg c1, if_neg c2, if_neg c3, if_neg c1, if_neg c2, if_neg c3]

theorem erase_length (L : List (Option VOpt)) (m p : Nat) (hp : p < m) (hm : m ≤ L.length) :
    (((L.take m).eraseIdx p) ++ (none :: L.drop m)).length = L.length := by
  rw [List.length_append, List.length_eraseIdx]
  simp only [List.length_take, Nat.min_eq_left hm, hp, if_true, List.length_cons, List.length_drop]
  omega

theorem vErase_eq (σ : Pool) (k : Nat) :
    σ.vErase k = { (σ.moveDown (σ.vlen - 1 - k) (σ.nuser + k)).destroy (σ.nuser + σ.vlen - 1) with vlen := σ.vlen - 1 } := by
  unfold Pool.vErase
  dsimp only
  have hsh := shape_moveDown σ (σ.vlen - 1 - k) (σ.nuser + k)
  rw [hsh.nuser, hsh.vlen, (shape_destroy _ _).vlen, hsh.vlen]

theorem sim_verase {σ : Pool} {A : SState} (h : Rep σ A) (k : Nat) :
    Sim (step σ (.verase k)) (A.step (.verase k)) := by
  simp only [step, SState.step, h.vlen]
  by_cases hg : k < A.vlen
  · simp only [hg, if_true]
    have hcap := h.cap
    -- the loop
    have hl : ∀ q, A.nuser + k ≤ q → q ≤ A.nuser + k + (A.vlen - 1 - k) → (A.opt? q).isSome :=
      fun q h1 h2 => (h.vecLive q (by omega)).mpr (by omega)
    have hloop := moveDown_inv (A.vlen - 1 - k) (A.nuser + k) h.inv hl
    obtain ⟨hspec, hlast⟩ := fMoveDown_spec A.opt? (A.vlen - 1 - k) (A.nuser + k) hl
    have hsh := shape_moveDown σ (A.vlen - 1 - k) (A.nuser + k)
    have hidx : A.nuser + k + (A.vlen - 1 - k) = A.nuser + A.vlen - 1 := by omega
    rw [hidx] at hlast hspec
    obtain ⟨ol, hol⟩ := Option.isSome_iff_exists.mp
      (by rw [(hloop.corr _ (by simp)).some_iff]; exact hlast :
        ((σ.moveDown (A.vlen - 1 - k) (A.nuser + k)).obj? (A.nuser + A.vlen - 1)).isSome = true)
    have hd := (destroy_inv hloop hol).set_vlen (A.vlen - 1)
    rw [vErase_eq, h.vlen, h.nuser]
    have hfun : ∀ j, upd (fMoveDown A.opt? (A.vlen - 1 - k) (A.nuser + k)) (A.nuser + A.vlen - 1) none j =
        ({ A with opts := ((A.opts.take (A.nuser + A.vlen)).eraseIdx (A.nuser + k)) ++ (none :: A.opts.drop (A.nuser + A.vlen)),
                  vlen := A.vlen - 1 } : SState).opt? j := by
      intro j
      rw [erase_opt? A k hg hcap j]
      unfold upd
      by_cases e : j = A.nuser + A.vlen - 1
      · rw [if_pos e, if_neg (by omega), if_neg (by omega), if_pos e]
      · rw [if_neg e, hspec j e]
        by_cases c1 : j < A.nuser + k
        · rw [if_pos c1, if_pos c1]
        · rw [if_neg c1, if_neg c1]
          by_cases c2 : j < A.nuser + A.vlen - 1
          · rw [if_pos c2, if_pos c2]
          · rw [if_neg c2, if_neg c2, if_neg e]
    have hlenL := erase_length A.opts (A.nuser + A.vlen) (A.nuser + k) (by omega) hcap
    refine ⟨hd.congr_f hfun, ?_, ?_, rfl, ?_, ?_⟩
    · show (Pool.destroy _ _).objs.length = List.length _
      rw [(shape_destroy _ _).len, hsh.len, h.len, hlenL]
    · show (Pool.destroy _ _).nuser = A.nuser
      rw [(shape_destroy _ _).nuser, hsh.nuser, h.nuser]
    · intro i hi
      change A.nuser ≤ i at hi
      show (SState.opt? _ i).isSome ↔ i < A.nuser + (A.vlen - 1)
      rw [erase_opt? A k hg hcap i]
      by_cases c1 : i < A.nuser + k
      · rw [if_pos c1, h.vecLive i hi]; omega
      · by_cases c2 : i < A.nuser + A.vlen - 1
        · rw [if_neg c1, if_pos c2, h.vecLive (i + 1) (by omega)]; omega
        · by_cases c3 : i = A.nuser + A.vlen - 1
          · rw [if_neg c1, if_neg c2, if_pos c3]; simp; omega
          · rw [if_neg c1, if_neg c2, if_neg c3, h.vecLive i hi]; omega
    · show A.nuser + (A.vlen - 1) ≤ List.length _
      rw [hlenL]; omega
  · simp only [hg, if_false]
    trivial

end Tins.OptStore
