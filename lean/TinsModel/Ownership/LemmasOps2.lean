import TinsModel.Ownership.LemmasOps
/-
  Root-chain level specifications of the composite functions: `operator/=`, `operator/`, copy assignment,
  member-wise move assignment.
-/
namespace Tins.Own

theorem lst_append_of_ne {c1 c2 : Chain} (h : c2 ≠ []) : lst (c1 ++ c2) = lst c2 := by
  unfold lst
  rw [List.getLast?_append]
  cases c2 with
  | nil => exact absurd rfl h
  | cons z r =>
    cases hh : (z :: r).getLast? with
    | none => simp at hh
    | some w => simp

theorem chain_concat {c : Chain} (h : c ≠ []) : ∃ pre z, c = pre ++ [z] ∧ lst c = some z.1 := by
  refine ⟨c.dropLast, c.getLast h, (List.dropLast_concat_getLast h).symm, ?_⟩
  unfold lst
  rw [List.getLast?_eq_getLast h]; rfl

theorem length_le_of_root {h : Heap} {S : List SegT} {c : Chain} (hr : SegRep h S) (hm : root c ∈ S) :
    c.length ≤ h.cells.length := by
  have h1 := addrs_sub_nodup hm hr.nodup
  have := nodup_bounded_length h.cells.length (addrs c) h1 (fun a ha => hr.lt (mem_allAddrs_of_mem hm ha))
  simpa [addrs] using this

/-- `p->inner_pdu() ? p->inner_pdu()->clone() : 0` for a layer `y` of a root chain -/
theorem cloneOpt_tail {h : Heap} {S : List SegT} {pre rb : Chain} {y : Nat × View}
    (hr : SegRep h S) (hm : root (pre ++ y :: rb) ∈ S) :
    (cloneOpt h (hd rb)).2 = hd (freshCopy h.cells.length rb) ∧
    SegRep (cloneOpt h (hd rb)).1 (root (freshCopy h.cells.length rb) :: S) ∧
    (cloneOpt h (hd rb)).1.cells.length = h.cells.length + rb.length ∧
    (∀ z, z < h.cells.length → (cloneOpt h (hd rb)).1.get z = h.get z) := by
  cases rb with
  | nil => exact ⟨rfl, hr.add_nil, rfl, fun _ _ => rfl⟩
  | cons z rest =>
    have hm' : root ((pre ++ [y]) ++ z :: rest) ∈ S := by simpa using hm
    obtain ⟨e1, e2, e3, e4⟩ := clone_sub hr hm'
    obtain ⟨za, zv⟩ := z
    simp only [hd_cons, cloneOpt, freshCopy]
    exact ⟨e1, e2, e3, e4⟩

/-- `lop /= rop` where `lop` is a layer of a root chain and `rop` a layer of any root chain (possibly the same) -/
theorem divEq_spec {h : Heap} {S : List SegT} {pre post preB rb : Chain} {x y : Nat × View}
    (hr : SegRep h (root (pre ++ x :: post) :: S)) (hm : root (preB ++ y :: rb) ∈ root (pre ++ x :: post) :: S) :
    SegRep (divEq h x.1 y.1) (root ((pre ++ x :: post) ++ freshCopy h.cells.length (y :: rb)) :: S) ∧
    (divEq h x.1 y.1).cells.length = h.cells.length + (y :: rb).length := by
  have hseg := Seg.sub (hr.segs _ (List.mem_cons_self ..))
  have hlen : (x :: post).length ≤ h.cells.length := by
    have := length_le_of_root hr (List.mem_cons_self ..)
    simp at this ⊢; omega
  have hlast := lastOf_spec post x h.cells.length _ hlen hseg
  obtain ⟨pre', z, hcz, hlz⟩ := chain_concat (c := pre ++ x :: post) (by simp)
  have hl2 : lst (x :: post) = some z.1 := by rw [← hlz, lst_append_of_ne (by simp)]
  simp only [divEq, hlast, hl2]
  obtain ⟨e1, e2, e3, _⟩ := clone_sub hr hm
  generalize hcl : clone h y.1 = res at e1 e2 e3
  obtain ⟨h1, c⟩ := res
  simp only at e1 e2 e3 ⊢
  subst e1
  have e2' : SegRep h1 (root (pre' ++ z :: []) :: root (freshCopy h.cells.length (y :: rb)) :: S) := by
    rw [← hcz]; exact e2.perm (List.Perm.swap _ _ _)
  have hhd : hd (freshCopy h.cells.length (y :: rb)) = some h.cells.length := by
    obtain ⟨ya, yv⟩ := y; rfl
  obtain ⟨h3, hl3⟩ := innerPduPtr_at e2'
  rw [hhd] at h3 hl3
  refine ⟨?_, by rw [hl3, e3]⟩
  have : pre' ++ z :: freshCopy h.cells.length (y :: rb) = (pre ++ x :: post) ++ freshCopy h.cells.length (y :: rb) := by
    rw [hcz]; simp
  rw [← this]; exact h3

/-- `new T(lop / rop)` -/
theorem divNew_spec {h : Heap} {S : List SegT} {preA ra preB rb : Chain} {x y : Nat × View} {n : Nat}
    (hn : h.cells.length = n)
    (hr : SegRep h S) (hma : root (preA ++ x :: ra) ∈ S) (hmb : root (preB ++ y :: rb) ∈ S) :
    (divNew h x.1 y.1).2 = some (n + 1 + ra.length + (y :: rb).length) ∧
    SegRep (divNew h x.1 y.1).1
      (root ((n + 1 + ra.length + (y :: rb).length, x.2) :: (freshCopy (n + 1) ra ++ freshCopy (n + 1 + ra.length) (y :: rb))) :: S) ∧
    (divNew h x.1 y.1).1.cells.length = n + 1 + ra.length + (y :: rb).length + 1 := by
  -- the by-value parameter
  obtain ⟨e1, e2, e3, _⟩ := clone_sub hr hma
  rw [hn] at e1 e2 e3
  generalize hcl : clone h x.1 = res at e1 e2 e3
  obtain ⟨h1, c⟩ := res
  simp only at e1 e2 e3
  subst e1
  simp only [divNew, hcl]
  obtain ⟨xa, xv⟩ := x
  have e3' : h1.cells.length = n + 1 + ra.length := by rw [e3]; simp only [List.length_cons]; omega
  have e2' : SegRep h1 (root ([] ++ (n, xv) :: freshCopy (n + 1) ra) :: S) := e2
  -- lop /= rop
  obtain ⟨d1, d2⟩ := divEq_spec (preB := preB) (y := y) (rb := rb) e2' (List.mem_cons_of_mem _ hmb)
  rw [e3'] at d1 d2
  -- the result is move-constructed from the parameter, which is then destroyed
  have d1' : SegRep (divEq h1 n y.1) (root ([] ++ (n, xv) :: (freshCopy (n + 1) ra ++ freshCopy (n + 1 + ra.length) (y :: rb))) :: S) := by
    simpa only [List.nil_append, List.cons_append] using d1
  obtain ⟨m1, m2, m3⟩ := moveCtor_at d1'
  rw [d2] at m1 m2 m3
  generalize hmv : moveCtor (divEq h1 n y.1) n = res at m1 m2 m3
  obtain ⟨h3, r⟩ := res
  simp only at m1 m2 m3 ⊢
  subst m1
  have m2' : SegRep h3 (⟨none, [(n, xv.moved)], none⟩ ::
      root ((n + 1 + ra.length + (y :: rb).length, xv) :: (freshCopy (n + 1) ra ++ freshCopy (n + 1 + ra.length) (y :: rb))) :: S) := m2
  obtain ⟨f1, f2⟩ := deletePtr_spec m2'
  exact ⟨rfl, f1, f2.trans m3⟩

/-- `PDU::operator=(const PDU&)` (fixed) from a layer `y` into a layer `xa` of a root chain -/
theorem assignBase_spec {h : Heap} {S : List SegT} {preA postA preB rb : Chain} {xa y : Nat × View}
    (hr : SegRep h (root (preA ++ xa :: postA) :: S)) (hm : root (preB ++ y :: rb) ∈ root (preA ++ xa :: postA) :: S) :
    SegRep (assignBase h xa.1 y.1) (root (preA ++ xa :: freshCopy h.cells.length rb) :: S) ∧
    (assignBase h xa.1 y.1).cells.length = h.cells.length + rb.length := by
  have hgy := hr.mem_get_at hm
  simp only [assignBase, hgy]
  obtain ⟨e1, e2, e3, _⟩ := cloneOpt_tail hr hm
  generalize hcl : cloneOpt h (hd rb) = res at e1 e2 e3
  obtain ⟨h1, c⟩ := res
  simp only at e1 e2 e3 ⊢
  subst e1
  obtain ⟨h3, hl3⟩ := innerPduPtr_at (e2.perm (List.Perm.swap _ _ _))
  exact ⟨h3, by rw [hl3, e3]⟩

/-- implicit `T::operator=(const T&)` -/
theorem assignSame_spec {h : Heap} {S : List SegT} {preA postA preB rb : Chain} {xa y : Nat × View}
    (hr : SegRep h (root (preA ++ xa :: postA) :: S)) (hm : root (preB ++ y :: rb) ∈ root (preA ++ xa :: postA) :: S)
    (hy : ∀ h2 T, SegRep h2 (root (preA ++ xa :: T) :: S) → ∃ i p, h2.get y.1 = some ⟨y.2, i, p⟩) :
    SegRep (assignSame h xa.1 y.1) (root (preA ++ (xa.1, y.2) :: freshCopy h.cells.length rb) :: S) ∧
    (assignSame h xa.1 y.1).cells.length = h.cells.length + rb.length := by
  obtain ⟨h1, hl1⟩ := assignBase_spec hr hm
  obtain ⟨i, p, hg⟩ := hy _ _ h1
  simp only [assignSame, hg]
  obtain ⟨h2, hl2⟩ := setView_at h1 y.2
  exact ⟨h2, by rw [hl2, hl1]⟩

/-- implicit `T::operator=(T&&)` between layers of two different root chains -/
theorem moveAssignSame_at {h : Heap} {S : List SegT} {preA postA preB postB : Chain} {xa xb : Nat × View}
    (hr : SegRep h (root (preA ++ xa :: postA) :: root (preB ++ xb :: postB) :: S)) :
    SegRep (moveAssignSame h xa.1 xb.1) (root (preA ++ (xa.1, xb.2) :: postB) :: root (preB ++ [(xb.1, xb.2.moved)]) :: S) ∧
    (moveAssignSame h xa.1 xb.1).cells.length = h.cells.length := by
  obtain ⟨h1, hl1⟩ := moveAssignBase_at hr
  have hg := (h1.perm (List.Perm.swap _ _ _)).get_at
  simp only [moveAssignSame, hg]
  obtain ⟨h2, hl2⟩ := setView_at h1 xb.2
  obtain ⟨h3, hl3⟩ := setView_at (h2.perm (List.Perm.swap _ _ _)) xb.2.moved
  exact ⟨h3.perm (List.Perm.swap _ _ _), by rw [hl3, hl2, hl1]⟩

/-- implicit `T::operator=(T&&)` of a layer onto itself -/
theorem moveAssignSame_self {h : Heap} {S : List SegT} {pre post : Chain} {x : Nat × View}
    (hr : SegRep h (root (pre ++ x :: post) :: S)) :
    SegRep (moveAssignSame h x.1 x.1) (root (pre ++ [(x.1, x.2.moved)]) :: S) ∧
    (moveAssignSame h x.1 x.1).cells.length = h.cells.length := by
  obtain ⟨h1, hl1⟩ := moveAssignBase_self hr
  have hg := h1.get_at
  simp only [moveAssignSame, hg]
  obtain ⟨h2, hl2⟩ := setView_at h1 x.2
  obtain ⟨h3, hl3⟩ := setView_at (x := (x.1, x.2)) h2 x.2.moved
  exact ⟨h3, by rw [hl3, hl2, hl1]⟩

end Tins.Own
