import TinsModel.Ownership.LemmasOptF
/-
  Storage-level PDUOption model, part G: one operation of the line protocol on user slots keeps the representation
  relation (and model and specification refuse the same operations).
-/
namespace Tins.OptStore
open Pool

/-- simulation of one step: both sides refuse, or both accept and the results are related -/
def Sim (x : Option Pool) (y : Option SState) : Prop :=
  match x, y with
  | some σ', some A' => Rep σ' A'
  | none, none => True
  | _, _ => False

theorem lt_of_opt? {A : SState} {i : Nat} {v : VOpt} (h : A.opt? i = some v) : i < A.opts.length := by
  unfold SState.opt? at h
  split at h
  · next h' => exact (List.getElem?_eq_some_iff.mp h').1
  · cases h

theorem Rep.of_inv {σ σ' : Pool} {A A' : SState} (h : Rep σ A) (hinv : Inv σ' A'.opt?) (hs : SameShape σ σ')
    (hl : A'.opts.length = A.opts.length) (hn : A'.nuser = A.nuser) (hv : A'.vlen = A.vlen)
    (hlive : ∀ i, A.nuser ≤ i → ((A'.opt? i).isSome ↔ (A.opt? i).isSome)) : Rep σ' A' where
  inv := hinv
  len := by rw [hs.len, h.len, hl]
  nuser := by rw [hs.nuser, h.nuser, hn]
  vlen := by rw [hs.vlen, h.vlen, hv]
  vecLive := by
    intro i hi
    rw [hn] at hi
    rw [hlive i hi, hn, hv]
    exact h.vecLive i hi
  cap := by rw [hn, hv, hl]; exact h.cap

theorem put_live_same {A : SState} {i : Nat} {v : VOpt} (h : (A.opt? i).isSome) (k : Nat) :
    ((A.put i (some v)).opt? k).isSome = (A.opt? k).isSome := by
  rw [opt?_put]
  split
  · next hk => rw [hk.1, h]; rfl
  · rfl

theorem put_user {A : SState} {i : Nat} (hi : i < A.nuser) (w : Option VOpt) (k : Nat) (hk : A.nuser ≤ k) :
    (A.put i w).opt? k = A.opt? k := by
  rw [opt?_put]
  have : ¬ k = i := by omega
  simp [this]

theorem Rep.user_lt {σ : Pool} {A : SState} (h : Rep σ A) {i : Nat} (hi : i < A.nuser) : i < A.opts.length := by
  have := h.cap; omega

theorem shape_ctorData (σ : Pool) (t opt len : Nat) (d : Option Bytes) : SameShape σ ((σ.ctorData t opt len d).getD σ) := by
  unfold Pool.ctorData
  dsimp only
  have base : SameShape σ ((((σ.place t).setOption t opt).setSize t (len % 65536)).setReal t 0) :=
    (((shape_place σ t).trans (shape_setObj _ _ _)).trans (shape_setObj _ _ _)).trans (shape_setObj _ _ _)
  cases d with
  | none => exact base
  | some bs =>
    dsimp only
    split
    · exact SameShape.refl σ
    · exact base.trans (shape_setPayloadContents _ _ _ _)

theorem shape_ctorRange (σ : Pool) (t opt : Nat) (bs : Bytes) : SameShape σ ((σ.ctorRange t opt bs).getD σ) := by
  unfold Pool.ctorRange
  dsimp only
  split
  · exact SameShape.refl σ
  · exact (((shape_place σ t).trans (shape_setObj _ _ _)).trans (shape_setObj _ _ _)).trans (shape_setPayloadContents _ _ _ _)

theorem shape_ctorAdv (σ : Pool) (t opt len : Nat) (bs : Bytes) : SameShape σ ((σ.ctorAdv t opt len bs).getD σ) := by
  unfold Pool.ctorAdv
  dsimp only
  split
  · exact SameShape.refl σ
  · exact (((shape_place σ t).trans (shape_setObj _ _ _)).trans (shape_setObj _ _ _)).trans (shape_setPayloadContents _ _ _ _)

/-- a constructor on a free user slot -/
theorem Rep.construct {σ σ' : Pool} {A : SState} (h : Rep σ A) {i : Nat} (hi : i < A.nuser) (code len : Nat) (d : Bytes)
    (hs : SameShape σ σ')
    (hinv : Inv σ' (if d.length > 65535 then A.opt? else upd A.opt? i (some ⟨code % 256, len % 65536, d⟩))) :
    Rep σ' (A.construct i code len d) := by
  unfold SState.construct
  split
  · next hd =>
    simp only [hd, if_true] at hinv
    exact Rep.of_inv h hinv hs rfl rfl rfl (fun _ _ => Iff.rfl)
  · next hd =>
    simp only [hd, if_false] at hinv
    refine Rep.of_inv h ?_ hs (by simp) rfl rfl ?_
    · rw [opt?_put_fun (h.user_lt hi)]; exact hinv
    · intro k hk; rw [put_user hi _ k hk]

theorem guard_user {σ : Pool} {A : SState} (h : Rep σ A) (i : Nat) :
    (i < σ.nuser ∧ σ.isFree i = true) ↔ (i < A.nuser ∧ A.isFree i = true) := by
  rw [h.nuser, h.isFree_eq]

theorem sim_newNull {σ : Pool} {A : SState} (h : Rep σ A) (i code len : Nat) :
    Sim (step σ (.newNull i code len)) (A.step (.newNull i code len)) := by
  simp only [step, SState.step]
  by_cases hg : i < A.nuser ∧ A.isFree i = true
  · have hg' := (guard_user h i).mpr hg
    simp only [hg, hg', and_self, if_true]
    have hfree := (h.free_iff i).mpr ((sisFree_iff A i).mp hg.2)
    obtain ⟨σ', hσ', hinv⟩ := ctorData_null_inv h.inv hfree (code % 256) len
    rw [hσ']
    refine Rep.of_inv h ?_ ?_ (by simp) rfl rfl ?_
    · rw [opt?_put_fun (h.user_lt hg.1)]; exact hinv
    · have := shape_ctorData σ i (code % 256) len none
      rw [hσ'] at this; exact this
    · intro k hk; rw [put_user hg.1 _ k hk]
  · have hg' : ¬ (i < σ.nuser ∧ σ.isFree i = true) := fun x => hg ((guard_user h i).mp x)
    simp only [hg, hg', if_false]
    trivial

theorem sim_newData {σ : Pool} {A : SState} (h : Rep σ A) (i code : Nat) (d : Bytes) :
    Sim (step σ (.newData i code d)) (A.step (.newData i code d)) := by
  simp only [step, SState.step]
  by_cases hg : i < A.nuser ∧ A.isFree i = true
  · have hg' := (guard_user h i).mpr hg
    simp only [hg, hg', and_self, if_true]
    have hfree := (h.free_iff i).mpr ((sisFree_iff A i).mp hg.2)
    exact h.construct hg.1 code d.length d (shape_ctorData _ _ _ _ _) (ctorData_inv h.inv hfree (code % 256) d)
  · have hg' : ¬ (i < σ.nuser ∧ σ.isFree i = true) := fun x => hg ((guard_user h i).mp x)
    simp only [hg, hg', if_false]
    trivial

theorem sim_newRange {σ : Pool} {A : SState} (h : Rep σ A) (i code : Nat) (d : Bytes) :
    Sim (step σ (.newRange i code d)) (A.step (.newRange i code d)) := by
  simp only [step, SState.step]
  by_cases hg : i < A.nuser ∧ A.isFree i = true
  · have hg' := (guard_user h i).mpr hg
    simp only [hg, hg', and_self, if_true]
    have hfree := (h.free_iff i).mpr ((sisFree_iff A i).mp hg.2)
    exact h.construct hg.1 code d.length d (shape_ctorRange _ _ _ _) (ctorRange_inv h.inv hfree (code % 256) d)
  · have hg' : ¬ (i < σ.nuser ∧ σ.isFree i = true) := fun x => hg ((guard_user h i).mp x)
    simp only [hg, hg', if_false]
    trivial

theorem sim_newAdv {σ : Pool} {A : SState} (h : Rep σ A) (i code len : Nat) (d : Bytes) :
    Sim (step σ (.newAdv i code len d)) (A.step (.newAdv i code len d)) := by
  simp only [step, SState.step]
  by_cases hg : i < A.nuser ∧ A.isFree i = true
  · have hg' := (guard_user h i).mpr hg
    simp only [hg, hg', and_self, if_true]
    have hfree := (h.free_iff i).mpr ((sisFree_iff A i).mp hg.2)
    exact h.construct hg.1 code len d (shape_ctorAdv _ _ _ _ _) (ctorAdv_inv h.inv hfree (code % 256) len d)
  · have hg' : ¬ (i < σ.nuser ∧ σ.isFree i = true) := fun x => hg ((guard_user h i).mp x)
    simp only [hg, hg', if_false]
    trivial

end Tins.OptStore
