import TinsModel.Ownership.LemmasHeap
/-
  Specifications of the heap primitives and of the pointer-level functions of the model (`deleteNode`, `cloneNode`,
  `innerPduPtr`, …) as transformers of the segment decomposition `SegRep`.
-/
namespace Tins.Own

/-! ### pigeonhole: the recursion fuel `cells.length` suffices -/

theorem nodup_bounded_length : ∀ (n : Nat) (l : List Nat), l.Nodup → (∀ x ∈ l, x < n) → l.length ≤ n := by
  intro n
  induction n with
  | zero =>
    intro l _ hb
    cases l with
    | nil => simp
    | cons x r => exact absurd (hb x (by simp)) (by omega)
  | succ n ih =>
    intro l hn hb
    by_cases hm : n ∈ l
    · have h1 : (l.erase n).length ≤ n := by
        apply ih _ (hn.erase n)
        intro x hx
        have hx' := (List.Nodup.mem_erase_iff hn).mp hx
        have := hb x hx'.2
        omega
      rw [List.length_erase_of_mem hm] at h1
      omega
    · have : l.length ≤ n := by
        apply ih _ hn
        intro x hx
        have := hb x hx
        have : x ≠ n := fun e => hm (e ▸ hx)
        omega
      omega

theorem SegRep.length_le {h : Heap} {S : List SegT} (hr : SegRep h S) : (allAddrs S).length ≤ h.cells.length :=
  nodup_bounded_length _ _ hr.nodup (fun _ hx => hr.lt hx)

/-! ### primitives -/

theorem mem_allAddrs_of_mem {S : List SegT} {s : SegT} (hs : s ∈ S) {x : Nat} (hx : x ∈ addrs s.c) : x ∈ allAddrs S := by
  unfold allAddrs
  simp only [List.mem_flatten, List.mem_map]
  exact ⟨_, ⟨s, hs, rfl⟩, hx⟩

theorem FreedOK.alloc {h : Heap} {n : Node} (hf : FreedOK h) : FreedOK (h.alloc n).1 :=
  ⟨by rw [Heap.alloc_freed]; exact hf.1, fun a => by rw [Heap.alloc_freed, Heap.alloc_cells_none]; exact hf.2 a⟩

theorem FreedOK.put {h : Heap} {a : Nat} {m n : Node} (hg : h.get a = some m) (hf : FreedOK h) : FreedOK (h.put a n) :=
  ⟨by rw [Heap.put_freed]; exact hf.1, fun x => by rw [Heap.put_freed, Heap.put_cells_none hg]; exact hf.2 x⟩

theorem FreedOK.free {h : Heap} {a : Nat} {m : Node} (hg : h.get a = some m) (hf : FreedOK h) : FreedOK (h.free a) := by
  have hna : a ∉ h.freed := by
    intro hmem
    have := (hf.2 a).mp hmem
    rw [Heap.get_eq_some.mp hg] at this
    cases this
  refine ⟨by rw [Heap.free_freed]; exact List.nodup_cons.mpr ⟨hna, hf.1⟩, fun x => ?_⟩
  rw [Heap.free_freed, Heap.free_cells_none hg, List.mem_cons, hf.2 x]

/-- `new`: a fresh one-layer segment -/
theorem SegRep.alloc {h : Heap} {S : List SegT} (hr : SegRep h S) (v : View) (p t : Option Nat) :
    SegRep (h.alloc ⟨v, t, p⟩).1 (⟨p, [(h.cells.length, v)], t⟩ :: S) where
  segs := by
    intro s hs
    simp only [List.mem_cons] at hs
    rcases hs with rfl | hs
    · simp [Seg, Heap.get_alloc]
    · apply Seg.congr _ (hr.segs s hs)
      intro x hx
      have := hr.lt (mem_allAddrs_of_mem hs hx)
      rw [Heap.get_alloc, if_neg (by omega)]
  nodup := by
    simp only [allAddrs_cons, addrs_cons, addrs_nil, List.singleton_append, List.nodup_cons]
    exact ⟨fun hm => by have := hr.lt hm; omega, hr.nodup⟩
  cover := by
    intro a ha
    rw [Heap.get_alloc] at ha
    simp only [allAddrs_cons, addrs_cons, addrs_nil, List.singleton_append, List.mem_cons]
    by_cases hx : a = h.cells.length
    · exact Or.inl hx
    · rw [if_neg hx] at ha; exact Or.inr (hr.cover a ha)
  freed := hr.freed.alloc
  nofault := by rw [Heap.alloc_faults]; exact hr.nofault

theorem SegRep.head_get {h : Heap} {S : List SegT} {p t : Option Nat} {a : Nat} {v : View}
    (hr : SegRep h (⟨p, [(a, v)], t⟩ :: S)) : h.get a = some ⟨v, t, p⟩ := by
  have := (hr.segs ⟨p, [(a, v)], t⟩ (by simp)).1
  simpa using this

theorem SegRep.not_mem_tail {h : Heap} {S : List SegT} {p t : Option Nat} {a : Nat} {v : View}
    (hr : SegRep h (⟨p, [(a, v)], t⟩ :: S)) : a ∉ allAddrs S := by
  have := hr.nodup
  simp only [allAddrs_cons, addrs_cons, addrs_nil, List.singleton_append, List.nodup_cons] at this
  exact this.1

/-- overwrite of the cell of a one-layer segment -/
theorem SegRep.put {h : Heap} {S : List SegT} {p t : Option Nat} {a : Nat} {v : View}
    (hr : SegRep h (⟨p, [(a, v)], t⟩ :: S)) (v' : View) (p' t' : Option Nat) :
    SegRep (h.put a ⟨v', t', p'⟩) (⟨p', [(a, v')], t'⟩ :: S) where
  segs := by
    have hg := hr.head_get
    intro s hs
    simp only [List.mem_cons] at hs
    rcases hs with rfl | hs
    · simp [Seg, Heap.get_put hg]
    · apply Seg.congr _ (hr.segs s (by simp [hs]))
      intro x hx
      have hne : x ≠ a := fun e => hr.not_mem_tail (e ▸ mem_allAddrs_of_mem hs hx)
      rw [Heap.get_put hg, if_neg hne]
  nodup := by simpa using hr.nodup
  cover := by
    have hg := hr.head_get
    intro x hx
    rw [Heap.get_put hg] at hx
    by_cases hxa : x = a
    · subst hxa; simp
    · rw [if_neg hxa] at hx; simpa using hr.cover x hx
  freed := hr.freed.put hr.head_get
  nofault := by rw [Heap.put_faults hr.head_get]; exact hr.nofault

theorem SegRep.setInner {h : Heap} {S : List SegT} {p t : Option Nat} {a : Nat} {v : View}
    (hr : SegRep h (⟨p, [(a, v)], t⟩ :: S)) (t' : Option Nat) :
    SegRep (h.setInner a t') (⟨p, [(a, v)], t'⟩ :: S) := by
  unfold Heap.setInner; rw [hr.head_get]; exact hr.put v p t'

theorem SegRep.setParent {h : Heap} {S : List SegT} {p t : Option Nat} {a : Nat} {v : View}
    (hr : SegRep h (⟨p, [(a, v)], t⟩ :: S)) (p' : Option Nat) :
    SegRep (h.setParent a p') (⟨p', [(a, v)], t⟩ :: S) := by
  unfold Heap.setParent; rw [hr.head_get]; exact hr.put v p' t

theorem SegRep.setView {h : Heap} {S : List SegT} {p t : Option Nat} {a : Nat} {v : View}
    (hr : SegRep h (⟨p, [(a, v)], t⟩ :: S)) (v' : View) :
    SegRep (h.setView a v') (⟨p, [(a, v')], t⟩ :: S) := by
  unfold Heap.setView; rw [hr.head_get]; exact hr.put v' p t

/-- release of the storage of a one-layer segment -/
theorem SegRep.free {h : Heap} {S : List SegT} {p t : Option Nat} {a : Nat} {v : View}
    (hr : SegRep h (⟨p, [(a, v)], t⟩ :: S)) : SegRep (h.free a) S where
  segs := by
    have hg := hr.head_get
    intro s hs
    apply Seg.congr _ (hr.segs s (by simp [hs]))
    intro x hx
    have hne : x ≠ a := fun e => hr.not_mem_tail (e ▸ mem_allAddrs_of_mem hs hx)
    rw [Heap.get_free hg, if_neg hne]
  nodup := by have := hr.nodup; simp only [allAddrs_cons, List.nodup_append] at this; exact this.2.1
  cover := by
    have hg := hr.head_get
    intro x hx
    rw [Heap.get_free hg] at hx
    by_cases hxa : x = a
    · rw [if_pos hxa] at hx; cases hx
    · rw [if_neg hxa] at hx
      have := hr.cover x hx
      simp only [allAddrs_cons, addrs_cons, addrs_nil, List.singleton_append, List.mem_cons] at this
      exact this.resolve_left hxa
  freed := hr.freed.free hr.head_get
  nofault := by rw [Heap.free_faults hr.head_get]; exact hr.nofault

/-- re-parenting the first layer of a segment -/
theorem SegRep.setParent_head {h : Heap} {S : List SegT} {p t : Option Nat} {x : Nat × View} {rest : Chain}
    (hr : SegRep h (⟨p, x :: rest, t⟩ :: S)) (p' : Option Nat) :
    SegRep (h.setParent x.1 p') (⟨p', x :: rest, t⟩ :: S) := by
  have h1 := SegRep.split (c1 := [x]) (c2 := rest) hr
  have h2 := h1.setParent p'
  have h3 : SegRep (h.setParent x.1 p') (⟨p', [x], (hd rest).or t⟩ :: ⟨(lst [x]).or p', rest, t⟩ :: S) := by
    simpa [lst] using h2
  exact SegRep.join h3

/-! ### `delete` -/

theorem deleteNode_spec : ∀ (c : Chain) (x : Nat × View) (fuel : Nat) (h : Heap) (p : Option Nat) (S : List SegT),
    (x :: c).length ≤ fuel → SegRep h (⟨p, x :: c, none⟩ :: S) →
    SegRep (deleteNode fuel h x.1) S ∧ (deleteNode fuel h x.1).cells.length = h.cells.length := by
  intro c
  induction c with
  | nil =>
    intro x fuel h p S hf hr
    obtain ⟨f, rfl⟩ : ∃ f, fuel = f + 1 := ⟨fuel - 1, by simp at hf; omega⟩
    have hg : h.get x.1 = some ⟨x.2, none, p⟩ := by simpa using (hr.head_get (a := x.1) (v := x.2))
    simp only [deleteNode, hg]
    exact ⟨hr.free, Heap.free_cells_length⟩
  | cons y rest ih =>
    intro x fuel h p S hf hr
    obtain ⟨f, rfl⟩ : ∃ f, fuel = f + 1 := ⟨fuel - 1, by simp at hf; omega⟩
    have h1 := SegRep.split (c1 := [x]) (c2 := y :: rest) hr
    have h1' : SegRep h (⟨p, [(x.1, x.2)], some y.1⟩ :: ⟨some x.1, y :: rest, none⟩ :: S) := by simpa [lst] using h1
    have hg : h.get x.1 = some ⟨x.2, some y.1, p⟩ := h1'.head_get
    simp only [deleteNode, hg]
    -- the inner chain goes first
    have h2 : SegRep h (⟨some x.1, y :: rest, none⟩ :: ⟨p, [(x.1, x.2)], some y.1⟩ :: S) :=
      h1'.perm (List.Perm.swap _ _ _)
    obtain ⟨h3, hl⟩ := ih y f h (some x.1) _ (by simp at hf ⊢; omega) h2
    exact ⟨h3.free, by rw [Heap.free_cells_length, hl]⟩

theorem deletePtr_spec {h : Heap} {p : Option Nat} {c : Chain} {S : List SegT}
    (hr : SegRep h (⟨p, c, none⟩ :: S)) :
    SegRep (deletePtr h (hd c)) S ∧ (deletePtr h (hd c)).cells.length = h.cells.length := by
  cases c with
  | nil => exact ⟨hr.drop_nil, rfl⟩
  | cons x rest =>
    simp only [hd_cons, deletePtr]
    apply deleteNode_spec rest x _ h p S _ hr
    have := hr.length_le
    simp only [allAddrs_cons, List.length_append] at this
    simp only [addrs, List.length_map] at this
    omega

theorem setInner_length {h : Heap} {a : Nat} {t : Option Nat} : (h.setInner a t).cells.length = h.cells.length := by
  unfold Heap.setInner; split <;> simp [Heap.put_cells_length, Heap.fault]
theorem setParent_length {h : Heap} {a : Nat} {t : Option Nat} : (h.setParent a t).cells.length = h.cells.length := by
  unfold Heap.setParent; split <;> simp [Heap.put_cells_length, Heap.fault]
theorem setParentOpt_length {h : Heap} {a t : Option Nat} : (h.setParentOpt a t).cells.length = h.cells.length := by
  unfold Heap.setParentOpt; split <;> simp [setParent_length]
theorem setView_length {h : Heap} {a : Nat} {v : View} : (h.setView a v).cells.length = h.cells.length := by
  unfold Heap.setView; split <;> simp [Heap.put_cells_length, Heap.fault]

/-- `if (inner_pdu_) inner_pdu_->parent_pdu(q)` on the segment designated by the pointer -/
theorem SegRep.reparent {h : Heap} {S : List SegT} {p t : Option Nat} {c : Chain} (hr : SegRep h (⟨p, c, t⟩ :: S))
    (q : Option Nat) : SegRep (h.setParentOpt (hd c) q) (⟨q, c, t⟩ :: S) := by
  cases c with
  | nil => exact (hr.drop_nil).add_nil
  | cons y rest => exact hr.setParent_head q

/-! ### `inner_pdu(PDU*)` -/

theorem innerPduPtr_spec {h : Heap} {S : List SegT} {pa pn tn : Option Nat} {a : Nat} {v : View} {old nxt : Chain}
    (hr : SegRep h (⟨pa, [(a, v)], hd old⟩ :: ⟨some a, old, none⟩ :: ⟨pn, nxt, tn⟩ :: S)) :
    SegRep (innerPduPtr h a (hd nxt)) (⟨pa, [(a, v)], hd nxt⟩ :: ⟨some a, nxt, tn⟩ :: S) ∧
    (innerPduPtr h a (hd nxt)).cells.length = h.cells.length := by
  have hg := hr.head_get
  simp only [innerPduPtr, hg]
  -- delete inner_pdu_
  have h1 : SegRep h (⟨some a, old, none⟩ :: ⟨pa, [(a, v)], hd old⟩ :: ⟨pn, nxt, tn⟩ :: S) := hr.perm (List.Perm.swap _ _ _)
  obtain ⟨h2, hl2⟩ := deletePtr_spec h1
  -- inner_pdu_ = next_pdu; if (inner_pdu_) inner_pdu_->parent_pdu(this)
  have h3 := h2.setInner (hd nxt)
  have h5 := (h3.perm (List.Perm.swap _ _ _)).reparent (some a)
  exact ⟨h5.perm (List.Perm.swap _ _ _), by rw [setParentOpt_length, setInner_length, hl2]⟩

/-! ### `clone` -/

theorem freshCopy_length (n : Nat) (c : Chain) : (freshCopy n c).length = c.length := by
  induction c generalizing n with
  | nil => rfl
  | cons x r ih => obtain ⟨_, v⟩ := x; simp [freshCopy, ih]

theorem hd_freshCopy (n : Nat) (c : Chain) : hd (freshCopy n c) = if c = [] then none else some n := by
  cases c with
  | nil => rfl
  | cons x r => obtain ⟨_, v⟩ := x; simp [freshCopy]

theorem cloneNode_spec : ∀ (c : Chain) (x : Nat × View) (fuel : Nat) (h : Heap) (p : Option Nat) (S : List SegT),
    (x :: c).length ≤ fuel → SegRep h S → Seg h p (x :: c) none →
    (cloneNode fuel h x.1).2 = some h.cells.length ∧
    SegRep (cloneNode fuel h x.1).1 (⟨none, freshCopy h.cells.length (x :: c), none⟩ :: S) ∧
    (cloneNode fuel h x.1).1.cells.length = h.cells.length + (x :: c).length ∧
    (∀ y, y < h.cells.length → (cloneNode fuel h x.1).1.get y = h.get y) := by
  intro c
  induction c with
  | nil =>
    intro x fuel h p S hf hr hs
    obtain ⟨f, rfl⟩ : ∃ f, fuel = f + 1 := ⟨fuel - 1, by simp at hf; omega⟩
    have hg : h.get x.1 = some ⟨x.2, none, p⟩ := by simpa [Seg] using hs.1
    obtain ⟨xa, xv⟩ := x
    simp only [cloneNode, hg]
    refine ⟨rfl, ?_, by simp [Heap.alloc], ?_⟩
    · simpa [freshCopy] using hr.alloc xv none none
    · intro y hy; rw [Heap.get_alloc, if_neg (by omega)]
  | cons y rest ih =>
    intro x fuel h p S hf hr hs
    obtain ⟨f, rfl⟩ : ∃ f, fuel = f + 1 := ⟨fuel - 1, by simp at hf; omega⟩
    have hg : h.get x.1 = some ⟨x.2, some y.1, p⟩ := by simpa [Seg] using hs.1
    obtain ⟨xa, xv⟩ := x
    simp only [cloneNode, hg]
    -- storage for the copy
    have h1 := hr.alloc xv none none
    have hs1 : Seg (h.alloc ⟨xv, none, none⟩).1 (some xa) (y :: rest) none := by
      apply Seg.congr _ hs.2
      intro z hz
      have : (h.get z).isSome := Seg.live hs.2 z hz
      have hlt : z < h.cells.length := by
        match hgz : h.get z with
        | some n => exact Heap.get_lt hgz
        | none => rw [hgz] at this; cases this
      rw [Heap.get_alloc, if_neg (by omega)]
    -- the inner chain is cloned
    obtain ⟨e1, e2, e3, e4⟩ := ih y f (h.alloc ⟨xv, none, none⟩).1 (some xa) _ (by simp at hf ⊢; omega) h1 hs1
    rw [Heap.alloc_cells_length] at e1 e2 e3 e4
    generalize hcl : cloneNode f (h.alloc ⟨xv, none, none⟩).1 y.1 = res at e1 e2 e3 e4
    obtain ⟨h2, c2⟩ := res
    simp only at e1 e2 e3 e4
    subst e1
    simp only [Heap.alloc_snd]
    -- inner_pdu(clone)
    have h3 : SegRep h2 (⟨none, [(h.cells.length, xv)], hd ([] : Chain)⟩ :: ⟨some h.cells.length, [], none⟩ ::
        ⟨none, freshCopy (h.cells.length + 1) (y :: rest), none⟩ :: S) := by
      have e2' := e2.add_nil (p := some h.cells.length) (t := none)
      exact e2'.perm ((List.Perm.cons _ (List.Perm.swap _ _ _)).trans (List.Perm.swap _ _ _))
    obtain ⟨h4, hl4⟩ := innerPduPtr_spec h3
    have hhd : hd (freshCopy (h.cells.length + 1) (y :: rest)) = some (h.cells.length + 1) := by
      rw [hd_freshCopy]; simp
    rw [hhd] at h4 hl4
    refine ⟨by first | rfl | trivial, ?_, by rw [hl4, e3]; simp; omega, ?_⟩
    · have h5 := SegRep.join (c1 := [(h.cells.length, xv)]) (c2 := freshCopy (h.cells.length + 1) (y :: rest))
        (p := none) (t := none) (h := innerPduPtr h2 h.cells.length (some (h.cells.length + 1))) (S := S)
        (by simpa [hhd, lst] using h4)
      obtain ⟨ya, yv⟩ := y
      simpa [freshCopy] using h5
    · intro z hz
      -- only the two fresh cells are written by inner_pdu
      have hg2 : h2.get h.cells.length = some ⟨xv, none, none⟩ := by simpa using h3.head_get
      simp only [innerPduPtr, hg2, deletePtr, Heap.setParentOpt]
      have hgy : ∀ w, w ≠ h.cells.length → (h2.setInner h.cells.length (some (h.cells.length + 1))).get w = h2.get w := by
        intro w hw; unfold Heap.setInner; rw [hg2, Heap.get_put hg2, if_neg hw]
      have hp : ∀ (hh : Heap) (b : Nat) (q : Option Nat) (w : Nat), w ≠ b → (hh.setParent b q).get w = hh.get w := by
        intro hh b q w hw
        unfold Heap.setParent
        match hgb : hh.get b with
        | some n => simp only [Heap.get_put hgb, if_neg hw]
        | none => rfl
      rw [hp _ _ _ _ (by omega), hgy _ (by omega), e4 z (by omega), Heap.get_alloc, if_neg (by omega)]

theorem clone_spec {h : Heap} {S : List SegT} {p : Option Nat} {x : Nat × View} {c : Chain}
    (hr : SegRep h S) (hs : Seg h p (x :: c) none) (hsub : ∀ a ∈ addrs (x :: c), a ∈ allAddrs S)
    (hnd : (addrs (x :: c)).Nodup) :
    (clone h x.1).2 = some h.cells.length ∧
    SegRep (clone h x.1).1 (⟨none, freshCopy h.cells.length (x :: c), none⟩ :: S) ∧
    (clone h x.1).1.cells.length = h.cells.length + (x :: c).length ∧
    (∀ y, y < h.cells.length → (clone h x.1).1.get y = h.get y) := by
  unfold clone
  apply cloneNode_spec c x _ h p S _ hr hs
  have := nodup_bounded_length h.cells.length (addrs (x :: c)) hnd (fun a ha => hr.lt (hsub a ha))
  simpa [addrs] using this

end Tins.Own
