import TinsModel.Ownership.OptStore
/-
  Value-level specification of `PDUOption` for property C12, written from the value semantics the class documents —
  no pointers, no heap, no union: an option *is* its observable triple (`option()`, `length_field()`, data bytes).

    * a copy (construction or assignment, also onto itself) has the value of its source, the source is unchanged;
    * a move gives the target the value of the source; the source keeps `option()` and `length_field()`, its data is
      gone when it was longer than the 8-byte small buffer and still there otherwise (`VOpt.movedFrom`);
    * erasing an element of a vector of options closes the gap, nothing else changes;
    * every other slot is untouched (frame).
-/
namespace Tins.OptStore

/-- what a moved-from option reports: `option()` and `length_field()` as before; its data is gone when it did not
    fit the small buffer (the heap block was handed over) and is still there otherwise (small data is copied) -/
def VOpt.movedFrom (v : VOpt) : VOpt := if v.data.length > 8 then { v with data := [] } else v

structure SState where
  opts : List (Option VOpt) := []
  nuser : Nat := 0
  vlen : Nat := 0
deriving Repr

namespace SState

def opt? (A : SState) (i : Nat) : Option VOpt :=
  match A.opts[i]? with
  | some (some v) => some v
  | _ => none

def isFree (A : SState) (i : Nat) : Bool := A.opts[i]? == some none

def put (A : SState) (i : Nat) (v : Option VOpt) : SState := { A with opts := A.opts.set i v }

/-- construction with data that may be too long: `option_payload_too_large`, nothing is constructed -/
def construct (A : SState) (i : Nat) (code len : Nat) (d : Bytes) : SState :=
  if d.length > 65535 then A else A.put i (some ⟨code % 256, len % 65536, d⟩)

def step (A : SState) : Op → Option SState
  | .init n cap => some { opts := List.replicate (n + cap) none, nuser := n }
  | .fin => some { A with opts := A.opts.map (fun _ => none), vlen := 0 }
  | .newNull i code len => if i < A.nuser ∧ A.isFree i then some (A.put i (some ⟨code % 256, len % 65536, []⟩)) else none
  | .newData i code d => if i < A.nuser ∧ A.isFree i then some (A.construct i code d.length d) else none
  | .newRange i code d => if i < A.nuser ∧ A.isFree i then some (A.construct i code d.length d) else none
  | .newAdv i code len d => if i < A.nuser ∧ A.isFree i then some (A.construct i code len d) else none
  | .copy i j =>
    match A.opt? j with
    | some v => if i < A.nuser ∧ A.isFree i then some (A.put i (some v)) else none
    | none => none
  | .move i j =>
    match A.opt? j with
    | some v => if i < A.nuser ∧ A.isFree i then some ((A.put j (some v.movedFrom)).put i (some v)) else none
    | none => none
  | .assign i j =>
    match A.opt? i, A.opt? j with
    | some _, some v => some (A.put i (some v))
    | _, _ => none
  | .massign i j =>
    match A.opt? i, A.opt? j with
    | some _, some v =>
      -- on itself: the option is its own source, so it is left in the moved-from state
      if i = j then some (A.put i (some v.movedFrom))
      else some ((A.put j (some v.movedFrom)).put i (some v))
    | _, _ => none
  | .del i => if i < A.nuser ∧ (A.opt? i).isSome then some (A.put i none) else none
  | .read i => if (A.opt? i).isSome then some A else none
  | .vpush j =>
    match A.opt? j with
    | some v => if A.nuser + A.vlen < A.opts.length then some { A.put (A.nuser + A.vlen) (some v) with vlen := A.vlen + 1 } else none
    | none => none
  | .vpushMove j =>
    match A.opt? j with
    | some v =>
      if A.nuser + A.vlen < A.opts.length
      then some { (A.put j (some v.movedFrom)).put (A.nuser + A.vlen) (some v) with vlen := A.vlen + 1 } else none
    | none => none
  | .verase k =>
    -- the elements behind position `k` move up by one; the vector's last slot becomes unused storage
    if k < A.vlen then
      some { A with opts := ((A.opts.take (A.nuser + A.vlen)).eraseIdx (A.nuser + k)) ++
                              (none :: A.opts.drop (A.nuser + A.vlen)), vlen := A.vlen - 1 }
    else none
  | .vpop => if 0 < A.vlen then some { A.put (A.nuser + A.vlen - 1) none with vlen := A.vlen - 1 } else none

def stepD (A : SState) (op : Op) : SState := (A.step op).getD A

def run (A : SState) : List Op → SState
  | [] => A
  | op :: r => run (A.stepD op) r

end SState

end Tins.OptStore
