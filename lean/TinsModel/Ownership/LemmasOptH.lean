import TinsModel.Ownership.LemmasOptG
/-
  Storage-level PDUOption model, part H: copy / move construction, both assignments, destruction and reading keep the
  representation relation.
-/
namespace Tins.OptStore
open Pool

theorem Rep.obj_isSome {σ : Pool} {A : SState} (h : Rep σ A) {j : Nat} {v : VOpt} (hj : A.opt? j = some v) :
    (σ.obj? j).isSome = true := by rw [h.live_iff, hj]; rfl

theorem Rep.obj_isNone {σ : Pool} {A : SState} (h : Rep σ A) {j : Nat} (hj : A.opt? j = none) :
    (σ.obj? j).isSome = false := by rw [h.live_iff, hj]; rfl

theorem sim_copy {σ : Pool} {A : SState} (h : Rep σ A) (i j : Nat) :
    Sim (step σ (.copy i j)) (A.step (.copy i j)) := by
  simp only [step, SState.step]
  cases hj : A.opt? j with
  | none => simp [h.obj_isNone hj, Sim]
  | some v =>
    simp only [h.obj_isSome hj, and_true]
    by_cases hg : i < A.nuser ∧ A.isFree i = true
    · have hg' := (guard_user h i).mpr hg
      simp only [hg, hg', and_self, if_true]
      have hfree := (h.free_iff i).mpr ((sisFree_iff A i).mp hg.2)
      refine Rep.of_inv h ?_ (shape_copyCtor σ i j) (by simp) rfl rfl ?_
      · rw [opt?_put_fun (h.user_lt hg.1)]; exact copyCtor_inv h.inv hfree hj
      · intro k hk; rw [put_user hg.1 _ k hk]
    · have hg' : ¬ (i < σ.nuser ∧ σ.isFree i = true) := fun x => hg ((guard_user h i).mp x)
      simp only [hg, hg', if_false]
      trivial

theorem sim_move {σ : Pool} {A : SState} (h : Rep σ A) (i j : Nat) :
    Sim (step σ (.move i j)) (A.step (.move i j)) := by
  simp only [step, SState.step]
  cases hj : A.opt? j with
  | none => simp [h.obj_isNone hj, Sim]
  | some v =>
    simp only [h.obj_isSome hj, and_true]
    by_cases hg : i < A.nuser ∧ A.isFree i = true
    · have hg' := (guard_user h i).mpr hg
      simp only [hg, hg', and_self, if_true]
      have hfree := (h.free_iff i).mpr ((sisFree_iff A i).mp hg.2)
      have hjl := lt_of_opt? hj
      refine Rep.of_inv h ?_ (shape_moveCtor σ i j) (by simp) rfl rfl ?_
      · rw [opt?_put_fun (by simpa using h.user_lt hg.1), opt?_put_fun hjl]; exact moveCtor_inv h.inv hfree hj
      · intro k hk
        rw [put_user (A := A.put j (some v.movedFrom)) hg.1 _ k hk, put_live_same (by rw [hj]; rfl)]
    · have hg' : ¬ (i < σ.nuser ∧ σ.isFree i = true) := fun x => hg ((guard_user h i).mp x)
      simp only [hg, hg', if_false]
      trivial

theorem sim_assign {σ : Pool} {A : SState} (h : Rep σ A) (i j : Nat) :
    Sim (step σ (.assign i j)) (A.step (.assign i j)) := by
  simp only [step, SState.step]
  cases hi : A.opt? i with
  | none => simp [h.obj_isNone hi, Sim]
  | some vi =>
    cases hj : A.opt? j with
    | none => simp [h.obj_isNone hj, Sim]
    | some v =>
      simp only [h.obj_isSome hi, h.obj_isSome hj, and_self, if_true]
      obtain ⟨ot, hot⟩ := Option.isSome_iff_exists.mp (h.obj_isSome hi)
      refine Rep.of_inv h ?_ (shape_copyAssign σ i j) (by simp) rfl rfl ?_
      · rw [opt?_put_fun (lt_of_opt? hi)]; exact copyAssign_inv h.inv hot hj
      · intro k _; rw [put_live_same (by rw [hi]; rfl)]

theorem sim_massign {σ : Pool} {A : SState} (h : Rep σ A) (i j : Nat) :
    Sim (step σ (.massign i j)) (A.step (.massign i j)) := by
  simp only [step, SState.step]
  cases hi : A.opt? i with
  | none => simp [h.obj_isNone hi, Sim]
  | some vi =>
    cases hj : A.opt? j with
    | none => simp [h.obj_isNone hj, Sim]
    | some v =>
      simp only [h.obj_isSome hi, h.obj_isSome hj, and_self, if_true]
      obtain ⟨ot, hot⟩ := Option.isSome_iff_exists.mp (h.obj_isSome hi)
      have hinv := moveAssign_inv h.inv hot hj
      by_cases e : i = j
      · simp only [e, if_true] at hinv ⊢
        subst e
        refine Rep.of_inv h ?_ (shape_moveAssign σ i i) (by simp) rfl rfl ?_
        · rw [opt?_put_fun (lt_of_opt? hi)]; exact hinv
        · intro k _; rw [put_live_same (by rw [hi]; rfl)]
      · simp only [e, if_false] at hinv ⊢
        refine Rep.of_inv h ?_ (shape_moveAssign σ i j) (by simp) rfl rfl ?_
        · rw [opt?_put_fun (by simpa using lt_of_opt? hi), opt?_put_fun (lt_of_opt? hj)]; exact hinv
        · intro k _
          have hi' : ((A.put j (some v.movedFrom)).opt? i).isSome := by
            rw [put_live_same (by rw [hj]; rfl), hi]; rfl
          rw [put_live_same hi', put_live_same (by rw [hj]; rfl)]

theorem sim_del {σ : Pool} {A : SState} (h : Rep σ A) (i : Nat) :
    Sim (step σ (.del i)) (A.step (.del i)) := by
  simp only [step, SState.step, h.nuser, h.live_iff]
  by_cases hg : i < A.nuser ∧ (A.opt? i).isSome = true
  · simp only [hg, and_self, if_true]
    obtain ⟨ot, hot⟩ := Option.isSome_iff_exists.mp (by rw [h.live_iff]; exact hg.2 : (σ.obj? i).isSome = true)
    refine Rep.of_inv h ?_ (shape_destroy σ i) (by simp) rfl rfl ?_
    · rw [opt?_put_fun (h.user_lt hg.1)]; exact destroy_inv h.inv hot
    · intro k hk; rw [put_user hg.1 _ k hk]
  · simp only [hg, if_false]
    trivial

theorem sim_read {σ : Pool} {A : SState} (h : Rep σ A) (i : Nat) :
    Sim (step σ (.read i)) (A.step (.read i)) := by
  simp only [step, SState.step, h.live_iff, h.view_eq]
  by_cases hg : (A.opt? i).isSome = true
  · simp only [hg, if_true]
    have : (A.opt? i).isNone = false := by
      cases hx : A.opt? i with
      | none => rw [hx] at hg; cases hg
      | some _ => rfl
    simp only [this, Bool.false_eq_true, if_false]
    exact h
  · simp only [hg]
    trivial

end Tins.OptStore
