import TinsModel.Ownership.LemmasOptL
/-
  Storage-level PDUOption model, part M: the frame of the value specification (what an operation does not name, it
  does not change) and the block a destroyed option releases.
-/
namespace Tins.OptStore
open Pool

theorem opt?_put_ne {A : SState} {i k : Nat} (h : k ≠ i) (w : Option VOpt) : (A.put i w).opt? k = A.opt? k := by
  rw [opt?_put]; simp [h]

theorem opt?_set_vlen (A : SState) (n k : Nat) : ({ A with vlen := n } : SState).opt? k = A.opt? k := rfl

theorem spec_frame {A A' : SState} {op : Op} (hcap : A.nuser + A.vlen ≤ A.opts.length) (h : A.step op = some A') (k : Nat)
    (hk : touches A.nuser A.vlen op k = false) : A'.opt? k = A.opt? k := by
  cases op with
  | init n cap => simp [touches] at hk
  | fin => simp [touches] at hk
  | newNull i code len =>
    simp only [touches, beq_eq_false_iff_ne] at hk
    simp only [SState.step] at h
    split at h
    · cases h; exact opt?_put_ne hk _
    · cases h
  | newData i code d =>
    simp only [touches, beq_eq_false_iff_ne] at hk
    simp only [SState.step, SState.construct] at h
    split at h
    · cases h
      split
      · rfl
      · exact opt?_put_ne hk _
    · cases h
  | newRange i code d =>
    simp only [touches, beq_eq_false_iff_ne] at hk
    simp only [SState.step, SState.construct] at h
    split at h
    · cases h
      split
      · rfl
      · exact opt?_put_ne hk _
    · cases h
  | newAdv i code len d =>
    simp only [touches, beq_eq_false_iff_ne] at hk
    simp only [SState.step, SState.construct] at h
    split at h
    · cases h
      split
      · rfl
      · exact opt?_put_ne hk _
    · cases h
  | copy i j =>
    simp only [touches, beq_eq_false_iff_ne] at hk
    simp only [SState.step] at h
    split at h
    · split at h
      · cases h; exact opt?_put_ne hk _
      · cases h
    · cases h
  | move i j =>
    simp only [touches, Bool.or_eq_false_iff, beq_eq_false_iff_ne] at hk
    simp only [SState.step] at h
    split at h
    · split at h
      · cases h; rw [opt?_put_ne hk.1, opt?_put_ne hk.2]
      · cases h
    · cases h
  | assign i j =>
    simp only [touches, beq_eq_false_iff_ne] at hk
    simp only [SState.step] at h
    split at h
    · cases h; exact opt?_put_ne hk _
    · cases h
  | massign i j =>
    simp only [touches, Bool.or_eq_false_iff, beq_eq_false_iff_ne] at hk
    simp only [SState.step] at h
    split at h
    · split at h
      · cases h; exact opt?_put_ne hk.1 _
      · cases h; rw [opt?_put_ne hk.1, opt?_put_ne hk.2]
    · cases h
  | del i =>
    simp only [touches, beq_eq_false_iff_ne] at hk
    simp only [SState.step] at h
    split at h
    · cases h; exact opt?_put_ne hk _
    · cases h
  | read i =>
    simp only [SState.step] at h
    split at h
    · cases h; rfl
    · cases h
  | vpush j =>
    simp only [touches, beq_eq_false_iff_ne] at hk
    simp only [SState.step] at h
    split at h
    · split at h
      · cases h; rw [opt?_set_vlen]; exact opt?_put_ne hk _
      · cases h
    · cases h
  | vpushMove j =>
    simp only [touches, Bool.or_eq_false_iff, beq_eq_false_iff_ne] at hk
    simp only [SState.step] at h
    split at h
    · split at h
      · cases h; rw [opt?_set_vlen, opt?_put_ne hk.1, opt?_put_ne hk.2]
      · cases h
    · cases h
  | verase e =>
    simp only [touches, decide_eq_false_iff_not, Nat.not_le] at hk
    simp only [SState.step] at h
    split at h
    · next he =>
      cases h
      rw [erase_opt? A e he hcap k, if_pos hk]
    · cases h
  | vpop =>
    simp only [touches, beq_eq_false_iff_ne] at hk
    simp only [SState.step] at h
    split at h
    · cases h; rw [opt?_set_vlen]; exact opt?_put_ne hk _
    · cases h

/-- destroying an option that owns a block releases exactly that block -/
theorem destroy_frees {σ : Pool} {i a : Nat} (h : StoreInv σ) (ho : Owns σ i a) :
    (σ.destroy i).freed = a :: σ.freed ∧ (σ.destroy i).cell? a = none ∧ a ∉ σ.freed := by
  obtain ⟨o, hobj, hb, hp⟩ := ho
  obtain ⟨a', bs, hp', hc, _⟩ := h.big_owns i o hobj hb
  rw [hp] at hp'; cases hp'
  unfold Pool.destroy
  dsimp only
  rw [Tins.OptStore.obj_of hobj]
  simp only [gt_iff_lt, hb, if_true, hp, Payload.asPtr, deleteArr_live hc]
  refine ⟨trivial, ?_, ?_⟩
  · show Pool.cell? _ a = none
    unfold Pool.cell?
    dsimp only
    rw [List.getElem?_set]
    simp [lt_of_cell? hc]
  · intro hm
    have := (h.freed_once.2 a).mp hm
    rw [cell?_eq_some] at hc
    rw [hc] at this; cases this

end Tins.OptStore
