import TinsModel.Ownership.Spec
/-
  Heap algebra and list-segment predicates for the ownership proofs (C12).

  `Seg h p c t` : the layers `c` are laid out in the heap `h` as a doubly linked segment — the first layer's parent
  pointer is `p`, every layer's inner pointer designates the next layer, the last layer's inner pointer is `t`.
  `SegRep h S` : the heap consists exactly of the pairwise disjoint segments `S` (no other live cell), every released
  cell was released exactly once, and no invalid access has happened.
-/
namespace Tins.Own

/-! ### cells -/

namespace Heap

theorem get_eq_some {h : Heap} {a : Addr} {n : Node} : h.get a = some n ↔ h.cells[a]? = some (some n) := by
  unfold get
  split
  · next n' hh => simp [hh]
  · next hh =>
    constructor
    · intro x; cases x
    · intro x; exact absurd x (hh n)

theorem get_lt {h : Heap} {a : Addr} {n : Node} (hg : h.get a = some n) : a < h.cells.length := by
  have := get_eq_some.mp hg
  exact (List.getElem?_eq_some_iff.mp this).1

theorem get_put {h : Heap} {a : Addr} {m n : Node} (hg : h.get a = some m) (x : Addr) :
    (h.put a n).get x = if x = a then some n else h.get x := by
  have hlt := get_lt hg
  unfold put
  rw [hg]
  by_cases hx : x = a
  · subst hx
    simp only [if_true]
    apply get_eq_some.mpr
    simp [hlt]
  · simp only [hx, if_false]
    unfold get
    simp [List.getElem?_set, Ne.symm hx]

theorem put_cells_length {h : Heap} {a : Addr} {n : Node} : (h.put a n).cells.length = h.cells.length := by
  unfold put; split <;> simp [fault]

theorem put_freed {h : Heap} {a : Addr} {n : Node} : (h.put a n).freed = h.freed := by
  unfold put; split <;> simp [fault]

theorem put_faults {h : Heap} {a : Addr} {m n : Node} (hg : h.get a = some m) : (h.put a n).faults = h.faults := by
  unfold put; rw [hg]

theorem put_cells_none {h : Heap} {a : Addr} {m n : Node} (hg : h.get a = some m) (x : Addr) :
    (h.put a n).cells[x]? = some none ↔ h.cells[x]? = some none := by
  have hlt := get_lt hg
  have hc := get_eq_some.mp hg
  unfold put; rw [hg]
  by_cases hx : x = a
  · subst hx
    obtain ⟨_, h2⟩ := List.getElem?_eq_some_iff.mp hc
    simp [hlt, h2]
  · simp [List.getElem?_set, Ne.symm hx]

theorem get_alloc {h : Heap} {n : Node} (x : Addr) :
    (h.alloc n).1.get x = if x = h.cells.length then some n else h.get x := by
  unfold alloc get
  by_cases hx : x = h.cells.length
  · subst hx; simp
  · simp only [hx, if_false]
    by_cases hl : x < h.cells.length
    · simp [List.getElem?_append_left hl]
    · have : h.cells.length < x := by omega
      have h1 : (h.cells ++ [some n])[x]? = none := by
        apply List.getElem?_eq_none; simp; omega
      have h2 : h.cells[x]? = none := by apply List.getElem?_eq_none; omega
      simp [h1, h2]

theorem alloc_snd {h : Heap} {n : Node} : (h.alloc n).2 = h.cells.length := rfl
theorem alloc_cells_length {h : Heap} {n : Node} : (h.alloc n).1.cells.length = h.cells.length + 1 := by
  simp [alloc]
theorem alloc_freed {h : Heap} {n : Node} : (h.alloc n).1.freed = h.freed := rfl
theorem alloc_faults {h : Heap} {n : Node} : (h.alloc n).1.faults = h.faults := rfl

theorem alloc_cells_none {h : Heap} {n : Node} (x : Addr) :
    (h.alloc n).1.cells[x]? = some none ↔ h.cells[x]? = some none := by
  unfold alloc
  by_cases hl : x < h.cells.length
  · simp [List.getElem?_append_left hl]
  · have h2 : h.cells[x]? = none := by apply List.getElem?_eq_none; omega
    by_cases hx : x = h.cells.length
    · subst hx; simp
    · have h1 : (h.cells ++ [some n])[x]? = none := by
        apply List.getElem?_eq_none; simp; omega
      simp [h1, h2]

theorem get_free {h : Heap} {a : Addr} {m : Node} (hg : h.get a = some m) (x : Addr) :
    (h.free a).get x = if x = a then none else h.get x := by
  have hlt := get_lt hg
  unfold free
  rw [hg]
  by_cases hx : x = a
  · subst hx
    simp only [if_true]
    unfold get
    simp [hlt]
  · simp only [hx, if_false]
    unfold get
    simp [List.getElem?_set, Ne.symm hx]

theorem free_cells_length {h : Heap} {a : Addr} : (h.free a).cells.length = h.cells.length := by
  unfold free; split <;> simp

theorem free_freed {h : Heap} {a : Addr} : (h.free a).freed = a :: h.freed := by
  unfold free; split <;> simp

theorem free_faults {h : Heap} {a : Addr} {m : Node} (hg : h.get a = some m) : (h.free a).faults = h.faults := by
  unfold free; rw [hg]

theorem free_cells_none {h : Heap} {a : Addr} {m : Node} (hg : h.get a = some m) (x : Addr) :
    (h.free a).cells[x]? = some none ↔ (x = a ∨ h.cells[x]? = some none) := by
  have hlt := get_lt hg
  have hc := get_eq_some.mp hg
  unfold free; rw [hg]
  by_cases hx : x = a
  · subst hx; simp [hlt]
  · simp [List.getElem?_set, Ne.symm hx, hx]

end Heap

/-! ### segments -/

def hd (c : Chain) : Option Addr := c.head?.map Prod.fst
def lst (c : Chain) : Option Addr := c.getLast?.map Prod.fst
def addrs (c : Chain) : List Addr := c.map Prod.fst

@[simp] theorem hd_nil : hd [] = none := rfl
@[simp] theorem hd_cons (x : Addr × View) (r : Chain) : hd (x :: r) = some x.1 := rfl
@[simp] theorem lst_nil : lst [] = none := rfl
@[simp] theorem addrs_nil : addrs [] = [] := rfl
@[simp] theorem addrs_cons (x : Addr × View) (r : Chain) : addrs (x :: r) = x.1 :: addrs r := rfl
@[simp] theorem addrs_append (a b : Chain) : addrs (a ++ b) = addrs a ++ addrs b := by simp [addrs]

theorem lst_cons (x : Addr × View) (r : Chain) : lst (x :: r) = (lst r).or (some x.1) := by
  cases r with
  | nil => simp [lst]
  | cons y r =>
    rw [lst, lst, List.getLast?_cons_cons]
    cases hh : (y :: r).getLast? with
    | none => simp at hh
    | some z => simp

theorem lst_append_singleton (c : Chain) (x : Addr × View) : lst (c ++ [x]) = some x.1 := by
  simp [lst]

def Seg (h : Heap) : Option Addr → Chain → Option Addr → Prop
  | _, [], _ => True
  | p, x :: rest, t => h.get x.1 = some ⟨x.2, (hd rest).or t, p⟩ ∧ Seg h (some x.1) rest t

theorem Seg.congr {h h' : Heap} {c : Chain} : ∀ {p t}, (∀ x ∈ addrs c, h'.get x = h.get x) → Seg h p c t → Seg h' p c t := by
  induction c with
  | nil => intros; trivial
  | cons x rest ih =>
    intro p t hf hs
    refine ⟨?_, ih (fun y hy => hf y (by simp [hy])) hs.2⟩
    rw [hf x.1 (by simp)]; exact hs.1

theorem Seg.append {h : Heap} {c1 c2 : Chain} : ∀ {p t},
    Seg h p (c1 ++ c2) t ↔ Seg h p c1 ((hd c2).or t) ∧ Seg h ((lst c1).or p) c2 t := by
  induction c1 with
  | nil => intro p t; simp [Seg]
  | cons x rest ih =>
    intro p t
    simp only [List.cons_append, Seg]
    rw [ih]
    have e1 : (hd (rest ++ c2)).or t = (hd rest).or ((hd c2).or t) := by
      cases rest <;> simp [hd]
    have e2 : (lst (x :: rest)).or p = (lst rest).or (some x.1) := by
      rw [lst_cons]; cases lst rest <;> simp
    rw [e1, e2]
    constructor
    · rintro ⟨a, b, c⟩; exact ⟨⟨a, b⟩, c⟩
    · rintro ⟨⟨a, b⟩, c⟩; exact ⟨a, b, c⟩

theorem Seg.live {h : Heap} {c : Chain} : ∀ {p t}, Seg h p c t → ∀ x ∈ addrs c, (h.get x).isSome := by
  induction c with
  | nil => intro _ _ _ x hx; simp at hx
  | cons y rest ih =>
    intro p t hs x hx
    simp at hx
    rcases hx with rfl | hx
    · rw [hs.1]; rfl
    · exact ih hs.2 x hx

/-- change of the end pointers of a non-empty segment is a change of two fields -/
theorem Seg.head_parent {h : Heap} {x : Addr × View} {rest : Chain} {p t : Option Addr}
    (hs : Seg h p (x :: rest) t) : ∃ n, h.get x.1 = some n ∧ n.parent = p ∧ n.view = x.2 := ⟨_, hs.1, rfl, rfl⟩

/-! ### the heap as a disjoint union of segments -/

structure SegT where
  p : Option Addr
  c : Chain
  t : Option Addr

def allAddrs (S : List SegT) : List Addr := (S.map (fun s => addrs s.c)).flatten

@[simp] theorem allAddrs_nil : allAddrs [] = [] := rfl
@[simp] theorem allAddrs_cons (s : SegT) (S : List SegT) : allAddrs (s :: S) = addrs s.c ++ allAddrs S := by
  simp [allAddrs]

theorem allAddrs_perm {S S' : List SegT} (hp : S.Perm S') : (allAddrs S).Perm (allAddrs S') := by
  unfold allAddrs
  exact (hp.map _).flatten

def FreedOK (h : Heap) : Prop := h.freed.Nodup ∧ ∀ a, a ∈ h.freed ↔ h.cells[a]? = some none

structure SegRep (h : Heap) (S : List SegT) : Prop where
  segs : ∀ s ∈ S, Seg h s.p s.c s.t
  nodup : (allAddrs S).Nodup
  cover : ∀ a, (h.get a).isSome → a ∈ allAddrs S
  freed : FreedOK h
  nofault : h.faults = 0

theorem SegRep.perm {h : Heap} {S S' : List SegT} (hp : S.Perm S') (hr : SegRep h S) : SegRep h S' where
  segs := fun s hs => hr.segs s (hp.mem_iff.mpr hs)
  nodup := (allAddrs_perm hp).nodup_iff.mp hr.nodup
  cover := fun a ha => (allAddrs_perm hp).mem_iff.mp (hr.cover a ha)
  freed := hr.freed
  nofault := hr.nofault

theorem SegRep.lt {h : Heap} {S : List SegT} (hr : SegRep h S) {a : Addr} (ha : a ∈ allAddrs S) : a < h.cells.length := by
  unfold allAddrs at ha
  simp only [List.mem_flatten, List.mem_map] at ha
  obtain ⟨l, ⟨s, hs, rfl⟩, hal⟩ := ha
  have := Seg.live (hr.segs s hs) a hal
  match hg : h.get a with
  | some n => exact Heap.get_lt hg
  | none => rw [hg] at this; cases this

/-- logical split of a segment -/
theorem SegRep.split {h : Heap} {p t : Option Addr} {c1 c2 : Chain} {S : List SegT}
    (hr : SegRep h (⟨p, c1 ++ c2, t⟩ :: S)) :
    SegRep h (⟨p, c1, (hd c2).or t⟩ :: ⟨(lst c1).or p, c2, t⟩ :: S) where
  segs := by
    intro s hs
    have h0 := Seg.append.mp (hr.segs ⟨p, c1 ++ c2, t⟩ (by simp))
    simp at hs
    rcases hs with rfl | rfl | hs
    · exact h0.1
    · exact h0.2
    · exact hr.segs s (by simp [hs])
  nodup := by have := hr.nodup; simpa [List.append_assoc] using this
  cover := by intro a ha; have := hr.cover a ha; simpa [List.append_assoc] using this
  freed := hr.freed
  nofault := hr.nofault

/-- logical join of two adjacent segments -/
theorem SegRep.join {h : Heap} {p t : Option Addr} {c1 c2 : Chain} {S : List SegT}
    (hr : SegRep h (⟨p, c1, (hd c2).or t⟩ :: ⟨(lst c1).or p, c2, t⟩ :: S)) :
    SegRep h (⟨p, c1 ++ c2, t⟩ :: S) where
  segs := by
    intro s hs
    simp at hs
    rcases hs with rfl | hs
    · exact Seg.append.mpr ⟨hr.segs ⟨p, c1, (hd c2).or t⟩ (by simp), hr.segs ⟨(lst c1).or p, c2, t⟩ (by simp)⟩
    · exact hr.segs s (by simp [hs])
  nodup := by have := hr.nodup; simpa [List.append_assoc] using this
  cover := by intro a ha; have := hr.cover a ha; simpa [List.append_assoc] using this
  freed := hr.freed
  nofault := hr.nofault

/-- empty segments carry no information -/
theorem SegRep.drop_nil {h : Heap} {p t : Option Addr} {S : List SegT} (hr : SegRep h (⟨p, [], t⟩ :: S)) : SegRep h S where
  segs := fun s hs => hr.segs s (by simp [hs])
  nodup := by have := hr.nodup; simpa using this
  cover := by intro a ha; have := hr.cover a ha; simpa using this
  freed := hr.freed
  nofault := hr.nofault

theorem SegRep.add_nil {h : Heap} {p t : Option Addr} {S : List SegT} (hr : SegRep h S) : SegRep h (⟨p, [], t⟩ :: S) where
  segs := by
    intro s hs
    simp at hs
    rcases hs with rfl | hs
    · trivial
    · exact hr.segs s hs
  nodup := by simpa using hr.nodup
  cover := by intro a ha; simpa using hr.cover a ha
  freed := hr.freed
  nofault := hr.nofault

end Tins.Own
