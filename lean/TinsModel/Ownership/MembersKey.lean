import Lean
import TinsModel.Ownership.Members
/- `mk% "Class::member"`: the key text together with its number (the UTF-8 bytes as one base-256 number), computed when the
   file is elaborated — the hand-written allow-lists of Props/Members/C12.lean name members by text, the kernel compares numbers.
   (Not imported by the driver.) -/
namespace Tins.Own.Members

open Lean Elab Term in
elab "mk%" s:str : term => do
  let str := s.getString
  return mkApp2 (mkConst ``Key.mk) (mkNatLit (natOfString str)) (mkStrLit str)

end Tins.Own.Members
