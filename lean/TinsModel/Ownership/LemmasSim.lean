import TinsModel.Ownership.LemmasRep
/-
  Simulation: every operation of the pointer model, from a state that represents a specification state, yields a
  state that represents the specification's result (and both refuse the same operations).
-/
namespace Tins.Own

/-- what one operation must establish -/
def Sim (s : State) (A : AState) (op : Op) : Prop :=
  match step s op, A.step op with
  | some s', some A' => Rep s' A'
  | none, none => True
  | _, _ => False

def PduNe (slots : List (Option ASlot)) : Prop :=
  ∀ (i : Nat) (c : Chain), slots[i]? = some (some (ASlot.mk .pdu c)) → c ≠ []

theorem PduNe.set {slots : List (Option ASlot)} (hp : PduNe slots) (i : Nat) (y : Option ASlot)
    (hy : ∀ c, y = some (ASlot.mk .pdu c) → c ≠ []) : PduNe (slots.set i y) := by
  intro j c hj
  rw [List.getElem?_set] at hj
  split at hj
  · split at hj
    · exact hy c (by simpa using hj)
    · cases hj
  · exact hp j c hj

theorem handleOf_congr {k : SKind} {c c' : Chain} (hh : hd c' = hd c) (hne : c' ≠ []) :
    handleOf ⟨k, c'⟩ = handleOf ⟨k, c⟩ := by
  cases c' with
  | nil => exact absurd rfl hne
  | cons x r =>
    cases c with
    | nil => simp at hh
    | cons y r' =>
      simp only [hd_cons, Option.some.injEq] at hh
      cases k <;> simp [handleOf, hh]

theorem map_set_same {α β} (f : α → β) (l : List α) (i : Nat) (y : α) (hi : i < l.length) (h : f y = f l[i]) :
    (l.set i y).map f = l.map f := by
  rw [List.map_set, h]
  apply List.ext_getElem
  · simp
  · intro j h1 h2
    simp only [List.getElem_set, List.getElem_map]
    split
    · next e => subst e; rfl
    · rfl

theorem heap_out1 {s : State} {A : AState} (hr : Rep s A) {i : Nat} (hi : i < A.slots.length) :
    SegRep s.heap (optSeg A.slots[i] ++ rootSegs (A.slots.set i none)) :=
  hr.heap.perm (rootSegs_self A.slots i hi)

theorem heap_in1 {h' : Heap} {slots : List (Option ASlot)} {i : Nat} (hi : i < slots.length) {y : Option ASlot}
    (hh : SegRep h' (optSeg y ++ rootSegs (slots.set i none))) : SegRep h' (rootSegs (slots.set i y)) :=
  hh.perm (rootSegs_one slots i y hi).symm

theorem heap_out_slot {s : State} {A : AState} (hr : Rep s A) {i : Nat} {sl : ASlot} (hsl : A.slot? i = some sl) :
    SegRep s.heap (root sl.chain :: rootSegs (A.slots.set i none)) := by
  obtain ⟨hi, e⟩ := slot?_some hsl
  have := heap_out1 hr hi
  rwa [e] at this

theorem heap_out_empty {s : State} {A : AState} (hr : Rep s A) {i : Nat} (he : A.isEmpty i = true) :
    A.slots.set i none = A.slots := by
  obtain ⟨hi, e⟩ := isEmpty_spec he
  rw [← e, List.set_getElem_self]

/-- a heap-only operation that edits the chain of one slot below (or at) a layer, keeping the top identity -/
theorem Rep.setChain {s : State} {A : AState} (hr : Rep s A) {i : Nat} {sl : ASlot} (hsl : A.slot? i = some sl)
    {c' : Chain} (hhd : hd c' = hd sl.chain) (hne : c' ≠ []) {s' : State} {A' : AState}
    (hs1 : s'.slots = s.slots) (hs2 : s'.opts = s.opts)
    (hA1 : A'.slots = A.slots.set i (some { sl with chain := c' })) (hA2 : A'.opts = A.opts)
    (hh : SegRep s'.heap (root c' :: rootSegs (A.slots.set i none))) (hn : A'.next = s'.heap.cells.length) :
    Rep s' A' := by
  obtain ⟨hi, e⟩ := slot?_some hsl
  refine ⟨?_, ?_, ?_, hn, ?_⟩
  · rw [hs1, hA1, map_set_same _ _ _ _ hi (by rw [e]; simp only [Option.map_some]; congr 1; exact handleOf_congr hhd hne)]
    exact hr.slots
  · show PduNe A'.slots
    rw [hA1]
    refine PduNe.set hr.pdu_ne i _ ?_
    intro c hc
    simp only [Option.some.injEq, ASlot.mk.injEq] at hc
    exact hc.2 ▸ hne
  · rw [hA1]; exact heap_in1 hi hh
  · rw [hs2, hA2]; exact hr.opts

/-- a new handle in an empty slot for a chain that is already a root of the heap -/
theorem Rep.newSlot {s : State} {A : AState} (hr : Rep s A) {i : Nat} (he : A.isEmpty i = true) (k : SKind) {c : Chain}
    (hne : k = .pdu → c ≠ []) {s' : State} {A' : AState}
    (hs1 : s'.slots = s.slots.set i (some (handleOf ⟨k, c⟩))) (hs2 : s'.opts = s.opts)
    (hA1 : A'.slots = A.slots.set i (some ⟨k, c⟩)) (hA2 : A'.opts = A.opts)
    (hh : SegRep s'.heap (root c :: rootSegs A.slots)) (hn : A'.next = s'.heap.cells.length) :
    Rep s' A' := by
  obtain ⟨hi, e⟩ := isEmpty_spec he
  refine ⟨?_, ?_, ?_, hn, ?_⟩
  · rw [hs1, hA1, List.map_set, ← hr.slots]; rfl
  · show PduNe A'.slots
    rw [hA1]
    refine PduNe.set hr.pdu_ne i _ ?_
    intro c' hc
    simp only [Option.some.injEq, ASlot.mk.injEq] at hc
    exact hc.2 ▸ hne hc.1
  · rw [hA1]
    apply heap_in1 hi
    rw [heap_out_empty hr he]; exact hh
  · rw [hs2, hA2]; exact hr.opts

theorem AState.setChain_slots {A : AState} {i : Nat} {sl : ASlot} (hsl : A.slot? i = some sl) (c : Chain) :
    (A.setChain i c).slots = A.slots.set i (some { sl with chain := c }) := by
  simp [AState.setChain, hsl, AState.setSlot]
theorem AState.setChain_next {A : AState} {i : Nat} (c : Chain) : (A.setChain i c).next = A.next := by
  unfold AState.setChain; split <;> rfl
theorem AState.setChain_opts {A : AState} {i : Nat} (c : Chain) : (A.setChain i c).opts = A.opts := by
  unfold AState.setChain; split <;> rfl
theorem AState.setChain_slot?_ne {A : AState} {i j : Nat} (hne : j ≠ i) (c : Chain) :
    (A.setChain i c).slot? j = A.slot? j := by
  unfold AState.setChain
  split
  · simp [AState.slot?, AState.setSlot, List.getElem?_set, Ne.symm hne]
  · rfl

theorem splice_decomp (full : Chain) (d : Nat) (x : Nat × View) (post : Chain) (hd' : full.drop d = x :: post)
    (top : Nat × View) (tail : Chain) : AState.splice full d top tail = full.take d ++ top :: tail := rfl

theorem hd_splice {full : Chain} {d : Nat} {x : Nat × View} {post : Chain} (hdrop : full.drop d = x :: post)
    {top : Nat × View} (ht : top.1 = x.1) (tail : Chain) : hd (AState.splice full d top tail) = hd full := by
  unfold AState.splice
  have hf : full = full.take d ++ x :: post := by rw [← hdrop, List.take_append_drop]
  cases d with
  | zero =>
    simp only [List.drop_zero] at hdrop
    simp [hdrop, ht]
  | succ d =>
    cases full with
    | nil => simp at hdrop
    | cons y r => simp

theorem AState.splice_ne {full : Chain} {d : Nat} {top : Nat × View} {tail : Chain} : AState.splice full d top tail ≠ [] := by
  unfold AState.splice; simp

/-! ### the operations -/

theorem sim_new {s : State} {A : AState} (hr : Rep s A) (i cls kind val : Nat) : Sim s A (.new i cls kind val) := by
  unfold Sim
  simp only [step, AState.step, hr.isEmptySlot]
  cases he : A.isEmpty i with
  | false => simp
  | true =>
    simp only [if_true]
    have h1 := hr.heap.alloc ((View.mk cls kind 0).withVal val) none none
    apply hr.newSlot he .pdu (c := [(s.heap.cells.length, (View.mk cls kind 0).withVal val)]) (by simp)
    · simp [setSlot, handleOf, Heap.alloc]
    · rfl
    · simp [AState.bump, AState.setSlot, hr.next]
    · rfl
    · exact h1
    · simp [AState.bump, AState.setSlot, setSlot, Heap.alloc, hr.next]

theorem sim_set {s : State} {A : AState} (hr : Rep s A) (r : Ref) (val : Nat) : Sim s A (.set r val) := by
  unfold Sim
  simp only [step, AState.step, hr.resolve]
  cases hs : A.sub r with
  | none => cases A.slot? r.slot <;> simp
  | some c =>
    obtain ⟨sl, hsl, hdrop, hc, hne⟩ := sub_spec hs
    cases c with
    | nil => exact absurd rfl hne
    | cons x post =>
      have h0 := heap_out_slot hr hsl
      rw [hc] at h0
      have hg := h0.get_at
      simp only [hsl, Option.bind_some, hd_cons, hg]
      obtain ⟨h1, hl⟩ := setView_at h0 (x.2.withVal val)
      apply hr.setChain hsl (c' := AState.splice sl.chain r.depth (x.1, x.2.withVal val) post)
        (hd_splice hdrop (top := (x.1, x.2.withVal val)) rfl _) AState.splice_ne
      · rfl
      · rfl
      · simp [AState.setChain, hsl, AState.setSlot]
      · simp [AState.setChain, hsl, AState.setSlot]
      · exact h1
      · simp [AState.setChain, hsl, AState.setSlot, hl, hr.next]

/-- the chain designated by a reference, in the heap -/
theorem Rep.sub_mem {s : State} {A : AState} (hr : Rep s A) {r : Ref} {c : Chain} (hs : A.sub r = some c) :
    ∃ sl, A.slot? r.slot = some sl ∧ sl.chain.drop r.depth = c ∧ root (sl.chain.take r.depth ++ c) ∈ rootSegs A.slots := by
  obtain ⟨sl, hsl, hdrop, hc, _⟩ := sub_spec hs
  exact ⟨sl, hsl, hdrop, hc ▸ hr.seg_of_slot hsl⟩

/-- `p->clone()` of the layers designated by a reference -/
theorem Rep.clone_sub {s : State} {A : AState} (hr : Rep s A) {r : Ref} {x : Nat × View} {post : Chain}
    (hs : A.sub r = some (x :: post)) :
    ∃ h', clone s.heap x.1 = (h', some A.next) ∧
      SegRep h' (root (freshCopy A.next (x :: post)) :: rootSegs A.slots) ∧
      h'.cells.length = A.next + (x :: post).length ∧ (∀ y, y < A.next → h'.get y = s.heap.get y) := by
  obtain ⟨sl, _, _, hm⟩ := hr.sub_mem hs
  obtain ⟨e1, e2, e3, e4⟩ := Tins.Own.clone_sub hr.heap hm
  rw [hr.next]
  exact ⟨(clone s.heap x.1).1, Prod.ext rfl e1, e2, e3, e4⟩

/-- `p->inner_pdu() ? p->inner_pdu()->clone() : 0` for the layer designated by a reference -/
theorem Rep.cloneOpt_tail {s : State} {A : AState} (hr : Rep s A) {r : Ref} {y : Nat × View} {rb : Chain}
    (hs : A.sub r = some (y :: rb)) :
    ∃ h', cloneOpt s.heap (hd rb) = (h', hd (freshCopy A.next rb)) ∧
      SegRep h' (root (freshCopy A.next rb) :: rootSegs A.slots) ∧
      h'.cells.length = A.next + rb.length ∧ (∀ z, z < A.next → h'.get z = s.heap.get z) := by
  cases rb with
  | nil => exact ⟨s.heap, rfl, hr.heap.add_nil, by simp [hr.next], fun _ _ => rfl⟩
  | cons z rest =>
    obtain ⟨sl, _, _, hm⟩ := hr.sub_mem hs
    have hm' : root ((sl.chain.take r.depth ++ [y]) ++ z :: rest) ∈ rootSegs A.slots := by simpa using hm
    obtain ⟨e1, e2, e3, e4⟩ := Tins.Own.clone_sub hr.heap hm'
    rw [hr.next]
    refine ⟨(clone s.heap z.1).1, ?_, e2, e3, e4⟩
    obtain ⟨za, zv⟩ := z
    simp only [hd_cons, cloneOpt, freshCopy]
    exact Prod.ext rfl e1

theorem handleOf_freshCopy_pdu (n : Nat) (x : Nat × View) (post : Chain) :
    handleOf ⟨.pdu, freshCopy n (x :: post)⟩ = .pdu n := by
  obtain ⟨xa, xv⟩ := x; rfl

theorem freshCopy_ne (n : Nat) (x : Nat × View) (post : Chain) : freshCopy n (x :: post) ≠ [] := by
  obtain ⟨xa, xv⟩ := x; simp [freshCopy]

theorem hd_freshCopy_cons (n : Nat) (x : Nat × View) (post : Chain) : hd (freshCopy n (x :: post)) = some n := by
  obtain ⟨xa, xv⟩ := x; rfl

theorem sim_clone {s : State} {A : AState} (hr : Rep s A) (i : Nat) (r : Ref) : Sim s A (.clone i r) := by
  unfold Sim
  simp only [step, AState.step, hr.isEmptySlot, hr.resolve]
  cases he : A.isEmpty i with
  | false => simp
  | true =>
    simp only [if_true]
    cases hs : A.sub r with
    | none => simp
    | some c =>
      obtain ⟨_, _, _, _, hne⟩ := sub_spec hs
      cases c with
      | nil => exact absurd rfl hne
      | cons x post =>
        obtain ⟨h', e1, e2, e3, _⟩ := hr.clone_sub hs
        simp only [Option.bind_some, hd_cons, e1, putPdu]
        apply hr.newSlot he .pdu (c := freshCopy A.next (x :: post)) (fun _ => freshCopy_ne _ _ _)
        · simp [setSlot, handleOf_freshCopy_pdu]
        · rfl
        · simp [AState.bump, AState.setSlot]
        · rfl
        · exact e2
        · simp [AState.bump, AState.setSlot, setSlot, e3]

theorem sim_pknew {s : State} {A : AState} (hr : Rep s A) (i : Nat) (r : Ref) : Sim s A (.pknew i r) := by
  unfold Sim
  simp only [step, AState.step, hr.isEmptySlot, hr.resolve]
  cases he : A.isEmpty i with
  | false => simp
  | true =>
    simp only [if_true]
    cases hs : A.sub r with
    | none => simp
    | some c =>
      obtain ⟨_, _, _, _, hne⟩ := sub_spec hs
      cases c with
      | nil => exact absurd rfl hne
      | cons x post =>
        obtain ⟨h', e1, e2, e3, _⟩ := hr.clone_sub hs
        simp only [Option.bind_some, hd_cons, e1]
        apply hr.newSlot he .pkt (c := freshCopy A.next (x :: post)) (fun hk => by cases hk)
        · simp [setSlot, handleOf_pkt, hd_freshCopy_cons]
        · rfl
        · simp [AState.bump, AState.setSlot]
        · rfl
        · exact e2
        · simp [AState.bump, AState.setSlot, setSlot, e3]

/-- edit of the chain of the slot of reference `a` by `inner_pdu(ptr)` at `a`, adopting a root chain `nxt` that no slot holds -/
theorem Rep.adopt {s : State} {A : AState} (hr : Rep s A) {a : Ref} {x : Nat × View} {post : Chain}
    (hs : A.sub a = some (x :: post)) {h' : Heap} {nxt : Chain}
    (hh : SegRep h' (root nxt :: rootSegs A.slots)) {s' : State} {A' : AState} {sl : ASlot} (hsl : A.slot? a.slot = some sl)
    (hs0 : s'.heap = innerPduPtr h' x.1 (hd nxt)) (hs1 : s'.slots = s.slots) (hs2 : s'.opts = s.opts)
    (hA1 : A'.slots = A.slots.set a.slot (some { sl with chain := AState.splice sl.chain a.depth x nxt })) (hA2 : A'.opts = A.opts)
    (hn : A'.next = h'.cells.length) : Rep s' A' := by
  obtain ⟨sl', hsl', hdrop, hc, _⟩ := sub_spec hs
  rw [hsl] at hsl'; cases hsl'
  obtain ⟨hi, e⟩ := slot?_some hsl
  have h1 : SegRep h' (root (sl.chain.take a.depth ++ x :: post) :: root nxt :: rootSegs (A.slots.set a.slot none)) := by
    have := hh.perm (List.Perm.cons _ (rootSegs_self A.slots a.slot hi))
    rw [e] at this
    have this' : SegRep h' (root nxt :: root sl.chain :: rootSegs (A.slots.set a.slot none)) := this
    rw [hc] at this'
    exact this'.perm (List.Perm.swap _ _ _)
  obtain ⟨h2, hl⟩ := innerPduPtr_at h1
  apply hr.setChain hsl (c' := AState.splice sl.chain a.depth x nxt) (hd_splice hdrop rfl _) AState.splice_ne hs1 hs2 hA1 hA2
  · rw [hs0]; exact h2
  · rw [hs0, hl, hn]

theorem sim_setnull {s : State} {A : AState} (hr : Rep s A) (a : Ref) : Sim s A (.setnull a) := by
  unfold Sim
  simp only [step, AState.step, hr.resolve]
  cases hs : A.sub a with
  | none => cases A.slot? a.slot <;> simp
  | some c =>
    obtain ⟨sl, hsl, hdrop, hc, hne⟩ := sub_spec hs
    cases c with
    | nil => exact absurd rfl hne
    | cons x post =>
      simp only [hsl, Option.bind_some, hd_cons]
      apply hr.adopt hs (nxt := []) (h' := s.heap) hr.heap.add_nil hsl
      · rfl
      · rfl
      · rfl
      · simp [AState.setChain, hsl, AState.setSlot]
      · simp [AState.setChain, hsl, AState.setSlot]
      · simp [AState.setChain, hsl, AState.setSlot, hr.next]

theorem sim_setinnerref {s : State} {A : AState} (hr : Rep s A) (a b : Ref) : Sim s A (.setinnerref a b) := by
  unfold Sim
  simp only [step, AState.step, hr.resolve]
  cases hs : A.sub a with
  | none => cases A.slot? a.slot <;> simp
  | some c =>
    obtain ⟨sl, hsl, hdrop, hc, hne⟩ := sub_spec hs
    cases c with
    | nil => exact absurd rfl hne
    | cons x post =>
      cases hsb : A.sub b with
      | none => simp [hsl]
      | some cb =>
        obtain ⟨_, _, _, _, hneb⟩ := sub_spec hsb
        cases cb with
        | nil => exact absurd rfl hneb
        | cons y rb =>
          obtain ⟨h', e1, e2, e3, _⟩ := hr.clone_sub hsb
          simp only [hsl, Option.bind_some, hd_cons, e1]
          apply hr.adopt hs (nxt := freshCopy A.next (y :: rb)) e2 hsl
          · simp [hd_freshCopy_cons]
          · rfl
          · rfl
          · simp [AState.setChain, hsl, AState.setSlot, AState.bump]
          · simp [AState.setChain, hsl, AState.setSlot, AState.bump]
          · simp [AState.setChain, hsl, AState.setSlot, AState.bump, e3]

/-! ### updates of one or two slots -/

theorem rootSegs_two (slots : List (Option ASlot)) {i j : Nat} (hij : i ≠ j) (hi : i < slots.length) (hj : j < slots.length)
    (yi yj : Option ASlot) :
    (rootSegs ((slots.set i yi).set j yj)).Perm (optSeg yi ++ (optSeg yj ++ rootSegs ((slots.set i none).set j none))) := by
  have h1 := rootSegs_one (slots.set i yi) j yj (by simpa using hj)
  have h2 : (slots.set i yi).set j none = (slots.set j none).set i yi := List.set_comm _ _ hij
  have h3 := rootSegs_one (slots.set j none) i yi (by simpa using hi)
  have h4 : (slots.set j none).set i none = (slots.set i none).set j none := List.set_comm _ _ (Ne.symm hij)
  rw [h2] at h1
  rw [h4] at h3
  refine h1.trans ((List.Perm.append_left _ h3).trans ?_)
  rw [← List.append_assoc, ← List.append_assoc]
  exact List.Perm.append_right _ List.perm_append_comm

theorem heap_out2 {s : State} {A : AState} (hr : Rep s A) {i j : Nat} (hij : i ≠ j) (hi : i < A.slots.length)
    (hj : j < A.slots.length) :
    SegRep s.heap (optSeg A.slots[i] ++ (optSeg A.slots[j] ++ rootSegs ((A.slots.set i none).set j none))) := by
  have := rootSegs_two A.slots hij hi hj A.slots[i] A.slots[j]
  rw [List.set_getElem_self, List.set_getElem_self] at this
  exact hr.heap.perm this

theorem Rep.intro1 {s : State} {A : AState} (hr : Rep s A) {i : Nat} (hi : i < A.slots.length) {y : Option ASlot}
    {s' : State} {A' : AState}
    (hs1 : s'.slots = s.slots.set i (y.map handleOf)) (hs2 : s'.opts = s.opts)
    (hA1 : A'.slots = A.slots.set i y) (hA2 : A'.opts = A.opts)
    (hp : ∀ c, y = some (ASlot.mk .pdu c) → c ≠ [])
    (hh : SegRep s'.heap (optSeg y ++ rootSegs (A.slots.set i none))) (hn : A'.next = s'.heap.cells.length) :
    Rep s' A' := by
  refine ⟨?_, ?_, ?_, hn, ?_⟩
  · rw [hs1, hA1, List.map_set, ← hr.slots]
  · show PduNe A'.slots
    rw [hA1]; exact PduNe.set hr.pdu_ne i _ hp
  · rw [hA1]; exact heap_in1 hi hh
  · rw [hs2, hA2]; exact hr.opts

theorem Rep.intro2 {s : State} {A : AState} (hr : Rep s A) {i j : Nat} (hij : i ≠ j) (hi : i < A.slots.length)
    (hj : j < A.slots.length) {yi yj : Option ASlot} {s' : State} {A' : AState}
    (hs1 : s'.slots = (s.slots.set i (yi.map handleOf)).set j (yj.map handleOf)) (hs2 : s'.opts = s.opts)
    (hA1 : A'.slots = (A.slots.set i yi).set j yj) (hA2 : A'.opts = A.opts)
    (hpi : ∀ c, yi = some (ASlot.mk .pdu c) → c ≠ []) (hpj : ∀ c, yj = some (ASlot.mk .pdu c) → c ≠ [])
    (hh : SegRep s'.heap (optSeg yi ++ (optSeg yj ++ rootSegs ((A.slots.set i none).set j none))))
    (hn : A'.next = s'.heap.cells.length) : Rep s' A' := by
  refine ⟨?_, ?_, ?_, hn, ?_⟩
  · rw [hs1, hA1, List.map_set, List.map_set, ← hr.slots]
  · show PduNe A'.slots
    rw [hA1]; exact PduNe.set (PduNe.set hr.pdu_ne i _ hpi) j _ hpj
  · rw [hA1]; exact hh.perm (rootSegs_two A.slots hij hi hj yi yj).symm
  · rw [hs2, hA2]; exact hr.opts

/-- writing back the handle a slot already has -/
theorem Rep.slots_set_same {s : State} {A : AState} (hr : Rep s A) {j : Nat} {sl : ASlot} (hsl : A.slot? j = some sl)
    {c' : Chain} (hhd : hd c' = hd sl.chain) (hne : c' ≠ []) :
    s.slots.set j (some (handleOf { sl with chain := c' })) = s.slots := by
  obtain ⟨hi, e⟩ := slot?_some hsl
  have h1 : s.slots[j]? = some (some (handleOf sl)) := by rw [hr.slot_get, List.getElem?_eq_getElem hi, e]; rfl
  obtain ⟨hj, e2⟩ := List.getElem?_eq_some_iff.mp h1
  rw [handleOf_congr hhd hne, ← e2, List.set_getElem_self]

theorem pduSlot_spec {s : State} {A : AState} (hr : Rep s A) (i : Nat) :
    pduSlot s i = (A.pduChain i).bind hd ∧ (∀ c, A.pduChain i = some c → c ≠ [] ∧ A.slot? i = some ⟨.pdu, c⟩) := by
  constructor
  · unfold pduSlot AState.pduChain AState.slot?
    rw [hr.slot_get]
    cases h : A.slots[i]? with
    | none => rfl
    | some o =>
      cases o with
      | none => rfl
      | some sl =>
        obtain ⟨k, c⟩ := sl
        cases k with
        | pkt => rfl
        | pdu =>
          cases c with
          | nil => exact absurd rfl (hr.pdu_ne i [] h)
          | cons x r => rfl
  · intro c hc
    unfold AState.pduChain at hc
    split at hc
    · next c' hsl =>
      cases hc
      exact ⟨hr.pdu_ne i c (slot?_eq hsl), hsl⟩
    · cases hc

theorem pktSlot_spec {s : State} {A : AState} (hr : Rep s A) (i : Nat) :
    pktSlot s i = (A.pktChain i).map hd ∧ (∀ c, A.pktChain i = some c → A.slot? i = some ⟨.pkt, c⟩) := by
  constructor
  · unfold pktSlot AState.pktChain AState.slot?
    rw [hr.slot_get]
    cases h : A.slots[i]? with
    | none => rfl
    | some o =>
      cases o with
      | none => rfl
      | some sl =>
        obtain ⟨k, c⟩ := sl
        cases k with
        | pkt => rfl
        | pdu =>
          cases c with
          | nil => exact absurd rfl (hr.pdu_ne i [] h)
          | cons x r => rfl
  · intro c hc
    unfold AState.pktChain at hc
    split at hc
    · next c' hsl => cases hc; exact hsl
    · cases hc

theorem sim_del {s : State} {A : AState} (hr : Rep s A) (i : Nat) : Sim s A (.del i) := by
  unfold Sim
  simp only [step, AState.step]
  cases hsl : A.slot? i with
  | none =>
    have : s.slots[i]? = none ∨ s.slots[i]? = some none := by
      rw [hr.slot_get]
      unfold AState.slot? at hsl
      cases h : A.slots[i]? with
      | none => exact Or.inl rfl
      | some o =>
        cases o with
        | none => exact Or.inr rfl
        | some sl => rw [h] at hsl; cases hsl
    rcases this with h | h <;> simp [h]
  | some sl =>
    obtain ⟨hi, e⟩ := slot?_some hsl
    have hg : s.slots[i]? = some (some (handleOf sl)) := by rw [hr.slot_get, List.getElem?_eq_getElem hi, e]; rfl
    have h0 := heap_out_slot hr hsl
    obtain ⟨h1, hl⟩ := deletePtr_spec h0
    have hfin : ∀ (s' : State), s'.heap = deletePtr s.heap (hd sl.chain) → s'.slots = s.slots.set i none → s'.opts = s.opts →
        Rep s' (A.setSlot i none) := by
      intro s' e1 e2 e3
      apply hr.intro1 hi (y := none) (A' := A.setSlot i none) e2 e3 rfl rfl (by intro c hc; cases hc)
      · rw [e1]; exact h1
      · rw [e1, hl]; exact hr.next
    obtain ⟨k, c⟩ := sl
    cases k with
    | pkt =>
      simp only [hg, handleOf_pkt]
      exact hfin _ rfl rfl rfl
    | pdu =>
      cases c with
      | nil => exact absurd rfl (hr.pdu_ne i [] (slot?_eq hsl))
      | cons x r =>
        simp only [hg, handleOf_pdu]
        exact hfin _ rfl rfl rfl

end Tins.Own
