import TinsModel.Ownership.LemmasOptB
/-
  Storage-level PDUOption model, part C: closed forms of the member functions' statement sequences.
-/
namespace Tins.OptStore
open Pool

theorem obj_setObj_same {σ : Pool} {t : Nat} (h : t < σ.objs.length) (o : Obj) : (σ.setObj t o).obj t = o := by
  simp [Pool.obj, obj?_setObj_same h]

theorem obj_setObj_ne {σ : Pool} {t k : Nat} (h : t ≠ k) (o : Obj) : (σ.setObj t o).obj k = σ.obj k := by
  simp [Pool.obj, obj?_setObj_ne h]

@[simp] theorem setObj_setObj (σ : Pool) (t : Nat) (o o' : Obj) : (σ.setObj t o).setObj t o' = σ.setObj t o' := by
  simp [Pool.setObj]

@[simp] theorem objs_deleteArr (σ : Pool) (p : Ptr) : (σ.deleteArr p).objs = σ.objs := by
  unfold Pool.deleteArr
  cases p with
  | null => rfl
  | wild => rfl
  | addr a => dsimp only; cases σ.cell? a <;> rfl

@[simp] theorem nuser_deleteArr (σ : Pool) (p : Ptr) : (σ.deleteArr p).nuser = σ.nuser := by
  unfold Pool.deleteArr
  cases p with
  | null => rfl
  | wild => rfl
  | addr a => dsimp only; cases σ.cell? a <;> rfl

@[simp] theorem vlen_deleteArr (σ : Pool) (p : Ptr) : (σ.deleteArr p).vlen = σ.vlen := by
  unfold Pool.deleteArr
  cases p with
  | null => rfl
  | wild => rfl
  | addr a => dsimp only; cases σ.cell? a <;> rfl

@[simp] theorem obj?_deleteArr (σ : Pool) (p : Ptr) (i : Nat) : (σ.deleteArr p).obj? i = σ.obj? i := by
  unfold Pool.obj?; rw [objs_deleteArr]

@[simp] theorem obj_deleteArr (σ : Pool) (p : Ptr) (i : Nat) : (σ.deleteArr p).obj i = σ.obj i := by
  unfold Pool.obj; rw [obj?_deleteArr]

theorem deleteArr_setObj (σ : Pool) (t : Nat) (o : Obj) (p : Ptr) :
    (σ.setObj t o).deleteArr p = (σ.deleteArr p).setObj t o := by
  unfold Pool.deleteArr
  cases p with
  | null => rfl
  | wild => rfl
  | addr a =>
    simp only [cell?_setObj]
    cases σ.cell? a <;> rfl

/-- the four statements both assignment operators start with, in closed form -/
theorem assignHead_eq {σ : Pool} {t r : Nat} {ot or : Obj} (hot : σ.obj? t = some ot) (hor : σ.obj? r = some or) :
    σ.assignHead t r =
      ((if ot.real_size_ > smallSize then σ.deleteArr ot.payload_.asPtr else σ).setObj t
        ⟨or.option_, or.size_, or.real_size_, ot.payload_⟩) := by
  have hlt := lt_of_obj? hot
  unfold Pool.assignHead
  by_cases e : r = t
  · subst e
    rw [hot] at hor; cases hor
    simp only [Pool.setOption, Pool.setSize, Pool.setReal, obj_of hot, obj_setObj_same hlt, setObj_setObj]
    split
    · have h2 : r < (σ.deleteArr ot.payload_.asPtr).objs.length := by simpa using hlt
      rw [deleteArr_setObj, obj_setObj_same h2, setObj_setObj]
    · rw [obj_setObj_same hlt, setObj_setObj]
  · have e' : t ≠ r := fun q => e q.symm
    simp only [Pool.setOption, Pool.setSize, Pool.setReal, obj_of hot, obj_of hor, obj_setObj_same hlt, obj_setObj_ne e',
      setObj_setObj]
    split
    · have h2 : t < (σ.deleteArr ot.payload_.asPtr).objs.length := by simpa using hlt
      rw [deleteArr_setObj, obj_setObj_same h2, obj_setObj_ne e', obj_deleteArr, obj_of hor, setObj_setObj]
    · rw [obj_setObj_same hlt, obj_setObj_ne e', obj_of hor, setObj_setObj]

/-! ### shape: no operation changes the number of slots, the user / vector split or the vector's size field -/

structure SameShape (σ σ' : Pool) : Prop where
  len : σ'.objs.length = σ.objs.length
  nuser : σ'.nuser = σ.nuser
  vlen : σ'.vlen = σ.vlen

theorem SameShape.refl (σ : Pool) : SameShape σ σ := ⟨rfl, rfl, rfl⟩
theorem SameShape.trans {a b c : Pool} (h1 : SameShape a b) (h2 : SameShape b c) : SameShape a c :=
  ⟨h2.len.trans h1.len, h2.nuser.trans h1.nuser, h2.vlen.trans h1.vlen⟩

theorem shape_setObj (σ : Pool) (t : Nat) (o : Obj) : SameShape σ (σ.setObj t o) := ⟨by simp, rfl, rfl⟩
theorem shape_fault (σ : Pool) : SameShape σ σ.fault := ⟨rfl, rfl, rfl⟩
theorem shape_deleteArr (σ : Pool) (p : Ptr) : SameShape σ (σ.deleteArr p) := ⟨by simp, by simp, by simp⟩
theorem shape_newArr (σ : Pool) (bs : Bytes) : SameShape σ (σ.newArr bs).1 := ⟨rfl, rfl, rfl⟩

theorem shape_memcpySmall (σ : Pool) (t : Nat) (src : Loc) (n : Nat) : SameShape σ (σ.memcpySmall t src n) := by
  unfold Pool.memcpySmall
  split
  · exact SameShape.refl σ
  · split
    · exact shape_fault σ
    · split
      · exact shape_fault σ
      · exact shape_setObj _ _ _

theorem shape_setPayloadContents (σ : Pool) (t : Nat) (src : Loc) (n : Nat) : SameShape σ (σ.setPayloadContents t src n) := by
  unfold Pool.setPayloadContents
  split
  · exact shape_fault σ
  · dsimp only
    split
    · split
      · exact (shape_setObj _ _ _).trans (shape_memcpySmall _ _ _ _)
      · exact shape_setObj _ _ _
    · split
      · exact (((shape_setObj _ _ _).trans (shape_newArr _ _)).trans (shape_setObj _ _ _)).trans (shape_fault _)
      · exact ((shape_setObj _ _ _).trans (shape_newArr _ _)).trans (shape_setObj _ _ _)

theorem shape_assignHead (σ : Pool) (t r : Nat) : SameShape σ (σ.assignHead t r) := by
  unfold Pool.assignHead
  dsimp only
  refine SameShape.trans ?_ (shape_setObj _ _ _)
  split
  · exact ((shape_setObj _ _ _).trans (shape_setObj _ _ _)).trans (shape_deleteArr _ _)
  · exact (shape_setObj _ _ _).trans (shape_setObj _ _ _)

theorem shape_copyAssignOld (σ : Pool) (t r : Nat) : SameShape σ (σ.copyAssignOld t r) :=
  (shape_assignHead σ t r).trans (shape_setPayloadContents _ _ _ _)

theorem shape_copyAssign (σ : Pool) (t r : Nat) : SameShape σ (σ.copyAssign t r) := by
  unfold Pool.copyAssign
  split
  · exact SameShape.refl σ
  · exact shape_copyAssignOld σ t r

theorem shape_moveAssign (σ : Pool) (t r : Nat) : SameShape σ (σ.moveAssign t r) := by
  unfold Pool.moveAssign
  dsimp only
  refine (shape_assignHead σ t r).trans ?_
  split
  · exact (((shape_setObj _ _ _).trans (shape_setObj _ _ _)).trans (shape_setObj _ _ _)).trans (shape_setObj _ _ _)
  · exact shape_memcpySmall _ _ _ _

theorem shape_place (σ : Pool) (t : Nat) : SameShape σ (σ.place t) := shape_setObj σ t Obj.raw

theorem shape_destroy (σ : Pool) (t : Nat) : SameShape σ (σ.destroy t) := by
  unfold Pool.destroy
  refine ⟨?_, ?_, ?_⟩
  · dsimp only; split <;> simp
  · dsimp only; split <;> simp
  · dsimp only; split <;> simp

theorem shape_copyCtor (σ : Pool) (t r : Nat) : SameShape σ (σ.copyCtor t r) :=
  ((shape_place σ t).trans (shape_setObj _ _ _)).trans (shape_copyAssign _ _ _)

theorem shape_moveCtor (σ : Pool) (t r : Nat) : SameShape σ (σ.moveCtor t r) :=
  ((shape_place σ t).trans (shape_setObj _ _ _)).trans (shape_moveAssign _ _ _)

end Tins.OptStore
