import TinsModel.Ownership.LemmasInv
/-
  Frame: an operation changes only the handles it names (`touches`); everything another handle observes is unchanged.
-/
namespace Tins.Own

def touches : Op → Nat → Bool
  | .init _, _ | .fin, _ => true
  | .new i _ _ _, j => i == j
  | .set r _, j => r.slot == j
  | .clone i _, j => i == j
  | .movector i r, j => i == j || r.slot == j
  | .div i _ _, j => i == j
  | .diveq a _, j => a.slot == j
  | .assign a _, j => a.slot == j
  | .massign a b, j => a.slot == j || b.slot == j
  | .setinner a s2, j => a.slot == j || s2 == j
  | .setinnerref a _, j => a.slot == j
  | .setnull a, j => a.slot == j
  | .release i a, j => i == j || a.slot == j
  | .del i, j => i == j
  | .pknew i _, j => i == j
  | .pkown i s2, j => i == j || s2 == j
  | .pkempty i, j => i == j
  | .pkcopy i _, j => i == j
  | .pkassign p _, j => p == j
  | .pkmove i p, j => i == j || p == j
  | .pkmassign p q, j => p == j || q == j
  | .pkrelease i p, j => i == j || p == j
  | .pkdiv p _, j => p == j
  | .onew .., _ | .ocopy .., _ | .omove .., _ | .oassign .., _ | .omassign .., _ | .odel .., _ => false

theorem setSlot_get_ne {A : AState} {i j : Nat} (h : i ≠ j) (y : Option ASlot) : (A.setSlot i y).slots[j]? = A.slots[j]? := by
  simp [AState.setSlot, List.getElem?_set, h]
theorem setChain_get_ne {A : AState} {i j : Nat} (h : i ≠ j) (c : Chain) : (A.setChain i c).slots[j]? = A.slots[j]? := by
  unfold AState.setChain; split
  · exact setSlot_get_ne h _
  · rfl
theorem putPdu_get_ne {A : AState} {i j : Nat} (h : i ≠ j) (c : Chain) : (A.putPdu i c).slots[j]? = A.slots[j]? := by
  unfold AState.putPdu; split
  · rfl
  · exact setSlot_get_ne h _
theorem bump_slots {A : AState} (n : Nat) : (A.bump n).slots = A.slots := rfl

theorem spec_frame {A A' : AState} {op : Op} (h : A.step op = some A') {j : Nat} (hj : touches op j = false) :
    A'.slots[j]? = A.slots[j]? := by
  cases op <;> simp only [touches, Bool.or_eq_false_iff, beq_eq_false_iff_ne, ne_eq, Bool.true_eq_false] at hj <;>
    (first | simp only [AState.step] at h | unfold AState.step at h)
  all_goals (repeat' (split at h))
  all_goals (first | (cases h; done) | skip)
  all_goals (simp only [Option.some.injEq] at h; subst h)
  all_goals (first
    | rfl
    | ((try simp only [bump_slots]); first
        | rfl
        | (rw [setSlot_get_ne (by omega)]; done)
        | (rw [setChain_get_ne (by omega)]; done)
        | (rw [setSlot_get_ne (by omega), setChain_get_ne (by omega)]; done)
        | (rw [setChain_get_ne (by omega), setChain_get_ne (by omega)]; done)
        | (rw [putPdu_get_ne (by omega), setChain_get_ne (by omega)]; done)
        | (rw [setSlot_get_ne (by omega), setSlot_get_ne (by omega)]; done)
        | (rw [putPdu_get_ne (by omega), setSlot_get_ne (by omega)]; done)))

end Tins.Own
