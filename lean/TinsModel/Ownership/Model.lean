/-
  Code-shaped model of the ownership mechanics of libtins (property C12):
    include/tins/pdu.h, src/pdu.cpp      PDU copy/move ctor+assign, inner_pdu(), release_inner_pdu(), clone(),
                                         ~PDU(), operator/ and operator/=
    include/tins/packet.h                Packet copy/move/assign/release_pdu/operator/=, PtrPacket adoption
    include/tins/pdu_option.h            PDUOption copy/move ctor+assign (value level; see `Opt`)

  The C++ heap is a list of cells indexed by address (`none` = storage released); allocation appends, so no address
  is ever reused and "freed twice" is observable.  Every access to a released / unallocated cell, every double
  delete and every fuel exhaustion bumps `faults` (what ASan reports on the real objects).  Recursion through
  pointers (`~PDU` deleting its inner, `clone` cloning its inner, the `/=` walk to the last layer) takes fuel
  `cells.length`, which the forest invariant proves sufficient (`Props/C12`).

  One layer carries a `View`: its class, the kind of member that holds its value (0 plain, 1 container whose
  moved-from state is empty, 2 no settable member) and the value — everything the implicit member-wise copy/move
  of the derived classes acts on.
-/
namespace Tins.Own

scoped notation "Addr" => Nat

structure View where
  cls : Nat
  kind : Nat
  val : Nat
deriving DecidableEq, Repr, Inhabited

/-- members of an object after it has been moved from (libstdc++: a moved-from vector is empty) -/
def View.moved (v : View) : View := if v.kind = 1 then { v with val := 0 } else v

/-- the value a setter stores (classes without a settable member ignore it) -/
def View.withVal (v : View) (x : Nat) : View := if v.kind = 2 then v else { v with val := x % 256 }

structure Node where
  view : View
  inner : Option Addr      -- PDU::inner_pdu_   (owning)
  parent : Option Addr     -- PDU::parent_pdu_  (non-owning)
deriving DecidableEq, Repr

structure Heap where
  cells : List (Option Node) := []
  freed : List Addr := []      -- every storage release, in order
  faults : Nat := 0
deriving Repr

namespace Heap

def get (h : Heap) (a : Addr) : Option Node :=
  match h.cells[a]? with
  | some (some n) => some n
  | _ => none

def fault (h : Heap) : Heap := { h with faults := h.faults + 1 }

/-- write a whole cell (the object must be alive) -/
def put (h : Heap) (a : Addr) (n : Node) : Heap :=
  match h.get a with
  | some _ => { h with cells := h.cells.set a (some n) }
  | none => h.fault

/-- `new`: fresh storage, never a reused address -/
def alloc (h : Heap) (n : Node) : Heap × Addr :=
  ({ h with cells := h.cells ++ [some n] }, h.cells.length)

/-- release of the storage of a live object; releasing anything else is a double / wild free -/
def free (h : Heap) (a : Addr) : Heap :=
  match h.get a with
  | some _ => { h with cells := h.cells.set a none, freed := a :: h.freed }
  | none => { h with freed := a :: h.freed, faults := h.faults + 1 }

def setInner (h : Heap) (a : Addr) (i : Option Addr) : Heap :=
  match h.get a with
  | some n => h.put a { n with inner := i }
  | none => h.fault

/-- `PDU::parent_pdu(PDU*)` -/
def setParent (h : Heap) (a : Addr) (p : Option Addr) : Heap :=
  match h.get a with
  | some n => h.put a { n with parent := p }
  | none => h.fault

/-- `if (p) p->parent_pdu(q);` -/
def setParentOpt (h : Heap) (p : Option Addr) (q : Option Addr) : Heap :=
  match p with
  | none => h
  | some a => h.setParent a q

def setView (h : Heap) (a : Addr) (v : View) : Heap :=
  match h.get a with
  | some n => h.put a { n with view := v }
  | none => h.fault

def live (h : Heap) : Nat := (h.cells.filter Option.isSome).length

end Heap

/-- `delete p` (p non-null): `~PDU()` runs `delete inner_pdu_`, then the storage is released -/
def deleteNode : Nat → Heap → Addr → Heap
  | 0, h, _ => h.fault
  | fuel + 1, h, a =>
    match h.get a with
    | none => h.free a
    | some n =>
      let h1 := match n.inner with
        | none => h
        | some i => deleteNode fuel h i
      h1.free a

/-- `delete p` -/
def deletePtr (h : Heap) (p : Option Addr) : Heap :=
  match p with
  | none => h
  | some a => deleteNode h.cells.length h a

/-- `PDU::inner_pdu(PDU* next_pdu)`: delete inner_pdu_; inner_pdu_ = next_pdu; if (inner_pdu_) inner_pdu_->parent_pdu(this); -/
def innerPduPtr (h : Heap) (a : Addr) (next : Option Addr) : Heap :=
  match h.get a with
  | none => h.fault
  | some n =>
    let h1 := deletePtr h n.inner
    (h1.setInner a next).setParentOpt next (some a)

/-- `p->clone()` = `new T(*p)`: storage, then `PDU(const PDU&)` (links null, `copy_inner_pdu(other)`), members copied -/
def cloneNode : Nat → Heap → Addr → Heap × Option Addr
  | 0, h, _ => (h.fault, none)
  | fuel + 1, h, a =>
    match h.get a with
    | none => (h.fault, none)
    | some n =>
      let (h1, b) := h.alloc ⟨n.view, none, none⟩
      -- copy_inner_pdu: if (pdu.inner_pdu()) inner_pdu(pdu.inner_pdu()->clone());
      match n.inner with
      | none => (h1, some b)
      | some i =>
        let (h2, c) := cloneNode fuel h1 i
        (innerPduPtr h2 b c, some b)

def clone (h : Heap) (a : Addr) : Heap × Option Addr := cloneNode h.cells.length h a

/-- `p ? p->clone() : 0` -/
def cloneOpt (h : Heap) (p : Option Addr) : Heap × Option Addr :=
  match p with
  | none => (h, none)
  | some a => clone h a

/-- `PDU::operator=(const PDU& other)` after the fix: the new inner chain is cloned first (so self-assignment is
    safe), then replaces the old one — also when `other` has no inner PDU. -/
def assignBase (h : Heap) (a src : Addr) : Heap :=
  match h.get src with
  | none => h.fault
  | some s =>
    -- inner_pdu(other.inner_pdu() ? other.inner_pdu()->clone() : 0);
    let (h1, c) := cloneOpt h s.inner
    innerPduPtr h1 a c

/-- the pinned (unfixed) `PDU::operator=`: `copy_inner_pdu(other)` does nothing when `other` has no inner PDU -/
def assignBaseOld (h : Heap) (a src : Addr) : Heap :=
  match h.get src with
  | none => h.fault
  | some s =>
    match s.inner with
    | none => h
    | some i => let (h1, c) := clone h i; innerPduPtr h1 a c

/-- implicit `T& T::operator=(const T&)`: base assignment, then the members -/
def assignSame (h : Heap) (a src : Addr) : Heap :=
  let h1 := assignBase h a src
  match h1.get src with
  | none => h1.fault                      -- `other` was destroyed by the base assignment (it was owned by `*this`)
  | some s => h1.setView a s.view

/-- `PDU(PDU&& rhs)` + member-wise move into fresh storage -/
def moveCtor (h : Heap) (src : Addr) : Heap × Option Addr :=
  match h.get src with
  | none => (h.fault, none)
  | some s =>
    let (h1, b) := h.alloc ⟨s.view, none, none⟩
    -- std::swap(inner_pdu_, rhs.inner_pdu_);
    let h2 := (h1.setInner b s.inner).setInner src none
    -- if (inner_pdu_) inner_pdu_->parent_pdu(this);
    let h3 := h2.setParentOpt s.inner (some b)
    (h3.setView src s.view.moved, some b)

/-- `PDU::operator=(PDU&& rhs)`: delete inner_pdu_; inner_pdu_ = 0; swap(inner_pdu_, rhs.inner_pdu_); re-parent -/
def moveAssignBase (h : Heap) (a src : Addr) : Heap :=
  match h.get a with
  | none => h.fault
  | some n =>
    let h1 := deletePtr h n.inner
    let h2 := h1.setInner a none
    match h2.get src with
    | none => h2.fault
    | some s =>
      let h3 := (h2.setInner a s.inner).setInner src none
      h3.setParentOpt s.inner (some a)

/-- implicit `T& T::operator=(T&&)` -/
def moveAssignSame (h : Heap) (a src : Addr) : Heap :=
  let h1 := moveAssignBase h a src
  match h1.get src with
  | none => h1.fault
  | some s => (h1.setView a s.view).setView src s.view.moved

/-- `while (last->inner_pdu()) last = last->inner_pdu();` -/
def lastOf : Nat → Heap → Addr → Option Addr
  | 0, _, _ => none
  | fuel + 1, h, a =>
    match h.get a with
    | none => none
    | some n =>
      match n.inner with
      | none => some a
      | some i => lastOf fuel h i

/-- `lop /= rop` -/
def divEq (h : Heap) (a rop : Addr) : Heap :=
  match lastOf h.cells.length h a with
  | none => h.fault
  | some last =>
    let (h1, c) := clone h rop
    innerPduPtr h1 last c

/-- `new T(lop / rop)`: by-value parameter copy, `/=`, move-constructed result, destruction of the parameter -/
def divNew (h : Heap) (a rop : Addr) : Heap × Option Addr :=
  match clone h a with
  | (h1, none) => (h1, none)
  | (h1, some tmp) =>
    let h2 := divEq h1 tmp rop
    let (h3, r) := moveCtor h2 tmp
    (deletePtr h3 (some tmp), r)

/-- `PDU::release_inner_pdu()` -/
def releaseInner (h : Heap) (a : Addr) : Heap × Option Addr :=
  match h.get a with
  | none => (h.fault, none)
  | some n =>
    ((h.setInner a none).setParentOpt n.inner none, n.inner)

/-! ### PDUOption (value level: the small-buffer/heap union is observed by the sanitizers only) -/

structure Opt where
  code : Nat
  size : Nat            -- `size_`, the advertised length
  data : List Nat       -- `real_size_` bytes
deriving DecidableEq, Repr

/-- state of the source after `PDUOption::operator=(PDUOption&&)`: a heap buffer is stolen, a small one is copied -/
def Opt.movedFrom (o : Opt) : Opt := if o.data.length > 8 then { o with data := [] } else o

/-! ### the pool of user-held handles and the operations of the line protocol -/

inductive Handle where
  | pdu (a : Addr)              -- a PDU the user owns (`new`, `clone()`, `release_inner_pdu()` …)
  | pkt (p : Option Addr)       -- a `Packet` and its `pdu_`
deriving DecidableEq, Repr

structure State where
  heap : Heap := {}
  slots : List (Option Handle) := []
  opts : List (Option Opt) := []
deriving Repr

/-- a layer reference: slot and depth below the slot's top layer -/
structure Ref where
  slot : Nat
  depth : Nat
deriving DecidableEq, Repr

inductive Op where
  | init (n : Nat)
  | fin
  | new (s : Nat) (cls kind val : Nat)
  | set (r : Ref) (val : Nat)
  | clone (s : Nat) (r : Ref)
  | movector (s : Nat) (r : Ref)
  | div (s : Nat) (a b : Ref)
  | diveq (a b : Ref)
  | assign (a b : Ref)
  | massign (a b : Ref)
  | setinner (a : Ref) (s2 : Nat)
  | setinnerref (a b : Ref)
  | setnull (a : Ref)
  | release (s : Nat) (a : Ref)
  | del (s : Nat)
  | pknew (s : Nat) (r : Ref)
  | pkown (s s2 : Nat)
  | pkempty (s : Nat)
  | pkcopy (s p : Nat)
  | pkassign (p q : Nat)
  | pkmove (s p : Nat)
  | pkmassign (p q : Nat)
  | pkrelease (s p : Nat)
  | pkdiv (p : Nat) (b : Ref)
  | onew (i code len fill : Nat)
  | ocopy (i j : Nat)
  | omove (i j : Nat)
  | oassign (i j : Nat)
  | omassign (i j : Nat)
  | odel (i : Nat)
deriving DecidableEq, Repr

/-- top layer held by a slot (`pdu` / `Packet::pdu()`) -/
def rootOf (s : State) (i : Nat) : Option Addr :=
  match s.slots[i]? with
  | some (some (.pdu a)) => some a
  | some (some (.pkt p)) => p
  | _ => none

/-- `d` times `->inner_pdu()` -/
def walk (h : Heap) : Nat → Option Addr → Option Addr
  | _, none => none
  | 0, some a => if (h.get a).isSome then some a else none
  | d + 1, some a => walk h d ((h.get a).bind (·.inner))

def resolve (s : State) (r : Ref) : Option Addr := walk s.heap r.depth (rootOf s r.slot)

def isEmptySlot (s : State) (i : Nat) : Bool := s.slots[i]? == some none

def pduSlot (s : State) (i : Nat) : Option Addr :=
  match s.slots[i]? with
  | some (some (.pdu a)) => some a
  | _ => none

/-- `some p` when slot `i` holds a Packet whose `pdu_` is `p` -/
def pktSlot (s : State) (i : Nat) : Option (Option Addr) :=
  match s.slots[i]? with
  | some (some (.pkt p)) => some p
  | _ => none

def setSlot (s : State) (i : Nat) (x : Option Handle) : State := { s with slots := s.slots.set i x }

/-- a user-held raw pointer result: a null result leaves the slot empty -/
def putPdu (s : State) (i : Nat) (p : Option Addr) : State :=
  match p with
  | none => s
  | some a => setSlot s i (some (.pdu a))

/-- destroy everything the user holds (`end`, and before `init`) -/
def destroySlots : List (Option Handle) → Heap → Heap
  | [], h => h
  | none :: r, h => destroySlots r h
  | some (.pdu a) :: r, h => destroySlots r (deletePtr h (some a))
  | some (.pkt p) :: r, h => destroySlots r (deletePtr h p)

def classEq (h : Heap) (a b : Addr) : Bool :=
  match h.get a, h.get b with
  | some x, some y => x.view.cls == y.view.cls
  | _, _ => false

def optFill (len fill : Nat) : List Nat := (List.range len).map (fun k => (fill + k) % 256)

/-- One operation.  `none` = the operation is outside `WellFormedProgram` in this state (the harness refuses it with
    the same guard, so the real objects are never driven into documented-undefined use). -/
def step (s : State) : Op → Option State
  | .init n => some { heap := {}, slots := List.replicate n none, opts := List.replicate n none }   -- a new world
  | .fin => some { s with heap := destroySlots s.slots s.heap, slots := s.slots.map (fun _ => none),
                          opts := s.opts.map (fun _ => none) }
  | .new i cls kind val =>
    if isEmptySlot s i then
      let (h, a) := s.heap.alloc ⟨(View.mk cls kind 0).withVal val, none, none⟩
      some (setSlot { s with heap := h } i (some (.pdu a)))
    else none
  | .set r val =>
    match resolve s r with
    | none => none
    | some a =>
      match s.heap.get a with
      | none => none
      | some n => some { s with heap := s.heap.setView a (n.view.withVal val) }
  | .clone i r =>
    if isEmptySlot s i then
      match resolve s r with
      | none => none
      | some a => let (h, c) := clone s.heap a; some (putPdu { s with heap := h } i c)
    else none
  | .movector i r =>
    if isEmptySlot s i then
      match resolve s r with
      | none => none
      | some a => let (h, c) := moveCtor s.heap a; some (putPdu { s with heap := h } i c)
    else none
  | .div i a b =>
    if isEmptySlot s i then
      match resolve s a, resolve s b with
      | some x, some y => let (h, c) := divNew s.heap x y; some (putPdu { s with heap := h } i c)
      | _, _ => none
    else none
  | .diveq a b =>
    match resolve s a, resolve s b with
    | some x, some y => some { s with heap := divEq s.heap x y }
    | _, _ => none
  | .assign a b =>
    match resolve s a, resolve s b with
    | some x, some y =>
      -- the source must not be a layer the target owns (it would be destroyed before its members are read)
      if a.slot = b.slot ∧ a.depth < b.depth then none
      else if classEq s.heap x y then some { s with heap := assignSame s.heap x y }
      else some { s with heap := assignBase s.heap x y }
    | _, _ => none
  | .massign a b =>
    match resolve s a, resolve s b with
    | some x, some y =>
      if a.slot = b.slot ∧ a.depth ≠ b.depth then none
      else if classEq s.heap x y then some { s with heap := moveAssignSame s.heap x y }
      else some { s with heap := moveAssignBase s.heap x y }
    | _, _ => none
  | .setinner a s2 =>
    match resolve s a, pduSlot s s2 with
    | some x, some y =>
      if a.slot = s2 then none
      else some (setSlot { s with heap := innerPduPtr s.heap x (some y) } s2 none)
    | _, _ => none
  | .setinnerref a b =>
    match resolve s a, resolve s b with
    | some x, some y => let (h, c) := clone s.heap y; some { s with heap := innerPduPtr h x c }
    | _, _ => none
  | .setnull a =>
    match resolve s a with
    | some x => some { s with heap := innerPduPtr s.heap x none }
    | none => none
  | .release i a =>
    if isEmptySlot s i then
      match resolve s a with
      | some x => let (h, r) := releaseInner s.heap x; some (putPdu { s with heap := h } i r)
      | none => none
    else none
  | .del i =>
    match s.slots[i]? with
    | some (some (.pdu a)) => some (setSlot { s with heap := deletePtr s.heap (some a) } i none)
    | some (some (.pkt p)) => some (setSlot { s with heap := deletePtr s.heap p } i none)
    | _ => none
  | .pknew i r =>                      -- Packet(const PDU&): pdu_(rhs.clone())
    if isEmptySlot s i then
      match resolve s r with
      | some a => let (h, c) := clone s.heap a; some (setSlot { s with heap := h } i (some (.pkt c)))
      | none => none
    else none
  | .pkown i s2 =>                     -- Packet(PDU*, ts, own_pdu) and Packet(const PtrPacket&): adopt the pointer
    if isEmptySlot s i then
      match pduSlot s s2 with
      | some a => some (setSlot (setSlot s s2 none) i (some (.pkt (some a))))
      | none => none
    else none
  | .pkempty i => if isEmptySlot s i then some (setSlot s i (some (.pkt none))) else none
  | .pkcopy i p =>                     -- Packet(const Packet&)
    if isEmptySlot s i then
      match pktSlot s p with
      | some q => let (h, c) := cloneOpt s.heap q; some (setSlot { s with heap := h } i (some (.pkt c)))
      | none => none
    else none
  | .pkassign p q =>                   -- if (this != &rhs) { delete pdu_; pdu_ = rhs.pdu() ? rhs.pdu()->clone() : 0; }
    match pktSlot s p, pktSlot s q with
    | some x, some y =>
      if p = q then some s
      else
        let h1 := deletePtr s.heap x
        let (h2, c) := cloneOpt h1 y
        some (setSlot { s with heap := h2 } p (some (.pkt c)))
    | _, _ => none
  | .pkmove i p =>                     -- Packet(Packet&&): steal, rhs.pdu_ = nullptr
    if isEmptySlot s i then
      match pktSlot s p with
      | some q => some (setSlot (setSlot s p (some (.pkt none))) i (some (.pkt q)))
      | none => none
    else none
  | .pkmassign p q =>                  -- if (this != &rhs) swap(pdu_, rhs.pdu_)
    match pktSlot s p, pktSlot s q with
    | some x, some y =>
      if p = q then some s
      else some (setSlot (setSlot s p (some (.pkt y))) q (some (.pkt x)))
    | _, _ => none
  | .pkrelease i p =>
    if isEmptySlot s i then
      match pktSlot s p with
      | some q => some (putPdu (setSlot s p (some (.pkt none))) i q)
      | none => none
    else none
  | .pkdiv p b =>                      -- pdu_ /= rhs  (dereferences pdu_)
    match pktSlot s p, resolve s b with
    | some (some x), some y => some { s with heap := divEq s.heap x y }
    | _, _ => none
  | .onew i code len fill =>
    if s.opts[i]? == some none then
      some { s with opts := s.opts.set i (some ⟨code % 256, len, optFill len fill⟩) }
    else none
  | .odel i =>
    match s.opts[i]? with
    | some (some _) => some { s with opts := s.opts.set i none }
    | _ => none
  | .ocopy i j =>                      -- PDUOption(const PDUOption&): real_size_ = 0; *this = rhs;
    match s.opts[i]?, s.opts[j]? with
    | some none, some (some o) => some { s with opts := s.opts.set i (some o) }
    | _, _ => none
  | .omove i j =>                      -- PDUOption(PDUOption&&)
    match s.opts[i]?, s.opts[j]? with
    | some none, some (some o) => some { s with opts := (s.opts.set j (some o.movedFrom)).set i (some o) }
    | _, _ => none
  | .oassign i j =>                    -- operator=(const PDUOption&) (self-assignment is a no-op after the fix)
    match s.opts[i]?, s.opts[j]? with
    | some (some _), some (some o) => some { s with opts := s.opts.set i (some o) }
    | _, _ => none
  | .omassign i j =>                   -- operator=(PDUOption&&); on itself a heap buffer is released and the option left empty
    match s.opts[i]?, s.opts[j]? with
    | some (some _), some (some o) =>
      if i = j then some { s with opts := s.opts.set i (some o.movedFrom) }
      else some { s with opts := (s.opts.set j (some o.movedFrom)).set i (some o) }
    | _, _ => none

/-- refused operations leave the state unchanged -/
def stepD (s : State) (op : Op) : State := (step s op).getD s

def run (s : State) : List Op → State
  | [] => s
  | op :: r => run (stepD s op) r

end Tins.Own
