/-
  Storage-level, code-shaped model of `PDUOption` (property C12), include/tins/pdu_option.h:

      option_type option_;  uint16_t size_, real_size_;
      union { data_type small_buffer[small_buffer_size]; data_type* big_buffer_ptr; } payload_;

  over an explicit heap.  Every member function is mirrored statement for statement: which member is read after
  which has been written is what decides the behaviour of self-assignment, so every statement re-reads the objects
  from the pool (`σ.obj i`) and objects are identified by their slot (`this == &rhs` is `t = r`).

  * Heap: `cells : Addr ⇀ Bytes` as a list indexed by address (`some bs` live block, `none` released); `new[]`
    appends, so no address is ever handed out twice and "released twice" is observable; `freed` logs every
    `delete[]`.  Reading a released / unallocated / wild address, reading beyond the end of a block, reading an
    indeterminate byte, `delete[]` of anything but a live block or null, and an exception escaping from an assignment
    bump `faults` (what ASan / UBSan report on the real objects).
  * The union: exactly one member is active.  Reading `small_buffer` while the pointer is active yields indeterminate
    bytes (`none`), reading `big_buffer_ptr` while the small buffer is active yields a wild pointer.
  * A vector of options (`std::vector<option>` with reserved capacity, as the option containers of TCP, IP, DHCP, …
    use it) lives in the slots `nuser … nuser+vlen-1`: `push_back` constructs in place, `erase(pos)` move-assigns
    the later elements one slot down in ascending order and destroys the last one (libstdc++ `_M_erase`).
-/
namespace Tins.OptStore

abbrev Bytes := List Nat

/-- `small_buffer_size` -/
def smallSize : Nat := 8

inductive Ptr where
  | null
  | addr (a : Nat)
  | wild                         -- the bytes of the small buffer read as a pointer
deriving DecidableEq, Repr

inductive Payload where
  | small (b : List (Option Nat))      -- `small_buffer` is the active member; `none` = indeterminate byte
  | big (p : Ptr)                      -- `big_buffer_ptr` is the active member
deriving DecidableEq, Repr

def indet : List (Option Nat) := List.replicate 8 none

def Payload.asSmall : Payload → List (Option Nat)
  | .small b => b
  | .big _ => indet

def Payload.asPtr : Payload → Ptr
  | .big p => p
  | .small _ => .wild

structure Obj where
  option_ : Nat
  size_ : Nat
  real_size_ : Nat
  payload_ : Payload
deriving DecidableEq, Repr

/-- storage in which no constructor has run yet (all members indeterminate; every constructor writes a member
    before it reads it, see `copyCtor` / `moveCtor`) -/
def Obj.raw : Obj := ⟨0, 0, 0, .small indet⟩

structure Pool where
  objs : List (Option Obj) := []         -- the slots: user-held options, then the vector's storage
  cells : List (Option Bytes) := []      -- the heap
  freed : List Nat := []                 -- every `delete[]` of a non-null pointer, in order
  faults : Nat := 0
  nuser : Nat := 0                       -- slots `< nuser` are user-held, the others belong to the vector
  vlen : Nat := 0                        -- `vector::size()`
deriving Repr

/-- where a `const uint8_t*` points -/
inductive Loc where
  | ext (bs : Bytes)             -- the caller's buffer
  | smallOf (i : Nat)            -- `payload_.small_buffer` of the object in slot `i`
  | heap (p : Ptr)
deriving Repr

def allSome : List (Option Nat) → Option Bytes
  | [] => some []
  | none :: _ => none
  | some x :: r => (allSome r).map (x :: ·)

namespace Pool

def obj? (σ : Pool) (i : Nat) : Option Obj :=
  match σ.objs[i]? with
  | some (some o) => some o
  | _ => none

def obj (σ : Pool) (i : Nat) : Obj := (σ.obj? i).getD Obj.raw

def cell? (σ : Pool) (a : Nat) : Option Bytes :=
  match σ.cells[a]? with
  | some (some b) => some b
  | _ => none

def fault (σ : Pool) : Pool := { σ with faults := σ.faults + 1 }

def setObj (σ : Pool) (i : Nat) (o : Obj) : Pool := { σ with objs := σ.objs.set i (some o) }

def setOption (σ : Pool) (i : Nat) (v : Nat) : Pool := σ.setObj i { σ.obj i with option_ := v }
def setSize (σ : Pool) (i : Nat) (v : Nat) : Pool := σ.setObj i { σ.obj i with size_ := v }
def setReal (σ : Pool) (i : Nat) (v : Nat) : Pool := σ.setObj i { σ.obj i with real_size_ := v }
def setPayload (σ : Pool) (i : Nat) (p : Payload) : Pool := σ.setObj i { σ.obj i with payload_ := p }

/-- `new data_type[n]` (filled by the copy loop that follows it): fresh storage, never a reused address -/
def newArr (σ : Pool) (bs : Bytes) : Pool × Nat :=
  ({ σ with cells := σ.cells ++ [some bs] }, σ.cells.length)

/-- `delete[] p` -/
def deleteArr (σ : Pool) (p : Ptr) : Pool :=
  match p with
  | .null => σ
  | .wild => σ.fault
  | .addr a =>
    match σ.cell? a with
    | some _ => { σ with cells := σ.cells.set a none, freed := a :: σ.freed }
    | none => { σ with freed := a :: σ.freed, faults := σ.faults + 1 }

/-- `data_ptr()`: `real_size_ <= small_buffer_size ? payload_.small_buffer : payload_.big_buffer_ptr` -/
def dataPtr (σ : Pool) (i : Nat) : Loc :=
  if (σ.obj i).real_size_ ≤ smallSize then .smallOf i else .heap (σ.obj i).payload_.asPtr

/-- read `n` bytes starting at a location; `none` = the access is invalid (a fault) -/
def readLoc (σ : Pool) (l : Loc) (n : Nat) : Option Bytes :=
  if n = 0 then some [] else
  match l with
  | .ext bs => if n ≤ bs.length then some (bs.take n) else none
  | .smallOf i => if n ≤ smallSize then allSome ((σ.obj i).payload_.asSmall.take n) else none
  | .heap (.addr a) =>
    match σ.cell? a with
    | some bs => if n ≤ bs.length then some (bs.take n) else none
    | none => none
  | .heap _ => none

/-- `std::memcpy(payload_.small_buffer, src, n)` into the object in slot `t` (`memcpy(p, p, n)` leaves `p` as it is) -/
def memcpySmall (σ : Pool) (t : Nat) (src : Loc) (n : Nat) : Pool :=
  if n = 0 then σ else
  if n > smallSize then σ.fault else
  match σ.readLoc src n with
  | none => σ.fault
  | some bs => σ.setPayload t (.small (bs.map some ++ (σ.obj t).payload_.asSmall.drop n))

/-- `set_payload_contents(start, end)` with `start` = `src`, `end - start` = `n`.  The constructors that can be handed
    more than 65535 bytes test that first (`Ctor.*` below: the exception leaves no object behind); inside an
    assignment the same `throw` would leave a half-assigned object, which is counted as a fault. -/
def setPayloadContents (σ : Pool) (t : Nat) (src : Loc) (n : Nat) : Pool :=
  if n > 65535 then σ.fault else
  let σ := σ.setReal t n                                     -- real_size_ = static_cast<uint16_t>(total_size);
  if (σ.obj t).real_size_ ≤ smallSize then
    if n > 0 then σ.memcpySmall t src n else σ               -- if (total_size > 0) memcpy(small_buffer, &*start, total_size);
  else
    let bs? := σ.readLoc src n                               -- (what the copy loop reads)
    let (σ, a) := σ.newArr (bs?.getD (List.replicate n 0))   -- payload_.big_buffer_ptr = new data_type[real_size_];
    let σ := σ.setPayload t (.big (.addr a))
    if bs?.isNone then σ.fault else σ                        -- while (start < end) *ptr++ = *start++;

/-- the four statements both assignment operators start with -/
def assignHead (σ : Pool) (t r : Nat) : Pool :=
  let σ := σ.setOption t (σ.obj r).option_                   -- option_ = rhs.option_;
  let σ := σ.setSize t (σ.obj r).size_                       -- size_ = rhs.size_;
  let σ := if (σ.obj t).real_size_ > smallSize               -- if (real_size_ > small_buffer_size)
           then σ.deleteArr (σ.obj t).payload_.asPtr else σ  --     delete[] payload_.big_buffer_ptr;
  σ.setReal t (σ.obj r).real_size_                           -- real_size_ = rhs.real_size_;

/-- the same operator before `fix: PDUOption copy self-assignment reads its own freed heap buffer` (no identity test) -/
def copyAssignOld (σ : Pool) (t r : Nat) : Pool :=
  let σ := σ.assignHead t r
  σ.setPayloadContents t (σ.dataPtr r) (σ.obj r).real_size_  -- set_payload_contents(rhs.data_ptr(), rhs.data_ptr() + rhs.data_size());

/-- `PDUOption& operator=(const PDUOption& rhs)` -/
def copyAssign (σ : Pool) (t r : Nat) : Pool :=
  if t = r then σ else                                       -- if (this == &rhs) return *this;
  σ.copyAssignOld t r

/-- `PDUOption& operator=(PDUOption&& rhs)` (no identity test in the code) -/
def moveAssign (σ : Pool) (t r : Nat) : Pool :=
  let σ := σ.assignHead t r
  if (σ.obj t).real_size_ > smallSize then
    let σ := σ.setPayload t (.big .null)                     -- payload_.big_buffer_ptr = 0;
    -- std::swap(payload_.big_buffer_ptr, rhs.payload_.big_buffer_ptr);
    let tmp := (σ.obj t).payload_.asPtr
    let σ := σ.setPayload t (.big (σ.obj r).payload_.asPtr)
    let σ := σ.setPayload r (.big tmp)
    σ.setReal r 0                                            -- rhs.real_size_ = 0;
  else
    σ.memcpySmall t (σ.dataPtr r) (σ.obj r).real_size_       -- memcpy(payload_.small_buffer, rhs.data_ptr(), rhs.data_size());

/-- `~PDUOption()`, then the storage of the object goes away -/
def destroy (σ : Pool) (i : Nat) : Pool :=
  let σ := if (σ.obj i).real_size_ > smallSize then σ.deleteArr (σ.obj i).payload_.asPtr else σ
  { σ with objs := σ.objs.set i none }

/-- storage for a new object in slot `i` -/
def place (σ : Pool) (i : Nat) : Pool := { σ with objs := σ.objs.set i (some Obj.raw) }

/-- `PDUOption(const PDUOption& rhs) { real_size_ = 0; *this = rhs; }` -/
def copyCtor (σ : Pool) (i r : Nat) : Pool :=
  let σ := σ.place i
  let σ := σ.setReal i 0
  σ.copyAssign i r

/-- `PDUOption(PDUOption&& rhs) { real_size_ = 0; *this = std::move(rhs); }` -/
def moveCtor (σ : Pool) (i r : Nat) : Pool :=
  let σ := σ.place i
  let σ := σ.setReal i 0
  σ.moveAssign i r

/-- `PDUOption(option_type opt = option_type(), size_t length = 0, const data_type* data = 0)`;
    `none` = `option_payload_too_large` thrown (no object) -/
def ctorData (σ : Pool) (i : Nat) (opt length : Nat) (data : Option Bytes) : Option Pool :=
  let σ := σ.place i
  -- : option_(opt), size_(static_cast<uint16_t>(length)), real_size_(0)
  let σ := σ.setOption i opt
  let σ := σ.setSize i (length % 65536)
  let σ := σ.setReal i 0
  match data with
  | none => some σ                                           -- if (data != 0)
  | some bs =>
    if length > 65535 then none
    else some (σ.setPayloadContents i (.ext bs) length)      -- set_payload_contents(data, data + length);

/-- `PDUOption(option_type opt, ForwardIterator start, ForwardIterator end)` -/
def ctorRange (σ : Pool) (i : Nat) (opt : Nat) (bs : Bytes) : Option Pool :=
  let σ := σ.place i
  let σ := σ.setOption i opt
  let σ := σ.setSize i (bs.length % 65536)                   -- size_(static_cast<uint16_t>(std::distance(start, end)))
  if bs.length > 65535 then none
  else some (σ.setPayloadContents i (.ext bs) bs.length)

/-- `PDUOption(option_type opt, uint16_t length, ForwardIterator start, ForwardIterator end)` -/
def ctorAdv (σ : Pool) (i : Nat) (opt length : Nat) (bs : Bytes) : Option Pool :=
  let σ := σ.place i
  let σ := σ.setOption i opt
  let σ := σ.setSize i (length % 65536)
  if bs.length > 65535 then none
  else some (σ.setPayloadContents i (.ext bs) bs.length)

/-- `std::move(first, last, result)` over `n` elements starting at slot `p + 1`, moved to slot `p` (ascending) -/
def moveDown (σ : Pool) : Nat → Nat → Pool
  | 0, _ => σ
  | n + 1, p => moveDown (σ.moveAssign p (p + 1)) n (p + 1)

/-- `vector::erase(begin() + k)`: `if (pos + 1 != end()) std::move(pos + 1, end(), pos); --finish; destroy(finish);` -/
def vErase (σ : Pool) (k : Nat) : Pool :=
  let σ := σ.moveDown (σ.vlen - 1 - k) (σ.nuser + k)
  let σ := σ.destroy (σ.nuser + σ.vlen - 1)
  { σ with vlen := σ.vlen - 1 }

/-- destroy every object of the slots `[0, n)` that is alive -/
def destroyAll (σ : Pool) : Nat → Pool
  | 0 => σ
  | n + 1 =>
    let σ := destroyAll σ n
    if (σ.obj? n).isSome then σ.destroy n else σ

def live (σ : Pool) : Nat := (σ.cells.filter Option.isSome).length

def liveBytes (σ : Pool) : Nat := (σ.cells.map (fun c => match c with | some b => b.length | none => 0)).sum

end Pool

/-! ### what a user observes of one option -/

structure VOpt where
  code : Nat           -- `option()`
  len : Nat            -- `length_field()`
  data : Bytes         -- `data_size()` bytes at `data_ptr()`
deriving DecidableEq, Repr

/-- `(option(), length_field(), [data_ptr(), data_ptr() + data_size()))`; `none` = no object, or its data cannot be read -/
def Pool.view (σ : Pool) (i : Nat) : Option VOpt :=
  match σ.obj? i with
  | none => none
  | some o =>
    match σ.readLoc (σ.dataPtr i) o.real_size_ with
    | none => none
    | some d => some ⟨o.option_, o.size_, d⟩

/-! ### operations of the line protocol -/

inductive Op where
  | init (n cap : Nat)
  | fin
  | newNull (i code len : Nat)               -- `PDUOption(code, len)` (no data pointer)
  | newData (i code : Nat) (d : Bytes)       -- `PDUOption(code, d.size(), d.data())`
  | newRange (i code : Nat) (d : Bytes)      -- `PDUOption(code, d.begin(), d.end())`
  | newAdv (i code len : Nat) (d : Bytes)    -- `PDUOption(code, len, d.begin(), d.end())`
  | copy (i j : Nat)                         -- `new (slot i) PDUOption(slot j)`
  | move (i j : Nat)                         -- `new (slot i) PDUOption(std::move(slot j))`
  | assign (i j : Nat)                       -- `slot i = slot j` (also `i = j`)
  | massign (i j : Nat)                      -- `slot i = std::move(slot j)` (also `i = j`)
  | del (i : Nat)
  | read (i : Nat)                           -- `option()`, `length_field()`, `data_size()` and every data byte
  | vpush (j : Nat)                          -- `vec.push_back(slot j)`
  | vpushMove (j : Nat)                      -- `vec.push_back(std::move(slot j))`
  | verase (k : Nat)                         -- `vec.erase(vec.begin() + k)`
  | vpop                                     -- `vec.pop_back()`
deriving DecidableEq, Repr

def Pool.isFree (σ : Pool) (i : Nat) : Bool := σ.objs[i]? == some none

/-- One operation; `none` = outside the guard (no such slot, constructing over a live object, using a destroyed one,
    a full vector — the harness refuses the same lines).  `Except`-like second component: the constructor threw. -/
def step (σ : Pool) : Op → Option Pool
  | .init n cap => some { objs := List.replicate (n + cap) none, nuser := n }
  | .fin => some { σ.destroyAll σ.objs.length with vlen := 0 }
  | .newNull i code len =>
    if i < σ.nuser ∧ σ.isFree i then σ.ctorData i (code % 256) len none else none
  | .newData i code d =>
    if i < σ.nuser ∧ σ.isFree i then some ((σ.ctorData i (code % 256) d.length (some d)).getD σ) else none
  | .newRange i code d =>
    if i < σ.nuser ∧ σ.isFree i then some ((σ.ctorRange i (code % 256) d).getD σ) else none
  | .newAdv i code len d =>
    if i < σ.nuser ∧ σ.isFree i then some ((σ.ctorAdv i (code % 256) len d).getD σ) else none
  | .copy i j =>
    if i < σ.nuser ∧ σ.isFree i ∧ (σ.obj? j).isSome then some (σ.copyCtor i j) else none
  | .move i j =>
    if i < σ.nuser ∧ σ.isFree i ∧ (σ.obj? j).isSome then some (σ.moveCtor i j) else none
  | .assign i j =>
    if (σ.obj? i).isSome ∧ (σ.obj? j).isSome then some (σ.copyAssign i j) else none
  | .massign i j =>
    if (σ.obj? i).isSome ∧ (σ.obj? j).isSome then some (σ.moveAssign i j) else none
  | .del i =>
    if i < σ.nuser ∧ (σ.obj? i).isSome then some (σ.destroy i) else none
  | .read i =>
    if (σ.obj? i).isSome then some (if (σ.view i).isNone then σ.fault else σ) else none
  | .vpush j =>
    if σ.nuser + σ.vlen < σ.objs.length ∧ (σ.obj? j).isSome
    then some { σ.copyCtor (σ.nuser + σ.vlen) j with vlen := σ.vlen + 1 } else none
  | .vpushMove j =>
    if σ.nuser + σ.vlen < σ.objs.length ∧ (σ.obj? j).isSome
    then some { σ.moveCtor (σ.nuser + σ.vlen) j with vlen := σ.vlen + 1 } else none
  | .verase k =>
    if k < σ.vlen then some (σ.vErase k) else none
  | .vpop =>
    if 0 < σ.vlen then some { σ.destroy (σ.nuser + σ.vlen - 1) with vlen := σ.vlen - 1 } else none

def stepD (σ : Pool) (op : Op) : Pool := (step σ op).getD σ

def run (σ : Pool) : List Op → Pool
  | [] => σ
  | op :: r => run (stepD σ op) r

/-- slots an operation constructs, assigns to, moves from or destroys (every other slot is its frame) -/
def touches (nuser vlen : Nat) : Op → Nat → Bool
  | .init _ _, _ => true
  | .fin, _ => true
  | .newNull i _ _, k => k == i
  | .newData i _ _, k => k == i
  | .newRange i _ _, k => k == i
  | .newAdv i _ _ _, k => k == i
  | .copy i _, k => k == i
  | .move i j, k => k == i || k == j
  | .assign i _, k => k == i
  | .massign i j, k => k == i || k == j
  | .del i, k => k == i
  | .read _, _ => false
  | .vpush _, k => k == nuser + vlen
  | .vpushMove j, k => k == nuser + vlen || k == j
  | .verase e, k => decide (nuser + e ≤ k)
  | .vpop, k => k == nuser + vlen - 1

end Tins.OptStore
