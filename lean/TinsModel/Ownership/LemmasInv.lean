import TinsModel.Ownership.LemmasSim4
/-
  From the representation relation to pointer-level facts: where a live layer sits, what its links are, and the
  concrete observation function (`chainFrom`).
-/
namespace Tins.Own

theorem stepD_rep {s : State} {A : AState} (hr : Rep s A) (op : Op) : Rep (stepD s op) (A.stepD op) := by
  have h := step_sim hr op
  unfold Sim at h
  unfold stepD AState.stepD
  cases h1 : step s op <;> cases h2 : A.step op <;> simp only [h1, h2] at h <;> first | exact h | exact hr | exact h.elim

theorem step_agree {s : State} {A : AState} (hr : Rep s A) (op : Op) : (step s op).isSome = (A.step op).isSome := by
  have h := step_sim hr op
  unfold Sim at h
  cases h1 : step s op <;> cases h2 : A.step op <;> simp only [h1, h2] at h <;> first | rfl | exact h.elim

theorem step_rep {s s' : State} {A : AState} (hr : Rep s A) {op : Op} (h1 : step s op = some s') :
    ∃ A', A.step op = some A' ∧ Rep s' A' := by
  have h := step_sim hr op
  unfold Sim at h
  cases h2 : A.step op with
  | none => simp only [h1, h2] at h
  | some A' => simp only [h1, h2] at h; exact ⟨A', rfl, h⟩

theorem run_rep {s : State} {A : AState} (hr : Rep s A) (ops : List Op) : Rep (run s ops) (A.run ops) := by
  induction ops generalizing s A with
  | nil => exact hr
  | cons op r ih => exact ih (stepD_rep hr op)

theorem rep_empty : Rep {} {} := by
  refine ⟨rfl, ?_, segRep_empty, rfl, rfl⟩
  intro i c hc; simp at hc

/-! ### where a live layer sits -/

theorem mem_rootSegs {slots : List (Option ASlot)} {g : SegT} (h : g ∈ rootSegs slots) :
    ∃ (i : Nat) (sl : ASlot), slots[i]? = some (some sl) ∧ g = root sl.chain := by
  unfold rootSegs at h
  simp only [List.mem_flatten, List.mem_map] at h
  obtain ⟨l, ⟨o, ho, rfl⟩, hg⟩ := h
  cases o with
  | none => simp [optSeg] at hg
  | some sl =>
    simp only [optSeg, List.mem_singleton] at hg
    obtain ⟨i, hi, e⟩ := List.getElem_of_mem ho
    exact ⟨i, sl, by rw [List.getElem?_eq_getElem hi, e], hg⟩

/-- every live layer is at exactly one place of exactly one handle's chain -/
theorem Rep.position {s : State} {A : AState} (hr : Rep s A) {x : Nat} (hx : (s.heap.get x).isSome) :
    ∃ (i : Nat) (sl : ASlot) (pre post : Chain) (v : View),
      A.slot? i = some sl ∧ sl.chain = pre ++ (x, v) :: post := by
  have h1 := hr.heap.cover x hx
  unfold allAddrs at h1
  simp only [List.mem_flatten, List.mem_map] at h1
  obtain ⟨l, ⟨g, hg, rfl⟩, hxl⟩ := h1
  obtain ⟨i, sl, hi, rfl⟩ := mem_rootSegs hg
  simp only [root, addrs, List.mem_map] at hxl
  obtain ⟨⟨x', v⟩, hm, rfl⟩ := hxl
  obtain ⟨pre, post, e⟩ := List.append_of_mem hm
  exact ⟨i, sl, pre, post, v, by simp [AState.slot?, hi], e⟩

theorem Rep.get_pos {s : State} {A : AState} (hr : Rep s A) {i : Nat} {sl : ASlot} {pre post : Chain} {x : Nat × View}
    (hsl : A.slot? i = some sl) (hc : sl.chain = pre ++ x :: post) :
    s.heap.get x.1 = some ⟨x.2, hd post, lst pre⟩ :=
  hr.heap.mem_get_at (hc ▸ hr.seg_of_slot hsl)

theorem lst_concat (c : Chain) (z : Nat × View) : lst (c ++ [z]) = some z.1 := by simp [lst]

/-- two different handles never reach the same layer -/
theorem Rep.slots_disjoint {s : State} {A : AState} (hr : Rep s A) {i j : Nat} {si sj : ASlot}
    (hi : A.slot? i = some si) (hj : A.slot? j = some sj) {x : Nat} (hxi : x ∈ addrs si.chain) (hxj : x ∈ addrs sj.chain) :
    i = j := by
  apply Classical.byContradiction
  intro hne
  obtain ⟨hi', ei⟩ := slot?_some hi
  obtain ⟨hj', ej⟩ := slot?_some hj
  have h0 := (heap_out2 hr hne hi' hj').nodup
  rw [ei, ej] at h0
  simp only [optSeg, List.cons_append, List.nil_append, allAddrs_cons, root, List.nodup_append] at h0
  exact h0.2.2 x hxi x (List.mem_append_left _ hxj) rfl

/-! ### concrete observation -/

/-- the layers reachable from a pointer by `->inner_pdu()`, with their fields -/
def chainFrom (h : Heap) : Nat → Option Nat → Chain
  | 0, _ => []
  | _ + 1, none => []
  | f + 1, some a =>
    match h.get a with
    | none => []
    | some n => (a, n.view) :: chainFrom h f n.inner

theorem chainFrom_spec {h : Heap} : ∀ (c : Chain) (fuel : Nat) (p : Option Nat), c.length ≤ fuel → Seg h p c none →
    chainFrom h fuel (hd c) = c := by
  intro c
  induction c with
  | nil => intro fuel p _ _; cases fuel <;> rfl
  | cons x r ih =>
    intro fuel p hf hs
    obtain ⟨f, rfl⟩ : ∃ f, fuel = f + 1 := ⟨fuel - 1, by simp at hf; omega⟩
    simp only [hd_cons, chainFrom, hs.1, Option.or_none]
    rw [ih f (some x.1) (by simp at hf; omega) hs.2]

/-- what the user sees through a reference: the layers from there downwards -/
def State.chainAt (s : State) (r : Ref) : Chain := chainFrom s.heap s.heap.cells.length (resolve s r)

theorem Rep.chainAt {s : State} {A : AState} (hr : Rep s A) (r : Ref) : s.chainAt r = (A.sub r).getD [] := by
  unfold State.chainAt
  rw [hr.resolve]
  cases hs : A.sub r with
  | none => cases s.heap.cells.length <;> rfl
  | some c =>
    obtain ⟨sl, hsl, _, hm⟩ := hr.sub_mem hs
    have hseg := hr.heap.segs _ hm
    have hsub : Seg s.heap ((lst (sl.chain.take r.depth)).or none) c none := (Seg.append.mp hseg).2
    have hlen : c.length ≤ s.heap.cells.length := by
      have := length_le_of_root hr.heap hm
      simp at this; omega
    simp only [Option.bind_some, Option.getD_some]
    exact chainFrom_spec c _ _ hlen hsub

def views (c : Chain) : List View := c.map Prod.snd

theorem views_freshCopy (n : Nat) (c : Chain) : views (freshCopy n c) = views c := by
  induction c generalizing n with
  | nil => rfl
  | cons x r ih => obtain ⟨a, v⟩ := x; simp [freshCopy, views] at *; exact ih (n + 1)

theorem addrs_freshCopy_ge (n : Nat) (c : Chain) : ∀ a ∈ addrs (freshCopy n c), n ≤ a := by
  induction c generalizing n with
  | nil => intro a ha; simp [freshCopy] at ha
  | cons x r ih =>
    obtain ⟨xa, v⟩ := x
    intro a ha
    simp only [freshCopy, addrs_cons, List.mem_cons] at ha
    rcases ha with rfl | ha
    · exact Nat.le_refl _
    · have := ih (n + 1) a ha; omega

end Tins.Own
