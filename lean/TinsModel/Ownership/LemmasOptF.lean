import TinsModel.Ownership.LemmasOptE
/-
  Storage-level PDUOption model, part F: the representation relation between a pool and a value-level state, and
  what a user observes of a represented pool.
-/
namespace Tins.OptStore
open Pool

structure Rep (σ : Pool) (A : SState) : Prop where
  inv : Inv σ A.opt?
  len : σ.objs.length = A.opts.length
  nuser : σ.nuser = A.nuser
  vlen : σ.vlen = A.vlen
  /-- the vector's elements are exactly the first `vlen` slots of its storage -/
  vecLive : ∀ i, A.nuser ≤ i → ((A.opt? i).isSome ↔ i < A.nuser + A.vlen)
  cap : A.nuser + A.vlen ≤ A.opts.length

theorem opt?_eq_none {A : SState} {i : Nat} : A.opt? i = none ↔ (A.opts[i]? = none ∨ A.opts[i]? = some none) := by
  unfold SState.opt?
  split
  · next o' h => rw [h]; simp
  · next h =>
    simp only [true_iff]
    cases h' : A.opts[i]? with
    | none => simp
    | some x => cases x with
      | none => simp
      | some o => exact absurd h' (h o)

theorem opt?_put (A : SState) (i k : Nat) (w : Option VOpt) :
    (A.put i w).opt? k = if k = i ∧ i < A.opts.length then w else A.opt? k := by
  unfold SState.opt? SState.put
  simp only [List.getElem?_set]
  by_cases h : i = k
  · subst h
    by_cases hl : i < A.opts.length
    · simp [hl]; cases w <;> rfl
    · simp [hl]
  · have h' : ¬ k = i := fun e => h e.symm
    simp [h, h']

theorem opt?_put_fun {A : SState} {i : Nat} (h : i < A.opts.length) (w : Option VOpt) :
    (A.put i w).opt? = upd A.opt? i w := by
  funext k
  rw [opt?_put]
  unfold upd
  simp [h]

@[simp] theorem length_put (A : SState) (i : Nat) (w : Option VOpt) : (A.put i w).opts.length = A.opts.length := by
  simp [SState.put]
@[simp] theorem nuser_put (A : SState) (i : Nat) (w : Option VOpt) : (A.put i w).nuser = A.nuser := rfl
@[simp] theorem vlen_put (A : SState) (i : Nat) (w : Option VOpt) : (A.put i w).vlen = A.vlen := rfl

theorem Rep.live_iff {σ : Pool} {A : SState} (h : Rep σ A) (i : Nat) : (σ.obj? i).isSome = (A.opt? i).isSome :=
  (h.inv.corr i (by simp)).some_iff

theorem isFree_iff (σ : Pool) (i : Nat) : σ.isFree i = true ↔ σ.objs[i]? = some none := by
  unfold Pool.isFree; simp

theorem sisFree_iff (A : SState) (i : Nat) : A.isFree i = true ↔ A.opts[i]? = some none := by
  unfold SState.isFree; simp

theorem free_iff_obj {σ : Pool} {i : Nat} : σ.objs[i]? = some none ↔ (i < σ.objs.length ∧ σ.obj? i = none) := by
  rw [obj?_eq_none]
  constructor
  · intro h
    exact ⟨(List.getElem?_eq_some_iff.mp h).1, Or.inr h⟩
  · rintro ⟨hl, h | h⟩
    · rw [List.getElem?_eq_none_iff] at h; omega
    · exact h

theorem free_iff_opt {A : SState} {i : Nat} : A.opts[i]? = some none ↔ (i < A.opts.length ∧ A.opt? i = none) := by
  rw [opt?_eq_none]
  constructor
  · intro h
    exact ⟨(List.getElem?_eq_some_iff.mp h).1, Or.inr h⟩
  · rintro ⟨hl, h | h⟩
    · rw [List.getElem?_eq_none_iff] at h; omega
    · exact h

theorem Rep.free_iff {σ : Pool} {A : SState} (h : Rep σ A) (i : Nat) : σ.objs[i]? = some none ↔ A.opts[i]? = some none := by
  rw [free_iff_obj, free_iff_opt, h.len]
  have := h.live_iff i
  constructor
  · rintro ⟨hl, hn⟩
    rw [hn] at this
    refine ⟨hl, ?_⟩
    cases hx : A.opt? i with
    | none => rfl
    | some v => rw [hx] at this; cases this
  · rintro ⟨hl, hn⟩
    rw [hn] at this
    refine ⟨hl, ?_⟩
    cases hx : σ.obj? i with
    | none => rfl
    | some v => rw [hx] at this; cases this

theorem Rep.isFree_eq {σ : Pool} {A : SState} (h : Rep σ A) (i : Nat) : σ.isFree i = A.isFree i := by
  have := h.free_iff i
  rw [← isFree_iff, ← sisFree_iff] at this
  cases h1 : σ.isFree i <;> cases h2 : A.isFree i <;> simp_all

/-- **what a user observes of a represented pool is the represented value** -/
theorem view_of_inv {σ : Pool} {f : Nat → Option VOpt} (h : Inv σ f) (i : Nat) : σ.view i = f i := by
  unfold Pool.view
  have hc := h.corr i (by simp)
  cases ho : σ.obj? i with
  | none =>
    unfold Corr at hc
    rw [ho] at hc
    cases hf : f i with
    | none => rfl
    | some v => rw [hf] at hc; exact absurd hc id
  | some o =>
    obtain ⟨v, hf, hr⟩ := hc.of_some ho
    rw [hf]
    dsimp only
    have hread : σ.readLoc (σ.dataPtr i) o.real_size_ = some v.data := by
      unfold Pool.dataPtr
      rw [Tins.OptStore.obj_of ho, hr.real]
      split
      · next hs => exact readLoc_small_of_rep ho hr hs
      · next hs =>
        obtain ⟨a, hpa, hca⟩ := hr.big (by omega)
        rw [hpa]
        exact readLoc_heap_of_cell hca
    rw [hread, hr.code, hr.len]

theorem Rep.view_eq {σ : Pool} {A : SState} (h : Rep σ A) (i : Nat) : σ.view i = A.opt? i := view_of_inv h.inv i

end Tins.OptStore
