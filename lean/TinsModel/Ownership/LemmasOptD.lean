import TinsModel.Ownership.LemmasOptC
/-
  Storage-level PDUOption model, part D: every member function preserves the (closed) invariant `Inv σ f` and
  changes the represented values `f` the way the value specification says.
-/
namespace Tins.OptStore
open Pool

/-- the closed invariant: no object is in the middle of an operation, no block is pending -/
def Inv (σ : Pool) (f : Nat → Option VOpt) : Prop := Core σ f (fun _ => False) (fun _ => False)

/-- `x` is the heap block the object value `o` designates -/
def blockOf (o : Obj) (x : Nat) : Prop := smallSize < o.real_size_ ∧ o.payload_ = .big (.addr x)

theorem owns_iff {σ : Pool} {t : Nat} {o : Obj} (ho : σ.obj? t = some o) (x : Nat) : Owns σ t x ↔ blockOf o x := by
  unfold Owns blockOf
  constructor
  · rintro ⟨o', ho', h1, h2⟩; rw [ho] at ho'; cases ho'; exact ⟨h1, h2⟩
  · rintro ⟨h1, h2⟩; exact ⟨o, ho, h1, h2⟩

theorem Inv.open_live {σ : Pool} {f : Nat → Option VOpt} (h : Inv σ f) {t : Nat} {ot : Obj} (ho : σ.obj? t = some ot) :
    Core σ f (· = t) (blockOf ot) :=
  (Core.open h (by simp) ho).congr (fun _ _ => rfl) (by simp) (fun a => by rw [owns_iff ho]; simp)

theorem Inv.rep_of {σ : Pool} {f : Nat → Option VOpt} (h : Inv σ f) {t : Nat} {ot : Obj} (ho : σ.obj? t = some ot) :
    ∃ v, f t = some v ∧ ObjRep σ ot v := (h.corr t (by simp)).of_some ho

theorem Inv.obj_of {σ : Pool} {f : Nat → Option VOpt} (h : Inv σ f) {t : Nat} {v : VOpt} (hf : f t = some v) :
    ∃ o, σ.obj? t = some o ∧ ObjRep σ o v := by
  have := h.corr t (by simp)
  rw [hf] at this
  exact this.of_val

theorem ObjRep.blockOf_ex {σ : Pool} {o : Obj} {v : VOpt} (h : ObjRep σ o v) (hb : smallSize < o.real_size_) :
    ∃ a, o.payload_ = .big (.addr a) ∧ σ.cell? a = some v.data := h.big (by rw [← h.real]; exact hb)

theorem Inv.open_free {σ : Pool} {f : Nat → Option VOpt} (h : Inv σ f) {t : Nat} (hfree : σ.objs[t]? = some none) :
    Core ((σ.place t).setReal t 0) f (· = t) (fun _ => False) ∧
    ((σ.place t).setReal t 0).obj? t = some Obj.raw := by
  have hlt : t < σ.objs.length := (List.getElem?_eq_some_iff.mp hfree).1
  have h1 : Core (σ.place t) f (· = t) (fun _ => False) :=
    (Core.place h hfree).congr (fun _ _ => rfl) (by simp) (fun _ => Iff.rfl)
  have hp : (σ.place t).obj? t = some Obj.raw := obj?_setObj_same hlt _
  have e : (σ.place t).setReal t 0 = (σ.place t).setObj t Obj.raw := by
    simp only [Pool.setReal, Tins.OptStore.obj_of hp]; rfl
  rw [e]
  refine ⟨h1.write rfl _, ?_⟩
  exact obj?_setObj_same (by simpa [Pool.place] using hlt) _

/-! ### the head of both assignment operators -/

theorem head_core {σ : Pool} {f : Nat → Option VOpt} {t r : Nat} {ot or : Obj}
    (h : Core σ f (· = t) (blockOf ot)) (hot : σ.obj? t = some ot) (hor : σ.obj? r = some or)
    (hbig : smallSize < ot.real_size_ → ∃ a, ot.payload_ = .big (.addr a)) :
    Core (σ.assignHead t r) f (· = t) (fun _ => False) ∧
    (σ.assignHead t r).obj? t = some ⟨or.option_, or.size_, or.real_size_, ot.payload_⟩ ∧
    (∀ k, k ≠ t → (σ.assignHead t r).obj? k = σ.obj? k) ∧
    (∀ x, ¬ blockOf ot x → (σ.assignHead t r).cell? x = σ.cell? x) := by
  have hlt := lt_of_obj? hot
  rw [assignHead_eq hot hor]
  by_cases hb : ot.real_size_ > smallSize
  · obtain ⟨a, hpa⟩ := hbig hb
    have hPa : blockOf ot a := ⟨hb, hpa⟩
    obtain ⟨bs, hbs⟩ := Option.isSome_iff_exists.mp (h.pend a hPa).1
    simp only [hb, if_true, hpa, Payload.asPtr]
    have hd := (Core.delete h hPa).congr (f' := f) (X' := (· = t)) (P' := fun _ => False) (fun _ _ => rfl) (fun _ => Iff.rfl) (by
      intro x
      simp only [iff_false, not_and, Decidable.not_not]
      intro ⟨_, hx⟩
      rw [hpa] at hx; cases hx; rfl)
    refine ⟨hd.write rfl _, ?_, ?_, ?_⟩
    · exact obj?_setObj_same (by simpa using hlt) _
    · intro k hk; rw [obj?_setObj_ne (Ne.symm hk), obj?_deleteArr]
    · intro x hx
      rw [cell?_setObj, deleteArr_live hbs, cell?_set_none]
      have : x ≠ a := fun e => hx (e ▸ hPa)
      simp [this]
  · simp only [hb, if_false]
    have hc := h.congr (f' := f) (X' := (· = t)) (P' := fun _ => False) (fun _ _ => rfl) (fun _ => Iff.rfl) (by
      intro x; simp only [iff_false]; intro hx; exact hb hx.1)
    refine ⟨hc.write rfl _, obj?_setObj_same hlt _, ?_, ?_⟩
    · intro k hk; rw [obj?_setObj_ne (Ne.symm hk)]
    · intro x _; rfl

/-! ### reading a source that is not the target's own small buffer -/

theorem readLoc_setObj_ext (σ : Pool) (t : Nat) (o : Obj) (bs : Bytes) (n : Nat) :
    (σ.setObj t o).readLoc (.ext bs) n = σ.readLoc (.ext bs) n := rfl

theorem readLoc_setObj_heap (σ : Pool) (t : Nat) (o : Obj) (p : Ptr) (n : Nat) :
    (σ.setObj t o).readLoc (.heap p) n = σ.readLoc (.heap p) n := by
  unfold Pool.readLoc
  cases p <;> simp

theorem readLoc_setObj_small {σ : Pool} {t r : Nat} (h : t ≠ r) (o : Obj) (n : Nat) :
    (σ.setObj t o).readLoc (.smallOf r) n = σ.readLoc (.smallOf r) n := by
  unfold Pool.readLoc
  simp only [obj_setObj_ne h]

theorem readLoc_ext_self (σ : Pool) (d : Bytes) : σ.readLoc (.ext d) d.length = some d := by
  unfold Pool.readLoc
  split
  · next h => rw [List.length_eq_zero_iff.mp h]
  · simp

theorem readLoc_small_of_rep {σ σ' : Pool} {r : Nat} {o : Obj} {v : VOpt} (ho : σ.obj? r = some o) (hr : ObjRep σ' o v)
    (hs : v.data.length ≤ smallSize) : σ.readLoc (.smallOf r) v.data.length = some v.data := by
  unfold Pool.readLoc
  split
  · next h => rw [List.length_eq_zero_iff.mp h]
  · simp only [Tins.OptStore.obj_of ho, hr.small hs, allSome_map_some]

theorem readLoc_heap_of_cell {σ : Pool} {a : Nat} {d : Bytes} (hc : σ.cell? a = some d) :
    σ.readLoc (.heap (.addr a)) d.length = some d := by
  unfold Pool.readLoc
  split
  · next h => rw [List.length_eq_zero_iff.mp h]
  · simp [hc]

/-! ### `set_payload_contents` finishes the target -/

theorem Core.finish {σ : Pool} {f : Nat → Option VOpt} {t : Nat} {o : Obj} {v : VOpt} {P : Nat → Prop}
    (h : Core σ f (· = t) P) (ho : σ.obj? t = some o) (hr : ObjRep σ o v) (hP : ∀ x, P x ↔ blockOf o x) :
    Inv σ (upd f t (some v)) := by
  refine (Core.close h rfl ho hr ?_).congr (fun _ _ => rfl) ?_ ?_
  · intro a hb hp; exact (hP a).mpr ⟨hb, hp⟩
  · intro i; simp
  · intro x
    rw [owns_iff ho, hP]
    simp

theorem spc_inv {σ : Pool} {f : Nat → Option VOpt} {t : Nat} {o : Obj} {src : Loc} {n : Nat} {d : Bytes}
    (h : Core σ f (· = t) (fun _ => False)) (ho : σ.obj? t = some o)
    (hread : ∀ o', (σ.setObj t o').readLoc src n = some d) (hlen : d.length = n) (hn : n ≤ 65535) :
    Inv (σ.setPayloadContents t src n) (upd f t (some ⟨o.option_, o.size_, d⟩)) := by
  have hlt := lt_of_obj? ho
  unfold Pool.setPayloadContents
  have hn' : ¬ n > 65535 := by omega
  simp only [hn', if_false, Pool.setReal, Tins.OptStore.obj_of ho, obj_setObj_same hlt]
  split
  · next hs =>
    split
    · next hpos =>
      unfold Pool.memcpySmall
      have h0 : ¬ n = 0 := by omega
      have h8 : ¬ n > smallSize := by omega
      simp only [h0, h8, if_false, hread, Pool.setPayload, obj_setObj_same hlt, setObj_setObj]
      refine Core.finish (h.write rfl _) (obj?_setObj_same hlt _) ?_ ?_
      · refine ⟨rfl, rfl, hlen.symm, by simpa [hlen] using hn, ?_, ?_⟩
        · intro _
          simp only [Payload.asSmall]
          rw [List.take_append_of_le_length (by simp)]
          exact List.take_of_length_le (by simp)
        · intro hb; simp only [hlen] at hb; omega
      · intro x; simp only [blockOf, false_iff, not_and]
        intro hb; omega
    · next hpos =>
      have h0 : n = 0 := by omega
      subst h0
      have hd : d = [] := List.length_eq_zero_iff.mp hlen
      subst hd
      refine Core.finish (h.write rfl _) (obj?_setObj_same hlt _) ?_ ?_
      · refine ⟨rfl, rfl, rfl, by simp, ?_, ?_⟩
        · intro _; rfl
        · intro hb; simp [smallSize] at hb
      · intro x; simp [blockOf, smallSize]
  · next hs =>
    simp only [hread, Option.getD_some, Option.isNone_some, Bool.false_eq_true, if_false, Pool.setPayload]
    have hl2 : t < ((σ.setObj t { o with real_size_ := n }).newArr d).1.objs.length := by
      simpa [Pool.newArr] using hlt
    have ho2 : ((σ.setObj t { o with real_size_ := n }).newArr d).1.obj? t = some { o with real_size_ := n } := by
      rw [obj?_newArr]; exact obj?_setObj_same hlt _
    rw [Tins.OptStore.obj_of ho2]
    have hc := ((h.write rfl { o with real_size_ := n }).alloc d).write rfl
      ({ o with real_size_ := n, payload_ := .big (.addr σ.cells.length) } : Obj)
    refine Core.finish hc (obj?_setObj_same hl2 _) ?_ ?_
    · refine ⟨rfl, rfl, hlen.symm, by simpa [hlen] using hn, ?_, ?_⟩
      · intro hb; simp only [hlen] at hb; omega
      · intro _
        refine ⟨σ.cells.length, rfl, ?_⟩
        rw [cell?_setObj, cell?_newArr]
        simp
    · intro x
      simp only [blockOf, snd_newArr, cells_setObj, or_false]
      constructor
      · intro e; subst e; exact ⟨by omega, rfl⟩
      · intro ⟨_, e⟩; cases e; rfl

/-! ### copy assignment and copy construction -/

theorem blockOf_raw (x : Nat) : ¬ blockOf Obj.raw x := by simp [blockOf, Obj.raw, smallSize]

theorem upd_eta (f : Nat → Option VOpt) (t : Nat) (v : VOpt) (o : Obj) (hc : o.option_ = v.code) (hl : o.size_ = v.len) :
    upd f t (some ⟨o.option_, o.size_, v.data⟩) = upd f t (some v) := by
  rw [hc, hl]

theorem copyTail_inv {σ : Pool} {f : Nat → Option VOpt} {t r : Nat} {ot : Obj} {v : VOpt}
    (h : Core σ f (· = t) (blockOf ot)) (hot : σ.obj? t = some ot)
    (hbig : smallSize < ot.real_size_ → ∃ a, ot.payload_ = .big (.addr a)) (hne : t ≠ r) (hfr : f r = some v) :
    Inv (σ.copyAssignOld t r) (upd f t (some v)) := by
  have hXr : ¬ r = t := fun e => hne e.symm
  have hcr := h.corr r hXr
  rw [hfr] at hcr
  obtain ⟨or, hor, hrep⟩ := hcr.of_val
  obtain ⟨hc, hobj, hframe, hcells⟩ := head_core h hot hor hbig
  unfold Pool.copyAssignOld
  dsimp only
  have horh : (σ.assignHead t r).obj? r = some or := by rw [hframe r hXr]; exact hor
  rw [Tins.OptStore.obj_of horh, hrep.real]
  have key : ∀ o', ((σ.assignHead t r).setObj t o').readLoc ((σ.assignHead t r).dataPtr r) v.data.length = some v.data := by
    intro o'
    unfold Pool.dataPtr
    rw [Tins.OptStore.obj_of horh]
    split
    · next hs =>
      rw [readLoc_setObj_small hne]
      exact readLoc_small_of_rep horh hrep (by rw [← hrep.real]; exact hs)
    · next hs =>
      obtain ⟨ar, hpa, hca⟩ := hrep.blockOf_ex (by omega)
      rw [hpa, readLoc_setObj_heap]
      apply readLoc_heap_of_cell
      rw [hcells ar ?_]
      · exact hca
      · intro hb
        exact (h.pend ar hb).2 r hXr ⟨or, hor, by omega, hpa⟩
  have := spc_inv hc hobj key rfl hrep.bound
  rw [upd_eta f t v _ hrep.code hrep.len] at this
  exact this

theorem Inv.congr_f {σ : Pool} {f f' : Nat → Option VOpt} (h : Inv σ f) (hf : ∀ i, f i = f' i) : Inv σ f' :=
  Core.congr h (fun i _ => hf i) (fun _ => Iff.rfl) (fun _ => Iff.rfl)

theorem copyAssign_inv {σ : Pool} {f : Nat → Option VOpt} {t r : Nat} {ot : Obj} {v : VOpt}
    (h : Inv σ f) (hot : σ.obj? t = some ot) (hfr : f r = some v) :
    Inv (σ.copyAssign t r) (upd f t (some v)) := by
  unfold Pool.copyAssign
  split
  · next e =>
    subst e
    refine h.congr_f ?_
    intro i
    by_cases e : i = t
    · subst e; simp [hfr]
    · rw [upd_ne e]
  · next hne =>
    obtain ⟨vt, _, hrt⟩ := h.rep_of hot
    exact copyTail_inv (h.open_live hot) hot (fun hb => (hrt.blockOf_ex hb).imp fun _ hx => hx.1) hne hfr

theorem copyCtor_inv {σ : Pool} {f : Nat → Option VOpt} {t r : Nat} {v : VOpt}
    (h : Inv σ f) (hfree : σ.objs[t]? = some none) (hfr : f r = some v) :
    Inv (σ.copyCtor t r) (upd f t (some v)) := by
  obtain ⟨or, hor, _⟩ := h.obj_of hfr
  have hne : t ≠ r := by
    intro e; subst e
    rw [obj?_eq_some, hfree] at hor
    cases hor
  obtain ⟨hc, hobj⟩ := h.open_free hfree
  unfold Pool.copyCtor
  dsimp only
  unfold Pool.copyAssign
  simp only [hne, if_false]
  refine copyTail_inv (hc.congr (fun _ _ => rfl) (fun _ => Iff.rfl) ?_) hobj ?_ hne hfr
  · intro x; simp [blockOf_raw]
  · intro hb; simp [Obj.raw, smallSize] at hb

end Tins.OptStore
