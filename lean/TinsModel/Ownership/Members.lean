/-
  C12 — the declaration-level facts the ownership models rest on, as a table regenerated from the source
  (translator/gen_members.py → TinsModel/Gen/Members.lean).

  The forest model (Ownership/Model.lean) abstracts the member-wise copy / move of every class to ONE value per layer and
  treats `PDU::inner_pdu_` / `parent_pdu_`, `Packet::pdu_` and the option's heap buffer as the only pointers.  This file
  holds the row syntax and the executable checks over a table; Props/Members/C12.lean states them about the generated table.
  Core Lean only (the driver imports the generated table).
-/
namespace Tins.Own.Members

/-- what a member-wise copy of a data member does -/
inductive MKind
  | value          -- arithmetic, enum, array / POD struct of those, address classes: the copy is the value
  | nested         -- an object of another class of the table, held by value: copied by that class's own copy operations
  | container      -- std::vector / string / map / list … of values, containers, or table classes: deep copy
  | ownedPtr       -- raw pointer (or a union with one) the class deletes
  | nonOwningPtr   -- raw pointer the class never deletes
  | smartPtr | reference
  | ptrContainer   -- container of raw pointers
  | other          -- type-erased holders (std::function, boost::any), anything else
  | unparsed       -- the translator could not classify the type
deriving DecidableEq, Repr

structure Member where
  name : String
  key : Nat            -- the UTF-8 bytes of "Class::member" as one base-256 number (compared instead of strings)
  type : String
  kind : MKind
  holds : List Nat     -- keys of the table classes held by value (directly, or as elements of the container)
deriving Repr

/-- status of a special member function -/
inductive Special
  | implicit | defaulted | deleted
  | notDeclared          -- move operation suppressed by a user-declared copy operation / destructor
  | privateUndefined     -- declared private and never defined (the C++03 spelling of `= delete`)
  | userProvided (mentions : List Nat) (mentionsBases : List Nat) (trivialBody : Bool)
  | unparsed
deriving DecidableEq, Repr

inductive Clone
  | absent | pure
  | canonical (target : Nat)     -- `{ return new X(*this); }`, key of X
  | other (text : String)
deriving Repr

structure ClassRow where
  name : String
  key : Nat
  bases : List Nat         -- keys of the bases that are rows of the table
  isPdu : Bool
  isAbstract : Bool
  publicCtor : Bool        -- has a public constructor other than copy / move
  members : List Member
  copyCtor : Special
  copyAssign : Special
  moveCtor : Special
  moveAssign : Special
  dtor : Special
  clone : Clone
deriving Repr

abbrev Table := List ClassRow

def natOfString (s : String) : Nat := s.toUTF8.foldl (fun acc b => acc * 256 + b.toNat) 0

structure Key where
  n : Nat
  s : String
deriving Repr

def findRow (t : Table) (k : Nat) : Option ClassRow := t.find? (fun r => r.key == k)

/-- objects of the class can exist: not abstract and a public constructor -/
def ClassRow.concrete (r : ClassRow) : Bool := !r.isAbstract && r.publicCtor

/-! ### 1. pointer members -/

def MKind.deepValue : MKind → Bool
  | .value | .nested | .container => true
  | _ => false

/-- one entry of the allow-list: the member, the kind it is expected to have, and the model function that mirrors it -/
structure Allowed where
  member : Key
  kind : MKind
  mirroredBy : String
deriving Repr

def allowedKind (allow : List Allowed) (k : Nat) : Option MKind := (allow.find? (fun a => a.member.n == k)).map (·.kind)

/-- the member is a deep value (and every table class it holds is a row), or it is on the allow-list with this kind -/
def memberOK (t : Table) (allow : List Allowed) (m : Member) : Bool :=
  if m.kind.deepValue then m.holds.all (fun h => (findRow t h).isSome)
  else allowedKind allow m.key == some m.kind

def badMembers (t : Table) (allow : List Allowed) : List (String × Member) :=
  t.flatMap (fun r => (r.members.filter (fun m => !memberOK t allow m)).map (fun m => (r.name, m)))

def allMembers (t : Table) : List Member := t.flatMap (·.members)

/-- allow-list entries that name no member of the table (stale) -/
def staleAllowed (t : Table) (allow : List Allowed) : List Allowed :=
  allow.filter (fun a => !(allMembers t).any (fun m => m.key == a.member.n))

/-! ### 2. clone -/

def cloneCanonicalFor (r : ClassRow) : Bool :=
  match r.clone with
  | .canonical x => x == r.key
  | _ => false

def missingClone (t : Table) : List ClassRow := t.filter (fun r => r.isPdu && r.concrete && !cloneCanonicalFor r)

/-- the clone() that a call on an object of class `k` runs: the class's own override, else the one inherited through the
    (first) base chain — `fuel` bounds the depth of the hierarchy -/
def finalClone (t : Table) : Nat → Nat → Option Clone
  | 0, _ => none
  | fuel + 1, k =>
    match findRow t k with
    | none => none
    | some r =>
      match r.clone with
      | .absent => r.bases.findSome? (finalClone t fuel)
      | c => some c

/-- a class whose objects would be sliced by clone(): the final overrider constructs another class (or none exists) -/
def slices (t : Table) (r : ClassRow) : Bool :=
  match finalClone t (t.length + 1) r.key with
  | some (.canonical x) => x != r.key
  | _ => true

def slicing (t : Table) : List ClassRow := t.filter (fun r => r.isPdu && r.concrete && slices t r)

/-! ### 3. rule of three, member coverage of user-provided copies and moves -/

def Special.userDeclared : Special → Bool
  | .implicit | .notDeclared => false
  | _ => true

def Special.provided : Special → Bool
  | .userProvided .. => true
  | _ => false

def Special.nontrivialProvided : Special → Bool
  | .userProvided _ _ t => !t
  | _ => false

def ClassRow.ownsRaw (r : ClassRow) : Bool := r.members.any (fun m => m.kind == .ownedPtr || m.kind == .ptrContainer)

/-- the class needs its own copy operations and destructor: it owns raw storage, or it already provides one of the three
    with a non-empty body -/
def ClassRow.needsThree (r : ClassRow) : Bool :=
  r.ownsRaw || r.copyCtor.provided || r.copyAssign.provided || r.dtor.nontrivialProvided

/-- … then all three are user-declared, and no move operation is left to the compiler (an implicit move of an owning
    pointer would leave two owners) -/
def threeDeclared (r : ClassRow) : Bool :=
  r.copyCtor.userDeclared && r.copyAssign.userDeclared && r.dtor.userDeclared &&
  r.moveCtor != .implicit && r.moveCtor != .defaulted && r.moveAssign != .implicit && r.moveAssign != .defaulted

/-- a member a user-provided operation may leave unmentioned, and why -/
structure Exempt where
  member : Key
  op : String          -- "copyCtor" | "copyAssign" | "moveCtor" | "moveAssign"
  why : String
deriving Repr

def unmentioned (r : ClassRow) (ex : List Exempt) (op : String) (s : Special) : List Member :=
  match s with
  | .userProvided ms _ _ => r.members.filter (fun m => !ms.contains m.key && !ex.any (fun e => e.member.n == m.key && e.op == op))
  | _ => []

def unmentionedBases (r : ClassRow) (s : Special) : List Nat :=
  match s with
  | .userProvided _ bs _ => r.bases.filter (fun b => !bs.contains b)
  | _ => []

def ClassRow.ops (r : ClassRow) : List (String × Special) :=
  [("copyCtor", r.copyCtor), ("copyAssign", r.copyAssign), ("moveCtor", r.moveCtor), ("moveAssign", r.moveAssign)]

def forgotten (t : Table) (ex : List Exempt) : List (String × String × String) :=
  t.flatMap (fun r => r.ops.flatMap (fun os =>
    (unmentioned r ex os.1 os.2).map (fun m => (r.name, os.1, m.name)) ++
    (unmentionedBases r os.2).map (fun _ => (r.name, os.1, "(base class)"))))

def ruleOfThreeBroken (t : Table) : List ClassRow := t.filter (fun r => r.needsThree && !threeDeclared r)

def hasUnparsedSpecial (r : ClassRow) : Bool :=
  r.copyCtor == .unparsed || r.copyAssign == .unparsed || r.moveCtor == .unparsed || r.moveAssign == .unparsed || r.dtor == .unparsed

end Tins.Own.Members
