import TinsModel.Ownership.LemmasOps
/-
  The representation relation between the pointer model (`State`) and the chain specification (`AState`), and the
  bookkeeping lemmas about slots used by the simulation proof.
-/
namespace Tins.Own

/-- the handle a slot of the specification corresponds to -/
def handleOf (sl : ASlot) : Handle :=
  match sl.kind, sl.chain with
  | .pdu, x :: _ => .pdu x.1
  | .pdu, [] => .pkt none
  | .pkt, c => .pkt (hd c)

def optSeg : Option ASlot → List SegT
  | none => []
  | some sl => [root sl.chain]

def rootSegs (slots : List (Option ASlot)) : List SegT := (slots.map optSeg).flatten

structure Rep (s : State) (A : AState) : Prop where
  slots : s.slots = A.slots.map (Option.map handleOf)
  pdu_ne : ∀ (i : Nat) (c : Chain), A.slots[i]? = some (some (ASlot.mk .pdu c)) → c ≠ []
  heap : SegRep s.heap (rootSegs A.slots)
  next : A.next = s.heap.cells.length
  opts : s.opts = A.opts

/-! ### slots -/

theorem rootSegs_one (slots : List (Option ASlot)) (i : Nat) (y : Option ASlot) (hi : i < slots.length) :
    (rootSegs (slots.set i y)).Perm (optSeg y ++ rootSegs (slots.set i none)) := by
  induction slots generalizing i with
  | nil => simp at hi
  | cons a r ih =>
    cases i with
    | zero => simp [rootSegs, optSeg]
    | succ i =>
      simp only [List.set_cons_succ, rootSegs, List.map_cons, List.flatten_cons]
      have := ih i (by simpa using hi)
      simp only [rootSegs] at this
      refine (List.Perm.append_left _ this).trans ?_
      rw [← List.append_assoc, ← List.append_assoc]
      exact List.Perm.append_right _ List.perm_append_comm

theorem rootSegs_self (slots : List (Option ASlot)) (i : Nat) (hi : i < slots.length) :
    (rootSegs slots).Perm (optSeg slots[i] ++ rootSegs (slots.set i none)) := by
  have := rootSegs_one slots i slots[i] hi
  rwa [List.set_getElem_self] at this

theorem slot?_some {A : AState} {i : Nat} {sl : ASlot} (h : A.slot? i = some sl) :
    ∃ hi : i < A.slots.length, A.slots[i] = some sl := by
  unfold AState.slot? at h
  split at h
  · next sl' hh =>
    cases h
    obtain ⟨hi, e⟩ := List.getElem?_eq_some_iff.mp hh
    exact ⟨hi, e⟩
  · cases h

theorem slot?_eq {A : AState} {i : Nat} {sl : ASlot} (h : A.slot? i = some sl) : A.slots[i]? = some (some sl) := by
  obtain ⟨hi, e⟩ := slot?_some h
  rw [List.getElem?_eq_getElem hi, e]

theorem isEmpty_spec {A : AState} {i : Nat} (h : A.isEmpty i = true) : ∃ hi : i < A.slots.length, A.slots[i] = none := by
  unfold AState.isEmpty at h
  have : A.slots[i]? = some none := by simpa using h
  obtain ⟨hi, e⟩ := List.getElem?_eq_some_iff.mp this
  exact ⟨hi, e⟩

theorem Rep.slot_get {s : State} {A : AState} (hr : Rep s A) (i : Nat) :
    s.slots[i]? = (A.slots[i]?).map (Option.map handleOf) := by
  rw [hr.slots, List.getElem?_map]

theorem Rep.isEmptySlot {s : State} {A : AState} (hr : Rep s A) (i : Nat) : isEmptySlot s i = A.isEmpty i := by
  unfold Tins.Own.isEmptySlot AState.isEmpty
  rw [hr.slot_get]
  cases h : A.slots[i]? with
  | none => rfl
  | some o => cases o <;> simp

theorem handleOf_pdu {x : Nat × View} {r : Chain} : handleOf ⟨.pdu, x :: r⟩ = .pdu x.1 := rfl
theorem handleOf_pkt {c : Chain} : handleOf ⟨.pkt, c⟩ = .pkt (hd c) := rfl

/-- the top layer a slot holds -/
theorem Rep.rootOf {s : State} {A : AState} (hr : Rep s A) {i : Nat} {sl : ASlot} (h : A.slot? i = some sl) :
    Tins.Own.rootOf s i = hd sl.chain := by
  unfold Tins.Own.rootOf
  rw [hr.slot_get, slot?_eq h]
  obtain ⟨k, c⟩ := sl
  cases k with
  | pdu =>
    cases c with
    | nil => exact absurd rfl (hr.pdu_ne i [] (slot?_eq h))
    | cons x r => rfl
  | pkt => rfl

theorem Rep.rootOf_none {s : State} {A : AState} (hr : Rep s A) {i : Nat} (h : A.slot? i = none) : Tins.Own.rootOf s i = none := by
  unfold Tins.Own.rootOf
  rw [hr.slot_get]
  unfold AState.slot? at h
  cases hh : A.slots[i]? with
  | none => rfl
  | some o =>
    cases o with
    | none => rfl
    | some sl => rw [hh] at h; cases h

theorem Rep.seg_of_slot {s : State} {A : AState} (hr : Rep s A) {i : Nat} {sl : ASlot} (h : A.slot? i = some sl) :
    root sl.chain ∈ rootSegs A.slots := by
  obtain ⟨hi, e⟩ := slot?_some h
  have := (rootSegs_self A.slots i hi).mem_iff (a := root sl.chain)
  rw [this, e]
  simp [optSeg]

/-- decomposition of a reference -/
theorem sub_spec {A : AState} {r : Ref} {c : Chain} (h : A.sub r = some c) :
    ∃ sl, A.slot? r.slot = some sl ∧ sl.chain.drop r.depth = c ∧ sl.chain = sl.chain.take r.depth ++ c ∧ c ≠ [] := by
  unfold AState.sub at h
  split at h
  · cases h
  · next sl hsl =>
    split at h
    · cases h
    · next hne =>
      cases h
      exact ⟨sl, hsl, rfl, (List.take_append_drop _ _).symm, hne⟩

theorem sub_none {A : AState} {r : Ref} (h : A.sub r = none) :
    A.slot? r.slot = none ∨ ∃ sl, A.slot? r.slot = some sl ∧ sl.chain.drop r.depth = [] := by
  unfold AState.sub at h
  split at h
  · next hsl => exact Or.inl hsl
  · next sl hsl =>
    split at h
    · next hd => exact Or.inr ⟨sl, hsl, hd⟩
    · cases h

theorem Rep.resolve {s : State} {A : AState} (hr : Rep s A) (r : Ref) :
    Tins.Own.resolve s r = (A.sub r).bind hd := by
  unfold Tins.Own.resolve
  cases hs : A.sub r with
  | some c =>
    obtain ⟨sl, hsl, hd', _, hne⟩ := sub_spec hs
    rw [hr.rootOf hsl, walk_spec r.depth sl.chain none (hr.heap.segs _ (hr.seg_of_slot hsl)), hd']; rfl
  | none =>
    rcases sub_none hs with h0 | ⟨sl, hsl, hd0⟩
    · rw [hr.rootOf_none h0]; cases r.depth <;> rfl
    · rw [hr.rootOf hsl, walk_spec r.depth sl.chain none (hr.heap.segs _ (hr.seg_of_slot hsl)), hd0]; rfl

end Tins.Own
