import TinsModel.Ownership.LemmasOptD
/-
  Storage-level PDUOption model, part E: move assignment / construction, destruction, the constructors from data.
-/
namespace Tins.OptStore
open Pool

theorem memcpy_finish {σ : Pool} {f : Nat → Option VOpt} {t : Nat} {o : Obj} {src : Loc} {d : Bytes}
    (h : Core σ f (· = t) (fun _ => False)) (ho : σ.obj? t = some o) (hreal : o.real_size_ = d.length)
    (hs : d.length ≤ smallSize) (hread : σ.readLoc src d.length = some d) :
    Inv (σ.memcpySmall t src d.length) (upd f t (some ⟨o.option_, o.size_, d⟩)) := by
  have hlt := lt_of_obj? ho
  unfold Pool.memcpySmall
  split
  · next h0 =>
    have hd : d = [] := List.length_eq_zero_iff.mp h0
    subst hd
    refine Core.finish h ho ⟨rfl, rfl, hreal, by simp, fun _ => rfl, ?_⟩ ?_
    · intro hb; simp [smallSize] at hb
    · intro x; simp only [blockOf, false_iff, not_and]; intro hb; rw [hreal] at hb; simp [smallSize] at hb
  · next h0 =>
    have h8 : ¬ d.length > smallSize := by omega
    simp only [h8, if_false, hread, Pool.setPayload, Tins.OptStore.obj_of ho]
    refine Core.finish (h.write rfl _) (obj?_setObj_same hlt _) ?_ ?_
    · refine ⟨rfl, rfl, hreal, by show d.length ≤ 65535; simp [smallSize] at hs; omega, ?_, ?_⟩
      · intro _
        simp only [Payload.asSmall]
        rw [List.take_append_of_le_length (by simp)]
        exact List.take_of_length_le (by simp)
      · intro hb; change smallSize < d.length at hb; omega
    · intro x; simp only [blockOf, false_iff, not_and]
      intro hb; rw [hreal] at hb; omega

theorem movedFrom_small {v : VOpt} (h : v.data.length ≤ smallSize) : v.movedFrom = v := by
  unfold VOpt.movedFrom
  simp [smallSize] at h
  simp; omega

theorem movedFrom_big {v : VOpt} (h : smallSize < v.data.length) : v.movedFrom = { v with data := [] } := by
  unfold VOpt.movedFrom
  simp [smallSize] at h
  simp; omega

theorem moveTail_self {σ : Pool} {f : Nat → Option VOpt} {t : Nat} {ot : Obj} {v : VOpt}
    (h : Core σ f (· = t) (blockOf ot)) (hot : σ.obj? t = some ot) (hrt : ObjRep σ ot v) :
    Inv (σ.moveAssign t t) (upd f t (some v.movedFrom)) := by
  have hbig : smallSize < ot.real_size_ → ∃ a, ot.payload_ = .big (.addr a) :=
    fun hb => (hrt.blockOf_ex hb).imp fun _ hx => hx.1
  obtain ⟨hc, hobj, _, _⟩ := head_core h hot hot hbig
  have hlt := lt_of_obj? hobj
  unfold Pool.moveAssign
  dsimp only
  rw [Tins.OptStore.obj_of hobj]
  dsimp only
  split
  · next hb =>
    simp only [Pool.setPayload, Pool.setReal, Tins.OptStore.obj_of hobj, obj_setObj_same, hlt, setObj_setObj,
      Payload.asPtr]
    rw [movedFrom_big (by rw [← hrt.real]; exact hb)]
    refine Core.finish (hc.write rfl _) (obj?_setObj_same hlt _) ?_ ?_
    · exact ⟨hrt.code, hrt.len, rfl, by simp, fun _ => rfl, fun hb => by simp [smallSize] at hb⟩
    · intro x; simp [blockOf, smallSize]
  · next hb =>
    have hs : v.data.length ≤ smallSize := by rw [← hrt.real]; omega
    have hdp : (σ.assignHead t t).dataPtr t = .smallOf t := by
      unfold Pool.dataPtr
      rw [Tins.OptStore.obj_of hobj]
      simp only [ite_eq_left_iff]
      intro hh; omega
    rw [hdp, hrt.real, movedFrom_small hs]
    have hread : (σ.assignHead t t).readLoc (.smallOf t) v.data.length = some v.data :=
      readLoc_small_of_rep hobj (o := ⟨ot.option_, ot.size_, ot.real_size_, ot.payload_⟩)
        (σ' := σ) ⟨hrt.code, hrt.len, hrt.real, hrt.bound, hrt.small, hrt.big⟩ hs
    have := memcpy_finish hc hobj hrt.real hs hread
    rw [upd_eta f t v _ hrt.code hrt.len] at this
    exact this

theorem upd_self {f : Nat → Option VOpt} {r : Nat} {v : VOpt} (h : f r = some v) : upd f r (some v) = f := by
  funext i
  by_cases e : i = r
  · subst e; simp [h]
  · rw [upd_ne e]

theorem moveTail_ne {σ : Pool} {f : Nat → Option VOpt} {t r : Nat} {ot : Obj} {v : VOpt}
    (h : Core σ f (· = t) (blockOf ot)) (hot : σ.obj? t = some ot)
    (hbig : smallSize < ot.real_size_ → ∃ a, ot.payload_ = .big (.addr a)) (hne : t ≠ r) (hfr : f r = some v) :
    Inv (σ.moveAssign t r) (upd (upd f r (some v.movedFrom)) t (some v)) := by
  have hXr : ¬ r = t := fun e => hne e.symm
  have hcr := h.corr r hXr
  rw [hfr] at hcr
  obtain ⟨or, hor, hrep⟩ := hcr.of_val
  obtain ⟨hc, hobj, hframe, hcells⟩ := head_core h hot hor hbig
  have horh : (σ.assignHead t r).obj? r = some or := by rw [hframe r hXr]; exact hor
  have hlt := lt_of_obj? hobj
  have hlr := lt_of_obj? horh
  unfold Pool.moveAssign
  dsimp only
  rw [Tins.OptStore.obj_of hobj]
  dsimp only
  split
  · next hb =>
    obtain ⟨ar, hpa, hca⟩ := hrep.blockOf_ex hb
    have hnb : ¬ blockOf ot ar := fun hbk => (h.pend ar hbk).2 r hXr ⟨or, hor, hb, hpa⟩
    simp only [Pool.setPayload, Pool.setReal, Tins.OptStore.obj_of hobj, Tins.OptStore.obj_of horh, obj_setObj_same,
      obj_setObj_ne hne, length_setObj, hlt, hlr, setObj_setObj, Payload.asPtr, hpa]
    rw [movedFrom_big (by rw [← hrep.real]; exact hb)]
    -- the source is in the middle of the operation as well
    have h1 := Core.open hc hXr horh
    have h2 := (h1.write (Or.inr rfl) (⟨or.option_, or.size_, or.real_size_, .big (.addr ar)⟩ : Obj)).write (Or.inl rfl)
      (⟨or.option_, or.size_, 0, .big .null⟩ : Obj)
    have hlr2 : r < ((σ.assignHead t r).setObj t ⟨or.option_, or.size_, or.real_size_, .big (.addr ar)⟩).objs.length := by
      simpa using hlr
    have hor2 := obj?_setObj_same hlr2 (⟨or.option_, or.size_, 0, .big .null⟩ : Obj)
    have hot2 : (((σ.assignHead t r).setObj t ⟨or.option_, or.size_, or.real_size_, .big (.addr ar)⟩).setObj r
        ⟨or.option_, or.size_, 0, .big .null⟩).obj? t = some ⟨or.option_, or.size_, or.real_size_, .big (.addr ar)⟩ := by
      rw [obj?_setObj_ne hXr]; exact obj?_setObj_same hlt _
    have h3 := Core.close h2 (Or.inl rfl) hor2 (v := { v with data := [] })
      ⟨hrep.code, hrep.len, rfl, by simp, fun _ => rfl, fun hb => by simp [smallSize] at hb⟩
      (fun a hb _ => by simp [smallSize] at hb)
    have h4 := Core.close h3 ⟨Or.inr rfl, hne⟩ hot2 (v := v)
      ⟨hrep.code, hrep.len, hrep.real, hrep.bound, fun hs => by rw [← hrep.real] at hs; omega,
        fun _ => ⟨ar, rfl, by rw [cell?_setObj, cell?_setObj, hcells ar hnb]; exact hca⟩⟩
      (by
        intro a _ hp
        cases hp
        refine ⟨Or.inl ⟨or, horh, hb, hpa⟩, ?_⟩
        rw [owns_iff hor2]
        simp [blockOf, smallSize])
    refine h4.congr (fun _ _ => rfl) ?_ ?_
    · intro i
      simp only [iff_false, not_and, Decidable.not_not]
      rintro ⟨hi | hi, hir⟩
      · exact absurd hi hir
      · exact hi
    · intro x
      simp only [iff_false, or_false]
      rintro ⟨⟨hx, _⟩, hnt⟩
      apply hnt
      rw [owns_iff horh] at hx
      rw [owns_iff hot2]
      obtain ⟨_, hx2⟩ := hx
      rw [hpa] at hx2
      cases hx2
      exact ⟨hb, rfl⟩
  · next hb =>
    have hs : v.data.length ≤ smallSize := by rw [← hrep.real]; omega
    have hdp : (σ.assignHead t r).dataPtr r = .smallOf r := by
      unfold Pool.dataPtr
      rw [Tins.OptStore.obj_of horh]
      simp only [ite_eq_left_iff]
      intro hh; omega
    rw [hdp, Tins.OptStore.obj_of horh, hrep.real, movedFrom_small hs, upd_self hfr]
    have hread : (σ.assignHead t r).readLoc (.smallOf r) v.data.length = some v.data := readLoc_small_of_rep horh hrep hs
    have := memcpy_finish hc hobj hrep.real hs hread
    rw [upd_eta f t v _ hrep.code hrep.len] at this
    exact this

theorem moveAssign_inv {σ : Pool} {f : Nat → Option VOpt} {t r : Nat} {ot : Obj} {v : VOpt}
    (h : Inv σ f) (hot : σ.obj? t = some ot) (hfr : f r = some v) :
    Inv (σ.moveAssign t r) (if t = r then upd f t (some v.movedFrom) else upd (upd f r (some v.movedFrom)) t (some v)) := by
  obtain ⟨vt, hft, hrt⟩ := h.rep_of hot
  split
  · next e =>
    subst e
    rw [hft] at hfr; cases hfr
    exact moveTail_self (h.open_live hot) hot hrt
  · next hne =>
    exact moveTail_ne (h.open_live hot) hot (fun hb => (hrt.blockOf_ex hb).imp fun _ hx => hx.1) hne hfr

theorem moveCtor_inv {σ : Pool} {f : Nat → Option VOpt} {t r : Nat} {v : VOpt}
    (h : Inv σ f) (hfree : σ.objs[t]? = some none) (hfr : f r = some v) :
    Inv (σ.moveCtor t r) (upd (upd f r (some v.movedFrom)) t (some v)) := by
  obtain ⟨or, hor, _⟩ := h.obj_of hfr
  have hne : t ≠ r := by
    intro e; subst e
    rw [obj?_eq_some, hfree] at hor
    cases hor
  obtain ⟨hc, hobj⟩ := h.open_free hfree
  unfold Pool.moveCtor
  dsimp only
  refine moveTail_ne (hc.congr (fun _ _ => rfl) (fun _ => Iff.rfl) ?_) hobj ?_ hne hfr
  · intro x; simp [blockOf_raw]
  · intro hb; simp [Obj.raw, smallSize] at hb

theorem destroy_inv {σ : Pool} {f : Nat → Option VOpt} {t : Nat} {ot : Obj}
    (h : Inv σ f) (hot : σ.obj? t = some ot) : Inv (σ.destroy t) (upd f t none) := by
  obtain ⟨vt, _, hrt⟩ := h.rep_of hot
  have ho := h.open_live hot
  unfold Pool.destroy
  dsimp only
  rw [Tins.OptStore.obj_of hot]
  split
  · next hb =>
    obtain ⟨a, hpa, _⟩ := hrt.blockOf_ex hb
    rw [hpa]
    simp only [Payload.asPtr, objs_deleteArr]
    have hd := Core.delete ho (a := a) ⟨hb, hpa⟩
    have hu := hd.unplace (t := t) rfl
    have e : ({ σ.deleteArr (.addr a) with objs := σ.objs.set t none } : Pool) =
        { σ.deleteArr (.addr a) with objs := (σ.deleteArr (.addr a)).objs.set t none } := by simp
    rw [e]
    refine hu.congr (fun _ _ => rfl) (by simp) ?_
    intro x
    simp only [iff_false, not_and, Decidable.not_not]
    intro ⟨_, hx⟩
    rw [hpa] at hx; cases hx; rfl
  · next hb =>
    refine (ho.unplace (t := t) rfl).congr (fun _ _ => rfl) (by simp) ?_
    intro x
    simp only [iff_false]
    intro hx; exact hb hx.1

/-! ### the constructors that are handed data -/

theorem ctorFill_inv {σ : Pool} {f : Nat → Option VOpt} {t : Nat} {o : Obj} {bs : Bytes}
    (h : Core σ f (· = t) (fun _ => False)) (ho : σ.obj? t = some o) (hn : bs.length ≤ 65535) :
    Inv (σ.setPayloadContents t (.ext bs) bs.length) (upd f t (some ⟨o.option_, o.size_, bs⟩)) :=
  spc_inv h ho (fun o' => by rw [readLoc_setObj_ext]; exact readLoc_ext_self σ bs) rfl hn

/-- the member initialisers `option_(opt), size_(len)` (and `real_size_(0)`) on fresh storage -/
theorem ctorInit {σ : Pool} {f : Nat → Option VOpt} {t : Nat} (h : Inv σ f) (hfree : σ.objs[t]? = some none) (opt len : Nat) :
    Core (((σ.place t).setOption t opt).setSize t len) f (· = t) (fun _ => False) ∧
    (((σ.place t).setOption t opt).setSize t len).obj? t = some ⟨opt, len, 0, .small indet⟩ := by
  have hlt : t < σ.objs.length := (List.getElem?_eq_some_iff.mp hfree).1
  have h1 : Core (σ.place t) f (· = t) (fun _ => False) :=
    (Core.place h hfree).congr (fun _ _ => rfl) (by simp) (fun _ => Iff.rfl)
  have hp : (σ.place t).obj? t = some Obj.raw := obj?_setObj_same hlt _
  have hlp : t < (σ.place t).objs.length := by simpa [Pool.place] using hlt
  simp only [Pool.setOption, Pool.setSize, Tins.OptStore.obj_of hp, obj_setObj_same hlp, setObj_setObj]
  exact ⟨h1.write rfl _, obj?_setObj_same hlp _⟩

theorem ctorData_null_inv {σ : Pool} {f : Nat → Option VOpt} {t : Nat} (h : Inv σ f) (hfree : σ.objs[t]? = some none)
    (opt len : Nat) :
    ∃ σ', σ.ctorData t opt len none = some σ' ∧ Inv σ' (upd f t (some ⟨opt, len % 65536, []⟩)) := by
  obtain ⟨hc, hobj⟩ := ctorInit h hfree opt (len % 65536)
  refine ⟨_, rfl, ?_⟩
  have hl := lt_of_obj? hobj
  simp only [Pool.setReal, Tins.OptStore.obj_of hobj]
  refine Core.finish (hc.write rfl _) (obj?_setObj_same hl _) ?_ ?_
  · exact ⟨rfl, rfl, rfl, by simp, fun _ => rfl, fun hb => by simp [smallSize] at hb⟩
  · intro x; simp [blockOf, smallSize]

theorem ctorData_inv {σ : Pool} {f : Nat → Option VOpt} {t : Nat} (h : Inv σ f) (hfree : σ.objs[t]? = some none)
    (opt : Nat) (bs : Bytes) :
    Inv ((σ.ctorData t opt bs.length (some bs)).getD σ)
      (if bs.length > 65535 then f else upd f t (some ⟨opt, bs.length % 65536, bs⟩)) := by
  unfold Pool.ctorData
  dsimp only
  split
  · exact h
  · next hn =>
    obtain ⟨hc, hobj⟩ := ctorInit h hfree opt (bs.length % 65536)
    have hl := lt_of_obj? hobj
    simp only [Option.getD_some]
    simp only [Pool.setReal, Tins.OptStore.obj_of hobj]
    exact ctorFill_inv (hc.write rfl _) (obj?_setObj_same hl _) (by omega)

theorem ctorRange_inv {σ : Pool} {f : Nat → Option VOpt} {t : Nat} (h : Inv σ f) (hfree : σ.objs[t]? = some none)
    (opt : Nat) (bs : Bytes) :
    Inv ((σ.ctorRange t opt bs).getD σ)
      (if bs.length > 65535 then f else upd f t (some ⟨opt, bs.length % 65536, bs⟩)) := by
  unfold Pool.ctorRange
  dsimp only
  split
  · exact h
  · next hn =>
    obtain ⟨hc, hobj⟩ := ctorInit h hfree opt (bs.length % 65536)
    simp only [Option.getD_some]
    exact ctorFill_inv hc hobj (by omega)

theorem ctorAdv_inv {σ : Pool} {f : Nat → Option VOpt} {t : Nat} (h : Inv σ f) (hfree : σ.objs[t]? = some none)
    (opt len : Nat) (bs : Bytes) :
    Inv ((σ.ctorAdv t opt len bs).getD σ)
      (if bs.length > 65535 then f else upd f t (some ⟨opt, len % 65536, bs⟩)) := by
  unfold Pool.ctorAdv
  dsimp only
  split
  · exact h
  · next hn =>
    obtain ⟨hc, hobj⟩ := ctorInit h hfree opt (len % 65536)
    simp only [Option.getD_some]
    exact ctorFill_inv hc hobj (by omega)

end Tins.OptStore
