import TinsModel.Ownership.LemmasOptH
/-
  Storage-level PDUOption model, part I: the vector of options (`push_back`, `pop_back`, `erase`), `init` and `end`.
-/
namespace Tins.OptStore
open Pool

theorem Inv.set_vlen {σ : Pool} {f : Nat → Option VOpt} (h : Inv σ f) (n : Nat) : Inv ({ σ with vlen := n } : Pool) f := by
  have hobj : ∀ i, ({ σ with vlen := n } : Pool).obj? i = σ.obj? i := fun _ => rfl
  refine ⟨h.nofault, ?_, h.xlive, h.uniq, h.cover, h.pend, h.freedNodup, h.freedDead⟩
  intro i hi
  have hc := h.corr i hi
  unfold Corr at hc ⊢
  rw [hobj]
  split at hc
  · trivial
  · exact hc.of_cells (fun _ _ _ => rfl)
  · exact absurd hc id

/-! ### `std::move(first, last, result)` -/

def fMove (f : Nat → Option VOpt) (t r : Nat) : Nat → Option VOpt :=
  match f r with
  | some v => upd (upd f r (some v.movedFrom)) t (some v)
  | none => f

def fMoveDown (f : Nat → Option VOpt) : Nat → Nat → (Nat → Option VOpt)
  | 0, _ => f
  | n + 1, p => fMoveDown (fMove f p (p + 1)) n (p + 1)

theorem moveAssign_fMove {σ : Pool} {f : Nat → Option VOpt} {t r : Nat} (h : Inv σ f) (hne : t ≠ r)
    (ht : (f t).isSome) (hr : (f r).isSome) : Inv (σ.moveAssign t r) (fMove f t r) := by
  obtain ⟨v, hv⟩ := Option.isSome_iff_exists.mp hr
  obtain ⟨vt, hvt⟩ := Option.isSome_iff_exists.mp ht
  obtain ⟨ot, hot, _⟩ := h.obj_of hvt
  have := moveAssign_inv h hot hv
  simp only [hne, if_false] at this
  simp only [fMove, hv]
  exact this

theorem fMove_at {f : Nat → Option VOpt} {t r : Nat} (hne : t ≠ r) {v : VOpt} (hv : f r = some v) :
    fMove f t r t = some v ∧ fMove f t r r = some v.movedFrom ∧ ∀ k, k ≠ t → k ≠ r → fMove f t r k = f k := by
  simp only [fMove, hv]
  refine ⟨by simp, ?_, ?_⟩
  · rw [upd_ne (Ne.symm hne)]; simp
  · intro k h1 h2; rw [upd_ne h1, upd_ne h2]

theorem moveDown_inv {σ : Pool} {f : Nat → Option VOpt} (n p : Nat) (h : Inv σ f)
    (hl : ∀ k, p ≤ k → k ≤ p + n → (f k).isSome) : Inv (σ.moveDown n p) (fMoveDown f n p) := by
  induction n generalizing σ f p with
  | zero => exact h
  | succ n ih =>
    unfold Pool.moveDown fMoveDown
    have h1 := moveAssign_fMove h (show p ≠ p + 1 by omega) (hl p (by omega) (by omega)) (hl (p + 1) (by omega) (by omega))
    refine ih (p + 1) h1 ?_
    intro k hk1 hk2
    obtain ⟨v, hv⟩ := Option.isSome_iff_exists.mp (hl (p + 1) (by omega) (by omega))
    obtain ⟨_, h2, h3⟩ := fMove_at (show p ≠ p + 1 by omega) hv
    by_cases e : k = p + 1
    · rw [e, h2]; rfl
    · rw [h3 k (by omega) e]; exact hl k (by omega) (by omega)

/-- after the loop every element behind the erased position sits one slot lower; the last slot still holds an object -/
theorem fMoveDown_spec (f : Nat → Option VOpt) (n p : Nat) (hl : ∀ k, p ≤ k → k ≤ p + n → (f k).isSome) :
    (∀ j, j ≠ p + n → fMoveDown f n p j = if j < p then f j else if j < p + n then f (j + 1) else f j) ∧
    (fMoveDown f n p (p + n)).isSome := by
  induction n generalizing f p with
  | zero =>
    refine ⟨?_, hl p (by omega) (by omega)⟩
    intro j hj
    simp only [fMoveDown]
    split
    · rfl
    · split
      · omega
      · rfl
  | succ n ih =>
    obtain ⟨v, hv⟩ := Option.isSome_iff_exists.mp (hl (p + 1) (by omega) (by omega))
    obtain ⟨h1, h2, h3⟩ := fMove_at (show p ≠ p + 1 by omega) hv
    have hl' : ∀ k, p + 1 ≤ k → k ≤ p + 1 + n → (fMove f p (p + 1) k).isSome := by
      intro k hk1 hk2
      by_cases e : k = p + 1
      · rw [e, h2]; rfl
      · rw [h3 k (by omega) e]; exact hl k (by omega) (by omega)
    obtain ⟨ih1, ih2⟩ := ih (fMove f p (p + 1)) (p + 1) hl'
    unfold fMoveDown
    refine ⟨?_, by rw [show p + (n + 1) = p + 1 + n by omega]; exact ih2⟩
    intro j hj
    rw [ih1 j (by omega)]
    by_cases c1 : j < p
    · have : j < p + 1 := by omega
      simp only [this, c1, if_true]
      exact h3 j (by omega) (by omega)
    · by_cases c2 : j = p
      · subst c2
        have : j < j + (n + 1) := by omega
        simp only [show j < j + 1 by omega, if_true, c1, if_false, this, h1, hv]
      · have c3 : ¬ j < p + 1 := by omega
        simp only [c3, c1, if_false]
        by_cases c4 : j < p + 1 + n
        · have : j < p + (n + 1) := by omega
          simp only [c4, this, if_true]
          exact h3 (j + 1) (by omega) (by omega)
        · have : ¬ j < p + (n + 1) := by omega
          simp only [c4, this, if_false]
          exact h3 j (by omega) (by omega)

theorem shape_moveDown (σ : Pool) (n p : Nat) : SameShape σ (σ.moveDown n p) := by
  induction n generalizing σ p with
  | zero => exact SameShape.refl σ
  | succ n ih => exact (shape_moveAssign σ p (p + 1)).trans (ih _ _)

/-! ### `end` -/

theorem destroyAll_inv {σ : Pool} {f : Nat → Option VOpt} (h : Inv σ f) (n : Nat) :
    Inv (σ.destroyAll n) (fun i => if i < n then none else f i) := by
  induction n with
  | zero => exact h.congr_f (fun i => by simp)
  | succ n ih =>
    unfold Pool.destroyAll
    dsimp only
    split
    · next hlive =>
      obtain ⟨o, ho⟩ := Option.isSome_iff_exists.mp hlive
      refine (destroy_inv ih ho).congr_f ?_
      intro i
      unfold upd
      by_cases e : i = n
      · subst e; simp
      · have : (i < n + 1) = (i < n) := by simp; omega
        simp only [e, if_false, this]
    · next hdead =>
      refine ih.congr_f ?_
      intro i
      by_cases e : i = n
      · subst e
        have hc := ih.corr i (by simp)
        have := hc.some_iff
        simp only [Nat.lt_irrefl, if_false, Nat.lt_succ_self, if_true] at this ⊢
        cases hf : f i with
        | none => rfl
        | some v => rw [hf] at this; simp at this; exact absurd this hdead
      · have : (i < n + 1) = (i < n) := by simp; omega
        simp only [this]

theorem shape_destroyAll (σ : Pool) (n : Nat) : SameShape σ (σ.destroyAll n) := by
  induction n with
  | zero => exact SameShape.refl σ
  | succ n ih =>
    unfold Pool.destroyAll
    dsimp only
    split
    · exact ih.trans (shape_destroy _ _)
    · exact ih

end Tins.OptStore
