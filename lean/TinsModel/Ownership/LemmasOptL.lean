import TinsModel.Ownership.LemmasOptK
/-
  Storage-level PDUOption model, part L: the storage invariant stated on the pool alone, its equivalence with
  "represents some value-level state", and the frame of the specification.
-/
namespace Tins.OptStore
open Pool

/-- the storage discipline of a pool of options -/
structure StoreInv (σ : Pool) : Prop where
  /-- no released / unallocated / wild / indeterminate storage has been accessed, nothing has been released twice -/
  no_fault : σ.faults = 0
  /-- an option whose data does not fit the small buffer holds a live heap block of exactly `real_size_` bytes -/
  big_owns : ∀ i o, σ.obj? i = some o → smallSize < o.real_size_ →
    ∃ a bs, o.payload_ = .big (.addr a) ∧ σ.cell? a = some bs ∧ bs.length = o.real_size_
  /-- the data of a small option is initialised small-buffer content -/
  small_init : ∀ i o, σ.obj? i = some o → o.real_size_ ≤ smallSize →
    ∃ bs : Bytes, o.payload_.asSmall.take o.real_size_ = bs.map some ∧ bs.length = o.real_size_
  size_bound : ∀ i o, σ.obj? i = some o → o.real_size_ ≤ 65535
  /-- no block is owned by two options -/
  no_sharing : ∀ i j a, Owns σ i a → Owns σ j a → i = j
  /-- every live block is owned by a live option (no leak) -/
  no_leak : ∀ a bs, σ.cell? a = some bs → ∃ i, Owns σ i a
  /-- nothing is released twice, and the release log is exactly the set of dead cells -/
  freed_once : σ.freed.Nodup ∧ ∀ a, a ∈ σ.freed ↔ σ.cells[a]? = some none
  /-- the vector's elements are exactly the first `vlen` slots of its storage -/
  vec_live : ∀ i, σ.nuser ≤ i → ((σ.obj? i).isSome ↔ i < σ.nuser + σ.vlen)
  vec_cap : σ.nuser + σ.vlen ≤ σ.objs.length

theorem storeInv_of_rep {σ : Pool} {A : SState} (h : Rep σ A) : StoreInv σ where
  no_fault := h.inv.nofault
  big_owns := by
    intro i o ho hb
    obtain ⟨v, _, hr⟩ := h.inv.rep_of ho
    obtain ⟨a, hp, hc⟩ := hr.blockOf_ex hb
    exact ⟨a, v.data, hp, hc, hr.real.symm⟩
  small_init := by
    intro i o ho hs
    obtain ⟨v, _, hr⟩ := h.inv.rep_of ho
    refine ⟨v.data, ?_, hr.real.symm⟩
    rw [hr.real]
    exact hr.small (by rw [← hr.real]; exact hs)
  size_bound := by
    intro i o ho
    obtain ⟨v, _, hr⟩ := h.inv.rep_of ho
    rw [hr.real]; exact hr.bound
  no_sharing := fun i j a => h.inv.uniq i j a (by simp) (by simp)
  no_leak := by
    intro a bs hc
    rcases h.inv.cover a (by rw [hc]; rfl) with hp | ⟨i, _, ho⟩
    · exact absurd hp id
    · exact ⟨i, ho⟩
  freed_once := ⟨h.inv.freedNodup, h.inv.freedDead⟩
  vec_live := by
    intro i hi
    rw [h.live_iff, h.nuser, h.vlen]
    exact h.vecLive i (by rw [← h.nuser]; exact hi)
  vec_cap := by rw [h.nuser, h.vlen, h.len]; exact h.cap

/-- the value-level state a pool is observed as -/
def absState (σ : Pool) : SState :=
  { opts := (List.range σ.objs.length).map (fun i => σ.view i), nuser := σ.nuser, vlen := σ.vlen }

theorem view_none_of_obj {σ : Pool} {i : Nat} (h : σ.obj? i = none) : σ.view i = none := by
  unfold Pool.view; rw [h]

theorem opt?_absState (σ : Pool) (i : Nat) : (absState σ).opt? i = σ.view i := by
  unfold SState.opt? absState
  dsimp only
  by_cases hi : i < σ.objs.length
  · rw [List.getElem?_map, List.getElem?_range hi]
    cases hv : σ.view i <;> simp [hv]
  · rw [List.getElem?_eq_none (by simp; omega)]
    dsimp only
    symm
    apply view_none_of_obj
    rw [obj?_eq_none]
    left
    exact List.getElem?_eq_none (by omega)

theorem rep_of_storeInv {σ : Pool} (h : StoreInv σ) : Rep σ (absState σ) := by
  refine ⟨⟨h.no_fault, ?_, ?_, ?_, ?_, ?_, h.freed_once.1, h.freed_once.2⟩, by simp [absState], rfl, rfl, ?_, ?_⟩
  · intro i _
    unfold Corr
    rw [opt?_absState]
    cases ho : σ.obj? i with
    | none => rw [view_none_of_obj ho]; trivial
    | some o =>
      unfold Pool.view
      rw [ho]
      dsimp only
      by_cases hs : o.real_size_ ≤ smallSize
      · obtain ⟨bs, hbs, hl⟩ := h.small_init i o ho hs
        have hread : σ.readLoc (σ.dataPtr i) o.real_size_ = some bs := by
          unfold Pool.dataPtr
          rw [Tins.OptStore.obj_of ho]
          simp only [hs, if_true]
          unfold Pool.readLoc
          split
          · next h0 => rw [h0] at hl; rw [List.length_eq_zero_iff.mp hl]
          · simp only [Tins.OptStore.obj_of ho, hbs, allSome_map_some]
        rw [hread]
        exact ⟨rfl, rfl, hl.symm, by rw [hl]; exact h.size_bound i o ho, fun _ => by rw [hl]; exact hbs,
          fun hb => by rw [hl] at hb; omega⟩
      · obtain ⟨a, bs, hp, hc, hl⟩ := h.big_owns i o ho (by omega)
        have hread : σ.readLoc (σ.dataPtr i) o.real_size_ = some bs := by
          unfold Pool.dataPtr
          rw [Tins.OptStore.obj_of ho]
          simp only [hs, if_false, hp, Payload.asPtr]
          rw [← hl]
          exact readLoc_heap_of_cell hc
        rw [hread]
        exact ⟨rfl, rfl, hl.symm, by rw [hl]; exact h.size_bound i o ho, fun hb => by rw [hl] at hb; omega,
          fun _ => ⟨a, hp, hc⟩⟩
  · intro t ht; exact absurd ht id
  · intro i j a _ _; exact h.no_sharing i j a
  · intro a ha
    obtain ⟨bs, hbs⟩ := Option.isSome_iff_exists.mp ha
    obtain ⟨i, hi⟩ := h.no_leak a bs hbs
    exact Or.inr ⟨i, by simp, hi⟩
  · intro a ha; exact absurd ha id
  · intro i hi
    change σ.nuser ≤ i at hi
    show ((absState σ).opt? i).isSome ↔ i < σ.nuser + σ.vlen
    rw [← h.vec_live i hi]
    -- the view of a live object of a pool with the invariant exists
    rw [opt?_absState]
    cases ho : σ.obj? i with
    | none => rw [view_none_of_obj ho]; exact Iff.rfl
    | some o =>
      simp only [Option.isSome_some, iff_true]
      unfold Pool.view
      rw [ho]
      dsimp only
      by_cases hs : o.real_size_ ≤ smallSize
      · obtain ⟨bs, hbs, hl⟩ := h.small_init i o ho hs
        have hread : σ.readLoc (σ.dataPtr i) o.real_size_ = some bs := by
          unfold Pool.dataPtr
          rw [Tins.OptStore.obj_of ho]
          simp only [hs, if_true]
          unfold Pool.readLoc
          split
          · next h0 => rw [h0] at hl; rw [List.length_eq_zero_iff.mp hl]
          · simp only [Tins.OptStore.obj_of ho, hbs, allSome_map_some]
        rw [hread]; rfl
      · obtain ⟨a, bs, hp, hc, hl⟩ := h.big_owns i o ho (by omega)
        have hread : σ.readLoc (σ.dataPtr i) o.real_size_ = some bs := by
          unfold Pool.dataPtr
          rw [Tins.OptStore.obj_of ho]
          simp only [hs, if_false, hp, Payload.asPtr]
          rw [← hl]
          exact readLoc_heap_of_cell hc
        rw [hread]; rfl
  · show σ.nuser + σ.vlen ≤ ((List.range σ.objs.length).map _).length
    simp; exact h.vec_cap

end Tins.OptStore
