import TinsModel.Ownership.LemmasSim2
/-
  Simulation of `operator/=`, `operator/`, copy assignment and the Packet operations.
-/
namespace Tins.Own

theorem hd_append_of_ne {c1 c2 : Chain} (h : c1 ≠ []) : hd (c1 ++ c2) = hd c1 := by
  cases c1 with
  | nil => exact absurd rfl h
  | cons x r => rfl

/-- `lop /= rop` on the chain of slot `j`, entered at its layer `x` -/
theorem Rep.divEq_core {s : State} {A : AState} (hr : Rep s A) {j : Nat} {sl : ASlot} (hsl : A.slot? j = some sl)
    {pre post : Chain} {x : Nat × View} (hc : sl.chain = pre ++ x :: post) {b : Ref} {y : Nat × View} {rb : Chain}
    (hsb : A.sub b = some (y :: rb)) {s' : State} {A' : AState}
    (hs0 : s'.heap = divEq s.heap x.1 y.1) (hs1 : s'.slots = s.slots) (hs2 : s'.opts = s.opts)
    (hA1 : A'.slots = A.slots.set j (some { sl with chain := sl.chain ++ freshCopy A.next (y :: rb) })) (hA2 : A'.opts = A.opts)
    (hn : A'.next = A.next + (y :: rb).length) : Rep s' A' := by
  have h0 := heap_out_slot hr hsl
  obtain ⟨slb, _, _, hmb⟩ := hr.sub_mem hsb
  have hmb' := hr.mem_out hsl hmb
  rw [hc] at h0 hmb'
  obtain ⟨h1, hl⟩ := divEq_spec h0 hmb'
  rw [← hr.next, ← hc] at h1
  have hne : sl.chain ≠ [] := by rw [hc]; simp
  apply hr.setChain hsl (c' := sl.chain ++ freshCopy A.next (y :: rb)) (hd_append_of_ne hne) (by simp [hne]) hs1 hs2 hA1 hA2
  · rw [hs0]; exact h1
  · rw [hs0, hl, hn, hr.next]

theorem sim_diveq {s : State} {A : AState} (hr : Rep s A) (a b : Ref) : Sim s A (.diveq a b) := by
  unfold Sim
  simp only [step, AState.step, hr.resolve]
  cases hs : A.sub a with
  | none => cases A.slot? a.slot <;> simp
  | some c =>
    obtain ⟨sl, hsl, hdrop, hc, hne⟩ := sub_spec hs
    cases c with
    | nil => exact absurd rfl hne
    | cons x post =>
      cases hsb : A.sub b with
      | none => simp [hsl]
      | some cb =>
        obtain ⟨_, _, _, _, hneb⟩ := sub_spec hsb
        cases cb with
        | nil => exact absurd rfl hneb
        | cons y rb =>
          simp only [hsl, Option.bind_some, hd_cons]
          apply hr.divEq_core hsl hc hsb
          · rfl
          · rfl
          · rfl
          · rw [AState.bump]; simp [AState.setChain_slots hsl]
          · simp [AState.bump, AState.setChain_opts]
          · simp [AState.bump, AState.setChain_next]

theorem sim_pkdiv {s : State} {A : AState} (hr : Rep s A) (p : Nat) (b : Ref) : Sim s A (.pkdiv p b) := by
  unfold Sim
  simp only [step, AState.step, hr.resolve, (pktSlot_spec hr p).1]
  cases hp : A.pktChain p with
  | none => simp
  | some cp =>
    have hsl := (pktSlot_spec hr p).2 cp hp
    cases cp with
    | nil => simp
    | cons x rp =>
      cases hsb : A.sub b with
      | none => simp
      | some cb =>
        obtain ⟨_, _, _, _, hneb⟩ := sub_spec hsb
        cases cb with
        | nil => exact absurd rfl hneb
        | cons y rb =>
          simp only [Option.map_some, hd_cons, Option.bind_some]
          apply hr.divEq_core hsl (pre := []) (x := x) (post := rp) rfl hsb
          · rfl
          · rfl
          · rfl
          · simp [AState.bump, AState.setSlot]
          · simp [AState.bump, AState.setSlot]
          · simp [AState.bump, AState.setSlot]

theorem sim_div {s : State} {A : AState} (hr : Rep s A) (i : Nat) (a b : Ref) : Sim s A (.div i a b) := by
  unfold Sim
  simp only [step, AState.step, hr.isEmptySlot, hr.resolve]
  cases he : A.isEmpty i with
  | false => simp
  | true =>
    simp only [if_true]
    cases hs : A.sub a with
    | none => simp
    | some c =>
      obtain ⟨_, _, _, _, hne⟩ := sub_spec hs
      cases c with
      | nil => exact absurd rfl hne
      | cons x ra =>
        cases hsb : A.sub b with
        | none => simp
        | some cb =>
          obtain ⟨_, _, _, _, hneb⟩ := sub_spec hsb
          cases cb with
          | nil => exact absurd rfl hneb
          | cons y rb =>
            obtain ⟨_, _, _, hma⟩ := hr.sub_mem hs
            obtain ⟨_, _, _, hmb⟩ := hr.sub_mem hsb
            obtain ⟨d1, d2, d3⟩ := divNew_spec hr.next.symm hr.heap hma hmb
            generalize hdv : divNew s.heap x.1 y.1 = res at d1 d2 d3
            obtain ⟨h', c⟩ := res
            simp only at d1 d2 d3
            subst d1
            simp only [Option.bind_some, hd_cons, hdv, putPdu]
            apply hr.newSlot he .pdu (c := (A.next + 1 + ra.length + (y :: rb).length, x.2) ::
              (freshCopy (A.next + 1) ra ++ freshCopy (A.next + 1 + ra.length) (y :: rb))) (by simp)
            · simp [setSlot, handleOf_pdu]
            · rfl
            · simp [AState.bump, AState.setSlot]
            · rfl
            · exact d2
            · simp only [AState.bump, AState.setSlot, setSlot, d3]; simp; omega

/-! ### copy assignment -/

theorem take_split {c : Chain} {da db : Nat} {y : Nat × View} {rb : Chain} (hlt : db < da) (hdb : c.drop db = y :: rb) :
    c.take da = c.take db ++ y :: rb.take (da - db - 1) := by
  have h1 : da = db + (da - db) := by omega
  rw [h1, List.take_add, hdb]
  have h2 : da - db = (da - db - 1) + 1 := by omega
  rw [h2, List.take_succ_cons]
  congr 3
  omega

theorem sim_assign {s : State} {A : AState} (hr : Rep s A) (a b : Ref) : Sim s A (.assign a b) := by
  unfold Sim
  simp only [step, AState.step, hr.resolve]
  cases hs : A.sub a with
  | none => cases A.slot? a.slot <;> simp
  | some c =>
    obtain ⟨sa, hsa, hdropa, hca, hnea⟩ := sub_spec hs
    cases c with
    | nil => exact absurd rfl hnea
    | cons x postA =>
      cases hsb : A.sub b with
      | none => simp [hsa]
      | some cb =>
        obtain ⟨sb, hsb', hdropb, hcb, hneb⟩ := sub_spec hsb
        cases cb with
        | nil => exact absurd rfl hneb
        | cons y rb =>
          simp only [hsa, Option.bind_some, hd_cons]
          by_cases hill : a.slot = b.slot ∧ a.depth < b.depth
          · simp [hill]
          · simp only [hill, if_false]
            have h0 := heap_out_slot hr hsa
            have hmb := hr.seg_of_slot hsb'
            rw [hcb] at hmb
            have hmb' := hr.mem_out hsa hmb
            rw [hca] at h0 hmb'
            have hgx := h0.get_at
            have hgy := h0.mem_get_at hmb'
            rw [classEq_spec hgx hgy]
            have hhd : ∀ top : Nat × View, top.1 = x.1 → hd (AState.splice sa.chain a.depth top (freshCopy A.next rb)) = hd sa.chain :=
              fun top ht => hd_splice hdropa ht _
            cases hsame : AState.sameCls x y with
            | false =>
              obtain ⟨h1, hl⟩ := assignBase_spec h0 hmb'
              simp only [Bool.false_eq_true, if_false]
              apply hr.setChain hsa (c' := AState.splice sa.chain a.depth x (freshCopy A.next rb)) (hhd x rfl) AState.splice_ne
              · rfl
              · rfl
              · simp [AState.bump, AState.setChain_slots hsa]
              · simp [AState.bump, AState.setChain_opts]
              · rw [hr.next]; exact h1
              · simp [AState.bump, AState.setChain_next, hl, hr.next]
            | true =>
              -- the source keeps its members while the target's old inner chain is destroyed
              have hy : ∀ h2 T, SegRep h2 (root (sa.chain.take a.depth ++ x :: T) :: rootSegs (A.slots.set a.slot none)) →
                  ∃ i p, h2.get y.1 = some ⟨y.2, i, p⟩ := by
                intro h2 T hh2
                by_cases hss : a.slot = b.slot
                · have hdd : b.depth ≤ a.depth := by
                    have := fun h => hill ⟨hss, h⟩
                    omega
                  have hsab : sa = sb := by rw [hss] at hsa; rw [hsa] at hsb'; cases hsb'; rfl
                  subst hsab
                  rcases Nat.lt_or_eq_of_le hdd with hlt | heq
                  · rw [take_split hlt hdropb] at hh2
                    rw [List.append_assoc] at hh2
                    exact ⟨_, _, hh2.get_at⟩
                  · rw [heq] at hdropb
                    rw [hdropa] at hdropb
                    cases hdropb
                    exact ⟨_, _, hh2.get_at⟩
                · have hm2 : root sb.chain ∈ rootSegs (A.slots.set a.slot none) :=
                    mem_rootSegs_set_ne hsb' (Ne.symm hss) none
                  rw [hcb] at hm2
                  exact ⟨_, _, hh2.mem_get_at (List.mem_cons_of_mem _ hm2)⟩
              obtain ⟨h1, hl⟩ := assignSame_spec h0 hmb' hy
              simp only [if_true]
              apply hr.setChain hsa (c' := AState.splice sa.chain a.depth (x.1, y.2) (freshCopy A.next rb)) (hhd _ rfl) AState.splice_ne
              · rfl
              · rfl
              · simp [AState.bump, AState.setChain_slots hsa]
              · simp [AState.bump, AState.setChain_opts]
              · rw [hr.next]; exact h1
              · simp [AState.bump, AState.setChain_next, hl, hr.next]

end Tins.Own
