import TinsModel.Ownership.Model
/-
  Specification of property C12, written from the property text and the C++ value semantics the API documents —
  no pointers, no heap: every user handle holds a *chain* of layers (a PDU has at most one child, so a tree is a
  chain), a layer is an identity plus its fields (`View`).

    * a copy / clone is a chain of fresh identities with the same fields as its source at the time of copying;
      assignment replaces everything below the target (also when the source has fewer layers);
    * a move transfers the layers below the source to the target and leaves the source as a single (moved-from) layer;
    * re-linking moves whole sub-chains between owners; nothing else changes (frame);
    * identities are never shared between chains, never reused.

  `AState.step` is the executable oracle: the driver checks the forest the implementation printed after each
  operation against it (modulo the names of fresh identities), and `Props/C12` proves that the code-shaped pointer
  model refines it.
-/
namespace Tins.Own

abbrev Chain := List (Addr × View)

inductive SKind where
  | pdu      -- the user owns the top layer directly
  | pkt      -- a Packet owns the (possibly empty) chain
deriving DecidableEq, Repr

structure ASlot where
  kind : SKind
  chain : Chain
deriving DecidableEq, Repr

structure AState where
  slots : List (Option ASlot) := []
  next : Nat := 0                 -- identities handed out so far
  opts : List (Option Opt) := []
deriving Repr

/-- a copy: same fields, consecutive fresh identities -/
def freshCopy (n : Nat) : Chain → Chain
  | [] => []
  | (_, v) :: r => (n, v) :: freshCopy (n + 1) r

namespace AState

def slot? (A : AState) (i : Nat) : Option ASlot :=
  match A.slots[i]? with
  | some (some sl) => some sl
  | _ => none

def isEmpty (A : AState) (i : Nat) : Bool := A.slots[i]? == some none

/-- the layers from `r` downwards (non-empty when `r` designates a layer) -/
def sub (A : AState) (r : Ref) : Option Chain :=
  match A.slot? r.slot with
  | none => none
  | some sl => match sl.chain.drop r.depth with
    | [] => none
    | c => some c

def setSlot (A : AState) (i : Nat) (x : Option ASlot) : AState := { A with slots := A.slots.set i x }

/-- replace the chain held by slot `i`, keeping its kind -/
def setChain (A : AState) (i : Nat) (c : Chain) : AState :=
  match A.slot? i with
  | some sl => A.setSlot i (some { sl with chain := c })
  | none => A

/-- a raw pointer handed to the user: null leaves the slot empty -/
def putPdu (A : AState) (i : Nat) (c : Chain) : AState :=
  match c with
  | [] => A
  | _ => A.setSlot i (some ⟨.pdu, c⟩)

def bump (A : AState) (k : Nat) : AState := { A with next := A.next + k }

def pduChain (A : AState) (i : Nat) : Option Chain :=
  match A.slot? i with
  | some ⟨.pdu, c⟩ => some c
  | _ => none

def pktChain (A : AState) (i : Nat) : Option Chain :=
  match A.slot? i with
  | some ⟨.pkt, c⟩ => some c
  | _ => none

def sameCls (x y : Addr × View) : Bool := x.2.cls == y.2.cls

/-- the whole chain of slot `r.slot` with everything below `r` replaced by `tail` and the fields of `r` by `v` -/
def splice (full : Chain) (d : Nat) (top : Addr × View) (tail : Chain) : Chain :=
  full.take d ++ top :: tail

def step (A : AState) : Op → Option AState
  | .init n => some { slots := List.replicate n none, next := 0, opts := List.replicate n none }
  | .fin => some { A with slots := A.slots.map (fun _ => none), opts := A.opts.map (fun _ => none) }
  | .new i cls kind val =>
    if A.isEmpty i then some ((A.setSlot i (some ⟨.pdu, [(A.next, (View.mk cls kind 0).withVal val)]⟩)).bump 1)
    else none
  | .set r val =>
    match A.slot? r.slot, A.sub r with
    | some sl, some (x :: rest) => some (A.setChain r.slot (splice sl.chain r.depth (x.1, x.2.withVal val) rest))
    | _, _ => none
  | .clone i r =>
    if A.isEmpty i then
      match A.sub r with
      | some c => some ((A.setSlot i (some ⟨.pdu, freshCopy A.next c⟩)).bump c.length)
      | none => none
    else none
  | .movector i r =>
    if A.isEmpty i then
      match A.slot? r.slot, A.sub r with
      | some sl, some (x :: rest) =>
        some (((A.setChain r.slot (splice sl.chain r.depth (x.1, x.2.moved) [])).setSlot i
                 (some ⟨.pdu, (A.next, x.2) :: rest⟩)).bump 1)
      | _, _ => none
    else none
  | .div i a b =>
    if A.isEmpty i then
      match A.sub a, A.sub b with
      | some (x :: ra), some cb =>
        -- identities: the by-value parameter (destroyed), the copies of the layers below `a`, the copy of `b…`, the result
        let res := (A.next + 1 + ra.length + cb.length, x.2) ::
                   (freshCopy (A.next + 1) ra ++ freshCopy (A.next + 1 + ra.length) cb)
        some ((A.setSlot i (some ⟨.pdu, res⟩)).bump (ra.length + cb.length + 2))
      | _, _ => none
    else none
  | .diveq a b =>
    match A.slot? a.slot, A.sub a, A.sub b with
    | some sl, some _, some cb => some ((A.setChain a.slot (sl.chain ++ freshCopy A.next cb)).bump cb.length)
    | _, _, _ => none
  | .assign a b =>
    match A.slot? a.slot, A.sub a, A.sub b with
    | some sl, some (x :: _), some (y :: rb) =>
      if a.slot = b.slot ∧ a.depth < b.depth then none
      else
        let top := if sameCls x y then (x.1, y.2) else x
        some ((A.setChain a.slot (splice sl.chain a.depth top (freshCopy A.next rb))).bump rb.length)
    | _, _, _ => none
  | .massign a b =>
    match A.slot? a.slot, A.slot? b.slot, A.sub a, A.sub b with
    | some sa, some sb, some (x :: _), some (y :: rb) =>
      if a.slot = b.slot then
        if a.depth = b.depth then some (A.setChain a.slot (splice sa.chain a.depth (x.1, x.2.moved) []))
        else none
      else
        let same := sameCls x y
        let A1 := A.setChain a.slot (splice sa.chain a.depth (if same then (x.1, y.2) else x) rb)
        some (A1.setChain b.slot (splice sb.chain b.depth (if same then (y.1, y.2.moved) else y) []))
    | _, _, _, _ => none
  | .setinner a s2 =>
    match A.slot? a.slot, A.sub a, A.pduChain s2 with
    | some sl, some (x :: _), some c2 =>
      if a.slot = s2 then none
      else some ((A.setChain a.slot (splice sl.chain a.depth x c2)).setSlot s2 none)
    | _, _, _ => none
  | .setinnerref a b =>
    match A.slot? a.slot, A.sub a, A.sub b with
    | some sl, some (x :: _), some cb =>
      some ((A.setChain a.slot (splice sl.chain a.depth x (freshCopy A.next cb))).bump cb.length)
    | _, _, _ => none
  | .setnull a =>
    match A.slot? a.slot, A.sub a with
    | some sl, some (x :: _) => some (A.setChain a.slot (splice sl.chain a.depth x []))
    | _, _ => none
  | .release i a =>
    if A.isEmpty i then
      match A.slot? a.slot, A.sub a with
      | some sl, some (x :: rest) => some ((A.setChain a.slot (splice sl.chain a.depth x [])).putPdu i rest)
      | _, _ => none
    else none
  | .del i =>
    match A.slot? i with
    | some _ => some (A.setSlot i none)
    | none => none
  | .pknew i r =>
    if A.isEmpty i then
      match A.sub r with
      | some c => some ((A.setSlot i (some ⟨.pkt, freshCopy A.next c⟩)).bump c.length)
      | none => none
    else none
  | .pkown i s2 =>
    if A.isEmpty i then
      match A.pduChain s2 with
      | some c => some ((A.setSlot s2 none).setSlot i (some ⟨.pkt, c⟩))
      | none => none
    else none
  | .pkempty i => if A.isEmpty i then some (A.setSlot i (some ⟨.pkt, []⟩)) else none
  | .pkcopy i p =>
    if A.isEmpty i then
      match A.pktChain p with
      | some c => some ((A.setSlot i (some ⟨.pkt, freshCopy A.next c⟩)).bump c.length)
      | none => none
    else none
  | .pkassign p q =>
    match A.pktChain p, A.pktChain q with
    | some _, some c =>
      if p = q then some A
      else some ((A.setSlot p (some ⟨.pkt, freshCopy A.next c⟩)).bump c.length)
    | _, _ => none
  | .pkmove i p =>
    if A.isEmpty i then
      match A.pktChain p with
      | some c => some ((A.setSlot p (some ⟨.pkt, []⟩)).setSlot i (some ⟨.pkt, c⟩))
      | none => none
    else none
  | .pkmassign p q =>
    match A.pktChain p, A.pktChain q with
    | some cp, some cq =>
      if p = q then some A
      else some ((A.setSlot p (some ⟨.pkt, cq⟩)).setSlot q (some ⟨.pkt, cp⟩))
    | _, _ => none
  | .pkrelease i p =>
    if A.isEmpty i then
      match A.pktChain p with
      | some c => some ((A.setSlot p (some ⟨.pkt, []⟩)).putPdu i c)
      | none => none
    else none
  | .pkdiv p b =>
    match A.pktChain p, A.sub b with
    | some (x :: rp), some cb => some ((A.setSlot p (some ⟨.pkt, (x :: rp) ++ freshCopy A.next cb⟩)).bump cb.length)
    | _, _ => none
  | .onew i code len fill =>
    if A.opts[i]? == some none then some { A with opts := A.opts.set i (some ⟨code % 256, len, optFill len fill⟩) }
    else none
  | .odel i =>
    match A.opts[i]? with
    | some (some _) => some { A with opts := A.opts.set i none }
    | _ => none
  | .ocopy i j =>
    match A.opts[i]?, A.opts[j]? with
    | some none, some (some o) => some { A with opts := A.opts.set i (some o) }
    | _, _ => none
  | .omove i j =>
    match A.opts[i]?, A.opts[j]? with
    | some none, some (some o) => some { A with opts := (A.opts.set j (some o.movedFrom)).set i (some o) }
    | _, _ => none
  | .oassign i j =>
    match A.opts[i]?, A.opts[j]? with
    | some (some _), some (some o) => some { A with opts := A.opts.set i (some o) }
    | _, _ => none
  | .omassign i j =>
    match A.opts[i]?, A.opts[j]? with
    | some (some _), some (some o) =>
      if i = j then some { A with opts := A.opts.set i (some o.movedFrom) }
      else some { A with opts := (A.opts.set j (some o.movedFrom)).set i (some o) }
    | _, _ => none

def stepD (A : AState) (op : Op) : AState := (A.step op).getD A

def run (A : AState) : List Op → AState
  | [] => A
  | op :: r => run (A.stepD op) r

/-- all identities currently alive -/
def ids (A : AState) : List Addr :=
  (A.slots.filterMap (fun s => s.map (fun sl => sl.chain.map Prod.fst))).flatten

end AState

end Tins.Own
