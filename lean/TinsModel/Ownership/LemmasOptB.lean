import TinsModel.Ownership.LemmasOptA
/-
  Storage-level PDUOption model, part B: heap primitives (`new[]`, `delete[]`) and the opening / closing of an object
  with respect to the open invariant.
-/
namespace Tins.OptStore
open Pool

def upd (f : Nat → Option VOpt) (t : Nat) (w : Option VOpt) : Nat → Option VOpt := fun i => if i = t then w else f i

@[simp] theorem upd_same (f : Nat → Option VOpt) (t : Nat) (w : Option VOpt) : upd f t w t = w := by simp [upd]
theorem upd_ne {f : Nat → Option VOpt} {t i : Nat} (h : i ≠ t) (w : Option VOpt) : upd f t w i = f i := by simp [upd, h]

/-! ### `delete[]` -/

theorem deleteArr_live {σ : Pool} {a : Nat} {bs : Bytes} (h : σ.cell? a = some bs) :
    σ.deleteArr (.addr a) = { σ with cells := σ.cells.set a none, freed := a :: σ.freed } := by
  simp [Pool.deleteArr, h]

theorem cell?_set_none (σ : Pool) (a x : Nat) (fr : List Nat) :
    ({ σ with cells := σ.cells.set a none, freed := fr } : Pool).cell? x = if x = a then none else σ.cell? x := by
  unfold Pool.cell?
  simp only [List.getElem?_set]
  by_cases h : a = x
  · subst h
    by_cases hl : a < σ.cells.length <;> simp [hl]
  · have h' : ¬ x = a := fun e => h e.symm
    simp [h, h']

theorem Core.delete {σ : Pool} {f : Nat → Option VOpt} {X P : Nat → Prop} (h : Core σ f X P) {a : Nat} (ha : P a) :
    Core (σ.deleteArr (.addr a)) f X (fun x => P x ∧ x ≠ a) := by
  obtain ⟨hlive, hnone⟩ := h.pend a ha
  obtain ⟨bs, hbs⟩ := Option.isSome_iff_exists.mp hlive
  rw [deleteArr_live hbs]
  have hobj : ∀ i, ({ σ with cells := σ.cells.set a none, freed := a :: σ.freed } : Pool).obj? i = σ.obj? i := fun _ => rfl
  have howns : ∀ i x, Owns ({ σ with cells := σ.cells.set a none, freed := a :: σ.freed } : Pool) i x ↔ Owns σ i x :=
    fun _ _ => Iff.rfl
  have hlt := lt_of_cell? hbs
  refine ⟨h.nofault, ?_, h.xlive, h.uniq, ?_, ?_, ?_, ?_⟩
  · intro i hi
    have hc := h.corr i hi
    unfold Corr at hc ⊢
    rw [hobj]
    split at hc
    · trivial
    · next o v ho _ =>
      refine hc.of_cells ?_
      intro x hp hb
      rw [cell?_set_none]
      have : x ≠ a := by
        intro e; subst e
        exact hnone i hi ⟨o, ho, hb, hp⟩
      simp [this]
    · exact absurd hc id
  · intro x hx
    rw [cell?_set_none] at hx
    by_cases e : x = a
    · simp [e] at hx
    · simp only [e, if_false] at hx
      rcases h.cover x hx with hp | hr
      · exact Or.inl ⟨hp, e⟩
      · exact Or.inr hr
  · intro x ⟨hp, hxa⟩
    obtain ⟨h1, h2⟩ := h.pend x hp
    refine ⟨?_, h2⟩
    rw [cell?_set_none]; simp [hxa, h1]
  · show (a :: σ.freed).Nodup
    refine List.nodup_cons.mpr ⟨?_, h.freedNodup⟩
    intro hm
    have := (h.freedDead a).mp hm
    rw [cell?_eq_some] at hbs
    rw [hbs] at this
    cases this
  · intro x
    show x ∈ a :: σ.freed ↔ (σ.cells.set a none)[x]? = some none
    rw [List.mem_cons, h.freedDead x, List.getElem?_set]
    by_cases e : a = x
    · subst e; simp [hlt]
    · have e' : ¬ x = a := fun q => e q.symm
      simp [e, e']

/-! ### `new[]` -/

theorem cell?_newArr (σ : Pool) (bs : Bytes) (x : Nat) :
    (σ.newArr bs).1.cell? x = if x = σ.cells.length then some bs else σ.cell? x := by
  unfold Pool.cell? Pool.newArr
  by_cases h : x = σ.cells.length
  · subst h; simp
  · simp only [h, if_false]
    by_cases hl : x < σ.cells.length
    · rw [List.getElem?_append_left hl]
    · have : σ.cells.length < x := by omega
      rw [List.getElem?_eq_none (by simp; omega), List.getElem?_eq_none (by omega)]

@[simp] theorem obj?_newArr (σ : Pool) (bs : Bytes) (i : Nat) : (σ.newArr bs).1.obj? i = σ.obj? i := rfl
@[simp] theorem snd_newArr (σ : Pool) (bs : Bytes) : (σ.newArr bs).2 = σ.cells.length := rfl

theorem Core.alloc {σ : Pool} {f : Nat → Option VOpt} {X P : Nat → Prop} (h : Core σ f X P) (bs : Bytes) :
    Core (σ.newArr bs).1 f X (fun x => x = σ.cells.length ∨ P x) := by
  have howns : ∀ i x, Owns (σ.newArr bs).1 i x ↔ Owns σ i x := fun _ _ => Iff.rfl
  have hold : ∀ x b, σ.cell? x = some b → (σ.newArr bs).1.cell? x = some b := by
    intro x b hx
    rw [cell?_newArr]
    have := lt_of_cell? hx
    simp [Nat.ne_of_lt this, hx]
  refine ⟨h.nofault, ?_, h.xlive, h.uniq, ?_, ?_, h.freedNodup, ?_⟩
  · intro i hi
    have hc := h.corr i hi
    unfold Corr at hc ⊢
    rw [obj?_newArr]
    split at hc
    · trivial
    · next o v ho _ =>
      refine ⟨hc.code, hc.len, hc.real, hc.bound, hc.small, ?_⟩
      intro hb
      obtain ⟨a, hp, hcell⟩ := hc.big hb
      exact ⟨a, hp, hold a _ hcell⟩
    · exact absurd hc id
  · intro x hx
    rw [cell?_newArr] at hx
    by_cases e : x = σ.cells.length
    · exact Or.inl (Or.inl e)
    · simp only [e, if_false] at hx
      rcases h.cover x hx with hp | hr
      · exact Or.inl (Or.inr hp)
      · exact Or.inr hr
  · intro x hx
    rcases hx with e | hp
    · subst e
      refine ⟨by rw [cell?_newArr]; simp, ?_⟩
      intro i hi ho
      obtain ⟨b, hb⟩ := Owns.lt_of_core h hi ho
      exact Nat.lt_irrefl _ (lt_of_cell? hb)
    · obtain ⟨h1, h2⟩ := h.pend x hp
      obtain ⟨b, hb⟩ := Option.isSome_iff_exists.mp h1
      exact ⟨by rw [hold x b hb]; rfl, h2⟩
  · intro x
    show x ∈ σ.freed ↔ (σ.cells ++ [some bs])[x]? = some none
    rw [h.freedDead x]
    by_cases hl : x < σ.cells.length
    · rw [List.getElem?_append_left hl]
    · rw [List.getElem?_eq_none (Nat.le_of_not_lt hl)]
      by_cases e : x = σ.cells.length
      · subst e; simp
      · rw [List.getElem?_eq_none (by simp; omega)]

/-! ### opening and closing an object -/

theorem Core.open {σ : Pool} {f : Nat → Option VOpt} {X P : Nat → Prop} (h : Core σ f X P) {t : Nat} {o : Obj}
    (ht : ¬ X t) (ho : σ.obj? t = some o) :
    Core σ f (fun i => i = t ∨ X i) (fun x => Owns σ t x ∨ P x) := by
  refine ⟨h.nofault, ?_, ?_, ?_, ?_, ?_, h.freedNodup, h.freedDead⟩
  · intro i hi
    exact h.corr i (fun hx => hi (Or.inr hx))
  · intro k hk
    rcases hk with e | hk
    · subst e; rw [ho]; rfl
    · exact h.xlive k hk
  · intro i j a hi hj
    exact h.uniq i j a (fun hx => hi (Or.inr hx)) (fun hx => hj (Or.inr hx))
  · intro a ha
    rcases h.cover a ha with hp | ⟨i, hi, hown⟩
    · exact Or.inl (Or.inr hp)
    · by_cases e : i = t
      · subst e; exact Or.inl (Or.inl hown)
      · exact Or.inr ⟨i, fun hx => hx.elim e hi, hown⟩
  · intro a ha
    rcases ha with hown | hp
    · refine ⟨?_, ?_⟩
      · obtain ⟨b, hb⟩ := Owns.lt_of_core h ht hown
        rw [hb]; rfl
      · intro i hi hown'
        have hit : i ≠ t := fun e => hi (Or.inl e)
        exact hit (h.uniq i t a (fun hx => hi (Or.inr hx)) ht hown' hown)
    · obtain ⟨h1, h2⟩ := h.pend a hp
      exact ⟨h1, fun i hi => h2 i (fun hx => hi (Or.inr hx))⟩

theorem Core.close {σ : Pool} {f : Nat → Option VOpt} {X P : Nat → Prop} (h : Core σ f X P) {t : Nat} {o : Obj} {v : VOpt}
    (ht : X t) (ho : σ.obj? t = some o) (hr : ObjRep σ o v)
    (hp : ∀ a, smallSize < o.real_size_ → o.payload_ = .big (.addr a) → P a) :
    Core σ (upd f t (some v)) (fun i => X i ∧ i ≠ t) (fun x => P x ∧ ¬ Owns σ t x) := by
  have hX : ∀ i, ¬ (X i ∧ i ≠ t) → i ≠ t → ¬ X i := fun i hi hne hx => hi ⟨hx, hne⟩
  refine ⟨h.nofault, ?_, ?_, ?_, ?_, ?_, h.freedNodup, h.freedDead⟩
  · intro i hi
    by_cases e : i = t
    · subst e
      unfold Corr
      rw [ho, upd_same]
      exact hr
    · rw [upd_ne e]
      exact h.corr i (hX i hi e)
  · intro k hk
    exact h.xlive k hk.1
  · intro i j a hi hj h1 h2
    by_cases ei : i = t
    · by_cases ej : j = t
      · rw [ei, ej]
      · subst ei
        obtain ⟨o', ho', hb, hpl⟩ := h1
        rw [ho] at ho'; cases ho'
        exact absurd h2 ((h.pend a (hp a hb hpl)).2 j (hX j hj ej))
    · by_cases ej : j = t
      · subst ej
        obtain ⟨o', ho', hb, hpl⟩ := h2
        rw [ho] at ho'; cases ho'
        exact absurd h1 ((h.pend a (hp a hb hpl)).2 i (hX i hi ei))
      · exact h.uniq i j a (hX i hi ei) (hX j hj ej) h1 h2
  · intro a ha
    rcases h.cover a ha with hpa | ⟨i, hi, hown⟩
    · by_cases hown : Owns σ t a
      · exact Or.inr ⟨t, fun hx => hx.2 rfl, hown⟩
      · exact Or.inl ⟨hpa, hown⟩
    · exact Or.inr ⟨i, fun hx => hi hx.1, hown⟩
  · intro a ⟨hpa, hnown⟩
    obtain ⟨h1, h2⟩ := h.pend a hpa
    refine ⟨h1, ?_⟩
    intro i hi
    by_cases e : i = t
    · subst e; exact hnown
    · exact h2 i (hX i hi e)

/-- storage for a new object in a free slot -/
theorem Core.place {σ : Pool} {f : Nat → Option VOpt} {X P : Nat → Prop} (h : Core σ f X P) {t : Nat}
    (hfree : σ.objs[t]? = some none) :
    Core (σ.place t) f (fun i => i = t ∨ X i) P := by
  have hlt : t < σ.objs.length := (List.getElem?_eq_some_iff.mp hfree).1
  have hplace : σ.place t = σ.setObj t Obj.raw := rfl
  have hnone : σ.obj? t = none := obj?_eq_none.mpr (Or.inr hfree)
  have hXt : ¬ X t := by
    intro hx
    have := h.xlive t hx
    rw [hnone] at this; cases this
  rw [hplace]
  have hobj : ∀ i, i ≠ t → (σ.setObj t Obj.raw).obj? i = σ.obj? i := fun i hi => obj?_setObj_ne (Ne.symm hi) _
  have howns : ∀ i a, i ≠ t → (Owns (σ.setObj t Obj.raw) i a ↔ Owns σ i a) := by
    intro i a hi; unfold Owns; rw [hobj i hi]
  refine ⟨h.nofault, ?_, ?_, ?_, ?_, ?_, h.freedNodup, h.freedDead⟩
  · intro i hi
    have hit : i ≠ t := fun e => hi (Or.inl e)
    have hc := h.corr i (fun hx => hi (Or.inr hx))
    unfold Corr at hc ⊢
    rw [hobj i hit]
    split at hc
    · trivial
    · exact hc.of_cells (fun _ _ _ => rfl)
    · exact absurd hc id
  · intro k hk
    rcases hk with e | hk
    · subst e; rw [obj?_setObj_same hlt]; rfl
    · rw [obj?_setObj]; split
      · rfl
      · exact h.xlive k hk
  · intro i j a hi hj h1 h2
    have hit : i ≠ t := fun e => hi (Or.inl e)
    have hjt : j ≠ t := fun e => hj (Or.inl e)
    exact h.uniq i j a (fun hx => hi (Or.inr hx)) (fun hx => hj (Or.inr hx)) ((howns i a hit).mp h1) ((howns j a hjt).mp h2)
  · intro a ha
    rcases h.cover a ha with hp | ⟨i, hi, hown⟩
    · exact Or.inl hp
    · have hit : i ≠ t := by
        intro e; subst e
        obtain ⟨o, ho, _⟩ := hown
        rw [hnone] at ho; cases ho
      exact Or.inr ⟨i, fun hx => hx.elim hit hi, (howns i a hit).mpr hown⟩
  · intro a hp
    obtain ⟨h1, h2⟩ := h.pend a hp
    refine ⟨h1, ?_⟩
    intro i hi hown
    have hit : i ≠ t := fun e => hi (Or.inl e)
    exact h2 i (fun hx => hi (Or.inr hx)) ((howns i a hit).mp hown)

/-- the storage of an object whose destructor has run goes away -/
theorem Core.unplace {σ : Pool} {f : Nat → Option VOpt} {X P : Nat → Prop} (h : Core σ f X P) {t : Nat} (ht : X t) :
    Core ({ σ with objs := σ.objs.set t none } : Pool) (upd f t none) (fun i => X i ∧ i ≠ t) P := by
  have hobj : ∀ i, i ≠ t → ({ σ with objs := σ.objs.set t none } : Pool).obj? i = σ.obj? i := by
    intro i hi
    unfold Pool.obj?
    simp [Ne.symm hi]
  have hobjt : ({ σ with objs := σ.objs.set t none } : Pool).obj? t = none := by
    unfold Pool.obj?
    simp only [List.getElem?_set]
    by_cases hl : t < σ.objs.length <;> simp [hl]
  have howns : ∀ i a, i ≠ t → (Owns ({ σ with objs := σ.objs.set t none } : Pool) i a ↔ Owns σ i a) := by
    intro i a hi; unfold Owns; rw [hobj i hi]
  have hX : ∀ i, ¬ (X i ∧ i ≠ t) → i ≠ t → ¬ X i := fun i hi hne hx => hi ⟨hx, hne⟩
  have hnot : ∀ a, ¬ Owns ({ σ with objs := σ.objs.set t none } : Pool) t a := by
    intro a ⟨o, ho, _⟩; rw [hobjt] at ho; cases ho
  refine ⟨h.nofault, ?_, ?_, ?_, ?_, ?_, h.freedNodup, h.freedDead⟩
  · intro i hi
    by_cases e : i = t
    · subst e
      unfold Corr
      rw [hobjt, upd_same]
      trivial
    · rw [upd_ne e]
      have hc := h.corr i (hX i hi e)
      unfold Corr at hc ⊢
      rw [hobj i e]
      split at hc
      · trivial
      · exact hc.of_cells (fun _ _ _ => rfl)
      · exact absurd hc id
  · intro k hk
    rw [hobj k hk.2]
    exact h.xlive k hk.1
  · intro i j a hi hj h1 h2
    by_cases ei : i = t
    · subst ei; exact absurd h1 (hnot a)
    · by_cases ej : j = t
      · subst ej; exact absurd h2 (hnot a)
      · exact h.uniq i j a (hX i hi ei) (hX j hj ej) ((howns i a ei).mp h1) ((howns j a ej).mp h2)
  · intro a ha
    rcases h.cover a ha with hp | ⟨i, hi, hown⟩
    · exact Or.inl hp
    · have hit : i ≠ t := fun e => hi (e ▸ ht)
      exact Or.inr ⟨i, fun hx => hi hx.1, (howns i a hit).mpr hown⟩
  · intro a hp
    obtain ⟨h1, h2⟩ := h.pend a hp
    refine ⟨h1, ?_⟩
    intro i hi hown
    by_cases e : i = t
    · subst e; exact hnot a hown
    · exact h2 i (hX i hi e) ((howns i a e).mp hown)

end Tins.OptStore
