import TinsModel.Ownership.LemmasSim3
/-
  Simulation of the Packet wrapper operations, of `init`/`end`, of the PDUOption pool, and the assembled
  simulation theorem.
-/
namespace Tins.Own

theorem sim_pkempty {s : State} {A : AState} (hr : Rep s A) (i : Nat) : Sim s A (.pkempty i) := by
  unfold Sim
  simp only [step, AState.step, hr.isEmptySlot]
  cases he : A.isEmpty i with
  | false => simp
  | true =>
    simp only [if_true]
    apply hr.newSlot he .pkt (c := []) (fun hk => by cases hk)
    · rfl
    · rfl
    · rfl
    · rfl
    · exact hr.heap.add_nil
    · exact hr.next

theorem sim_pkcopy {s : State} {A : AState} (hr : Rep s A) (i p : Nat) : Sim s A (.pkcopy i p) := by
  unfold Sim
  simp only [step, AState.step, hr.isEmptySlot, (pktSlot_spec hr p).1]
  cases he : A.isEmpty i with
  | false => simp
  | true =>
    simp only [if_true]
    cases hp : A.pktChain p with
    | none => simp
    | some c =>
      have hsl := (pktSlot_spec hr p).2 c hp
      obtain ⟨e1, e2, e3⟩ := cloneOpt_root hr.heap (hr.seg_of_slot hsl)
      generalize hcl : cloneOpt s.heap (hd c) = res at e1 e2 e3
      obtain ⟨h', q⟩ := res
      simp only at e1 e2 e3
      subst e1
      simp only [Option.map_some, hcl]
      rw [← hr.next] at e2 e3 ⊢
      apply hr.newSlot he .pkt (c := freshCopy A.next c) (fun hk => by cases hk)
      · rfl
      · rfl
      · simp [AState.bump, AState.setSlot]
      · rfl
      · exact e2
      · simp [AState.bump, AState.setSlot, setSlot, e3]

theorem sim_pkown {s : State} {A : AState} (hr : Rep s A) (i s2 : Nat) : Sim s A (.pkown i s2) := by
  unfold Sim
  simp only [step, AState.step, hr.isEmptySlot, (pduSlot_spec hr s2).1]
  cases he : A.isEmpty i with
  | false => simp
  | true =>
    simp only [if_true]
    cases hp : A.pduChain s2 with
    | none => simp
    | some c =>
      obtain ⟨hne, hsl⟩ := (pduSlot_spec hr s2).2 c hp
      cases c with
      | nil => exact absurd rfl hne
      | cons x r =>
        simp only [Option.bind_some, hd_cons]
        obtain ⟨hi, ei⟩ := isEmpty_spec he
        obtain ⟨hj, ej⟩ := slot?_some hsl
        have hji := ne_of_empty_of_slot he hsl
        have h0 := heap_out_slot_empty hr he hsl
        apply hr.intro2 hji hj hi (yi := none) (yj := some ⟨.pkt, x :: r⟩)
        · rfl
        · rfl
        · rfl
        · rfl
        · intro c hc'; cases hc'
        · intro c hc'; cases hc'
        · exact h0
        · exact hr.next

theorem sim_pkmove {s : State} {A : AState} (hr : Rep s A) (i p : Nat) : Sim s A (.pkmove i p) := by
  unfold Sim
  simp only [step, AState.step, hr.isEmptySlot, (pktSlot_spec hr p).1]
  cases he : A.isEmpty i with
  | false => simp
  | true =>
    simp only [if_true]
    cases hp : A.pktChain p with
    | none => simp
    | some c =>
      have hsl := (pktSlot_spec hr p).2 c hp
      simp only [Option.map_some]
      obtain ⟨hi, ei⟩ := isEmpty_spec he
      obtain ⟨hj, ej⟩ := slot?_some hsl
      have hji := ne_of_empty_of_slot he hsl
      have h0 := heap_out_slot_empty hr he hsl
      apply hr.intro2 hji hj hi (yi := some ⟨.pkt, []⟩) (yj := some ⟨.pkt, c⟩)
      · rfl
      · rfl
      · rfl
      · rfl
      · intro c hc'; cases hc'
      · intro c hc'; cases hc'
      · exact (h0.add_nil (p := none) (t := none))
      · exact hr.next

theorem sim_pkrelease {s : State} {A : AState} (hr : Rep s A) (i p : Nat) : Sim s A (.pkrelease i p) := by
  unfold Sim
  simp only [step, AState.step, hr.isEmptySlot, (pktSlot_spec hr p).1]
  cases he : A.isEmpty i with
  | false => simp
  | true =>
    simp only [if_true]
    cases hp : A.pktChain p with
    | none => simp
    | some c =>
      have hsl := (pktSlot_spec hr p).2 c hp
      simp only [Option.map_some]
      obtain ⟨hi, ei⟩ := isEmpty_spec he
      obtain ⟨hj, ej⟩ := slot?_some hsl
      have hji := ne_of_empty_of_slot he hsl
      cases c with
      | nil =>
        simp only [hd_nil, putPdu, AState.putPdu]
        have h0 := heap_out_slot hr hsl
        apply hr.intro1 hj (y := some ⟨.pkt, []⟩)
        · rfl
        · rfl
        · rfl
        · rfl
        · intro c hc'; cases hc'
        · exact h0
        · exact hr.next
      | cons x r =>
        simp only [hd_cons, putPdu, AState.putPdu]
        have h0 := heap_out_slot_empty hr he hsl
        apply hr.intro2 hji hj hi (yi := some ⟨.pkt, []⟩) (yj := some ⟨.pdu, x :: r⟩)
        · rfl
        · rfl
        · rfl
        · rfl
        · intro c hc'; cases hc'
        · intro c hc'; simp only [Option.some.injEq, ASlot.mk.injEq] at hc'; exact hc'.2 ▸ (by simp)
        · exact (h0.add_nil (p := none) (t := none))
        · exact hr.next

theorem sim_pkmassign {s : State} {A : AState} (hr : Rep s A) (p q : Nat) : Sim s A (.pkmassign p q) := by
  unfold Sim
  simp only [step, AState.step, (pktSlot_spec hr p).1, (pktSlot_spec hr q).1]
  cases hp : A.pktChain p with
  | none => simp
  | some cp =>
    cases hq : A.pktChain q with
    | none => simp
    | some cq =>
      have hslp := (pktSlot_spec hr p).2 cp hp
      have hslq := (pktSlot_spec hr q).2 cq hq
      simp only [Option.map_some]
      by_cases hpq : p = q
      · simp only [hpq, if_true]; exact hr
      · simp only [hpq, if_false]
        obtain ⟨hi, ei⟩ := slot?_some hslp
        obtain ⟨hj, ej⟩ := slot?_some hslq
        have h0 := heap_out2 hr hpq hi hj
        rw [ei, ej] at h0
        apply hr.intro2 hpq hi hj (yi := some ⟨.pkt, cq⟩) (yj := some ⟨.pkt, cp⟩)
        · rfl
        · rfl
        · rfl
        · rfl
        · intro c hc'; cases hc'
        · intro c hc'; cases hc'
        · exact h0.perm (List.Perm.swap _ _ _)
        · exact hr.next

theorem sim_pkassign {s : State} {A : AState} (hr : Rep s A) (p q : Nat) : Sim s A (.pkassign p q) := by
  unfold Sim
  simp only [step, AState.step, (pktSlot_spec hr p).1, (pktSlot_spec hr q).1]
  cases hp : A.pktChain p with
  | none => simp
  | some cp =>
    cases hq : A.pktChain q with
    | none => simp
    | some cq =>
      have hslp := (pktSlot_spec hr p).2 cp hp
      have hslq := (pktSlot_spec hr q).2 cq hq
      simp only [Option.map_some]
      by_cases hpq : p = q
      · simp only [hpq, if_true]; exact hr
      · simp only [hpq, if_false]
        obtain ⟨hi, ei⟩ := slot?_some hslp
        -- delete pdu_
        have h0 := heap_out_slot hr hslp
        obtain ⟨h1, hl1⟩ := deletePtr_spec h0
        -- pdu_ = rhs.pdu() ? rhs.pdu()->clone() : 0
        have hm : root cq ∈ rootSegs (A.slots.set p none) := mem_rootSegs_set_ne hslq (Ne.symm hpq) none
        obtain ⟨e1, e2, e3⟩ := cloneOpt_root h1 hm
        rw [hl1, ← hr.next] at e1 e2 e3
        generalize hcl : cloneOpt (deletePtr s.heap (hd cp)) (hd cq) = res at e1 e2 e3
        obtain ⟨h', c⟩ := res
        simp only at e1 e2 e3
        subst e1
        apply hr.intro1 hi (y := some ⟨.pkt, freshCopy A.next cq⟩)
        · rfl
        · rfl
        · simp [AState.bump, AState.setSlot]
        · rfl
        · intro c hc'; cases hc'
        · exact e2
        · simp [AState.bump, AState.setSlot, setSlot, e3]

/-! ### `end` / `init` -/

theorem rootSegs_cons (o : Option ASlot) (r : List (Option ASlot)) : rootSegs (o :: r) = optSeg o ++ rootSegs r := by
  simp [rootSegs]

theorem rootSegs_all_none (l : List (Option ASlot)) : rootSegs (l.map (fun _ => none)) = [] := by
  induction l with
  | nil => rfl
  | cons a r ih => rw [List.map_cons, rootSegs_cons, ih]; rfl

theorem rootSegs_replicate (n : Nat) : rootSegs (List.replicate n none) = [] := by
  induction n with
  | zero => rfl
  | succ n ih => rw [List.replicate_succ, rootSegs_cons, ih]; rfl

/-- destroying every handle releases every chain -/
theorem destroySlots_spec : ∀ (slots : List (Option ASlot)) (h : Heap) (S : List SegT),
    SegRep h (rootSegs slots ++ S) →
    SegRep (destroySlots (slots.map (Option.map handleOf)) h) S ∧
    (destroySlots (slots.map (Option.map handleOf)) h).cells.length = h.cells.length := by
  intro slots
  induction slots with
  | nil => intro h S hr; exact ⟨hr, rfl⟩
  | cons o r ih =>
    intro h S hr
    rw [rootSegs_cons, List.append_assoc] at hr
    cases o with
    | none => exact ih h S hr
    | some sl =>
      have hr' : SegRep h (root sl.chain :: (rootSegs r ++ S)) := hr
      obtain ⟨h1, hl1⟩ := deletePtr_spec hr'
      obtain ⟨k, c⟩ := sl
      cases k with
      | pkt =>
        obtain ⟨h2, hl2⟩ := ih _ S h1
        exact ⟨h2, hl2.trans hl1⟩
      | pdu =>
        cases c with
        | nil =>
          obtain ⟨h2, hl2⟩ := ih _ S h1
          exact ⟨h2, hl2.trans hl1⟩
        | cons x c' =>
          obtain ⟨h2, hl2⟩ := ih _ S h1
          exact ⟨h2, hl2.trans hl1⟩

theorem sim_fin {s : State} {A : AState} (hr : Rep s A) : Sim s A .fin := by
  unfold Sim
  simp only [step, AState.step]
  have h0 : SegRep s.heap (rootSegs A.slots ++ []) := by simpa using hr.heap
  obtain ⟨h1, hl⟩ := destroySlots_spec A.slots s.heap [] h0
  rw [← hr.slots] at h1 hl
  refine ⟨?_, ?_, ?_, ?_, ?_⟩
  · simp [hr.slots, Function.comp_def]
  · intro i c hc
    simp only [List.getElem?_map] at hc
    cases hh : A.slots[i]? <;> simp [hh] at hc
  · show SegRep _ (rootSegs (A.slots.map (fun _ => none)))
    rw [rootSegs_all_none]; exact h1
  · show A.next = _
    rw [hl]; exact hr.next
  · simp [hr.opts]

theorem segRep_empty : SegRep ({} : Heap) [] where
  segs := by intro s hs; cases hs
  nodup := by simp
  cover := by intro a ha; simp [Heap.get] at ha
  freed := ⟨by simp, by intro a; simp⟩
  nofault := rfl

theorem rep_init (n : Nat) :
    Rep { heap := {}, slots := List.replicate n none, opts := List.replicate n none }
        { slots := List.replicate n none, next := 0, opts := List.replicate n none } := by
  refine ⟨by simp, ?_, ?_, rfl, rfl⟩
  · intro i c hc
    simp only [List.getElem?_replicate] at hc
    split at hc <;> cases hc
  · show SegRep _ (rootSegs (List.replicate n none))
    rw [rootSegs_replicate]; exact segRep_empty

theorem sim_init {s : State} {A : AState} (n : Nat) : Sim s A (.init n) := by
  unfold Sim
  simp only [step, AState.step]
  exact rep_init n

/-! ### the PDUOption pool (same value-level functions on both sides) -/

theorem Rep.withOpts {s : State} {A : AState} (hr : Rep s A) (o : List (Option Opt)) :
    Rep { s with opts := o } { A with opts := o } := ⟨hr.slots, hr.pdu_ne, hr.heap, hr.next, rfl⟩

theorem sim_onew {s : State} {A : AState} (hr : Rep s A) (i c l f : Nat) : Sim s A (.onew i c l f) := by
  unfold Sim
  simp only [step, AState.step, hr.opts]
  cases h : (A.opts[i]? == some none) <;> simp only [Bool.false_eq_true, if_false, if_true]
  exact hr.withOpts _

theorem sim_odel {s : State} {A : AState} (hr : Rep s A) (i : Nat) : Sim s A (.odel i) := by
  unfold Sim
  simp only [step, AState.step, hr.opts]
  rcases h1 : A.opts[i]? with _ | _ | _ <;> simp only
  exact hr.withOpts _

theorem sim_ocopy {s : State} {A : AState} (hr : Rep s A) (i j : Nat) : Sim s A (.ocopy i j) := by
  unfold Sim
  simp only [step, AState.step, hr.opts]
  rcases h1 : A.opts[i]? with _ | _ | _ <;> rcases h2 : A.opts[j]? with _ | _ | _ <;> simp only
  exact hr.withOpts _

theorem sim_omove {s : State} {A : AState} (hr : Rep s A) (i j : Nat) : Sim s A (.omove i j) := by
  unfold Sim
  simp only [step, AState.step, hr.opts]
  rcases h1 : A.opts[i]? with _ | _ | _ <;> rcases h2 : A.opts[j]? with _ | _ | _ <;> simp only
  exact hr.withOpts _

theorem sim_oassign {s : State} {A : AState} (hr : Rep s A) (i j : Nat) : Sim s A (.oassign i j) := by
  unfold Sim
  simp only [step, AState.step, hr.opts]
  rcases h1 : A.opts[i]? with _ | _ | _ <;> rcases h2 : A.opts[j]? with _ | _ | _ <;> simp only
  exact hr.withOpts _

theorem sim_omassign {s : State} {A : AState} (hr : Rep s A) (i j : Nat) : Sim s A (.omassign i j) := by
  unfold Sim
  simp only [step, AState.step, hr.opts]
  rcases h1 : A.opts[i]? with _ | _ | _ <;> rcases h2 : A.opts[j]? with _ | _ | _ <;> simp only
  by_cases hij : i = j
  · simp only [hij, if_true]; exact hr.withOpts _
  · simp only [hij, if_false]; exact hr.withOpts _

/-- every operation preserves the representation relation, and model and specification refuse the same operations -/
theorem step_sim {s : State} {A : AState} (hr : Rep s A) (op : Op) : Sim s A op := by
  cases op with
  | init n => exact sim_init n
  | fin => exact sim_fin hr
  | new i c k v => exact sim_new hr i c k v
  | set r v => exact sim_set hr r v
  | clone i r => exact sim_clone hr i r
  | movector i r => exact sim_movector hr i r
  | div i a b => exact sim_div hr i a b
  | diveq a b => exact sim_diveq hr a b
  | assign a b => exact sim_assign hr a b
  | massign a b => exact sim_massign hr a b
  | setinner a s2 => exact sim_setinner hr a s2
  | setinnerref a b => exact sim_setinnerref hr a b
  | setnull a => exact sim_setnull hr a
  | release i a => exact sim_release hr i a
  | del i => exact sim_del hr i
  | pknew i r => exact sim_pknew hr i r
  | pkown i s2 => exact sim_pkown hr i s2
  | pkempty i => exact sim_pkempty hr i
  | pkcopy i p => exact sim_pkcopy hr i p
  | pkassign p q => exact sim_pkassign hr p q
  | pkmove i p => exact sim_pkmove hr i p
  | pkmassign p q => exact sim_pkmassign hr p q
  | pkrelease i p => exact sim_pkrelease hr i p
  | pkdiv p b => exact sim_pkdiv hr p b
  | onew i c l f => exact sim_onew hr i c l f
  | ocopy i j => exact sim_ocopy hr i j
  | omove i j => exact sim_omove hr i j
  | oassign i j => exact sim_oassign hr i j
  | omassign i j => exact sim_omassign hr i j
  | odel i => exact sim_odel hr i

end Tins.Own
