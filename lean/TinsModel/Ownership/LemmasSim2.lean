import TinsModel.Ownership.LemmasSim
import TinsModel.Ownership.LemmasOps2
/-
  Simulation of the operations that touch two handles or compose several pointer functions.
-/
namespace Tins.Own

theorem ne_of_empty_of_slot {A : AState} {i j : Nat} (he : A.isEmpty i = true) {sl : ASlot} (hsl : A.slot? j = some sl) : j ≠ i := by
  intro e
  subst e
  obtain ⟨hi, e1⟩ := isEmpty_spec he
  obtain ⟨_, e2⟩ := slot?_some hsl
  rw [e1] at e2; cases e2

/-- heap view with the chain of slot `j` and the (empty) slot `i` taken out -/
theorem heap_out_slot_empty {s : State} {A : AState} (hr : Rep s A) {i j : Nat} (he : A.isEmpty i = true) {sl : ASlot}
    (hsl : A.slot? j = some sl) :
    SegRep s.heap (root sl.chain :: rootSegs ((A.slots.set j none).set i none)) := by
  obtain ⟨hi, e1⟩ := isEmpty_spec he
  obtain ⟨hj, e2⟩ := slot?_some hsl
  have := heap_out2 hr (ne_of_empty_of_slot he hsl) hj hi
  rw [e1, e2] at this
  exact this

theorem sim_movector {s : State} {A : AState} (hr : Rep s A) (i : Nat) (r : Ref) : Sim s A (.movector i r) := by
  unfold Sim
  simp only [step, AState.step, hr.isEmptySlot, hr.resolve]
  cases he : A.isEmpty i with
  | false => simp
  | true =>
    simp only [if_true]
    cases hs : A.sub r with
    | none => cases A.slot? r.slot <;> simp
    | some c =>
      obtain ⟨sl, hsl, hdrop, hc, hne⟩ := sub_spec hs
      cases c with
      | nil => exact absurd rfl hne
      | cons x post =>
        obtain ⟨hi, ei⟩ := isEmpty_spec he
        obtain ⟨hj, ej⟩ := slot?_some hsl
        have hji := ne_of_empty_of_slot he hsl
        have h0 := heap_out_slot_empty hr he hsl
        rw [hc] at h0
        obtain ⟨m1, m2, m3⟩ := moveCtor_at h0
        generalize hmv : moveCtor s.heap x.1 = res at m1 m2 m3
        obtain ⟨h', c⟩ := res
        simp only at m1 m2 m3
        subst m1
        simp only [hsl, Option.bind_some, hd_cons, hmv, putPdu]
        have hhd := hd_splice hdrop (top := (x.1, x.2.moved)) rfl []
        apply hr.intro2 hji hj hi (yi := some { sl with chain := AState.splice sl.chain r.depth (x.1, x.2.moved) [] })
          (yj := some ⟨.pdu, (A.next, x.2) :: post⟩)
        · simp only [setSlot, Option.map_some, hr.slots_set_same hsl hhd AState.splice_ne, handleOf_pdu, hr.next]
        · rfl
        · simp [AState.bump, AState.setSlot, AState.setChain, hsl]
        · simp [AState.bump, AState.setSlot, AState.setChain, hsl]
        · intro c hc'; simp only [Option.some.injEq, ASlot.mk.injEq] at hc'; exact hc'.2 ▸ AState.splice_ne
        · intro c hc'; simp only [Option.some.injEq, ASlot.mk.injEq] at hc'; exact hc'.2 ▸ (by simp)
        · rw [hr.next]; exact m2
        · simp [AState.bump, AState.setSlot, AState.setChain, hsl, setSlot, m3, hr.next]

theorem sim_release {s : State} {A : AState} (hr : Rep s A) (i : Nat) (a : Ref) : Sim s A (.release i a) := by
  unfold Sim
  simp only [step, AState.step, hr.isEmptySlot, hr.resolve]
  cases he : A.isEmpty i with
  | false => simp
  | true =>
    simp only [if_true]
    cases hs : A.sub a with
    | none => cases A.slot? a.slot <;> simp
    | some c =>
      obtain ⟨sl, hsl, hdrop, hc, hne⟩ := sub_spec hs
      cases c with
      | nil => exact absurd rfl hne
      | cons x post =>
        have hhd := hd_splice hdrop (top := x) rfl []
        cases post with
        | nil =>
          -- nothing below: a null pointer is returned, the slot stays empty
          have h0 := heap_out_slot hr hsl
          rw [hc] at h0
          obtain ⟨m1, m2, m3⟩ := releaseInner_at h0
          generalize hmv : releaseInner s.heap x.1 = res at m1 m2 m3
          obtain ⟨h', c⟩ := res
          simp only at m1 m2 m3
          subst m1
          simp only [hsl, Option.bind_some, hd_cons, hmv, hd_nil, putPdu, AState.putPdu]
          apply hr.setChain hsl (c' := AState.splice sl.chain a.depth x []) hhd AState.splice_ne
          · rfl
          · rfl
          · simp [AState.setChain, hsl, AState.setSlot]
          · simp [AState.setChain, hsl, AState.setSlot]
          · exact (m2.perm (List.Perm.swap _ _ _)).drop_nil
          · simp [AState.setChain, hsl, AState.setSlot, m3, hr.next]
        | cons z rest =>
          obtain ⟨hi, ei⟩ := isEmpty_spec he
          obtain ⟨hj, ej⟩ := slot?_some hsl
          have hji := ne_of_empty_of_slot he hsl
          have h0 := heap_out_slot_empty hr he hsl
          rw [hc] at h0
          obtain ⟨m1, m2, m3⟩ := releaseInner_at h0
          generalize hmv : releaseInner s.heap x.1 = res at m1 m2 m3
          obtain ⟨h', c⟩ := res
          simp only at m1 m2 m3
          subst m1
          simp only [hsl, Option.bind_some, hd_cons, hmv, putPdu, AState.putPdu]
          apply hr.intro2 hji hj hi (yi := some { sl with chain := AState.splice sl.chain a.depth x [] })
            (yj := some ⟨.pdu, z :: rest⟩)
          · simp only [setSlot, Option.map_some, hr.slots_set_same hsl hhd AState.splice_ne, handleOf_pdu]
          · rfl
          · simp [AState.setSlot, AState.setChain, hsl]
          · simp [AState.setSlot, AState.setChain, hsl]
          · intro c hc'; simp only [Option.some.injEq, ASlot.mk.injEq] at hc'; exact hc'.2 ▸ AState.splice_ne
          · intro c hc'; simp only [Option.some.injEq, ASlot.mk.injEq] at hc'; exact hc'.2 ▸ (by simp)
          · exact m2
          · simp [AState.setSlot, AState.setChain, hsl, setSlot, m3, hr.next]

theorem classEq_spec {h : Heap} {x y : Nat × View} {ix px iy py : Option Nat}
    (hx : h.get x.1 = some ⟨x.2, ix, px⟩) (hy : h.get y.1 = some ⟨y.2, iy, py⟩) :
    classEq h x.1 y.1 = AState.sameCls x y := by
  simp [classEq, hx, hy, AState.sameCls]

/-- membership of a referenced chain after taking the chain of slot `i` out -/
theorem Rep.mem_out {s : State} {A : AState} (hr : Rep s A) {i : Nat} {sl : ASlot} (hsl : A.slot? i = some sl)
    {c : Chain} (hm : root c ∈ rootSegs A.slots) : root c ∈ root sl.chain :: rootSegs (A.slots.set i none) := by
  obtain ⟨hi, e⟩ := slot?_some hsl
  have := (rootSegs_self A.slots i hi).mem_iff (a := root c)
  rw [e] at this
  exact this.mp hm

theorem mem_rootSegs_set_ne {A : AState} {i j : Nat} {sl : ASlot} (hsl : A.slot? j = some sl) (hne : j ≠ i) (y : Option ASlot) :
    root sl.chain ∈ rootSegs (A.slots.set i y) := by
  obtain ⟨hj, e⟩ := slot?_some hsl
  have hj' : j < (A.slots.set i y).length := by simpa using hj
  have := (rootSegs_self (A.slots.set i y) j hj').mem_iff (a := root sl.chain)
  rw [this, List.getElem_set_ne (Ne.symm hne), e]
  simp [optSeg]

theorem sim_setinner {s : State} {A : AState} (hr : Rep s A) (a : Ref) (s2 : Nat) : Sim s A (.setinner a s2) := by
  unfold Sim
  simp only [step, AState.step, hr.resolve, (pduSlot_spec hr s2).1]
  cases hs : A.sub a with
  | none => cases A.slot? a.slot <;> simp
  | some c =>
    obtain ⟨sl, hsl, hdrop, hc, hne⟩ := sub_spec hs
    cases c with
    | nil => exact absurd rfl hne
    | cons x post =>
      cases hp : A.pduChain s2 with
      | none => simp [hsl]
      | some c2 =>
        obtain ⟨hne2, hsl2⟩ := (pduSlot_spec hr s2).2 c2 hp
        cases c2 with
        | nil => exact absurd rfl hne2
        | cons y r2 =>
          simp only [hsl, Option.bind_some, hd_cons]
          by_cases hss : a.slot = s2
          · simp [hss]
          · simp only [hss, if_false]
            obtain ⟨hi, ei⟩ := slot?_some hsl
            obtain ⟨hj, ej⟩ := slot?_some hsl2
            have h0 := heap_out2 hr hss hi hj
            rw [ei, ej] at h0
            have h0' : SegRep s.heap (root (sl.chain.take a.depth ++ x :: post) :: root (y :: r2) ::
                rootSegs ((A.slots.set a.slot none).set s2 none)) := by rw [← hc]; exact h0
            obtain ⟨h1, hl⟩ := innerPduPtr_at h0'
            simp only [hd_cons] at h1 hl
            have hhd := hd_splice hdrop (top := x) rfl (y :: r2)
            apply hr.intro2 hss hi hj (yi := some { sl with chain := AState.splice sl.chain a.depth x (y :: r2) }) (yj := none)
            · simp only [setSlot, Option.map_some, hr.slots_set_same hsl hhd AState.splice_ne, Option.map_none]
            · rfl
            · simp [AState.setSlot, AState.setChain, hsl]
            · simp [AState.setSlot, AState.setChain, hsl]
            · intro c hc'; simp only [Option.some.injEq, ASlot.mk.injEq] at hc'; exact hc'.2 ▸ AState.splice_ne
            · intro c hc'; cases hc'
            · exact h1
            · simp [AState.setSlot, AState.setChain, hsl, setSlot, hl, hr.next]

theorem sim_massign {s : State} {A : AState} (hr : Rep s A) (a b : Ref) : Sim s A (.massign a b) := by
  unfold Sim
  simp only [step, AState.step, hr.resolve]
  cases hs : A.sub a with
  | none => cases A.slot? a.slot <;> cases A.slot? b.slot <;> simp
  | some c =>
    obtain ⟨sa, hsa, hdropa, hca, hnea⟩ := sub_spec hs
    cases c with
    | nil => exact absurd rfl hnea
    | cons x postA =>
      cases hsb : A.sub b with
      | none => cases A.slot? b.slot <;> simp [hsa]
      | some cb =>
        obtain ⟨sb, hsb', hdropb, hcb, hneb⟩ := sub_spec hsb
        cases cb with
        | nil => exact absurd rfl hneb
        | cons y postB =>
          simp only [hsa, hsb', Option.bind_some, hd_cons]
          by_cases hss : a.slot = b.slot
          · -- one chain: only the assignment of a layer to itself is well-formed
            by_cases hdd : a.depth = b.depth
            · have hab : a = b := by
                cases a; cases b; simp only [Ref.mk.injEq]; exact ⟨hss, hdd⟩
              subst hab
              simp only [hs] at hsb
              cases hsb
              have h0 := heap_out_slot hr hsa
              rw [hca] at h0
              have hg := h0.get_at
              obtain ⟨h1, hl⟩ := moveAssignSame_self h0
              have hhd := hd_splice hdropa (top := (x.1, x.2.moved)) rfl []
              simp only [and_self, ne_eq, not_true_eq_false, and_false, if_false, if_true, classEq, hg, beq_self_eq_true]
              apply hr.setChain hsa (c' := AState.splice sa.chain a.depth (x.1, x.2.moved) []) hhd AState.splice_ne
              · rfl
              · rfl
              · simp [AState.setChain, hsa, AState.setSlot]
              · simp [AState.setChain, hsa, AState.setSlot]
              · exact h1
              · simp [AState.setChain, hsa, AState.setSlot, hl, hr.next]
            · simp [hss, hdd]
          · simp only [hss, false_and, if_false]
            obtain ⟨hi, ei⟩ := slot?_some hsa
            obtain ⟨hj, ej⟩ := slot?_some hsb'
            have h0 := heap_out2 hr hss hi hj
            rw [ei, ej] at h0
            have h0' : SegRep s.heap (root (sa.chain.take a.depth ++ x :: postA) :: root (sb.chain.take b.depth ++ y :: postB) ::
                rootSegs ((A.slots.set a.slot none).set b.slot none)) := by rw [← hca, ← hcb]; exact h0
            have hgx := h0'.get_at
            have hgy := (h0'.perm (List.Perm.swap _ _ _)).get_at
            rw [classEq_spec hgx hgy]
            cases hsame : AState.sameCls x y with
            | true =>
              obtain ⟨h1, hl⟩ := moveAssignSame_at h0'
              have hhda := hd_splice hdropa (top := (x.1, y.2)) rfl postB
              have hhdb := hd_splice hdropb (top := (y.1, y.2.moved)) rfl []
              simp only [if_true]
              apply hr.intro2 hss hi hj (yi := some { sa with chain := AState.splice sa.chain a.depth (x.1, y.2) postB })
                (yj := some { sb with chain := AState.splice sb.chain b.depth (y.1, y.2.moved) [] })
              · simp only [Option.map_some, hr.slots_set_same hsa hhda AState.splice_ne,
                  hr.slots_set_same hsb' hhdb AState.splice_ne]
              · rfl
              · rw [AState.setChain_slots (by rw [AState.setChain_slot?_ne (Ne.symm hss)]; exact hsb'), AState.setChain_slots hsa]
              · rw [AState.setChain_opts, AState.setChain_opts]
              · intro c hc'; simp only [Option.some.injEq, ASlot.mk.injEq] at hc'; exact hc'.2 ▸ AState.splice_ne
              · intro c hc'; simp only [Option.some.injEq, ASlot.mk.injEq] at hc'; exact hc'.2 ▸ AState.splice_ne
              · exact h1
              · rw [AState.setChain_next, AState.setChain_next, hr.next]; exact hl.symm
            | false =>
              obtain ⟨h1, hl⟩ := moveAssignBase_at h0'
              have hhda := hd_splice hdropa (top := x) rfl postB
              have hhdb := hd_splice hdropb (top := y) rfl []
              simp only [Bool.false_eq_true, if_false]
              apply hr.intro2 hss hi hj (yi := some { sa with chain := AState.splice sa.chain a.depth x postB })
                (yj := some { sb with chain := AState.splice sb.chain b.depth y [] })
              · simp only [Option.map_some, hr.slots_set_same hsa hhda AState.splice_ne,
                  hr.slots_set_same hsb' hhdb AState.splice_ne]
              · rfl
              · rw [AState.setChain_slots (by rw [AState.setChain_slot?_ne (Ne.symm hss)]; exact hsb'), AState.setChain_slots hsa]
              · rw [AState.setChain_opts, AState.setChain_opts]
              · intro c hc'; simp only [Option.some.injEq, ASlot.mk.injEq] at hc'; exact hc'.2 ▸ AState.splice_ne
              · intro c hc'; simp only [Option.some.injEq, ASlot.mk.injEq] at hc'; exact hc'.2 ▸ AState.splice_ne
              · exact h1
              · rw [AState.setChain_next, AState.setChain_next, hr.next]; exact hl.symm

end Tins.Own
