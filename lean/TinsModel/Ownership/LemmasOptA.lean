import TinsModel.Ownership.OptSpec
/-
  Storage-level PDUOption model, part A: accessor lemmas and the *open invariant* `Core σ f X P` —
  the representation invariant with a set `X` of slots whose object is in the middle of an operation (exempt from the
  value correspondence) and a set `P` of live heap blocks that currently belong to no finished object — together with
  the effect of every primitive (member write, `new[]`, `delete[]`, placing / removing an object) on it.
-/
namespace Tins.OptStore
open Pool

/-! ### accessors -/

theorem obj?_eq_some {σ : Pool} {i : Nat} {o : Obj} : σ.obj? i = some o ↔ σ.objs[i]? = some (some o) := by
  unfold Pool.obj?
  split
  · next o' h => rw [h]; simp
  · next h =>
    constructor
    · intro h'; cases h'
    · intro h'; exact absurd h' (h o)

theorem obj?_eq_none {σ : Pool} {i : Nat} : σ.obj? i = none ↔ (σ.objs[i]? = none ∨ σ.objs[i]? = some none) := by
  unfold Pool.obj?
  split
  · next o' h => rw [h]; simp
  · next h =>
    simp only [true_iff]
    cases h' : σ.objs[i]? with
    | none => simp
    | some x => cases x with
      | none => simp
      | some o => exact absurd h' (h o)

theorem obj_of {σ : Pool} {i : Nat} {o : Obj} (h : σ.obj? i = some o) : σ.obj i = o := by
  simp [Pool.obj, h]

theorem lt_of_obj? {σ : Pool} {i : Nat} {o : Obj} (h : σ.obj? i = some o) : i < σ.objs.length := by
  rw [obj?_eq_some] at h
  exact (List.getElem?_eq_some_iff.mp h).1

theorem cell?_eq_some {σ : Pool} {a : Nat} {b : Bytes} : σ.cell? a = some b ↔ σ.cells[a]? = some (some b) := by
  unfold Pool.cell?
  split
  · next o' h => rw [h]; simp
  · next h =>
    constructor
    · intro h'; cases h'
    · intro h'; exact absurd h' (h b)

theorem lt_of_cell? {σ : Pool} {a : Nat} {b : Bytes} (h : σ.cell? a = some b) : a < σ.cells.length := by
  rw [cell?_eq_some] at h
  exact (List.getElem?_eq_some_iff.mp h).1

theorem obj?_setObj (σ : Pool) (i j : Nat) (o : Obj) :
    (σ.setObj i o).obj? j = if i = j ∧ i < σ.objs.length then some o else σ.obj? j := by
  unfold Pool.obj? Pool.setObj
  simp only [List.getElem?_set]
  by_cases h : i = j
  · subst h
    by_cases hl : i < σ.objs.length
    · simp [hl]
    · simp [hl]
  · simp [h]

theorem obj?_setObj_same {σ : Pool} {i : Nat} (h : i < σ.objs.length) (o : Obj) : (σ.setObj i o).obj? i = some o := by
  rw [obj?_setObj]; simp [h]

theorem obj?_setObj_ne {σ : Pool} {i j : Nat} (h : i ≠ j) (o : Obj) : (σ.setObj i o).obj? j = σ.obj? j := by
  rw [obj?_setObj]; simp [h]

@[simp] theorem cell?_setObj (σ : Pool) (i : Nat) (o : Obj) (a : Nat) : (σ.setObj i o).cell? a = σ.cell? a := rfl
@[simp] theorem cells_setObj (σ : Pool) (i : Nat) (o : Obj) : (σ.setObj i o).cells = σ.cells := rfl
@[simp] theorem freed_setObj (σ : Pool) (i : Nat) (o : Obj) : (σ.setObj i o).freed = σ.freed := rfl
@[simp] theorem faults_setObj (σ : Pool) (i : Nat) (o : Obj) : (σ.setObj i o).faults = σ.faults := rfl
@[simp] theorem length_setObj (σ : Pool) (i : Nat) (o : Obj) : (σ.setObj i o).objs.length = σ.objs.length := by
  simp [Pool.setObj]
@[simp] theorem nuser_setObj (σ : Pool) (i : Nat) (o : Obj) : (σ.setObj i o).nuser = σ.nuser := rfl
@[simp] theorem vlen_setObj (σ : Pool) (i : Nat) (o : Obj) : (σ.setObj i o).vlen = σ.vlen := rfl

theorem allSome_map_some (l : Bytes) : allSome (l.map some) = some l := by
  induction l with
  | nil => rfl
  | cons x r ih => simp [allSome, ih]

/-! ### the open invariant -/

/-- slot `i` holds a finished object that owns heap block `a` -/
def Owns (σ : Pool) (i a : Nat) : Prop :=
  ∃ o, σ.obj? i = some o ∧ smallSize < o.real_size_ ∧ o.payload_ = .big (.addr a)

/-- the object `o` stores the value `v` -/
structure ObjRep (σ : Pool) (o : Obj) (v : VOpt) : Prop where
  code : o.option_ = v.code
  len : o.size_ = v.len
  real : o.real_size_ = v.data.length
  bound : v.data.length ≤ 65535
  small : v.data.length ≤ smallSize → o.payload_.asSmall.take v.data.length = v.data.map some
  big : smallSize < v.data.length → ∃ a, o.payload_ = .big (.addr a) ∧ σ.cell? a = some v.data

def Corr (σ : Pool) (i : Nat) (w : Option VOpt) : Prop :=
  match σ.obj? i, w with
  | none, none => True
  | some o, some v => ObjRep σ o v
  | _, _ => False

structure Core (σ : Pool) (f : Nat → Option VOpt) (X P : Nat → Prop) : Prop where
  nofault : σ.faults = 0
  corr : ∀ i, ¬ X i → Corr σ i (f i)
  xlive : ∀ t, X t → (σ.obj? t).isSome
  uniq : ∀ i j a, ¬ X i → ¬ X j → Owns σ i a → Owns σ j a → i = j
  cover : ∀ a, (σ.cell? a).isSome → P a ∨ ∃ i, ¬ X i ∧ Owns σ i a
  pend : ∀ a, P a → (σ.cell? a).isSome ∧ ∀ i, ¬ X i → ¬ Owns σ i a
  freedNodup : σ.freed.Nodup
  freedDead : ∀ a, a ∈ σ.freed ↔ σ.cells[a]? = some none

theorem Corr.some_iff {σ : Pool} {i : Nat} {w : Option VOpt} (h : Corr σ i w) : (σ.obj? i).isSome = w.isSome := by
  unfold Corr at h
  split at h <;> simp_all

theorem Corr.of_some {σ : Pool} {i : Nat} {w : Option VOpt} {o : Obj} (h : Corr σ i w) (ho : σ.obj? i = some o) :
    ∃ v, w = some v ∧ ObjRep σ o v := by
  unfold Corr at h
  rw [ho] at h
  cases w with
  | none => exact absurd h id
  | some v => exact ⟨v, rfl, h⟩

theorem Corr.of_val {σ : Pool} {i : Nat} {v : VOpt} (h : Corr σ i (some v)) : ∃ o, σ.obj? i = some o ∧ ObjRep σ o v := by
  unfold Corr at h
  cases ho : σ.obj? i with
  | none => rw [ho] at h; exact absurd h id
  | some o => rw [ho] at h; exact ⟨o, rfl, h⟩

theorem Core.congr {σ : Pool} {f f' : Nat → Option VOpt} {X X' P P' : Nat → Prop} (h : Core σ f X P)
    (hf : ∀ i, ¬ X i → f i = f' i) (hX : ∀ i, X i ↔ X' i) (hP : ∀ a, P a ↔ P' a) : Core σ f' X' P' where
  nofault := h.nofault
  corr := by intro i hi; rw [← hf i ((not_congr (hX i)).mpr hi)]; exact h.corr i ((not_congr (hX i)).mpr hi)
  xlive := by intro t ht; exact h.xlive t ((hX t).mpr ht)
  uniq := by intro i j a hi hj; exact h.uniq i j a ((not_congr (hX i)).mpr hi) ((not_congr (hX j)).mpr hj)
  cover := by
    intro a ha
    rcases h.cover a ha with hp | ⟨i, hi, ho⟩
    · exact Or.inl ((hP a).mp hp)
    · exact Or.inr ⟨i, (not_congr (hX i)).mp hi, ho⟩
  pend := by
    intro a ha
    obtain ⟨h1, h2⟩ := h.pend a ((hP a).mpr ha)
    exact ⟨h1, fun i hi => h2 i ((not_congr (hX i)).mpr hi)⟩
  freedNodup := h.freedNodup
  freedDead := h.freedDead

/-- a finished object whose block is alive has an address below the allocation frontier -/
theorem Owns.lt_of_core {σ : Pool} {f : Nat → Option VOpt} {X P : Nat → Prop} (h : Core σ f X P) {i a : Nat}
    (hi : ¬ X i) (ho : Owns σ i a) : ∃ bs, σ.cell? a = some bs := by
  obtain ⟨o, hob, hbig, hpl⟩ := ho
  obtain ⟨v, _, hr⟩ := (h.corr i hi).of_some hob
  obtain ⟨a', hp, hc⟩ := hr.big (by rw [← hr.real]; exact hbig)
  rw [hpl] at hp
  cases hp
  exact ⟨_, hc⟩

/-! ### primitives -/

theorem ObjRep.of_cells {σ σ' : Pool} {o : Obj} {v : VOpt} (h : ObjRep σ o v)
    (hc : ∀ a, o.payload_ = .big (.addr a) → smallSize < o.real_size_ → σ'.cell? a = σ.cell? a) : ObjRep σ' o v where
  code := h.code
  len := h.len
  real := h.real
  bound := h.bound
  small := h.small
  big := by
    intro hb
    obtain ⟨a, hp, hcell⟩ := h.big hb
    exact ⟨a, hp, by rw [hc a hp (by rw [h.real]; exact hb)]; exact hcell⟩

/-- any write to the members of an object that is in the middle of an operation -/
theorem Core.write {σ : Pool} {f : Nat → Option VOpt} {X P : Nat → Prop} (h : Core σ f X P) {t : Nat} (ht : X t) (o : Obj) :
    Core (σ.setObj t o) f X P := by
  have hne : ∀ i, ¬ X i → t ≠ i := fun i hi e => hi (e ▸ ht)
  have hobj : ∀ i, ¬ X i → (σ.setObj t o).obj? i = σ.obj? i := fun i hi => obj?_setObj_ne (hne i hi) o
  have howns : ∀ i a, ¬ X i → (Owns (σ.setObj t o) i a ↔ Owns σ i a) := by
    intro i a hi; unfold Owns; rw [hobj i hi]
  refine ⟨h.nofault, ?_, ?_, ?_, ?_, ?_, h.freedNodup, h.freedDead⟩
  · intro i hi
    have := h.corr i hi
    unfold Corr at this ⊢
    rw [hobj i hi]
    split at this
    · trivial
    · next o' v' _ _ => exact this.of_cells (fun _ _ _ => rfl)
    · exact absurd this id
  · intro k hk
    rw [obj?_setObj]
    split
    · rfl
    · exact h.xlive k hk
  · intro i j a hi hj h1 h2
    exact h.uniq i j a hi hj ((howns i a hi).mp h1) ((howns j a hj).mp h2)
  · intro a ha
    rcases h.cover a ha with hp | ⟨i, hi, ho⟩
    · exact Or.inl hp
    · exact Or.inr ⟨i, hi, (howns i a hi).mpr ho⟩
  · intro a ha
    obtain ⟨h1, h2⟩ := h.pend a ha
    exact ⟨h1, fun i hi ho => h2 i hi ((howns i a hi).mp ho)⟩

end Tins.OptStore
