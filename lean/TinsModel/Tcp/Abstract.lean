import TinsModel.Tcp.DataTracker
/-
  The reassembly algorithm of `DataTracker::process_payload` once more, but over ABSOLUTE stream positions
  (`Nat`, plain `<`, no wrap-around): the proof device between the wrapped model `Tracker` and the spec.
  `Tracker` is shown to simulate `ATracker` under the key map `a ↦ wrap32 (isn + a)` (LemmasSim.lean);
  `ATracker` is shown to satisfy the spec by an invariant (LemmasAbstract.lean).
  The only difference in shape: the iterator successor is "least remaining key" (`minKey?`) instead of the
  cyclic successor — the two agree whenever the erased key was the least key (`cyclicSucc_map_of_lt`).
-/
namespace Tins.DT

structure ATracker where
  /-- delivery point: absolute position of the next byte expected -/
  k : Nat
  /-- out-of-order chunks keyed by absolute start -/
  buf : Chunks
  payload : Bytes
deriving Repr

def ATracker.init : ATracker := { k := 0, buf := [], payload := [] }

/-- `store_payload` on the chunk map alone: new key → insert; longer than the stored chunk → replace.
    `tie` selects what happens when a chunk of the SAME length is already stored: `false` = keep the stored one
    (`DataTracker::store_payload`), `true` = replace it (`TCPStream::safe_insert` of the legacy follower). -/
def astore (tie : Bool) (b : Chunks) (a : Nat) (d : Bytes) : Chunks :=
  match lookup b a with
  | none => put b a d
  | some old => if decide (old.length < d.length) || (tie && old.length == d.length) then put b a d else b

def adrain (tie : Bool) : Nat → ATracker → Option Nat → Bool → ATracker × Bool
  | 0, t, _, added => (t, added)
  | fuel + 1, t, iter, added =>
    match iter with
    | none => (t, added)
    | some a =>
      match lookup t.buf a with
      | none => (t, added)
      | some chunk =>
        if a ≤ t.k then
          if a < t.k then
            if t.k < a + chunk.length then
              let b := erase (astore tie t.buf t.k (chunk.drop (t.k - a))) a
              adrain tie fuel { t with buf := b } (minKey? (keys b)) added
            else
              let b := erase t.buf a
              adrain tie fuel { t with buf := b } (minKey? (keys b)) added
          else
            let b := erase t.buf a
            adrain tie fuel { k := t.k + chunk.length, payload := t.payload ++ chunk, buf := b } (minKey? (keys b))
              (added || !chunk.isEmpty)
        else (t, added)

/-- absolute start under which a segment at offset `off` is stored when the delivery point is `k` -/
def aStart (k : Nat) (off : Int) : Nat := if off < (k : Int) then k else off.toNat
/-- the part of the segment at or after the delivery point -/
def aData (k : Nat) (off : Int) (data : Bytes) : Bytes :=
  if off < (k : Int) then data.drop ((k : Int) - off).toNat else data

/-- `process_payload` for a segment at absolute offset `off` (negative = before the ISN) -/
def aprocess (tie : Bool) (t : ATracker) (off : Int) (data : Bytes) : ATracker × Bool :=
  if off + (data.length : Int) < (t.k : Int) then (t, false)
  else
    let b := astore tie t.buf (aStart t.k off) (aData t.k off data)
    adrain tie (2 * b.length + 2) { t with buf := b } (if (lookup b t.k).isSome then some t.k else none) false

end Tins.DT
