import TinsModel.Tcp.LemmasAbstractRun
import TinsModel.Tcp.LemmasModel
/-
  Simulation between the wrapped model `Tracker` (uint32 keys, RFC 1982 comparison, cyclic map successor)
  and the abstract tracker `ATracker` (absolute positions) under the key map `a ↦ wrap32 (isn + a)`.
  Everything the wrapped model does with keys commutes with the key map as long as all positions involved lie
  in a window of width < 2^31 (comparisons) resp. < 2^32 (injectivity, cyclic successor).
-/
namespace Tins.DT

/-- the 32-bit sequence number of absolute position `a` -/
def W (isn a : Nat) : Nat := wrap32 (isn + a)

def mapW (isn : Nat) (b : Chunks) : Chunks := b.map (fun c => (W isn c.1, c.2))

structure Sim (isn : Nat) (tw : Tracker) (t : ATracker) : Prop where
  seq : tw.seq = W isn t.k
  buf : tw.buf = mapW isn t.buf
  payload : tw.payload = t.payload

/-- all keys (and chunk ends) are at most `N` -/
def Bounded (N : Nat) (b : Chunks) : Prop := ∀ c ∈ b, c.1 + c.2.length ≤ N

theorem W_inj {isn a b N : Nat} (hN : N < 4294967296) (ha : a ≤ N) (hb : b ≤ N) (h : W isn a = W isn b) : a = b := by
  unfold W wrap32 at h; omega

theorem keys_mapW (isn : Nat) (b : Chunks) : keys (mapW isn b) = (keys b).map (W isn) := by
  simp [keys, mapW, List.map_map, Function.comp_def]

theorem length_mapW (isn : Nat) (b : Chunks) : (mapW isn b).length = b.length := by
  simp [mapW]

theorem sumSizes_mapW (isn : Nat) (b : Chunks) : sumSizes (mapW isn b) = sumSizes b := by
  simp [sumSizes, mapW, List.map_map, Function.comp_def]

theorem Bounded.key_le {N : Nat} {b : Chunks} (h : Bounded N b) {c : Nat × Bytes} (hc : c ∈ b) : c.1 ≤ N := by
  have := h c hc; omega

theorem lookup_mapW {isn N : Nat} (hN : N < 4294967296) {b : Chunks} (hb : Bounded N b) {a : Nat} (ha : a ≤ N) :
    lookup (mapW isn b) (W isn a) = lookup b a := by
  induction b with
  | nil => rfl
  | cons c r ih =>
    have hr : Bounded N r := fun x hx => hb x (List.mem_cons_of_mem _ hx)
    have hc : c.1 ≤ N := hb.key_le List.mem_cons_self
    obtain ⟨k', d'⟩ := c
    simp only [mapW, List.map_cons] at ih ⊢
    unfold lookup
    by_cases e : k' = a
    · subst e; simp
    · have : W isn k' ≠ W isn a := fun h => e (W_inj hN hc ha h)
      rw [if_neg this, if_neg e]
      exact ih hr

theorem erase_mapW {isn N : Nat} (hN : N < 4294967296) {b : Chunks} (hb : Bounded N b) {a : Nat} (ha : a ≤ N) :
    erase (mapW isn b) (W isn a) = mapW isn (erase b a) := by
  induction b with
  | nil => rfl
  | cons c r ih =>
    have hr : Bounded N r := fun x hx => hb x (List.mem_cons_of_mem _ hx)
    have hc : c.1 ≤ N := hb.key_le List.mem_cons_self
    obtain ⟨k', d'⟩ := c
    simp only [mapW, List.map_cons, erase, List.filter_cons] at ih ⊢
    by_cases e : k' = a
    · subst e; simpa using ih hr
    · have : W isn k' ≠ W isn a := fun h => e (W_inj hN hc ha h)
      simp only [bne_iff_ne, ne_eq, this, not_false_eq_true, if_true, e, List.map_cons]
      rw [ih hr]

theorem put_mapW {isn N : Nat} (hN : N < 4294967296) {b : Chunks} (hb : Bounded N b) {a : Nat} (ha : a ≤ N)
    (d : Bytes) : put (mapW isn b) (W isn a) d = mapW isn (put b a d) := by
  unfold put
  rw [erase_mapW hN hb ha]
  rfl

/-- `store_payload` on the wrapped map is `astore` on the abstract one -/
theorem storePayload_mapW {isn N : Nat} (hN : N < 4294967296) {b : Chunks} (hb : Bounded N b) {a : Nat} (ha : a ≤ N)
    (tw : Tracker) (hbuf : tw.buf = mapW isn b) (d : Bytes) :
    (storePayload tw (W isn a) d).buf = mapW isn (astore false b a d) := by
  unfold storePayload astore
  rw [hbuf, lookup_mapW hN hb ha]
  cases lookup b a with
  | none => exact put_mapW hN hb ha d
  | some old =>
    simp only [Bool.false_and, Bool.or_false, decide_eq_true_eq]
    split
    · exact put_mapW hN hb ha d
    · exact hbuf

theorem Bounded_astore {tie : Bool} {N : Nat} {b : Chunks} (hb : Bounded N b) {a : Nat} {d : Bytes} (h : a + d.length ≤ N) :
    Bounded N (astore tie b a d) := by
  intro c hc
  rcases mem_astore hc with hc | hc
  · exact hb c hc
  · rw [hc]; exact h

theorem Bounded_erase {N : Nat} {b : Chunks} (hb : Bounded N b) (a : Nat) : Bounded N (erase b a) :=
  fun c hc => hb c (mem_erase.mp hc).1

/-- The cyclic successor in `std::map` order on wrapped keys is the wrapped least absolute key, when every
    remaining key lies above the erased one inside a window of width < 2^32. -/
theorem cyclicSucc_mapW {isn N : Nat} (hN : N < 4294967296) {b : Chunks} {a : Nat}
    (hb : ∀ x ∈ keys b, a < x ∧ x ≤ N) :
    cyclicSucc (mapW isn b) (W isn a) = (minKey? (keys b)).map (W isn) := by
  unfold cyclicSucc
  have hk : (mapW isn b).map (·.1) = (keys b).map (W isn) := keys_mapW isn b
  rw [hk]
  cases hm : minKey? (keys b) with
  | none =>
    rw [minKey?_eq_none_iff] at hm
    rw [hm]; rfl
  | some m =>
    obtain ⟨hm1, hm2⟩ := minKey?_spec hm
    have hma := hb m hm1
    simp only [Option.map_some]
    by_cases hlt : W isn a < W isn m
    · have : minKey? (((keys b).map (W isn)).filter (fun x => W isn a < x)) = some (W isn m) := by
        apply minKey?_of_spec
        · rw [List.mem_filter]
          exact ⟨List.mem_map.mpr ⟨m, hm1, rfl⟩, by simpa using hlt⟩
        · intro y hy
          rw [List.mem_filter] at hy
          obtain ⟨x, hx, rfl⟩ := List.mem_map.mp hy.1
          have h1 : W isn a < W isn x := by simpa using hy.2
          have h2 := hm2 x hx
          have h3 := hb x hx
          unfold W wrap32 at *; omega
      rw [this]
    · have : minKey? (((keys b).map (W isn)).filter (fun x => W isn a < x)) = none := by
        rw [minKey?_eq_none_iff, List.filter_eq_nil_iff]
        intro y hy
        obtain ⟨x, hx, rfl⟩ := List.mem_map.mp hy
        have h2 := hm2 x hx
        have h3 := hb x hx
        simp only [decide_eq_true_eq]
        unfold W wrap32 at *; omega
      rw [this]
      simp only
      apply minKey?_of_spec
      · exact List.mem_map.mpr ⟨m, hm1, rfl⟩
      · intro y hy
        obtain ⟨x, hx, rfl⟩ := List.mem_map.mp hy
        have h2 := hm2 x hx
        have h3 := hb x hx
        unfold W wrap32 at *; omega

/-! ### comparisons and arithmetic on wrapped positions -/

theorem seqCompare_W {isn a k N : Nat} (hN : N < 2147483648) (ha : a ≤ N) (hk : k ≤ N) :
    seqCompare (W isn a) (W isn k) = if a = k then 0 else if a < k then -1 else 1 := by
  have := seqCompare_abs (isn + a) (isn + k) (by omega) (by omega)
  unfold W; rw [this]
  split <;> split <;> (try split) <;> (try split) <;> omega

theorem seqCompare_W_lt {isn a k N : Nat} (hN : N < 2147483648) (ha : a ≤ N) (hk : k ≤ N) (h : a < k) :
    seqCompare (W isn a) (W isn k) = -1 := by
  rw [seqCompare_W hN ha hk, if_neg (by omega), if_pos h]

theorem seqCompare_W_gt {isn a k N : Nat} (hN : N < 2147483648) (ha : a ≤ N) (hk : k ≤ N) (h : k < a) :
    seqCompare (W isn a) (W isn k) = 1 := by
  rw [seqCompare_W hN ha hk, if_neg (by omega), if_neg (by omega)]

theorem wrap32_W_add (isn a n : Nat) : wrap32 (W isn a + n) = W isn (a + n) := by
  unfold W wrap32; omega

theorem sub32_W {isn a k : Nat} (h : a ≤ k) (h' : k < a + 4294967296) : sub32 (W isn k) (W isn a) = k - a := by
  unfold W
  rw [sub32_abs (isn + k) (isn + a) (by omega) (by omega)]; omega

theorem keys_above_erase {b : Chunks} (_hn : (keys b).Nodup) {a : Nat} (hmin : ∀ x ∈ keys b, a ≤ x) :
    ∀ x ∈ keys (erase b a), a < x := by
  intro x hx
  obtain ⟨h1, h2⟩ := mem_keys_erase.mp hx
  have := hmin x h1; omega

/-- the drain loop of the wrapped model moves in lock-step with the abstract one -/
theorem drain_sim {s : Bytes} {cov : Nat → Prop} {isn : Nat} (hN : s.length < 2147483648)
    (fuel : Nat) (tw : Tracker) (t : ATracker) (iter : Option Nat) (added : Bool)
    (hsim : Sim isn tw t) (hd : DInv s cov t) (hi : IterOK t iter) :
    Sim isn (drain fuel tw (iter.map (W isn)) added).1 (adrain false fuel t iter added).1 ∧
    (drain fuel tw (iter.map (W isn)) added).2 = (adrain false fuel t iter added).2 := by
  induction fuel generalizing tw t iter added with
  | zero => exact ⟨hsim, rfl⟩
  | succ fuel ih =>
    cases iter with
    | none => simp only [Option.map_none, drain_none, adrain_none]; exact ⟨hsim, trivial⟩
    | some a =>
      have hmin := minKey?_spec hi
      have hb : Bounded s.length t.buf := fun c hc => (hd.chunks c hc).inside
      obtain ⟨da, hda⟩ := mem_keys.mp hmin.1
      have haN : a ≤ s.length := hb.key_le hda
      have hkN : t.k ≤ s.length := hd.k_le
      have hendN : a + da.length ≤ s.length := hb _ hda
      have hN32 : s.length < 4294967296 := by omega
      have hl := lookup_of_mem hd.nodup hda
      simp only [Option.map_some]
      rw [drain_succ, adrain_succ, hsim.buf, lookup_mapW hN32 hb haN, hl]
      simp only
      rw [hsim.seq]
      rcases Nat.lt_trichotomy a t.k with hlt | heq | hgt
      · -- the chunk starts below the delivery point
        rw [seqCompare_W_lt hN haN hkN hlt, wrap32_W_add]
        by_cases hend : t.k < a + da.length
        · -- slice
          rw [seqCompare_W_gt hN hendN hkN hend]
          simp only [show ((-1 : Int) ≤ 0) from by decide, show ((-1 : Int) < 0) from by decide,
            show ((1 : Int) > 0) from by decide, if_true, hlt, hend, Nat.le_of_lt hlt]
          have hsub : sub32 tw.seq (W isn a) = t.k - a := by rw [hsim.seq]; exact sub32_W (by omega) (by omega)
          have hstore : (storePayload { tw with total := sub32 tw.total (wrap32 da.length) } tw.seq
              (da.drop (sub32 tw.seq (W isn a)))).buf = mapW isn (astore false t.buf t.k (da.drop (t.k - a))) := by
            rw [hsub]
            have h := storePayload_mapW hN32 hb hkN { tw with total := sub32 tw.total (wrap32 da.length) }
              hsim.buf (da.drop (t.k - a))
            rw [← hsim.seq] at h
            exact h
          have hba : Bounded s.length (astore false t.buf t.k (da.drop (t.k - a))) := by
            apply Bounded_astore hb
            rw [List.length_drop]; omega
          have hbuf : (sliceState tw (W isn a) da).buf
              = mapW isn (erase (astore false t.buf t.k (da.drop (t.k - a))) a) := by
            show erase (storePayload _ _ _).buf (W isn a) = _
            rw [hstore, erase_mapW hN32 hba haN]
          have hsim' : Sim isn (sliceState tw (W isn a) da)
              { t with buf := erase (astore false t.buf t.k (da.drop (t.k - a))) a } := by
            refine ⟨?_, hbuf, ?_⟩
            · show (storePayload _ _ _).seq = _
              rw [storePayload_seq]; exact hsim.seq
            · show (storePayload _ _ _).payload = _
              rw [storePayload_payload]; exact hsim.payload
          have hit : cyclicSucc (sliceState tw (W isn a) da).buf (W isn a)
              = (minKey? (keys (erase (astore false t.buf t.k (da.drop (t.k - a))) a))).map (W isn) := by
            rw [hbuf]
            apply cyclicSucc_mapW hN32
            intro x hx
            obtain ⟨h1, h2⟩ := mem_keys_erase.mp hx
            obtain ⟨dx, hdx⟩ := mem_keys.mp h1
            refine ⟨?_, hba.key_le hdx⟩
            rcases mem_keys_astore.mp h1 with h3 | h3
            · omega
            · have := hmin.2 x h3; omega
          rw [hit]
          exact ih _ _ _ _ hsim' (DInv_slice hd hl hlt hend) (IterOK_min _)
        · -- discard
          have hc : seqCompare (W isn (a + da.length)) (W isn t.k) ≤ 0 := by
            rw [seqCompare_W hN hendN hkN]; split <;> (try split) <;> omega
          simp only [show ((-1 : Int) ≤ 0) from by decide, show ((-1 : Int) < 0) from by decide,
            if_true, hlt, hend, Nat.le_of_lt hlt, if_false, show ¬ (seqCompare (W isn (a + da.length)) (W isn t.k) > 0)
              from by omega]
          have hbuf : (discardState tw (W isn a) da).buf = mapW isn (erase t.buf a) := by
            show erase tw.buf (W isn a) = _
            rw [hsim.buf, erase_mapW hN32 hb haN]
          have hsim' : Sim isn (discardState tw (W isn a) da) { t with buf := erase t.buf a } :=
            ⟨hsim.seq, hbuf, hsim.payload⟩
          have hit : cyclicSucc (discardState tw (W isn a) da).buf (W isn a)
              = (minKey? (keys (erase t.buf a))).map (W isn) := by
            rw [hbuf]
            apply cyclicSucc_mapW hN32
            intro x hx
            obtain ⟨dx, hdx⟩ := mem_keys.mp hx
            exact ⟨keys_above_erase hd.nodup hmin.2 x hx, (Bounded_erase hb a).key_le hdx⟩
          rw [hit]
          exact ih _ _ _ _ hsim' (DInv_discard hd hl (by omega)) (IterOK_min _)
      · -- the chunk starts exactly at the delivery point: deliver
        subst heq
        rw [seqCompare_self]
        simp only [show ((0 : Int) ≤ 0) from by decide, show ¬ ((0 : Int) < 0) from by decide, if_true, if_false,
          Nat.le_refl, Nat.lt_irrefl]
        have hbuf : (deliverState tw (W isn t.k) da).buf = mapW isn (erase t.buf t.k) := by
          show erase tw.buf (W isn t.k) = _
          rw [hsim.buf, erase_mapW hN32 hb haN]
        have hsim' : Sim isn (deliverState tw (W isn t.k) da)
            { k := t.k + da.length, payload := t.payload ++ da, buf := erase t.buf t.k } := by
          refine ⟨?_, hbuf, ?_⟩
          · show wrap32 (tw.seq + da.length) = _
            rw [hsim.seq, wrap32_W_add]
          · show tw.payload ++ da = _
            rw [hsim.payload]
        have hit : cyclicSucc (deliverState tw (W isn t.k) da).buf (W isn t.k)
            = (minKey? (keys (erase t.buf t.k))).map (W isn) := by
          rw [hbuf]
          apply cyclicSucc_mapW hN32
          intro x hx
          obtain ⟨dx, hdx⟩ := mem_keys.mp hx
          exact ⟨keys_above_erase hd.nodup hmin.2 x hx, (Bounded_erase hb t.k).key_le hdx⟩
        rw [hit]
        exact ih _ _ _ _ hsim' (DInv_deliver hd hl) (IterOK_min _)
      · -- the least chunk starts above the delivery point: the loop ends
        rw [seqCompare_W_gt hN haN hkN hgt]
        simp only [show ¬ ((1 : Int) ≤ 0) from by decide, if_false, show ¬ (a ≤ t.k) from by omega]
        exact ⟨hsim, trivial⟩

/-! ### the segment as it arrives: offsets may be negative (bytes before the ISN) -/

theorem seqCompare_int (x y : Int) (h : x < y + 2147483648) (h' : y < x + 2147483648) :
    seqCompare (x % 4294967296).toNat (y % 4294967296).toNat = if x = y then 0 else if x < y then -1 else 1 := by
  unfold seqCompare
  split <;> split <;> (try split) <;> (try split) <;> (try split) <;> omega

theorem W_eq_int (isn a : Nat) : W isn a = (((isn : Int) + (a : Int)) % 4294967296).toNat := by
  unfold W wrap32; omega

theorem seqOf_end (isn : Nat) (off : Int) (n : Nat) :
    wrap32 (seqOf isn off + n) = (((isn : Int) + (off + (n : Int))) % 4294967296).toNat := by
  unfold seqOf wrap32; omega

theorem seqOf_nonneg (isn : Nat) {off : Int} (h : 0 ≤ off) : seqOf isn off = W isn off.toNat := by
  unfold seqOf W wrap32; omega

theorem sub32_W_seqOf {isn k : Nat} {off : Int} (h : off ≤ (k : Int)) (h' : (k : Int) - off < 4294967296) :
    sub32 (W isn k) (seqOf isn off) = ((k : Int) - off).toNat := by
  unfold sub32 W seqOf wrap32; omega

/-- the end of an arriving segment compares with the delivery point as the absolute positions do -/
theorem chunkEnd_compare {isn k N : Nat} {off : Int} {n : Nat} (hN : N < 2147483648) (_hk : k ≤ N)
    (hwin : (k : Int) - off < 2147483648) (hin : off + (n : Int) ≤ (N : Int)) :
    seqCompare (wrap32 (seqOf isn off + n)) (W isn k)
      = if off + (n : Int) = (k : Int) then 0 else if off + (n : Int) < (k : Int) then -1 else 1 := by
  rw [seqOf_end, W_eq_int, seqCompare_int _ _ (by omega) (by omega)]
  split <;> (try split) <;> (try split) <;> (try split) <;> omega

/-- the start of an arriving segment compares with the delivery point as the absolute positions do -/
theorem start_compare {isn k N : Nat} {off : Int} {n : Nat} (hN : N < 2147483648) (_hk : k ≤ N)
    (hwin : (k : Int) - off < 2147483648) (hin : off + (n : Int) ≤ (N : Int)) :
    seqCompare (seqOf isn off) (W isn k) = if off = (k : Int) then 0 else if off < (k : Int) then -1 else 1 := by
  rw [W_eq_int]
  unfold seqOf
  rw [seqCompare_int _ _ (by omega) (by omega)]
  split <;> (try split) <;> (try split) <;> (try split) <;> omega

/-- `process_payload` of the wrapped model moves in lock-step with the abstract tracker for every segment
    that starts less than 2^31 before the delivery point and ends inside the stream -/
theorem processPayload_sim {s : Bytes} {cov : Nat → Prop} {isn : Nat} (hN : s.length < 2147483648)
    {tw : Tracker} {t : ATracker} (hsim : Sim isn tw t) (hinv : AInv s cov t) (off : Int) (data : Bytes)
    (hwin : (t.k : Int) - off < 2147483648)
    (hin : off + (data.length : Int) ≤ (s.length : Int)) (hag : (SegD.mk off data).agrees s) :
    Sim isn (processPayload tw (seqOf isn off) data).1 (aprocess false t off data).1 ∧
    (processPayload tw (seqOf isn off) data).2 = (aprocess false t off data).2 := by
  have hkN : t.k ≤ s.length := hinv.1.k_le
  have hb : Bounded s.length t.buf := fun c hc => (hinv.1.chunks c hc).inside
  have hN32 : s.length < 4294967296 := by omega
  rw [processPayload_eq]
  unfold aprocess
  have hc1 : seqCompare (wrap32 (seqOf isn off + data.length)) tw.seq
      = if off + (data.length : Int) = (t.k : Int) then 0 else if off + (data.length : Int) < (t.k : Int) then -1 else 1 := by
    rw [hsim.seq, seqOf_end, W_eq_int, seqCompare_int _ _ (by omega) (by omega)]
    split <;> (try split) <;> (try split) <;> (try split) <;> omega
  by_cases hlt : off + (data.length : Int) < (t.k : Int)
  · have : seqCompare (wrap32 (seqOf isn off + data.length)) tw.seq < 0 := by
      rw [hc1, if_neg (by omega), if_pos hlt]; decide
    rw [if_pos this, if_pos hlt]
    exact ⟨hsim, rfl⟩
  · have : ¬ seqCompare (wrap32 (seqOf isn off + data.length)) tw.seq < 0 := by
      rw [hc1]; split <;> (try split) <;> omega
    rw [if_neg this, if_neg hlt]
    obtain ⟨hd1, hi⟩ := astored_DInv hinv off data hin hag hlt
    obtain ⟨hsum, hka, hoa, hmax, hsl⟩ := aData_ok hkN hin hag hlt
    have hc2 : seqCompare (seqOf isn off) tw.seq
        = if off = (t.k : Int) then 0 else if off < (t.k : Int) then -1 else 1 := by
      rw [hsim.seq, W_eq_int]
      unfold seqOf
      rw [seqCompare_int _ _ (by omega) (by omega)]
      split <;> (try split) <;> (try split) <;> (try split) <;> omega
    have hlt2 : seqCompare (seqOf isn off) tw.seq < 0 ↔ off < (t.k : Int) := by
      rw [hc2]; split <;> (try split) <;> omega
    have hseq : inSeq tw (seqOf isn off) = W isn (aStart t.k off) := by
      unfold inSeq aStart
      by_cases h1 : off < (t.k : Int)
      · rw [if_pos (hlt2.mpr h1), if_pos h1]; exact hsim.seq
      · rw [if_neg (fun h => h1 (hlt2.mp h)), if_neg h1]
        exact seqOf_nonneg isn (by omega)
    have hpay : inPayload tw (seqOf isn off) data = aData t.k off data := by
      unfold inPayload aData
      by_cases h1 : off < (t.k : Int)
      · rw [if_pos (hlt2.mpr h1), if_pos h1, hsim.seq, sub32_W_seqOf (by omega) (by omega)]
      · rw [if_neg (fun h => h1 (hlt2.mp h)), if_neg h1]
    have haN : aStart t.k off ≤ s.length := by omega
    have hbuf : (storedState tw (seqOf isn off) data).buf
        = mapW isn (astore false t.buf (aStart t.k off) (aData t.k off data)) := by
      unfold storedState
      rw [hseq, hpay]
      exact storePayload_mapW hN32 hb haN tw hsim.buf _
    have hsq : (storedState tw (seqOf isn off) data).seq = W isn t.k := by
      unfold storedState; rw [storePayload_seq]; exact hsim.seq
    have hsim1 : Sim isn (storedState tw (seqOf isn off) data)
        { t with buf := astore false t.buf (aStart t.k off) (aData t.k off data) } := by
      refine ⟨hsq, hbuf, ?_⟩
      unfold storedState; rw [storePayload_payload]; exact hsim.payload
    have hb1 : Bounded s.length (astore false t.buf (aStart t.k off) (aData t.k off data)) :=
      Bounded_astore hb (by omega)
    have hiter : (if (lookup (storedState tw (seqOf isn off) data).buf (storedState tw (seqOf isn off) data).seq).isSome
          then some (storedState tw (seqOf isn off) data).seq else none)
        = (if (lookup (astore false t.buf (aStart t.k off) (aData t.k off data)) t.k).isSome then some t.k else none).map
            (W isn) := by
      rw [hsq, hbuf, lookup_mapW hN32 hb1 hkN]
      split <;> rfl
    rw [hiter, hbuf, length_mapW]
    exact drain_sim hN _ _ _ _ _ hsim1 hd1 hi

end Tins.DT
