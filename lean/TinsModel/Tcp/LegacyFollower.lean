import TinsModel.Tcp.Legacy
/-
  Code-shaped model of the legacy `Tins::TCPStreamFollower` / `Tins::TCPStream` session handling
  (include/tins/tcp_stream.h: `TCPStreamFollower::callback`, src/tcp_stream.cpp: `TCPStream::TCPStream`,
  `TCPStream::update`, `TCPStream::StreamInfo::operator<`), statement for statement.  The per-direction
  reassembly is `genericProcess` (TinsModel/Tcp/Legacy.lean).

  Representation choices (validated by harness/c06_legacy.cpp on every run):
  * an `IPv4Address` is its `ip_addr_` member (a `uint32_t`, network byte order as stored; `operator<` and
    `operator==` compare that value), a port is a `uint16_t`;
  * `sessions_` (a `std::map<StreamInfo, TCPStream>`) is an association list; `find` is the `std::map` lookup
    under the equivalence induced by `StreamInfo::operator<` (`¬ a<b ∧ ¬ b<a`), which `SInfo.equiv_iff_eq`
    (LemmasFollower) shows to be equality of the four fields; `insert` happens only after two failed lookups;
  * `last_identifier_` is a `uint64_t`: `last_identifier_++` wraps;
  * the functors are an event trace; each event carries the stream as the functor sees it (by reference, at the
    time of the call);
  * `generic_process` sets `fin_sent_` on FIN or RST BEFORE it looks at the payload and handles the payload of
    that segment all the same; `tcp->release_inner_pdu()` is `none` for a TCP PDU without a `RawPDU` layer.
-/
namespace Tins.DT

/-- `TCPStream::StreamInfo` -/
structure SInfo where
  ca : Nat
  sa : Nat
  cp : Nat
  sp : Nat
deriving DecidableEq, Repr

/-- `StreamInfo::operator<` -/
def SInfo.lt (a b : SInfo) : Bool :=
  if a.ca = b.ca then
    if a.sa = b.sa then
      if a.cp = b.cp then decide (a.sp < b.sp)
      else decide (a.cp < b.cp)
    else decide (a.sa < b.sa)
  else decide (a.ca < b.ca)

/-- key equivalence of `std::map<StreamInfo, _>` -/
def SInfo.equiv (a b : SInfo) : Bool := !a.lt b && !b.lt a

/-- `std::swap(info.client_addr, info.server_addr); std::swap(info.client_port, info.server_port);` -/
def SInfo.swap (a : SInfo) : SInfo := ⟨a.sa, a.ca, a.sp, a.cp⟩

/-- what `TCPStreamFollower::callback` reads of a packet `IP / TCP [/ RawPDU]` -/
structure LPkt where
  src : Nat
  dst : Nat
  sport : Nat
  dport : Nat
  flags : Nat
  seq : Nat
  ack : Nat
  payload : Option Bytes
deriving Repr, DecidableEq

/-- `tcp->get_flag(F)` for the single-bit flags; `has_flags(SYN | ACK)` is both bits -/
def LPkt.fin (p : LPkt) : Bool := p.flags.testBit 0
def LPkt.syn (p : LPkt) : Bool := p.flags.testBit 1
def LPkt.rst (p : LPkt) : Bool := p.flags.testBit 2
def LPkt.ackf (p : LPkt) : Bool := p.flags.testBit 4

/-- `StreamInfo info(ip->src_addr(), ip->dst_addr(), tcp->sport(), tcp->dport())` -/
def LPkt.info (p : LPkt) : SInfo := ⟨p.src, p.dst, p.sport, p.dport⟩

/-- `TCPStream` -/
structure TStream where
  c : LStream            -- `client_seq_`, `client_frags_`, `client_payload_`
  s : LStream            -- `server_seq_`, `server_frags_`, `server_payload_`
  info : SInfo           -- `info_`
  id : Nat               -- `identifier_`
  synAck : Bool          -- `syn_ack_sent_`
  fin : Bool             -- `fin_sent_`
deriving Repr, DecidableEq

/-- `TCPStream::TCPStream(IP*, TCP*, identifier)` -/
def TStream.ofSyn (p : LPkt) (id : Nat) : TStream :=
  { c := LStream.init p.seq, s := LStream.init 0, info := p.info, id := id, synAck := false, fin := false }

/-- `generic_process` on one direction: FIN / RST mark the stream finished, then the payload (if any) is handled -/
def TStream.process (t : TStream) (client : Bool) (p : LPkt) : TStream × Bool :=
  let t1 := if p.fin || p.rst then { t with fin := true } else t
  match p.payload with
  | none => (t1, false)
  | some d =>
    if client then
      let r := genericProcess t1.c p.seq d
      ({ t1 with c := r.1 }, r.2)
    else
      let r := genericProcess t1.s p.seq d
      ({ t1 with s := r.1 }, r.2)

/-- `TCPStream::update(IP*, TCP*)` -/
def TStream.update (t : TStream) (p : LPkt) : TStream × Bool :=
  if !t.synAck then
    if p.syn && p.ackf then
      ({ t with s := { t.s with seq := wrap32 (p.seq + 1) }, c := { t.c with seq := p.ack }, synAck := true }, false)
    else (t, false)
  else
    t.process (p.src == t.info.ca && p.sport == t.info.cp) p

abbrev Sessions := List (SInfo × TStream)

/-- `sessions_.find(info)` -/
def sfind (m : Sessions) (k : SInfo) : Option (SInfo × TStream) :=
  match m with
  | [] => none
  | e :: r => if e.1.equiv k then some e else sfind r k

/-- `sessions_.erase(it)` for the iterator found under key `k` -/
def serase (m : Sessions) (k : SInfo) : Sessions := m.filter (fun e => !e.1.equiv k)

/-- `it->second = t` (the stream is updated in place) -/
def sset (m : Sessions) (k : SInfo) (t : TStream) : Sessions :=
  m.map (fun e => if e.1.equiv k then (e.1, t) else e)

structure LFollower where
  sessions : Sessions := []
  lastId : Nat := 0          -- `last_identifier_`
deriving Repr

/-- functor calls -/
inductive LEv
  | data (t : TStream)
  | fin (t : TStream)
deriving Repr, DecidableEq

/-- the tail of `callback` once the session has been found: `update`, data functor, end functor + erase -/
def LFollower.deliver (f : LFollower) (k : SInfo) (t : TStream) (p : LPkt) : LFollower × List LEv :=
  let r := t.update p
  let e1 := if r.2 then [LEv.data r.1] else []
  if r.1.fin then
    ({ f with sessions := serase f.sessions k }, e1 ++ [LEv.fin r.1])
  else
    ({ f with sessions := sset f.sessions k r.1 }, e1)

/-- `TCPStreamFollower::callback` for a PDU with an `IP` and a `TCP` layer -/
def LFollower.callback (f : LFollower) (p : LPkt) : LFollower × List LEv :=
  match sfind f.sessions p.info with
  | some e => f.deliver e.1 e.2 p
  | none =>
    match sfind f.sessions p.info.swap with
    | some e => f.deliver e.1 e.2 p
    | none =>
      if p.syn && !p.ackf then
        -- the stream is stored under the SWAPPED tuple; its own `info_` is the tuple of the SYN
        ({ sessions := f.sessions ++ [(p.info.swap, TStream.ofSyn p f.lastId)],
           lastId := (f.lastId + 1) % 18446744073709551616 }, [])
      else (f, [])

/-- the follower over a capture (oldest packet first), with the functor calls of each packet -/
def LFollower.run (f : LFollower) : List LPkt → LFollower × List (List LEv)
  | [] => (f, [])
  | p :: ps =>
    let r := f.callback p
    let r' := LFollower.run r.1 ps
    (r'.1, r.2 :: r'.2)

end Tins.DT
