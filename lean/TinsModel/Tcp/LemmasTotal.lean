import TinsModel.Tcp.LemmasModel
import TinsModel.Tcp.Spec
/-
  `total_buffered_bytes_` bookkeeping: in every state reachable through `process_payload` /
  `advance_sequence` (any arguments whatsoever) the counter equals the bytes actually held, modulo 2^32
  (the counter is a `uint32_t`).
-/
namespace Tins.DT

/-- keys are unique and the counter is the wrapped sum of the chunk sizes -/
def TotInv (t : Tracker) : Prop := (keys t.buf).Nodup ∧ t.total = wrap32 (sumSizes t.buf)

theorem TotInv_init (seq : Nat) : TotInv (Tracker.init seq) := by
  simp [TotInv, Tracker.init, keys, sumSizes, wrap32]

/-- `store_payload` changes the counter by exactly the change of the bytes held (mod 2^32) -/
theorem storePayload_delta {t : Tracker} (hn : (keys t.buf).Nodup) (seq : Nat) (p : Bytes) :
    wrap32 ((storePayload t seq p).total + sumSizes t.buf)
      = wrap32 (t.total + sumSizes (storePayload t seq p).buf) := by
  unfold storePayload; split
  · next hl =>
    have e : erase t.buf seq = t.buf := sumSizes_erase_of_not_mem (lookup_none_iff.mp hl)
    simp only [sumSizes_put, e]
    unfold wrap32; omega
  · next old hl =>
    split
    · next hlt =>
      have e := sumSizes_erase hn hl
      simp only [sumSizes_put]
      unfold wrap32; omega
    · rfl

theorem storePayload_total_lt {t : Tracker} (h : t.total < 4294967296) (seq : Nat) (p : Bytes) :
    (storePayload t seq p).total < 4294967296 := by
  unfold storePayload; split
  · exact wrap32_lt _
  · split
    · exact wrap32_lt _
    · exact h

theorem storePayload_TotInv {t : Tracker} (h : TotInv t) (seq : Nat) (p : Bytes) :
    TotInv (storePayload t seq p) := by
  obtain ⟨hn, ht⟩ := h
  refine ⟨storePayload_nodup hn seq p, ?_⟩
  have hd := storePayload_delta hn seq p
  have hlt := storePayload_total_lt (t := t) (by rw [ht]; exact wrap32_lt _) seq p
  rw [ht] at hd
  unfold wrap32 at hd ⊢; omega

theorem sliceState_TotInv {t : Tracker} (h : TotInv t) {key : Nat} {chunk : Bytes}
    (hl : lookup t.buf key = some chunk) (hne : key ≠ t.seq) : TotInv (sliceState t key chunk) := by
  obtain ⟨hn, ht⟩ := h
  have hsz := sumSizes_erase hn hl
  let t1 : Tracker := { t with total := sub32 t.total (wrap32 chunk.length) }
  have hn1 : (keys t1.buf).Nodup := hn
  have hn2 := storePayload_nodup hn1 t.seq (List.drop (sub32 t.seq key) chunk)
  have hd := storePayload_delta hn1 t.seq (List.drop (sub32 t.seq key) chunk)
  have hl2 : lookup (storePayload t1 t.seq (List.drop (sub32 t.seq key) chunk)).buf key = some chunk := by
    rw [storePayload_lookup_ne _ hne]; exact hl
  have hsz2 := sumSizes_erase hn2 hl2
  have hlt := storePayload_total_lt (t := t1) (by simp only [t1]; unfold sub32; omega) t.seq
    (List.drop (sub32 t.seq key) chunk)
  refine ⟨nodup_erase hn2 key, ?_⟩
  show sub32 (storePayload t1 t.seq (List.drop (sub32 t.seq key) chunk)).total (wrap32 0)
    = wrap32 (sumSizes (erase (storePayload t1 t.seq (List.drop (sub32 t.seq key) chunk)).buf key))
  have e1 : t1.total = sub32 t.total (wrap32 chunk.length) := rfl
  have e2 : t1.buf = t.buf := rfl
  rw [e1, e2, ht] at hd
  generalize (storePayload t1 t.seq (List.drop (sub32 t.seq key) chunk)).total = T2 at hd hlt ⊢
  generalize sumSizes (erase (storePayload t1 t.seq (List.drop (sub32 t.seq key) chunk)).buf key) = S3 at hsz2 ⊢
  generalize sumSizes (storePayload t1 t.seq (List.drop (sub32 t.seq key) chunk)).buf = S2 at hsz2 hd
  unfold sub32 wrap32 at *; omega

theorem discardState_TotInv {t : Tracker} (h : TotInv t) {key : Nat} {chunk : Bytes}
    (hl : lookup t.buf key = some chunk) : TotInv (discardState t key chunk) := by
  obtain ⟨hn, ht⟩ := h
  have hsz := sumSizes_erase hn hl
  refine ⟨nodup_erase hn key, ?_⟩
  show sub32 t.total (wrap32 chunk.length) = wrap32 (sumSizes (erase t.buf key))
  rw [ht]; unfold sub32 wrap32; omega

theorem deliverState_TotInv {t : Tracker} (h : TotInv t) {key : Nat} {chunk : Bytes}
    (hl : lookup t.buf key = some chunk) : TotInv (deliverState t key chunk) := by
  obtain ⟨hn, ht⟩ := h
  have hsz := sumSizes_erase hn hl
  refine ⟨nodup_erase hn key, ?_⟩
  show sub32 t.total (wrap32 chunk.length) = wrap32 (sumSizes (erase t.buf key))
  rw [ht]; unfold sub32 wrap32; omega

theorem drain_TotInv (fuel : Nat) (t : Tracker) (iter : Option Nat) (added : Bool) (h : TotInv t) :
    TotInv (drain fuel t iter added).1 := by
  induction fuel generalizing t iter added with
  | zero => exact h
  | succ fuel ih =>
    cases iter with
    | none => exact h
    | some key =>
      rw [drain_succ]
      split
      · exact h
      · next chunk hl =>
        split
        · split
          · next hlt =>
            split
            · exact ih _ _ _ (sliceState_TotInv h hl (ne_of_seqCompare_neg hlt))
            · exact ih _ _ _ (discardState_TotInv h hl)
          · exact ih _ _ _ (deliverState_TotInv h hl)
        · exact h

theorem processPayload_TotInv {t : Tracker} (h : TotInv t) (seq : Nat) (p : Bytes) :
    TotInv (processPayload t seq p).1 := by
  rw [processPayload_eq]
  split
  · exact h
  · exact drain_TotInv _ _ _ _ (storePayload_TotInv h _ _)

theorem filter_sumSizes_foldl (l : Chunks) (q : Nat × Bytes → Bool) (T S : Nat) (hT : T = wrap32 S)
    (hS : sumSizes (l.filter q) ≤ S) :
    (l.filter q).foldl (fun tot p => sub32 tot (wrap32 p.2.length)) T = wrap32 (S - sumSizes (l.filter q)) := by
  induction l generalizing T S with
  | nil => simpa [sumSizes] using hT
  | cons c r ih =>
    simp only [List.filter_cons]
    split
    · simp only [List.foldl_cons]
      have hc : sumSizes (c :: r.filter q) = c.2.length + sumSizes (r.filter q) := sumSizes_cons _ _
      have : sumSizes (List.filter q (c :: r)) = c.2.length + sumSizes (r.filter q) := by
        simp only [List.filter_cons, *]; exact hc
      rw [this] at hS
      rw [ih (sub32 T (wrap32 c.2.length)) (S - c.2.length) (by rw [hT]; unfold sub32 wrap32; omega) (by omega)]
      rw [hc]; congr 1; omega
    · next hq =>
      have : sumSizes (List.filter q (c :: r)) = sumSizes (r.filter q) := by
        simp only [List.filter_cons, *]; rfl
      rw [this] at hS
      exact ih T S hT hS

theorem sumSizes_filter_partition (l : Chunks) (q : Nat × Bytes → Bool) :
    sumSizes (l.filter q) + sumSizes (l.filter (fun p => !q p)) = sumSizes l := by
  induction l with
  | nil => rfl
  | cons c r ih =>
    simp only [List.filter_cons]
    cases hq : q c <;> simp [sumSizes_cons] <;> omega

theorem advanceSequence_TotInv {t : Tracker} (h : TotInv t) (seq : Nat) : TotInv (advanceSequence t seq) := by
  unfold advanceSequence
  split
  · exact h
  · obtain ⟨hn, ht⟩ := h
    refine ⟨?_, ?_⟩
    · show (keys (t.buf.filter _)).Nodup
      unfold keys at hn ⊢
      exact (List.Nodup.sublist (List.Sublist.map _ List.filter_sublist) hn)
    · have hp := sumSizes_filter_partition t.buf (fun p => decide (seqCompare p.1 seq ≤ 0))
      show List.foldl _ t.total (t.buf.filter _) = wrap32 (sumSizes (t.buf.filter _))
      rw [filter_sumSizes_foldl t.buf _ t.total (sumSizes t.buf) ht (by omega)]
      congr 1; omega

theorem applyOp_TotInv {t : Tracker} (h : TotInv t) (op : Op) : TotInv (applyOp t op) := by
  cases op with
  | seg q p => exact processPayload_TotInv h q p
  | adv q => exact advanceSequence_TotInv h q

theorem foldl_applyOp_TotInv (ops : List Op) {t : Tracker} (h : TotInv t) : TotInv (ops.foldl applyOp t) := by
  induction ops generalizing t with
  | nil => exact h
  | cons op r ih => exact ih (applyOp_TotInv h op)

/-! ### delivery is append-only (for any arguments whatsoever) -/

theorem drain_payload_append (fuel : Nat) (t : Tracker) (iter : Option Nat) (added : Bool) :
    ∃ d, (drain fuel t iter added).1.payload = t.payload ++ d := by
  induction fuel generalizing t iter added with
  | zero => exact ⟨[], by simp [drain_zero]⟩
  | succ fuel ih =>
    cases iter with
    | none => exact ⟨[], by simp [drain_none]⟩
    | some key =>
      rw [drain_succ]
      split
      · exact ⟨[], by simp⟩
      · next chunk hl =>
        split
        · split
          · split
            · obtain ⟨d, hd⟩ := ih (sliceState t key chunk) (cyclicSucc (sliceState t key chunk).buf key) added
              refine ⟨d, ?_⟩
              rw [hd]
              show (storePayload _ _ _).payload ++ d = _
              rw [storePayload_payload]
            · exact ih (discardState t key chunk) _ added
          · obtain ⟨d, hd⟩ := ih (deliverState t key chunk) (cyclicSucc (deliverState t key chunk).buf key)
              (added || !chunk.isEmpty)
            refine ⟨chunk ++ d, ?_⟩
            rw [hd]
            show (t.payload ++ chunk) ++ d = _
            rw [List.append_assoc]
        · exact ⟨[], by simp⟩

theorem processPayload_payload_append (t : Tracker) (seq : Nat) (p : Bytes) :
    ∃ d, (processPayload t seq p).1.payload = t.payload ++ d := by
  rw [processPayload_eq]
  split
  · exact ⟨[], by simp⟩
  · obtain ⟨d, hd⟩ := drain_payload_append (2 * (storedState t seq p).buf.length + 2) (storedState t seq p)
      (if (lookup (storedState t seq p).buf (storedState t seq p).seq).isSome then some (storedState t seq p).seq else none)
      false
    refine ⟨d, ?_⟩
    rw [hd]
    unfold storedState
    rw [storePayload_payload]

/-! ### the result of `process_payload` is exactly "the delivered data grew" (for any arguments) -/

theorem drain_flag (fuel : Nat) (t : Tracker) (iter : Option Nat) (added : Bool) :
    (drain fuel t iter added).2
      = (added || decide (t.payload.length < (drain fuel t iter added).1.payload.length)) := by
  induction fuel generalizing t iter added with
  | zero => simp [drain_zero]
  | succ fuel ih =>
    cases iter with
    | none => simp [drain_none]
    | some key =>
      rw [drain_succ]
      split
      · simp
      · next chunk hl =>
        split
        · split
          · split
            · rw [ih]
              have : (sliceState t key chunk).payload = t.payload := by
                show (storePayload _ _ _).payload = _
                rw [storePayload_payload]
              rw [this]
            · rw [ih]; rfl
          · rw [ih]
            obtain ⟨d, hd⟩ := drain_payload_append fuel (deliverState t key chunk)
              (cyclicSucc (deliverState t key chunk).buf key) (added || !chunk.isEmpty)
            rw [hd]
            have e : (deliverState t key chunk).payload = t.payload ++ chunk := rfl
            rw [e]
            cases chunk with
            | nil => simp
            | cons x xs => simp
        · simp

/-- `process_payload` returns true iff data was appended to the delivered payload -/
theorem processPayload_flag (t : Tracker) (seq : Nat) (p : Bytes) :
    (processPayload t seq p).2 = decide (t.payload.length < (processPayload t seq p).1.payload.length) := by
  rw [processPayload_eq]
  split
  · simp
  · rw [drain_flag]
    have : (storedState t seq p).payload = t.payload := by
      unfold storedState; rw [storePayload_payload]
    rw [this]; simp

end Tins.DT
