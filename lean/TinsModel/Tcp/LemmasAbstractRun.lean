import TinsModel.Tcp.LemmasAbstract
import TinsModel.Tcp.Spec
/-
  The abstract tracker satisfies the spec after every arrival: the drain loop ends with its invariant and with
  nothing at or below the delivery point (the fuel `2·|map|+2` suffices), `aprocess` keeps `AInv` when the
  arrived set grows by the new segment, and `AInv` pins the delivery point to `frontier`.
-/
namespace Tins.DT

variable {tie : Bool}

theorem adrain_none (fuel : Nat) (t : ATracker) (added : Bool) : adrain tie fuel t none added = (t, added) := by
  cases fuel <;> rfl

theorem adrain_succ (fuel : Nat) (t : ATracker) (a : Nat) (added : Bool) :
    adrain tie (fuel + 1) t (some a) added =
      match lookup t.buf a with
      | none => (t, added)
      | some chunk =>
        if a ≤ t.k then
          if a < t.k then
            if t.k < a + chunk.length then
              adrain tie fuel { t with buf := erase (astore tie t.buf t.k (chunk.drop (t.k - a))) a }
                (minKey? (keys (erase (astore tie t.buf t.k (chunk.drop (t.k - a))) a))) added
            else
              adrain tie fuel { t with buf := erase t.buf a } (minKey? (keys (erase t.buf a))) added
          else
            adrain tie fuel { k := t.k + chunk.length, payload := t.payload ++ chunk, buf := erase t.buf a }
              (minKey? (keys (erase t.buf a))) (added || !chunk.isEmpty)
        else (t, added) := by
  rfl

theorem IterOK_min (t : ATracker) : IterOK t (minKey? (keys t.buf)) := by
  cases h : minKey? (keys t.buf) with
  | none =>
    intro c hc
    rw [minKey?_eq_none_iff] at h
    have := mem_keys_of_mem hc
    rw [h] at this; cases this
  | some a => exact h

theorem mu_le (t : ATracker) : mu t ≤ 2 * t.buf.length + 1 := by
  unfold mu; split <;> omega

theorem le_mu (t : ATracker) : 2 * t.buf.length ≤ mu t := by
  unfold mu; omega

/-- The drain loop, started at the least key with enough fuel, ends with the invariant and with every
    remaining chunk strictly above the delivery point. -/
theorem adrain_AInv {s : Bytes} {cov : Nat → Prop} (fuel : Nat) (t : ATracker) (iter : Option Nat) (added : Bool)
    (h : DInv s cov t) (hi : IterOK t iter) (hf : mu t < fuel) :
    AInv s cov (adrain tie fuel t iter added).1 := by
  induction fuel generalizing t iter added with
  | zero => omega
  | succ fuel ih =>
    cases iter with
    | none => rw [adrain_none]; exact ⟨h, hi⟩
    | some a =>
      rw [adrain_succ]
      have hmin := minKey?_spec hi
      split
      · next hl => exact absurd hmin.1 (lookup_none_iff.mp hl)
      · next chunk hl =>
        have hlen := length_erase_eq h.nodup hmin.1
        split
        · next hak =>
          split
          · next hlt =>
            split
            · next hend =>
              refine ih _ _ _ (DInv_slice h hl hlt hend) (IterOK_min _) ?_
              have hA := length_astore (tie := tie) h.nodup t.k (chunk.drop (t.k - a))
              have haA : a ∈ keys (astore tie t.buf t.k (chunk.drop (t.k - a))) := mem_keys_astore.mpr (Or.inr hmin.1)
              have hE := length_erase_eq (nodup_astore h.nodup _ _) haA
              have hK : t.k ∈ keys (erase (astore tie t.buf t.k (chunk.drop (t.k - a))) a) :=
                mem_keys_erase.mpr ⟨mem_keys_astore.mpr (Or.inl rfl), by omega⟩
              have hmu : mu { t with buf := erase (astore tie t.buf t.k (chunk.drop (t.k - a))) a }
                  = 2 * (erase (astore tie t.buf t.k (chunk.drop (t.k - a))) a).length := by
                unfold mu; simp only [hK, if_true]; omega
              rw [hmu]
              unfold mu at hf
              split at hA <;> simp_all <;> omega
            · next hend =>
              refine ih _ _ _ (DInv_discard h hl (by omega)) (IterOK_min _) ?_
              have h1 := mu_le { t with buf := erase t.buf a }
              have h2 := le_mu t
              simp only at h1; omega
          · next hnlt =>
            have hak' : a = t.k := by omega
            subst hak'
            refine ih _ _ _ (DInv_deliver h hl) (IterOK_min _) ?_
            have h1 := mu_le { k := t.k + chunk.length, payload := t.payload ++ chunk, buf := erase t.buf t.k }
            have h2 := le_mu t
            simp only at h1; omega
        · next hak =>
          refine ⟨h, fun c hc => ?_⟩
          have := hmin.2 c.1 (mem_keys_of_mem hc)
          show t.k < c.1
          omega

theorem DInv.mono {s : Bytes} {cov cov' : Nat → Prop} {t : ATracker} (h : DInv s cov t)
    (hsub : ∀ p, cov p → cov' p) (hcov : ∀ p, t.k ≤ p → cov' p → ∃ c ∈ t.buf, Covers c p) : DInv s cov' t :=
  ⟨h.k_le, h.payload_eq, fun p hp => hsub p (h.below p hp), h.nodup,
   fun c hc => ⟨(h.chunks c hc).inside, (h.chunks c hc).agrees, fun p hp => hsub p ((h.chunks c hc).arrived p hp)⟩,
   hcov⟩

/-- what a valid segment contributes once cut at the delivery point -/
theorem aData_ok {s : Bytes} {k : Nat} {off : Int} {data : Bytes} (_hk : k ≤ s.length)
    (_hin : off + (data.length : Int) ≤ (s.length : Int)) (hag : (SegD.mk off data).agrees s)
    (hnot : ¬ off + (data.length : Int) < (k : Int)) :
    (aStart k off : Int) + ((aData k off data).length : Int) = off + (data.length : Int) ∧
    k ≤ aStart k off ∧ (off ≤ (aStart k off : Int)) ∧
    (∀ p : Nat, k ≤ p → off ≤ (p : Int) → aStart k off ≤ p) ∧
    aData k off data = slice s (aStart k off) (aData k off data).length := by
  unfold SegD.agrees at hag
  simp only at hag
  unfold aStart aData
  split
  · next hlt =>
    have hlen : (data.drop ((k : Int) - off).toNat).length = data.length - ((k : Int) - off).toNat := List.length_drop
    refine ⟨by omega, Nat.le_refl _, by omega, fun p h1 _ => h1, ?_⟩
    have e1 : ((k : Int) - off).toNat = (-off).toNat + (k - off.toNat) := by omega
    rw [hlen, e1, ← List.drop_drop, hag, List.drop_take, List.drop_drop]
    unfold slice
    congr 1
    · omega
    · congr 1; omega
  · next hge =>
    have h0 : (-off).toNat = 0 := by omega
    rw [h0] at hag
    simp only [List.drop_zero, Nat.sub_zero] at hag
    refine ⟨by omega, by omega, by omega, fun p _ h2 => by omega, ?_⟩
    unfold slice; exact hag

/-- the state `aprocess` hands to the drain loop (segment stored): loop invariant and iterator -/
theorem astored_DInv {s : Bytes} {cov : Nat → Prop} {t : ATracker} (h : AInv s cov t) (off : Int) (data : Bytes)
    (hin : off + (data.length : Int) ≤ (s.length : Int)) (hag : (SegD.mk off data).agrees s)
    (hnot : ¬ off + (data.length : Int) < (t.k : Int)) :
    DInv s (fun p => (off ≤ (p : Int) ∧ (p : Int) < off + (data.length : Int)) ∨ cov p)
      { t with buf := astore tie t.buf (aStart t.k off) (aData t.k off data) } ∧
    IterOK { t with buf := astore tie t.buf (aStart t.k off) (aData t.k off data) }
      (if (lookup (astore tie t.buf (aStart t.k off) (aData t.k off data)) t.k).isSome then some t.k else none) := by
  obtain ⟨hd, habove⟩ := h
  obtain ⟨hsum, hka, hoa, hmax, hsl⟩ := aData_ok hd.k_le hin hag hnot
  generalize aStart t.k off = a at *
  generalize aData t.k off data = d at *
  have hnew : ChunkOK s (fun p => (off ≤ (p : Int) ∧ (p : Int) < off + (data.length : Int)) ∨ cov p) (a, d) := by
    refine ⟨by simp only; omega, hsl, ?_⟩
    intro p hp
    unfold Covers at hp; simp only at hp
    exact Or.inl (by omega)
  have hd1 : DInv s (fun p => (off ≤ (p : Int) ∧ (p : Int) < off + (data.length : Int)) ∨ cov p)
      { t with buf := astore tie t.buf a d } := by
    refine ⟨hd.k_le, hd.payload_eq, fun p hp => Or.inr (hd.below p hp), nodup_astore hd.nodup _ _, ?_, ?_⟩
    · intro c hc
      rcases mem_astore hc with hc | hc
      · have := hd.chunks c hc
        exact ⟨this.inside, this.agrees, fun p hp => Or.inr (this.arrived p hp)⟩
      · rw [hc]; exact hnew
    · intro p hp hc
      have hp : t.k ≤ p := hp
      rcases hc with hc | hc
      · have : Covers (a, d) p := by
          have := hmax p hp hc.1
          unfold Covers; simp only; omega
        obtain ⟨c', hc', _, hcp⟩ := astore_covers_new t.buf this
        exact ⟨c', hc', hcp⟩
      · obtain ⟨c, hc1, hcp⟩ := hd.covers p hp hc
        obtain ⟨c', hc', _, hcp'⟩ := astore_covers_old hd.nodup a d hc1 hcp
        exact ⟨c', hc', hcp'⟩
  have hkeys : ∀ c ∈ astore tie t.buf a d, t.k ≤ c.1 := by
    intro c hc
    rcases mem_astore hc with hc | hc
    · have := habove c hc; omega
    · rw [hc]; exact hka
  refine ⟨hd1, ?_⟩
  split
  · next hsome =>
    have hm := lookup_isSome_iff.mp hsome
    show minKey? (keys (astore tie t.buf a d)) = some t.k
    refine minKey?_of_spec hm ?_
    intro x hx
    obtain ⟨dd, hdd⟩ := mem_keys.mp hx
    exact hkeys _ hdd
  · next hnone =>
    intro c hc
    have h1 := hkeys c hc
    have h2 : c.1 ≠ t.k := by
      intro e
      apply hnone
      exact lookup_isSome_iff.mpr (e ▸ mem_keys_of_mem hc)
    show t.k < c.1
    omega

/-- `process_payload` on the abstract tracker keeps the invariant when the arrived set grows by the segment -/
theorem aprocess_AInv {s : Bytes} {cov : Nat → Prop} {t : ATracker} (h : AInv s cov t) (off : Int) (data : Bytes)
    (hin : off + (data.length : Int) ≤ (s.length : Int)) (hag : (SegD.mk off data).agrees s) :
    AInv s (fun p => (off ≤ (p : Int) ∧ (p : Int) < off + (data.length : Int)) ∨ cov p) (aprocess tie t off data).1 := by
  unfold aprocess
  split
  · next hlt =>
    obtain ⟨hd, habove⟩ := h
    refine ⟨hd.mono (fun p hp => Or.inr hp) ?_, habove⟩
    intro p hp hc
    rcases hc with hc | hc
    · omega
    · exact hd.covers p hp hc
  · next hnot =>
    obtain ⟨hd1, hi⟩ := astored_DInv h off data hin hag hnot
    refine adrain_AInv _ _ _ _ hd1 hi ?_
    have := mu_le { t with buf := astore tie t.buf (aStart t.k off) (aData t.k off data) }
    simp only at this ⊢; omega

/-! ### the delivery point is the frontier of the arrived set -/

theorem frontier_eq (h : List Seg) (n k : Nat) (hk : k ≤ n) (hbelow : ∀ p, p < k → covered h p = true)
    (hat : k = n ∨ covered h k = false) : frontier h n = k := by
  induction n generalizing k with
  | zero => simp only [frontier]; omega
  | succ n ih =>
    simp only [frontier]
    by_cases hkn : k = n + 1
    · subst hkn
      have e := ih n (Nat.le_refl _) (fun p hp => hbelow p (by omega)) (Or.inl rfl)
      rw [e]
      simp [hbelow n (by omega)]
    · have hc : covered h k = false := by
        rcases hat with hat | hat
        · exact absurd hat hkn
        · exact hat
      have e := ih k (by omega) hbelow (Or.inr hc)
      rw [e]
      by_cases hlt : k < n
      · simp [hlt]
      · have : k = n := by omega
        subst this
        simp [hc]

theorem AInv_frontier {s : Bytes} {h : List Seg} {t : ATracker} (hinv : AInv s (fun p => covered h p = true) t) :
    frontier h s.length = t.k := by
  obtain ⟨hd, habove⟩ := hinv
  refine frontier_eq h _ _ hd.k_le hd.below ?_
  by_cases hk : t.k = s.length
  · exact Or.inl hk
  · right
    cases hc : covered h t.k with
    | false => rfl
    | true =>
      obtain ⟨c, hc1, hcp⟩ := hd.covers t.k (Nat.le_refl _) hc
      have := habove c hc1
      unfold Covers at hcp; omega

/-- the abstract tracker run over an arrival history (latest arrival first) -/
def runAbstract (tie : Bool) : List SegD → ATracker
  | [] => ATracker.init
  | g :: h => (aprocess tie (runAbstract tie h) g.off g.data).1

theorem AInv_init (s : Bytes) : AInv s (fun p => covered [] p = true) ATracker.init := by
  refine ⟨⟨Nat.zero_le _, rfl, ?_, ?_, ?_, ?_⟩, ?_⟩
  · intro p hp; exact absurd hp (Nat.not_lt_zero _)
  · simp [ATracker.init, keys]
  · intro c hc; cases hc
  · intro p _ hc; simp [covered] at hc
  · intro c hc; cases hc

theorem AInv.congr {s : Bytes} {cov cov' : Nat → Prop} {t : ATracker} (h : AInv s cov t)
    (hiff : ∀ p, cov p ↔ cov' p) : AInv s cov' t :=
  ⟨h.1.mono (fun p hp => (hiff p).mp hp) (fun p hp hc => h.1.covers p hp ((hiff p).mpr hc)), h.2⟩

theorem runAbstract_AInv {s : Bytes} {h : List SegD} (hok : HistOK s h) :
    AInv s (fun p => covered (h.map SegD.seg) p = true) (runAbstract tie h) := by
  induction h with
  | nil => exact AInv_init s
  | cons g h ih =>
    obtain ⟨⟨_, hin, hag⟩, hrest⟩ := hok
    have := aprocess_AInv (tie := tie) (ih hrest) g.off g.data hin hag
    refine this.congr ?_
    intro p
    simp [covered, SegD.seg]

end Tins.DT
