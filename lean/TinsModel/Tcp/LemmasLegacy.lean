import TinsModel.Tcp.LemmasSim
import TinsModel.Tcp.Legacy
/-
  The legacy `TCPStream` (model `LStream`, `genericProcess`) simulates the same abstract tracker with the
  equal-length tie-break set to "replace" (`astore true`), hence gives the same delivery guarantee.
-/
namespace Tins.DT

structure LSim (isn : Nat) (lt : LStream) (t : ATracker) : Prop where
  seq : lt.seq = W isn t.k
  frags : lt.frags = mapW isn t.buf
  payload : lt.payload = t.payload

theorem ldrain_none (fuel : Nat) (t : LStream) (added : Bool) : ldrain fuel t none added = (t, added) := by
  cases fuel <;> rfl

theorem ldrain_succ (fuel : Nat) (t : LStream) (key : Nat) (added : Bool) :
    ldrain (fuel + 1) t (some key) added =
      match lookup t.frags key with
      | none => (t, added)
      | some chunk =>
        if seqCompare key t.seq ≤ 0 then
          if seqCompare key t.seq < 0 then
            if seqCompare (wrap32 (key + chunk.length)) t.seq > 0 then
              ldrain fuel { t with frags := erase (safeInsert t.frags t.seq (chunk.drop (sub32 t.seq key))) key }
                (cyclicSucc (erase (safeInsert t.frags t.seq (chunk.drop (sub32 t.seq key))) key) key) added
            else
              ldrain fuel { t with frags := erase t.frags key } (cyclicSucc (erase t.frags key) key) added
          else
            if (erase t.frags key).isEmpty then
              ({ seq := wrap32 (t.seq + chunk.length), frags := erase t.frags key, payload := t.payload ++ chunk },
                added || !chunk.isEmpty)
            else
              ldrain fuel { seq := wrap32 (t.seq + chunk.length), frags := erase t.frags key,
                            payload := t.payload ++ chunk }
                (cyclicSucc (erase t.frags key) key) (added || !chunk.isEmpty)
        else (t, added) := by
  rfl

/-- `safe_insert` on the wrapped map is `astore true` on the abstract one -/
theorem safeInsert_mapW {isn N : Nat} (hN : N < 4294967296) {b : Chunks} (hb : Bounded N b) {a : Nat} (ha : a ≤ N)
    (d : Bytes) : safeInsert (mapW isn b) (W isn a) d = mapW isn (astore true b a d) := by
  unfold safeInsert astore
  rw [lookup_mapW hN hb ha]
  cases lookup b a with
  | none => exact put_mapW hN hb ha d
  | some old =>
    simp only [Bool.true_and, Bool.or_eq_true, decide_eq_true_eq, beq_iff_eq]
    by_cases h : old.length > d.length
    · rw [if_pos h, if_neg (by omega)]
    · rw [if_neg h, if_pos (by omega)]
      exact put_mapW hN hb ha d

/-- the drain loop of the legacy stream moves in lock-step with the abstract one -/
theorem ldrain_sim {s : Bytes} {cov : Nat → Prop} {isn : Nat} (hN : s.length < 2147483648)
    (fuel : Nat) (lt : LStream) (t : ATracker) (iter : Option Nat) (added : Bool)
    (hsim : LSim isn lt t) (hd : DInv s cov t) (hi : IterOK t iter) :
    LSim isn (ldrain fuel lt (iter.map (W isn)) added).1 (adrain true fuel t iter added).1 ∧
    (ldrain fuel lt (iter.map (W isn)) added).2 = (adrain true fuel t iter added).2 := by
  induction fuel generalizing lt t iter added with
  | zero => exact ⟨hsim, rfl⟩
  | succ fuel ih =>
    cases iter with
    | none => simp only [Option.map_none, ldrain_none, adrain_none]; exact ⟨hsim, trivial⟩
    | some a =>
      have hmin := minKey?_spec hi
      have hb : Bounded s.length t.buf := fun c hc => (hd.chunks c hc).inside
      obtain ⟨da, hda⟩ := mem_keys.mp hmin.1
      have haN : a ≤ s.length := hb.key_le hda
      have hkN : t.k ≤ s.length := hd.k_le
      have hendN : a + da.length ≤ s.length := hb _ hda
      have hN32 : s.length < 4294967296 := by omega
      have hl := lookup_of_mem hd.nodup hda
      simp only [Option.map_some]
      rw [ldrain_succ, adrain_succ, hsim.frags, lookup_mapW hN32 hb haN, hl]
      simp only
      rw [hsim.seq]
      rcases Nat.lt_trichotomy a t.k with hlt | heq | hgt
      · rw [seqCompare_W_lt hN haN hkN hlt, wrap32_W_add]
        by_cases hend : t.k < a + da.length
        · -- slice
          rw [seqCompare_W_gt hN hendN hkN hend]
          simp only [show ((-1 : Int) ≤ 0) from by decide, show ((-1 : Int) < 0) from by decide,
            show ((1 : Int) > 0) from by decide, if_true, hlt, hend, Nat.le_of_lt hlt]
          rw [sub32_W (by omega) (by omega), safeInsert_mapW hN32 hb hkN]
          have hba : Bounded s.length (astore true t.buf t.k (da.drop (t.k - a))) := by
            apply Bounded_astore hb
            rw [List.length_drop]; omega
          rw [erase_mapW hN32 hba haN]
          have hsim' : LSim isn
              { seq := W isn t.k, frags := mapW isn (erase (astore true t.buf t.k (da.drop (t.k - a))) a), payload := lt.payload }
              { t with buf := erase (astore true t.buf t.k (da.drop (t.k - a))) a } :=
            ⟨rfl, rfl, hsim.payload⟩
          have hit : cyclicSucc (mapW isn (erase (astore true t.buf t.k (da.drop (t.k - a))) a)) (W isn a)
              = (minKey? (keys (erase (astore true t.buf t.k (da.drop (t.k - a))) a))).map (W isn) := by
            apply cyclicSucc_mapW hN32
            intro x hx
            obtain ⟨h1, h2⟩ := mem_keys_erase.mp hx
            obtain ⟨dx, hdx⟩ := mem_keys.mp h1
            refine ⟨?_, hba.key_le hdx⟩
            rcases mem_keys_astore.mp h1 with h3 | h3
            · omega
            · have := hmin.2 x h3; omega
          rw [hit]
          exact ih _ _ _ _ hsim' (DInv_slice hd hl hlt hend) (IterOK_min _)
        · -- discard
          have hc : seqCompare (W isn (a + da.length)) (W isn t.k) ≤ 0 := by
            rw [seqCompare_W hN hendN hkN]; split <;> (try split) <;> omega
          simp only [show ((-1 : Int) ≤ 0) from by decide, show ((-1 : Int) < 0) from by decide,
            if_true, hlt, hend, Nat.le_of_lt hlt, if_false, show ¬ (seqCompare (W isn (a + da.length)) (W isn t.k) > 0)
              from by omega]
          rw [erase_mapW hN32 hb haN]
          have hsim' : LSim isn { seq := W isn t.k, frags := mapW isn (erase t.buf a), payload := lt.payload }
              { t with buf := erase t.buf a } :=
            ⟨rfl, rfl, hsim.payload⟩
          have hit : cyclicSucc (mapW isn (erase t.buf a)) (W isn a)
              = (minKey? (keys (erase t.buf a))).map (W isn) := by
            apply cyclicSucc_mapW hN32
            intro x hx
            obtain ⟨dx, hdx⟩ := mem_keys.mp hx
            exact ⟨keys_above_erase hd.nodup hmin.2 x hx, (Bounded_erase hb a).key_le hdx⟩
          rw [hit]
          exact ih _ _ _ _ hsim' (DInv_discard hd hl (by omega)) (IterOK_min _)
      · -- deliver
        subst heq
        rw [seqCompare_self]
        simp only [show ((0 : Int) ≤ 0) from by decide, show ¬ ((0 : Int) < 0) from by decide, if_true, if_false,
          Nat.le_refl, Nat.lt_irrefl]
        rw [erase_mapW hN32 hb haN, wrap32_W_add, hsim.payload]
        have hsim' : LSim isn { seq := W isn (t.k + da.length), frags := mapW isn (erase t.buf t.k),
                                payload := t.payload ++ da }
            { k := t.k + da.length, payload := t.payload ++ da, buf := erase t.buf t.k } := ⟨rfl, rfl, rfl⟩
        by_cases hempty : (mapW isn (erase t.buf t.k)).isEmpty = true
        · rw [if_pos hempty]
          have he : erase t.buf t.k = [] := by
            cases h : erase t.buf t.k with
            | nil => rfl
            | cons c r => rw [h] at hempty; simp [mapW] at hempty
          rw [he]
          simp only [keys, List.map_nil, minKey?, adrain_none]
          rw [he] at hsim'
          exact ⟨hsim', trivial⟩
        · rw [if_neg hempty]
          have hit : cyclicSucc (mapW isn (erase t.buf t.k)) (W isn t.k)
              = (minKey? (keys (erase t.buf t.k))).map (W isn) := by
            apply cyclicSucc_mapW hN32
            intro x hx
            obtain ⟨dx, hdx⟩ := mem_keys.mp hx
            exact ⟨keys_above_erase hd.nodup hmin.2 x hx, (Bounded_erase hb t.k).key_le hdx⟩
          rw [hit]
          exact ih _ _ _ _ hsim' (DInv_deliver hd hl) (IterOK_min _)
      · rw [seqCompare_W_gt hN haN hkN hgt]
        simp only [show ¬ ((1 : Int) ≤ 0) from by decide, if_false, show ¬ (a ≤ t.k) from by omega]
        exact ⟨hsim, trivial⟩

def lSeq (t : LStream) (seq : Nat) : Nat := if seqCompare seq t.seq < 0 then t.seq else seq
def lPayload (t : LStream) (seq : Nat) (payload : Bytes) : Bytes :=
  if seqCompare seq t.seq < 0 then payload.drop (sub32 t.seq seq) else payload

theorem genericProcess_eq (t : LStream) (seq : Nat) (payload : Bytes) :
    genericProcess t seq payload =
      if seqCompare (wrap32 (seq + payload.length)) t.seq ≥ 0 then
        ldrain (2 * (safeInsert t.frags (lSeq t seq) (lPayload t seq payload)).length + 2)
          { t with frags := safeInsert t.frags (lSeq t seq) (lPayload t seq payload) }
          (if (lookup (safeInsert t.frags (lSeq t seq) (lPayload t seq payload)) t.seq).isSome then some t.seq else none)
          false
      else (t, false) := by
  unfold genericProcess lSeq lPayload
  by_cases h1 : seqCompare (wrap32 (seq + payload.length)) t.seq ≥ 0
  · by_cases h2 : seqCompare seq t.seq < 0 <;> simp only [h1, h2, if_true, if_false]
  · simp only [h1, if_false]

/-- `generic_process` of the legacy stream moves in lock-step with the abstract tracker (tie-break "replace") -/
theorem genericProcess_sim {s : Bytes} {cov : Nat → Prop} {isn : Nat} (hN : s.length < 2147483648)
    {lt : LStream} {t : ATracker} (hsim : LSim isn lt t) (hinv : AInv s cov t) (off : Int) (data : Bytes)
    (hwin : (t.k : Int) - off < 2147483648)
    (hin : off + (data.length : Int) ≤ (s.length : Int)) (hag : (SegD.mk off data).agrees s) :
    LSim isn (genericProcess lt (seqOf isn off) data).1 (aprocess true t off data).1 ∧
    (genericProcess lt (seqOf isn off) data).2 = (aprocess true t off data).2 := by
  have hkN : t.k ≤ s.length := hinv.1.k_le
  have hb : Bounded s.length t.buf := fun c hc => (hinv.1.chunks c hc).inside
  have hN32 : s.length < 4294967296 := by omega
  rw [genericProcess_eq]
  unfold aprocess
  have hc1 := chunkEnd_compare (isn := isn) (n := data.length) hN hkN hwin hin
  rw [← hsim.seq] at hc1
  by_cases hlt : off + (data.length : Int) < (t.k : Int)
  · have : ¬ seqCompare (wrap32 (seqOf isn off + data.length)) lt.seq ≥ 0 := by
      rw [hc1, if_neg (by omega), if_pos hlt]; decide
    rw [if_neg this, if_pos hlt]
    exact ⟨hsim, rfl⟩
  · have : seqCompare (wrap32 (seqOf isn off + data.length)) lt.seq ≥ 0 := by
      rw [hc1]; split <;> (try split) <;> omega
    rw [if_pos this, if_neg hlt]
    obtain ⟨hd1, hi⟩ := astored_DInv (tie := true) hinv off data hin hag hlt
    obtain ⟨hsum, hka, hoa, hmax, hsl⟩ := aData_ok hkN hin hag hlt
    have hc2 := start_compare (isn := isn) (n := data.length) hN hkN hwin hin
    rw [← hsim.seq] at hc2
    have hlt2 : seqCompare (seqOf isn off) lt.seq < 0 ↔ off < (t.k : Int) := by
      rw [hc2]; split <;> (try split) <;> omega
    have hseq : lSeq lt (seqOf isn off) = W isn (aStart t.k off) := by
      unfold lSeq aStart
      by_cases h1 : off < (t.k : Int)
      · rw [if_pos (hlt2.mpr h1), if_pos h1]; exact hsim.seq
      · rw [if_neg (fun h => h1 (hlt2.mp h)), if_neg h1]
        exact seqOf_nonneg isn (by omega)
    have hpay : lPayload lt (seqOf isn off) data = aData t.k off data := by
      unfold lPayload aData
      by_cases h1 : off < (t.k : Int)
      · rw [if_pos (hlt2.mpr h1), if_pos h1, hsim.seq, sub32_W_seqOf (by omega) (by omega)]
      · rw [if_neg (fun h => h1 (hlt2.mp h)), if_neg h1]
    have haN : aStart t.k off ≤ s.length := by omega
    have hbuf : safeInsert lt.frags (lSeq lt (seqOf isn off)) (lPayload lt (seqOf isn off) data)
        = mapW isn (astore true t.buf (aStart t.k off) (aData t.k off data)) := by
      rw [hseq, hpay, hsim.frags]
      exact safeInsert_mapW hN32 hb haN _
    rw [hbuf]
    have hsim1 : LSim isn { lt with frags := mapW isn (astore true t.buf (aStart t.k off) (aData t.k off data)) }
        { t with buf := astore true t.buf (aStart t.k off) (aData t.k off data) } :=
      ⟨hsim.seq, rfl, hsim.payload⟩
    have hb1 : Bounded s.length (astore true t.buf (aStart t.k off) (aData t.k off data)) :=
      Bounded_astore hb (by omega)
    have hiter : (if (lookup (mapW isn (astore true t.buf (aStart t.k off) (aData t.k off data))) lt.seq).isSome
          then some lt.seq else none)
        = (if (lookup (astore true t.buf (aStart t.k off) (aData t.k off data)) t.k).isSome then some t.k else none).map
            (W isn) := by
      rw [hsim.seq, lookup_mapW hN32 hb1 hkN]
      split <;> rfl
    rw [hiter, length_mapW]
    exact ldrain_sim hN _ _ _ _ _ hsim1 hd1 hi

/-- one direction of the legacy stream run over an arrival history (latest arrival first) -/
def runLegacy (isn : Nat) : List SegD → LStream
  | [] => LStream.init isn
  | g :: h => (genericProcess (runLegacy isn h) (seqOf isn g.off) g.data).1

theorem runLegacy_sim {s : Bytes} {isn : Nat} (hN : s.length < 2147483648) (hisn : isn < 4294967296)
    {h : List SegD} (hok : HistOK s h) : LSim isn (runLegacy isn h) (runAbstract true h) := by
  induction h with
  | nil =>
    refine ⟨?_, rfl, rfl⟩
    show isn = wrap32 (isn + 0)
    unfold wrap32; omega
  | cons g h ih =>
    obtain ⟨⟨hwin, hin, hag⟩, hrest⟩ := hok
    have hinv := runAbstract_AInv (tie := true) hrest
    rw [AInv_frontier hinv] at hwin
    exact (genericProcess_sim hN (ih hrest) hinv g.off g.data hwin hin hag).1

/-! ### append-only delivery and the meaning of the result flag, for any arguments -/

theorem ldrain_payload_append (fuel : Nat) (t : LStream) (iter : Option Nat) (added : Bool) :
    ∃ d, (ldrain fuel t iter added).1.payload = t.payload ++ d := by
  induction fuel generalizing t iter added with
  | zero => exact ⟨[], by simp [ldrain]⟩
  | succ fuel ih =>
    cases iter with
    | none => exact ⟨[], by simp [ldrain_none]⟩
    | some key =>
      rw [ldrain_succ]
      split
      · exact ⟨[], by simp⟩
      · next chunk hl =>
        split
        · split
          · split
            · exact ih _ _ _
            · exact ih _ _ _
          · split
            · exact ⟨chunk, rfl⟩
            · obtain ⟨d, hd⟩ := ih ⟨wrap32 (t.seq + chunk.length), erase t.frags key, t.payload ++ chunk⟩
                (cyclicSucc (erase t.frags key) key) (added || !chunk.isEmpty)
              exact ⟨chunk ++ d, by rw [hd, List.append_assoc]⟩
        · exact ⟨[], by simp⟩

theorem ldrain_flag (fuel : Nat) (t : LStream) (iter : Option Nat) (added : Bool) :
    (ldrain fuel t iter added).2
      = (added || decide (t.payload.length < (ldrain fuel t iter added).1.payload.length)) := by
  induction fuel generalizing t iter added with
  | zero => simp [ldrain]
  | succ fuel ih =>
    cases iter with
    | none => simp [ldrain_none]
    | some key =>
      rw [ldrain_succ]
      split
      · simp
      · next chunk hl =>
        split
        · split
          · split
            · rw [ih]
            · rw [ih]
          · split
            · cases chunk <;> simp
            · rw [ih]
              obtain ⟨d, hd⟩ := ldrain_payload_append fuel
                ⟨wrap32 (t.seq + chunk.length), erase t.frags key, t.payload ++ chunk⟩
                (cyclicSucc (erase t.frags key) key) (added || !chunk.isEmpty)
              rw [hd]
              cases chunk <;> simp
        · simp

/-- `generic_process` (hence `TCPStream::update`) returns true iff the stored payload grew -/
theorem genericProcess_flag (t : LStream) (seq : Nat) (p : Bytes) :
    (genericProcess t seq p).2 = decide (t.payload.length < (genericProcess t seq p).1.payload.length) := by
  rw [genericProcess_eq]
  split
  · rw [ldrain_flag]; simp
  · simp

theorem genericProcess_payload_append (t : LStream) (seq : Nat) (p : Bytes) :
    ∃ d, (genericProcess t seq p).1.payload = t.payload ++ d := by
  rw [genericProcess_eq]
  split
  · exact ldrain_payload_append _ _ _ _
  · exact ⟨[], by simp⟩

end Tins.DT
