import TinsModel.Tcp.DataTracker
/-
  Facts about the association-list operations of the DataTracker model (`lookup`, `erase`, `put`,
  `minKey?`, `cyclicSucc`): membership, key uniqueness, sizes, and the order-theoretic
  characterisation of `minKey?`.
-/
namespace Tins.DT

theorem mem_keys {m : Chunks} {k : Nat} : k ∈ keys m ↔ ∃ d, (k, d) ∈ m := by
  unfold keys
  constructor
  · intro h
    obtain ⟨c, hc, rfl⟩ := List.mem_map.mp h
    exact ⟨c.2, hc⟩
  · rintro ⟨d, hd⟩
    exact List.mem_map.mpr ⟨(k, d), hd, rfl⟩

theorem mem_keys_of_mem {m : Chunks} {c : Nat × Bytes} (h : c ∈ m) : c.1 ∈ keys m :=
  List.mem_map.mpr ⟨c, h, rfl⟩

theorem lookup_some_mem {m : Chunks} {k : Nat} {d : Bytes} (h : lookup m k = some d) : (k, d) ∈ m := by
  induction m with
  | nil => simp [lookup] at h
  | cons c r ih =>
    obtain ⟨k', d'⟩ := c
    unfold lookup at h
    split at h
    · next hk => cases h; subst hk; exact List.mem_cons_self
    · exact List.mem_cons_of_mem _ (ih h)

theorem lookup_none_iff {m : Chunks} {k : Nat} : lookup m k = none ↔ k ∉ keys m := by
  induction m with
  | nil => simp [lookup, keys]
  | cons c r ih =>
    obtain ⟨k', d'⟩ := c
    unfold lookup
    split
    · next hk => subst hk; simp [keys]
    · next hk =>
      rw [ih]; simp only [keys, List.map_cons, List.mem_cons, not_or]
      constructor
      · intro h; exact ⟨fun e => hk e.symm, h⟩
      · intro h; exact h.2

theorem lookup_isSome_iff {m : Chunks} {k : Nat} : (lookup m k).isSome ↔ k ∈ keys m := by
  cases h : lookup m k with
  | none => simp [lookup_none_iff.mp h]
  | some d => simp [mem_keys_of_mem (lookup_some_mem h)]

theorem lookup_of_mem {m : Chunks} (hn : (keys m).Nodup) {k : Nat} {d : Bytes} (h : (k, d) ∈ m) :
    lookup m k = some d := by
  induction m with
  | nil => cases h
  | cons c r ih =>
    obtain ⟨k', d'⟩ := c
    simp only [keys, List.map_cons, List.nodup_cons] at hn
    unfold lookup
    split
    · next hk =>
      subst hk
      rcases List.mem_cons.mp h with h | h
      · cases h; rfl
      · exact absurd (mem_keys_of_mem h) hn.1
    · next hk =>
      rcases List.mem_cons.mp h with h | h
      · cases h; exact absurd rfl hk
      · exact ih hn.2 h

theorem mem_erase {m : Chunks} {k : Nat} {c : Nat × Bytes} : c ∈ erase m k ↔ c ∈ m ∧ c.1 ≠ k := by
  simp [erase, List.mem_filter]

theorem keys_erase (m : Chunks) (k : Nat) : keys (erase m k) = (keys m).filter (fun x => x != k) := by
  induction m with
  | nil => rfl
  | cons c r ih =>
    simp only [erase, keys] at ih ⊢
    simp only [List.filter_cons, List.map_cons]
    split <;> simp [ih]

theorem mem_keys_erase {m : Chunks} {k a : Nat} : a ∈ keys (erase m k) ↔ a ∈ keys m ∧ a ≠ k := by
  rw [keys_erase]; simp [List.mem_filter]

theorem nodup_erase {m : Chunks} (hn : (keys m).Nodup) (k : Nat) : (keys (erase m k)).Nodup := by
  rw [keys_erase]; exact hn.filter _

theorem nodup_put {m : Chunks} (hn : (keys m).Nodup) (k : Nat) (d : Bytes) : (keys (put m k d)).Nodup := by
  simp only [put, keys, List.map_cons, List.nodup_cons]
  refine ⟨?_, nodup_erase hn k⟩
  intro h
  exact (mem_keys_erase.mp h).2 rfl

theorem mem_put {m : Chunks} {k : Nat} {d : Bytes} {c : Nat × Bytes} :
    c ∈ put m k d ↔ c = (k, d) ∨ (c ∈ m ∧ c.1 ≠ k) := by
  simp [put, mem_erase]

theorem mem_keys_put {m : Chunks} {k a : Nat} {d : Bytes} : a ∈ keys (put m k d) ↔ a = k ∨ a ∈ keys m := by
  simp only [put, keys, List.map_cons, List.mem_cons]
  have := @mem_keys_erase m k a
  simp only [keys] at this
  rw [this]
  constructor
  · rintro (h | h)
    · exact Or.inl h
    · exact Or.inr h.1
  · rintro (h | h)
    · exact Or.inl h
    · by_cases e : a = k
      · exact Or.inl e
      · exact Or.inr ⟨h, e⟩

theorem lookup_erase_self (m : Chunks) (k : Nat) : lookup (erase m k) k = none := by
  rw [lookup_none_iff, mem_keys_erase]; exact fun h => h.2 rfl

theorem lookup_erase_ne {m : Chunks} {k a : Nat} (h : a ≠ k) : lookup (erase m k) a = lookup m a := by
  induction m with
  | nil => rfl
  | cons c r ih =>
    obtain ⟨k', d'⟩ := c
    simp only [erase, List.filter_cons] at ih ⊢
    split
    · next hk =>
      unfold lookup
      split
      · rfl
      · exact ih
    · next hk =>
      have : k' = k := by simpa using hk
      subst this
      rw [ih]
      conv => rhs; unfold lookup
      rw [if_neg (fun e => h e.symm)]

theorem lookup_put_self (m : Chunks) (k : Nat) (d : Bytes) : lookup (put m k d) k = some d := by
  simp [put, lookup]

theorem lookup_put_ne {m : Chunks} {k a : Nat} (d : Bytes) (h : a ≠ k) : lookup (put m k d) a = lookup m a := by
  have : lookup ((k, d) :: erase m k) a = lookup (erase m k) a := by
    conv => lhs; unfold lookup
    rw [if_neg (fun e => h e.symm)]
  unfold put
  rw [this]
  exact lookup_erase_ne h

theorem sumSizes_cons (c : Nat × Bytes) (m : Chunks) : sumSizes (c :: m) = c.2.length + sumSizes m := by
  simp [sumSizes]

theorem sumSizes_erase_of_not_mem {m : Chunks} {k : Nat} (h : k ∉ keys m) : erase m k = m := by
  unfold erase
  rw [List.filter_eq_self]
  intro c hc
  have : c.1 ≠ k := fun e => h (e ▸ mem_keys_of_mem hc)
  simpa using this

/-- removing a stored key removes exactly the bytes of its chunk -/
theorem sumSizes_erase {m : Chunks} (hn : (keys m).Nodup) {k : Nat} {d : Bytes} (h : lookup m k = some d) :
    sumSizes (erase m k) + d.length = sumSizes m := by
  induction m with
  | nil => simp [lookup] at h
  | cons c r ih =>
    obtain ⟨k', d'⟩ := c
    simp only [keys, List.map_cons, List.nodup_cons] at hn
    unfold lookup at h
    split at h
    · next hk =>
      cases h; subst hk
      have : erase ((k', d) :: r) k' = r := by
        have e := sumSizes_erase_of_not_mem (m := r) (k := k') hn.1
        simp only [erase, List.filter_cons] at e ⊢
        simp [e]
      rw [this, sumSizes_cons]; simp; omega
    · next hk =>
      have : erase ((k', d') :: r) k = (k', d') :: erase r k := by
        simp only [erase, List.filter_cons]
        have : (k' != k) = true := by simpa using hk
        simp [this]
      rw [this, sumSizes_cons, sumSizes_cons]
      have := ih hn.2 h
      simp at this ⊢; omega

theorem sumSizes_put (m : Chunks) (k : Nat) (d : Bytes) :
    sumSizes (put m k d) = d.length + sumSizes (erase m k) := by
  simp [put, sumSizes_cons]

theorem length_erase_le (m : Chunks) (k : Nat) : (erase m k).length ≤ m.length :=
  List.length_filter_le _ _

theorem length_erase_lt {m : Chunks} {k : Nat} (h : k ∈ keys m) : (erase m k).length < m.length := by
  induction m with
  | nil => simp [keys] at h
  | cons c r ih =>
    simp only [erase, List.filter_cons]
    split
    · next hk =>
      have : c.1 ≠ k := by simpa using hk
      simp only [keys, List.map_cons, List.mem_cons] at h
      rcases h with h | h
      · exact absurd h.symm this
      · have := ih h
        simp only [erase] at this
        simp only [List.length_cons]; omega
    · have := length_erase_le r k
      simp only [erase] at this
      simp only [List.length_cons]; omega

/-! ### `minKey?` -/

theorem minKey?_eq_none_iff {l : List Nat} : minKey? l = none ↔ l = [] := by
  cases l with
  | nil => simp [minKey?]
  | cons x xs =>
    simp only [minKey?]
    split <;> simp

theorem minKey?_spec {l : List Nat} {m : Nat} (h : minKey? l = some m) : m ∈ l ∧ ∀ x ∈ l, m ≤ x := by
  induction l generalizing m with
  | nil => simp [minKey?] at h
  | cons x xs ih =>
    simp only [minKey?] at h
    split at h
    · next hn =>
      cases h
      rw [minKey?_eq_none_iff] at hn
      subst hn
      simp
    · next y hy =>
      cases h
      obtain ⟨hy1, hy2⟩ := ih hy
      split
      · next hxy =>
        refine ⟨List.mem_cons_self, ?_⟩
        intro z hz
        rcases List.mem_cons.mp hz with hz | hz
        · omega
        · have := hy2 z hz; omega
      · next hxy =>
        refine ⟨List.mem_cons_of_mem _ hy1, ?_⟩
        intro z hz
        rcases List.mem_cons.mp hz with hz | hz
        · omega
        · exact hy2 z hz

theorem minKey?_of_spec {l : List Nat} {m : Nat} (hm : m ∈ l) (hle : ∀ x ∈ l, m ≤ x) : minKey? l = some m := by
  cases h : minKey? l with
  | none => rw [minKey?_eq_none_iff] at h; subst h; cases hm
  | some y =>
    obtain ⟨h1, h2⟩ := minKey?_spec h
    have := hle y h1
    have := h2 m hm
    congr 1; omega

end Tins.DT
