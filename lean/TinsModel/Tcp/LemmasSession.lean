import TinsModel.Tcp.LemmasFollower
import TinsModel.Tcp.LemmasLegacy
import TinsModel.Tcp.LemmasRefine
/- One connection of the legacy follower, phase by phase: creation, the pending handshake, the established phase
   (both directions reassembled by `genericProcess`, composed with the legacy refinement `runLegacy_sim`), the end
   (FIN / RST) and what follows it. -/
namespace Tins.DT

/-! ### the stream offset a sequence number names -/

/-- signed distance of two sequence numbers (half the sequence space either way) -/
def sdist32 (a b : Nat) : Int :=
  let d := sub32 (a % 4294967296) (b % 4294967296)
  if d < 2147483648 then (d : Int) else (d : Int) - 4294967296

/-- the stream offset the sequence number `q` names, read from the delivery point `k` -/
def lOff (isn k q : Nat) : Int := (k : Int) + sdist32 q (wrap32 (isn + k))

theorem seqOf_lOff (isn k q : Nat) (hq : q < 4294967296) : seqOf isn (lOff isn k q) = q := by
  unfold seqOf lOff sdist32 sub32 wrap32
  simp only
  split <;> omega

/-- the arrival history of one direction (latest first) after one more packet of that direction -/
def lDirStep (s : Bytes) (isn : Nat) (h : List SegD) (p : LPkt) : List SegD :=
  match p.payload with
  | none => h
  | some d => ⟨lOff isn (frontier (h.map SegD.seg) s.length) p.seq, d⟩ :: h

/-- the packet's data (if any) are bytes of the stream `s`: read at the offset its sequence number names, the segment
    starts less than half the sequence space before the delivery point, ends inside the stream and agrees with it
    (`SegD.okAt`, the hypothesis of `legacy_refines_spec`) -/
def lPktOK (s : Bytes) (isn : Nat) (h : List SegD) (p : LPkt) : Prop :=
  p.seq < 4294967296 ∧
  match p.payload with
  | none => True
  | some d => (⟨lOff isn (frontier (h.map SegD.seg) s.length) p.seq, d⟩ : SegD).okAt s (frontier (h.map SegD.seg) s.length)

instance (s : Bytes) (isn : Nat) (h : List SegD) (p : LPkt) : Decidable (lPktOK s isn h p) := by
  unfold lPktOK; cases p.payload <;> infer_instance

theorem lDirStep_HistOK {s : Bytes} {isn : Nat} {h : List SegD} {p : LPkt} (hh : HistOK s h) (hp : lPktOK s isn h p) :
    HistOK s (lDirStep s isn h p) := by
  unfold lDirStep
  unfold lPktOK at hp
  cases hpl : p.payload with
  | none => exact hh
  | some d => rw [hpl] at hp; exact ⟨hp.2, hh⟩

/-- one direction of the legacy stream delivers the prefix up to the frontier (`legacy_delivers_prefix`, here for the
    lemma files) -/
theorem runLegacy_payload {s : Bytes} {isn : Nat} {h : List SegD} (hs : s.length < 2147483648) (hisn : isn < 4294967296)
    (hh : HistOK s h) : (runLegacy isn h).payload = s.take (frontier (h.map SegD.seg) s.length) := by
  have hsim := runLegacy_sim hs hisn hh
  have hinv := runAbstract_AInv (tie := true) hh
  rw [AInv_frontier hinv, hsim.payload, hinv.1.payload_eq]

theorem frontier_cons_mono' (g : Seg) (h : List Seg) (n : Nat) : frontier h n ≤ frontier (g :: h) n := by
  apply frontier_ge _ _ _ (frontier_le h n)
  intro p hp
  have h1 := frontier_below h n p hp
  unfold covered at h1 ⊢
  rw [List.any_cons, h1, Bool.or_true]

/-- the delivered prefix of a direction grew -/
def grew (s : Bytes) (h h' : List SegD) : Bool :=
  decide (frontier (h.map SegD.seg) s.length < frontier (h'.map SegD.seg) s.length)

theorem runLegacy_cons (isn : Nat) (g : SegD) (h : List SegD) :
    runLegacy isn (g :: h) = (genericProcess (runLegacy isn h) (seqOf isn g.off) g.data).1 := rfl

/-- one packet of a direction through `generic_process`: the direction's state is the legacy model over the extended
    history, and the result says whether the delivered prefix grew -/
theorem dir_step {s : Bytes} {isn : Nat} {h : List SegD} {p : LPkt} {d : Bytes} (hs : s.length < 2147483648)
    (hisn : isn < 4294967296) (hh : HistOK s h) (hp : lPktOK s isn h p) (hpl : p.payload = some d) :
    (genericProcess (runLegacy isn h) p.seq d).1 = runLegacy isn (lDirStep s isn h p) ∧
    (genericProcess (runLegacy isn h) p.seq d).2 = grew s h (lDirStep s isn h p) := by
  have hh' := lDirStep_HistOK hh hp
  have hrun : (genericProcess (runLegacy isn h) p.seq d).1 = runLegacy isn (lDirStep s isn h p) := by
    have e : lDirStep s isn h p = ⟨lOff isn (frontier (h.map SegD.seg) s.length) p.seq, d⟩ :: h := by
      unfold lDirStep; rw [hpl]
    rw [e, runLegacy_cons]
    simp only
    rw [seqOf_lOff _ _ _ hp.1]
  refine ⟨hrun, ?_⟩
  have p0 := runLegacy_payload hs hisn hh
  have p1 := runLegacy_payload hs hisn hh'
  have h1 := frontier_le (h.map SegD.seg) s.length
  have h2 := frontier_le ((lDirStep s isn h p).map SegD.seg) s.length
  have l0 : (runLegacy isn h).payload.length = frontier (h.map SegD.seg) s.length := by
    rw [p0, List.length_take]; omega
  have l1 : (genericProcess (runLegacy isn h) p.seq d).1.payload.length
      = frontier ((lDirStep s isn h p).map SegD.seg) s.length := by
    rw [hrun, p1, List.length_take]; omega
  rw [genericProcess_flag, l0, l1]
  rfl

theorem grew_self (s : Bytes) (h : List SegD) : grew s h h = false := by unfold grew; simp

/-! ### the phases of one connection -/

/-- the stream of an established connection whose directions have seen the arrivals `hc` / `hs` -/
def estabStream (tp : SInfo) (id cisn sisn : Nat) (hc hs : List SegD) (fin : Bool) : TStream :=
  { c := runLegacy cisn hc, s := runLegacy sisn hs, info := tp, id := id, synAck := true, fin := fin }

/-- the connection's parameters: the 4-tuple of its SYN, both byte streams and both initial sequence numbers -/
structure Conn where
  tp : SInfo
  cisn : Nat
  sisn : Nat
  sc : Bytes
  ss : Bytes

/-- the hypotheses on the parameters: the two endpoints differ (otherwise the directions cannot be told apart), both
    streams are shorter than 2^31, both initial sequence numbers are 32-bit values -/
structure Conn.OK (c : Conn) : Prop where
  distinct : ¬ (c.tp.ca = c.tp.sa ∧ c.tp.cp = c.tp.sp)
  lc : c.sc.length < 2147483648
  ls : c.ss.length < 2147483648
  ic : c.cisn < 4294967296
  is : c.sisn < 4294967296

def Conn.hcNext (c : Conn) (hc : List SegD) (p : LPkt) : List SegD :=
  if p.info = c.tp then lDirStep c.sc c.cisn hc p else hc

def Conn.hsNext (c : Conn) (hs : List SegD) (p : LPkt) : List SegD :=
  if p.info = c.tp then hs else lDirStep c.ss c.sisn hs p

/-- a packet of the established phase carries bytes of its direction's stream -/
def Conn.pktOK (c : Conn) (hc hs : List SegD) (p : LPkt) : Prop :=
  belongs c.tp p = true ∧ (if p.info = c.tp then lPktOK c.sc c.cisn hc p else lPktOK c.ss c.sisn hs p)

instance (c : Conn) (hc hs : List SegD) (p : LPkt) : Decidable (c.pktOK hc hs p) := by
  unfold Conn.pktOK; infer_instance

/-- the functor calls one packet of the established phase must cause: the data functor iff one of the delivered prefixes
    grew, then the end functor iff the segment carries FIN or RST; both are handed the stream as it is after the packet -/
def Conn.expectedEv (c : Conn) (id : Nat) (hc hs : List SegD) (p : LPkt) : List LEv :=
  let hc' := c.hcNext hc p
  let hs' := c.hsNext hs p
  let t' := estabStream c.tp id c.cisn c.sisn hc' hs' (p.fin || p.rst)
  (if grew c.sc hc hc' || grew c.ss hs hs' then [LEv.data t'] else []) ++ (if p.fin || p.rst then [LEv.fin t'] else [])

theorem isClient_iff {c : Conn} (hc : c.OK) {p : LPkt} (hb : belongs c.tp p = true) :
    (p.src == c.tp.ca && p.sport == c.tp.cp) = decide (p.info = c.tp) := by
  rcases belongs_iff.mp hb with h | h
  · have : p.info = c.tp := h.symm
    have h1 : p.src = c.tp.ca := congrArg SInfo.ca this
    have h2 : p.sport = c.tp.cp := congrArg SInfo.cp this
    simp [this, h1, h2]
  · have e : p.info = c.tp.swap := h.symm
    have h1 : p.src = c.tp.sa := congrArg SInfo.ca e
    have h2 : p.sport = c.tp.sp := congrArg SInfo.cp e
    have h3 : p.dst = c.tp.ca := congrArg SInfo.sa e
    have h4 : p.dport = c.tp.cp := congrArg SInfo.sp e
    have hne : ¬ p.info = c.tp := by
      intro h5
      have h6 : p.src = c.tp.ca := congrArg SInfo.ca h5
      have h7 : p.sport = c.tp.cp := congrArg SInfo.cp h5
      exact hc.distinct ⟨by rw [← h6, h1], by rw [← h7, h2]⟩
    have : ¬ (p.src = c.tp.ca ∧ p.sport = c.tp.cp) := by
      rintro ⟨h6, h7⟩
      exact hc.distinct ⟨by rw [← h6, h1], by rw [← h7, h2]⟩
    simp only [hne, decide_false]
    by_cases h6 : p.src = c.tp.ca
    · have h7 : ¬ p.sport = c.tp.cp := fun h7 => this ⟨h6, h7⟩
      simp [h6, h7]
    · simp [h6]

/-- `generic_process` on one direction, field by field -/
theorem process_eq (t : TStream) (cl : Bool) (p : LPkt) :
    t.process cl p =
      ({ c := if cl then (match p.payload with | none => t.c | some d => (genericProcess t.c p.seq d).1) else t.c,
         s := if cl then t.s else (match p.payload with | none => t.s | some d => (genericProcess t.s p.seq d).1),
         info := t.info, id := t.id, synAck := t.synAck, fin := t.fin || (p.fin || p.rst) },
       match p.payload with
       | none => false
       | some d => if cl then (genericProcess t.c p.seq d).2 else (genericProcess t.s p.seq d).2) := by
  unfold TStream.process
  rcases t with ⟨tc, ts, ti, tid, tsa, tf⟩
  cases p.payload <;> cases cl <;> cases hfr : (p.fin || p.rst) <;> cases tf <;> simp [hfr]

/-- one direction, with or without payload -/
theorem dir_step' {s : Bytes} {isn : Nat} {h : List SegD} {p : LPkt} (hs : s.length < 2147483648)
    (hisn : isn < 4294967296) (hh : HistOK s h) (hp : lPktOK s isn h p) :
    (match p.payload with | none => runLegacy isn h | some d => (genericProcess (runLegacy isn h) p.seq d).1)
      = runLegacy isn (lDirStep s isn h p) ∧
    (match p.payload with | none => false | some d => (genericProcess (runLegacy isn h) p.seq d).2)
      = grew s h (lDirStep s isn h p) := by
  cases hpl : p.payload with
  | none =>
    have e : lDirStep s isn h p = h := by unfold lDirStep; rw [hpl]
    simp only [e, grew_self, and_self]
  | some d => exact dir_step hs hisn hh hp hpl

/-- **established phase, one packet**: both directions move as the legacy reassembly over their own arrival histories,
    the functor calls are `expectedEv`, and the session disappears exactly when the segment carries FIN or RST -/
theorem estab_step {c : Conn} (hc : c.OK) (id : Nat) {hC hS : List SegD} (okC : HistOK c.sc hC) (okS : HistOK c.ss hS)
    {p : LPkt} (hp : c.pktOK hC hS p) (fresh : Nat) :
    connStep (some (estabStream c.tp id c.cisn c.sisn hC hS false)) p fresh =
      (if p.fin || p.rst then none else some (estabStream c.tp id c.cisn c.sisn (c.hcNext hC p) (c.hsNext hS p) false),
       c.expectedEv id hC hS p) ∧
    HistOK c.sc (c.hcNext hC p) ∧ HistOK c.ss (c.hsNext hS p) := by
  obtain ⟨hb, hdir⟩ := hp
  have hcl := isClient_iff hc hb
  have hupd : (estabStream c.tp id c.cisn c.sisn hC hS false).update p =
      (estabStream c.tp id c.cisn c.sisn (c.hcNext hC p) (c.hsNext hS p) (p.fin || p.rst),
       grew c.sc hC (c.hcNext hC p) || grew c.ss hS (c.hsNext hS p)) := by
    have hu : (estabStream c.tp id c.cisn c.sisn hC hS false).update p =
        (estabStream c.tp id c.cisn c.sisn hC hS false).process (decide (p.info = c.tp)) p := by
      unfold TStream.update
      simp only [estabStream, Bool.not_true, Bool.false_eq_true, if_false]
      rw [hcl]
    rw [hu, process_eq]
    unfold Conn.hcNext Conn.hsNext
    by_cases hi : p.info = c.tp
    · rw [if_pos hi] at hdir
      obtain ⟨g1, g2⟩ := dir_step' hc.lc hc.ic okC hdir
      simp only [hi, if_true, decide_true, estabStream, Bool.false_or, grew_self, Bool.or_false]
      rw [g1, g2]
    · rw [if_neg hi] at hdir
      obtain ⟨g1, g2⟩ := dir_step' hc.ls hc.is okS hdir
      simp only [hi, if_false, decide_false, Bool.false_eq_true, estabStream, Bool.false_or, grew_self]
      rw [g1, g2]
  refine ⟨?_, ?_, ?_⟩
  · unfold connStep
    simp only [hupd]
    unfold Conn.expectedEv
    simp only [estabStream]
    cases hfr : (p.fin || p.rst) <;> simp
  · unfold Conn.hcNext
    split
    · next hi => rw [if_pos hi] at hdir; exact lDirStep_HistOK okC hdir
    · exact okC
  · unfold Conn.hsNext
    split
    · exact okS
    · next hi => rw [if_neg hi] at hdir; exact lDirStep_HistOK okS hdir

/-! ### creation, the pending handshake, after the end -/

/-- no session: exactly a SYN without ACK creates one (no functor call); `stream_info()` is the tuple of that SYN and the
    identifier is the one on offer -/
theorem closed_step (p : LPkt) (fresh : Nat) :
    connStep none p fresh = (if p.syn && !p.ackf then some (TStream.ofSyn p fresh) else none, []) := by
  unfold connStep
  simp only
  split <;> rfl

/-- handshake pending: everything but a segment with SYN and ACK is ignored (data, FIN and RST included) -/
theorem pending_step (t : TStream) (hsa : t.synAck = false) (hf : t.fin = false) (p : LPkt) (fresh : Nat)
    (h : (p.syn && p.ackf) = false) : connStep (some t) p fresh = (some t, []) := by
  unfold connStep TStream.update
  simp [hsa, h, hf]

/-- handshake pending: a segment with SYN and ACK (from either side) fixes both expected sequence numbers -/
theorem synack_step (c : Conn) (p0 : LPkt) (id : Nat) (p : LPkt) (fresh : Nat) (hinfo : p0.info = c.tp)
    (h : (p.syn && p.ackf) = true) (hack : p.ack = c.cisn) (hseq : wrap32 (p.seq + 1) = c.sisn) :
    connStep (some (TStream.ofSyn p0 id)) p fresh = (some (estabStream c.tp id c.cisn c.sisn [] [] false), []) := by
  unfold connStep TStream.update
  simp only [TStream.ofSyn, Bool.not_false, if_true, h, hack, hseq, hinfo, Bool.false_eq_true, if_false]
  rfl

theorem connRun_append (st : Option TStream) (xs ys : List (LPkt × Nat)) :
    connRun st (xs ++ ys) = ((connRun (connRun st xs).1 ys).1, (connRun st xs).2 ++ (connRun (connRun st xs).1 ys).2) := by
  induction xs generalizing st with
  | nil => rfl
  | cons x xs ih =>
    show ((connRun (connStep st x.1 x.2).1 (xs ++ ys)).1, (connStep st x.1 x.2).2 :: (connRun (connStep st x.1 x.2).1 (xs ++ ys)).2) = _
    rw [ih]
    rfl

theorem connRun_cons (st : Option TStream) (x : LPkt × Nat) (xs : List (LPkt × Nat)) :
    connRun st (x :: xs) = ((connRun (connStep st x.1 x.2).1 xs).1, (connStep st x.1 x.2).2 :: (connRun (connStep st x.1 x.2).1 xs).2) :=
  rfl

/-- no session and no SYN-without-ACK: nothing happens, however many packets arrive (in particular after the end functor
    has been called: it is not called again) -/
theorem closed_run (xs : List (LPkt × Nat)) (h : ∀ x ∈ xs, (x.1.syn && !x.1.ackf) = false) :
    connRun none xs = (none, xs.map (fun _ => [])) := by
  induction xs with
  | nil => rfl
  | cons x xs ih =>
    rw [connRun_cons, closed_step, h x List.mem_cons_self]
    simp only [Bool.false_eq_true, if_false]
    rw [ih (fun y hy => h y (List.mem_cons_of_mem _ hy))]
    rfl

theorem pending_run (t : TStream) (hsa : t.synAck = false) (hf : t.fin = false) (xs : List (LPkt × Nat))
    (h : ∀ x ∈ xs, (x.1.syn && x.1.ackf) = false) : connRun (some t) xs = (some t, xs.map (fun _ => [])) := by
  induction xs with
  | nil => rfl
  | cons x xs ih =>
    rw [connRun_cons, pending_step t hsa hf x.1 x.2 (h x List.mem_cons_self)]
    simp only
    rw [ih (fun y hy => h y (List.mem_cons_of_mem _ hy))]
    rfl

/-! ### the established phase over any number of packets -/

/-- the packets of the data phase: each carries bytes of its direction's stream, none carries FIN or RST -/
def Conn.dataOK (c : Conn) : List SegD → List SegD → List LPkt → Prop
  | _, _, [] => True
  | hC, hS, p :: ps => c.pktOK hC hS p ∧ (p.fin || p.rst) = false ∧ c.dataOK (c.hcNext hC p) (c.hsNext hS p) ps

instance Conn.dataOK.instDecidable (c : Conn) : (hC hS : List SegD) → (ps : List LPkt) → Decidable (c.dataOK hC hS ps)
  | _, _, [] => isTrue trivial
  | hC, hS, p :: ps =>
    have := Conn.dataOK.instDecidable c (c.hcNext hC p) (c.hsNext hS p) ps
    (inferInstance : Decidable (c.pktOK hC hS p ∧ (p.fin || p.rst) = false ∧ c.dataOK (c.hcNext hC p) (c.hsNext hS p) ps))

def Conn.hcAfter (c : Conn) (hC : List SegD) (ps : List LPkt) : List SegD := ps.foldl c.hcNext hC
def Conn.hsAfter (c : Conn) (hS : List SegD) (ps : List LPkt) : List SegD := ps.foldl c.hsNext hS

def Conn.expectedData (c : Conn) (id : Nat) : List SegD → List SegD → List LPkt → List (List LEv)
  | _, _, [] => []
  | hC, hS, p :: ps => c.expectedEv id hC hS p :: c.expectedData id (c.hcNext hC p) (c.hsNext hS p) ps

/-- **established phase, any number of packets** (any order, duplication, overlap, both directions interleaved) -/
theorem estab_run {c : Conn} (hc : c.OK) (id : Nat) (xs : List (LPkt × Nat)) {hC hS : List SegD}
    (okC : HistOK c.sc hC) (okS : HistOK c.ss hS) (hd : c.dataOK hC hS (xs.map (·.1))) :
    connRun (some (estabStream c.tp id c.cisn c.sisn hC hS false)) xs =
      (some (estabStream c.tp id c.cisn c.sisn (c.hcAfter hC (xs.map (·.1))) (c.hsAfter hS (xs.map (·.1))) false),
       c.expectedData id hC hS (xs.map (·.1))) ∧
    HistOK c.sc (c.hcAfter hC (xs.map (·.1))) ∧ HistOK c.ss (c.hsAfter hS (xs.map (·.1))) := by
  induction xs generalizing hC hS with
  | nil => exact ⟨rfl, okC, okS⟩
  | cons x xs ih =>
    obtain ⟨h1, h2, h3⟩ := hd
    obtain ⟨s1, s2, s3⟩ := estab_step hc id okC okS h1 x.2
    obtain ⟨r1, r2, r3⟩ := ih s2 s3 h3
    refine ⟨?_, r2, r3⟩
    rw [connRun_cons, s1, h2]
    simp only [Bool.false_eq_true, if_false]
    rw [r1]
    rfl

/-- what the application reads from the stream it is handed: both payloads are the stream prefixes up to the frontiers -/
theorem estabStream_payloads {c : Conn} (hc : c.OK) (id : Nat) {hC hS : List SegD} (okC : HistOK c.sc hC)
    (okS : HistOK c.ss hS) (fin : Bool) :
    (estabStream c.tp id c.cisn c.sisn hC hS fin).c.payload = c.sc.take (frontier (hC.map SegD.seg) c.sc.length) ∧
    (estabStream c.tp id c.cisn c.sisn hC hS fin).s.payload = c.ss.take (frontier (hS.map SegD.seg) c.ss.length) ∧
    (estabStream c.tp id c.cisn c.sisn hC hS fin).id = id ∧ (estabStream c.tp id c.cisn c.sisn hC hS fin).info = c.tp :=
  ⟨runLegacy_payload hc.lc hc.ic okC, runLegacy_payload hc.ls hc.is okS, rfl, rfl⟩

/-- **a whole connection**: SYN, anything but a SYN+ACK, the SYN+ACK, data both ways, a segment with FIN or RST, anything but
    a new SYN.  Functor calls packet by packet, and no session at the end. -/
theorem session_script {c : Conn} (hc : c.OK) (syn : LPkt × Nat) (pre : List (LPkt × Nat)) (synack : LPkt × Nat)
    (dat : List (LPkt × Nat)) (last : LPkt × Nat) (post : List (LPkt × Nat))
    (h1 : syn.1.info = c.tp) (h2 : (syn.1.syn && !syn.1.ackf) = true)
    (hpre : ∀ x ∈ pre, (x.1.syn && x.1.ackf) = false)
    (h4 : (synack.1.syn && synack.1.ackf) = true) (h5 : synack.1.ack = c.cisn) (h6 : wrap32 (synack.1.seq + 1) = c.sisn)
    (hdat : c.dataOK [] [] (dat.map (·.1)))
    (hlast : c.pktOK (c.hcAfter [] (dat.map (·.1))) (c.hsAfter [] (dat.map (·.1))) last.1)
    (hfin : (last.1.fin || last.1.rst) = true)
    (hpost : ∀ x ∈ post, (x.1.syn && !x.1.ackf) = false) :
    connRun none (syn :: (pre ++ synack :: (dat ++ last :: post))) =
      (none, [] :: (pre.map (fun _ => []) ++ [] :: (c.expectedData syn.2 [] [] (dat.map (·.1)) ++
        c.expectedEv syn.2 (c.hcAfter [] (dat.map (·.1))) (c.hsAfter [] (dat.map (·.1))) last.1 :: post.map (fun _ => [])))) := by
  obtain ⟨d1, d2, d3⟩ := estab_run hc syn.2 dat (hC := []) (hS := []) trivial trivial hdat
  obtain ⟨l1, _, _⟩ := estab_step hc syn.2 d2 d3 hlast last.2
  rw [connRun_cons, closed_step, h2]
  simp only [if_true]
  rw [connRun_append, pending_run _ rfl rfl pre hpre]
  simp only
  rw [connRun_cons, synack_step c syn.1 syn.2 synack.1 synack.2 h1 h4 h5 h6]
  simp only
  rw [connRun_append, d1]
  simp only
  rw [connRun_cons, l1, hfin]
  simp only [if_true]
  rw [closed_run post hpost]

end Tins.DT
