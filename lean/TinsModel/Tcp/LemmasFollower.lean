import TinsModel.Tcp.LegacyFollower
/- The legacy follower's session table: key equivalence, lookup / update / erase facts, the reachable-state invariant, and
   locality (a packet touches the session of its own unordered 4-tuple only). -/
namespace Tins.DT

/-! ### `StreamInfo::operator<` induces equality of the four fields -/

theorem SInfo.equiv_eq (a b : SInfo) : a.equiv b = decide (a = b) := by
  rcases a with ⟨a1, a2, a3, a4⟩
  rcases b with ⟨b1, b2, b3, b4⟩
  unfold SInfo.equiv SInfo.lt
  simp only [SInfo.mk.injEq]
  have e1 : (b1 = a1) = (a1 = b1) := propext eq_comm
  have e2 : (b2 = a2) = (a2 = b2) := propext eq_comm
  have e3 : (b3 = a3) = (a3 = b3) := propext eq_comm
  simp only [e1, e2, e3]
  by_cases h1 : a1 = b1 <;> by_cases h2 : a2 = b2 <;> by_cases h3 : a3 = b3 <;> by_cases h4 : a4 = b4 <;>
    simp [h1, h2, h3, h4] <;> omega

theorem SInfo.equiv_iff_eq (a b : SInfo) : a.equiv b = true ↔ a = b := by
  rw [SInfo.equiv_eq]; simp

@[simp] theorem SInfo.swap_swap (a : SInfo) : a.swap.swap = a := by cases a; rfl

theorem SInfo.swap_inj {a b : SInfo} (h : a.swap = b.swap) : a = b := by
  have := congrArg SInfo.swap h; simpa using this

theorem SInfo.swap_eq_iff {a b : SInfo} : a.swap = b ↔ a = b.swap := by
  constructor
  · intro h; rw [← h]; simp
  · intro h; rw [h]; simp

/-! ### lookup, in-place update, erase, insert -/

theorem sfind_cons (e : SInfo × TStream) (r : Sessions) (k : SInfo) :
    sfind (e :: r) k = if e.1 = k then some e else sfind r k := by
  show (if e.1.equiv k then some e else sfind r k) = _
  rw [SInfo.equiv_eq]; simp

theorem sfind_some {m : Sessions} {k : SInfo} {e : SInfo × TStream} (h : sfind m k = some e) : e.1 = k ∧ e ∈ m := by
  induction m with
  | nil => cases h
  | cons x r ih =>
    rw [sfind_cons] at h
    split at h
    · cases h; exact ⟨by assumption, List.mem_cons_self⟩
    · exact ⟨(ih h).1, List.mem_cons_of_mem _ (ih h).2⟩

theorem sfind_none {m : Sessions} {k : SInfo} : sfind m k = none ↔ ∀ e ∈ m, e.1 ≠ k := by
  induction m with
  | nil => simp [sfind]
  | cons x r ih =>
    rw [sfind_cons]
    split
    · simp_all
    · simp_all

theorem sfind_isSome_of_mem {m : Sessions} {e : SInfo × TStream} (h : e ∈ m) : (sfind m e.1).isSome = true := by
  cases hf : sfind m e.1 with
  | some x => rfl
  | none => exact absurd rfl (sfind_none.mp hf e h)

theorem sset_cons (e : SInfo × TStream) (r : Sessions) (k : SInfo) (t : TStream) :
    sset (e :: r) k t = (if e.1 = k then (e.1, t) else e) :: sset r k t := by
  show (if e.1.equiv k then (e.1, t) else e) :: sset r k t = _
  rw [SInfo.equiv_eq]; simp

theorem serase_cons (e : SInfo × TStream) (r : Sessions) (k : SInfo) :
    serase (e :: r) k = if e.1 = k then serase r k else e :: serase r k := by
  show List.filter (fun e => !e.1.equiv k) (e :: r) = _
  rw [List.filter_cons, SInfo.equiv_eq]
  by_cases h : e.1 = k <;> simp [h, serase, SInfo.equiv_eq]

theorem sfind_sset_same {m : Sessions} {k : SInfo} (t : TStream) (h : (sfind m k).isSome = true) :
    sfind (sset m k t) k = some (k, t) := by
  induction m with
  | nil => simp [sfind] at h
  | cons x r ih =>
    rw [sset_cons, sfind_cons]
    rw [sfind_cons] at h
    by_cases hx : x.1 = k
    · simp [hx]
    · simp only [hx, if_false] at h ⊢
      exact ih h

theorem sfind_sset_other {m : Sessions} {k k' : SInfo} (t : TStream) (h : k' ≠ k) :
    sfind (sset m k t) k' = sfind m k' := by
  induction m with
  | nil => rfl
  | cons x r ih =>
    rw [sset_cons, sfind_cons, sfind_cons, ih]
    by_cases hx : x.1 = k
    · have : ¬ x.1 = k' := by rw [hx]; exact fun e => h e.symm
      simp [hx, this, h.symm]
    · simp [hx]

theorem sfind_sset_isSome (m : Sessions) (k k' : SInfo) (t : TStream) :
    (sfind (sset m k t) k').isSome = (sfind m k').isSome := by
  induction m with
  | nil => rfl
  | cons x r ih =>
    rw [sset_cons, sfind_cons, sfind_cons]
    by_cases hx : x.1 = k
    · by_cases hk : k = k'
      · simp [hx, hk]
      · simp [hx, hk, ih]
    · by_cases hk : x.1 = k'
      · subst hk; simp [hx]
      · simp [hx, hk, ih]

theorem sfind_serase_same (m : Sessions) (k : SInfo) : sfind (serase m k) k = none := by
  rw [sfind_none]
  intro e he
  have : e ∈ m.filter (fun e => !e.1.equiv k) := he
  rw [List.mem_filter, SInfo.equiv_eq] at this
  simpa using this.2

theorem sfind_serase_other {m : Sessions} {k k' : SInfo} (h : k' ≠ k) : sfind (serase m k) k' = sfind m k' := by
  induction m with
  | nil => rfl
  | cons x r ih =>
    rw [serase_cons, sfind_cons]
    by_cases hx : x.1 = k
    · have : ¬ x.1 = k' := by rw [hx]; exact fun e => h e.symm
      simp [hx, ih, Ne.symm h]
    · simp only [hx, if_false]
      rw [sfind_cons, ih]

theorem sfind_append_new (m : Sessions) (k k' : SInfo) (t : TStream) :
    sfind (m ++ [(k, t)]) k' = match sfind m k' with
      | some e => some e
      | none => if k = k' then some (k, t) else none := by
  induction m with
  | nil => simp [sfind_cons, sfind]
  | cons x r ih =>
    rw [List.cons_append, sfind_cons, sfind_cons]
    by_cases hx : x.1 = k'
    · simp [hx]
    · simp only [hx, if_false]; exact ih

/-! ### the session of a connection (an unordered 4-tuple), and the single-connection machine -/

/-- the session the follower finds for packets of the connection `tp` (either direction) -/
def view (m : Sessions) (tp : SInfo) : Option TStream :=
  match sfind m tp with
  | some e => some e.2
  | none => (sfind m tp.swap).map (·.2)

/-- the packet belongs to the connection `tp`: its 4-tuple is `tp` or `tp` reversed -/
def belongs (tp : SInfo) (p : LPkt) : Bool := decide (p.info = tp) || decide (p.info = tp.swap)

/-- `TCPStreamFollower::callback` seen from one connection: `st` is its session (if any), `fresh` the identifier a new
    stream would get -/
def connStep (st : Option TStream) (p : LPkt) (fresh : Nat) : Option TStream × List LEv :=
  match st with
  | some t =>
    let r := t.update p
    let e1 := if r.2 then [LEv.data r.1] else []
    if r.1.fin then (none, e1 ++ [LEv.fin r.1]) else (some r.1, e1)
  | none =>
    if p.syn && !p.ackf then (some (TStream.ofSyn p fresh), []) else (none, [])

/-- what holds of every reachable session table -/
structure SInv (m : Sessions) : Prop where
  /-- `std::map` keys are unique -/
  uniq : (m.map (·.1)).Nodup
  /-- a stream is stored under the reverse of its own `info_` -/
  key : ∀ e ∈ m, e.1 = e.2.info.swap
  /-- never both a tuple and its reverse -/
  norev : ∀ k, (sfind m k).isSome = true → (sfind m k.swap).isSome = true → k.swap = k
  /-- a finished stream does not stay in the table -/
  live : ∀ e ∈ m, e.2.fin = false

theorem SInv_nil : SInv [] := ⟨List.nodup_nil, by simp, by simp [sfind], by simp⟩

theorem view_of_found {m : Sessions} (hi : SInv m) {k tp : SInfo} {e : SInfo × TStream} (hf : sfind m k = some e)
    (hk : tp = k ∨ tp.swap = k) : view m tp = some e.2 := by
  unfold view
  rcases hk with rfl | rfl
  · rw [hf]
  · cases h1 : sfind m tp with
    | none => simp [hf]
    | some x =>
      have := hi.norev tp (by rw [h1]; rfl) (by rw [hf]; rfl)
      rw [this] at hf
      rw [hf] at h1; cases h1; rfl

theorem view_none {m : Sessions} {tp : SInfo} (h1 : sfind m tp = none) (h2 : sfind m tp.swap = none) : view m tp = none := by
  unfold view; rw [h1, h2]; rfl

/-! ### field preservation of `update` -/

theorem process_info (t : TStream) (c : Bool) (p : LPkt) :
    (t.process c p).1.info = t.info ∧ (t.process c p).1.id = t.id ∧ (t.process c p).1.synAck = t.synAck := by
  unfold TStream.process
  cases p.payload with
  | none => simp only; split <;> exact ⟨rfl, rfl, rfl⟩
  | some d => simp only; cases c <;> simp only [Bool.false_eq_true, if_false, if_true] <;> split <;> exact ⟨rfl, rfl, rfl⟩

theorem update_info (t : TStream) (p : LPkt) : (t.update p).1.info = t.info ∧ (t.update p).1.id = t.id := by
  unfold TStream.update
  split
  · split <;> exact ⟨rfl, rfl⟩
  · exact ⟨(process_info t _ p).1, (process_info t _ p).2.1⟩

/-! ### `callback` through the found session -/

theorem deliver_eq (f : LFollower) (k : SInfo) (t : TStream) (p : LPkt) :
    (f.deliver k t p).2 = (connStep (some t) p f.lastId).2 ∧ (f.deliver k t p).1.lastId = f.lastId ∧
    (f.deliver k t p).1.sessions = if (t.update p).1.fin then serase f.sessions k else sset f.sessions k (t.update p).1 := by
  unfold LFollower.deliver connStep
  simp only
  split <;> exact ⟨rfl, rfl, rfl⟩

/-! ### the invariant is preserved by in-place update, erase and insertion -/

theorem sset_keys (m : Sessions) (k : SInfo) (t : TStream) : (sset m k t).map (·.1) = m.map (·.1) := by
  induction m with
  | nil => rfl
  | cons x r ih =>
    rw [sset_cons, List.map_cons, List.map_cons, ih]
    split <;> rfl

theorem mem_sset {m : Sessions} {k : SInfo} {t : TStream} {e : SInfo × TStream} (h : e ∈ sset m k t) :
    e = (k, t) ∨ e ∈ m := by
  induction m with
  | nil => cases h
  | cons x r ih =>
    rw [sset_cons, List.mem_cons] at h
    rcases h with h | h
    · split at h
      · next hx => left; rw [h, hx]
      · right; rw [h]; exact List.mem_cons_self
    · rcases ih h with h | h
      · left; exact h
      · right; exact List.mem_cons_of_mem _ h

theorem SInv_sset {m : Sessions} (hi : SInv m) {k : SInfo} {t : TStream} (hk : k = t.info.swap) (hl : t.fin = false) :
    SInv (sset m k t) := by
  refine ⟨by rw [sset_keys]; exact hi.uniq, ?_, ?_, ?_⟩
  · intro e he
    rcases mem_sset he with rfl | h
    · exact hk
    · exact hi.key e h
  · intro k' h1 h2
    rw [sfind_sset_isSome] at h1 h2
    exact hi.norev k' h1 h2
  · intro e he
    rcases mem_sset he with rfl | h
    · exact hl
    · exact hi.live e h

theorem mem_serase {m : Sessions} {k : SInfo} {e : SInfo × TStream} (h : e ∈ serase m k) : e ∈ m ∧ e.1 ≠ k := by
  have : e ∈ m.filter (fun e => !e.1.equiv k) := h
  rw [List.mem_filter, SInfo.equiv_eq] at this
  exact ⟨this.1, by simpa using this.2⟩

theorem sfind_serase_isSome {m : Sessions} {k k' : SInfo} (h : (sfind (serase m k) k').isSome = true) :
    (sfind m k').isSome = true := by
  by_cases hk : k' = k
  · rw [hk, sfind_serase_same] at h; cases h
  · rwa [sfind_serase_other hk] at h

theorem SInv_serase {m : Sessions} (hi : SInv m) (k : SInfo) : SInv (serase m k) := by
  refine ⟨?_, ?_, ?_, ?_⟩
  · exact List.Nodup.sublist (List.Sublist.map _ List.filter_sublist) hi.uniq
  · intro e he; exact hi.key e (mem_serase he).1
  · intro k' h1 h2; exact hi.norev k' (sfind_serase_isSome h1) (sfind_serase_isSome h2)
  · intro e he; exact hi.live e (mem_serase he).1

theorem sfind_append_isSome (m : Sessions) (k k' : SInfo) (t : TStream) :
    (sfind (m ++ [(k, t)]) k').isSome = ((sfind m k').isSome || decide (k = k')) := by
  rw [sfind_append_new]
  cases sfind m k' with
  | some e => rfl
  | none => by_cases h : k = k' <;> simp [h]

theorem SInv_append {m : Sessions} (hi : SInv m) {k : SInfo} {t : TStream} (h1 : sfind m k = none)
    (h2 : sfind m k.swap = none) (hk : k = t.info.swap) (hl : t.fin = false) : SInv (m ++ [(k, t)]) := by
  refine ⟨?_, ?_, ?_, ?_⟩
  · rw [List.map_append, List.nodup_append]
    refine ⟨hi.uniq, by simp, ?_⟩
    intro a ha b hb
    simp only [List.map_cons, List.map_nil, List.mem_singleton] at hb
    obtain ⟨e, he, rfl⟩ := List.mem_map.mp ha
    rw [hb]
    exact sfind_none.mp h1 e he
  · intro e he
    rcases List.mem_append.mp he with h | h
    · exact hi.key e h
    · simp only [List.mem_singleton] at h; rw [h]; exact hk
  · intro k' a b
    rw [sfind_append_isSome] at a b
    simp only [Bool.or_eq_true, decide_eq_true_eq] at a b
    rcases a with a | a <;> rcases b with b | b
    · exact hi.norev k' a b
    · have : k.swap = k' := by rw [b, SInfo.swap_swap]
      rw [this] at h2; rw [h2] at a; cases a
    · rw [a] at h2; rw [h2] at b; cases b
    · rw [← b, a]
  · intro e he
    rcases List.mem_append.mp he with h | h
    · exact hi.live e h
    · simp only [List.mem_singleton] at h; rw [h]; exact hl

/-! ### locality: a packet moves the session of its own connection as the single-connection machine, and no other -/

theorem other_none {m : Sessions} (hi : SInv m) {k x : SInfo} (hf : (sfind m k).isSome = true) (hx : x.swap = k) (hne : x ≠ k) :
    sfind m x = none := by
  cases h : sfind m x with
  | none => rfl
  | some e =>
    have := hi.norev x (by rw [h]; rfl) (by rw [hx]; exact hf)
    rw [hx] at this
    exact absurd this.symm hne

theorem deliver_view {f : LFollower} (hi : SInv f.sessions) {k tp : SInfo} {e : SInfo × TStream} (p : LPkt)
    (hf : sfind f.sessions k = some e) (hk : tp = k ∨ tp.swap = k) :
    view (f.deliver e.1 e.2 p).1.sessions tp = (connStep (some e.2) p f.lastId).1 ∧
    (f.deliver e.1 e.2 p).2 = (connStep (some e.2) p f.lastId).2 ∧
    SInv (f.deliver e.1 e.2 p).1.sessions ∧ (f.deliver e.1 e.2 p).1.lastId = f.lastId := by
  obtain ⟨hek, hem⟩ := sfind_some hf
  obtain ⟨d1, d2, d3⟩ := deliver_eq f e.1 e.2 p
  have hsome : (sfind f.sessions k).isSome = true := by rw [hf]; rfl
  refine ⟨?_, d1, ?_, d2⟩
  · rw [d3, hek]
    unfold connStep
    simp only
    by_cases hfin : (e.2.update p).1.fin = true
    · simp only [hfin, if_true]
      apply view_none
      · by_cases h : tp = k
        · rw [h]; exact sfind_serase_same _ _
        · rw [sfind_serase_other h]
          exact other_none hi hsome (hk.resolve_left h) h
      · by_cases h : tp.swap = k
        · rw [h]; exact sfind_serase_same _ _
        · rw [sfind_serase_other h]
          have h' : tp = k := hk.resolve_right h
          exact other_none hi hsome (by rw [SInfo.swap_swap]; exact h') h
    · simp only [hfin, if_false]
      have hfin' : (e.2.update p).1.fin = false := by simpa using hfin
      have hkey : k = (e.2.update p).1.info.swap := by rw [(update_info e.2 p).1, ← hek]; exact hi.key e hem
      have hi' := SInv_sset hi hkey hfin'
      exact view_of_found hi' (sfind_sset_same _ hsome) hk
  · rw [d3, hek]
    by_cases hfin : (e.2.update p).1.fin = true
    · simp only [hfin, if_true]; exact SInv_serase hi k
    · simp only [hfin, if_false]
      have hfin' : (e.2.update p).1.fin = false := by simpa using hfin
      have hkey : k = (e.2.update p).1.info.swap := by rw [(update_info e.2 p).1, ← hek]; exact hi.key e hem
      exact SInv_sset hi hkey hfin'

theorem belongs_iff {tp : SInfo} {p : LPkt} : belongs tp p = true ↔ (tp = p.info ∨ tp.swap = p.info) := by
  unfold belongs
  simp only [Bool.or_eq_true, decide_eq_true_eq]
  constructor
  · rintro (h | h)
    · left; exact h.symm
    · right; rw [h]
  · rintro (h | h)
    · left; exact h.symm
    · right; rw [← h]

/-- **one packet, its own connection**: the session of the packet's connection moves as `connStep`, the functor calls
    are those of `connStep`, the invariant is kept -/
theorem callback_same {f : LFollower} (hi : SInv f.sessions) {tp : SInfo} {p : LPkt} (hb : belongs tp p = true) :
    view (f.callback p).1.sessions tp = (connStep (view f.sessions tp) p f.lastId).1 ∧
    (f.callback p).2 = (connStep (view f.sessions tp) p f.lastId).2 := by
  have hk := belongs_iff.mp hb
  have hk' : tp = p.info.swap ∨ tp.swap = p.info.swap := by
    rcases hk with h | h
    · right; rw [h]
    · left; exact SInfo.swap_eq_iff.mp h
  unfold LFollower.callback
  cases h1 : sfind f.sessions p.info with
  | some e =>
    simp only
    have := deliver_view hi p h1 hk
    rw [view_of_found hi h1 hk]
    exact ⟨this.1, this.2.1⟩
  | none =>
    simp only
    cases h2 : sfind f.sessions p.info.swap with
    | some e =>
      simp only
      have := deliver_view hi p h2 hk'
      rw [view_of_found hi h2 hk']
      exact ⟨this.1, this.2.1⟩
    | none =>
      simp only
      have hv : view f.sessions tp = none := by
        rcases hk with h | h
        · apply view_none <;> rw [h] <;> assumption
        · apply view_none
          · rw [SInfo.swap_eq_iff.mp h]; exact h2
          · rw [h]; exact h1
      rw [hv]
      unfold connStep
      simp only
      split
      · refine ⟨?_, rfl⟩
        simp only
        have hi' : SInv (f.sessions ++ [(p.info.swap, TStream.ofSyn p f.lastId)]) :=
          SInv_append hi h2 (by rw [SInfo.swap_swap]; exact h1) rfl rfl
        have hfound : sfind (f.sessions ++ [(p.info.swap, TStream.ofSyn p f.lastId)]) p.info.swap
            = some (p.info.swap, TStream.ofSyn p f.lastId) := by
          rw [sfind_append_new, h2]; simp
        exact view_of_found hi' hfound hk'
      · exact ⟨hv, rfl⟩

theorem callback_SInv {f : LFollower} (hi : SInv f.sessions) (p : LPkt) : SInv (f.callback p).1.sessions := by
  unfold LFollower.callback
  cases h1 : sfind f.sessions p.info with
  | some e => exact (deliver_view (tp := p.info) hi p h1 (Or.inl rfl)).2.2.1
  | none =>
    simp only
    cases h2 : sfind f.sessions p.info.swap with
    | some e => exact (deliver_view (tp := p.info.swap) hi p h2 (Or.inl rfl)).2.2.1
    | none =>
      simp only
      split
      · exact SInv_append hi h2 (by rw [SInfo.swap_swap]; exact h1) rfl rfl
      · exact hi

/-- **one packet, any other connection**: untouched -/
theorem callback_other (f : LFollower) {tp : SInfo} {p : LPkt} (hb : belongs tp p = false) :
    view (f.callback p).1.sessions tp = view f.sessions tp := by
  have hn : ¬ (tp = p.info ∨ tp.swap = p.info) := by rw [← belongs_iff, hb]; simp
  have n1 : tp ≠ p.info := fun h => hn (Or.inl h)
  have n2 : tp.swap ≠ p.info := fun h => hn (Or.inr h)
  have n3 : tp ≠ p.info.swap := fun h => n2 (by rw [h]; simp)
  have n4 : tp.swap ≠ p.info.swap := fun h => n1 (SInfo.swap_inj h)
  have key : ∀ (k : SInfo) (t : TStream), (k = p.info ∨ k = p.info.swap) →
      view (f.deliver k t p).1.sessions tp = view f.sessions tp := by
    intro k t hk
    have a1 : tp ≠ k := by rcases hk with h | h <;> rw [h] <;> assumption
    have a2 : tp.swap ≠ k := by rcases hk with h | h <;> rw [h] <;> assumption
    rw [(deliver_eq f k t p).2.2]
    by_cases hfin : (t.update p).1.fin = true
    · simp only [hfin, if_true]
      unfold view
      rw [sfind_serase_other a1, sfind_serase_other a2]
    · have hfin' : (t.update p).1.fin = false := by simpa using hfin
      rw [hfin']
      simp only [Bool.false_eq_true, if_false]
      unfold view
      rw [sfind_sset_other _ a1, sfind_sset_other _ a2]
  unfold LFollower.callback
  cases h1 : sfind f.sessions p.info with
  | some e => simp only; rw [(sfind_some h1).1]; exact key _ _ (Or.inl rfl)
  | none =>
    simp only
    cases h2 : sfind f.sessions p.info.swap with
    | some e => simp only; rw [(sfind_some h2).1]; exact key _ _ (Or.inr rfl)
    | none =>
      simp only
      split
      · simp only
        unfold view
        rw [sfind_append_new, sfind_append_new]
        simp [Ne.symm n3, Ne.symm n4]
        cases sfind f.sessions tp <;> cases sfind f.sessions tp.swap <;> rfl
      · rfl

/-! ### whole captures -/

/-- the follower after a capture -/
def LFollower.after (f : LFollower) : List LPkt → LFollower
  | [] => f
  | p :: ps => LFollower.after (f.callback p).1 ps

/-- the capture annotated with what each packet met: the identifier a new stream would have been given at that moment,
    and the functor calls the packet caused -/
def LFollower.runA (f : LFollower) : List LPkt → List (LPkt × Nat × List LEv)
  | [] => []
  | p :: ps => (p, f.lastId, (f.callback p).2) :: LFollower.runA (f.callback p).1 ps

theorem run_eq (f : LFollower) (ps : List LPkt) :
    (f.run ps).1 = f.after ps ∧ (f.run ps).2 = (f.runA ps).map (·.2.2) ∧ (f.runA ps).map (·.1) = ps := by
  induction ps generalizing f with
  | nil => exact ⟨rfl, rfl, rfl⟩
  | cons p ps ih =>
    obtain ⟨a, b, c⟩ := ih (f.callback p).1
    refine ⟨?_, ?_, ?_⟩
    · show ((f.callback p).1.run ps).1 = _; rw [a]; rfl
    · show (f.callback p).2 :: ((f.callback p).1.run ps).2 = _; rw [b]; rfl
    · show p :: ((f.callback p).1.runA ps).map (·.1) = _; rw [c]

/-- the single-connection machine over the connection's own packets (each with the identifier on offer) -/
def connRun (st : Option TStream) : List (LPkt × Nat) → Option TStream × List (List LEv)
  | [] => (st, [])
  | x :: xs =>
    let r := connStep st x.1 x.2
    let r' := connRun r.1 xs
    (r'.1, r.2 :: r'.2)

theorem after_SInv {f : LFollower} (hi : SInv f.sessions) (ps : List LPkt) : SInv (f.after ps).sessions := by
  induction ps generalizing f with
  | nil => exact hi
  | cons p ps ih => exact ih (callback_SInv hi p)

/-- **projection**: for every capture and every connection (unordered 4-tuple), the connection's session after the capture
    and the functor calls its packets caused are those of the single-connection machine run over the connection's own
    packets, whatever the other packets are; the only thing the rest of the capture decides is which identifier a newly
    created stream gets. -/
theorem follower_projects_aux {f : LFollower} (hi : SInv f.sessions) (ps : List LPkt) (tp : SInfo) :
    view (f.after ps).sessions tp
      = (connRun (view f.sessions tp) (((f.runA ps).filter (fun x => belongs tp x.1)).map (fun x => (x.1, x.2.1)))).1 ∧
    ((f.runA ps).filter (fun x => belongs tp x.1)).map (·.2.2)
      = (connRun (view f.sessions tp) (((f.runA ps).filter (fun x => belongs tp x.1)).map (fun x => (x.1, x.2.1)))).2 := by
  induction ps generalizing f with
  | nil => exact ⟨rfl, rfl⟩
  | cons p ps ih =>
    have ih' := ih (callback_SInv hi p)
    show view ((f.callback p).1.after ps).sessions tp = _ ∧ _
    simp only [LFollower.runA, List.filter_cons]
    by_cases hb : belongs tp p = true
    · obtain ⟨c1, c2⟩ := callback_same hi hb
      simp only [hb, if_true, List.map_cons, connRun]
      rw [← c1, ← c2]
      exact ⟨ih'.1, by rw [ih'.2]⟩
    · have hb' : belongs tp p = false := by simpa using hb
      simp only [hb', Bool.false_eq_true, if_false]
      rw [← callback_other f hb']
      exact ih'

/-! ### stream identifiers -/

/-- identifiers of the live streams: all handed out already, pairwise distinct; `n` bounds the number of packets seen -/
structure IdInv (f : LFollower) (n : Nat) : Prop where
  bound : f.lastId ≤ n
  below : ∀ e ∈ f.sessions, e.2.id < f.lastId
  nodup : (f.sessions.map (·.2.id)).Nodup

theorem key_unique {m : Sessions} (hu : (m.map (·.1)).Nodup) {x y : SInfo × TStream} (hx : x ∈ m) (hy : y ∈ m)
    (h : x.1 = y.1) : x = y := by
  induction m with
  | nil => cases hx
  | cons z r ih =>
    rw [List.map_cons, List.nodup_cons] at hu
    rcases List.mem_cons.mp hx with rfl | hx' <;> rcases List.mem_cons.mp hy with rfl | hy'
    · rfl
    · exact absurd (List.mem_map.mpr ⟨y, hy', h.symm⟩) hu.1
    · exact absurd (List.mem_map.mpr ⟨x, hx', h⟩) hu.1
    · exact ih hu.2 hx' hy'

theorem sset_ids {m : Sessions} {k : SInfo} {t : TStream} (h : ∀ x ∈ m, x.1 = k → x.2.id = t.id) :
    (sset m k t).map (·.2.id) = m.map (·.2.id) := by
  induction m with
  | nil => rfl
  | cons x r ih =>
    rw [sset_cons, List.map_cons, List.map_cons, ih (fun y hy => h y (List.mem_cons_of_mem _ hy))]
    split
    · next hx => rw [← h x List.mem_cons_self hx]
    · rfl

theorem deliver_IdInv {f : LFollower} {n : Nat} (hi : SInv f.sessions) (hid : IdInv f n) {k : SInfo}
    {e : SInfo × TStream} (p : LPkt) (hf : sfind f.sessions k = some e) : IdInv (f.deliver e.1 e.2 p).1 n := by
  obtain ⟨hek, hem⟩ := sfind_some hf
  obtain ⟨_, d2, d3⟩ := deliver_eq f e.1 e.2 p
  have hsame : ∀ x ∈ f.sessions, x.1 = e.1 → x.2.id = (e.2.update p).1.id := by
    intro x hx hk
    rw [key_unique hi.uniq hx hem hk, (update_info e.2 p).2]
  refine ⟨by rw [d2]; exact hid.bound, ?_, ?_⟩
  · intro x hx
    rw [d2]
    rw [d3] at hx
    split at hx
    · exact hid.below x (mem_serase hx).1
    · rcases mem_sset hx with rfl | hx
      · show (e.2.update p).1.id < _
        rw [(update_info e.2 p).2]; exact hid.below e hem
      · exact hid.below x hx
  · rw [d3]
    split
    · exact List.Nodup.sublist (List.Sublist.map _ List.filter_sublist) hid.nodup
    · rw [sset_ids hsame]; exact hid.nodup

theorem callback_IdInv {f : LFollower} {n : Nat} (hi : SInv f.sessions) (hid : IdInv f n) (hn : n + 1 < 18446744073709551616)
    (p : LPkt) : IdInv (f.callback p).1 (n + 1) := by
  have mono : ∀ g : LFollower, IdInv g n → IdInv g (n + 1) := fun g h => ⟨Nat.le_succ_of_le h.bound, h.below, h.nodup⟩
  unfold LFollower.callback
  cases h1 : sfind f.sessions p.info with
  | some e => exact mono _ (deliver_IdInv hi hid p h1)
  | none =>
    simp only
    cases h2 : sfind f.sessions p.info.swap with
    | some e => exact mono _ (deliver_IdInv hi hid p h2)
    | none =>
      simp only
      split
      · have hb := hid.bound
        have hl : (f.lastId + 1) % 18446744073709551616 = f.lastId + 1 := Nat.mod_eq_of_lt (by omega)
        refine ⟨?_, ?_, ?_⟩
        · show (f.lastId + 1) % 18446744073709551616 ≤ n + 1
          rw [hl]; omega
        · intro x hx
          show x.2.id < (f.lastId + 1) % 18446744073709551616
          rw [hl]
          rcases List.mem_append.mp hx with h | h
          · have := hid.below x h; omega
          · simp only [List.mem_singleton] at h; rw [h]; show f.lastId < _; omega
        · show ((f.sessions ++ [(p.info.swap, TStream.ofSyn p f.lastId)]).map (·.2.id)).Nodup
          rw [List.map_append, List.nodup_append]
          refine ⟨hid.nodup, by simp, ?_⟩
          intro a ha b hb'
          simp only [List.map_cons, List.map_nil, List.mem_singleton] at hb'
          obtain ⟨x, hx, rfl⟩ := List.mem_map.mp ha
          have := hid.below x hx
          rw [hb']
          show x.2.id ≠ f.lastId
          omega
      · exact mono _ hid

theorem after_IdInv {f : LFollower} {n : Nat} (hi : SInv f.sessions) (hid : IdInv f n) (ps : List LPkt)
    (hn : n + ps.length < 18446744073709551616) : IdInv (f.after ps) (n + ps.length) := by
  induction ps generalizing f n with
  | nil => exact hid
  | cons p ps ih =>
    have h1 : n + 1 < 18446744073709551616 := by simp only [List.length_cons] at hn; omega
    have := ih (callback_SInv hi p) (callback_IdInv hi hid h1 p) (by simp only [List.length_cons] at hn; omega)
    simp only [List.length_cons]
    rw [show n + (ps.length + 1) = n + 1 + ps.length by omega]
    exact this

end Tins.DT
