import TinsModel.Tcp.LemmasSim
import TinsModel.Tcp.LemmasTotal
/-
  Glue: the model run over a valid arrival history is simulated by the abstract run, the byte counter does
  not overflow for streams of at most 64 KiB, and the invariants give the spec's observations.
-/
namespace Tins.DT

theorem Sim_init {isn : Nat} (h : isn < 4294967296) : Sim isn (Tracker.init isn) ATracker.init := by
  refine ⟨?_, rfl, rfl⟩
  show isn = wrap32 (isn + 0)
  unfold wrap32; omega

/-- the wrapped run is simulated by the abstract run and the abstract run keeps its invariant -/
theorem run_sim {s : Bytes} {isn : Nat} (hN : s.length < 2147483648) (hisn : isn < 4294967296) {h : List SegD}
    (hok : HistOK s h) : Sim isn (runModel isn h) (runAbstract false h) := by
  induction h with
  | nil => exact Sim_init hisn
  | cons g h ih =>
    obtain ⟨⟨hwin, hin, hag⟩, hrest⟩ := hok
    have hinv := runAbstract_AInv (tie := false) hrest
    rw [AInv_frontier hinv] at hwin
    exact (processPayload_sim hN (ih hrest) hinv g.off g.data hwin hin hag).1

theorem runModel_TotInv (isn : Nat) (h : List SegD) : TotInv (runModel isn h) := by
  induction h with
  | nil => exact TotInv_init isn
  | cons g h ih => exact processPayload_TotInv ih _ _

/-! ### the byte counter cannot overflow for streams of at most 64 KiB -/

theorem nodup_length_le (l : List Nat) (hn : l.Nodup) (n : Nat) (h : ∀ x ∈ l, x < n) : l.length ≤ n := by
  induction n generalizing l with
  | zero =>
    cases l with
    | nil => simp
    | cons x xs => exact absurd (h x List.mem_cons_self) (Nat.not_lt_zero _)
  | succ n ih =>
    have h1 : (l.erase n).length ≤ n := by
      apply ih _ (hn.erase n)
      intro x hx
      rw [hn.mem_erase_iff] at hx
      have := h x hx.2; omega
    rw [List.length_erase] at h1
    split at h1 <;> omega

theorem sumSizes_le (m : Chunks) (B : Nat) (h : ∀ c ∈ m, c.2.length ≤ B) : sumSizes m ≤ m.length * B := by
  induction m with
  | nil => simp [sumSizes]
  | cons c r ih =>
    rw [sumSizes_cons, List.length_cons, Nat.succ_mul]
    have := ih (fun x hx => h x (List.mem_cons_of_mem _ hx))
    have := h c List.mem_cons_self
    omega

theorem AInv_sumSizes_lt {s : Bytes} {cov : Nat → Prop} {t : ATracker} (h : AInv s cov t) (hs : s.length ≤ 65536) :
    sumSizes t.buf < 4294967296 := by
  have h1 : t.buf.length ≤ s.length + 1 := by
    have := nodup_length_le (keys t.buf) h.1.nodup (s.length + 1) (by
      intro x hx
      obtain ⟨d, hd⟩ := mem_keys.mp hx
      have := (h.1.chunks _ hd).inside
      simp only at this; omega)
    simpa [keys] using this
  have h2 := sumSizes_le t.buf (s.length - 1) (by
    intro c hc
    have := (h.1.chunks _ hc).inside
    have := h.2 c hc
    omega)
  have h3 : t.buf.length * (s.length - 1) ≤ 65537 * 65535 := Nat.mul_le_mul (by omega) (by omega)
  omega

/-! ### the observations demanded by the spec -/

theorem chunks_all_ok {s : Bytes} {cov : Nat → Prop} {isn : Nat} {t : ATracker} (h : AInv s cov t)
    (hN : s.length < 2147483648) :
    (mapW isn t.buf).all (fun c =>
      let a := t.k + sub32 c.1 (W isn t.k)
      decide (t.k < a) && decide (a + c.2.length ≤ s.length) && c.2 == (s.drop a).take c.2.length) = true := by
  rw [List.all_eq_true]
  intro c hc
  obtain ⟨c0, hc0, rfl⟩ := List.mem_map.mp hc
  have hok := h.1.chunks c0 hc0
  have habove := h.2 c0 hc0
  have hin := hok.inside
  have hsub : sub32 (W isn c0.1) (W isn t.k) = c0.1 - t.k := sub32_W (by omega) (by omega)
  simp only [hsub]
  have ha : t.k + (c0.1 - t.k) = c0.1 := by omega
  rw [ha]
  have hag := hok.agrees
  unfold slice at hag
  simp only [Bool.and_eq_true, decide_eq_true_eq, beq_iff_eq]
  exact ⟨⟨habove, hin⟩, hag⟩

/-! ### facts about the spec's `frontier` -/

theorem frontier_le (h : List Seg) (n : Nat) : frontier h n ≤ n := by
  induction n with
  | zero => simp [frontier]
  | succ n ih =>
    simp only [frontier]
    split
    · omega
    · split <;> omega

theorem frontier_ge (h : List Seg) (m n : Nat) (hn : n ≤ m) (hc : ∀ p, p < n → covered h p = true) :
    n ≤ frontier h m := by
  induction m generalizing n with
  | zero => omega
  | succ m ih =>
    simp only [frontier]
    by_cases hnm : n ≤ m
    · have := ih n hnm hc
      have := frontier_le h m
      split
      · omega
      · split <;> omega
    · have hn' : n = m + 1 := by omega
      subst hn'
      have h1 := ih m (Nat.le_refl _) (fun p hp => hc p (by omega))
      have h2 := frontier_le h m
      rw [if_neg (by omega), if_pos (hc m (by omega))]
      omega

theorem frontier_below (h : List Seg) (n p : Nat) (hp : p < frontier h n) : covered h p = true := by
  induction n with
  | zero => simp [frontier] at hp
  | succ n ih =>
    simp only [frontier] at hp
    have hle := frontier_le h n
    split at hp
    · exact ih hp
    · next hk =>
      have hk' : frontier h n = n := by omega
      split at hp
      · next hc =>
        by_cases e : p = n
        · rw [e]; exact hc
        · exact ih (by omega)
      · exact ih (by omega)

theorem advanceFrom_eq (h : List Seg) (n fuel k : Nat) (hk : k ≤ n) (hbelow : ∀ p, p < k → covered h p = true)
    (hf : n - k < fuel) : advanceFrom h n fuel k = frontier h n := by
  induction fuel generalizing k with
  | zero => omega
  | succ fuel ih =>
    simp only [advanceFrom]
    split
    · next hc =>
      apply ih (k + 1) (by omega) _ (by omega)
      intro p hp
      by_cases e : p = k
      · rw [e]; exact hc.2
      · exact hbelow p (by omega)
    · next hc =>
      symm
      apply frontier_eq h n k hk hbelow
      by_cases e : k = n
      · exact Or.inl e
      · right
        cases hcv : covered h k with
        | false => rfl
        | true => exact absurd ⟨by omega, hcv⟩ hc

/-- the oracle's incremental frontier is the spec's frontier -/
theorem frontier_cons_advance (g : Seg) (h : List Seg) (n : Nat) :
    advanceFrom (g :: h) n (n + 1) (frontier h n) = frontier (g :: h) n := by
  apply advanceFrom_eq _ _ _ _ (frontier_le h n)
  · intro p hp
    have h1 := frontier_below h n p hp
    unfold covered at h1 ⊢
    rw [List.any_cons, h1, Bool.or_true]
  · have := frontier_le h n; omega

/-- a history whose segments satisfy the static condition is valid -/
theorem histOK_of_static {s : Bytes} {h : List SegD} (hall : ∀ g ∈ h, g.okStatic s) : HistOK s h := by
  induction h with
  | nil => trivial
  | cons g h ih =>
    refine ⟨?_, ih (fun x hx => hall x (List.mem_cons_of_mem _ hx))⟩
    obtain ⟨h1, h2, h3⟩ := hall g List.mem_cons_self
    refine ⟨?_, h2, h3⟩
    have := frontier_le (h.map SegD.seg) s.length
    omega

theorem runModelFwd_eq (isn : Nat) (h : List SegD) : runModelFwd isn h = runModel isn h.reverse := by
  unfold runModelFwd
  rw [List.foldl_eq_foldr_reverse]
  generalize h.reverse = r
  induction r with
  | nil => rfl
  | cons g r ih => simp only [List.foldr_cons, runModel]; rw [ih]

end Tins.DT
