import TinsModel.Tcp.DataTracker
/-
  Specification of TCP stream reassembly (property C06), written without reference to the
  implementation: a stream `s`, an initial sequence number, and an arrival history of segments
  given by their *absolute* offsets (negative = stale bytes before the ISN).
-/
namespace Tins.DT

/-- a segment of the underlying stream: absolute offset (may be negative) and length -/
structure Seg where
  off : Int
  len : Nat
deriving Repr

/-- position `p` of the stream has arrived -/
def covered (h : List Seg) (p : Nat) : Bool :=
  h.any (fun g => decide (g.off ≤ (p : Int) ∧ (p : Int) < g.off + g.len))

/-- least position `< n` that has not arrived, else `n` -/
def frontier (h : List Seg) : Nat → Nat
  | 0 => 0
  | n + 1 => let k := frontier h n; if k < n then k else if covered h n then n + 1 else n

/-- what the application can observe of a tracker -/
structure Obs where
  seq : Nat
  total : Nat
  payload : Bytes
  buf : Chunks

def Tracker.obs (t : Tracker) : Obs := ⟨t.seq, t.total, t.payload, t.buf⟩

/-- the required observations when the delivery point is `k` -/
def specOKat (s : Bytes) (isn : Nat) (k : Nat) (o : Obs) : Bool :=
  o.payload == s.take k &&
  o.seq == wrap32 (isn + k) &&
  o.total == (o.buf.map (fun c => c.2.length)).sum &&
  o.buf.all (fun c =>
    let a := k + sub32 c.1 o.seq      -- absolute start of the chunk
    decide (k < a) && decide (a + c.2.length ≤ s.length) && c.2 == (s.drop a).take c.2.length)

/-- The required observations after the arrivals `h` of stream `s` with initial sequence `isn`
    (as a decidable check, used verbatim as the run-time oracle on the implementation's output):
    delivered = `s.take k`; `seq = isn + k` (mod 2^32); every buffered chunk starts strictly above `k`,
    lies inside `s` and equals that slice of `s`; `total` = the bytes actually held. -/
def specOK (s : Bytes) (isn : Nat) (h : List Seg) (o : Obs) : Bool :=
  specOKat s isn (frontier h s.length) o

/-- `frontier` computed incrementally: starting from a position `k` below which everything has arrived, walk
    up while the position has arrived (`frontier_cons_advance`: this is how the run-time oracle follows the
    frontier from one arrival to the next) -/
def advanceFrom (h : List Seg) (n : Nat) : Nat → Nat → Nat
  | 0, k => k
  | fuel + 1, k => if k < n ∧ covered h k = true then advanceFrom h n fuel (k + 1) else k

/-- `specOK` with the byte counter compared modulo 2^32 (the counter is a `uint32_t`; the two coincide whenever
    less than 4 GiB are buffered, in particular for every stream of at most 64 KiB) -/
def specOKw (s : Bytes) (isn : Nat) (h : List Seg) (o : Obs) : Bool :=
  let k := frontier h s.length
  o.payload == s.take k &&
  o.seq == wrap32 (isn + k) &&
  o.total == wrap32 (o.buf.map (fun c => c.2.length)).sum &&
  o.buf.all (fun c =>
    let a := k + sub32 c.1 o.seq
    decide (k < a) && decide (a + c.2.length ≤ s.length) && c.2 == (s.drop a).take c.2.length)

/-! ### arrival histories as the quantifier of the property theorems -/

/-- an arriving segment: absolute offset of its first byte (negative = before the ISN) and the bytes it carries -/
structure SegD where
  off : Int
  data : Bytes
deriving Repr

def SegD.seg (g : SegD) : Seg := ⟨g.off, g.data.length⟩

/-- the 32-bit sequence number a sender with initial sequence number `isn` puts on absolute offset `off` -/
def seqOf (isn : Nat) (off : Int) : Nat := (((isn : Int) + off) % 4294967296).toNat

/-- the segment carries bytes of the stream `s`: it agrees with `s` on its non-negative part
    (bytes before the ISN are arbitrary) -/
def SegD.agrees (s : Bytes) (g : SegD) : Prop :=
  g.data.drop (-g.off).toNat = (s.drop g.off.toNat).take (g.data.length - (-g.off).toNat)

instance (s : Bytes) (g : SegD) : Decidable (g.agrees s) := by unfold SegD.agrees; infer_instance

/-- a segment that may arrive when the delivery point is `k`: it starts less than half the sequence space
    before `k`, ends inside the stream, and carries bytes of the stream -/
def SegD.okAt (s : Bytes) (k : Nat) (g : SegD) : Prop :=
  (k : Int) - g.off < 2147483648 ∧ g.off + (g.data.length : Int) ≤ (s.length : Int) ∧ g.agrees s

instance (s : Bytes) (k : Nat) (g : SegD) : Decidable (g.okAt s k) := by unfold SegD.okAt; infer_instance

/-- arrival histories are lists with the LATEST arrival first; every arrival is valid w.r.t. the delivery
    point reached by the arrivals before it -/
def HistOK (s : Bytes) : List SegD → Prop
  | [] => True
  | g :: h => g.okAt s (frontier (h.map SegD.seg) s.length) ∧ HistOK s h

instance HistOK.instDecidable (s : Bytes) : (h : List SegD) → Decidable (HistOK s h)
  | [] => isTrue trivial
  | g :: h =>
    have := HistOK.instDecidable s h
    (inferInstance : Decidable (g.okAt s (frontier (h.map SegD.seg) s.length) ∧ HistOK s h))

/-- sufficient static condition for a valid history: every segment starts less than 2^31 before the END of the
    stream (hence before any delivery point), ends inside the stream and carries bytes of the stream -/
def SegD.okStatic (s : Bytes) (g : SegD) : Prop :=
  (s.length : Int) - g.off < 2147483648 ∧ g.off + (g.data.length : Int) ≤ (s.length : Int) ∧ g.agrees s

instance (s : Bytes) (g : SegD) : Decidable (g.okStatic s) := by unfold SegD.okStatic; infer_instance

/-- the public mutators of `DataTracker` (for statements about every reachable state) -/
inductive Op where
  | seg (seq : Nat) (payload : Bytes)
  | adv (seq : Nat)

def applyOp (t : Tracker) : Op → Tracker
  | .seg q p => (processPayload t q p).1
  | .adv q => advanceSequence t q

/-- the model run over an arrival history given OLDEST arrival first (the order of time) -/
def runModelFwd (isn : Nat) (h : List SegD) : Tracker :=
  h.foldl (fun t g => (processPayload t (seqOf isn g.off) g.data).1) (Tracker.init isn)

/-- the model run over an arrival history (latest arrival first) from `DataTracker(isn)` -/
def runModel (isn : Nat) : List SegD → Tracker
  | [] => Tracker.init isn
  | g :: h => (processPayload (runModel isn h) (seqOf isn g.off) g.data).1

end Tins.DT
