import TinsModel.Tcp.DataTracker
/-
  Specification of TCP stream reassembly (property C06), written without reference to the
  implementation: a stream `s`, an initial sequence number, and an arrival history of segments
  given by their *absolute* offsets (negative = stale bytes before the ISN).
-/
namespace Tins.DT

/-- a segment of the underlying stream: absolute offset (may be negative) and length -/
structure Seg where
  off : Int
  len : Nat
deriving Repr

/-- position `p` of the stream has arrived -/
def covered (h : List Seg) (p : Nat) : Bool :=
  h.any (fun g => decide (g.off ≤ (p : Int) ∧ (p : Int) < g.off + g.len))

/-- least position `< n` that has not arrived, else `n` -/
def frontier (h : List Seg) : Nat → Nat
  | 0 => 0
  | n + 1 => let k := frontier h n; if k < n then k else if covered h n then n + 1 else n

/-- what the application can observe of a tracker -/
structure Obs where
  seq : Nat
  total : Nat
  payload : Bytes
  buf : Chunks

def Tracker.obs (t : Tracker) : Obs := ⟨t.seq, t.total, t.payload, t.buf⟩

/-- The required observations after the arrivals `h` of stream `s` with initial sequence `isn`
    (as a decidable check, used verbatim as the run-time oracle on the implementation's output):
    delivered = `s.take k`; `seq = isn + k` (mod 2^32); every buffered chunk starts strictly above `k`,
    lies inside `s` and equals that slice of `s`; `total` = the bytes actually held. -/
def specOK (s : Bytes) (isn : Nat) (h : List Seg) (o : Obs) : Bool :=
  let k := frontier h s.length
  o.payload == s.take k &&
  o.seq == wrap32 (isn + k) &&
  o.total == (o.buf.map (fun c => c.2.length)).sum &&
  o.buf.all (fun c =>
    let a := k + sub32 c.1 o.seq      -- absolute start of the chunk
    decide (k < a) && decide (a + c.2.length ≤ s.length) && c.2 == (s.drop a).take c.2.length)

end Tins.DT
