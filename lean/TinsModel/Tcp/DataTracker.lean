import TinsModel.Basic.Seq32
/-
  Code-shaped model of `Tins::TCPIP::DataTracker` (src/tcp_ip/data_tracker.cpp).

  * `buffered_payload_` (a `std::map<uint32_t, payload_type>`) is an association list with
    unique keys; the only order-dependent operation the class uses is the iterator successor
    in `erase_iterator` (`++iter`, wrapping to `begin()`), which is defined order-theoretically
    by `cyclicSucc` (least key greater than `k`, else the least key).
  * `total_buffered_bytes_` is `uint32_t`: every update wraps.
  * A chunk that has been `std::move`d from counts 0 bytes in `erase_iterator`.
  * `added_some` is set only when a NON-EMPTY chunk is appended (the model follows the commit
    "fix: DataTracker::process_payload reports new data for a retransmission that adds none").
-/
namespace Tins.DT

abbrev Chunks := List (Nat × Bytes)

def lookup (m : Chunks) (k : Nat) : Option Bytes :=
  match m with
  | [] => none
  | (k', d) :: r => if k' = k then some d else lookup r k

def erase (m : Chunks) (k : Nat) : Chunks := m.filter (fun p => p.1 != k)

/-- replace-or-insert (`operator[]`-style assignment / `insert`) -/
def put (m : Chunks) (k : Nat) (d : Bytes) : Chunks := (k, d) :: erase m k

def minKey? : List Nat → Option Nat
  | [] => none
  | x :: xs => match minKey? xs with
    | none => some x
    | some y => some (if x ≤ y then x else y)

/-- `++iter; if (iter == end()) iter = begin();` on a map that no longer holds `k`. -/
def cyclicSucc (m : Chunks) (k : Nat) : Option Nat :=
  match minKey? ((m.map (·.1)).filter (fun x => k < x)) with
  | some x => some x
  | none => minKey? (m.map (·.1))

structure Tracker where
  seq : Nat
  buf : Chunks
  total : Nat
  payload : Bytes
deriving Repr, DecidableEq

def Tracker.init (seq : Nat) : Tracker := { seq := seq, buf := [], total := 0, payload := [] }

/-- `DataTracker::store_payload` -/
def storePayload (t : Tracker) (seq : Nat) (payload : Bytes) : Tracker :=
  match lookup t.buf seq with
  | none => { t with total := wrap32 (t.total + payload.length), buf := put t.buf seq payload }
  | some old =>
    if old.length < payload.length then
      { t with total := wrap32 (t.total + (payload.length - old.length)),
               buf := put t.buf seq payload }
    else t

/-- `DataTracker::erase_iterator`; `counted` is `iter->second.size()` at the time of the call
    (0 when the chunk has been moved from). Returns the new state and the next iterator. -/
def eraseIterator (t : Tracker) (k : Nat) (counted : Nat) : Tracker × Option Nat :=
  let buf' := erase t.buf k
  ({ t with total := sub32 t.total (wrap32 counted), buf := buf' }, cyclicSucc buf' k)

/-- the `while` loop of `process_payload`, `fuel` iterations at most -/
def drain : Nat → Tracker → Option Nat → Bool → Tracker × Bool
  | 0, t, _, added => (t, added)
  | fuel + 1, t, iter, added =>
    match iter with
    | none => (t, added)
    | some key =>
      match lookup t.buf key with
      | none => (t, added)   -- unreachable: iterators always designate a stored key
      | some chunk =>
        if seqCompare key t.seq ≤ 0 then
          if seqCompare key t.seq < 0 then
            let fragmentEnd := wrap32 (key + chunk.length)
            if seqCompare fragmentEnd t.seq > 0 then
              let t1 := { t with total := sub32 t.total (wrap32 chunk.length) }
              let sliced := chunk.drop (sub32 t.seq key)
              -- the moved-from chunk stays in the map (counting 0) until erased just below
              let t2 := storePayload t1 t.seq sliced
              let (t3, it) := eraseIterator t2 key 0
              drain fuel t3 it added
            else
              let (t3, it) := eraseIterator t key chunk.length
              drain fuel t3 it added
          else
            let t1 := { t with payload := t.payload ++ chunk, seq := wrap32 (t.seq + chunk.length) }
            let (t2, it) := eraseIterator t1 key chunk.length
            -- `if (!iter->second.empty()) added_some = true;`
            drain fuel t2 it (added || !chunk.isEmpty)
        else (t, added)

/-- `DataTracker::process_payload(seq, payload)` -/
def processPayload (t : Tracker) (seq : Nat) (payload : Bytes) : Tracker × Bool :=
  let chunkEnd := wrap32 (seq + payload.length)
  if seqCompare chunkEnd t.seq < 0 then (t, false)
  else
    let (seq', payload') :=
      if seqCompare seq t.seq < 0 then (t.seq, payload.drop (sub32 t.seq seq)) else (seq, payload)
    let t1 := storePayload t seq' payload'
    let iter := if (lookup t1.buf t1.seq).isSome then some t1.seq else none
    drain (2 * t1.buf.length + 2) t1 iter false

/-- `DataTracker::advance_sequence(seq)` -/
def advanceSequence (t : Tracker) (seq : Nat) : Tracker :=
  if seqCompare seq t.seq ≤ 0 then t
  else
    let keep := t.buf.filter (fun p => !(seqCompare p.1 seq ≤ 0))
    let dropped := t.buf.filter (fun p => seqCompare p.1 seq ≤ 0)
    { t with seq := seq, buf := keep,
             total := dropped.foldl (fun tot p => sub32 tot (wrap32 p.2.length)) t.total }

/-- keys of the map, in list order -/
def keys (m : Chunks) : List Nat := m.map (·.1)

/-- the bytes actually held by the map -/
def sumSizes (m : Chunks) : Nat := (m.map (fun c => c.2.length)).sum

end Tins.DT
