import TinsModel.Tcp.LemmasChunks
import TinsModel.Basic.Seq32Lemmas
/-
  The drain loop of `process_payload` unfolded into one equation (`drain_succ`) whose branches are named
  states (`sliceState`, `discardState`, `deliverState`); every later induction uses this equation.
-/
namespace Tins.DT

/-- state after the slice branch of the drain loop -/
def sliceState (t : Tracker) (key : Nat) (chunk : Bytes) : Tracker :=
  let t2 := storePayload { t with total := sub32 t.total (wrap32 chunk.length) } t.seq (chunk.drop (sub32 t.seq key))
  { t2 with total := sub32 t2.total (wrap32 0), buf := erase t2.buf key }

def discardState (t : Tracker) (key : Nat) (chunk : Bytes) : Tracker :=
  { t with total := sub32 t.total (wrap32 chunk.length), buf := erase t.buf key }

def deliverState (t : Tracker) (key : Nat) (chunk : Bytes) : Tracker :=
  { t with payload := t.payload ++ chunk, seq := wrap32 (t.seq + chunk.length),
           total := sub32 t.total (wrap32 chunk.length), buf := erase t.buf key }

theorem drain_zero (t : Tracker) (iter : Option Nat) (added : Bool) : drain 0 t iter added = (t, added) := rfl
theorem drain_none (fuel : Nat) (t : Tracker) (added : Bool) : drain fuel t none added = (t, added) := by
  cases fuel <;> rfl

theorem drain_succ (fuel : Nat) (t : Tracker) (key : Nat) (added : Bool) :
    drain (fuel + 1) t (some key) added =
      match lookup t.buf key with
      | none => (t, added)
      | some chunk =>
        if seqCompare key t.seq ≤ 0 then
          if seqCompare key t.seq < 0 then
            if seqCompare (wrap32 (key + chunk.length)) t.seq > 0 then
              drain fuel (sliceState t key chunk) (cyclicSucc (sliceState t key chunk).buf key) added
            else
              drain fuel (discardState t key chunk) (cyclicSucc (discardState t key chunk).buf key) added
          else
            drain fuel (deliverState t key chunk) (cyclicSucc (deliverState t key chunk).buf key)
              (added || !chunk.isEmpty)
        else (t, added) := by
  rfl

/-- sequence number under which `process_payload` stores the (possibly sliced) segment -/
def inSeq (t : Tracker) (seq : Nat) : Nat := if seqCompare seq t.seq < 0 then t.seq else seq
/-- the (possibly sliced) payload `process_payload` stores -/
def inPayload (t : Tracker) (seq : Nat) (payload : Bytes) : Bytes :=
  if seqCompare seq t.seq < 0 then payload.drop (sub32 t.seq seq) else payload
/-- state after `store_payload` in `process_payload` -/
def storedState (t : Tracker) (seq : Nat) (payload : Bytes) : Tracker :=
  storePayload t (inSeq t seq) (inPayload t seq payload)

theorem processPayload_eq (t : Tracker) (seq : Nat) (payload : Bytes) :
    processPayload t seq payload =
      if seqCompare (wrap32 (seq + payload.length)) t.seq < 0 then (t, false)
      else drain (2 * (storedState t seq payload).buf.length + 2) (storedState t seq payload)
        (if (lookup (storedState t seq payload).buf (storedState t seq payload).seq).isSome
          then some (storedState t seq payload).seq else none) false := by
  unfold processPayload storedState inSeq inPayload
  by_cases h1 : seqCompare (wrap32 (seq + payload.length)) t.seq < 0
  · simp only [h1, if_true]
  · by_cases h2 : seqCompare seq t.seq < 0 <;> simp only [h1, h2, if_true, if_false]

theorem storePayload_seq (t : Tracker) (seq : Nat) (p : Bytes) : (storePayload t seq p).seq = t.seq := by
  unfold storePayload; split <;> (try split) <;> rfl

theorem storePayload_payload (t : Tracker) (seq : Nat) (p : Bytes) :
    (storePayload t seq p).payload = t.payload := by
  unfold storePayload; split <;> (try split) <;> rfl

theorem storePayload_nodup {t : Tracker} (hn : (keys t.buf).Nodup) (seq : Nat) (p : Bytes) :
    (keys (storePayload t seq p).buf).Nodup := by
  unfold storePayload; split
  · exact nodup_put hn _ _
  · split
    · exact nodup_put hn _ _
    · exact hn

theorem storePayload_lookup_ne {t : Tracker} {seq a : Nat} (p : Bytes) (h : a ≠ seq) :
    lookup (storePayload t seq p).buf a = lookup t.buf a := by
  unfold storePayload; split
  · exact lookup_put_ne _ h
  · split
    · exact lookup_put_ne _ h
    · rfl

theorem seqCompare_self (a : Nat) : seqCompare a a = 0 := by simp [seqCompare]

theorem ne_of_seqCompare_neg {a b : Nat} (h : seqCompare a b < 0) : a ≠ b := by
  intro e; rw [e, seqCompare_self] at h; exact absurd h (by decide)

end Tins.DT
