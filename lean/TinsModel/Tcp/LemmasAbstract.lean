import TinsModel.Tcp.Abstract
import TinsModel.Tcp.LemmasChunks
/-
  The abstract tracker (absolute positions) keeps its invariant: delivered = prefix of the stream, every
  buffered chunk is a slice of the stream that has arrived, every arrived position at or above the delivery
  point is held by some buffered chunk, and after the drain loop every chunk starts strictly above the
  delivery point.  `cov p` = "position p has arrived".
-/
namespace Tins.DT

variable {tie : Bool}

def slice (s : Bytes) (a n : Nat) : Bytes := (s.drop a).take n

/-- chunk `c` holds position `p` -/
def Covers (c : Nat × Bytes) (p : Nat) : Prop := c.1 ≤ p ∧ p < c.1 + c.2.length

structure ChunkOK (s : Bytes) (cov : Nat → Prop) (c : Nat × Bytes) : Prop where
  inside : c.1 + c.2.length ≤ s.length
  agrees : c.2 = slice s c.1 c.2.length
  arrived : ∀ p, Covers c p → cov p

/-- invariant that holds at every iteration of the drain loop -/
structure DInv (s : Bytes) (cov : Nat → Prop) (t : ATracker) : Prop where
  k_le : t.k ≤ s.length
  payload_eq : t.payload = s.take t.k
  below : ∀ p, p < t.k → cov p
  nodup : (keys t.buf).Nodup
  chunks : ∀ c ∈ t.buf, ChunkOK s cov c
  covers : ∀ p, t.k ≤ p → cov p → ∃ c ∈ t.buf, Covers c p

/-- invariant between calls: additionally nothing at or below the delivery point stays buffered -/
def AInv (s : Bytes) (cov : Nat → Prop) (t : ATracker) : Prop := DInv s cov t ∧ ∀ c ∈ t.buf, t.k < c.1

/-- the iterator of the drain loop designates the least key; `none` only when nothing is at or below `k` -/
def IterOK (t : ATracker) : Option Nat → Prop
  | none => ∀ c ∈ t.buf, t.k < c.1
  | some a => minKey? (keys t.buf) = some a

/-- loop variant of the drain loop -/
def mu (t : ATracker) : Nat := 2 * t.buf.length + (if t.k ∈ keys t.buf then 0 else 1)

/-! ### `astore` -/

theorem mem_astore {b : Chunks} {a : Nat} {d : Bytes} {c : Nat × Bytes} (h : c ∈ astore tie b a d) :
    c ∈ b ∨ c = (a, d) := by
  unfold astore at h
  split at h
  · rcases mem_put.mp h with h | h
    · exact Or.inr h
    · exact Or.inl h.1
  · split at h
    · rcases mem_put.mp h with h | h
      · exact Or.inr h
      · exact Or.inl h.1
    · exact Or.inl h

theorem nodup_astore {b : Chunks} (hn : (keys b).Nodup) (a : Nat) (d : Bytes) : (keys (astore tie b a d)).Nodup := by
  unfold astore
  split
  · exact nodup_put hn _ _
  · split
    · exact nodup_put hn _ _
    · exact hn

theorem mem_keys_astore {b : Chunks} {a x : Nat} {d : Bytes} : x ∈ keys (astore tie b a d) ↔ x = a ∨ x ∈ keys b := by
  unfold astore
  split
  · exact mem_keys_put
  · next old hl =>
    split
    · exact mem_keys_put
    · constructor
      · exact Or.inr
      · rintro (h | h)
        · subst h; exact mem_keys_of_mem (lookup_some_mem hl)
        · exact h

theorem astore_covers_old {b : Chunks} (hn : (keys b).Nodup) (a : Nat) (d : Bytes) {c : Nat × Bytes} {p : Nat}
    (hc : c ∈ b) (hp : Covers c p) : ∃ c' ∈ astore tie b a d, c'.1 = c.1 ∧ Covers c' p := by
  unfold astore
  split
  · next hl =>
    have : c.1 ≠ a := fun e => lookup_none_iff.mp hl (e ▸ mem_keys_of_mem hc)
    exact ⟨c, mem_put.mpr (Or.inr ⟨hc, this⟩), rfl, hp⟩
  · next old hl =>
    split
    · next hlt =>
      have hlt : old.length ≤ d.length := by
        simp only [Bool.or_eq_true, decide_eq_true_eq, Bool.and_eq_true, beq_iff_eq] at hlt; omega
      by_cases e : c.1 = a
      · have h1 : lookup b c.1 = some c.2 := lookup_of_mem hn hc
        rw [e, hl] at h1
        have h2 : c.2 = old := by cases h1; rfl
        refine ⟨(a, d), mem_put.mpr (Or.inl rfl), e.symm, ?_⟩
        unfold Covers at hp ⊢
        rw [e, h2] at hp
        simp only; omega
      · exact ⟨c, mem_put.mpr (Or.inr ⟨hc, e⟩), rfl, hp⟩
    · exact ⟨c, hc, rfl, hp⟩

theorem astore_covers_new (b : Chunks) {a : Nat} {d : Bytes} {p : Nat}
    (hp : Covers (a, d) p) : ∃ c' ∈ astore tie b a d, c'.1 = a ∧ Covers c' p := by
  unfold astore
  split
  · exact ⟨(a, d), mem_put.mpr (Or.inl rfl), rfl, hp⟩
  · next old hl =>
    split
    · exact ⟨(a, d), mem_put.mpr (Or.inl rfl), rfl, hp⟩
    · next hge =>
      have hge : d.length ≤ old.length := by
        simp only [Bool.or_eq_true, decide_eq_true_eq, Bool.and_eq_true, beq_iff_eq, not_or] at hge; omega
      refine ⟨(a, old), lookup_some_mem hl, rfl, ?_⟩
      unfold Covers at hp ⊢
      simp only at hp ⊢; omega

theorem length_erase_eq {m : Chunks} (hn : (keys m).Nodup) {k : Nat} (h : k ∈ keys m) :
    (erase m k).length + 1 = m.length := by
  induction m with
  | nil => simp [keys] at h
  | cons c r ih =>
    simp only [keys, List.map_cons, List.nodup_cons] at hn
    by_cases e : c.1 = k
    · have : erase (c :: r) k = r := by
        have e' := sumSizes_erase_of_not_mem (m := r) (k := k) (e ▸ hn.1)
        simp only [erase, List.filter_cons] at e' ⊢
        simp [e, e']
      rw [this]; rfl
    · have : erase (c :: r) k = c :: erase r k := by
        simp only [erase, List.filter_cons]
        have : (c.1 != k) = true := by simpa using e
        simp [this]
      rw [this]
      simp only [keys, List.map_cons, List.mem_cons] at h
      rcases h with h | h
      · exact absurd h.symm e
      · have := ih hn.2 h
        simp only [List.length_cons]; omega

theorem length_put {m : Chunks} (hn : (keys m).Nodup) (k : Nat) (d : Bytes) :
    (put m k d).length = m.length + (if k ∈ keys m then 0 else 1) := by
  unfold put
  simp only [List.length_cons]
  split
  · next h => have := length_erase_eq hn h; omega
  · next h => rw [sumSizes_erase_of_not_mem h]

theorem length_astore {b : Chunks} (hn : (keys b).Nodup) (a : Nat) (d : Bytes) :
    (astore tie b a d).length = b.length + (if a ∈ keys b then 0 else 1) := by
  unfold astore
  split
  · exact length_put hn a d
  · next old hl =>
    have hm : a ∈ keys b := mem_keys_of_mem (lookup_some_mem hl)
    rw [if_pos hm]
    split
    · rw [length_put hn a d, if_pos hm]
    · rfl

/-! ### slices of the stream -/

theorem slice_length {s : Bytes} {a n : Nat} (h : a + n ≤ s.length) : (slice s a n).length = n := by
  unfold slice; rw [List.length_take, List.length_drop]; omega

theorem slice_drop {s : Bytes} {a n : Nat} (j : Nat) : (slice s a n).drop j = slice s (a + j) (n - j) := by
  unfold slice; rw [List.drop_take, List.drop_drop]

theorem take_append_slice (s : Bytes) (k n : Nat) : s.take k ++ slice s k n = s.take (k + n) := by
  unfold slice; rw [List.take_add]

/-! ### one iteration of the drain loop keeps `DInv` -/

theorem DInv_slice {s : Bytes} {cov : Nat → Prop} {t : ATracker} (h : DInv s cov t) {a : Nat} {chunk : Bytes}
    (hl : lookup t.buf a = some chunk) (ha : a < t.k) (he : t.k < a + chunk.length) :
    DInv s cov { t with buf := erase (astore tie t.buf t.k (chunk.drop (t.k - a))) a } := by
  have hmem := lookup_some_mem hl
  have hok := h.chunks _ hmem
  have hlen : (chunk.drop (t.k - a)).length = a + chunk.length - t.k := by rw [List.length_drop]; omega
  have hnew : ChunkOK s cov (t.k, chunk.drop (t.k - a)) := by
    refine ⟨?_, ?_, ?_⟩
    · have := hok.inside; simp only at this ⊢; omega
    · have e := hok.agrees
      simp only at e ⊢
      rw [hlen]
      conv => lhs; rw [e]
      rw [slice_drop]; congr 1 <;> omega
    · intro p hp
      apply hok.arrived
      unfold Covers at hp ⊢; simp only at hp ⊢; omega
  refine ⟨h.k_le, h.payload_eq, h.below, nodup_erase (nodup_astore h.nodup _ _) _, ?_, ?_⟩
  · intro c hc
    rcases mem_astore (mem_erase.mp hc).1 with hc | hc
    · exact h.chunks c hc
    · rw [hc]; exact hnew
  · intro p hp hcov
    have hp : t.k ≤ p := hp
    obtain ⟨c, hc, hcp⟩ := h.covers p hp hcov
    by_cases e : c.1 = a
    · -- the position was held by the chunk being sliced: the sliced chunk (or a longer one at `k`) holds it
      have h1 : lookup t.buf c.1 = some c.2 := lookup_of_mem h.nodup hc
      rw [e, hl] at h1
      have h2 : c.2 = chunk := by cases h1; rfl
      have hcp' : Covers (t.k, chunk.drop (t.k - a)) p := by
        unfold Covers at hcp ⊢; rw [e, h2] at hcp; simp only at hcp ⊢; omega
      obtain ⟨c', hc', hk', hcp''⟩ := astore_covers_new t.buf hcp'
      exact ⟨c', mem_erase.mpr ⟨hc', by omega⟩, hcp''⟩
    · obtain ⟨c', hc', hk', hcp'⟩ := astore_covers_old h.nodup t.k (chunk.drop (t.k - a)) hc hcp
      exact ⟨c', mem_erase.mpr ⟨hc', by omega⟩, hcp'⟩

theorem DInv_discard {s : Bytes} {cov : Nat → Prop} {t : ATracker} (h : DInv s cov t) {a : Nat} {chunk : Bytes}
    (hl : lookup t.buf a = some chunk) (he : a + chunk.length ≤ t.k) :
    DInv s cov { t with buf := erase t.buf a } := by
  refine ⟨h.k_le, h.payload_eq, h.below, nodup_erase h.nodup _, ?_, ?_⟩
  · intro c hc; exact h.chunks c (mem_erase.mp hc).1
  · intro p hp hcov
    have hp : t.k ≤ p := hp
    obtain ⟨c, hc, hcp⟩ := h.covers p hp hcov
    refine ⟨c, mem_erase.mpr ⟨hc, ?_⟩, hcp⟩
    intro e
    have h1 : lookup t.buf c.1 = some c.2 := lookup_of_mem h.nodup hc
    rw [e, hl] at h1
    have h2 : c.2 = chunk := by cases h1; rfl
    unfold Covers at hcp; rw [e, h2] at hcp; omega

theorem DInv_deliver {s : Bytes} {cov : Nat → Prop} {t : ATracker} (h : DInv s cov t) {chunk : Bytes}
    (hl : lookup t.buf t.k = some chunk) :
    DInv s cov { k := t.k + chunk.length, payload := t.payload ++ chunk, buf := erase t.buf t.k } := by
  have hmem := lookup_some_mem hl
  have hok := h.chunks _ hmem
  refine ⟨hok.inside, ?_, ?_, nodup_erase h.nodup _, ?_, ?_⟩
  · show t.payload ++ chunk = s.take (t.k + chunk.length)
    have e := hok.agrees
    simp only at e
    rw [h.payload_eq, ← take_append_slice, ← e]
  · intro p hp
    have hp : p < t.k + chunk.length := hp
    by_cases hpk : p < t.k
    · exact h.below p hpk
    · apply hok.arrived; unfold Covers; simp only; omega
  · intro c hc; exact h.chunks c (mem_erase.mp hc).1
  · intro p hp hcov
    have hp : t.k + chunk.length ≤ p := hp
    obtain ⟨c, hc, hcp⟩ := h.covers p (by omega) hcov
    refine ⟨c, mem_erase.mpr ⟨hc, ?_⟩, hcp⟩
    intro e
    have h1 : lookup t.buf c.1 = some c.2 := lookup_of_mem h.nodup hc
    rw [e, hl] at h1
    have h2 : c.2 = chunk := by cases h1; rfl
    unfold Covers at hcp; rw [e, h2] at hcp; omega

end Tins.DT
