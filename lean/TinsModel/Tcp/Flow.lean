import TinsModel.Tcp.DataTracker
/-
  Code-shaped model of `Tins::TCPIP::Flow::process_packet` (src/tcp_ip/flow.cpp) as far as the data path is
  concerned: the packet is `TCP(seq)` with or without a `RawPDU` payload layer; the out-of-order callback is
  evaluated BEFORE the payload is handed to the tracker, the data callback fires iff `process_payload`
  returns true.  State tracking (`update_state`) and the ACK tracker do not influence the data path.
-/
namespace Tins.DT

structure Flow where
  tracker : Tracker
  /-- `flags_.ignore_data_packets` -/
  ignoreData : Bool := false
deriving Repr

def Flow.init (seq : Nat) : Flow := { tracker := Tracker.init seq }

/-- what the user's callbacks observed during one `process_packet` -/
structure FlowEvents where
  outOfOrder : Bool
  data : Bool
deriving Repr, DecidableEq

/-- `Flow::process_packet`; `payload = none` models a packet without a `RawPDU` layer -/
def Flow.processPacket (f : Flow) (seq : Nat) (payload : Option Bytes) : Flow × FlowEvents :=
  if f.ignoreData then (f, ⟨false, false⟩)
  else match payload with
    | none => (f, ⟨false, false⟩)
    | some p =>
      let chunkEnd := wrap32 (seq + p.length)
      let currentSeq := f.tracker.seq
      let ooo := decide (seqCompare chunkEnd currentSeq < 0) || decide (seqCompare seq currentSeq > 0)
      let (t', r) := processPayload f.tracker seq p
      ({ f with tracker := t' }, ⟨ooo, r⟩)

def Flow.advanceSequence (f : Flow) (seq : Nat) : Flow := { f with tracker := _root_.Tins.DT.advanceSequence f.tracker seq }

end Tins.DT
