import TinsModel.Tcp.DataTracker
/-
  Code-shaped model of the legacy `Tins::TCPStream` (src/tcp_stream.cpp): one direction of a stream is
  `(my_seq, frags, pload)`; `safe_insert` keeps the LATER chunk when the lengths are equal (the new
  `DataTracker` keeps the earlier one), the drain loop has an explicit `break` on an empty map, there is no
  byte counter.  `compare_seq_numbers` is textually `seq_compare`; `erase_iterator` is the same cyclic successor.
-/
namespace Tins.DT

/-- one direction of a `TCPStream`: `client_seq_/client_frags_/client_payload_` (or the server triple) -/
structure LStream where
  seq : Nat
  frags : Chunks
  payload : Bytes
deriving Repr, DecidableEq

def LStream.init (seq : Nat) : LStream := { seq := seq, frags := [], payload := [] }

/-- `TCPStream::safe_insert`: `frags[seq]`; empty slot → store; stored chunk strictly larger → drop the new
    one; otherwise replace -/
def safeInsert (m : Chunks) (seq : Nat) (raw : Bytes) : Chunks :=
  match lookup m seq with
  | none => put m seq raw
  | some stored => if stored.length > raw.length then m else put m seq raw

/-- the `while` loop of `generic_process` -/
def ldrain : Nat → LStream → Option Nat → Bool → LStream × Bool
  | 0, t, _, added => (t, added)
  | fuel + 1, t, iter, added =>
    match iter with
    | none => (t, added)
    | some key =>
      match lookup t.frags key with
      | none => (t, added)
      | some chunk =>
        if seqCompare key t.seq ≤ 0 then
          if seqCompare key t.seq < 0 then
            let fragmentEnd := wrap32 (key + chunk.length)
            if seqCompare fragmentEnd t.seq > 0 then
              let sliced := chunk.drop (sub32 t.seq key)
              let m1 := safeInsert t.frags t.seq sliced
              let m2 := erase m1 key
              ldrain fuel { t with frags := m2 } (cyclicSucc m2 key) added
            else
              let m2 := erase t.frags key
              ldrain fuel { t with frags := m2 } (cyclicSucc m2 key) added
          else
            let m2 := erase t.frags key
            let t1 : LStream := { seq := wrap32 (t.seq + chunk.length), frags := m2, payload := t.payload ++ chunk }
            -- `if (it->second->payload_size() > 0) added_some = true;`
            let added' := added || !chunk.isEmpty
            if m2.isEmpty then (t1, added') else ldrain fuel t1 (cyclicSucc m2 key) added'
        else (t, added)

/-- `TCPStream::generic_process` for a TCP segment whose inner PDU is a `RawPDU` with `payload` -/
def genericProcess (t : LStream) (seq : Nat) (payload : Bytes) : LStream × Bool :=
  let chunkEnd := wrap32 (seq + payload.length)
  if seqCompare chunkEnd t.seq ≥ 0 then
    let (seq', payload') :=
      if seqCompare seq t.seq < 0 then (t.seq, payload.drop (sub32 t.seq seq)) else (seq, payload)
    let m1 := safeInsert t.frags seq' payload'
    let iter := if (lookup m1 t.seq).isSome then some t.seq else none
    ldrain (2 * m1.length + 2) { t with frags := m1 } iter false
  else (t, false)

end Tins.DT
