import TinsModel.Matching.LemmasMirror
/- C14: the mirrored reply has the request's shape and every matched field equal; a matched field that
   differs forces the verdict `reject`. -/
set_option linter.unusedSimpArgs false
set_option linter.unusedVariables false
namespace Tins.Matching

theorem slice_length {b : Bytes} {off n : Nat} (h : off + n ≤ b.length) : (slice b off n).length = n := by
  simp [slice]; omega

theorem replyType_ne_unreach (k : ICMPKind) : (k.replyType == 3) = false := by
  cases k <;> decide

/-- the mirrored reply of an IPv4 request is never an ICMP destination-unreachable -/
theorem mirror_not_quote (hdr : Bytes) (r : List SLayer) (hw : hdr.length = 20) :
    quotesRequest hdr (serR (.ip4 [0, 0, 0, 0, 0, 0, 0, 64] [0, 0] (slice hdr 16 4) (slice hdr 12 4) :: mirror r)) 20 = false := by
  have l1 : (slice hdr 16 4).length = 4 := slice_length (by omega)
  have l2 : (slice hdr 12 4).length = 4 := slice_length (by omega)
  unfold quotesRequest
  simp only [serR]
  have h9 : (0x45 :: ([0, 0, 0, 0, 0, 0, 0, 64] ++ (protoR (mirror r) :: ([0, 0] ++ (slice hdr 16 4 ++ (slice hdr 12 4 ++ serR (mirror r))))))).getD 9 0
      = protoR (mirror r) := by simp [List.getD]
  rw [h9]
  cases r with
  | nil => simp [mirror, protoR]
  | cons l r' =>
    cases l <;> try (simp [mirror, protoR]; done)
    case icmp k id seq =>
      have h20 : (0x45 :: ([0, 0, 0, 0, 0, 0, 0, 64] ++ (protoR (mirror (.icmp k id seq :: r')) :: ([0, 0] ++ (slice hdr 16 4 ++
          (slice hdr 12 4 ++ serR (mirror (.icmp k id seq :: r')))))))).getD 20 0 = k.replyType := by
        simp [List.getD, List.getElem?_append_right, l1, l2, mirror, serR]
      rw [h20, replyType_ne_unreach]
      simp

theorem shape_mirror : ∀ (r : List SLayer), wfReq r = true → shape r (mirror r) = true
  | [], _ => by simp [shape]
  | l :: r, h => by
    cases l with
    | payload => simp [shape]
    | dot3 s d => simp [wfReq] at h
    | radiotap => simp [wfReq] at h
    | eth s d =>
      simp only [wfReq, Bool.and_eq_true, beq_iff_eq] at h
      simp [mirror, shape, h.1.1, h.1.2, shape_mirror r h.2]
    | vlan t =>
      simp only [wfReq, Bool.and_eq_true, beq_iff_eq] at h
      simp [mirror, shape, h.1, shape_mirror r h.2]
    | ip4 hdr =>
      simp only [wfReq, Bool.and_eq_true, beq_iff_eq] at h
      have l1 : (slice hdr 16 4).length = 4 := slice_length (by omega)
      have l2 : (slice hdr 12 4).length = 4 := slice_length (by omega)
      simp only [mirror, shape, mirror_not_quote hdr r h.1, shape_mirror r h.2, l1, l2]
      decide
    | ip6 s d =>
      simp only [wfReq, Bool.and_eq_true, beq_iff_eq] at h
      simp [mirror, shape, h.1.1, h.1.2, shape_mirror r h.2]
    | tcp sp dp =>
      simp only [wfReq, Bool.and_eq_true, beq_iff_eq] at h
      simp [mirror, shape, h.1.1, h.1.2, shape_mirror r h.2]
    | udp sp dp =>
      simp only [wfReq, Bool.and_eq_true, beq_iff_eq] at h
      simp [mirror, shape, h.1.1.1, h.1.1.2, shape_mirror r h.2]
    | icmp k id seq =>
      simp only [wfReq, Bool.and_eq_true, beq_iff_eq] at h
      simp [mirror, shape, h.1, h.2]
    | icmp6echo id seq =>
      simp only [wfReq, Bool.and_eq_true, beq_iff_eq] at h
      simp [mirror, shape, h.1, h.2]
    | dns id =>
      simp only [wfReq, beq_iff_eq] at h
      simp [mirror, shape, h]

theorem verdictR_mirror : ∀ (r : List SLayer), wfReq r = true → verdictR r (mirror r) = .accept
  | [], _ => by simp [verdictR]
  | l :: r, h => by
    cases l with
    | payload => simp [verdictR]
    | dot3 s d => simp [wfReq] at h
    | radiotap => simp [wfReq] at h
    | eth s d =>
      simp only [wfReq, Bool.and_eq_true] at h
      simp [mirror, verdictR, field, verdictR_mirror r h.2]
    | vlan t =>
      simp only [wfReq, Bool.and_eq_true] at h
      simp [mirror, verdictR, field, verdictR_mirror r h.2]
    | ip4 hdr =>
      simp only [wfReq, Bool.and_eq_true] at h
      simp [mirror, verdictR, field, verdictR_mirror r h.2]
    | ip6 s d =>
      simp only [wfReq, Bool.and_eq_true] at h
      simp [mirror, verdictR, field, verdictR_mirror r h.2]
    | tcp sp dp =>
      simp only [wfReq, Bool.and_eq_true] at h
      simp [mirror, verdictR, field, verdictR_mirror r h.2]
    | udp sp dp =>
      simp only [wfReq, Bool.and_eq_true, Bool.not_eq_true'] at h
      simp [mirror, verdictR, field, verdictR_mirror r h.2, h.1.2]
    | icmp k id seq => simp [mirror, verdictR, field]
    | icmp6echo id seq => simp [mirror, verdictR, field]
    | dns id => simp [mirror, verdictR, field]

/-! ### a differing matched field forces `reject` -/

theorem field_reject {e mt : Bool} {k : Verdict} (h : (e = false ∧ mt = true) ∨ k = .reject) :
    field e mt k = .reject := by
  rcases h with ⟨h1, h2⟩ | h
  · simp [field, h1, h2]
  · subst h; cases e <;> cases mt <;> simp [field, Verdict.weaken]

theorem beq_false_of_bne {α} [BEq α] {a b : α} (h : (a != b) = true) : (a == b) = false := by
  simpa [bne] using h

theorem differs_reject : ∀ (r : List SLayer) (m : List RLayer), shape r m = true → matchedFieldDiffers r m = true →
    verdictR r m = .reject
  | [], m, _, hd => by simp [matchedFieldDiffers] at hd
  | l :: r, m, h, hd => by
    cases m with
    | nil => cases l <;> simp [matchedFieldDiffers] at hd
    | cons ml m' =>
      cases l <;> cases ml <;> try (simp [matchedFieldDiffers] at hd; done)
      case eth.eth s d rd rs =>
        simp only [shape, Bool.and_eq_true] at h
        simp only [matchedFieldDiffers, Bool.or_eq_true, Bool.and_eq_true] at hd
        simp only [verdictR]
        rcases hd with (h1 | ⟨hg, h2⟩) | h3
        · exact field_reject (Or.inl ⟨beq_false_of_bne h1, rfl⟩)
        · exact field_reject (Or.inr (field_reject (Or.inl ⟨beq_false_of_bne h2, hg⟩)))
        · exact field_reject (Or.inr (field_reject (Or.inr (differs_reject r m' h.2 h3))))
      case vlan.vlan tci t =>
        simp only [shape, Bool.and_eq_true] at h
        simp only [matchedFieldDiffers, Bool.or_eq_true] at hd
        simp only [verdictR]
        rcases hd with h1 | h3
        · exact field_reject (Or.inl ⟨beq_false_of_bne h1, rfl⟩)
        · exact field_reject (Or.inr (differs_reject r m' h.2 h3))
      case ip4.ip4 hdr pre ck rs rd =>
        simp only [shape, Bool.and_eq_true] at h
        simp only [matchedFieldDiffers, Bool.or_eq_true, Bool.and_eq_true] at hd
        simp only [verdictR]
        rcases hd with (⟨hz, h1⟩ | ⟨hg, h2⟩) | h3
        · exact field_reject (Or.inl ⟨beq_false_of_bne h1, hz⟩)
        · exact field_reject (Or.inr (field_reject (Or.inl ⟨beq_false_of_bne h2, hg⟩)))
        · exact field_reject (Or.inr (field_reject (Or.inr (differs_reject r m' h.2 h3))))
      case ip6.ip6 s d pre hl rs rd =>
        simp only [shape, Bool.and_eq_true] at h
        simp only [matchedFieldDiffers, Bool.or_eq_true, Bool.and_eq_true] at hd
        simp only [verdictR]
        rcases hd with (h1 | ⟨hg, h2⟩) | h3
        · exact field_reject (Or.inl ⟨beq_false_of_bne h1, rfl⟩)
        · exact field_reject (Or.inr (field_reject (Or.inl ⟨beq_false_of_bne h2, hg⟩)))
        · exact field_reject (Or.inr (field_reject (Or.inr (differs_reject r m' h.2 h3))))
      case tcp.tcp sp dp rsp rdp sa tl =>
        simp only [shape, Bool.and_eq_true] at h
        simp only [matchedFieldDiffers, Bool.or_eq_true] at hd
        simp only [verdictR]
        rcases hd with (h1 | h2) | h3
        · exact field_reject (Or.inl ⟨beq_false_of_bne h1, rfl⟩)
        · exact field_reject (Or.inr (field_reject (Or.inl ⟨beq_false_of_bne h2, rfl⟩)))
        · exact field_reject (Or.inr (field_reject (Or.inr (differs_reject r m' h.2 h3))))
      case udp.udp sp dp rsp rdp lc =>
        simp only [shape, Bool.and_eq_true] at h
        simp only [matchedFieldDiffers, Bool.or_eq_true] at hd
        simp only [verdictR]
        rcases hd with (h1 | h2) | h3
        · exact field_reject (Or.inl ⟨beq_false_of_bne h1, rfl⟩)
        · exact field_reject (Or.inr (field_reject (Or.inl ⟨beq_false_of_bne h2, rfl⟩)))
        · have hne : r.isEmpty = false := by
            cases r with
            | nil => simp [matchedFieldDiffers] at h3
            | cons _ _ => rfl
          simp only [hne, Bool.false_eq_true, if_false]
          exact field_reject (Or.inr (field_reject (Or.inr (differs_reject r m' h.2 h3))))
      case icmp.icmp k id seq t cc rid rseq data =>
        simp only [matchedFieldDiffers, Bool.or_eq_true] at hd
        simp only [verdictR]
        rcases hd with (h1 | h2) | h3
        · exact field_reject (Or.inl ⟨beq_false_of_bne h1, rfl⟩)
        · exact field_reject (Or.inr (field_reject (Or.inl ⟨beq_false_of_bne h2, rfl⟩)))
        · exact field_reject (Or.inr (field_reject (Or.inr (field_reject (Or.inl ⟨beq_false_of_bne h3, rfl⟩)))))
      case icmp6echo.icmp6 id seq t cc rid rseq data =>
        simp only [matchedFieldDiffers, Bool.or_eq_true] at hd
        simp only [verdictR]
        rcases hd with (h1 | h2) | h3
        · exact field_reject (Or.inl ⟨beq_false_of_bne h1, rfl⟩)
        · exact field_reject (Or.inr (field_reject (Or.inl ⟨beq_false_of_bne h2, rfl⟩)))
        · exact field_reject (Or.inr (field_reject (Or.inr (field_reject (Or.inl ⟨beq_false_of_bne h3, rfl⟩)))))
      case dns.dns id rid rest =>
        simp only [matchedFieldDiffers] at hd
        simp only [verdictR]
        exact field_reject (Or.inl ⟨beq_false_of_bne hd, rfl⟩)

end Tins.Matching
