import TinsModel.Matching.LemmasMirror
/- C14: the mirrored reply has the request's shape and every matched field equal; a matched field that
   differs forces the verdict `reject`. -/
set_option linter.unusedSimpArgs false
set_option linter.unusedVariables false
namespace Tins.Matching

theorem slice_length {b : Bytes} {off n : Nat} (h : off + n ≤ b.length) : (slice b off n).length = n := by
  simp [slice]; omega

theorem shape_mirror : ∀ (r : List SLayer), wfReq r = true → shape r (mirror r) = true
  | [], _ => by simp [shape]
  | l :: r, h => by
    cases l with
    | payload => simp [shape]
    | eth s d =>
      simp only [wfReq, Bool.and_eq_true, beq_iff_eq] at h
      simp [mirror, shape, h.1.1, h.1.2, shape_mirror r h.2]
    | dot3 s d =>
      simp only [wfReq, Bool.and_eq_true, beq_iff_eq] at h
      simp [mirror, shape, h.1.1, h.1.2, shape_mirror r h.2]
    | vlan t =>
      simp only [wfReq, Bool.and_eq_true, beq_iff_eq] at h
      simp [mirror, shape, h.1, shape_mirror r h.2]
    | loopback f =>
      simp only [wfReq, Bool.and_eq_true, beq_iff_eq] at h
      simp [mirror, shape, h.1, shape_mirror r h.2]
    | radiotap =>
      simp only [wfReq] at h
      simp [mirror, shape, shape_mirror r h]
    | ip4 hdr =>
      simp only [wfReq, Bool.and_eq_true, beq_iff_eq] at h
      have l1 : (slice hdr 16 4).length = 4 := slice_length (by omega)
      have l2 : (slice hdr 12 4).length = 4 := slice_length (by omega)
      simp [mirror, shape, shape_mirror r h.2, l1, l2]
    | ip6 s d =>
      simp only [wfReq, Bool.and_eq_true, beq_iff_eq] at h
      simp [mirror, shape, h.1.1, h.1.2, shape_mirror r h.2]
    | tcp sp dp =>
      simp only [wfReq, Bool.and_eq_true, beq_iff_eq] at h
      simp [mirror, shape, h.1.1, h.1.2, shape_mirror r h.2]
    | udp sp dp =>
      simp only [wfReq, Bool.and_eq_true, beq_iff_eq] at h
      simp [mirror, shape, h.1.1.1, h.1.1.2, shape_mirror r h.2]
    | icmp k id seq =>
      simp only [wfReq, Bool.and_eq_true, beq_iff_eq] at h
      simp [mirror, shape, h.1, h.2]
    | icmp6echo id seq =>
      simp only [wfReq, Bool.and_eq_true, beq_iff_eq] at h
      simp [mirror, shape, h.1, h.2]
    | dns id =>
      simp only [wfReq, beq_iff_eq] at h
      simp [mirror, shape, h]
    | bootp xid =>
      simp only [wfReq, beq_iff_eq] at h
      simp only [mirror, shape, h, List.length_replicate, List.length_cons, List.length_nil]
      decide
    | dhcpv6 hdr =>
      simp only [wfReq, Bool.and_eq_true, beq_iff_eq, Bool.not_eq_true'] at h
      have l1 : (slice hdr 1 3).length = 3 := slice_length (by omega)
      simp only [mirror, shape, h.2, l1, Bool.not_false, beq_self_eq_true, Bool.and_self]
    | arp spa tpa =>
      simp only [wfReq, Bool.and_eq_true, beq_iff_eq] at h
      simp [mirror, shape, h.1, h.2]

/-- the canonical mirrored reply is a mirrored reply -/
theorem isMirror_mirror : ∀ (r : List SLayer), wfReq r = true → isMirror r (mirror r) = true
  | [], _ => by simp [isMirror]
  | l :: r, h => by
    cases l with
    | payload => simp [isMirror]
    | eth s d =>
      simp only [wfReq, Bool.and_eq_true] at h
      simp [mirror, isMirror, isMirror_mirror r h.2]
    | dot3 s d =>
      simp only [wfReq, Bool.and_eq_true] at h
      simp [mirror, isMirror, isMirror_mirror r h.2]
    | vlan t =>
      simp only [wfReq, Bool.and_eq_true] at h
      simp [mirror, isMirror, isMirror_mirror r h.2]
    | loopback f =>
      simp only [wfReq, Bool.and_eq_true] at h
      simp [mirror, isMirror, isMirror_mirror r h.2]
    | radiotap =>
      simp only [wfReq] at h
      simp [mirror, isMirror, isMirror_mirror r h]
    | ip4 hdr =>
      simp only [wfReq, Bool.and_eq_true] at h
      simp [mirror, isMirror, isMirror_mirror r h.2]
    | ip6 s d =>
      simp only [wfReq, Bool.and_eq_true] at h
      simp [mirror, isMirror, isMirror_mirror r h.2]
    | tcp sp dp =>
      simp only [wfReq, Bool.and_eq_true] at h
      simp [mirror, isMirror, isMirror_mirror r h.2]
    | udp sp dp =>
      simp only [wfReq, Bool.and_eq_true, Bool.not_eq_true'] at h
      simp [mirror, isMirror, isMirror_mirror r h.2, h.1.2]
    | icmp k id seq => simp [mirror, isMirror]
    | icmp6echo id seq => simp [mirror, isMirror]
    | dns id => simp [mirror, isMirror]
    | bootp xid => simp [mirror, isMirror]
    | dhcpv6 hdr => simp [mirror, isMirror, isRelayType]
    | arp spa tpa => simp [mirror, isMirror]

/-- every mirrored reply — whatever its unmatched fields, options, extension headers and payload — gets the
    verdict `accept` -/
theorem verdictR_isMirror : ∀ (r : List SLayer) (m : List RLayer), isMirror r m = true → verdictR r m = .accept
  | [], m, _ => by simp [verdictR]
  | l :: r, m, h => by
    cases m with
    | nil => cases l <;> simp [isMirror, verdictR] at h ⊢
    | cons ml m' =>
      cases l <;> cases ml <;> try (simp [isMirror] at h; done)
      all_goals try (simp [verdictR]; done)
      case eth.eth s d rd rs =>
        simp only [isMirror, Bool.and_eq_true] at h
        simp [verdictR, field, h.1.1, h.1.2, verdictR_isMirror r m' h.2]
      case dot3.dot3 s d rd rs l =>
        simp only [isMirror, Bool.and_eq_true] at h
        simp [verdictR, field, h.1.1, h.1.2, verdictR_isMirror r m' h.2]
      case vlan.vlan tci tp t =>
        simp only [isMirror, Bool.and_eq_true] at h
        simp [verdictR, field, h.1, verdictR_isMirror r m' h.2]
      case loopback.loopback f rf =>
        simp only [isMirror, Bool.and_eq_true] at h
        simp [verdictR, h.1, verdictR_isMirror r m' h.2]
      case radiotap.radiotap vp body =>
        simp only [isMirror] at h
        simp [verdictR, verdictR_isMirror r m' h]
      case ip4.ip4 hdr pre ck rs rd opts =>
        simp only [isMirror, Bool.or_eq_true, Bool.and_eq_true] at h
        simp only [verdictR]
        cases hq : quotes hdr m'
        · rcases h with h | h
          · rw [hq] at h; exact absurd h (by decide)
          · simp [field, h.1.1, h.1.2, verdictR_isMirror r m' h.2]
        · simp
      case ip6.ip6 s d pre hl rs rd exts =>
        simp only [isMirror, Bool.and_eq_true] at h
        simp [verdictR, field, h.1.1, h.1.2, verdictR_isMirror r m' h.2]
      case tcp.tcp sp dp rsp rdp sa x2 tl opts =>
        simp only [isMirror, Bool.and_eq_true] at h
        simp [verdictR, field, h.1.1, h.1.2, verdictR_isMirror r m' h.2]
      case udp.udp sp dp rsp rdp lc =>
        simp only [isMirror, Bool.and_eq_true, Bool.not_eq_true'] at h
        simp [verdictR, field, h.1.1.1, h.1.1.2, h.1.2, verdictR_isMirror r m' h.2]
      case icmp.icmp k id seq t cc rid rseq data =>
        simp only [isMirror, Bool.and_eq_true] at h
        simp [verdictR, field, h.1.1, h.1.2, h.2]
      case icmp6echo.icmp6 id seq t cc rid rseq data =>
        simp only [isMirror, Bool.and_eq_true] at h
        simp [verdictR, field, h.1.1, h.1.2, h.2]
      case dns.dns id rid rest =>
        simp only [isMirror] at h
        simp [verdictR, field, h]
      case bootp.bootp xid pre rx rest =>
        simp only [isMirror] at h
        simp [verdictR, field, h]
      case dhcpv6.dhcpv6 hdr t rx opts =>
        simp only [isMirror, Bool.and_eq_true] at h
        simp [verdictR, field, h.1, h.2]
      case arp.arp spa tpa pre rspa tha rtpa trail =>
        simp only [isMirror, Bool.and_eq_true] at h
        simp [verdictR, field, h.1, h.2]

theorem verdictR_mirror (r : List SLayer) (h : wfReq r = true) : verdictR r (mirror r) = .accept :=
  verdictR_isMirror r (mirror r) (isMirror_mirror r h)

/-! ### a differing matched field forces `reject` -/

theorem field_reject {e mt : Bool} {k : Verdict} (h : (e = false ∧ mt = true) ∨ k = .reject) :
    field e mt k = .reject := by
  rcases h with ⟨h1, h2⟩ | h
  · simp [field, h1, h2]
  · subst h; cases e <;> cases mt <;> simp [field, Verdict.weaken]

theorem beq_false_of_bne {α} [BEq α] {a b : α} (h : (a != b) = true) : (a == b) = false := by
  simpa [bne] using h

theorem differs_reject : ∀ (r : List SLayer) (m : List RLayer), shape r m = true → matchedFieldDiffers r m = true →
    verdictR r m = .reject
  | [], m, _, hd => by simp [matchedFieldDiffers] at hd
  | l :: r, m, h, hd => by
    cases m with
    | nil => cases l <;> simp [matchedFieldDiffers] at hd
    | cons ml m' =>
      cases l <;> cases ml <;> try (simp [matchedFieldDiffers] at hd; done)
      case eth.eth s d rd rs =>
        simp only [shape, Bool.and_eq_true] at h
        simp only [matchedFieldDiffers, Bool.or_eq_true, Bool.and_eq_true] at hd
        simp only [verdictR]
        rcases hd with (h1 | ⟨hg, h2⟩) | h3
        · exact field_reject (Or.inl ⟨beq_false_of_bne h1, rfl⟩)
        · exact field_reject (Or.inr (field_reject (Or.inl ⟨beq_false_of_bne h2, hg⟩)))
        · exact field_reject (Or.inr (field_reject (Or.inr (differs_reject r m' h.2 h3))))
      case vlan.vlan tci tp t =>
        simp only [shape, Bool.and_eq_true] at h
        simp only [matchedFieldDiffers, Bool.or_eq_true] at hd
        simp only [verdictR]
        rcases hd with h1 | h3
        · exact field_reject (Or.inl ⟨beq_false_of_bne h1, rfl⟩)
        · exact field_reject (Or.inr (differs_reject r m' h.2 h3))
      case dot3.dot3 s d rd rs l =>
        simp only [shape, Bool.and_eq_true] at h
        simp only [matchedFieldDiffers, Bool.or_eq_true, Bool.and_eq_true] at hd
        simp only [verdictR]
        rcases hd with (h1 | ⟨hg, h2⟩) | h3
        · exact field_reject (Or.inl ⟨beq_false_of_bne h1, rfl⟩)
        · exact field_reject (Or.inr (field_reject (Or.inl ⟨beq_false_of_bne h2, hg⟩)))
        · exact field_reject (Or.inr (field_reject (Or.inr (differs_reject r m' h.2 h3))))
      case loopback.loopback f rf =>
        simp only [shape, Bool.and_eq_true] at h
        simp only [matchedFieldDiffers, Bool.and_eq_true] at hd
        simp only [verdictR, hd.1, if_true]
        exact differs_reject r m' h.2 hd.2
      case radiotap.radiotap vp body =>
        simp only [shape, Bool.and_eq_true] at h
        simp only [matchedFieldDiffers] at hd
        simp only [verdictR]
        exact differs_reject r m' h.2 hd
      case ip4.ip4 hdr pre ck rs rd opts =>
        simp only [shape, Bool.and_eq_true, Bool.or_eq_true] at h
        simp only [matchedFieldDiffers, Bool.or_eq_true, Bool.and_eq_true] at hd
        obtain ⟨hq, hd⟩ := hd
        have hq : quotes hdr m' = false := by simpa using hq
        have hs : shape r m' = true := by
          rcases h.2 with h' | h'
          · rw [hq] at h'; exact absurd h' (by decide)
          · exact h'
        simp only [verdictR, hq, Bool.false_eq_true, if_false]
        rcases hd with (⟨hz, h1⟩ | ⟨hg, h2⟩) | h3
        · exact field_reject (Or.inl ⟨beq_false_of_bne h1, hz⟩)
        · exact field_reject (Or.inr (field_reject (Or.inl ⟨beq_false_of_bne h2, hg⟩)))
        · exact field_reject (Or.inr (field_reject (Or.inr (differs_reject r m' hs h3))))
      case ip6.ip6 s d pre hl rs rd exts =>
        simp only [shape, Bool.and_eq_true] at h
        simp only [matchedFieldDiffers, Bool.or_eq_true, Bool.and_eq_true] at hd
        simp only [verdictR]
        rcases hd with (h1 | ⟨hg, h2⟩) | h3
        · exact field_reject (Or.inl ⟨beq_false_of_bne h1, rfl⟩)
        · exact field_reject (Or.inr (field_reject (Or.inl ⟨beq_false_of_bne h2, hg⟩)))
        · exact field_reject (Or.inr (field_reject (Or.inr (differs_reject r m' h.2 h3))))
      case tcp.tcp sp dp rsp rdp sa x2 tl opts =>
        simp only [shape, Bool.and_eq_true] at h
        simp only [matchedFieldDiffers, Bool.or_eq_true] at hd
        simp only [verdictR]
        rcases hd with (h1 | h2) | h3
        · exact field_reject (Or.inl ⟨beq_false_of_bne h1, rfl⟩)
        · exact field_reject (Or.inr (field_reject (Or.inl ⟨beq_false_of_bne h2, rfl⟩)))
        · exact field_reject (Or.inr (field_reject (Or.inr (differs_reject r m' h.2 h3))))
      case udp.udp sp dp rsp rdp lc =>
        simp only [shape, Bool.and_eq_true] at h
        simp only [matchedFieldDiffers, Bool.or_eq_true] at hd
        simp only [verdictR]
        rcases hd with (h1 | h2) | h3
        · exact field_reject (Or.inl ⟨beq_false_of_bne h1, rfl⟩)
        · exact field_reject (Or.inr (field_reject (Or.inl ⟨beq_false_of_bne h2, rfl⟩)))
        · have hne : r.isEmpty = false := by
            cases r with
            | nil => simp [matchedFieldDiffers] at h3
            | cons _ _ => rfl
          simp only [hne, Bool.false_eq_true, if_false]
          exact field_reject (Or.inr (field_reject (Or.inr (differs_reject r m' h.2 h3))))
      case icmp.icmp k id seq t cc rid rseq data =>
        simp only [matchedFieldDiffers, Bool.or_eq_true] at hd
        simp only [verdictR]
        rcases hd with (h1 | h2) | h3
        · exact field_reject (Or.inl ⟨beq_false_of_bne h1, rfl⟩)
        · exact field_reject (Or.inr (field_reject (Or.inl ⟨beq_false_of_bne h2, rfl⟩)))
        · exact field_reject (Or.inr (field_reject (Or.inr (field_reject (Or.inl ⟨beq_false_of_bne h3, rfl⟩)))))
      case icmp6echo.icmp6 id seq t cc rid rseq data =>
        simp only [matchedFieldDiffers, Bool.or_eq_true] at hd
        simp only [verdictR]
        rcases hd with (h1 | h2) | h3
        · exact field_reject (Or.inl ⟨beq_false_of_bne h1, rfl⟩)
        · exact field_reject (Or.inr (field_reject (Or.inl ⟨beq_false_of_bne h2, rfl⟩)))
        · exact field_reject (Or.inr (field_reject (Or.inr (field_reject (Or.inl ⟨beq_false_of_bne h3, rfl⟩)))))
      case dns.dns id rid rest =>
        simp only [matchedFieldDiffers] at hd
        simp only [verdictR]
        exact field_reject (Or.inl ⟨beq_false_of_bne hd, rfl⟩)
      case bootp.bootp xid pre rx rest =>
        simp only [matchedFieldDiffers] at hd
        simp only [verdictR]
        exact field_reject (Or.inl ⟨beq_false_of_bne hd, rfl⟩)
      case dhcpv6.dhcpv6 hdr t rx opts =>
        simp only [matchedFieldDiffers, Bool.or_eq_true] at hd
        simp only [verdictR]
        rcases hd with h1 | h2
        · exact field_reject (Or.inl ⟨by simp [h1], rfl⟩)
        · exact field_reject (Or.inr (field_reject (Or.inl ⟨beq_false_of_bne h2, rfl⟩)))
      case arp.arp spa tpa pre rspa tha rtpa trail =>
        simp only [matchedFieldDiffers, Bool.or_eq_true] at hd
        simp only [verdictR]
        rcases hd with h1 | h2
        · exact field_reject (Or.inl ⟨beq_false_of_bne h1, rfl⟩)
        · exact field_reject (Or.inr (field_reject (Or.inl ⟨beq_false_of_bne h2, rfl⟩)))

end Tins.Matching
