import TinsModel.Matching.Out
/-
  Code-shaped model of every `matches_response(const uint8_t* ptr, uint32_t total_sz)` of libtins
  (property C14), statement for statement, for the little-endian branch of the headers.

  A request object with its chain of inner PDUs is a `List Layer`, outermost first; the list after a
  layer is that layer's `inner_pdu()` chain (`[]` = `inner_pdu() == 0`).  A layer carries exactly the
  members of the C++ object its matcher reads, as the raw bytes they have in memory (network order;
  `Loopback::family_` host order = little endian).  The reply is `buf`; `total_sz = buf.length`
  (`ptr + n, total_sz - n` is `buf.drop n`; every such subtraction is guarded in the C++, no wrap).

  Models the tree *after* the `fix:` commits of C14 (RadioTap size test, Ethernet/Dot3 reply source,
  IPv4 destination-unreachable quote, IPv4 reply header length).  Classes without a matcher of their own
  (SLL, LLC, Dot11, …) are `other`: they keep `PDU::matches_response`.
-/
namespace Tins.Matching

inductive Layer where
  | eth (src dst : Bytes)               -- EthernetII  header_.src_mac / dst_mac
  | dot3 (src dst : Bytes)              -- Dot3        header_.src_mac / dst_mac
  | dot1q (tci : Bytes)                 -- Dot1Q       first two bytes of header_
  | ip (hdr : Bytes)                    -- IP          the 20 bytes of header_
  | ipv6 (src dst : Bytes)              -- IPv6        header_.src_addr / dst_addr
  | tcp (sport dport : Bytes)           -- TCP         header_.sport / dport
  | udp (sport dport : Bytes)           -- UDP         header_.sport / dport
  | icmp (type : UInt8) (id seq : Bytes)    -- ICMP    header_.type, un.echo.id, un.echo.sequence
  | icmpv6 (type : UInt8) (id seq : Bytes)  -- ICMPv6  header_.type, u_echo.identifier, u_echo.sequence
  | dns (id : Bytes)                    -- DNS         header_.id
  | bootp (xid : Bytes)                 -- BootP / DHCP  bootp_.xid
  | dhcpv6 (hdr : Bytes)                -- DHCPv6      header_data_[0..4)
  | radiotap                            -- RadioTap    (reads nothing of itself)
  | loopback (family : Bytes)           -- Loopback    family_ (4 bytes, host order)
  | arp (spa tpa : Bytes)               -- ARP         sender_ip_address / target_ip_address
  | raw                                 -- RawPDU      (always true)
  | other                               -- any class that keeps PDU::matches_response (always false)
  | cacher                              -- PDUCacher<T>: forwards to `cached_` (= the rest of the list)
deriving Repr, DecidableEq

def macBroadcast : Bytes := [255, 255, 255, 255, 255, 255]
def ip4Broadcast : Bytes := [255, 255, 255, 255]
def ip4Zero : Bytes := [0, 0, 0, 0]

/-- `HWAddress<6>::is_unicast` : `!is_broadcast() && !is_multicast()`, multicast = `*begin() & 1` -/
def macIsUnicast (a : Bytes) : Bool := !(a == macBroadcast) && !((a.headD 0).toNat % 2 == 1)

/-- `Dot1Q::get_id` (little-endian bit-field branch): `idL | (idH << 8)` -/
def vlanId (h : Bytes) : Nat := (h.getD 1 0).toNat + ((h.getD 0 0).toNat % 16) * 256

/-- `IPv6::is_extension_header` (the authentication header, 51, is a layer of its own: IPSecAH) -/
def isExtHdr (h : UInt8) : Bool :=
  h == 0 || h == 60 || h == 43 || h == 44 || h == 60 || h == 135 || h == 59

/-- the `while (total_sz > 8 && is_extension_header(current))` loop of `IPv6::matches_response`
    followed by `if (!is_extension_header(current))`: `some buf'` = call the inner matcher on `buf'`,
    `none` = return false.  Every iteration consumes at least 8 bytes, so `fuel = buf.length` suffices
    (`walkExt_fuel` in Lemmas). -/
def walkExt : Nat → UInt8 → Bytes → Out (Option Bytes)
  | 0, cur, b => .ok (if isExtHdr cur then none else some b)
  | fuel + 1, cur, b =>
    if b.length > 8 && isExtHdr cur then
      (rd1 "IPv6.ext.len" b 1).bind fun l =>
      let n := (l.toNat + 1) * 8
      if n > b.length then .ok none
      else (rd1 "IPv6.ext.next" b 0).bind fun nx => walkExt fuel nx (b.drop n)
    else .ok (if isExtHdr cur then none else some b)

/-- the destination-unreachable test of `IP::matches_response`; `sz` = offset of the reply's payload -/
def ipQuotesUs (hdr buf : Bytes) (sz : Nat) : Out Bool :=
  (rd1 "IP.protocol" buf 9).bind fun proto =>
  if proto == 1 then
    let pktSz := buf.length - sz
    if pktSz > 8 then
      (rd1 "IP.icmp.type" buf sz).bind fun t =>
      if t == 3 then
        if pktSz - 8 ≥ 20 then
          (rdN "IP.icmp.quote" buf (sz + 8) 20).bind fun q => .ok (hdr == q)
        else .ok false
      else .ok false
    else .ok false
  else .ok false

def matchStack : List Layer → Bytes → Out Bool
  | [], _ => .ok true                                     -- `inner_pdu() ? … : true`
  | .eth src dst :: rest, buf =>
    if buf.length < 14 then .ok false else
    (rdN "EthernetII.dst_mac" buf 0 6).bind fun rdst =>
    if src == rdst then
      (rdN "EthernetII.src_mac" buf 6 6).bind fun rsrc =>
      if dst == rsrc || !macIsUnicast dst then matchStack rest (buf.drop 14) else .ok false
    else .ok false
  | .dot3 src dst :: rest, buf =>
    if buf.length < 14 then .ok false else
    (rdN "Dot3.dst_mac" buf 0 6).bind fun rdst =>
    if src == rdst then
      (rdN "Dot3.src_mac" buf 6 6).bind fun rsrc =>
      if dst == rsrc || dst == macBroadcast then matchStack rest (buf.drop 14) else .ok false
    else .ok false
  | .dot1q tci :: rest, buf =>
    if buf.length < 4 then .ok false else
    (rdN "Dot1Q.id" buf 0 2).bind fun r =>
    if vlanId r == vlanId tci then matchStack rest (buf.drop 4) else .ok false
  | .ip hdr :: rest, buf =>
    if buf.length < 20 then .ok false else
    (rd1 "IP.ihl" buf 0).bind fun b0 =>
    let replyHeaderSize := (b0.toNat % 16) * 4
    if replyHeaderSize < 20 then .ok false else
    let sz := if replyHeaderSize < buf.length then replyHeaderSize else buf.length
    (ipQuotesUs hdr buf sz).bind fun quoted =>
    if quoted then .ok true else
    (rdN "IP.saddr" buf 12 4).bind fun rsaddr =>
    (rdN "IP.daddr" buf 16 4).bind fun rdaddr =>
    let saddr := slice hdr 12 4
    let daddr := slice hdr 16 4
    if (saddr == rdaddr && (daddr == rsaddr || daddr == ip4Broadcast)) ||
       (daddr == ip4Broadcast && saddr == ip4Zero) then
      matchStack rest (buf.drop sz)
    else .ok false
  | .ipv6 src dst :: rest, buf =>
    if buf.length < 40 then .ok false else
    (rdN "IPv6.dst_addr" buf 24 16).bind fun rdst =>
    (rdN "IPv6.src_addr" buf 8 16).bind fun rsrc =>
    if src == rdst && (dst == rsrc || (dst.getD 0 0 == 255 && dst.getD 1 0 == 2)) then
      if rest.isEmpty then .ok true else
      (rd1 "IPv6.next_header" buf 6).bind fun nh =>
      (walkExt (buf.length - 40) nh (buf.drop 40)).bind fun w =>
      match w with
      | some b' => matchStack rest b'
      | none => .ok false
    else .ok false
  | .tcp sport dport :: rest, buf =>
    if buf.length < 20 then .ok false else
    (rdN "TCP.sport" buf 0 2).bind fun rsp =>
    (rdN "TCP.dport" buf 2 2).bind fun rdp =>
    if rsp == dport && rdp == sport then
      (rd1 "TCP.doff" buf 12).bind fun b12 =>
      let dataOffset := (b12.toNat / 16) * 4
      let sz := if buf.length < dataOffset then buf.length else dataOffset
      matchStack rest (buf.drop sz)
    else .ok false
  | .udp sport dport :: rest, buf =>
    if buf.length < 8 then .ok false else
    (rdN "UDP.sport" buf 0 2).bind fun rsp =>
    (rdN "UDP.dport" buf 2 2).bind fun rdp =>
    if rsp == dport && rdp == sport then
      if rest.isEmpty then .ok false else matchStack rest (buf.drop 8)
    else .ok false
  | .icmp type id seq :: _, buf =>
    if buf.length < 8 then .ok false else
    (rd1 "ICMP.type" buf 0).bind fun rt =>
    if (type == 8 && rt == 0) || (type == 13 && rt == 14) || (type == 17 && rt == 18) then
      (rdN "ICMP.id" buf 4 2).bind fun rid =>
      (rdN "ICMP.sequence" buf 6 2).bind fun rseq =>
      .ok (rid == id && rseq == seq)
    else .ok false
  | .icmpv6 type id seq :: _, buf =>
    if buf.length < 8 then .ok false else
    (rd1 "ICMPv6.type" buf 0).bind fun rt =>
    if type == 128 && rt == 129 then
      (rdN "ICMPv6.identifier" buf 4 2).bind fun rid =>
      (rdN "ICMPv6.sequence" buf 6 2).bind fun rseq =>
      .ok (rid == id && rseq == seq)
    else if (type == 133 && rt == 134) || (type == 135 && rt == 136) then
      (rd1 "ICMPv6.code" buf 1).bind fun code => .ok (code == 0)
    else .ok false
  | .dns id :: _, buf =>
    if buf.length < 12 then .ok false else
    (rdN "DNS.id" buf 0 2).bind fun rid => .ok (rid == id)
  | .bootp xid :: _, buf =>
    if buf.length < 236 then .ok false else
    (rdN "BootP.xid" buf 4 4).bind fun rxid => .ok (rxid == xid)
  | .dhcpv6 hdr :: _, buf =>
    if !(hdr.getD 0 0 == 12 || hdr.getD 0 0 == 13) then
      if buf.length < 4 then .ok false else
      (rd1 "DHCPv6.msg_type" buf 0).bind fun t =>
      if t == 12 || t == 13 then .ok false else
      (rdN "DHCPv6.transaction_id" buf 1 3).bind fun rx => .ok (slice hdr 1 3 == rx)
    else .ok false
  | .radiotap :: rest, buf =>
    if buf.length < 4 then .ok false else
    (rdN "RadioTap.it_len" buf 2 2).bind fun l =>
    let itLen := (l.getD 0 0).toNat + (l.getD 1 0).toNat * 256
    if itLen ≤ buf.length then matchStack rest (buf.drop itLen) else .ok false
  | .loopback family :: rest, buf =>
    if buf.length < 4 then .ok false else
    if rest.isEmpty then
      (rdN "Loopback.family" buf 0 4).bind fun rf => .ok (family == rf)
    else matchStack rest (buf.drop 4)
  | .arp spa tpa :: _, buf =>
    if buf.length < 28 then .ok false else
    (rdN "ARP.sender_ip" buf 14 4).bind fun rspa =>
    (rdN "ARP.target_ip" buf 24 4).bind fun rtpa =>
    .ok (rspa == tpa && rtpa == spa)
  | .raw :: _, _ => .ok true
  | .other :: _, _ => .ok false
  | .cacher :: rest, buf => matchStack rest buf

end Tins.Matching
