import TinsModel.Matching.LemmasBasic
/- C14: closed forms of the matchers that are outside the mirrored-reply specification
   (BootP/DHCP, DHCPv6, ARP, Loopback, RawPDU, PDU default, PDUCacher). -/
set_option linter.unusedSimpArgs false
namespace Tins.Matching

theorem cacher_transparent (st : List Layer) (b : Bytes) : matchStack (.cacher :: st) b = matchStack st b := by
  simp [matchStack]

theorem raw_always (rest : List Layer) (b : Bytes) : matchStack (.raw :: rest) b = .ok true := by
  simp [matchStack]

theorem other_never (rest : List Layer) (b : Bytes) : matchStack (.other :: rest) b = .ok false := by
  simp [matchStack]

/-- BootP / DHCP: a buffer holding a whole BootP header with the same transaction id -/
theorem bootp_char (xid : Bytes) (rest : List Layer) (b : Bytes) :
    matchStack (.bootp xid :: rest) b = .ok (decide (236 ≤ b.length) && slice b 4 4 == xid) := by
  unfold matchStack
  by_cases h : b.length < 236
  · have : ¬ 236 ≤ b.length := by omega
    simp [h, this]
  · have h' : 236 ≤ b.length := by omega
    simp [h, h', rdN_ok (show 4 + 4 ≤ b.length by omega)]

/-- ARP: sender and target protocol addresses swapped -/
theorem arp_char (spa tpa : Bytes) (rest : List Layer) (b : Bytes) :
    matchStack (.arp spa tpa :: rest) b =
      .ok (decide (28 ≤ b.length) && (slice b 14 4 == tpa && slice b 24 4 == spa)) := by
  unfold matchStack
  by_cases h : b.length < 28
  · have : ¬ 28 ≤ b.length := by omega
    simp [h, this]
  · have h' : 28 ≤ b.length := by omega
    simp [h, h', rdN_ok (show 14 + 4 ≤ b.length by omega), rdN_ok (show 24 + 4 ≤ b.length by omega)]

/-- DHCPv6: neither side is a relay message and the 3-byte transaction ids agree -/
theorem dhcpv6_char (hdr : Bytes) (rest : List Layer) (b : Bytes) :
    matchStack (.dhcpv6 hdr :: rest) b =
      .ok (!(hdr.getD 0 0 == 12 || hdr.getD 0 0 == 13) && decide (4 ≤ b.length) &&
           !(b.getD 0 0 == 12 || b.getD 0 0 == 13) && slice hdr 1 3 == slice b 1 3) := by
  unfold matchStack
  cases hr : (hdr.getD 0 0 == 12 || hdr.getD 0 0 == 13)
  · by_cases h : b.length < 4
    · have : ¬ 4 ≤ b.length := by omega
      simp [h, this]
    · have h' : 4 ≤ b.length := by omega
      simp only [Bool.not_false, if_true, h, if_false, rd1_ok (show 0 < b.length by omega), bind_ok,
        rdN_ok (show 1 + 3 ≤ b.length by omega), h', decide_true, Bool.true_and]
      cases hb : (b.getD 0 0 == 12 || b.getD 0 0 == 13) <;> simp
  · simp

/-- Loopback: with an inner PDU only the inner PDU decides; without one the family word is compared -/
theorem loopback_char (family : Bytes) (rest : List Layer) (b : Bytes) :
    matchStack (.loopback family :: rest) b =
      if b.length < 4 then .ok false
      else if rest.isEmpty then .ok (family == slice b 0 4) else matchStack rest (b.drop 4) := by
  simp only [matchStack]
  by_cases h : b.length < 4
  · simp [h]
  · simp only [h, if_false]
    split
    · simp [rdN_ok (show 0 + 4 ≤ b.length by omega)]
    · rfl

end Tins.Matching
