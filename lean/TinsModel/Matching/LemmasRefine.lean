import TinsModel.Matching.LemmasBasic
/- C14, refinement: on every buffer the model's verdict is what the byte-level specification demands. -/
set_option linter.unusedSimpArgs false
set_option linter.unusedVariables false
namespace Tins.Matching

/-! ### small facts -/

theorem beq_cases (x y : Bytes) :
    ((x == y) = true ∧ (y == x) = true) ∨ ((x == y) = false ∧ (y == x) = false) := by
  by_cases h : x = y
  · subst h; simp
  · right; exact ⟨beq_eq_false_iff_ne.mpr h, beq_eq_false_iff_ne.mpr (Ne.symm h)⟩

theorem getD_slice {b : Bytes} {off n i : Nat} (hi : i < n) :
    (slice b off n).getD i 0 = b.getD (off + i) 0 := by
  simp [slice, List.getD, List.getElem?_take, hi, List.getElem?_drop]

theorem macUnicast_iff (d : Bytes) : macIsUnicast d = !macIsGroup d := by
  unfold macIsUnicast macIsGroup
  by_cases h : d = macBroadcast
  · subst h; decide
  · simp [h]

theorem not_bcast_of_not_group {d : Bytes} (h : macIsGroup d = false) : (d == macBroadcast) = false := by
  by_cases hb : d = macBroadcast
  · subst hb; revert h; decide
  · exact beq_eq_false_iff_ne.mpr hb

theorem vlanId_eq_vid (h : Bytes) : vlanId h = vid h := by
  unfold vlanId vid; omega

theorem isExt_imp_v6ext (h : UInt8) (hx : isExtHdr h = true) : isV6Extension h = true := by
  simp only [isExtHdr, Bool.or_eq_true, beq_iff_eq] at hx
  simp only [isV6Extension, Bool.or_eq_true, beq_iff_eq]
  rcases hx with (((((h0 | h0) | h0) | h0) | h0) | h0) | h0 <;> simp [h0]

theorem walkExt_not_ext (fuel : Nat) (cur : UInt8) (b : Bytes) (h : isExtHdr cur = false) :
    walkExt fuel cur b = .ok (some b) := by
  cases fuel <;> simp [walkExt, h]

theorem protoOk_not_ext (rest : List SLayer) (nh : UInt8) (h : protoOk (ipProtoOf rest) nh = true) :
    isExtHdr nh = false := by
  cases hx : isExtHdr nh with
  | false => rfl
  | true =>
    have hv := isExt_imp_v6ext nh hx
    unfold protoOk at h
    split at h
    · simp [hv] at h
    · rename_i p hp
      have hnh : p = nh := by simpa using h
      subst hnh
      have : p = 6 ∨ p = 17 ∨ p = 1 ∨ p = 58 := by
        unfold ipProtoOf at hp
        split at hp <;> simp at hp <;> simp [← hp]
      rcases this with h1 | h1 | h1 | h1 <;> subst h1 <;> revert hx <;> decide

theorem walkable_isExt (h : UInt8) (hx : v6Walkable h = true) : isExtHdr h = true := by
  simp only [v6Walkable, Bool.or_eq_true, beq_iff_eq] at hx
  simp only [isExtHdr, Bool.or_eq_true, beq_iff_eq]
  rcases hx with (((h0 | h0) | h0) | h0) | h0 <;> simp [h0]

/-- where the specification's walk over the reply's extension headers arrives at an upper-layer header, the
    loop of `IPv6::matches_response` arrives at the same octets (same fuel on both sides) -/
theorem walkExt_of_skipExts : ∀ (f : Nat) (cur : UInt8) (b : Bytes) (p : UInt8) (b' : Bytes),
    skipExts f cur b = some (p, b') → isExtHdr p = false → walkExt f cur b = .ok (some b')
  | 0, cur, b, p, b', h, hp => by
    unfold skipExts at h
    split at h
    · simp at h
    · simp only [Option.some.injEq, Prod.mk.injEq] at h
      obtain ⟨h1, h2⟩ := h
      subst h1; subst h2
      exact walkExt_not_ext 0 cur b hp
  | f + 1, cur, b, p, b', h, hp => by
    unfold skipExts at h
    split at h
    · rename_i hw
      dsimp only at h
      split at h
      · rename_i hn
        split at h
        · simp at h
        · have ih := walkExt_of_skipExts f _ _ p b' h hp
          unfold walkExt
          have hlen : b.length > 8 := by omega
          have hc : (decide (b.length > 8) && isExtHdr cur) = true := by simp [hlen, walkable_isExt cur hw]
          simp only [hc, if_true, rd1_ok (show 1 < b.length by omega), rd1_ok (show 0 < b.length by omega), bind_ok]
          have : ¬ ((b.getD 1 0).toNat + 1) * 8 > b.length := by omega
          simp only [this, if_false]
          exact ih
      · simp at h
    · simp only [Option.some.injEq, Prod.mk.injEq] at h
      obtain ⟨h1, h2⟩ := h
      subst h1; subst h2
      exact walkExt_not_ext _ cur b hp

theorem agrees_cont {c : Bool} {k : Verdict} {o : Out Bool} (h : k.agrees o) :
    (if c = true then k else Verdict.unspec).agrees o := by
  cases c
  · trivial
  · simpa using h

theorem weaken_weaken (k : Verdict) : k.weaken.weaken = k.weaken := by
  cases k <;> rfl

theorem weaken_agrees_false (k : Verdict) : k.weaken.agrees (.ok false) := by
  cases k <;> simp [Verdict.weaken, Verdict.agrees]

theorem agrees_weaken' {k : Verdict} {o : Out Bool} (h : k.agrees o) : k.weaken.agrees o :=
  agrees_weaken (agrees_reject_of h)

theorem ipQuotesUs_eq (hdr b : Bytes) (hl : Nat) (h20 : 20 ≤ b.length) (hle : hl ≤ b.length) :
    ipQuotesUs hdr b hl = .ok (quotesRequest hdr b hl) := by
  unfold ipQuotesUs quotesRequest
  rw [rd1_ok (by omega)]
  simp only [bind_ok]
  cases hp : (b.getD 9 0 == 1)
  · simp
  · simp only [if_true, Bool.true_and]
    by_cases h28 : b.length ≥ hl + 28
    · have h8 : b.length - hl > 8 := by omega
      have h20' : b.length - hl - 8 ≥ 20 := by omega
      simp only [h8, h20', if_true, rd1_ok (show hl < b.length by omega), bind_ok, rdN_ok (show hl + 8 + 20 ≤ b.length by omega),
        decide_true, Bool.true_and, h28]
      cases ht : (b.getD hl 0 == 3)
      · simp
      · simp only [if_true, Bool.true_and]
        rw [BEq.comm]
    · have : decide (b.length ≥ hl + 28) = false := by simp; omega
      simp only [this, Bool.false_and, Bool.and_false]
      split
      · rw [rd1_ok (by omega)]
        simp only [bind_ok]
        split
        · split
          · omega
          · rfl
        · rfl
      · rfl

/-- the closing step of every case: the continuation agrees (possibly weakened), or the verdict is decided -/
macro "close_case" hc:ident : tactic =>
  `(tactic| first
      | exact $hc
      | exact agrees_weaken' $hc
      | exact agrees_weaken' (agrees_weaken' $hc)
      | exact weaken_agrees_false _
      | (simp [Verdict.agrees, Verdict.weaken]; done))

/-! ### one lemma per layer: the layer's step preserves agreement -/

section
variable (rest : List SLayer) (b : Bytes)
variable (ih : ∀ b', (demand rest b').agrees (matchStack (toModel rest) b'))
include ih

theorem refine_eth (src dst : Bytes) :
    (demand (.eth src dst :: rest) b).agrees (matchStack (toModel (.eth src dst :: rest)) b) := by
  simp only [toModel, List.map_cons, SLayer.toLayer, demand, matchStack]
  by_cases hl : b.length < 14
  · simp [hl, Verdict.agrees]
  · simp only [hl, if_false, rdN_ok (show 0 + 6 ≤ b.length by omega), rdN_ok (show 6 + 6 ≤ b.length by omega), bind_ok,
      macUnicast_iff]
    have hc := agrees_cont (c := tagOk (etherTypeOf rest) (slice b 12 2)) (ih (b.drop 14))
    rcases beq_cases (slice b 0 6) src with ⟨e1, e1'⟩ | ⟨e1, e1'⟩ <;>
    rcases beq_cases (slice b 6 6) dst with ⟨e2, e2'⟩ | ⟨e2, e2'⟩ <;>
    cases hg : macIsGroup dst <;>
    simp only [e1, e1', e2, e2', hg, field, Bool.not_true, Bool.not_false, Bool.or_true, Bool.or_false, Bool.true_or, Bool.false_or,
      if_true, if_false, bind_ok, Bool.not_not, Bool.false_eq_true] <;>
    close_case hc

theorem refine_dot3 (src dst : Bytes) :
    (demand (.dot3 src dst :: rest) b).agrees (matchStack (toModel (.dot3 src dst :: rest)) b) := by
  simp only [toModel, List.map_cons, SLayer.toLayer, demand, matchStack]
  by_cases hl : b.length < 14
  · simp [hl, Verdict.agrees]
  · simp only [hl, if_false, rdN_ok (show 0 + 6 ≤ b.length by omega), rdN_ok (show 6 + 6 ≤ b.length by omega), bind_ok]
    have hc := ih (b.drop 14)
    rcases beq_cases (slice b 0 6) src with ⟨e1, e1'⟩ | ⟨e1, e1'⟩ <;>
    rcases beq_cases (slice b 6 6) dst with ⟨e2, e2'⟩ | ⟨e2, e2'⟩ <;>
    cases hg : macIsGroup dst <;>
    (try have hnb := not_bcast_of_not_group hg) <;>
    cases hb : (dst == macBroadcast) <;>
    simp only [e1, e1', e2, e2', hg, hb, field, Bool.not_true, Bool.not_false, Bool.or_true, Bool.or_false, Bool.true_or,
      Bool.false_or, if_true, if_false, bind_ok, Bool.not_not, Bool.false_eq_true] <;>
    first
      | close_case hc
      | (rw [hb] at hnb; exact absurd hnb (by decide))

theorem refine_vlan (tci : Bytes) :
    (demand (.vlan tci :: rest) b).agrees (matchStack (toModel (.vlan tci :: rest)) b) := by
  simp only [toModel, List.map_cons, SLayer.toLayer, demand, matchStack]
  by_cases hl : b.length < 4
  · simp [hl, Verdict.agrees]
  · simp only [hl, if_false, rdN_ok (show 0 + 2 ≤ b.length by omega), bind_ok, vlanId_eq_vid]
    have hc := agrees_cont (c := tagOk (etherTypeOf rest) (slice b 2 2)) (ih (b.drop 4))
    cases e1 : (vid (slice b 0 2) == vid tci) <;>
    simp only [e1, field, if_true, if_false, Bool.false_eq_true] <;>
    close_case hc

theorem refine_ip4 (hdr : Bytes) :
    (demand (.ip4 hdr :: rest) b).agrees (matchStack (toModel (.ip4 hdr :: rest)) b) := by
  simp only [toModel, List.map_cons, SLayer.toLayer, demand, matchStack]
  by_cases hl : b.length < 20
  · simp [hl, Verdict.agrees]
  simp only [hl, if_false, rd1_ok (show 0 < b.length by omega), bind_ok]
  split
  · trivial
  rename_i hv
  simp only [Bool.or_eq_true, bne_iff_ne, decide_eq_true_eq, not_or, Nat.not_lt] at hv
  split
  · trivial
  rename_i hlen
  have hsz : (if (b.getD 0 0).toNat % 16 * 4 < b.length then (b.getD 0 0).toNat % 16 * 4 else b.length)
      = (b.getD 0 0).toNat % 16 * 4 := by split <;> omega
  have h20 : ¬ (b.getD 0 0).toNat % 16 * 4 < 20 := by omega
  have hqe := ipQuotesUs_eq hdr b ((b.getD 0 0).toNat % 16 * 4) (by omega) (by omega)
  split
  · -- the ICMP destination unreachable quoting our header: accepted whatever the addresses are
    rename_i hq
    simp only [h20, if_false, hsz, hqe, hq, bind_ok, if_true, Verdict.agrees]
  rename_i hq
  have hq' : quotesRequest hdr b ((b.getD 0 0).toNat % 16 * 4) = false := by simpa using hq
  simp only [h20, if_false, hsz, hqe, hq', bind_ok, Bool.false_eq_true,
    rdN_ok (show 12 + 4 ≤ b.length by omega), rdN_ok (show 16 + 4 ≤ b.length by omega)]
  have hc := agrees_cont (c := protoOk (ipProtoOf rest) (b.getD 9 0)) (ih (b.drop ((b.getD 0 0).toNat % 16 * 4)))
  simp only [toModel] at hc
  generalize (if protoOk (ipProtoOf rest) (b.getD 9 0) = true then demand rest (b.drop ((b.getD 0 0).toNat % 16 * 4)) else Verdict.unspec) = K at hc ⊢
  generalize matchStack (List.map SLayer.toLayer rest) (b.drop ((b.getD 0 0).toNat % 16 * 4)) = O at hc ⊢
  unfold ip4IsGroup ip4Broadcast ip4Zero
  generalize (((slice hdr 16 4).headD 0).toNat / 16 == 14) = cd
  rcases beq_cases (slice b 16 4) (slice hdr 12 4) with ⟨e1, e1'⟩ | ⟨e1, e1'⟩ <;>
  rcases beq_cases (slice b 12 4) (slice hdr 16 4) with ⟨e2, e2'⟩ | ⟨e2, e2'⟩ <;>
  cases hz : (slice hdr 12 4 == [0, 0, 0, 0]) <;>
  cases hb : (slice hdr 16 4 == [255, 255, 255, 255]) <;>
  cases cd <;>
  simp only [e1, e1', e2, e2', hz, hb, field, bne, Bool.not_true, Bool.not_false, Bool.or_true, Bool.or_false, Bool.true_or,
    Bool.false_or, Bool.and_true, Bool.and_false, Bool.true_and, Bool.false_and, if_true, if_false, bind_ok, Bool.not_not,
    Bool.false_eq_true, weaken_weaken] <;>
  close_case hc

theorem refine_ip6 (src dst : Bytes) :
    (demand (.ip6 src dst :: rest) b).agrees (matchStack (toModel (.ip6 src dst :: rest)) b) := by
  simp only [toModel, List.map_cons, SLayer.toLayer, demand, matchStack]
  by_cases hl : b.length < 40
  · simp [hl, Verdict.agrees]
  simp only [hl, if_false, rdN_ok (show 24 + 16 ≤ b.length by omega), rdN_ok (show 8 + 16 ≤ b.length by omega), bind_ok]
  split
  · trivial
  -- the continuation: the reply's extension headers are skipped by the loop exactly as the specification skips them
  have hc : (v6Cont (protoOk (ipProtoOf rest)) (fun b' => demand rest b') (skipExts (b.length - 40) (b.getD 6 0) (b.drop 40))).agrees
      (if (List.map SLayer.toLayer rest).isEmpty = true then Out.ok true else
        (rd1 "IPv6.next_header" b 6).bind fun nh =>
        (walkExt (b.length - 40) nh (b.drop 40)).bind fun w =>
        match w with
        | some b' => matchStack (List.map SLayer.toLayer rest) b'
        | none => Out.ok false) := by
    cases hs : skipExts (b.length - 40) (b.getD 6 0) (b.drop 40) with
    | none => trivial
    | some pb =>
      obtain ⟨p, b'⟩ := pb
      simp only [v6Cont]
      cases hp : protoOk (ipProtoOf rest) p
      · trivial
      · simp only [if_true]
        cases rest with
        | nil => simp [demand, Verdict.agrees]
        | cons l r =>
          simp only [List.map_cons, List.isEmpty_cons, Bool.false_eq_true, if_false, rd1_ok (show 6 < b.length by omega), bind_ok,
            walkExt_of_skipExts _ _ _ _ _ hs (protoOk_not_ext _ _ hp)]
          exact ih _
  generalize (v6Cont (protoOk (ipProtoOf rest)) (fun b' => demand rest b') (skipExts (b.length - 40) (b.getD 6 0) (b.drop 40))) = K at hc ⊢
  generalize (if (List.map SLayer.toLayer rest).isEmpty = true then Out.ok true else
        (rd1 "IPv6.next_header" b 6).bind fun nh =>
        (walkExt (b.length - 40) nh (b.drop 40)).bind fun w =>
        match w with
        | some b' => matchStack (List.map SLayer.toLayer rest) b'
        | none => Out.ok false) = O at hc ⊢
  unfold ip6IsMulticast
  rcases beq_cases (slice b 24 16) src with ⟨e1, e1'⟩ | ⟨e1, e1'⟩ <;>
  rcases beq_cases (slice b 8 16) dst with ⟨e2, e2'⟩ | ⟨e2, e2'⟩ <;>
  cases hm : (dst.getD 0 0 == 255) <;>
  cases hm2 : (dst.getD 1 0 == 2) <;>
  simp only [e1, e1', e2, e2', hm, hm2, field, Bool.not_true, Bool.not_false, Bool.or_true, Bool.or_false, Bool.true_or,
    Bool.false_or, Bool.and_true, Bool.and_false, Bool.true_and, Bool.false_and, if_true, if_false, bind_ok, Bool.not_not,
    Bool.false_eq_true] <;>
  close_case hc

theorem refine_tcp (sport dport : Bytes) :
    (demand (.tcp sport dport :: rest) b).agrees (matchStack (toModel (.tcp sport dport :: rest)) b) := by
  simp only [toModel, List.map_cons, SLayer.toLayer, demand, matchStack]
  by_cases hl : b.length < 20
  · simp [hl, Verdict.agrees]
  simp only [hl, if_false, rdN_ok (show 0 + 2 ≤ b.length by omega), rdN_ok (show 2 + 2 ≤ b.length by omega),
    rd1_ok (show 12 < b.length by omega), bind_ok]
  split
  · trivial
  rename_i hoff
  simp only [Bool.or_eq_true, decide_eq_true_eq, not_or, Nat.not_lt] at hoff
  have hsz : (if b.length < (b.getD 12 0).toNat / 16 * 4 then b.length else (b.getD 12 0).toNat / 16 * 4)
      = (b.getD 12 0).toNat / 16 * 4 := by split <;> omega
  simp only [hsz]
  have hc := ih (b.drop ((b.getD 12 0).toNat / 16 * 4))
  rcases beq_cases (slice b 0 2) dport with ⟨e1, e1'⟩ | ⟨e1, e1'⟩ <;>
  rcases beq_cases (slice b 2 2) sport with ⟨e2, e2'⟩ | ⟨e2, e2'⟩ <;>
  simp only [e1, e1', e2, e2', field, Bool.and_true, Bool.and_false, Bool.true_and, Bool.false_and, if_true, if_false,
    Bool.false_eq_true] <;>
  close_case hc

theorem refine_udp (sport dport : Bytes) :
    (demand (.udp sport dport :: rest) b).agrees (matchStack (toModel (.udp sport dport :: rest)) b) := by
  simp only [toModel, List.map_cons, SLayer.toLayer, demand, matchStack]
  by_cases hl : b.length < 8
  · simp [hl, Verdict.agrees]
  simp only [hl, if_false, rdN_ok (show 0 + 2 ≤ b.length by omega), rdN_ok (show 2 + 2 ≤ b.length by omega), bind_ok]
  have hc : (if rest.isEmpty = true then Verdict.unspec else demand rest (b.drop 8)).agrees
      (if (List.map SLayer.toLayer rest).isEmpty = true then Out.ok false else matchStack (List.map SLayer.toLayer rest) (b.drop 8)) := by
    cases rest with
    | nil => trivial
    | cons l r => simpa [toModel] using ih (b.drop 8)
  generalize (if rest.isEmpty = true then Verdict.unspec else demand rest (b.drop 8)) = K at hc ⊢
  generalize (if (List.map SLayer.toLayer rest).isEmpty = true then Out.ok false
    else matchStack (List.map SLayer.toLayer rest) (b.drop 8)) = O at hc ⊢
  rcases beq_cases (slice b 0 2) dport with ⟨e1, e1'⟩ | ⟨e1, e1'⟩ <;>
  rcases beq_cases (slice b 2 2) sport with ⟨e2, e2'⟩ | ⟨e2, e2'⟩ <;>
  simp only [e1, e1', e2, e2', field, Bool.and_true, Bool.and_false, Bool.true_and, Bool.false_and, if_true, if_false,
    Bool.false_eq_true] <;>
  close_case hc

theorem refine_radiotap :
    (demand (.radiotap :: rest) b).agrees (matchStack (toModel (.radiotap :: rest)) b) := by
  simp only [toModel, List.map_cons, SLayer.toLayer, demand, matchStack]
  by_cases hl : b.length < 8
  · simp [hl, Verdict.agrees]
  have hl4 : ¬ b.length < 4 := by omega
  simp only [hl, hl4, if_false, rdN_ok (show 2 + 2 ≤ b.length by omega), bind_ok,
    getD_slice (b := b) (off := 2) (n := 2) (i := 0) (by omega), getD_slice (b := b) (off := 2) (n := 2) (i := 1) (by omega)]
  split
  · trivial
  rename_i h
  simp only [Bool.or_eq_true, decide_eq_true_eq, not_or, Nat.not_lt] at h
  have : (b.getD (2 + 0) 0).toNat + (b.getD (2 + 1) 0).toNat * 256 ≤ b.length := h.2
  simp only [this, if_true]
  exact ih _

theorem refine_loopback (family : Bytes) :
    (demand (.loopback family :: rest) b).agrees (matchStack (toModel (.loopback family :: rest)) b) := by
  simp only [toModel, List.map_cons, SLayer.toLayer, demand, matchStack]
  by_cases hl : b.length < 4
  · simp [hl, Verdict.agrees]
  simp only [hl, if_false]
  rcases beq_cases (slice b 0 4) family with ⟨e1, e1'⟩ | ⟨e1, e1'⟩
  · simp only [e1, if_true]
    cases rest with
    | nil => simp [demand, Verdict.agrees, rdN_ok (show 0 + 4 ≤ b.length by omega), e1']
    | cons l r => simpa [toModel] using ih (b.drop 4)
  · simp [e1, Verdict.agrees]

end

/-! ### terminal layers -/

theorem refine_bootp (xid : Bytes) (rest : List SLayer) (b : Bytes) :
    (demand (.bootp xid :: rest) b).agrees (matchStack (toModel (.bootp xid :: rest)) b) := by
  simp only [toModel, List.map_cons, SLayer.toLayer, demand, matchStack]
  by_cases hl : b.length < 236
  · simp [hl, Verdict.agrees]
  simp only [hl, if_false, rdN_ok (show 4 + 4 ≤ b.length by omega), bind_ok]
  have hc : Verdict.accept.agrees (Out.ok true) := rfl
  rcases beq_cases (slice b 4 4) xid with ⟨e1, e1'⟩ | ⟨e1, e1'⟩ <;>
  simp only [e1, e1', field, if_true, if_false, Bool.false_eq_true] <;>
  close_case hc

theorem refine_arp (spa tpa : Bytes) (rest : List SLayer) (b : Bytes) :
    (demand (.arp spa tpa :: rest) b).agrees (matchStack (toModel (.arp spa tpa :: rest)) b) := by
  simp only [toModel, List.map_cons, SLayer.toLayer, demand, matchStack]
  by_cases hl : b.length < 28
  · simp [hl, Verdict.agrees]
  simp only [hl, if_false, rdN_ok (show 14 + 4 ≤ b.length by omega), rdN_ok (show 24 + 4 ≤ b.length by omega), bind_ok]
  have hc : Verdict.accept.agrees (Out.ok true) := rfl
  rcases beq_cases (slice b 14 4) tpa with ⟨e1, e1'⟩ | ⟨e1, e1'⟩ <;>
  rcases beq_cases (slice b 24 4) spa with ⟨e2, e2'⟩ | ⟨e2, e2'⟩ <;>
  simp only [e1, e1', e2, e2', field, Bool.and_true, Bool.and_false, Bool.true_and, Bool.false_and, if_true, if_false,
    Bool.false_eq_true] <;>
  close_case hc

theorem refine_dhcpv6 (hdr : Bytes) (rest : List SLayer) (b : Bytes) :
    (demand (.dhcpv6 hdr :: rest) b).agrees (matchStack (toModel (.dhcpv6 hdr :: rest)) b) := by
  simp only [toModel, List.map_cons, SLayer.toLayer, demand, matchStack, isRelayType]
  by_cases hr : (hdr.getD 0 0 == 12 || hdr.getD 0 0 == 13) = true
  · simp only [hr, if_true, Verdict.agrees]
  · have hr' : (hdr.getD 0 0 == 12 || hdr.getD 0 0 == 13) = false := by simpa using hr
    simp only [hr', Bool.false_eq_true, if_false, Bool.not_false, if_true]
    by_cases hl : b.length < 4
    · simp [hl, Verdict.agrees]
    simp only [hl, if_false, rd1_ok (show 0 < b.length by omega), rdN_ok (show 1 + 3 ≤ b.length by omega), bind_ok]
    have hc : Verdict.accept.agrees (Out.ok true) := rfl
    cases hb : (b.getD 0 0 == 12 || b.getD 0 0 == 13) <;>
    rcases beq_cases (slice b 1 3) (slice hdr 1 3) with ⟨e1, e1'⟩ | ⟨e1, e1'⟩ <;>
    simp only [hb, e1, e1', field, Bool.not_true, Bool.not_false, if_true, if_false, Bool.false_eq_true] <;>
    close_case hc

theorem refine_icmp (kind : ICMPKind) (id seq : Bytes) (rest : List SLayer) (b : Bytes) :
    (demand (.icmp kind id seq :: rest) b).agrees (matchStack (toModel (.icmp kind id seq :: rest)) b) := by
  simp only [toModel, List.map_cons, SLayer.toLayer, demand, matchStack]
  by_cases hl : b.length < 8
  · simp [hl, Verdict.agrees]
  simp only [hl, if_false, rd1_ok (show 0 < b.length by omega), rdN_ok (show 4 + 2 ≤ b.length by omega),
    rdN_ok (show 6 + 2 ≤ b.length by omega), bind_ok]
  have hc : Verdict.accept.agrees (Out.ok true) := rfl
  cases kind <;>
  simp only [ICMPKind.requestType, ICMPKind.replyType, beq_self_eq_true, Bool.true_and, Bool.false_and, Bool.or_false,
    Bool.false_or, show ((8 : UInt8) == 13) = false by decide, show ((8 : UInt8) == 17) = false by decide,
    show ((13 : UInt8) == 8) = false by decide, show ((13 : UInt8) == 17) = false by decide,
    show ((17 : UInt8) == 8) = false by decide, show ((17 : UInt8) == 13) = false by decide]
  · cases et : (b.getD 0 0 == 0) <;>
    rcases beq_cases (slice b 4 2) id with ⟨e1, e1'⟩ | ⟨e1, e1'⟩ <;>
    rcases beq_cases (slice b 6 2) seq with ⟨e2, e2'⟩ | ⟨e2, e2'⟩ <;>
    simp only [et, e1, e1', e2, e2', field, Bool.and_true, Bool.and_false, Bool.true_and, Bool.false_and, if_true, if_false,
      bind_ok, Bool.false_eq_true] <;>
    close_case hc
  · cases et : (b.getD 0 0 == 14) <;>
    rcases beq_cases (slice b 4 2) id with ⟨e1, e1'⟩ | ⟨e1, e1'⟩ <;>
    rcases beq_cases (slice b 6 2) seq with ⟨e2, e2'⟩ | ⟨e2, e2'⟩ <;>
    simp only [et, e1, e1', e2, e2', field, Bool.and_true, Bool.and_false, Bool.true_and, Bool.false_and, if_true, if_false,
      bind_ok, Bool.false_eq_true] <;>
    close_case hc
  · cases et : (b.getD 0 0 == 18) <;>
    rcases beq_cases (slice b 4 2) id with ⟨e1, e1'⟩ | ⟨e1, e1'⟩ <;>
    rcases beq_cases (slice b 6 2) seq with ⟨e2, e2'⟩ | ⟨e2, e2'⟩ <;>
    simp only [et, e1, e1', e2, e2', field, Bool.and_true, Bool.and_false, Bool.true_and, Bool.false_and, if_true, if_false,
      bind_ok, Bool.false_eq_true] <;>
    close_case hc

theorem refine_icmp6echo (id seq : Bytes) (rest : List SLayer) (b : Bytes) :
    (demand (.icmp6echo id seq :: rest) b).agrees (matchStack (toModel (.icmp6echo id seq :: rest)) b) := by
  simp only [toModel, List.map_cons, SLayer.toLayer, demand, matchStack]
  by_cases hl : b.length < 8
  · simp [hl, Verdict.agrees]
  simp only [hl, if_false, rd1_ok (show 0 < b.length by omega), rd1_ok (show 1 < b.length by omega),
    rdN_ok (show 4 + 2 ≤ b.length by omega), rdN_ok (show 6 + 2 ≤ b.length by omega), bind_ok,
    beq_self_eq_true, Bool.true_and, show ((128 : UInt8) == 133) = false by decide,
    show ((128 : UInt8) == 135) = false by decide, Bool.false_and, Bool.or_false]
  have hc : Verdict.accept.agrees (Out.ok true) := rfl
  cases et : (b.getD 0 0 == 129) <;>
  rcases beq_cases (slice b 4 2) id with ⟨e1, e1'⟩ | ⟨e1, e1'⟩ <;>
  rcases beq_cases (slice b 6 2) seq with ⟨e2, e2'⟩ | ⟨e2, e2'⟩ <;>
  simp only [et, e1, e1', e2, e2', field, Bool.and_true, Bool.and_false, Bool.true_and, Bool.false_and, if_true, if_false,
    bind_ok, Bool.false_eq_true] <;>
  close_case hc

theorem refine_dns (id : Bytes) (rest : List SLayer) (b : Bytes) :
    (demand (.dns id :: rest) b).agrees (matchStack (toModel (.dns id :: rest)) b) := by
  simp only [toModel, List.map_cons, SLayer.toLayer, demand, matchStack]
  by_cases hl : b.length < 12
  · simp [hl, Verdict.agrees]
  simp only [hl, if_false, rdN_ok (show 0 + 2 ≤ b.length by omega), bind_ok]
  have hc : Verdict.accept.agrees (Out.ok true) := rfl
  rcases beq_cases (slice b 0 2) id with ⟨e1, e1'⟩ | ⟨e1, e1'⟩ <;>
  simp only [e1, e1', field, if_true, if_false, Bool.false_eq_true] <;>
  close_case hc

/-- the model's verdict is what the specification demands, for every request stack and every buffer -/
theorem refines : ∀ (r : List SLayer) (b : Bytes), (demand r b).agrees (matchStack (toModel r) b)
  | [], b => by simp [demand, toModel, matchStack, Verdict.agrees]
  | l :: rest, b => by
    have ih := fun b' => refines rest b'
    cases l with
    | eth s d => exact refine_eth rest b ih s d
    | dot3 s d => exact refine_dot3 rest b ih s d
    | vlan t => exact refine_vlan rest b ih t
    | ip4 h => exact refine_ip4 rest b ih h
    | ip6 s d => exact refine_ip6 rest b ih s d
    | tcp s d => exact refine_tcp rest b ih s d
    | udp s d => exact refine_udp rest b ih s d
    | icmp k i s => exact refine_icmp k i s rest b
    | icmp6echo i s => exact refine_icmp6echo i s rest b
    | dns i => exact refine_dns i rest b
    | payload => simp [demand, toModel, SLayer.toLayer, matchStack, Verdict.agrees]
    | radiotap => exact refine_radiotap rest b ih
    | loopback f => exact refine_loopback rest b ih f
    | bootp x => exact refine_bootp x rest b
    | dhcpv6 h => exact refine_dhcpv6 h rest b
    | arp s t => exact refine_arp s t rest b

/-- where no reserved octet is set, the receiver's walk of RFC 8200 is the walk of the specification -/
theorem skipExtsRFC_eq : ∀ (f : Nat) (cur : UInt8) (b : Bytes), fragReservedSet f cur b = false →
    skipExtsRFC f cur b = skipExts f cur b
  | 0, cur, b, _ => by simp [skipExtsRFC, skipExts]
  | f + 1, cur, b, h => by
    unfold fragReservedSet at h
    unfold skipExtsRFC skipExts
    by_cases hw : v6Walkable cur = true
    · simp only [hw, if_true] at h ⊢
      by_cases h44 : cur = 44
      · subst h44
        simp only [beq_self_eq_true, if_true, Bool.true_and] at h ⊢
        by_cases h1 : b.getD 1 0 = 0
        · have hz : ((0 : UInt8).toNat + 1) * 8 = 8 := rfl
          simp only [h1, hz, beq_self_eq_true, bne_self_eq_false, Bool.false_eq_true, if_false, Bool.true_and] at h ⊢
          by_cases hlen : 8 < b.length
          · simp only [hlen, if_true] at h ⊢
            split
            · rfl
            · rename_i hc
              simp only [hc, if_false] at h
              exact skipExtsRFC_eq f _ _ h
          · simp [hlen]
        · have hne : (b.getD 1 0 != 0) = true := by simpa using h1
          by_cases hlen : 8 < b.length
          · simp only [hlen, if_true, hne] at h
            exact absurd h (by decide)
          · have : ¬ ((b.getD 1 0).toNat + 1) * 8 < b.length := by omega
            simp only [hlen, this, if_false]
      · have hb : (cur == 44) = false := by simpa using h44
        simp only [hb, Bool.false_eq_true, if_false, Bool.false_and] at h ⊢
        split
        · rename_i hn
          simp only [hn, if_true] at h
          exact skipExtsRFC_eq f _ _ h
        · rfl
    · simp [hw]

end Tins.Matching
