import TinsModel.Matching.Model
import TinsModel.Matching.Spec
/-
  The request object libtins builds for a specification-level request stack, and the relation
  "the matcher's result is what the specification demands".
-/
namespace Tins.Matching

def SLayer.toLayer : SLayer → Layer
  | .eth s d => .eth s d
  | .dot3 s d => .dot3 s d
  | .vlan tci => .dot1q tci
  | .ip4 hdr => .ip hdr
  | .ip6 s d => .ipv6 s d
  | .tcp sp dp => .tcp sp dp
  | .udp sp dp => .udp sp dp
  | .icmp k id seq => .icmp k.requestType id seq
  | .icmp6echo id seq => .icmpv6 128 id seq
  | .dns id => .dns id
  | .payload => .raw
  | .radiotap => .radiotap
  | .loopback f => .loopback f
  | .bootp xid => .bootp xid
  | .dhcpv6 hdr => .dhcpv6 hdr
  | .arp spa tpa => .arp spa tpa

def toModel (r : List SLayer) : List Layer := r.map SLayer.toLayer

/-- the partial inverse used by the run-time oracle: the specification-level view of a model layer,
    when the layer is inside the fragment the property speaks about -/
def Layer.toSLayer? : Layer → Option SLayer
  | .eth s d => some (.eth s d)
  | .dot3 s d => some (.dot3 s d)
  | .dot1q tci => some (.vlan tci)
  | .ip hdr => some (.ip4 hdr)
  | .ipv6 s d => some (.ip6 s d)
  | .tcp sp dp => some (.tcp sp dp)
  | .udp sp dp => some (.udp sp dp)
  | .icmp t id seq =>
    if t == 8 then some (.icmp .echo id seq) else if t == 13 then some (.icmp .timestamp id seq)
    else if t == 17 then some (.icmp .mask id seq) else none
  | .icmpv6 t id seq => if t == 128 then some (.icmp6echo id seq) else none
  | .dns id => some (.dns id)
  | .raw => some .payload
  | .radiotap => some .radiotap
  | .loopback f => some (.loopback f)
  | .bootp xid => some (.bootp xid)
  | .dhcpv6 hdr => some (.dhcpv6 hdr)
  | .arp spa tpa => some (.arp spa tpa)
  | _ => none

def toSpec? (st : List Layer) : Option (List SLayer) := st.mapM Layer.toSLayer?

/-- what the verdict of the specification requires of a matcher result -/
def Verdict.agrees : Verdict → Out Bool → Prop
  | .accept, o => o = .ok true
  | .reject, o => o = .ok false
  | .unspec, _ => True

instance (v : Verdict) (o : Out Bool) : Decidable (v.agrees o) := by
  cases v <;> simp only [Verdict.agrees] <;> infer_instance

end Tins.Matching
