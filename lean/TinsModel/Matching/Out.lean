import TinsModel.Basic.Seq32
/-
  Fault-explicit result type for the response matchers (property C14).

  Every *raw* access of the C++ (`hdr_ptr->field` after `(const hdr*)ptr`, `ptr[i]`, `memcmp`,
  `std::equal` on the reply pointer) is a `rdN`/`rd1` on the reply buffer: it yields `fault`
  when it touches a byte at or past `total_sz` (= `buf.length`; the harness passes an exact-size
  heap block, so ASan sees exactly these accesses).
-/
namespace Tins.Matching

inductive Out (α : Type) where
  | ok (a : α)
  | fault (site : String) (need len : Nat)
deriving Repr, DecidableEq

def Out.isFault {α} : Out α → Bool
  | .ok _ => false
  | .fault .. => true

@[inline] def Out.bind {α β} (x : Out α) (f : α → Out β) : Out β :=
  match x with
  | .ok a => f a
  | .fault s n l => .fault s n l

instance : Monad Out where
  pure := .ok
  bind := Out.bind

/-- bytes `[off, off+n)` of `b` (shorter if `b` ends earlier) -/
def slice (b : Bytes) (off n : Nat) : Bytes := (b.drop off).take n

/-- raw read of `n` bytes at offset `off` through the reply pointer -/
def rdN (site : String) (b : Bytes) (off n : Nat) : Out Bytes :=
  if off + n ≤ b.length then .ok (slice b off n) else .fault site (off + n) b.length

/-- raw read of the byte at offset `off` through the reply pointer -/
def rd1 (site : String) (b : Bytes) (off : Nat) : Out UInt8 :=
  if off < b.length then .ok (b.getD off 0) else .fault site (off + 1) b.length

end Tins.Matching
