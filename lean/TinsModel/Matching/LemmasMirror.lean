import TinsModel.Matching.LemmasSer
/- C14: the byte-level specification evaluated on a serialised reply packet is the field-level verdict;
   the mirrored reply is accepted; a reply differing in a matched field is rejected. -/
set_option linter.unusedSimpArgs false
set_option linter.unusedVariables false
namespace Tins.Matching

/-! ### the tags `serR` writes are the tags the specification expects -/

theorem shape_tagOk (r : List SLayer) (m : List RLayer) (h : shape r m = true) :
    tagOk (etherTypeOf r) (etherTypeR m) = true := by
  cases r with
  | nil => simp [etherTypeOf, tagOk]
  | cons l r' =>
    cases l <;> first
      | (simp [etherTypeOf, tagOk]; done)
      | (cases m with
         | nil => simp [shape] at h
         | cons ml m' =>
           cases ml <;> first
             | (simp [shape] at h; done)
             | (simp [etherTypeOf, etherTypeR, tagOk]; done)
             | (rename_i tp _; cases tp <;> simp [etherTypeOf, etherTypeR, tagOk, TPID.bytes]))

theorem protoR_not_ext (m : List RLayer) : isV6Extension (protoR m) = false := by
  unfold protoR; split <;> decide

theorem shape_protoOk (r : List SLayer) (m : List RLayer) (h : shape r m = true) :
    protoOk (ipProtoOf r) (protoR m) = true := by
  cases r with
  | nil => simp [ipProtoOf, protoOk, protoR_not_ext]
  | cons l r' =>
    cases l <;> first
      | (simp [ipProtoOf, protoOk, protoR_not_ext]; done)
      | (cases m with
         | nil => simp [shape] at h
         | cons ml m' => cases ml <;> first | (simp [shape] at h; done) | simp [ipProtoOf, protoR, protoOk])

/-! ### one layer of `demand` on a serialised reply -/

macro "fin_len" : tactic => `(tactic| (repeat' (first | rfl | omega | intro _ | split)))

theorem dser_eth (s d rd rs : Bytes) (r : List SLayer) (m : List RLayer) (h1 : rd.length = 6) (h2 : rs.length = 6)
    (hs : shape r m = true) (ih : demand r (serR m) = verdictR r m) :
    demand (.eth s d :: r) (serR (.eth rd rs :: m)) = verdictR (.eth s d :: r) (.eth rd rs :: m) := by
  have ht := shape_tagOk r m hs
  simp [demand, serR, verdictR, slice_prefix, slice_skip, drop_skip, h1, h2, etherTypeR_length, ih, ht]
  fin_len

theorem dser_vlan (tci t : Bytes) (tp : TPID) (r : List SLayer) (m : List RLayer) (h1 : t.length = 2)
    (hs : shape r m = true) (ih : demand r (serR m) = verdictR r m) :
    demand (.vlan tci :: r) (serR (.vlan tp t :: m)) = verdictR (.vlan tci :: r) (.vlan tp t :: m) := by
  have ht := shape_tagOk r m hs
  simp [demand, serR, verdictR, slice_prefix, slice_skip, drop_skip, h1, etherTypeR_length, ih, ht]
  fin_len

theorem quotes_eq (hdr pre ck s d opts : Bytes) (m : List RLayer) (h1 : pre.length = 8) (h2 : ck.length = 2)
    (h3 : s.length = 4) (h4 : d.length = 4) :
    quotesRequest hdr (serR (.ip4 pre ck s d opts :: m)) (20 + opts.length) = quotes hdr m := by
  rw [serR_ip4, ← ip4H_length pre ck s d opts (protoR m) h1 h2 h3 h4]
  rw [quotesRequest_app hdr _ _ (protoR m) (by rw [ip4H_length _ _ _ _ _ _ h1 h2 h3 h4]; omega) (ip4H_proto _ _ _ _ _ _ h1)]
  rfl

theorem dser_ip4 (hdr pre ck s d opts : Bytes) (r : List SLayer) (m : List RLayer) (h1 : pre.length = 8) (h2 : ck.length = 2)
    (h3 : s.length = 4) (h4 : d.length = 4) (ho4 : opts.length % 4 = 0) (ho : opts.length ≤ 40)
    (ht : quotes hdr m = false → protoOk (ipProtoOf r) (protoR m) = true)
    (ih : quotes hdr m = false → demand r (serR m) = verdictR r m) :
    demand (.ip4 hdr :: r) (serR (.ip4 pre ck s d opts :: m)) = verdictR (.ip4 hdr :: r) (.ip4 pre ck s d opts :: m) := by
  have hq := quotes_eq hdr pre ck s d opts m h1 h2 h3 h4
  have hL := ip4H_length pre ck s d opts (protoR m) h1 h2 h3 h4
  have hv := vihl_toNat opts ho
  have hhl : (vihl opts).toNat % 16 * 4 = 20 + opts.length := by rw [hv]; omega
  have hver : (vihl opts).toNat / 16 = 4 := by rw [hv]; omega
  rw [serR_ip4] at hq ⊢
  have g0 : (ip4H pre ck s d opts (protoR m) ++ serR m).getD 0 0 = vihl opts := by
    rw [getD_app_left (by omega)]; exact ip4H_first ..
  have g9 : (ip4H pre ck s d opts (protoR m) ++ serR m).getD 9 0 = protoR m := by
    rw [getD_app_left (by omega)]; exact ip4H_proto _ _ _ _ _ _ h1
  have gs : slice (ip4H pre ck s d opts (protoR m) ++ serR m) 12 4 = s := by
    rw [slice_app_left (by omega)]; exact ip4H_src _ _ _ _ _ _ h1 h2 h3
  have gd : slice (ip4H pre ck s d opts (protoR m) ++ serR m) 16 4 = d := by
    rw [slice_app_left (by omega)]; exact ip4H_dst _ _ _ _ _ _ h1 h2 h3 h4
  have gdrop : (ip4H pre ck s d opts (protoR m) ++ serR m).drop (20 + opts.length) = serR m := by
    rw [← hL]; simp
  have glen : (ip4H pre ck s d opts (protoR m) ++ serR m).length = 20 + opts.length + (serR m).length := by
    simp [hL]
  simp only [demand, verdictR, g0, g9, gs, gd, hhl, hver, gdrop, glen, hq]
  have c1 : ¬ (20 + opts.length + (serR m).length < 20) := by omega
  have c2 : ((4 != 4) || decide ((vihl opts).toNat % 16 < 5)) = false := by
    have : ¬ (vihl opts).toNat % 16 < 5 := by rw [hv]; omega
    simp [this]
  have c3 : ¬ (20 + opts.length + (serR m).length < 20 + opts.length) := by omega
  simp only [c1, c2, c3, if_false, Bool.false_eq_true]
  cases hqq : quotes hdr m
  · simp only [Bool.false_eq_true, if_false, ht hqq, if_true, ih hqq]
  · simp

theorem dser_ip6 (sa da pre s d : Bytes) (hlim : UInt8) (exts : List Ext) (r : List SLayer) (m : List RLayer) (h1 : pre.length = 5)
    (h3 : s.length = 16) (h4 : d.length = 16) (hx : exts.all extOk = true) (hne : exts = [] ∨ serR m ≠ [])
    (ht : protoOk (ipProtoOf r) (protoR m) = true) (ih : demand r (serR m) = verdictR r m) :
    demand (.ip6 sa da :: r) (serR (.ip6 pre hlim s d exts :: m)) =
      verdictR (.ip6 sa da :: r) (.ip6 pre hlim s d exts :: m) := by
  have hL := ip6H_length pre hlim s d (nextOf exts (protoR m)) h1 h3 h4
  rw [serR_ip6]
  generalize hT : serExts exts (protoR m) ++ serR m = T
  have g0 : (ip6H pre hlim s d (nextOf exts (protoR m)) ++ T).getD 0 0 = 0x60 := by
    rw [getD_app_left (by omega)]; exact ip6H_first ..
  have g6 : (ip6H pre hlim s d (nextOf exts (protoR m)) ++ T).getD 6 0 = nextOf exts (protoR m) := by
    rw [getD_app_left (by omega)]; exact ip6H_nh _ _ _ _ _ h1
  have gs : slice (ip6H pre hlim s d (nextOf exts (protoR m)) ++ T) 8 16 = s := by
    rw [slice_app_left (by omega)]; exact ip6H_src _ _ _ _ _ h1 h3
  have gd : slice (ip6H pre hlim s d (nextOf exts (protoR m)) ++ T) 24 16 = d := by
    rw [slice_app_left (by omega)]; exact ip6H_dst _ _ _ _ _ h1 h3 h4
  have gdrop : (ip6H pre hlim s d (nextOf exts (protoR m)) ++ T).drop 40 = T := by
    rw [← hL]; simp
  have glen : (ip6H pre hlim s d (nextOf exts (protoR m)) ++ T).length = 40 + T.length := by
    simp [hL]
  have hwalk : skipExts (40 + T.length - 40) (nextOf exts (protoR m)) T = some (protoR m, serR m) := by
    rw [← hT]
    exact skipExts_serExts exts (protoR m) (serR m) _ hx (protoR_not_walkable m) hne (by omega)
  have hv : ((0x60 : UInt8)).toNat = 96 := by decide
  have c1 : ¬ (40 + T.length < 40) := by omega
  simp only [demand, verdictR, g0, g6, gs, gd, gdrop, glen, hwalk, v6Cont, ht, hv, c1, if_false, if_true, ih]
  simp

theorem dser_tcp (sp dp rsp rdp sa tl opts : Bytes) (x2 : UInt8) (r : List SLayer) (m : List RLayer) (h1 : rsp.length = 2)
    (h2 : rdp.length = 2) (h3 : sa.length = 8) (h4 : tl.length = 7) (ho4 : opts.length % 4 = 0) (ho : opts.length ≤ 40)
    (ih : demand r (serR m) = verdictR r m) :
    demand (.tcp sp dp :: r) (serR (.tcp rsp rdp sa x2 tl opts :: m)) =
      verdictR (.tcp sp dp :: r) (.tcp rsp rdp sa x2 tl opts :: m) := by
  have hL := tcpH_length rsp rdp sa x2 tl opts h1 h2 h3 h4
  have hv := doffByte_toNat x2 opts ho
  have hoff : (doffByte x2 opts).toNat / 16 * 4 = 20 + opts.length := by rw [hv]; omega
  rw [serR_tcp]
  have g12 : (tcpH rsp rdp sa x2 tl opts ++ serR m).getD 12 0 = doffByte x2 opts := by
    rw [getD_app_left (by omega)]; exact tcpH_doff _ _ _ _ _ _ h1 h2 h3
  have gs : slice (tcpH rsp rdp sa x2 tl opts ++ serR m) 0 2 = rsp := by
    rw [slice_app_left (by omega)]; exact tcpH_sp _ _ _ _ _ _ h1
  have gd : slice (tcpH rsp rdp sa x2 tl opts ++ serR m) 2 2 = rdp := by
    rw [slice_app_left (by omega)]; exact tcpH_dp _ _ _ _ _ _ h1 h2
  have gdrop : (tcpH rsp rdp sa x2 tl opts ++ serR m).drop (20 + opts.length) = serR m := by
    rw [← hL]; simp
  have glen : (tcpH rsp rdp sa x2 tl opts ++ serR m).length = 20 + opts.length + (serR m).length := by
    simp [hL]
  have c1 : ¬ (20 + opts.length + (serR m).length < 20) := by omega
  have c2 : (decide (20 + opts.length < 20) || decide (20 + opts.length + (serR m).length < 20 + opts.length)) = false := by
    have a : ¬ (20 + opts.length < 20) := by omega
    have b : ¬ (20 + opts.length + (serR m).length < 20 + opts.length) := by omega
    simp [a, b]
  simp only [demand, verdictR, g12, gs, gd, hoff, gdrop, glen, c1, c2, if_false, Bool.false_eq_true, ih]

theorem dser_udp (sp dp rsp rdp lc : Bytes) (r : List SLayer) (m : List RLayer) (h1 : rsp.length = 2) (h2 : rdp.length = 2)
    (h3 : lc.length = 4) (ih : demand r (serR m) = verdictR r m) :
    demand (.udp sp dp :: r) (serR (.udp rsp rdp lc :: m)) = verdictR (.udp sp dp :: r) (.udp rsp rdp lc :: m) := by
  simp [serR, demand, verdictR, slice_prefix, slice_skip, slice_cons, drop_skip, h1, h2, h3, ih]
  fin_len

theorem dser_icmp (k : ICMPKind) (id seq cc rid rseq data : Bytes) (t : UInt8) (r : List SLayer) (m : List RLayer)
    (h1 : cc.length = 3) (h2 : rid.length = 2) (h3 : rseq.length = 2) :
    demand (.icmp k id seq :: r) (serR (.icmp t cc rid rseq data :: m)) =
      verdictR (.icmp k id seq :: r) (.icmp t cc rid rseq data :: m) := by
  simp [serR, demand, verdictR, slice_prefix, slice_skip, slice_cons, drop_skip, h1, h2, h3]
  fin_len

theorem dser_icmp6 (id seq cc rid rseq data : Bytes) (t : UInt8) (r : List SLayer) (m : List RLayer)
    (h1 : cc.length = 3) (h2 : rid.length = 2) (h3 : rseq.length = 2) :
    demand (.icmp6echo id seq :: r) (serR (.icmp6 t cc rid rseq data :: m)) =
      verdictR (.icmp6echo id seq :: r) (.icmp6 t cc rid rseq data :: m) := by
  simp [serR, demand, verdictR, slice_prefix, slice_skip, slice_cons, drop_skip, h1, h2, h3]
  fin_len

theorem dser_dns (id rid rest : Bytes) (r : List SLayer) (m : List RLayer) (h1 : rid.length = 2) (h2 : 10 ≤ rest.length) :
    demand (.dns id :: r) (serR (.dns rid rest :: m)) = verdictR (.dns id :: r) (.dns rid rest :: m) := by
  simp [serR, demand, verdictR, slice_prefix, slice_skip, slice_cons, drop_skip, h1]
  fin_len


theorem dser_dot3 (s d rd rs l : Bytes) (r : List SLayer) (m : List RLayer) (h1 : rd.length = 6) (h2 : rs.length = 6)
    (h3 : l.length = 2) (ih : demand r (serR m) = verdictR r m) :
    demand (.dot3 s d :: r) (serR (.dot3 rd rs l :: m)) = verdictR (.dot3 s d :: r) (.dot3 rd rs l :: m) := by
  simp [demand, serR, verdictR, slice_prefix, slice_skip, drop_skip, h1, h2, h3, ih]
  fin_len

theorem dser_loopback (f rf : Bytes) (r : List SLayer) (m : List RLayer) (h1 : rf.length = 4)
    (ih : demand r (serR m) = verdictR r m) :
    demand (.loopback f :: r) (serR (.loopback rf :: m)) = verdictR (.loopback f :: r) (.loopback rf :: m) := by
  simp [demand, serR, verdictR, slice_prefix, slice_skip, drop_skip, h1, ih]
  fin_len

theorem dser_radiotap (vp body : Bytes) (r : List SLayer) (m : List RLayer) (h1 : vp.length = 2) (h2 : 4 ≤ body.length)
    (h3 : body.length + 4 < 65536) (ih : demand r (serR m) = verdictR r m) :
    demand (.radiotap :: r) (serR (.radiotap vp body :: m)) = verdictR (.radiotap :: r) (.radiotap vp body :: m) := by
  have e : serR (.radiotap vp body :: m) =
      (vp ++ [UInt8.ofNat ((body.length + 4) % 256), UInt8.ofNat ((body.length + 4) / 256)] ++ body) ++ serR m := by
    simp [serR]
  generalize hH : vp ++ [UInt8.ofNat ((body.length + 4) % 256), UInt8.ofNat ((body.length + 4) / 256)] ++ body = H at e
  have hL : H.length = body.length + 4 := by rw [← hH]; simp [h1]; omega
  have g2 : (H ++ serR m).getD 2 0 = UInt8.ofNat ((body.length + 4) % 256) := by
    rw [getD_app_left (by omega), ← hH]; simp [List.getD, List.getElem?_append_right, h1]
  have g3 : (H ++ serR m).getD 3 0 = UInt8.ofNat ((body.length + 4) / 256) := by
    rw [getD_app_left (by omega), ← hH]; simp [List.getD, List.getElem?_append_right, h1]
  have t2 : (UInt8.ofNat ((body.length + 4) % 256)).toNat = (body.length + 4) % 256 :=
    UInt8.toNat_ofNat_of_lt' (by simp only [UInt8.size]; omega)
  have t3 : (UInt8.ofNat ((body.length + 4) / 256)).toNat = (body.length + 4) / 256 :=
    UInt8.toNat_ofNat_of_lt' (by simp only [UInt8.size]; omega)
  have hit : (body.length + 4) % 256 + (body.length + 4) / 256 * 256 = body.length + 4 := by omega
  have gdrop : (H ++ serR m).drop (body.length + 4) = serR m := by rw [← hL]; simp
  have glen : (H ++ serR m).length = body.length + 4 + (serR m).length := by simp [hL]
  have c1 : ¬ (body.length + 4 + (serR m).length < 8) := by omega
  have c2 : (decide (body.length + 4 < 8) || decide (body.length + 4 + (serR m).length < body.length + 4)) = false := by
    have a : ¬ (body.length + 4 < 8) := by omega
    have b : ¬ (body.length + 4 + (serR m).length < body.length + 4) := by omega
    simp [a, b]
  rw [e]
  simp only [demand, verdictR, g2, g3, t2, t3, hit, gdrop, glen, c1, c2, if_false, Bool.false_eq_true, ih]

theorem dser_bootp (xid pre rx rest : Bytes) (r : List SLayer) (m : List RLayer) (h1 : pre.length = 4) (h2 : rx.length = 4)
    (h3 : 228 ≤ rest.length) :
    demand (.bootp xid :: r) (serR (.bootp pre rx rest :: m)) = verdictR (.bootp xid :: r) (.bootp pre rx rest :: m) := by
  simp [serR, demand, verdictR, slice_prefix, slice_skip, slice_cons, drop_skip, h1, h2]
  fin_len

theorem dser_dhcpv6 (hdr rx opts : Bytes) (t : UInt8) (r : List SLayer) (m : List RLayer) (h1 : rx.length = 3)
    (hr : isRelayType (hdr.getD 0 0) = false) :
    demand (.dhcpv6 hdr :: r) (serR (.dhcpv6 t rx opts :: m)) = verdictR (.dhcpv6 hdr :: r) (.dhcpv6 t rx opts :: m) := by
  simp only [demand, hr, Bool.false_eq_true, if_false, verdictR, serR]
  simp [slice_prefix, slice_skip, slice_cons, drop_skip, h1]
  fin_len

theorem dser_arp (spa tpa pre rspa tha rtpa trail : Bytes) (r : List SLayer) (m : List RLayer) (h1 : pre.length = 14)
    (h2 : rspa.length = 4) (h3 : tha.length = 6) (h4 : rtpa.length = 4) :
    demand (.arp spa tpa :: r) (serR (.arp pre rspa tha rtpa trail :: m)) =
      verdictR (.arp spa tpa :: r) (.arp pre rspa tha rtpa trail :: m) := by
  simp [serR, demand, verdictR, slice_prefix, slice_skip, slice_cons, drop_skip, h1, h2, h3, h4]
  fin_len

/-- the byte-level specification on a serialised reply packet is the field-level verdict -/
theorem demand_serR : ∀ (r : List SLayer) (m : List RLayer), shape r m = true → demand r (serR m) = verdictR r m
  | [], m, _ => by simp [demand, verdictR]
  | l :: r, m, h => by
    cases l with
    | payload => simp [demand, verdictR]
    | eth s d =>
      cases m with
      | nil => simp [shape] at h
      | cons ml m' =>
        cases ml <;> try (simp [shape] at h; done)
        case eth rd rs =>
          simp only [shape, Bool.and_eq_true, beq_iff_eq] at h
          exact dser_eth s d rd rs r m' h.1.1 h.1.2 h.2 (demand_serR r m' h.2)
    | dot3 s d =>
      cases m with
      | nil => simp [shape] at h
      | cons ml m' =>
        cases ml <;> try (simp [shape] at h; done)
        case dot3 rd rs l =>
          simp only [shape, Bool.and_eq_true, beq_iff_eq] at h
          exact dser_dot3 s d rd rs l r m' h.1.1.1 h.1.1.2 h.1.2 (demand_serR r m' h.2)
    | vlan tci =>
      cases m with
      | nil => simp [shape] at h
      | cons ml m' =>
        cases ml <;> try (simp [shape] at h; done)
        case vlan tp t =>
          simp only [shape, Bool.and_eq_true, beq_iff_eq] at h
          exact dser_vlan tci t tp r m' h.1 h.2 (demand_serR r m' h.2)
    | loopback f =>
      cases m with
      | nil => simp [shape] at h
      | cons ml m' =>
        cases ml <;> try (simp [shape] at h; done)
        case loopback rf =>
          simp only [shape, Bool.and_eq_true, beq_iff_eq] at h
          exact dser_loopback f rf r m' h.1 (demand_serR r m' h.2)
    | radiotap =>
      cases m with
      | nil => simp [shape] at h
      | cons ml m' =>
        cases ml <;> try (simp [shape] at h; done)
        case radiotap vp body =>
          simp only [shape, Bool.and_eq_true, beq_iff_eq, decide_eq_true_eq] at h
          obtain ⟨⟨⟨h1, h2⟩, h3⟩, hs⟩ := h
          exact dser_radiotap vp body r m' h1 h2 h3 (demand_serR r m' hs)
    | ip4 hdr =>
      cases m with
      | nil => simp [shape] at h
      | cons ml m' =>
        cases ml <;> try (simp [shape] at h; done)
        case ip4 pre ck s d opts =>
          simp only [shape, Bool.and_eq_true, beq_iff_eq, decide_eq_true_eq, Bool.or_eq_true] at h
          obtain ⟨⟨⟨⟨⟨⟨h1, h2⟩, h3⟩, h4⟩, ho4⟩, ho⟩, hs⟩ := h
          have hs' : quotes hdr m' = false → shape r m' = true := by
            intro hq; rcases hs with hs | hs
            · rw [hq] at hs; exact absurd hs (by decide)
            · exact hs
          exact dser_ip4 hdr pre ck s d opts r m' h1 h2 h3 h4 ho4 ho (fun hq => shape_protoOk r m' (hs' hq))
            (fun hq => demand_serR r m' (hs' hq))
    | ip6 sa da =>
      cases m with
      | nil => simp [shape] at h
      | cons ml m' =>
        cases ml <;> try (simp [shape] at h; done)
        case ip6 pre hlim s d exts =>
          simp only [shape, Bool.and_eq_true, beq_iff_eq, Bool.or_eq_true, List.isEmpty_iff, Bool.not_eq_true',
            List.isEmpty_eq_false_iff] at h
          obtain ⟨⟨⟨⟨⟨h1, h3⟩, h4⟩, hx⟩, hne⟩, hs⟩ := h
          exact dser_ip6 sa da pre s d hlim exts r m' h1 h3 h4 hx hne (shape_protoOk r m' hs) (demand_serR r m' hs)
    | tcp sp dp =>
      cases m with
      | nil => simp [shape] at h
      | cons ml m' =>
        cases ml <;> try (simp [shape] at h; done)
        case tcp rsp rdp sa x2 tl opts =>
          simp only [shape, Bool.and_eq_true, beq_iff_eq, decide_eq_true_eq] at h
          obtain ⟨⟨⟨⟨⟨⟨h1, h2⟩, h3⟩, h4⟩, ho4⟩, ho⟩, hs⟩ := h
          exact dser_tcp sp dp rsp rdp sa tl opts x2 r m' h1 h2 h3 h4 ho4 ho (demand_serR r m' hs)
    | udp sp dp =>
      cases m with
      | nil => simp [shape] at h
      | cons ml m' =>
        cases ml <;> try (simp [shape] at h; done)
        case udp rsp rdp lc =>
          simp only [shape, Bool.and_eq_true, beq_iff_eq] at h
          obtain ⟨⟨⟨h1, h2⟩, h3⟩, hs⟩ := h
          exact dser_udp sp dp rsp rdp lc r m' h1 h2 h3 (demand_serR r m' hs)
    | icmp k id seq =>
      cases m with
      | nil => simp [shape] at h
      | cons ml m' =>
        cases ml <;> try (simp [shape] at h; done)
        case icmp t cc rid rseq data =>
          simp only [shape, Bool.and_eq_true, beq_iff_eq] at h
          exact dser_icmp k id seq cc rid rseq data t r m' h.1.1 h.1.2 h.2
    | icmp6echo id seq =>
      cases m with
      | nil => simp [shape] at h
      | cons ml m' =>
        cases ml <;> try (simp [shape] at h; done)
        case icmp6 t cc rid rseq data =>
          simp only [shape, Bool.and_eq_true, beq_iff_eq] at h
          exact dser_icmp6 id seq cc rid rseq data t r m' h.1.1 h.1.2 h.2
    | dns id =>
      cases m with
      | nil => simp [shape] at h
      | cons ml m' =>
        cases ml <;> try (simp [shape] at h; done)
        case dns rid rest =>
          simp only [shape, Bool.and_eq_true, beq_iff_eq, decide_eq_true_eq] at h
          exact dser_dns id rid rest r m' h.1 h.2
    | bootp xid =>
      cases m with
      | nil => simp [shape] at h
      | cons ml m' =>
        cases ml <;> try (simp [shape] at h; done)
        case bootp pre rx rest =>
          simp only [shape, Bool.and_eq_true, beq_iff_eq, decide_eq_true_eq] at h
          exact dser_bootp xid pre rx rest r m' h.1.1 h.1.2 h.2
    | dhcpv6 hdr =>
      cases m with
      | nil => simp [shape] at h
      | cons ml m' =>
        cases ml <;> try (simp [shape] at h; done)
        case dhcpv6 t rx opts =>
          simp only [shape, Bool.and_eq_true, beq_iff_eq, Bool.not_eq_true'] at h
          exact dser_dhcpv6 hdr rx opts t r m' h.2 h.1
    | arp spa tpa =>
      cases m with
      | nil => simp [shape] at h
      | cons ml m' =>
        cases ml <;> try (simp [shape] at h; done)
        case arp pre rspa tha rtpa trail =>
          simp only [shape, Bool.and_eq_true, beq_iff_eq] at h
          obtain ⟨⟨⟨h1, h2⟩, h3⟩, h4⟩ := h
          exact dser_arp spa tpa pre rspa tha rtpa trail r m' h1 h2 h3 h4

end Tins.Matching
