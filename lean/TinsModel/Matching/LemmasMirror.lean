import TinsModel.Matching.Mirror
import TinsModel.Matching.LemmasBasic
/- C14: the byte-level specification evaluated on a serialised reply packet is the field-level verdict;
   the mirrored reply is accepted; a reply differing in a matched field is rejected. -/
set_option linter.unusedSimpArgs false
set_option linter.unusedVariables false
namespace Tins.Matching

/-! ### slices of concatenations -/

theorem slice_prefix {a b : Bytes} {n : Nat} (h : a.length = n) : slice (a ++ b) 0 n = a := by
  subst h; simp [slice]

theorem slice_skip {a b : Bytes} {off n : Nat} (h : a.length ≤ off) :
    slice (a ++ b) off n = slice b (off - a.length) n := by
  unfold slice
  rw [List.drop_append, List.drop_eq_nil_of_le h, List.nil_append]

theorem slice_cons {x : UInt8} {b : Bytes} {off n : Nat} : slice (x :: b) (off + 1) n = slice b off n := by
  simp [slice]

theorem drop_skip {a b : Bytes} {n : Nat} (h : a.length ≤ n) : (a ++ b).drop n = b.drop (n - a.length) := by
  rw [List.drop_append, List.drop_eq_nil_of_le h, List.nil_append]

theorem etherTypeR_length (m : List RLayer) : (etherTypeR m).length = 2 := by
  unfold etherTypeR; split <;> rfl

/-! ### the tags `serR` writes are the tags the specification expects -/

theorem shape_tagOk (r : List SLayer) (m : List RLayer) (h : shape r m = true) :
    tagOk (etherTypeOf r) (etherTypeR m) = true := by
  cases r with
  | nil => simp [etherTypeOf, tagOk]
  | cons l r' =>
    cases l <;> first
      | (simp [etherTypeOf, tagOk]; done)
      | (cases m with
         | nil => simp [shape] at h
         | cons ml m' => cases ml <;> first | (simp [shape] at h; done) | simp [etherTypeOf, etherTypeR, tagOk])

theorem protoR_not_ext (m : List RLayer) : isV6Extension (protoR m) = false := by
  unfold protoR; split <;> decide

theorem shape_protoOk (r : List SLayer) (m : List RLayer) (h : shape r m = true) :
    protoOk (ipProtoOf r) (protoR m) = true := by
  cases r with
  | nil => simp [ipProtoOf, protoOk, protoR_not_ext]
  | cons l r' =>
    cases l <;> first
      | (simp [ipProtoOf, protoOk, protoR_not_ext]; done)
      | (cases m with
         | nil => simp [shape] at h
         | cons ml m' => cases ml <;> first | (simp [shape] at h; done) | simp [ipProtoOf, protoR, protoOk])

/-! ### one layer of `demand` on a serialised reply -/

macro "fin_len" : tactic => `(tactic| (repeat' (first | rfl | omega | intro _ | split)))

theorem dser_eth (s d rd rs : Bytes) (r : List SLayer) (m : List RLayer) (h1 : rd.length = 6) (h2 : rs.length = 6)
    (hs : shape r m = true) (ih : demand r (serR m) = verdictR r m) :
    demand (.eth s d :: r) (serR (.eth rd rs :: m)) = verdictR (.eth s d :: r) (.eth rd rs :: m) := by
  have ht := shape_tagOk r m hs
  simp [demand, serR, verdictR, slice_prefix, slice_skip, drop_skip, h1, h2, etherTypeR_length, ih, ht]
  fin_len

theorem dser_vlan (tci t : Bytes) (r : List SLayer) (m : List RLayer) (h1 : t.length = 2)
    (hs : shape r m = true) (ih : demand r (serR m) = verdictR r m) :
    demand (.vlan tci :: r) (serR (.vlan t :: m)) = verdictR (.vlan tci :: r) (.vlan t :: m) := by
  have ht := shape_tagOk r m hs
  simp [demand, serR, verdictR, slice_prefix, slice_skip, drop_skip, h1, etherTypeR_length, ih, ht]
  fin_len

theorem dser_ip4 (hdr pre ck s d : Bytes) (r : List SLayer) (m : List RLayer) (h1 : pre.length = 8) (h2 : ck.length = 2)
    (h3 : s.length = 4) (h4 : d.length = 4) (hq : quotesRequest hdr (serR (.ip4 pre ck s d :: m)) 20 = false)
    (hs : shape r m = true) (ih : demand r (serR m) = verdictR r m) :
    demand (.ip4 hdr :: r) (serR (.ip4 pre ck s d :: m)) = verdictR (.ip4 hdr :: r) (.ip4 pre ck s d :: m) := by
  have ht := shape_protoOk r m hs
  simp only [serR] at hq ⊢
  have h9 : (0x45 :: (pre ++ (protoR m :: (ck ++ (s ++ (d ++ serR m)))))).getD 9 0 = protoR m := by
    simp [List.getD, List.getElem?_append_right, List.getElem?_cons, h1]
  have hv : ((0x45 : UInt8)).toNat = 69 := by decide
  simp [demand, verdictR, h9, hv, hq, slice_prefix, slice_skip, slice_cons, drop_skip, h1, h2, h3, h4, ih, ht]
  fin_len

theorem dser_ip6 (sa da pre s d : Bytes) (hlim : UInt8) (r : List SLayer) (m : List RLayer) (h1 : pre.length = 5)
    (h3 : s.length = 16) (h4 : d.length = 16)
    (hs : shape r m = true) (ih : demand r (serR m) = verdictR r m) :
    demand (.ip6 sa da :: r) (serR (.ip6 pre hlim s d :: m)) = verdictR (.ip6 sa da :: r) (.ip6 pre hlim s d :: m) := by
  have ht := shape_protoOk r m hs
  simp only [serR]
  have h6 : (0x60 :: (pre ++ (protoR m :: hlim :: (s ++ (d ++ serR m))))).getD 6 0 = protoR m := by
    simp [List.getD, List.getElem?_append_right, List.getElem?_cons, h1]
  have hv : ((0x60 : UInt8)).toNat = 96 := by decide
  simp [demand, verdictR, h6, hv, slice_prefix, slice_skip, slice_cons, drop_skip, h1, h3, h4, ih, ht]
  fin_len

theorem dser_tcp (sp dp rsp rdp sa tl : Bytes) (r : List SLayer) (m : List RLayer) (h1 : rsp.length = 2) (h2 : rdp.length = 2)
    (h3 : sa.length = 8) (h4 : tl.length = 7) (ih : demand r (serR m) = verdictR r m) :
    demand (.tcp sp dp :: r) (serR (.tcp rsp rdp sa tl :: m)) = verdictR (.tcp sp dp :: r) (.tcp rsp rdp sa tl :: m) := by
  simp only [serR]
  have h12 : (rsp ++ (rdp ++ (sa ++ (0x50 :: (tl ++ serR m)))))[12]?.getD 0 = 0x50 := by
    simp [List.getElem?_append_right, h1, h2, h3]
  have hv : ((0x50 : UInt8)).toNat = 80 := by decide
  simp [demand, verdictR, h12, hv, slice_prefix, slice_skip, slice_cons, drop_skip, h1, h2, h3, h4, ih]
  fin_len

theorem dser_udp (sp dp rsp rdp lc : Bytes) (r : List SLayer) (m : List RLayer) (h1 : rsp.length = 2) (h2 : rdp.length = 2)
    (h3 : lc.length = 4) (ih : demand r (serR m) = verdictR r m) :
    demand (.udp sp dp :: r) (serR (.udp rsp rdp lc :: m)) = verdictR (.udp sp dp :: r) (.udp rsp rdp lc :: m) := by
  simp [serR, demand, verdictR, slice_prefix, slice_skip, slice_cons, drop_skip, h1, h2, h3, ih]
  fin_len

theorem dser_icmp (k : ICMPKind) (id seq cc rid rseq data : Bytes) (t : UInt8) (r : List SLayer) (m : List RLayer)
    (h1 : cc.length = 3) (h2 : rid.length = 2) (h3 : rseq.length = 2) :
    demand (.icmp k id seq :: r) (serR (.icmp t cc rid rseq data :: m)) =
      verdictR (.icmp k id seq :: r) (.icmp t cc rid rseq data :: m) := by
  simp [serR, demand, verdictR, slice_prefix, slice_skip, slice_cons, drop_skip, h1, h2, h3]
  fin_len

theorem dser_icmp6 (id seq cc rid rseq data : Bytes) (t : UInt8) (r : List SLayer) (m : List RLayer)
    (h1 : cc.length = 3) (h2 : rid.length = 2) (h3 : rseq.length = 2) :
    demand (.icmp6echo id seq :: r) (serR (.icmp6 t cc rid rseq data :: m)) =
      verdictR (.icmp6echo id seq :: r) (.icmp6 t cc rid rseq data :: m) := by
  simp [serR, demand, verdictR, slice_prefix, slice_skip, slice_cons, drop_skip, h1, h2, h3]
  fin_len

theorem dser_dns (id rid rest : Bytes) (r : List SLayer) (m : List RLayer) (h1 : rid.length = 2) (h2 : 10 ≤ rest.length) :
    demand (.dns id :: r) (serR (.dns rid rest :: m)) = verdictR (.dns id :: r) (.dns rid rest :: m) := by
  simp [serR, demand, verdictR, slice_prefix, slice_skip, slice_cons, drop_skip, h1]
  fin_len


/-- the byte-level specification on a serialised reply packet is the field-level verdict -/
theorem demand_serR : ∀ (r : List SLayer) (m : List RLayer), shape r m = true → demand r (serR m) = verdictR r m
  | [], m, _ => by simp [demand, verdictR]
  | l :: r, m, h => by
    cases l with
    | payload => simp [demand, verdictR]
    | dot3 s d => simp [shape] at h
    | radiotap => simp [shape] at h
    | eth s d =>
      cases m with
      | nil => simp [shape] at h
      | cons ml m' =>
        cases ml <;> try (simp [shape] at h; done)
        case eth rd rs =>
          simp only [shape, Bool.and_eq_true, beq_iff_eq] at h
          exact dser_eth s d rd rs r m' h.1.1 h.1.2 h.2 (demand_serR r m' h.2)
    | vlan tci =>
      cases m with
      | nil => simp [shape] at h
      | cons ml m' =>
        cases ml <;> try (simp [shape] at h; done)
        case vlan t =>
          simp only [shape, Bool.and_eq_true, beq_iff_eq] at h
          exact dser_vlan tci t r m' h.1 h.2 (demand_serR r m' h.2)
    | ip4 hdr =>
      cases m with
      | nil => simp [shape] at h
      | cons ml m' =>
        cases ml <;> try (simp [shape] at h; done)
        case ip4 pre ck s d =>
          simp only [shape, Bool.and_eq_true, beq_iff_eq, Bool.not_eq_true'] at h
          obtain ⟨⟨⟨⟨⟨h1, h2⟩, h3⟩, h4⟩, hq⟩, hs⟩ := h
          exact dser_ip4 hdr pre ck s d r m' h1 h2 h3 h4 hq hs (demand_serR r m' hs)
    | ip6 sa da =>
      cases m with
      | nil => simp [shape] at h
      | cons ml m' =>
        cases ml <;> try (simp [shape] at h; done)
        case ip6 pre hlim s d =>
          simp only [shape, Bool.and_eq_true, beq_iff_eq] at h
          obtain ⟨⟨⟨h1, h3⟩, h4⟩, hs⟩ := h
          exact dser_ip6 sa da pre s d hlim r m' h1 h3 h4 hs (demand_serR r m' hs)
    | tcp sp dp =>
      cases m with
      | nil => simp [shape] at h
      | cons ml m' =>
        cases ml <;> try (simp [shape] at h; done)
        case tcp rsp rdp sa tl =>
          simp only [shape, Bool.and_eq_true, beq_iff_eq] at h
          obtain ⟨⟨⟨⟨h1, h2⟩, h3⟩, h4⟩, hs⟩ := h
          exact dser_tcp sp dp rsp rdp sa tl r m' h1 h2 h3 h4 (demand_serR r m' hs)
    | udp sp dp =>
      cases m with
      | nil => simp [shape] at h
      | cons ml m' =>
        cases ml <;> try (simp [shape] at h; done)
        case udp rsp rdp lc =>
          simp only [shape, Bool.and_eq_true, beq_iff_eq] at h
          obtain ⟨⟨⟨h1, h2⟩, h3⟩, hs⟩ := h
          exact dser_udp sp dp rsp rdp lc r m' h1 h2 h3 (demand_serR r m' hs)
    | icmp k id seq =>
      cases m with
      | nil => simp [shape] at h
      | cons ml m' =>
        cases ml <;> try (simp [shape] at h; done)
        case icmp t cc rid rseq data =>
          simp only [shape, Bool.and_eq_true, beq_iff_eq] at h
          exact dser_icmp k id seq cc rid rseq data t r m' h.1.1 h.1.2 h.2
    | icmp6echo id seq =>
      cases m with
      | nil => simp [shape] at h
      | cons ml m' =>
        cases ml <;> try (simp [shape] at h; done)
        case icmp6 t cc rid rseq data =>
          simp only [shape, Bool.and_eq_true, beq_iff_eq] at h
          exact dser_icmp6 id seq cc rid rseq data t r m' h.1.1 h.1.2 h.2
    | dns id =>
      cases m with
      | nil => simp [shape] at h
      | cons ml m' =>
        cases ml <;> try (simp [shape] at h; done)
        case dns rid rest =>
          simp only [shape, Bool.and_eq_true, beq_iff_eq, decide_eq_true_eq] at h
          exact dser_dns id rid rest r m' h.1 h.2

end Tins.Matching
