import TinsModel.Matching.LemmasBasic
/- C14, memory safety: no matcher reads outside the reply buffer, for any stack and any buffer. -/
namespace Tins.Matching

theorem walkExt_noFault : ∀ (fuel : Nat) (cur : UInt8) (b : Bytes), NoFault (walkExt fuel cur b)
  | 0, cur, b => by simp [walkExt]
  | fuel + 1, cur, b => by
    unfold walkExt
    split
    · rename_i h
      have hlen : 8 < b.length := by
        simp only [Bool.and_eq_true, decide_eq_true_eq] at h; exact h.1
      refine noFault_rd1 (by omega) (fun l => ?_)
      dsimp only
      split
      · simp
      · exact noFault_rd1 (by omega) (fun nx => walkExt_noFault fuel nx _)
    · simp

theorem ipQuotesUs_noFault (hdr buf : Bytes) (sz : Nat) (h20 : 20 ≤ buf.length) :
    NoFault (ipQuotesUs hdr buf sz) := by
  unfold ipQuotesUs
  refine noFault_rd1 (by omega) (fun proto => ?_)
  split
  · dsimp only
    split
    · refine noFault_rd1 (by omega) (fun t => ?_)
      split
      · split
        · exact noFault_rdN (by omega) (fun q => by simp)
        · simp
      · simp
    · simp
  · simp

/-- `matcher_noFault`: for every chain of layer objects and every buffer (any length, 0 included) -/
theorem matchStack_noFault : ∀ (st : List Layer) (buf : Bytes), NoFault (matchStack st buf)
  | [], buf => by simp [matchStack]
  | l :: rest, buf => by
    have ih := matchStack_noFault rest
    cases l with
    | eth src dst =>
      unfold matchStack
      split
      · simp
      · refine noFault_rdN (by omega) (fun rdst => ?_)
        split
        · refine noFault_rdN (by omega) (fun rsrc => ?_)
          split
          · exact ih _
          · simp
        · simp
    | dot3 src dst =>
      unfold matchStack
      split
      · simp
      · refine noFault_rdN (by omega) (fun rdst => ?_)
        split
        · refine noFault_rdN (by omega) (fun rsrc => ?_)
          split
          · exact ih _
          · simp
        · simp
    | dot1q tci =>
      unfold matchStack
      split
      · simp
      · refine noFault_rdN (by omega) (fun r => ?_)
        split
        · exact ih _
        · simp
    | ip hdr =>
      unfold matchStack
      split
      · simp
      · refine noFault_rd1 (by omega) (fun b0 => ?_)
        dsimp only
        split
        · simp
        · refine noFault_bind (ipQuotesUs_noFault _ _ _ (by omega)) (fun q => ?_)
          split
          · simp
          · refine noFault_rdN (by omega) (fun rs => ?_)
            refine noFault_rdN (by omega) (fun rd => ?_)
            split
            · exact ih _
            · simp
    | ipv6 src dst =>
      unfold matchStack
      split
      · simp
      · refine noFault_rdN (by omega) (fun rdst => ?_)
        refine noFault_rdN (by omega) (fun rsrc => ?_)
        split
        · split
          · simp
          · refine noFault_rd1 (by omega) (fun nh => ?_)
            refine noFault_bind (walkExt_noFault _ _ _) (fun w => ?_)
            cases w with
            | none => simp
            | some b' => exact ih _
        · simp
    | tcp sport dport =>
      unfold matchStack
      split
      · simp
      · refine noFault_rdN (by omega) (fun rsp => ?_)
        refine noFault_rdN (by omega) (fun rdp => ?_)
        split
        · exact noFault_rd1 (by omega) (fun b12 => ih _)
        · simp
    | udp sport dport =>
      unfold matchStack
      split
      · simp
      · refine noFault_rdN (by omega) (fun rsp => ?_)
        refine noFault_rdN (by omega) (fun rdp => ?_)
        split
        · split
          · simp
          · exact ih _
        · simp
    | icmp type id seq =>
      unfold matchStack
      split
      · simp
      · refine noFault_rd1 (by omega) (fun rt => ?_)
        split
        · refine noFault_rdN (by omega) (fun rid => ?_)
          exact noFault_rdN (by omega) (fun rseq => by simp)
        · simp
    | icmpv6 type id seq =>
      unfold matchStack
      split
      · simp
      · refine noFault_rd1 (by omega) (fun rt => ?_)
        split
        · refine noFault_rdN (by omega) (fun rid => ?_)
          exact noFault_rdN (by omega) (fun rseq => by simp)
        · split
          · exact noFault_rd1 (by omega) (fun c => by simp)
          · simp
    | dns id =>
      unfold matchStack
      split
      · simp
      · exact noFault_rdN (by omega) (fun rid => by simp)
    | bootp xid =>
      unfold matchStack
      split
      · simp
      · exact noFault_rdN (by omega) (fun rx => by simp)
    | dhcpv6 hdr =>
      unfold matchStack
      split
      · split
        · simp
        · refine noFault_rd1 (by omega) (fun t => ?_)
          split
          · simp
          · exact noFault_rdN (by omega) (fun rx => by simp)
      · simp
    | radiotap =>
      unfold matchStack
      split
      · simp
      · refine noFault_rdN (by omega) (fun l => ?_)
        dsimp only
        split
        · exact ih _
        · simp
    | loopback family =>
      unfold matchStack
      split
      · simp
      · split
        · exact noFault_rdN (by omega) (fun rf => by simp)
        · exact ih _
    | arp spa tpa =>
      unfold matchStack
      split
      · simp
      · refine noFault_rdN (by omega) (fun a => ?_)
        exact noFault_rdN (by omega) (fun b => by simp)
    | raw => simp [matchStack]
    | other => simp [matchStack]
    | cacher => unfold matchStack; exact ih _

end Tins.Matching
