import TinsModel.Matching.Refine
/- Helper lemmas for C14: reads under a size guard, fault-freedom combinators, the `field` combinator. -/
namespace Tins.Matching

theorem rdN_ok {site : String} {b : Bytes} {off n : Nat} (h : off + n ≤ b.length) :
    rdN site b off n = .ok (slice b off n) := by
  simp [rdN, h]

theorem rd1_ok {site : String} {b : Bytes} {off : Nat} (h : off < b.length) :
    rd1 site b off = .ok (b.getD off 0) := by
  simp [rd1, h]

@[simp] theorem bind_ok {α β} (a : α) (f : α → Out β) : (Out.ok a).bind f = f a := rfl

/-- no raw read outside the buffer -/
def NoFault {α} (o : Out α) : Prop := o.isFault = false

@[simp] theorem noFault_ok {α} (a : α) : NoFault (Out.ok a) := rfl

theorem noFault_bind {α β} {x : Out α} {k : α → Out β} (hx : NoFault x) (hk : ∀ v, NoFault (k v)) :
    NoFault (x.bind k) := by
  cases x with
  | ok a => exact hk a
  | fault s n l => simp [NoFault, Out.isFault] at hx

theorem noFault_rdN {β} {site : String} {b : Bytes} {off n : Nat} {k : Bytes → Out β}
    (h : off + n ≤ b.length) (hk : ∀ v, NoFault (k v)) : NoFault ((rdN site b off n).bind k) := by
  rw [rdN_ok h]; exact hk _

theorem noFault_rd1 {β} {site : String} {b : Bytes} {off : Nat} {k : UInt8 → Out β}
    (h : off < b.length) (hk : ∀ v, NoFault (k v)) : NoFault ((rd1 site b off).bind k) := by
  rw [rd1_ok h]; exact hk _

theorem noFault_ite {α} {c : Prop} [Decidable c] {x y : Out α} (hx : NoFault x) (hy : NoFault y) :
    NoFault (if c then x else y) := by
  split <;> assumption

/-! ### the `field` combinator -/

theorem weaken_reject {k : Verdict} : k.weaken = .reject ↔ k = .reject := by
  cases k <;> simp [Verdict.weaken]

theorem weaken_ne_accept (k : Verdict) : k.weaken ≠ .accept := by
  cases k <;> simp [Verdict.weaken]

theorem agrees_weaken {k : Verdict} {o : Out Bool} (h : k = .reject → o = .ok false) : k.weaken.agrees o := by
  cases k <;> simp_all [Verdict.weaken, Verdict.agrees]

theorem agrees_field {e m : Bool} {k : Verdict} {o : Out Bool}
    (h1 : e = true → k.agrees o)
    (h2 : e = false → m = true → o = .ok false)
    (h3 : e = false → m = false → k = .reject → o = .ok false) :
    (field e m k).agrees o := by
  unfold field
  cases e <;> cases m
  · simpa using agrees_weaken (h3 rfl rfl)
  · simpa [Verdict.agrees] using h2 rfl rfl
  · simpa using h1 rfl
  · simpa using h1 rfl

theorem agrees_unspec (o : Out Bool) : Verdict.unspec.agrees o := trivial

theorem agrees_reject_of {k : Verdict} {o : Out Bool} (h : k.agrees o) : k = .reject → o = .ok false := by
  intro hk; subst hk; exact h

end Tins.Matching
