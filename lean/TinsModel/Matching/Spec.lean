import TinsModel.Matching.Out
/-
  Specification of response matching (property C14), written from the property text and the RFC
  header layouts (Ethernet II, IEEE 802.1Q, RFC 791, RFC 8200, RFC 793, RFC 768, RFC 792, RFC 4443,
  RFC 1035) — not from libtins.

  A request is a stack of `SLayer`s (outermost first).  `demand r b` dissects the candidate reply `b`
  along the shape of the request and says what the property demands of a matcher:

  * `accept`  — `b` is the mirrored reply of `r`: every layer is well formed and carries the tag of the
                next layer, reply destination = request source, reply source = request destination,
                ports swapped, the matching reply type with the same identifier and sequence number,
                same DNS id, same VLAN id;
  * `reject`  — `b` differs from the mirrored reply in a *matched* field.  Matched fields: reply
                destination address (unless the request source is the unspecified IPv4 address);
                reply source address unless the request destination is broadcast / multicast; both
                ports; ICMP / ICMPv6 reply type, identifier, sequence number; DNS id; VLAN id; BootP / DHCP
                transaction id; DHCPv6 transaction id and "the reply is not a relay message"; ARP sender and
                target protocol address.  The layers in front of the differing field must be well formed
                (otherwise the field is not that field);
  * `unspec`  — anything else (truncated or differently shaped packet, a differing unmatched field).

  Second kind of accepted reply (RFC 792 / RFC 1122 §3.2.2.1): an IPv4 packet carrying an ICMP destination
  unreachable whose quoted datagram starts with the 20 octets of the request's IPv4 header exactly as the request
  was sent — whoever sent it and whatever follows the quoted header (`quotesRequest`).

  Link layers of the request: Ethernet II, IEEE 802.3, 802.1Q tags (nested any number of times), the BSD loopback
  family word, a RadioTap capture header.  Network: IPv4 (reply with any option list), IPv6 (reply with any chain of
  hop-by-hop / routing / fragment / destination-options / mobility headers, `skipExts`).  Above: TCP (ports only —
  SYN-ACK and RST alike, any option list), UDP, ICMP echo / timestamp / address-mask, ICMPv6 echo, DNS, BootP / DHCP
  (transaction id; the opcode is not matched), DHCPv6 client / server messages (3-octet transaction id, the reply is
  not a relay message), ARP (protocol addresses swapped; the opcode is not matched).
-/
namespace Tins.Matching

inductive ICMPKind where
  | echo | timestamp | mask
deriving Repr, DecidableEq

def ICMPKind.requestType : ICMPKind → UInt8
  | .echo => 8 | .timestamp => 13 | .mask => 17

def ICMPKind.replyType : ICMPKind → UInt8
  | .echo => 0 | .timestamp => 14 | .mask => 18

inductive SLayer where
  | eth (src dst : Bytes)          -- 6 + 6
  | dot3 (src dst : Bytes)         -- IEEE 802.3 framing: same addresses, a length instead of a type
  | vlan (tci : Bytes)             -- 2 bytes: PCP(3) DEI(1) VID(12)
  | ip4 (hdr : Bytes)              -- the 20-byte header as sent (source at 12, destination at 16)
  | ip6 (src dst : Bytes)          -- 16 + 16
  | tcp (sport dport : Bytes)      -- 2 + 2
  | udp (sport dport : Bytes)
  | icmp (kind : ICMPKind) (id seq : Bytes)
  | icmp6echo (id seq : Bytes)
  | dns (id : Bytes)
  | payload                        -- opaque bytes: nothing to match
  | radiotap                       -- capture header in front of the frame: nothing to match
  | loopback (family : Bytes)      -- BSD loopback / DLT_NULL: the 4-byte address family word (a tag, not matched)
  | bootp (xid : Bytes)            -- BootP / DHCP: 4-byte transaction id
  | dhcpv6 (hdr : Bytes)           -- DHCPv6 client/server message: msg-type (1) + transaction id (3) as sent
  | arp (spa tpa : Bytes)          -- ARP: sender / target protocol address (4 + 4)
deriving Repr, DecidableEq

inductive Verdict where
  | accept | reject | unspec
deriving Repr, DecidableEq

/-- a differing *unmatched* field: the packet is no longer the mirrored reply, but may still be a stranger -/
def Verdict.weaken : Verdict → Verdict
  | .accept => .unspec
  | v => v

/-- one field of the reply: equal → go on; different and matched → reject; different and unmatched → weaken -/
def field (equal matched : Bool) (k : Verdict) : Verdict :=
  if equal then k else if matched then .reject else k.weaken

/-- the EtherTypes that may announce the next layer (`[]`: no constraint).  A VLAN tag is announced by the customer
    tag type 0x8100, the 802.1ad service tag type 0x88a8 (what the outer of two nested tags carries) or the
    pre-standard 0x9100. -/
def etherTypeOf : List SLayer → List Bytes
  | .vlan _ :: _ => [[0x81, 0x00], [0x88, 0xa8], [0x91, 0x00]]
  | .ip4 _ :: _ => [[0x08, 0x00]]
  | .ip6 _ _ :: _ => [[0x86, 0xdd]]
  | .arp _ _ :: _ => [[0x08, 0x06]]
  | _ => []

/-- the IP protocol number announcing the next layer -/
def ipProtoOf : List SLayer → Option UInt8
  | .tcp _ _ :: _ => some 6
  | .udp _ _ :: _ => some 17
  | .icmp _ _ _ :: _ => some 1
  | .icmp6echo _ _ :: _ => some 58
  | _ => none

def tagOk (want : List Bytes) (got : Bytes) : Bool := want.isEmpty || want.contains got

/-- IPv6 extension headers and other non-transport next-header values (RFC 8200 §4, IANA) -/
def isV6Extension (h : UInt8) : Bool :=
  h == 0 || h == 43 || h == 44 || h == 50 || h == 51 || h == 59 || h == 60 || h == 135 || h == 139 ||
  h == 140 || h == 253 || h == 254

def protoOk (want : Option UInt8) (got : UInt8) : Bool :=
  match want with
  | none => !isV6Extension got
  | some p => p == got

/-- group bit of the first octet, or the broadcast address -/
def macIsGroup (a : Bytes) : Bool := (a.headD 0).toNat % 2 == 1

/-- limited broadcast or class D -/
def ip4IsGroup (a : Bytes) : Bool := a == [255, 255, 255, 255] || (a.headD 0).toNat / 16 == 14

def ip6IsMulticast (a : Bytes) : Bool := a.getD 0 0 == 255

def vid (tci : Bytes) : Nat := ((tci.getD 0 0).toNat % 16) * 256 + (tci.getD 1 0).toNat

/-- the IPv6 extension headers a reply may carry between the fixed header and the upper layer, all with the layout
    `next header (1) | length (1) | …`: hop-by-hop options (0), routing (43), fragment (44), destination options (60),
    mobility (135).  (ESP 50, AH 51 — other length unit —, no-next-header 59, HIP 139, shim6 140, 253/254 are not
    followed: a reply that needs them skipped has no clause.) -/
def v6Walkable (h : UInt8) : Bool := h == 0 || h == 43 || h == 44 || h == 60 || h == 135

/-- Follow the chain of extension headers in front of the upper-layer header: `some (p, rest)` = the upper layer has
    protocol `p` and starts at `rest`; `none` = no clause.  A header of `(len + 1) * 8` octets must be whole **and be
    followed by at least one octet** (a packet ending in an extension header has no upper layer).  A fragment header
    (RFC 8200 §4.5) is 8 octets, is sent with its reserved octet zero, and only the first fragment (offset 0) carries
    the upper-layer header.  Every step consumes ≥ 8 octets: `fuel = length` is the unbounded walk (`skipExts_fuel`). -/
def skipExts : Nat → UInt8 → Bytes → Option (UInt8 × Bytes)
  | 0, cur, b => if v6Walkable cur then none else some (cur, b)
  | fuel + 1, cur, b =>
    if v6Walkable cur then
      let n := ((b.getD 1 0).toNat + 1) * 8
      if n < b.length then
        if cur == 44 && !(b.getD 1 0 == 0 && b.getD 2 0 == 0 && (b.getD 3 0).toNat / 8 == 0) then none
        else skipExts fuel (b.getD 0 0) (b.drop n)
      else none
    else some (cur, b)

/-- what is demanded behind the extension headers: the upper layer must be the announced one -/
def v6Cont (ok : UInt8 → Bool) (k : Bytes → Verdict) : Option (UInt8 × Bytes) → Verdict
  | some (p, b') => if ok p then k b' else .unspec
  | none => .unspec

def isRelayType (t : UInt8) : Bool := t == 12 || t == 13

/-- RFC 792 destination unreachable carrying exactly the request's IPv4 header -/
def quotesRequest (hdr b : Bytes) (hl : Nat) : Bool :=
  b.getD 9 0 == 1 && b.length ≥ hl + 28 && b.getD hl 0 == 3 && slice b (hl + 8) 20 == hdr

def demand : List SLayer → Bytes → Verdict
  | [], _ => .accept
  | .payload :: _, _ => .accept
  | .eth src dst :: rest, b =>
    if b.length < 14 then .unspec else
    let cont := if tagOk (etherTypeOf rest) (slice b 12 2) then demand rest (b.drop 14) else .unspec
    field (slice b 0 6 == src) true (field (slice b 6 6 == dst) (!macIsGroup dst) cont)
  | .dot3 src dst :: rest, b =>
    if b.length < 14 then .unspec else
    field (slice b 0 6 == src) true (field (slice b 6 6 == dst) (!macIsGroup dst) (demand rest (b.drop 14)))
  | .vlan tci :: rest, b =>
    if b.length < 4 then .unspec else
    let cont := if tagOk (etherTypeOf rest) (slice b 2 2) then demand rest (b.drop 4) else .unspec
    field (vid (slice b 0 2) == vid tci) true cont
  | .ip4 hdr :: rest, b =>
    if b.length < 20 then .unspec else
    let v := (b.getD 0 0).toNat
    if v / 16 != 4 || v % 16 < 5 then .unspec else
    let hl := (v % 16) * 4
    if b.length < hl then .unspec else
    if quotesRequest hdr b hl then .accept else
    let src := slice hdr 12 4
    let dst := slice hdr 16 4
    let cont := if protoOk (ipProtoOf rest) (b.getD 9 0) then demand rest (b.drop hl) else .unspec
    field (slice b 16 4 == src) (src != [0, 0, 0, 0]) (field (slice b 12 4 == dst) (!ip4IsGroup dst) cont)
  | .ip6 src dst :: rest, b =>
    if b.length < 40 then .unspec else
    if (b.getD 0 0).toNat / 16 != 6 then .unspec else
    let cont := v6Cont (protoOk (ipProtoOf rest)) (fun b' => demand rest b') (skipExts (b.length - 40) (b.getD 6 0) (b.drop 40))
    field (slice b 24 16 == src) true (field (slice b 8 16 == dst) (!ip6IsMulticast dst) cont)
  | .tcp sport dport :: rest, b =>
    if b.length < 20 then .unspec else
    let off := ((b.getD 12 0).toNat / 16) * 4
    if off < 20 || b.length < off then .unspec else
    field (slice b 0 2 == dport) true (field (slice b 2 2 == sport) true (demand rest (b.drop off)))
  | .udp sport dport :: rest, b =>
    if b.length < 8 then .unspec else
    let cont := if rest.isEmpty then .unspec else demand rest (b.drop 8)
    field (slice b 0 2 == dport) true (field (slice b 2 2 == sport) true cont)
  | .icmp kind id seq :: _, b =>
    if b.length < 8 then .unspec else
    field (b.getD 0 0 == kind.replyType) true
      (field (slice b 4 2 == id) true (field (slice b 6 2 == seq) true .accept))
  | .icmp6echo id seq :: _, b =>
    if b.length < 8 then .unspec else
    field (b.getD 0 0 == 129) true
      (field (slice b 4 2 == id) true (field (slice b 6 2 == seq) true .accept))
  | .dns id :: _, b =>
    if b.length < 12 then .unspec else
    field (slice b 0 2 == id) true .accept
  | .radiotap :: rest, b =>
    if b.length < 8 then .unspec else
    let itLen := (b.getD 2 0).toNat + (b.getD 3 0).toNat * 256
    if itLen < 8 || b.length < itLen then .unspec else demand rest (b.drop itLen)
  | .loopback family :: rest, b =>
    if b.length < 4 then .unspec else
    if slice b 0 4 == family then demand rest (b.drop 4) else .unspec
  | .bootp xid :: _, b =>
    if b.length < 236 then .unspec else
    field (slice b 4 4 == xid) true .accept
  | .dhcpv6 hdr :: _, b =>
    if isRelayType (hdr.getD 0 0) then .unspec else
    if b.length < 4 then .unspec else
    field (!isRelayType (b.getD 0 0)) true (field (slice b 1 3 == slice hdr 1 3) true .accept)
  | .arp spa tpa :: _, b =>
    if b.length < 28 then .unspec else
    field (slice b 14 4 == tpa) true (field (slice b 24 4 == spa) true .accept)

/-! ### RFC 8200 to the letter (known finding KF-C14-5)

`skipExts` above follows fragment headers whose reserved octet is zero — what a conforming peer sends.  RFC 8200 §4.5
also says what a *receiver* does with that octet: "ignored on reception".  `skipExtsRFC` is the walk of such a receiver
(a fragment header is 8 octets whatever the octet holds); `rfcView` rewrites a reply into the one a receiver treats it
like (every reserved octet zeroed), which is how the run-time oracle decides replies the walk of libtins does not
follow. -/

def skipExtsRFC : Nat → UInt8 → Bytes → Option (UInt8 × Bytes)
  | 0, cur, b => if v6Walkable cur then none else some (cur, b)
  | fuel + 1, cur, b =>
    if v6Walkable cur then
      let n := if cur == 44 then 8 else ((b.getD 1 0).toNat + 1) * 8
      if n < b.length then
        if cur == 44 && !(b.getD 2 0 == 0 && (b.getD 3 0).toNat / 8 == 0) then none
        else skipExtsRFC fuel (b.getD 0 0) (b.drop n)
      else none
    else some (cur, b)

/-- the receiver's walk meets a whole fragment header whose reserved octet is not zero -/
def fragReservedSet : Nat → UInt8 → Bytes → Bool
  | 0, _, _ => false
  | fuel + 1, cur, b =>
    if v6Walkable cur then
      let n := if cur == 44 then 8 else ((b.getD 1 0).toNat + 1) * 8
      if n < b.length then
        if cur == 44 && b.getD 1 0 != 0 then true
        else if cur == 44 && !(b.getD 2 0 == 0 && (b.getD 3 0).toNat / 8 == 0) then false
        else fragReservedSet fuel (b.getD 0 0) (b.drop n)
      else false
    else false

/-- the chain with the reserved octet of every fragment header zeroed -/
def zeroFragReserved : Nat → UInt8 → Bytes → Bytes
  | 0, _, b => b
  | fuel + 1, cur, b =>
    if v6Walkable cur then
      let n := if cur == 44 then 8 else ((b.getD 1 0).toNat + 1) * 8
      if n < b.length then
        (if cur == 44 then b.take 1 ++ (0 :: (b.take 8).drop 2) else b.take n) ++
          zeroFragReserved fuel (b.getD 0 0) (b.drop n)
      else b
    else b

/-- the reply as a receiver that ignores the reserved octets sees it (link layers are skipped by their sizes) -/
def rfcView : List SLayer → Bytes → Bytes
  | .eth _ _ :: r, b => b.take 14 ++ rfcView r (b.drop 14)
  | .dot3 _ _ :: r, b => b.take 14 ++ rfcView r (b.drop 14)
  | .vlan _ :: r, b => b.take 4 ++ rfcView r (b.drop 4)
  | .loopback _ :: r, b => b.take 4 ++ rfcView r (b.drop 4)
  | .radiotap :: r, b =>
    let itLen := (b.getD 2 0).toNat + (b.getD 3 0).toNat * 256
    if itLen < 8 || b.length < itLen then b else b.take itLen ++ rfcView r (b.drop itLen)
  | .ip6 _ _ :: _, b =>
    if b.length < 40 then b else b.take 40 ++ zeroFragReserved (b.length - 40) (b.getD 6 0) (b.drop 40)
  | _, b => b

/-- what RFC 8200 demands beyond `demand`: where `demand` has no clause only because of a reserved octet, the reply
    is to be treated like its `rfcView` -/
def demandRFC (r : List SLayer) (b : Bytes) : Verdict :=
  match demand r b with
  | .unspec => if rfcView r b != b then demand r (rfcView r b) else .unspec
  | v => v

end Tins.Matching
