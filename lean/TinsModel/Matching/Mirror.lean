import TinsModel.Matching.Spec
/-
  Replies as packets (property C14): a reply is a stack of `RLayer`s with the matched fields explicit and every
  other header field free; `serR` lays it out on the wire (RFC layouts, IPv4 without options, TCP without
  options, IPv6 without extension headers); `mirror r` is the mirrored reply of the request `r`.
-/
namespace Tins.Matching

inductive RLayer where
  | eth (dst src : Bytes)
  | vlan (tci : Bytes)
  /-- `pre`: tos, total length, id, flags + fragment offset, ttl (8 bytes); header checksum (2 bytes) -/
  | ip4 (pre cksum src dst : Bytes)
  /-- `pre`: rest of traffic class / flow label, payload length (5 bytes) -/
  | ip6 (pre : Bytes) (hopLimit : UInt8) (src dst : Bytes)
  /-- `seqack`: sequence and acknowledgement numbers (8 bytes); `tail`: flags, window, checksum, urgent (7 bytes) -/
  | tcp (sport dport seqack tail : Bytes)
  /-- `lenck`: length and checksum (4 bytes) -/
  | udp (sport dport lenck : Bytes)
  /-- `codeck`: code and checksum (3 bytes) -/
  | icmp (type : UInt8) (codeck id seq data : Bytes)
  | icmp6 (type : UInt8) (codeck id seq data : Bytes)
  /-- `rest`: flags and counts (10 bytes) followed by the records -/
  | dns (id rest : Bytes)
  | payload (data : Bytes)
deriving Repr, DecidableEq

def etherTypeR : List RLayer → Bytes
  | .vlan _ :: _ => [0x81, 0x00]
  | .ip4 _ _ _ _ :: _ => [0x08, 0x00]
  | .ip6 _ _ _ _ :: _ => [0x86, 0xdd]
  | _ => [0xff, 0xff]

def protoR : List RLayer → UInt8
  | .tcp _ _ _ _ :: _ => 6
  | .udp _ _ _ :: _ => 17
  | .icmp _ _ _ _ _ :: _ => 1
  | .icmp6 _ _ _ _ _ :: _ => 58
  | _ => 61

/-- wire format of a reply -/
def serR : List RLayer → Bytes
  | [] => []
  | .eth d s :: m => d ++ (s ++ (etherTypeR m ++ serR m))
  | .vlan tci :: m => tci ++ (etherTypeR m ++ serR m)
  | .ip4 pre ck s d :: m => 0x45 :: (pre ++ (protoR m :: (ck ++ (s ++ (d ++ serR m)))))
  | .ip6 pre hl s d :: m => 0x60 :: (pre ++ (protoR m :: hl :: (s ++ (d ++ serR m))))
  | .tcp sp dp sa tl :: m => sp ++ (dp ++ (sa ++ (0x50 :: (tl ++ serR m))))
  | .udp sp dp lc :: m => sp ++ (dp ++ (lc ++ serR m))
  | .icmp t cc id seq data :: _ => t :: (cc ++ (id ++ (seq ++ data)))
  | .icmp6 t cc id seq data :: _ => t :: (cc ++ (id ++ (seq ++ data)))
  | .dns id rest :: _ => id ++ rest
  | .payload data :: _ => data

/-- the mirrored reply: addresses and ports swapped, the matching reply type with the same identifier and
    sequence number, the same DNS id, the same VLAN tag; unmatched fields get fixed values -/
def mirror : List SLayer → List RLayer
  | [] => []
  | .eth s d :: r => .eth s d :: mirror r                 -- reply destination := request source
  | .vlan t :: r => .vlan t :: mirror r
  | .ip4 hdr :: r => .ip4 [0, 0, 0, 0, 0, 0, 0, 64] [0, 0] (slice hdr 16 4) (slice hdr 12 4) :: mirror r
  | .ip6 s d :: r => .ip6 [0, 0, 0, 0, 0] 64 d s :: mirror r
  | .tcp sp dp :: r => .tcp dp sp [0, 0, 0, 0, 0, 0, 0, 0] [0x12, 0, 0, 0, 0, 0, 0] :: mirror r
  | .udp sp dp :: r => .udp dp sp [0, 0, 0, 0] :: mirror r
  | .icmp k id seq :: _ => [.icmp k.replyType [0, 0, 0] id seq []]
  | .icmp6echo id seq :: _ => [.icmp6 129 [0, 0, 0] id seq []]
  | .dns id :: _ => [.dns id [0x80, 0, 0, 0, 0, 0, 0, 0, 0, 0]]
  | .payload :: _ => [.payload []]
  | .dot3 _ _ :: _ => []
  | .radiotap :: _ => []

/-- the reply has the layer structure of the request, with well-formed field widths, and is not an ICMP
    destination-unreachable quoting the request (answered by a third party, outside the relation) -/
def shape : List SLayer → List RLayer → Bool
  | [], _ => true
  | .payload :: _, _ => true
  | .eth _ _ :: r, .eth rd rs :: m => rd.length == 6 && rs.length == 6 && shape r m
  | .vlan _ :: r, .vlan t :: m => t.length == 2 && shape r m
  | .ip4 hdr :: r, .ip4 pre ck s d :: m =>
    pre.length == 8 && ck.length == 2 && s.length == 4 && d.length == 4 &&
    !quotesRequest hdr (serR (.ip4 pre ck s d :: m)) 20 && shape r m
  | .ip6 _ _ :: r, .ip6 pre _ s d :: m => pre.length == 5 && s.length == 16 && d.length == 16 && shape r m
  | .tcp _ _ :: r, .tcp sp dp sa tl :: m =>
    sp.length == 2 && dp.length == 2 && sa.length == 8 && tl.length == 7 && shape r m
  | .udp _ _ :: r, .udp sp dp lc :: m => sp.length == 2 && dp.length == 2 && lc.length == 4 && shape r m
  | .icmp _ _ _ :: _, .icmp _ cc id seq _ :: _ => cc.length == 3 && id.length == 2 && seq.length == 2
  | .icmp6echo _ _ :: _, .icmp6 _ cc id seq _ :: _ => cc.length == 3 && id.length == 2 && seq.length == 2
  | .dns _ :: _, .dns id rest :: _ => id.length == 2 && decide (10 ≤ rest.length)
  | _, _ => false

/-- what the specification demands of a reply given as a packet (field level, no bytes) -/
def verdictR : List SLayer → List RLayer → Verdict
  | [], _ => .accept
  | .payload :: _, _ => .accept
  | .eth s d :: r, .eth rd rs :: m => field (rd == s) true (field (rs == d) (!macIsGroup d) (verdictR r m))
  | .vlan tci :: r, .vlan t :: m => field (vid t == vid tci) true (verdictR r m)
  | .ip4 hdr :: r, .ip4 _ _ rs rd :: m =>
    field (rd == slice hdr 12 4) (slice hdr 12 4 != [0, 0, 0, 0])
      (field (rs == slice hdr 16 4) (!ip4IsGroup (slice hdr 16 4)) (verdictR r m))
  | .ip6 s d :: r, .ip6 _ _ rs rd :: m => field (rd == s) true (field (rs == d) (!ip6IsMulticast d) (verdictR r m))
  | .tcp sp dp :: r, .tcp rsp rdp _ _ :: m => field (rsp == dp) true (field (rdp == sp) true (verdictR r m))
  | .udp sp dp :: r, .udp rsp rdp _ :: m =>
    field (rsp == dp) true (field (rdp == sp) true (if r.isEmpty then .unspec else verdictR r m))
  | .icmp k id seq :: _, .icmp t _ rid rseq _ :: _ =>
    field (t == k.replyType) true (field (rid == id) true (field (rseq == seq) true .accept))
  | .icmp6echo id seq :: _, .icmp6 t _ rid rseq _ :: _ =>
    field (t == 129) true (field (rid == id) true (field (rseq == seq) true .accept))
  | .dns id :: _, .dns rid _ :: _ => field (rid == id) true .accept
  | _, _ => .unspec

/-- the reply differs from the mirrored reply in a matched field (address, port, identifier, sequence number,
    reply type, DNS id, VLAN id) -/
def matchedFieldDiffers : List SLayer → List RLayer → Bool
  | .eth s d :: r, .eth rd rs :: m => rd != s || (!macIsGroup d && rs != d) || matchedFieldDiffers r m
  | .vlan tci :: r, .vlan t :: m => vid t != vid tci || matchedFieldDiffers r m
  | .ip4 hdr :: r, .ip4 _ _ rs rd :: m =>
    (slice hdr 12 4 != [0, 0, 0, 0] && rd != slice hdr 12 4) ||
    (!ip4IsGroup (slice hdr 16 4) && rs != slice hdr 16 4) || matchedFieldDiffers r m
  | .ip6 s d :: r, .ip6 _ _ rs rd :: m => rd != s || (!ip6IsMulticast d && rs != d) || matchedFieldDiffers r m
  | .tcp sp dp :: r, .tcp rsp rdp _ _ :: m => rsp != dp || rdp != sp || matchedFieldDiffers r m
  | .udp sp dp :: r, .udp rsp rdp _ :: m => rsp != dp || rdp != sp || matchedFieldDiffers r m
  | .icmp k id seq :: _, .icmp t _ rid rseq _ :: _ => t != k.replyType || rid != id || rseq != seq
  | .icmp6echo id seq :: _, .icmp6 t _ rid rseq _ :: _ => t != 129 || rid != id || rseq != seq
  | .dns id :: _, .dns rid _ :: _ => rid != id
  | _, _ => false

/-- a request of the fragment the property speaks about: link (Ethernet, 802.1Q tags) / IPv4 or IPv6 /
    TCP (with or without payload), UDP with a payload or DNS, ICMP or ICMPv6 query — in any nesting that has
    these field widths; UDP is followed by something -/
def wfReq : List SLayer → Bool
  | [] => true
  | .eth s d :: r => s.length == 6 && d.length == 6 && wfReq r
  | .vlan t :: r => t.length == 2 && wfReq r
  | .ip4 hdr :: r => hdr.length == 20 && wfReq r
  | .ip6 s d :: r => s.length == 16 && d.length == 16 && wfReq r
  | .tcp sp dp :: r => sp.length == 2 && dp.length == 2 && wfReq r
  | .udp sp dp :: r => sp.length == 2 && dp.length == 2 && !r.isEmpty && wfReq r
  | .icmp _ id seq :: _ => id.length == 2 && seq.length == 2
  | .icmp6echo id seq :: _ => id.length == 2 && seq.length == 2
  | .dns id :: _ => id.length == 2
  | .payload :: _ => true
  | .dot3 _ _ :: _ => false
  | .radiotap :: _ => false

end Tins.Matching
