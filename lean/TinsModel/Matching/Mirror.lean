import TinsModel.Matching.Spec
/-
  Replies as packets (property C14): a reply is a stack of `RLayer`s with the matched fields explicit and every
  other header field, every option list, every extension-header chain and every payload free; `serR` lays it out on
  the wire (RFC layouts: IPv4 with any option list, TCP with any option list, IPv6 with any chain of hop-by-hop /
  routing / fragment / destination-options / mobility headers, RadioTap of any length); `mirror r` is the canonical
  mirrored reply of the request `r`, `isMirror r m` says that `m` is *a* mirrored reply of `r` (matched fields as
  in the mirror, everything else arbitrary) or an ICMP destination unreachable quoting `r`'s IPv4 header.
-/
namespace Tins.Matching

/-- one IPv6 extension header of a reply: `kind` is its own type (announced by the header in front of it),
    `lenB` its second octet, `body` the octets after the first two -/
structure Ext where
  kind : UInt8
  lenB : UInt8
  body : Bytes
deriving Repr, DecidableEq

/-- how a VLAN tag is announced by the layer in front of it -/
inductive TPID where
  | ctag | stag | old
deriving Repr, DecidableEq

def TPID.bytes : TPID → Bytes
  | .ctag => [0x81, 0x00]
  | .stag => [0x88, 0xa8]
  | .old => [0x91, 0x00]

inductive RLayer where
  | eth (dst src : Bytes)
  /-- `len`: the 802.3 length field (2 bytes) -/
  | dot3 (dst src len : Bytes)
  /-- `tpid`: the tag protocol identifier in front of the tag; `tci`: PCP, DEI, VLAN id (2 bytes) -/
  | vlan (tpid : TPID) (tci : Bytes)
  | loopback (family : Bytes)
  /-- `vp`: version and pad (2 bytes); `body`: the first present word and everything else up to `it_len` -/
  | radiotap (vp body : Bytes)
  /-- `pre`: tos, total length, id, flags + fragment offset, ttl (8 bytes); header checksum (2 bytes);
      `opts`: the option list (a multiple of 4 octets, at most 40) -/
  | ip4 (pre cksum src dst opts : Bytes)
  /-- `pre`: rest of traffic class / flow label, payload length (5 bytes) -/
  | ip6 (pre : Bytes) (hopLimit : UInt8) (src dst : Bytes) (exts : List Ext)
  /-- `seqack`: sequence and acknowledgement numbers (8 bytes); `x2`: the reserved bits beside the data offset;
      `tail`: flags (SYN-ACK, RST, … — not matched), window, checksum, urgent (7 bytes); `opts`: the option list -/
  | tcp (sport dport seqack : Bytes) (x2 : UInt8) (tail opts : Bytes)
  /-- `lenck`: length and checksum (4 bytes) -/
  | udp (sport dport lenck : Bytes)
  /-- `codeck`: code and checksum (3 bytes) -/
  | icmp (type : UInt8) (codeck id seq data : Bytes)
  | icmp6 (type : UInt8) (codeck id seq data : Bytes)
  /-- `rest`: flags and counts (10 bytes) followed by the records -/
  | dns (id rest : Bytes)
  /-- `pre`: op, htype, hlen, hops (4 bytes); `rest`: secs … file (228 bytes) and the vendor area -/
  | bootp (pre xid rest : Bytes)
  | dhcpv6 (type : UInt8) (xid opts : Bytes)
  /-- `pre`: htype, ptype, hlen, plen, opcode, sender hardware address (14 bytes) -/
  | arp (pre spa tha tpa trail : Bytes)
  | payload (data : Bytes)
deriving Repr, DecidableEq

def etherTypeR : List RLayer → Bytes
  | .vlan tp _ :: _ => tp.bytes
  | .ip4 _ _ _ _ _ :: _ => [0x08, 0x00]
  | .ip6 _ _ _ _ _ :: _ => [0x86, 0xdd]
  | .arp _ _ _ _ _ :: _ => [0x08, 0x06]
  | _ => [0xff, 0xff]

def protoR : List RLayer → UInt8
  | .tcp _ _ _ _ _ _ :: _ => 6
  | .udp _ _ _ :: _ => 17
  | .icmp _ _ _ _ _ :: _ => 1
  | .icmp6 _ _ _ _ _ :: _ => 58
  | _ => 61

/-- the next-header value in front of a chain of extension headers that ends in protocol `p` -/
def nextOf : List Ext → UInt8 → UInt8
  | [], p => p
  | e :: _, _ => e.kind

/-- a chain of extension headers, the last one announcing protocol `p` -/
def serExts : List Ext → UInt8 → Bytes
  | [], _ => []
  | e :: es, p => nextOf es p :: e.lenB :: (e.body ++ serExts es p)

/-- version 4, header length 5 + |opts| / 4 words -/
def vihl (opts : Bytes) : UInt8 := UInt8.ofNat (0x45 + opts.length / 4)

/-- data offset 5 + |opts| / 4 words in the high nibble, the reserved bits in the low one -/
def doffByte (x2 : UInt8) (opts : Bytes) : UInt8 := UInt8.ofNat ((5 + opts.length / 4) * 16 + x2.toNat % 16)

/-- wire format of a reply -/
def serR : List RLayer → Bytes
  | [] => []
  | .eth d s :: m => d ++ (s ++ (etherTypeR m ++ serR m))
  | .dot3 d s l :: m => d ++ (s ++ (l ++ serR m))
  | .vlan _ tci :: m => tci ++ (etherTypeR m ++ serR m)
  | .loopback f :: m => f ++ serR m
  | .radiotap vp body :: m =>
    vp ++ (UInt8.ofNat ((body.length + 4) % 256) :: UInt8.ofNat ((body.length + 4) / 256) :: (body ++ serR m))
  | .ip4 pre ck s d opts :: m => vihl opts :: (pre ++ (protoR m :: (ck ++ (s ++ (d ++ (opts ++ serR m))))))
  | .ip6 pre hl s d exts :: m =>
    0x60 :: (pre ++ (nextOf exts (protoR m) :: hl :: (s ++ (d ++ (serExts exts (protoR m) ++ serR m)))))
  | .tcp sp dp sa x2 tl opts :: m => sp ++ (dp ++ (sa ++ (doffByte x2 opts :: (tl ++ (opts ++ serR m)))))
  | .udp sp dp lc :: m => sp ++ (dp ++ (lc ++ serR m))
  | .icmp t cc id seq data :: _ => t :: (cc ++ (id ++ (seq ++ data)))
  | .icmp6 t cc id seq data :: _ => t :: (cc ++ (id ++ (seq ++ data)))
  | .dns id rest :: _ => id ++ rest
  | .bootp pre xid rest :: _ => pre ++ (xid ++ rest)
  | .dhcpv6 t xid opts :: _ => t :: (xid ++ opts)
  | .arp pre spa tha tpa trail :: _ => pre ++ (spa ++ (tha ++ (tpa ++ trail)))
  | .payload data :: _ => data

/-- the mirrored reply: addresses and ports swapped, the matching reply type with the same identifier and
    sequence number, the same DNS id / transaction id, the same VLAN tag; unmatched fields get fixed values -/
def mirror : List SLayer → List RLayer
  | [] => []
  | .eth s d :: r => .eth s d :: mirror r                 -- reply destination := request source
  | .dot3 s d :: r => .dot3 s d [0, 0] :: mirror r
  | .vlan t :: r => .vlan .ctag t :: mirror r
  | .loopback f :: r => .loopback f :: mirror r
  | .radiotap :: r => .radiotap [0, 0] [0, 0, 0, 0] :: mirror r
  | .ip4 hdr :: r => .ip4 [0, 0, 0, 0, 0, 0, 0, 64] [0, 0] (slice hdr 16 4) (slice hdr 12 4) [] :: mirror r
  | .ip6 s d :: r => .ip6 [0, 0, 0, 0, 0] 64 d s [] :: mirror r
  | .tcp sp dp :: r => .tcp dp sp [0, 0, 0, 0, 0, 0, 0, 0] 0 [0x12, 0, 0, 0, 0, 0, 0] [] :: mirror r
  | .udp sp dp :: r => .udp dp sp [0, 0, 0, 0] :: mirror r
  | .icmp k id seq :: _ => [.icmp k.replyType [0, 0, 0] id seq []]
  | .icmp6echo id seq :: _ => [.icmp6 129 [0, 0, 0] id seq []]
  | .dns id :: _ => [.dns id [0x80, 0, 0, 0, 0, 0, 0, 0, 0, 0]]
  | .bootp xid :: _ => [.bootp [2, 1, 6, 0] xid (List.replicate 228 0)]
  | .dhcpv6 hdr :: _ => [.dhcpv6 2 (slice hdr 1 3) []]
  | .arp spa tpa :: _ => [.arp [0, 1, 8, 0, 6, 4, 0, 2, 0, 0, 0, 0, 0, 0] tpa [0, 0, 0, 0, 0, 0] spa []]
  | .payload :: _ => [.payload []]

/-- the second kind of accepted reply, at packet level: what follows the IPv4 header is an ICMP message (protocol 1)
    of type 3 — destination unreachable, any code, any checksum, any unused / next-hop-MTU word — at least 28 octets
    long, whose quoted datagram (octets 8 … 27) is the 20-octet header of the request; anything may follow -/
def quotes (hdr : Bytes) (m : List RLayer) : Bool :=
  protoR m == 1 && decide (28 ≤ (serR m).length) && (serR m).getD 0 0 == 3 && slice (serR m) 8 20 == hdr

/-- a well-formed extension header of the kinds the walk follows; a fragment header is that of a first fragment -/
def extOk (e : Ext) : Bool :=
  v6Walkable e.kind && e.body.length == e.lenB.toNat * 8 + 6 &&
  (e.kind != 44 || (e.lenB == 0 && e.body.getD 0 0 == 0 && (e.body.getD 1 0).toNat / 8 == 0))

/-- the reply has the layer structure of the request, with well-formed field widths -/
def shape : List SLayer → List RLayer → Bool
  | [], _ => true
  | .payload :: _, _ => true
  | .eth _ _ :: r, .eth rd rs :: m => rd.length == 6 && rs.length == 6 && shape r m
  | .dot3 _ _ :: r, .dot3 rd rs l :: m => rd.length == 6 && rs.length == 6 && l.length == 2 && shape r m
  | .vlan _ :: r, .vlan _ t :: m => t.length == 2 && shape r m
  | .loopback _ :: r, .loopback f :: m => f.length == 4 && shape r m
  | .radiotap :: r, .radiotap vp body :: m =>
    vp.length == 2 && decide (4 ≤ body.length) && decide (body.length + 4 < 65536) && shape r m
  | .ip4 hdr :: r, .ip4 pre ck s d opts :: m =>
    pre.length == 8 && ck.length == 2 && s.length == 4 && d.length == 4 &&
    opts.length % 4 == 0 && decide (opts.length ≤ 40) && (quotes hdr m || shape r m)
  | .ip6 _ _ :: r, .ip6 pre _ s d exts :: m =>
    pre.length == 5 && s.length == 16 && d.length == 16 && exts.all extOk &&
    (exts.isEmpty || !(serR m).isEmpty) && shape r m
  | .tcp _ _ :: r, .tcp sp dp sa _ tl opts :: m =>
    sp.length == 2 && dp.length == 2 && sa.length == 8 && tl.length == 7 &&
    opts.length % 4 == 0 && decide (opts.length ≤ 40) && shape r m
  | .udp _ _ :: r, .udp sp dp lc :: m => sp.length == 2 && dp.length == 2 && lc.length == 4 && shape r m
  | .icmp _ _ _ :: _, .icmp _ cc id seq _ :: _ => cc.length == 3 && id.length == 2 && seq.length == 2
  | .icmp6echo _ _ :: _, .icmp6 _ cc id seq _ :: _ => cc.length == 3 && id.length == 2 && seq.length == 2
  | .dns _ :: _, .dns id rest :: _ => id.length == 2 && decide (10 ≤ rest.length)
  | .bootp _ :: _, .bootp pre xid rest :: _ => pre.length == 4 && xid.length == 4 && decide (228 ≤ rest.length)
  | .dhcpv6 hdr :: _, .dhcpv6 _ xid _ :: _ => !isRelayType (hdr.getD 0 0) && xid.length == 3
  | .arp _ _ :: _, .arp pre spa tha tpa _ :: _ =>
    pre.length == 14 && spa.length == 4 && tha.length == 6 && tpa.length == 4
  | _, _ => false

/-- what the specification demands of a reply given as a packet (field level, no bytes) -/
def verdictR : List SLayer → List RLayer → Verdict
  | [], _ => .accept
  | .payload :: _, _ => .accept
  | .eth s d :: r, .eth rd rs :: m => field (rd == s) true (field (rs == d) (!macIsGroup d) (verdictR r m))
  | .dot3 s d :: r, .dot3 rd rs _ :: m => field (rd == s) true (field (rs == d) (!macIsGroup d) (verdictR r m))
  | .vlan tci :: r, .vlan _ t :: m => field (vid t == vid tci) true (verdictR r m)
  | .loopback f :: r, .loopback rf :: m => if rf == f then verdictR r m else .unspec
  | .radiotap :: r, .radiotap _ _ :: m => verdictR r m
  | .ip4 hdr :: r, .ip4 _ _ rs rd _ :: m =>
    if quotes hdr m then .accept else
    field (rd == slice hdr 12 4) (slice hdr 12 4 != [0, 0, 0, 0])
      (field (rs == slice hdr 16 4) (!ip4IsGroup (slice hdr 16 4)) (verdictR r m))
  | .ip6 s d :: r, .ip6 _ _ rs rd _ :: m => field (rd == s) true (field (rs == d) (!ip6IsMulticast d) (verdictR r m))
  | .tcp sp dp :: r, .tcp rsp rdp _ _ _ _ :: m => field (rsp == dp) true (field (rdp == sp) true (verdictR r m))
  | .udp sp dp :: r, .udp rsp rdp _ :: m =>
    field (rsp == dp) true (field (rdp == sp) true (if r.isEmpty then .unspec else verdictR r m))
  | .icmp k id seq :: _, .icmp t _ rid rseq _ :: _ =>
    field (t == k.replyType) true (field (rid == id) true (field (rseq == seq) true .accept))
  | .icmp6echo id seq :: _, .icmp6 t _ rid rseq _ :: _ =>
    field (t == 129) true (field (rid == id) true (field (rseq == seq) true .accept))
  | .dns id :: _, .dns rid _ :: _ => field (rid == id) true .accept
  | .bootp xid :: _, .bootp _ rx _ :: _ => field (rx == xid) true .accept
  | .dhcpv6 hdr :: _, .dhcpv6 t rx _ :: _ =>
    field (!isRelayType t) true (field (rx == slice hdr 1 3) true .accept)
  | .arp spa tpa :: _, .arp _ rspa _ rtpa _ :: _ => field (rspa == tpa) true (field (rtpa == spa) true .accept)
  | _, _ => .unspec

/-- the reply differs from the mirrored reply in a matched field (address, port, identifier, sequence number,
    reply type, DNS id, VLAN id, BootP / DHCPv6 transaction id, DHCPv6 relay type, ARP protocol address) and is not
    an ICMP destination unreachable quoting the request -/
def matchedFieldDiffers : List SLayer → List RLayer → Bool
  | .eth s d :: r, .eth rd rs :: m => rd != s || (!macIsGroup d && rs != d) || matchedFieldDiffers r m
  | .dot3 s d :: r, .dot3 rd rs _ :: m => rd != s || (!macIsGroup d && rs != d) || matchedFieldDiffers r m
  | .vlan tci :: r, .vlan _ t :: m => vid t != vid tci || matchedFieldDiffers r m
  | .loopback f :: r, .loopback rf :: m => rf == f && matchedFieldDiffers r m
  | .radiotap :: r, .radiotap _ _ :: m => matchedFieldDiffers r m
  | .ip4 hdr :: r, .ip4 _ _ rs rd _ :: m =>
    !quotes hdr m &&
    ((slice hdr 12 4 != [0, 0, 0, 0] && rd != slice hdr 12 4) ||
     (!ip4IsGroup (slice hdr 16 4) && rs != slice hdr 16 4) || matchedFieldDiffers r m)
  | .ip6 s d :: r, .ip6 _ _ rs rd _ :: m => rd != s || (!ip6IsMulticast d && rs != d) || matchedFieldDiffers r m
  | .tcp sp dp :: r, .tcp rsp rdp _ _ _ _ :: m => rsp != dp || rdp != sp || matchedFieldDiffers r m
  | .udp sp dp :: r, .udp rsp rdp _ :: m => rsp != dp || rdp != sp || matchedFieldDiffers r m
  | .icmp k id seq :: _, .icmp t _ rid rseq _ :: _ => t != k.replyType || rid != id || rseq != seq
  | .icmp6echo id seq :: _, .icmp6 t _ rid rseq _ :: _ => t != 129 || rid != id || rseq != seq
  | .dns id :: _, .dns rid _ :: _ => rid != id
  | .bootp xid :: _, .bootp _ rx _ :: _ => rx != xid
  | .dhcpv6 hdr :: _, .dhcpv6 t rx _ :: _ => isRelayType t || rx != slice hdr 1 3
  | .arp spa tpa :: _, .arp _ rspa _ rtpa _ :: _ => rspa != tpa || rtpa != spa
  | _, _ => false

/-- `m` is a mirrored reply of `r`: every address, port and identifier is the mirrored one (every other field,
    option, extension header and payload octet is arbitrary), or — under an IPv4 layer — `m` continues with an ICMP
    destination unreachable quoting the request's header -/
def isMirror : List SLayer → List RLayer → Bool
  | [], _ => true
  | .payload :: _, _ => true
  | .eth s d :: r, .eth rd rs :: m => rd == s && rs == d && isMirror r m
  | .dot3 s d :: r, .dot3 rd rs _ :: m => rd == s && rs == d && isMirror r m
  | .vlan tci :: r, .vlan _ t :: m => vid t == vid tci && isMirror r m
  | .loopback f :: r, .loopback rf :: m => rf == f && isMirror r m
  | .radiotap :: r, .radiotap _ _ :: m => isMirror r m
  | .ip4 hdr :: r, .ip4 _ _ rs rd _ :: m =>
    quotes hdr m || (rd == slice hdr 12 4 && rs == slice hdr 16 4 && isMirror r m)
  | .ip6 s d :: r, .ip6 _ _ rs rd _ :: m => rd == s && rs == d && isMirror r m
  | .tcp sp dp :: r, .tcp rsp rdp _ _ _ _ :: m => rsp == dp && rdp == sp && isMirror r m
  | .udp sp dp :: r, .udp rsp rdp _ :: m => rsp == dp && rdp == sp && !r.isEmpty && isMirror r m
  | .icmp k id seq :: _, .icmp t _ rid rseq _ :: _ => t == k.replyType && rid == id && rseq == seq
  | .icmp6echo id seq :: _, .icmp6 t _ rid rseq _ :: _ => t == 129 && rid == id && rseq == seq
  | .dns id :: _, .dns rid _ :: _ => rid == id
  | .bootp xid :: _, .bootp _ rx _ :: _ => rx == xid
  | .dhcpv6 hdr :: _, .dhcpv6 t rx _ :: _ => !isRelayType t && rx == slice hdr 1 3
  | .arp spa tpa :: _, .arp _ rspa _ rtpa _ :: _ => rspa == tpa && rtpa == spa
  | _, _ => false

/-- a request of the fragment the property speaks about: link (Ethernet, 802.3, 802.1Q tags — nested any number of
    times —, loopback, RadioTap) / IPv4 or IPv6 / TCP (with or without payload), UDP with a payload, DNS, BootP / DHCP
    or DHCPv6, ICMP or ICMPv6 query; ARP — in any nesting that has these field widths; UDP is followed by something;
    a DHCPv6 request is a client / server message -/
def wfReq : List SLayer → Bool
  | [] => true
  | .eth s d :: r => s.length == 6 && d.length == 6 && wfReq r
  | .dot3 s d :: r => s.length == 6 && d.length == 6 && wfReq r
  | .vlan t :: r => t.length == 2 && wfReq r
  | .loopback f :: r => f.length == 4 && wfReq r
  | .radiotap :: r => wfReq r
  | .ip4 hdr :: r => hdr.length == 20 && wfReq r
  | .ip6 s d :: r => s.length == 16 && d.length == 16 && wfReq r
  | .tcp sp dp :: r => sp.length == 2 && dp.length == 2 && wfReq r
  | .udp sp dp :: r => sp.length == 2 && dp.length == 2 && !r.isEmpty && wfReq r
  | .icmp _ id seq :: _ => id.length == 2 && seq.length == 2
  | .icmp6echo id seq :: _ => id.length == 2 && seq.length == 2
  | .dns id :: _ => id.length == 2
  | .bootp xid :: _ => xid.length == 4
  | .dhcpv6 hdr :: _ => hdr.length == 4 && !isRelayType (hdr.getD 0 0)
  | .arp spa tpa :: _ => spa.length == 4 && tpa.length == 4
  | .payload :: _ => true

end Tins.Matching
