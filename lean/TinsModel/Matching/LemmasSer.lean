import TinsModel.Matching.Mirror
import TinsModel.Matching.LemmasBasic
/- C14: facts about the wire layout `serR` — slices of concatenations, the chain of IPv6 extension headers, the IPv4
   header block, the data-offset octets. -/
set_option linter.unusedSimpArgs false
set_option linter.unusedVariables false
namespace Tins.Matching

/-! ### slices of concatenations -/

theorem slice_prefix {a b : Bytes} {n : Nat} (h : a.length = n) : slice (a ++ b) 0 n = a := by
  subst h; simp [slice]

theorem slice_skip {a b : Bytes} {off n : Nat} (h : a.length ≤ off) :
    slice (a ++ b) off n = slice b (off - a.length) n := by
  unfold slice
  rw [List.drop_append, List.drop_eq_nil_of_le h, List.nil_append]

theorem slice_cons {x : UInt8} {b : Bytes} {off n : Nat} : slice (x :: b) (off + 1) n = slice b off n := by
  simp [slice]

theorem drop_skip {a b : Bytes} {n : Nat} (h : a.length ≤ n) : (a ++ b).drop n = b.drop (n - a.length) := by
  rw [List.drop_append, List.drop_eq_nil_of_le h, List.nil_append]

theorem etherTypeR_length (m : List RLayer) : (etherTypeR m).length = 2 := by
  unfold etherTypeR; split <;> first | rfl | (rename_i tp _ _; cases tp <;> rfl)

/-! ### the chain of extension headers -/

theorem getD_app_left {a b : Bytes} {i : Nat} (h : i < a.length) : (a ++ b).getD i 0 = a.getD i 0 := by
  simp [List.getD, List.getElem?_append_left h]

theorem getD_cons_succ' {x : UInt8} {b : Bytes} {i : Nat} : (x :: b).getD (i + 1) 0 = b.getD i 0 := by
  simp [List.getD]

theorem protoR_not_walkable (m : List RLayer) : v6Walkable (protoR m) = false := by
  unfold protoR; split <;> decide

theorem skipExts_stop (f : Nat) (p : UInt8) (t : Bytes) (hp : v6Walkable p = false) : skipExts f p t = some (p, t) := by
  cases f <;> simp [skipExts, hp]

theorem serExts_ne_nil (e : Ext) (es : List Ext) (p : UInt8) : 2 ≤ (serExts (e :: es) p).length := by
  simp [serExts]

theorem skipExts_serExts : ∀ (exts : List Ext) (p : UInt8) (t : Bytes) (f : Nat),
    exts.all extOk = true → v6Walkable p = false → (exts = [] ∨ t ≠ []) → (serExts exts p ++ t).length ≤ f →
    skipExts f (nextOf exts p) (serExts exts p ++ t) = some (p, t)
  | [], p, t, f, _, hp, _, _ => by simpa [serExts, nextOf] using skipExts_stop f p t hp
  | e :: es, p, t, f, hall, hp, hne, hf => by
    simp only [List.all_cons, Bool.and_eq_true] at hall
    obtain ⟨he, hes⟩ := hall
    simp only [extOk, Bool.and_eq_true, Bool.or_eq_true, beq_iff_eq, bne_iff_ne, ne_eq] at he
    obtain ⟨⟨hk, hbl⟩, hfr⟩ := he
    have ht : t ≠ [] := by
      rcases hne with h | h
      · simp at h
      · exact h
    have htl : 0 < t.length := List.length_pos_iff.mpr ht
    cases f with
    | zero => simp [serExts] at hf
    | succ f' =>
      have hb1 : (serExts (e :: es) p ++ t).getD 1 0 = e.lenB := by simp [serExts, List.getD]
      have hb0 : (serExts (e :: es) p ++ t).getD 0 0 = nextOf es p := by simp [serExts, List.getD]
      have hlen : (serExts (e :: es) p ++ t).length = 2 + e.body.length + (serExts es p ++ t).length := by
        simp [serExts]; omega
      have hdrop : (serExts (e :: es) p ++ t).drop ((e.lenB.toNat + 1) * 8) = serExts es p ++ t := by
        have : (e.lenB.toNat + 1) * 8 = e.body.length + 2 := by omega
        rw [this]
        simp [serExts, List.drop_append]
      unfold skipExts
      simp only [nextOf, hk, if_true, hb1, hb0, hdrop]
      have hn : (e.lenB.toNat + 1) * 8 < (serExts (e :: es) p ++ t).length := by
        rw [hlen]; simp only [List.length_append]; omega
      simp only [hn, if_true]
      have hfrag : (e.kind == 44 && !(e.lenB == 0 && (serExts (e :: es) p ++ t).getD 2 0 == 0 &&
          ((serExts (e :: es) p ++ t).getD 3 0).toNat / 8 == 0)) = false := by
        by_cases h44 : e.kind = 44
        · rcases hfr with h | h
          · exact absurd h44 h
          · obtain ⟨⟨h1, h2⟩, h3⟩ := h
            have hbody : e.body.length = 6 := by rw [hbl, h1]; rfl
            have g2 : (serExts (e :: es) p ++ t).getD 2 0 = e.body.getD 0 0 := by
              simp only [serExts, List.cons_append, getD_cons_succ', List.append_assoc]
              exact getD_app_left (by omega)
            have g3 : (serExts (e :: es) p ++ t).getD 3 0 = e.body.getD 1 0 := by
              simp only [serExts, List.cons_append, getD_cons_succ', List.append_assoc]
              exact getD_app_left (by omega)
            simp only [g2, g3, h1, h2, h3, beq_self_eq_true, Bool.and_self, Bool.not_true, Bool.and_false]
        · simp [h44]
      simp only [hfrag, Bool.false_eq_true, if_false]
      refine skipExts_serExts es p t f' hes hp (Or.inr ht) ?_
      rw [hlen] at hf; omega

/-! ### header blocks -/

theorem vihl_toNat (opts : Bytes) (h40 : opts.length ≤ 40) : (vihl opts).toNat = 69 + opts.length / 4 := by
  unfold vihl
  rw [UInt8.toNat_ofNat_of_lt' (by simp only [UInt8.size]; omega)]

theorem doffByte_toNat (x2 : UInt8) (opts : Bytes) (h40 : opts.length ≤ 40) :
    (doffByte x2 opts).toNat = (5 + opts.length / 4) * 16 + x2.toNat % 16 := by
  unfold doffByte
  rw [UInt8.toNat_ofNat_of_lt' (by simp only [UInt8.size]; omega)]

/-- the IPv4 header of a serialised reply, as one block -/
def ip4H (pre ck s d opts : Bytes) (proto : UInt8) : Bytes := vihl opts :: (pre ++ (proto :: (ck ++ (s ++ (d ++ opts)))))

theorem serR_ip4 (pre ck s d opts : Bytes) (m : List RLayer) :
    serR (.ip4 pre ck s d opts :: m) = ip4H pre ck s d opts (protoR m) ++ serR m := by
  simp [serR, ip4H]

theorem ip4H_length (pre ck s d opts : Bytes) (proto : UInt8) (h1 : pre.length = 8) (h2 : ck.length = 2) (h3 : s.length = 4)
    (h4 : d.length = 4) : (ip4H pre ck s d opts proto).length = 20 + opts.length := by
  simp [ip4H, h1, h2, h3, h4]; omega

theorem ip4H_first (pre ck s d opts : Bytes) (proto : UInt8) : (ip4H pre ck s d opts proto).getD 0 0 = vihl opts := by
  simp [ip4H, List.getD]

theorem ip4H_proto (pre ck s d opts : Bytes) (proto : UInt8) (h1 : pre.length = 8) :
    (ip4H pre ck s d opts proto).getD 9 0 = proto := by
  simp [ip4H, List.getD, List.getElem?_append_right, List.getElem?_cons, h1]

theorem ip4H_src (pre ck s d opts : Bytes) (proto : UInt8) (h1 : pre.length = 8) (h2 : ck.length = 2) (h3 : s.length = 4) :
    slice (ip4H pre ck s d opts proto) 12 4 = s := by
  simp [ip4H, slice_prefix, slice_skip, slice_cons, h1, h2, h3]

theorem ip4H_dst (pre ck s d opts : Bytes) (proto : UInt8) (h1 : pre.length = 8) (h2 : ck.length = 2) (h3 : s.length = 4)
    (h4 : d.length = 4) : slice (ip4H pre ck s d opts proto) 16 4 = d := by
  simp [ip4H, slice_prefix, slice_skip, slice_cons, h1, h2, h3, h4]

theorem slice_app_left {a b : Bytes} {off n : Nat} (h : off + n ≤ a.length) : slice (a ++ b) off n = slice a off n := by
  unfold slice
  rw [List.drop_append_of_le_length (by omega), List.take_append_of_le_length (by simp; omega)]

theorem quotesRequest_app (hdr H t : Bytes) (p : UInt8) (h9 : 9 < H.length) (hp : H.getD 9 0 = p) :
    quotesRequest hdr (H ++ t) H.length =
      (p == 1 && decide (28 ≤ t.length) && t.getD 0 0 == 3 && slice t 8 20 == hdr) := by
  unfold quotesRequest
  rw [getD_app_left h9, hp]
  have e1 : decide ((H ++ t).length ≥ H.length + 28) = decide (28 ≤ t.length) := by
    simp only [List.length_append]; congr 1; apply propext; omega
  have e2 : (H ++ t).getD H.length 0 = t.getD 0 0 := by
    simp [List.getD, List.getElem?_append_right]
  have e3 : slice (H ++ t) (H.length + 8) 20 = slice t 8 20 := by
    rw [slice_skip (by omega)]; congr 1; omega
  rw [e1, e2, e3]

theorem slice_self {a : Bytes} {n : Nat} (h : a.length = n) : slice a 0 n = a := by
  subst h; simp [slice]

/-- the fixed IPv6 header of a serialised reply -/
def ip6H (pre : Bytes) (hl : UInt8) (s d : Bytes) (nh : UInt8) : Bytes := 0x60 :: (pre ++ (nh :: hl :: (s ++ d)))

theorem serR_ip6 (pre : Bytes) (hl : UInt8) (s d : Bytes) (exts : List Ext) (m : List RLayer) :
    serR (.ip6 pre hl s d exts :: m) = ip6H pre hl s d (nextOf exts (protoR m)) ++ (serExts exts (protoR m) ++ serR m) := by
  simp [serR, ip6H]

theorem ip6H_length (pre : Bytes) (hl : UInt8) (s d : Bytes) (nh : UInt8) (h1 : pre.length = 5) (h3 : s.length = 16)
    (h4 : d.length = 16) : (ip6H pre hl s d nh).length = 40 := by
  simp [ip6H, h1, h3, h4]

theorem ip6H_first (pre : Bytes) (hl : UInt8) (s d : Bytes) (nh : UInt8) : (ip6H pre hl s d nh).getD 0 0 = 0x60 := by
  simp [ip6H, List.getD]

theorem ip6H_nh (pre : Bytes) (hl : UInt8) (s d : Bytes) (nh : UInt8) (h1 : pre.length = 5) : (ip6H pre hl s d nh).getD 6 0 = nh := by
  simp [ip6H, List.getD, List.getElem?_append_right, List.getElem?_cons, h1]

theorem ip6H_src (pre : Bytes) (hl : UInt8) (s d : Bytes) (nh : UInt8) (h1 : pre.length = 5) (h3 : s.length = 16) :
    slice (ip6H pre hl s d nh) 8 16 = s := by
  simp [ip6H, slice_prefix, slice_skip, slice_cons, h1, h3]

theorem ip6H_dst (pre : Bytes) (hl : UInt8) (s d : Bytes) (nh : UInt8) (h1 : pre.length = 5) (h3 : s.length = 16) (h4 : d.length = 16) :
    slice (ip6H pre hl s d nh) 24 16 = d := by
  simp [ip6H, slice_prefix, slice_skip, slice_cons, slice_self, h1, h3, h4]

/-- the TCP header of a serialised reply -/
def tcpH (sp dp sa : Bytes) (x2 : UInt8) (tl opts : Bytes) : Bytes := sp ++ (dp ++ (sa ++ (doffByte x2 opts :: (tl ++ opts))))

theorem serR_tcp (sp dp sa : Bytes) (x2 : UInt8) (tl opts : Bytes) (m : List RLayer) :
    serR (.tcp sp dp sa x2 tl opts :: m) = tcpH sp dp sa x2 tl opts ++ serR m := by
  simp [serR, tcpH]

theorem tcpH_length (sp dp sa : Bytes) (x2 : UInt8) (tl opts : Bytes) (h1 : sp.length = 2) (h2 : dp.length = 2) (h3 : sa.length = 8)
    (h4 : tl.length = 7) : (tcpH sp dp sa x2 tl opts).length = 20 + opts.length := by
  simp [tcpH, h1, h2, h3, h4]; omega

theorem tcpH_sp (sp dp sa : Bytes) (x2 : UInt8) (tl opts : Bytes) (h1 : sp.length = 2) : slice (tcpH sp dp sa x2 tl opts) 0 2 = sp := by
  simp [tcpH, slice_prefix, h1]

theorem tcpH_dp (sp dp sa : Bytes) (x2 : UInt8) (tl opts : Bytes) (h1 : sp.length = 2) (h2 : dp.length = 2) :
    slice (tcpH sp dp sa x2 tl opts) 2 2 = dp := by
  simp [tcpH, slice_prefix, slice_skip, h1, h2]

theorem tcpH_doff (sp dp sa : Bytes) (x2 : UInt8) (tl opts : Bytes) (h1 : sp.length = 2) (h2 : dp.length = 2) (h3 : sa.length = 8) :
    (tcpH sp dp sa x2 tl opts).getD 12 0 = doffByte x2 opts := by
  simp [tcpH, List.getD, List.getElem?_append_right, h1, h2, h3]

end Tins.Matching
