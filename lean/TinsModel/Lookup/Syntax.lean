/-
  C13 — syntax of what the translator reads off the class declarations (core Lean only).

  One `ClassRow` per class derived from `Tins::PDU`.  A class is referred to by its position (a `Nat`) in the
  generated table `Tins.Gen.PduClasses.classes`.  Everything here is *data about declarations*; how C++ evaluates
  it (name lookup through bases, virtual dispatch, qualified calls) is in `Lookup/Model.lean`.
-/
namespace Tins.Lookup

/-- initialiser of `static const PDU::PDUType pdu_flag = …;` -/
inductive FlagInit where
  /-- `= PDU::X` (enumerator, value resolved from the enum declaration) -/
  | enumConst (v : Nat)
  /-- `= C::pdu_flag` — refers to the `pdu_flag` variable *declared in* class `c` (e.g. `cached_type::pdu_flag`) -/
  | flagOfClass (c : Nat)
  | unparsed (src : String)
deriving Repr, DecidableEq, Inhabited

/-- body of `PDUType pdu_type() const` -/
inductive TypeBody where
  /-- `= 0` -/
  | pureVirtual
  /-- `return PDU::X;` -/
  | retConst (v : Nat)
  /-- `return pdu_flag;` where name lookup found the variable declared in class `c` -/
  | retFlagOf (c : Nat)
  /-- `return member_.pdu_type();` on a by-value data member of class `c` (so its dynamic type is `c`) -/
  | fwdMember (c : Nat)
  | unparsed (src : String)
deriving Repr, DecidableEq, Inhabited

/-- body of `bool matches_flag(PDUType flag) const`: `return <MF>;` -/
inductive MF where
  /-- `flag == PDU::X` -/
  | flagEqConst (v : Nat)
  /-- `flag == pdu_flag`, the variable declared in class `c` -/
  | flagEqFlagOf (c : Nat)
  /-- `flag == pdu_type()` — a *virtual* call on `this` -/
  | flagEqType
  /-- `C::matches_flag(flag)` — qualified, hence non-virtual; name lookup starts in class `c` -/
  | callBase (c : Nat)
  /-- `matches_flag(flag)` — unqualified, virtual call on `this` -/
  | callVirtual
  /-- `member_.matches_flag(flag)` on a by-value data member of class `c` -/
  | fwdMember (c : Nat)
  | or (a b : MF)
  | unparsed (src : String)
deriving Repr, DecidableEq, Inhabited

structure ClassRow where
  name : String
  /-- direct bases that are PDU classes (positions in the table; always smaller than the row's own position) -/
  bases : List Nat
  isAbstract : Bool
  /-- the class's *own* declaration of `pdu_flag`, if any -/
  pduFlag : Option FlagInit
  /-- the class's *own* override of `pdu_type()`, if any -/
  pduType : Option TypeBody
  /-- the class's *own* override of `matches_flag()`, if any -/
  matchesFlag : Option MF
  /-- `some x` for the instantiation `PDUCacher<x>` -/
  wraps : Option Nat
deriving Repr, Inhabited

end Tins.Lookup
