import TinsModel.Lookup.Syntax
/-
  C13 — the specification: what "the object really is a `T`" means.

  An object whose dynamic class is `K` can be used as a `T` exactly when `T` is `K` or one of `K`'s (direct or
  indirect) base classes — the reflexive–transitive closure of the "direct base" relation, which is what
  `dynamic_cast<T*>` decides in C++.  Nothing here looks at flags, `pdu_type()` or `matches_flag()`.
  `IsA` is the declarative statement, `isA` the executable decision procedure used by the oracle
  (`Lookup/Lemmas.lean` proves they agree on every table whose bases precede the derived classes).
-/
namespace Tins.Lookup

/-- `K` is `T`, or `T` is a direct or indirect base class of `K` -/
inductive IsA (t : List ClassRow) : Nat → Nat → Prop where
  | refl {k : Nat} {r : ClassRow} : t[k]? = some r → IsA t k k
  | base {k b T : Nat} {r : ClassRow} : t[k]? = some r → b ∈ r.bases → IsA t b T → IsA t k T

/-- executable closure with explicit fuel -/
def isA (t : List ClassRow) : Nat → Nat → Nat → Bool
  | 0, _, _ => false
  | fuel + 1, K, T =>
    match t[K]? with
    | none => false
    | some r => K == T || r.bases.any (fun b => isA t fuel b T)

/-- the oracle: `dynamic_cast<T*>(k) != nullptr` for an object of dynamic class `K` -/
def isAB (t : List ClassRow) (K T : Nat) : Bool := isA t t.length K T

/-- every base of a row comes before the row (hence the hierarchy is acyclic and `t.length` is enough fuel) -/
def rankedFrom : List ClassRow → Nat → Bool
  | [], _ => true
  | r :: rs, k => r.bases.all (· < k) && rankedFrom rs (k + 1)

def rankedB (t : List ClassRow) : Bool := rankedFrom t 0

/-- what the property demands of one look-up on one object, given the three observable outcomes:
    `found` (find_pdu<T> returned this object), `cast` (tins_cast<T*> returned non-null), `isa` (it really is a `T`) -/
def soundOutcome (found cast isa : Bool) : Bool := (!found && !cast) || isa

/-- "a search by an object's own exact class always finds it" -/
def selfOutcome (sameClass found : Bool) : Bool := !sameClass || found

end Tins.Lookup
