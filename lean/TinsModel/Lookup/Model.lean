import TinsModel.Lookup.Syntax
/-
  C13 — code-shaped executable model of the look-up helpers of `include/tins/pdu.h`
        (`PDU::find_pdu<T>`, `PDU::rfind_pdu<T>`, `tins_cast<T*>`, `tins_cast<T&>`) and of the C++ rules by which the
        per-class declarations read by the translator are evaluated:

    * name lookup of a member through the (single) chain of bases          → `declaring`
    * the value of a `static const PDUType pdu_flag` declaration             → `flagValue`
    * `T::pdu_flag` as written by a caller (`find_pdu<T>()`'s default arg)  → `staticFlag`
    * a *virtual* call of `pdu_type()` / `matches_flag()` on an object whose dynamic class is `dyn`
      (final overrider = nearest declaration going up from `dyn`)           → `pduTypeOf`, `matchesFlag`
    * a *qualified* call `Base::matches_flag(flag)` (non-virtual; `this` keeps its dynamic class)  → `MF.callBase`
    * a call on a by-value data member (`cached_.matches_flag(flag)`)        → `MF.fwdMember`

  Results are `Option`: `none` means "the model cannot tell" (an `unparsed` declaration, a pure-virtual call, a class
  with several bases, fuel exhausted).  The property theorems treat `none` as "might succeed" (`mayHold`), so an
  unreadable declaration can only make them fail, never pass.  Core Lean only (linked into `tinsdriver`).
-/
namespace Tins.Lookup

abbrev Table := List ClassRow

/-- the three-valued reading used everywhere: a look-up "may succeed" unless the model is sure it does not -/
def mayHold (o : Option Bool) : Bool := o != some false

/-- C++ member name lookup starting in class `c`: the nearest class, going up through the bases, whose row
    satisfies `has` (i.e. declares the member).  A class with more than one base is outside the model. -/
def declaring (t : Table) (has : ClassRow → Bool) : Nat → Nat → Option Nat
  | 0, _ => none
  | fuel + 1, c =>
    match t[c]? with
    | none => none
    | some r =>
      if has r then some c else
      match r.bases with
      | [b] => declaring t has fuel b
      | _ => none

/-- enough fuel to walk any acyclic chain of bases of the table -/
def Table.depth (t : Table) : Nat := t.length + 1

/-- value of the variable `pdu_flag` *declared in* class `c` -/
def flagValue (t : Table) : Nat → Nat → Option Nat
  | 0, _ => none
  | fuel + 1, c =>
    match t[c]? with
    | none => none
    | some r =>
      match r.pduFlag with
      | some (.enumConst v) => some v
      | some (.flagOfClass d) => flagValue t fuel d
      | _ => none

/-- `T::pdu_flag` as a caller writes it: name lookup in `T`, then the value of the declaration found -/
def staticFlag (t : Table) (T : Nat) : Option Nat :=
  match declaring t (fun r => r.pduFlag.isSome) t.depth T with
  | none => none
  | some d => flagValue t t.depth d

/-- a `pdu_flag` is visible in `T`, i.e. `find_pdu<T>()` / `tins_cast<T*>` compile -/
def askableB (t : Table) (T : Nat) : Bool :=
  (declaring t (fun r => r.pduFlag.isSome) t.depth T).isSome

/-- body of the final overrider of `pdu_type()` seen from class `c` -/
def typeBodyFrom (t : Table) (c : Nat) : Option TypeBody :=
  match declaring t (fun r => r.pduType.isSome) t.depth c with
  | none => none
  | some d => match t[d]? with
    | some r => r.pduType
    | none => none

/-- body of `matches_flag` found by name lookup starting in class `c` (for a virtual call: `c` = dynamic class) -/
def matchBodyFrom (t : Table) (c : Nat) : Option MF :=
  match declaring t (fun r => r.matchesFlag.isSome) t.depth c with
  | none => none
  | some d => match t[d]? with
    | some r => r.matchesFlag
    | none => none

/-- virtual call `p->pdu_type()` on an object of dynamic class `dyn` -/
def pduTypeOf (t : Table) : Nat → Nat → Option Nat
  | 0, _ => none
  | fuel + 1, dyn =>
    match typeBodyFrom t dyn with
    | some (.retConst v) => some v
    | some (.retFlagOf c) => flagValue t t.depth c
    | some (.fwdMember c) => pduTypeOf t fuel c
    | _ => none

/-- evaluate a `matches_flag` body on an object of dynamic class `dyn` -/
def evalMF (t : Table) : Nat → Nat → MF → Nat → Option Bool
  | 0, _, _, _ => none
  | fuel + 1, dyn, e, flag =>
    match e with
    | .flagEqConst v => some (flag == v)
    | .flagEqFlagOf c => (flagValue t t.depth c).map (fun v => flag == v)
    | .flagEqType => (pduTypeOf t t.depth dyn).map (fun v => flag == v)
    | .callBase c =>
      match matchBodyFrom t c with
      | some b => evalMF t fuel dyn b flag
      | none => none
    | .callVirtual =>
      match matchBodyFrom t dyn with
      | some b => evalMF t fuel dyn b flag
      | none => none
    | .fwdMember c =>
      match matchBodyFrom t c with
      | some b => evalMF t fuel c b flag
      | none => none
    | .or a b =>
      match evalMF t fuel dyn a flag with
      | some true => some true
      | some false => evalMF t fuel dyn b flag
      | none => none
    | .unparsed _ => none

/-- fuel for `evalMF`: every step either enters a body (bounded by the depth of the hierarchy plus one
    forwarding hop) or descends into an `||` -/
def Table.evalFuel (t : Table) : Nat := 4 * t.length + 16

/-- virtual call `p->matches_flag(flag)` on an object of dynamic class `dyn` -/
def matchesFlag (t : Table) (dyn flag : Nat) : Option Bool :=
  match matchBodyFrom t dyn with
  | some b => evalMF t t.evalFuel dyn b flag
  | none => none

/-- `p->pdu_type()` -/
def pduType (t : Table) (dyn : Nat) : Option Nat := pduTypeOf t t.depth dyn

/-! ### the helpers of pdu.h -/

/-- the test of `find_pdu<T>` on one layer: `pdu->matches_flag(T::pdu_flag)` -/
def findPdu1 (t : Table) (K T : Nat) : Option Bool :=
  match staticFlag t T with
  | none => none
  | some f => matchesFlag t K f

/-- `tins_cast<T*>(p)` for non-null `p`: `T::pdu_flag == p->pdu_type()` -/
def tinsCast (t : Table) (K T : Nat) : Option Bool :=
  match staticFlag t T, pduType t K with
  | some f, some ty => some (f == ty)
  | _, _ => none

/-- `PDU::find_pdu<T>(flag)`:
    ```
    PDU* pdu = this;
    while (pdu) { if (pdu->matches_flag(type)) return static_cast<T*>(pdu); pdu = pdu->inner_pdu(); }
    return 0;
    ```
    The chain `this, inner_pdu(), …` is the list of the layers' dynamic classes; the result is the position of the
    layer whose address is returned. -/
def findPduChain (t : Table) (flag : Nat) : List Nat → Option Nat
  | [] => none
  | k :: rest =>
    if mayHold (matchesFlag t k flag) then some 0
    else (findPduChain t flag rest).map (· + 1)

inductive Exc where
  | pduNotFound
  | badTinsCast
deriving Repr, DecidableEq

/-- `PDU::rfind_pdu<T>`: `find_pdu`, and `throw pdu_not_found()` on null -/
def rfindPduChain (t : Table) (flag : Nat) (chain : List Nat) : Except Exc Nat :=
  match findPduChain t flag chain with
  | some i => .ok i
  | none => .error .pduNotFound

/-- `tins_cast<T&>(pdu)`: `tins_cast<T*>(&pdu)`, and `throw bad_tins_cast()` on null -/
def tinsCastRef (t : Table) (K T : Nat) : Option (Except Exc Unit) :=
  (tinsCast t K T).map (fun b => if b then .ok () else .error .badTinsCast)

/-! ### helpers about rows -/

def concreteB (t : Table) (K : Nat) : Bool :=
  match t[K]? with
  | some r => !r.isAbstract
  | none => false

def isWrapperB (t : Table) (K : Nat) : Bool :=
  match t[K]? with
  | some r => r.wraps.isSome
  | none => false

/-- `X` for `PDUCacher<X>`, the class itself otherwise -/
def unwrap (t : Table) (K : Nat) : Nat :=
  match t[K]? with
  | some r => r.wraps.getD K
  | none => K

end Tins.Lookup
