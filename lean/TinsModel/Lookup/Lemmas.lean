import TinsModel.Lookup.Model
import TinsModel.Lookup.Spec
/-
  C13 — helper lemmas (generic in the table): the executable `isA` decides the declarative `IsA`; what a result of
  the chain walk `findPduChain` means; reflection of the Boolean table scans used by `Props/C13.lean`.
-/
namespace Tins.Lookup

/-! ### `isA` decides `IsA` -/

theorem isA_sound (t : List ClassRow) : ∀ (fuel K T : Nat), isA t fuel K T = true → IsA t K T := by
  intro fuel
  induction fuel with
  | zero => intro K T h; simp [isA] at h
  | succ n ih =>
    intro K T h
    unfold isA at h
    split at h
    · simp at h
    · rename_i r hr
      simp only [Bool.or_eq_true, beq_iff_eq, List.any_eq_true] at h
      rcases h with h | ⟨b, hb, hbT⟩
      · subst h; exact IsA.refl hr
      · exact IsA.base hr hb (ih b T hbT)

theorem rankedFrom_spec : ∀ (rs : List ClassRow) (k : Nat), rankedFrom rs k = true →
    ∀ (i : Nat) (r : ClassRow), rs[i]? = some r → ∀ b ∈ r.bases, b < k + i := by
  intro rs
  induction rs with
  | nil => intro k _ i r h; simp at h
  | cons x xs ih =>
    intro k h i r hr b hb
    simp only [rankedFrom, Bool.and_eq_true, List.all_eq_true, decide_eq_true_eq] at h
    cases i with
    | zero =>
      simp only [List.getElem?_cons_zero, Option.some.injEq] at hr
      subst hr
      have := h.1 b hb
      omega
    | succ j =>
      simp only [List.getElem?_cons_succ] at hr
      have := ih (k + 1) h.2 j r hr b hb
      omega

/-- in a ranked table every base precedes the derived class -/
theorem ranked_lt {t : List ClassRow} (hr : rankedB t = true) {k : Nat} {r : ClassRow}
    (h : t[k]? = some r) {b : Nat} (hb : b ∈ r.bases) : b < k := by
  have := rankedFrom_spec t 0 hr k r h b hb
  omega

theorem isA_complete {t : List ClassRow} (hr : rankedB t = true) {K T : Nat} (h : IsA t K T) :
    ∀ fuel, K < fuel → isA t fuel K T = true := by
  induction h with
  | @refl k r hk =>
    intro fuel hf
    cases fuel with
    | zero => omega
    | succ n => unfold isA; simp [hk]
  | @base k b T r hk hb _ ih =>
    intro fuel hf
    cases fuel with
    | zero => omega
    | succ n =>
      unfold isA
      simp only [hk, Bool.or_eq_true, beq_iff_eq, List.any_eq_true]
      have hlt : b < k := ranked_lt hr hk hb
      exact Or.inr ⟨b, hb, ih n (by omega)⟩

theorem lt_length_of_getElem? {α} {l : List α} {i : Nat} {a : α} (h : l[i]? = some a) : i < l.length := by
  rcases List.getElem?_eq_some_iff.mp h with ⟨hi, _⟩
  exact hi

/-- on a ranked table the oracle `isAB` (fuel = number of classes) is exactly the declarative `IsA` -/
theorem isAB_iff {t : List ClassRow} (hr : rankedB t = true) (K T : Nat) : isAB t K T = true ↔ IsA t K T := by
  constructor
  · exact isA_sound t _ K T
  · intro h
    have hK : K < t.length := by
      cases h with
      | refl hk => exact lt_length_of_getElem? hk
      | base hk _ _ => exact lt_length_of_getElem? hk
    exact isA_complete hr h t.length hK

/-! ### the chain walk of `find_pdu` -/

/-- what a non-null result of `find_pdu` means: the layer handed back passed the flag test and no earlier layer did -/
theorem findPduChain_some (t : Table) (flag : Nat) : ∀ (chain : List Nat) (i : Nat),
    findPduChain t flag chain = some i →
    (∃ K, chain[i]? = some K ∧ mayHold (matchesFlag t K flag) = true) ∧
    (∀ j K', j < i → chain[j]? = some K' → matchesFlag t K' flag = some false) := by
  intro chain
  induction chain with
  | nil => intro i h; simp [findPduChain] at h
  | cons k rest ih =>
    intro i h
    unfold findPduChain at h
    split at h
    · rename_i hk
      simp only [Option.some.injEq] at h
      subst h
      exact ⟨⟨k, by simp, hk⟩, by intro j K' hj; omega⟩
    · rename_i hk
      simp only [Option.map_eq_some_iff] at h
      rcases h with ⟨i', hi', rfl⟩
      rcases ih i' hi' with ⟨⟨K, hK, hm⟩, hbefore⟩
      refine ⟨⟨K, by simpa using hK, hm⟩, ?_⟩
      intro j K' hj hjK
      cases j with
      | zero =>
        simp only [List.getElem?_cons_zero, Option.some.injEq] at hjK
        subst hjK
        simp only [mayHold, bne_iff_ne, ne_eq, Decidable.not_not] at hk
        exact hk
      | succ j' =>
        simp only [List.getElem?_cons_succ] at hjK
        exact hbefore j' K' (by omega) hjK

/-- a null result of `find_pdu` means that no layer of the chain passes the flag test -/
theorem findPduChain_none (t : Table) (flag : Nat) : ∀ (chain : List Nat),
    findPduChain t flag chain = none → ∀ K ∈ chain, matchesFlag t K flag = some false := by
  intro chain
  induction chain with
  | nil => intro _ K hK; simp at hK
  | cons k rest ih =>
    intro h K hK
    unfold findPduChain at h
    split at h
    · simp at h
    · rename_i hk
      simp only [Option.map_eq_none_iff] at h
      rcases List.mem_cons.mp hK with rfl | hK'
      · simpa [mayHold] using hk
      · exact ih h K hK'

/-- if some layer (at position `j`) surely passes the flag test, `find_pdu` returns a layer at or before it -/
theorem findPduChain_finds (t : Table) (flag : Nat) : ∀ (chain : List Nat) (j K : Nat),
    chain[j]? = some K → matchesFlag t K flag = some true →
    ∃ i, findPduChain t flag chain = some i ∧ i ≤ j := by
  intro chain
  induction chain with
  | nil => intro j K h; simp at h
  | cons k rest ih =>
    intro j K hj hm
    unfold findPduChain
    split
    · exact ⟨0, rfl, Nat.zero_le _⟩
    · rename_i hk
      cases j with
      | zero =>
        simp only [List.getElem?_cons_zero, Option.some.injEq] at hj
        subst hj
        simp [mayHold, hm] at hk
      | succ j' =>
        simp only [List.getElem?_cons_succ] at hj
        rcases ih j' K hj hm with ⟨i, hi, hle⟩
        exact ⟨i + 1, by simp [hi], by omega⟩


/-! ### cheap evaluation: ancestor lists and accepted-flag sets

`isA` and `evalMF` answer one (class, class) / (class, flag) question per call.  The table theorems of
`Props/C13.lean` ask ~10⁴ such questions in the kernel; the two functions below compute, once per class, the *list*
of all ancestors and the *finite set of all flags* a `matches_flag` body accepts, and the lemmas say that the
per-question functions are membership tests in those lists.  (As a bonus the accepted-flag set speaks about *every*
flag value, not only about the flags of the classes in the table.) -/

/-- the class and all its direct and indirect bases -/
def ancestors (t : List ClassRow) : Nat → Nat → List Nat
  | 0, _ => []
  | fuel + 1, K =>
    match t[K]? with
    | none => []
    | some r => K :: r.bases.flatMap (fun b => ancestors t fuel b)

theorem contains_flatMap {α} [BEq α] (l : List Nat) (g : Nat → List α) (x : α) :
    (l.flatMap g).contains x = l.any (fun y => (g y).contains x) := by
  induction l with
  | nil => simp
  | cons a as ih => simp [List.flatMap_cons, ih]

theorem isA_eq_contains (t : List ClassRow) : ∀ (fuel K T : Nat),
    isA t fuel K T = (ancestors t fuel K).contains T := by
  intro fuel
  induction fuel with
  | zero => intro K T; simp [isA, ancestors]
  | succ n ih =>
    intro K T
    unfold isA ancestors
    cases hr : t[K]? with
    | none => simp
    | some r =>
      simp only [List.contains_cons, contains_flatMap]
      congr 1
      · simp only [BEq.beq, decide_eq_decide]; exact eq_comm
      · congr 1; funext b; exact ih b T

theorem single_contains (v f : Nat) : ([v] : List Nat).contains f = (f == v) := by
  simp only [List.contains_cons, List.contains_nil, Bool.or_false]

theorem contains_app (A B : List Nat) (f : Nat) : (A ++ B).contains f = (A.contains f || B.contains f) := by
  induction A with
  | nil => simp
  | cons a as ih => simp only [List.cons_append, List.contains_cons, ih, Bool.or_assoc]

/-- the finite set of flags accepted by a `matches_flag` body on an object of dynamic class `dyn`
    (`none` when some part of the body cannot be evaluated) -/
def acceptSet (t : Table) : Nat → Nat → MF → Option (List Nat)
  | 0, _, _ => none
  | fuel + 1, dyn, e =>
    match e with
    | .flagEqConst v => some [v]
    | .flagEqFlagOf c => (flagValue t t.depth c).map (fun v => [v])
    | .flagEqType => (pduTypeOf t t.depth dyn).map (fun v => [v])
    | .callBase c =>
      match matchBodyFrom t c with
      | some b => acceptSet t fuel dyn b
      | none => none
    | .callVirtual =>
      match matchBodyFrom t dyn with
      | some b => acceptSet t fuel dyn b
      | none => none
    | .fwdMember c =>
      match matchBodyFrom t c with
      | some b => acceptSet t fuel c b
      | none => none
    | .or a b =>
      match acceptSet t fuel dyn a, acceptSet t fuel dyn b with
      | some A, some B => some (A ++ B)
      | _, _ => none
    | .unparsed _ => none

/-- all flags for which `p->matches_flag(flag)` is true on an object of dynamic class `dyn` -/
def acceptedFlags (t : Table) (dyn : Nat) : Option (List Nat) :=
  match matchBodyFrom t dyn with
  | some b => acceptSet t t.evalFuel dyn b
  | none => none

theorem evalMF_of_acceptSet (t : Table) : ∀ (fuel dyn : Nat) (e : MF) (S : List Nat),
    acceptSet t fuel dyn e = some S → ∀ flag, evalMF t fuel dyn e flag = some (S.contains flag) := by
  intro fuel
  induction fuel with
  | zero => intro dyn e S h; simp [acceptSet] at h
  | succ n ih =>
    intro dyn e S h flag
    cases e with
    | flagEqConst v =>
      simp only [acceptSet, Option.some.injEq] at h; subst h
      simp only [evalMF, single_contains]
    | flagEqFlagOf c =>
      simp only [acceptSet, Option.map_eq_some_iff] at h
      rcases h with ⟨v, hv, rfl⟩
      simp only [evalMF, hv, Option.map_some, single_contains]
    | flagEqType =>
      simp only [acceptSet, Option.map_eq_some_iff] at h
      rcases h with ⟨v, hv, rfl⟩
      simp only [evalMF, hv, Option.map_some, single_contains]
    | callBase c =>
      simp only [acceptSet] at h
      simp only [evalMF]
      split at h
      · rename_i b hb; simp only [hb]; exact ih dyn b S h flag
      · simp at h
    | callVirtual =>
      simp only [acceptSet] at h
      simp only [evalMF]
      split at h
      · rename_i b hb; simp only [hb]; exact ih dyn b S h flag
      · simp at h
    | fwdMember c =>
      simp only [acceptSet] at h
      simp only [evalMF]
      split at h
      · rename_i b hb; simp only [hb]; exact ih c b S h flag
      · simp at h
    | or a b =>
      simp only [acceptSet] at h
      split at h
      · rename_i A B hA hB
        simp only [Option.some.injEq] at h; subst h
        simp only [evalMF, ih dyn a A hA flag, ih dyn b B hB flag]
        rw [contains_app]
        cases hc : A.contains flag <;> simp
      · simp at h
    | unparsed s => simp [acceptSet] at h

theorem matchesFlag_of_accepted {t : Table} {dyn : Nat} {S : List Nat} (h : acceptedFlags t dyn = some S) :
    ∀ flag, matchesFlag t dyn flag = some (S.contains flag) := by
  intro flag
  unfold acceptedFlags at h
  unfold matchesFlag
  split at h
  · rename_i b hb; simp only [hb]; exact evalMF_of_acceptSet t _ dyn b S h flag
  · simp at h

/-! ### reflection of table scans -/

/-- Boolean scan of all pairs of classes -/
def allPairs (t : Table) (p : Nat → Nat → Bool) : Bool :=
  (List.range t.length).all fun K => (List.range t.length).all fun T => p K T

theorem allPairs_spec {t : Table} {p : Nat → Nat → Bool} (h : allPairs t p = true) :
    ∀ K T, K < t.length → T < t.length → p K T = true := by
  intro K T hK hT
  simp only [allPairs, List.all_eq_true, List.mem_range] at h
  exact h K hK T hT

def allClasses (t : Table) (p : Nat → Bool) : Bool := (List.range t.length).all p

theorem allClasses_spec {t : Table} {p : Nat → Bool} (h : allClasses t p = true) :
    ∀ K, K < t.length → p K = true := by
  intro K hK
  simp only [allClasses, List.all_eq_true, List.mem_range] at h
  exact h K hK

theorem concreteB_lt {t : Table} {K : Nat} (h : concreteB t K = true) : K < t.length := by
  unfold concreteB at h
  split at h
  · rename_i r hr; exact lt_length_of_getElem? hr
  · simp at h

theorem declaring_lt (t : Table) (has : ClassRow → Bool) : ∀ (fuel c d : Nat),
    declaring t has fuel c = some d → c < t.length := by
  intro fuel
  cases fuel with
  | zero => intro c d h; simp [declaring] at h
  | succ n =>
    intro c d h
    unfold declaring at h
    split at h
    · simp at h
    · rename_i r hr; exact lt_length_of_getElem? hr

theorem askableB_lt {t : Table} {T : Nat} (h : askableB t T = true) : T < t.length := by
  unfold askableB at h
  cases hd : declaring t (fun r => r.pduFlag.isSome) t.depth T with
  | none => simp [hd] at h
  | some d => exact declaring_lt t _ _ _ _ hd

/-! ### fast forms of the per-pair tests (evaluate per-class data once) -/

/-- `isAB` through the ancestor list -/
def ancB (t : Table) (K T : Nat) : Bool := (ancestors t t.length K).contains T

theorem ancB_eq (t : Table) (K T : Nat) : ancB t K T = isAB t K T := by
  unfold ancB isAB; exact (isA_eq_contains t t.length K T).symm

/-- "a look-up for `T` on an object of class `K` may succeed", through the accepted-flag set -/
def succFast (t : Table) (K T : Nat) : Bool :=
  match staticFlag t T, acceptedFlags t K, pduType t K with
  | some f, some S, some ty => S.contains f || f == ty
  | _, _, _ => true

theorem succFast_of_succeeds {t : Table} {K T : Nat}
    (h : (mayHold (findPdu1 t K T) || mayHold (tinsCast t K T)) = true) : succFast t K T = true := by
  unfold succFast
  split
  · rename_i f S ty hf hS hty
    simp only [findPdu1, tinsCast, hf, hty, matchesFlag_of_accepted hS f, mayHold] at h
    cases h1 : S.contains f <;> cases h2 : (f == ty) <;> simp_all
  · rfl

end Tins.Lookup
