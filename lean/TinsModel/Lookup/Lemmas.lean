import TinsModel.Lookup.Model
import TinsModel.Lookup.Spec
/-
  C13 — helper lemmas (generic in the table): the executable `isA` decides the declarative `IsA`; what a result of
  the chain walk `findPduChain` means; reflection of the Boolean table scans used by `Props/C13.lean`.
-/
namespace Tins.Lookup

/-! ### `isA` decides `IsA` -/

theorem isA_sound (t : List ClassRow) : ∀ (fuel K T : Nat), isA t fuel K T = true → IsA t K T := by
  intro fuel
  induction fuel with
  | zero => intro K T h; simp [isA] at h
  | succ n ih =>
    intro K T h
    unfold isA at h
    split at h
    · simp at h
    · rename_i r hr
      simp only [Bool.or_eq_true, beq_iff_eq, List.any_eq_true] at h
      rcases h with h | ⟨b, hb, hbT⟩
      · subst h; exact IsA.refl hr
      · exact IsA.base hr hb (ih b T hbT)

theorem rankedFrom_spec : ∀ (rs : List ClassRow) (k : Nat), rankedFrom rs k = true →
    ∀ (i : Nat) (r : ClassRow), rs[i]? = some r → ∀ b ∈ r.bases, b < k + i := by
  intro rs
  induction rs with
  | nil => intro k _ i r h; simp at h
  | cons x xs ih =>
    intro k h i r hr b hb
    simp only [rankedFrom, Bool.and_eq_true, List.all_eq_true, decide_eq_true_eq] at h
    cases i with
    | zero =>
      simp only [List.getElem?_cons_zero, Option.some.injEq] at hr
      subst hr
      have := h.1 b hb
      omega
    | succ j =>
      simp only [List.getElem?_cons_succ] at hr
      have := ih (k + 1) h.2 j r hr b hb
      omega

/-- in a ranked table every base precedes the derived class -/
theorem ranked_lt {t : List ClassRow} (hr : rankedB t = true) {k : Nat} {r : ClassRow}
    (h : t[k]? = some r) {b : Nat} (hb : b ∈ r.bases) : b < k := by
  have := rankedFrom_spec t 0 hr k r h b hb
  omega

theorem isA_complete {t : List ClassRow} (hr : rankedB t = true) {K T : Nat} (h : IsA t K T) :
    ∀ fuel, K < fuel → isA t fuel K T = true := by
  induction h with
  | @refl k r hk =>
    intro fuel hf
    cases fuel with
    | zero => omega
    | succ n => unfold isA; simp [hk]
  | @base k b T r hk hb _ ih =>
    intro fuel hf
    cases fuel with
    | zero => omega
    | succ n =>
      unfold isA
      simp only [hk, Bool.or_eq_true, beq_iff_eq, List.any_eq_true]
      have hlt : b < k := ranked_lt hr hk hb
      exact Or.inr ⟨b, hb, ih n (by omega)⟩

theorem lt_length_of_getElem? {α} {l : List α} {i : Nat} {a : α} (h : l[i]? = some a) : i < l.length := by
  rcases List.getElem?_eq_some_iff.mp h with ⟨hi, _⟩
  exact hi

/-- on a ranked table the oracle `isAB` (fuel = number of classes) is exactly the declarative `IsA` -/
theorem isAB_iff {t : List ClassRow} (hr : rankedB t = true) (K T : Nat) : isAB t K T = true ↔ IsA t K T := by
  constructor
  · exact isA_sound t _ K T
  · intro h
    have hK : K < t.length := by
      cases h with
      | refl hk => exact lt_length_of_getElem? hk
      | base hk _ _ => exact lt_length_of_getElem? hk
    exact isA_complete hr h t.length hK

/-! ### the chain walk of `find_pdu` -/

/-- what a non-null result of `find_pdu` means: the layer handed back passed the flag test and no earlier layer did -/
theorem findPduChain_some (t : Table) (flag : Nat) : ∀ (chain : List Nat) (i : Nat),
    findPduChain t flag chain = some i →
    (∃ K, chain[i]? = some K ∧ mayHold (matchesFlag t K flag) = true) ∧
    (∀ j K', j < i → chain[j]? = some K' → matchesFlag t K' flag = some false) := by
  intro chain
  induction chain with
  | nil => intro i h; simp [findPduChain] at h
  | cons k rest ih =>
    intro i h
    unfold findPduChain at h
    split at h
    · rename_i hk
      simp only [Option.some.injEq] at h
      subst h
      exact ⟨⟨k, by simp, hk⟩, by intro j K' hj; omega⟩
    · rename_i hk
      simp only [Option.map_eq_some_iff] at h
      rcases h with ⟨i', hi', rfl⟩
      rcases ih i' hi' with ⟨⟨K, hK, hm⟩, hbefore⟩
      refine ⟨⟨K, by simpa using hK, hm⟩, ?_⟩
      intro j K' hj hjK
      cases j with
      | zero =>
        simp only [List.getElem?_cons_zero, Option.some.injEq] at hjK
        subst hjK
        simp only [mayHold, bne_iff_ne, ne_eq, Decidable.not_not] at hk
        exact hk
      | succ j' =>
        simp only [List.getElem?_cons_succ] at hjK
        exact hbefore j' K' (by omega) hjK

/-- a null result of `find_pdu` means that no layer of the chain passes the flag test -/
theorem findPduChain_none (t : Table) (flag : Nat) : ∀ (chain : List Nat),
    findPduChain t flag chain = none → ∀ K ∈ chain, matchesFlag t K flag = some false := by
  intro chain
  induction chain with
  | nil => intro _ K hK; simp at hK
  | cons k rest ih =>
    intro h K hK
    unfold findPduChain at h
    split at h
    · simp at h
    · rename_i hk
      simp only [Option.map_eq_none_iff] at h
      rcases List.mem_cons.mp hK with rfl | hK'
      · simpa [mayHold] using hk
      · exact ih h K hK'

/-- if some layer (at position `j`) surely passes the flag test, `find_pdu` returns a layer at or before it -/
theorem findPduChain_finds (t : Table) (flag : Nat) : ∀ (chain : List Nat) (j K : Nat),
    chain[j]? = some K → matchesFlag t K flag = some true →
    ∃ i, findPduChain t flag chain = some i ∧ i ≤ j := by
  intro chain
  induction chain with
  | nil => intro j K h; simp at h
  | cons k rest ih =>
    intro j K hj hm
    unfold findPduChain
    split
    · exact ⟨0, rfl, Nat.zero_le _⟩
    · rename_i hk
      cases j with
      | zero =>
        simp only [List.getElem?_cons_zero, Option.some.injEq] at hj
        subst hj
        simp [mayHold, hm] at hk
      | succ j' =>
        simp only [List.getElem?_cons_succ] at hj
        rcases ih j' K hj hm with ⟨i, hi, hle⟩
        exact ⟨i + 1, by simp [hi], by omega⟩

/-! ### reflection of table scans -/

/-- Boolean scan of all pairs of classes -/
def allPairs (t : Table) (p : Nat → Nat → Bool) : Bool :=
  (List.range t.length).all fun K => (List.range t.length).all fun T => p K T

theorem allPairs_spec {t : Table} {p : Nat → Nat → Bool} (h : allPairs t p = true) :
    ∀ K T, K < t.length → T < t.length → p K T = true := by
  intro K T hK hT
  simp only [allPairs, List.all_eq_true, List.mem_range] at h
  exact h K hK T hT

def allClasses (t : Table) (p : Nat → Bool) : Bool := (List.range t.length).all p

theorem allClasses_spec {t : Table} {p : Nat → Bool} (h : allClasses t p = true) :
    ∀ K, K < t.length → p K = true := by
  intro K hK
  simp only [allClasses, List.all_eq_true, List.mem_range] at h
  exact h K hK

theorem concreteB_lt {t : Table} {K : Nat} (h : concreteB t K = true) : K < t.length := by
  unfold concreteB at h
  split at h
  · rename_i r hr; exact lt_length_of_getElem? hr
  · simp at h

theorem declaring_lt (t : Table) (has : ClassRow → Bool) : ∀ (fuel c d : Nat),
    declaring t has fuel c = some d → c < t.length := by
  intro fuel
  cases fuel with
  | zero => intro c d h; simp [declaring] at h
  | succ n =>
    intro c d h
    unfold declaring at h
    split at h
    · simp at h
    · rename_i r hr; exact lt_length_of_getElem? hr

theorem askableB_lt {t : Table} {T : Nat} (h : askableB t T = true) : T < t.length := by
  unfold askableB at h
  cases hd : declaring t (fun r => r.pduFlag.isSome) t.depth T with
  | none => simp [hd] at h
  | some d => exact declaring_lt t _ _ _ _ hd

end Tins.Lookup
